(* C09 — refinement of the datastore-backed model, part 9: garbage collection.
   Both modes (full purge; lookahead window) leave every peer's view unchanged and leave only
   unexpired entries in the datastore. *)
From Coq Require Import List ZArith Bool Lia Permutation.
From Verif Require Import lib.Wire gen.Consts_c09 c09.Abs c09.Model_mem c09.Model_ds c09.Spec
  c09.Proofs_mem c09.Proofs_ds c09.Proofs c09.Proofs_dsr_a c09.Proofs_dsr_d c09.Proofs_dsr_s c09.Proofs_dsr_r
  c09.Proofs_dsr_o c09.Proofs_dsr_w c09.Proofs_dsr_x.
Import ListNotations.
Local Open Scope Z_scope.

Definition fresh (u : Z) (r : drec) : Prop := forall e, In e (daddrs r) -> lv u e = true.

(* st is s after some cleaning: same clock, same views, no new peers *)
Record GI (s st : dbook) : Prop := mkGI {
  gi_inv : DInv st;
  gi_now : d_now st = d_now s;
  gi_views : forall q, lents (unix (d_now s)) (d_store st) q = lents (unix (d_now s)) (d_store s) q /\
                       vcert (unix (d_now s)) (d_store st) q = vcert (unix (d_now s)) (d_store s) q;
  gi_sub : forall q, In q (map dp (d_store st)) -> In q (map dp (d_store s))
}.

Lemma GI_refl s : DInv s -> GI s s.
Proof. intros H. constructor; tauto. Qed.

(* changes that do not touch clock, store, cache flags *)
Lemma GI_same_store s st st' :
  GI s st -> d_now st' = d_now st -> d_store st' = d_store st -> d_cache st' = [] -> d_cached st' = d_cached st ->
  d_look st' = d_look st -> GI s st'.
Proof.
  intros [[H1 H2 H3 H4 H5] Hn Hv Hs] E1 E2 E3 E4 E5. constructor.
  - constructor; congruence.
  - congruence.
  - now rewrite E2.
  - now rewrite E2.
Qed.

Lemma fresh_sorted u r : sorted_exp (daddrs r) -> has_expired r u = false -> fresh u r.
Proof.
  unfold has_expired, fresh. destruct (daddrs r) as [|x t]; [intros _ _ e []|]. intros [H1 _] Hx e He.
  apply Z.leb_gt in Hx. unfold lv. apply Z.ltb_lt. destruct He as [<-|He]; [lia|]. specialize (H1 e He). lia.
Qed.

(* clean the stored record of p, flush it if it changed *)
Lemma gi_cstep s st p r :
  GI s st -> find_dr p (d_store st) = Some r ->
  exists chg, clean (d_now s) (undirty r) = (cleaned (unix (d_now s)) r, chg) /\
    let st1 := if chg then set_store st (flush_store (cleaned (unix (d_now s)) r) (d_store st)) else st in
    GI s st1 /\
    (forall q, q <> p -> find_dr q (d_store st1) = find_dr q (d_store st)) /\
    (forall r', find_dr p (d_store st1) = Some r' -> fresh (unix (d_now s)) r').
Proof.
  intros [HD Hn Hv Hs] F. destruct (cstep_spec (d_now s) (d_store st) p r (DI_store st HD) F) as [chg [Cl [HS' [HP Hsub]]]].
  exists chg. split; [exact Cl|]. cbn zeta.
  set (st1 := if chg then set_store st (flush_store (cleaned (unix (d_now s)) r) (d_store st)) else st).
  assert (Es : d_store st1 = if chg then flush_store (cleaned (unix (d_now s)) r) (d_store st) else d_store st)
    by (unfold st1; now destruct chg).
  assert (Ef : frame st st1) by (unfold st1; destruct chg; [apply frame_set_store|apply frame_refl]).
  rewrite <- Es in HS', HP, Hsub.
  pose proof (put_at_cleaned (unix (d_now s)) p r _ _ F HP) as HV.
  split; [|split].
  - constructor.
    + apply (DInv_frame st); assumption.
    + destruct Ef as [E _]. congruence.
    + intros q. destruct (HV q) as [E1 E2]. destruct (Hv q) as [E3 E4]. split; congruence.
    + intros q Hq. apply Hs. now apply Hsub.
  - intros q Hq. rewrite (HP q). destruct (Z.eqb_spec p q); [congruence|reflexivity].
  - intros r' Fr. rewrite (HP p), Z.eqb_refl in Fr. cbn [cleaned daddrs dcert] in Fr.
    destruct (filter (lv (unix (d_now s))) (daddrs r)) as [|x t] eqn:EL; [discriminate|]. injection Fr as <-.
    intros e He. cbn [daddrs] in He. rewrite <- EL in He. apply filter_In in He. tauto.
Qed.

Lemma in_store_find st r : SInv st -> In r st -> find_dr (dp r) st = Some r.
Proof. intros HS Hr. apply in_find_dr; [apply HS|exact Hr]. Qed.

(* ---- full purge ----------------------------------------------------------------------------------- *)
Lemma purge_store_spec s : DInv s ->
  GI s (d_purge_store s) /\ forall r, In r (d_store (d_purge_store s)) -> fresh (unix (d_now s)) r.
Proof.
  intros HD. rewrite purge_store_unfold.
  assert (G : forall l st, GI s st -> NoDup (map dp l) ->
              (forall r, In r l -> find_dr (dp r) (d_store st) = Some r) ->
              (forall r', In r' (d_store st) -> (exists r, In r l /\ dp r = dp r') \/ fresh (unix (d_now s)) r') ->
              GI s (fold_left (purge_store_step (d_now s)) l st) /\
              forall r, In r (d_store (fold_left (purge_store_step (d_now s)) l st)) -> fresh (unix (d_now s)) r).
  { induction l as [|r l' IH]; intros st HG Hnd Hl Hf; cbn [fold_left].
    - split; [exact HG|]. intros r Hr. destruct (Hf r Hr) as [[r0 [[] _]]|H]; exact H.
    - cbn [map] in Hnd. apply NoDup_cons_iff in Hnd. destruct Hnd as [Hr Hnd'].
      destruct (gi_cstep s st (dp r) r HG (Hl r (or_introl eq_refl))) as [chg [Cl [HG1 [Ho Hp]]]]. cbn zeta in *.
      set (st1 := if chg then set_store st (flush_store (cleaned (unix (d_now s)) r) (d_store st)) else st) in *.
      set (st2 := if chg then set_cache (set_store st (flush_store (cleaned (unix (d_now s)) r) (d_store st)))
                                        (del_dr (dp r) (d_cache st)) else st).
      assert (Eps : purge_store_step (d_now s) st r = st2) by (unfold purge_store_step, st2; now rewrite Cl).
      rewrite Eps.
      assert (E2 : d_store st2 = d_store st1) by (unfold st2, st1; now destruct chg).
      assert (HG2 : GI s st2).
      { apply (GI_same_store s st1); [exact HG1| | | | |]; unfold st2, st1; destruct chg; try reflexivity.
        - cbn [set_cache d_cache]. rewrite (DI_cache st (gi_inv _ _ HG)). reflexivity.
        - apply (DI_cache st (gi_inv _ _ HG)). }
      apply IH; [exact HG2|exact Hnd'| |].
      + intros r2 Hr2. rewrite E2. rewrite Ho; [now apply Hl; right|].
        intros E. apply Hr. rewrite <- E. now apply in_map.
      + intros r' Hr'. rewrite E2 in Hr'. pose proof (in_store_find _ _ (DI_store _ (gi_inv _ _ HG1)) Hr') as Fr'.
        destruct (Z.eq_dec (dp r') (dp r)) as [E|E].
        * right. apply Hp. now rewrite <- E.
        * rewrite (Ho _ E) in Fr'. destruct (Hf r' (find_in _ _ _ Fr')) as [[r0 [[<-|Hin] Hd]]|H]; [congruence| |now right].
          left. exists r0. tauto. }
  apply G.
  - now apply GI_refl.
  - apply (DI_store s HD).
  - intros r Hr. now apply in_store_find; [apply HD|].
  - intros r' Hr'. left. exists r'. tauto.
Qed.

(* ---- lookahead GC -------------------------------------------------------------------------------------- *)
Lemma key_eqb_eq k k' : key_eqb k k' = true <-> k = k'.
Proof.
  unfold key_eqb. destruct k as [a b], k' as [a' b']. cbn [fst snd]. rewrite andb_true_iff, !Z.eqb_eq.
  split; [intros [-> ->]; reflexivity|intros E; injection E as -> ->; tauto].
Qed.

Lemma put_key_in k ks : In k (put_key k ks).
Proof.
  unfold put_key. destruct (existsb (key_eqb k) ks) eqn:E.
  - apply existsb_exists in E. destruct E as [k' [Hin Hk]]. apply key_eqb_eq in Hk. now subst.
  - apply in_or_app. right. now left.
Qed.

Lemma put_key_mono k k' ks : In k' ks -> In k' (put_key k ks).
Proof. unfold put_key. destruct (existsb (key_eqb k) ks); [tauto|]. intros H. apply in_or_app. now left. Qed.

Lemma pop_step_mono s until ks p k : In k ks -> In k (pop_step s until ks p).
Proof.
  intros H. unfold pop_step. destruct (match find_dr p (d_cache s) with Some c => Some c | None => find_dr p (d_store s) end) as [r|]; [|exact H].
  destruct (daddrs r) as [|e t]; [exact H|]. destruct (dexp e <=? until); [now apply put_key_mono|exact H].
Qed.

Lemma pop_fold_mono s until k : forall ps ks, In k ks -> In k (fold_left (pop_step s until) ps ks).
Proof. induction ps as [|p t IH]; intros ks H; cbn [fold_left]; [exact H|]. apply IH. now apply pop_step_mono. Qed.

Lemma pop_fold_add s until p k : (forall ks, In k (pop_step s until ks p)) ->
  forall ps ks, In p ps -> In k (fold_left (pop_step s until) ps ks).
Proof.
  intros Hk. induction ps as [|q t IH]; intros ks Hp; [destruct Hp|]. cbn [fold_left].
  destruct Hp as [->|Hp]; [apply pop_fold_mono; apply Hk|now apply IH].
Qed.

Lemma populate_keys s r : DInv s -> In r (d_store s) -> has_expired r (unix (d_now s)) = true ->
  exists ts, ts <= unix (d_now s) /\ In (ts, dp r) (d_keys (d_populate s)).
Proof.
  intros HD Hr Hx. rewrite populate_unfold. cbn [set_keys d_keys]. unfold has_expired in Hx.
  destruct (daddrs r) as [|e t] eqn:D; [discriminate|]. apply Z.leb_le in Hx. exists (dexp e). split; [exact Hx|].
  apply (pop_fold_add s _ (dp r)); [|now apply in_map].
  intros ks. unfold pop_step. rewrite (DI_cache s HD). cbn [find_dr find]. fold (find_dr (dp r) (d_store s)).
  rewrite (in_store_find _ _ (DI_store s HD) Hr), D.
  assert (Hu : unix (d_now s) <= unix (d_now s + d_look s)) by (apply unix_mono; pose proof (DI_look s HD); lia).
  replace (dexp e <=? unix (d_now s + d_look s)) with true by (symmetry; apply Z.leb_le; lia). apply put_key_in.
Qed.

Lemma look_step_spec s st k :
  GI s st ->
  let st' := look_step (d_now s) st k in
  GI s st' /\
  (fst k <= unix (d_now s) -> forall r', In r' (d_store st') -> dp r' = snd k -> fresh (unix (d_now s)) r') /\
  (forall r', In r' (d_store st') -> dp r' <> snd k \/ unix (d_now s) < fst k -> In r' (d_store st)).
Proof.
  intros HG. cbn zeta. unfold look_step. destruct (Z.ltb_spec (unix (d_now s)) (fst k)) as [Hk|Hk].
  { split; [exact HG|split; [lia|tauto]]. }
  cbn zeta. rewrite (DI_cache st (gi_inv _ _ HG)). cbn [find_dr find]. fold (find_dr (snd k) (d_store st)).
  destruct (find_dr (snd k) (d_store st)) as [r|] eqn:F.
  - destruct (gi_cstep s st (snd k) r HG F) as [chg [Cl [HG1 [Ho Hp]]]]. cbn zeta in *. rewrite Cl.
    set (st1 := if chg then set_store st (flush_store (cleaned (unix (d_now s)) r) (d_store st)) else st) in *.
    split; [|split].
    + apply (GI_same_store s st1); try reflexivity; [exact HG1|]. cbn [set_keys d_cache]. apply (DI_cache st1 (gi_inv _ _ HG1)).
    + intros _ r' Hr' Hd. cbn [set_keys d_store] in Hr'. apply Hp. rewrite <- Hd.
      apply in_store_find; [apply (gi_inv _ _ HG1)|exact Hr'].
    + intros r' Hr' [Hd|Hd]; [|lia]. cbn [set_keys d_store] in Hr'.
      pose proof (in_store_find _ _ (DI_store _ (gi_inv _ _ HG1)) Hr') as Fr'. rewrite (Ho _ Hd) in Fr'. now apply (find_in _ _ _ Fr').
  - split; [|split].
    + apply (GI_same_store s st); try reflexivity; [exact HG|]. cbn [set_keys d_cache]. apply (DI_cache st (gi_inv _ _ HG)).
    + intros _ r' Hr' Hd. cbn [set_keys d_store] in Hr'. exfalso.
      pose proof (in_store_find _ _ (DI_store _ (gi_inv _ _ HG)) Hr') as Fr'. rewrite Hd in Fr'. congruence.
    + intros r' Hr' _. exact Hr'.
Qed.

Lemma purge_look_spec s sp : DInv s -> GI s sp -> d_now sp = d_now s ->
  (forall r, In r (d_store sp) -> fresh (unix (d_now s)) r \/ exists ts, ts <= unix (d_now s) /\ In (ts, dp r) (d_keys sp)) ->
  GI s (d_purge_look sp) /\ forall r, In r (d_store (d_purge_look sp)) -> fresh (unix (d_now s)) r.
Proof.
  intros HD HG Hn Hk. rewrite purge_look_unfold, Hn.
  assert (G : forall l st, GI s st ->
              (forall r, In r (d_store st) -> fresh (unix (d_now s)) r \/ exists ts, ts <= unix (d_now s) /\ In (ts, dp r) l) ->
              GI s (fold_left (look_step (d_now s)) l st) /\
              forall r, In r (d_store (fold_left (look_step (d_now s)) l st)) -> fresh (unix (d_now s)) r).
  { induction l as [|k l' IH]; intros st HGs Hf; cbn [fold_left].
    - split; [exact HGs|]. intros r Hr. destruct (Hf r Hr) as [H|[ts [_ []]]]. exact H.
    - destruct (look_step_spec s st k HGs) as [HG' [Hfr Hold]]. cbn zeta in *. apply IH; [exact HG'|].
      intros r' Hr'. destruct (Z.eq_dec (dp r') (snd k)) as [E|E].
      + destruct (Z.le_gt_cases (fst k) (unix (d_now s))) as [Hle|Hgt]; [left; now apply Hfr|].
        destruct (Hf r' (Hold r' Hr' (or_intror Hgt))) as [H|[ts [Hts [Hin|Hin]]]]; [now left| |right; now exists ts].
        rewrite Hin in Hgt. cbn [fst] in Hgt. lia.
      + destruct (Hf r' (Hold r' Hr' (or_introl E))) as [H|[ts [Hts [Hin|Hin]]]]; [now left| |right; now exists ts].
        rewrite Hin in E. cbn [snd] in E. congruence. }
  now apply G.
Qed.

Lemma gc_spec s : DInv s ->
  GI s (d_gc s) /\ forall r, In r (d_store (d_gc s)) -> fresh (unix (d_now s)) r.
Proof.
  intros HD. unfold d_gc. destruct (d_look s =? 0); [now apply purge_store_spec|].
  assert (HGp : GI s (d_populate s)).
  { apply (GI_same_store s s); try (rewrite populate_unfold; reflexivity); [now apply GI_refl|].
    rewrite populate_unfold. cbn [set_keys d_cache]. apply HD. }
  apply purge_look_spec; [exact HD|exact HGp|now rewrite populate_unfold|].
  intros r Hr. assert (Hr0 : In r (d_store s)) by (rewrite populate_unfold in Hr; exact Hr).
  destruct (has_expired r (unix (d_now s))) eqn:Hx.
  - right. now apply populate_keys.
  - left. apply fresh_sorted; [|exact Hx]. now apply (SI_sorted _ (DI_store s HD)).
Qed.

(* ---- counting: what GC reports ------------------------------------------------------------------------------ *)
Definition zsum {A} (f : A -> Z) (l : list A) : Z := fold_right (fun x n => f x + n) 0 l.

Lemma fold_left_zsum {A} (f : A -> Z) l : forall n0, fold_left (fun n x => n + f x) l n0 = n0 + zsum f l.
Proof. induction l as [|x t IH]; intros n0; cbn [fold_left zsum fold_right]; [lia|]. rewrite IH. unfold zsum. lia. Qed.

Lemma zsum_ext_in {A} (f g : A -> Z) l : (forall x, In x l -> f x = g x) -> zsum f l = zsum g l.
Proof.
  induction l as [|x t IH]; intros H; cbn [zsum fold_right]; [reflexivity|].
  rewrite (H x (or_introl eq_refl)). f_equal. apply IH. intros y Hy. apply H. now right.
Qed.

Lemma zsum_map {A B} (g : A -> B) (f : B -> Z) l : zsum f (map g l) = zsum (fun x => f (g x)) l.
Proof. induction l as [|x t IH]; cbn [map zsum fold_right]; [reflexivity|]. f_equal. exact IH. Qed.

Lemma zlen_cons {A} (x : A) l : zlen' (x :: l) = 1 + zlen' l.
Proof. unfold zlen'. cbn [length]. lia. Qed.

Lemma filter_len_split {A} (f : A -> bool) l :
  zlen' l = zlen' (filter f l) + zlen' (filter (fun x => negb (f x)) l).
Proof.
  induction l as [|x t IH]; [reflexivity|]. cbn [filter]. destruct (f x); cbn [negb]; rewrite !zlen_cons; lia.
Qed.

Lemma length_partition {A} (k : A -> Z) ps : forall l,
  NoDup ps -> (forall x, In x l -> In (k x) ps) ->
  zlen' l = zsum (fun p => zlen' (filter (fun x => k x =? p) l)) ps.
Proof.
  induction ps as [|p ps' IH]; intros l Hn Hl; cbn [zsum fold_right].
  - destruct l as [|x t]; [reflexivity|]. destruct (Hl x (or_introl eq_refl)).
  - apply NoDup_cons_iff in Hn. destruct Hn as [Hp Hn'].
    rewrite (filter_len_split (fun x => k x =? p) l). f_equal.
    rewrite (IH (filter (fun x => negb (k x =? p)) l) Hn').
    + apply zsum_ext_in. intros q Hq. f_equal. rewrite filter_filter. apply filter_ext. intros x.
      destruct (Z.eqb_spec (k x) q) as [E|E]; [|now rewrite andb_false_r].
      destruct (Z.eqb_spec (k x) p); [exfalso; apply Hp; congruence|reflexivity].
    + intros x Hx. apply filter_In in Hx. destruct Hx as [Hx Hne]. apply negb_true_iff, Z.eqb_neq in Hne.
      destruct (Hl x Hx) as [E|Hin]; [congruence|exact Hin].
Qed.

Lemma zlen_filter_zsum {A} (f : A -> bool) l : zlen' (filter f l) = zsum (fun x => if f x then 1 else 0) l.
Proof.
  induction l as [|x t IH]; [reflexivity|]. cbn [filter zsum fold_right]. destruct (f x); [rewrite zlen_cons|]; rewrite IH; reflexivity.
Qed.

Lemma zlen_find_rec p recs :
  NoDup (map rp recs) ->
  zlen' (filter (fun r => rp r =? p) recs) = match find_rec p recs with Some _ => 1 | None => 0 end.
Proof.
  unfold find_rec. induction recs as [|r t IH]; intros Hn; [reflexivity|]. cbn [filter find map] in *.
  apply NoDup_cons_iff in Hn. destruct Hn as [Hr Ht]. destruct (Z.eqb_spec (rp r) p) as [E|E]; [|now apply IH].
  rewrite zlen_cons, (IH Ht). destruct (find (fun r0 => rp r0 =? p) t) as [r'|] eqn:F; [|reflexivity].
  exfalso. apply Hr. apply find_some in F. destruct F as [Hin Hp]. apply Z.eqb_eq in Hp. rewrite E, <- Hp. now apply in_map.
Qed.

Lemma addrs_perm a s p :
  AInv a -> DInv s -> Rel a s -> Permutation (a_addrs a p) (map da (lents (unix (d_now s)) (d_store s) p)).
Proof.
  intros HA HD HR. apply NoDup_Permutation.
  - apply nodup_addrs. apply HA.
  - apply (lents_sorted _ _ _ (DI_store s HD)).
  - intros x. rewrite in_a_addrs, in_map_da. pose proof (rel_kv a s p x HR) as K.
    destruct (find_ent p x (a_ents a)) as [e|], (find_de x (lents (unix (d_now s)) (d_store s) p)) as [d|];
      cbn [option_map] in K; try discriminate; split; intros [y Hy]; try discriminate; eauto.
Qed.

(* a book whose datastore holds only unexpired entries stores exactly the abstract book *)
Lemma fresh_counts a s :
  AInv a -> DInv s -> Rel a s -> (forall r, In r (d_store s) -> fresh (unix (d_now s)) r) ->
  d_stored s = zlen' (a_ents a) /\ d_nrecs s = zlen' (a_recs a).
Proof.
  intros HA HD HR Hf. pose proof (DI_store s HD) as HS.
  assert (Hl : forall r, In r (d_store s) -> lents (unix (d_now s)) (d_store s) (dp r) = daddrs r).
  { intros r Hr. unfold lents. rewrite (in_store_find _ _ HS Hr). apply filter_id. now apply Hf. }
  assert (Hps : forall q, In q (a_peers a) -> In q (map dp (d_store s))) by (intros q; apply (peers_sub_d a s q HR)).
  split.
  - unfold d_stored. rewrite fold_left_zsum, Z.add_0_l.
    rewrite (length_partition ep (map dp (d_store s)) (a_ents a) (SI_keys _ HS)).
    + rewrite zsum_map. apply zsum_ext_in. intros r Hr. symmetry.
      pose proof (Permutation_length (addrs_perm a s (dp r) HA HD HR)) as PL. unfold a_addrs in PL.
      rewrite !map_length, (Hl r Hr) in PL. unfold zlen'. now rewrite PL.
    + intros e He. apply Hps. unfold a_peers. apply in_zdedup. now apply in_map.
  - unfold d_nrecs. rewrite zlen_filter_zsum.
    rewrite (length_partition rp (map dp (d_store s)) (a_recs a) (SI_keys _ HS)).
    + rewrite zsum_map. apply zsum_ext_in. intros r Hr. rewrite (zlen_find_rec _ _ (AI_rkeys a HA)).
      destruct HR as [_ HRp]. rewrite (proj2 (HRp (dp r))). unfold vcert. rewrite (in_store_find _ _ HS Hr).
      pose proof (Hl r Hr) as E. unfold lents in E. rewrite (in_store_find _ _ HS Hr) in E. rewrite E.
      destruct (daddrs r) eqn:D; [exfalso; now apply (SI_nonempty _ HS r Hr)|]. now destruct (dcert r).
    + intros r Hr. apply Hps. apply in_a_peers. now apply (AI_recs a HA).
Qed.

Lemma dstep_gc a s : AInv a -> DInv s -> Rel a s -> dstep_ok a s OGC.
Proof.
  intros HA HD HR. unfold dstep_ok. cbn [d_step a_step]. destruct (gc_spec s HD) as [[HD' Hn Hv Hs] Hf].
  assert (HR' : Rel a (d_gc s)).
  { destruct HR as [Hna HRp]. split; [congruence|]. rewrite Hn. intros q. destruct (Hv q) as [E1 E2]. unfold prel. rewrite E1, E2. apply HRp. }
  rewrite <- Hn in Hf. destruct (fresh_counts a (d_gc s) HA HD' HR' Hf) as [E1 E2].
  split; [exact HA|split; [exact HD'|split; [exact HR'|split; [|intros q Hq; right; now apply Hs]]]].
  cbn [obs_rel_d norm_obs]. now rewrite E1, E2.
Qed.

(* after GC every listed peer has a live address *)
Lemma gc_peers a s q : AInv a -> DInv s -> Rel a s -> In q (map dp (d_store (d_gc s))) -> In q (a_peers a).
Proof.
  intros HA HD HR Hq. destruct (gc_spec s HD) as [[HD' Hn Hv Hs] Hf].
  apply in_a_peers. destruct HR as [_ HRp]. apply (has_peer_rel _ _ _ _ (proj1 (HRp q))).
  rewrite <- (proj1 (Hv q)). apply in_map_iff in Hq. destruct Hq as [r [<- Hr]].
  unfold lents. rewrite (in_store_find _ _ (DI_store _ HD') Hr). rewrite (filter_id _ _ (Hf r Hr)).
  apply (SI_nonempty _ (DI_store _ HD') r Hr).
Qed.

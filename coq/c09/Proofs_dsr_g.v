(* C09 — refinement of the datastore-backed model, part 9: garbage collection.
   Both modes (full purge; lookahead window) leave every peer's view unchanged and leave only
   unexpired entries in the datastore. *)
From Coq Require Import List ZArith Bool Lia Permutation.
From Verif Require Import lib.Wire gen.Consts_c09 c09.Abs c09.Model_mem c09.Model_ds c09.Spec
  c09.Proofs_mem c09.Proofs_ds c09.Proofs c09.Proofs_dsr_a c09.Proofs_dsr_d c09.Proofs_dsr_s c09.Proofs_dsr_r
  c09.Proofs_dsr_o c09.Proofs_dsr_w c09.Proofs_dsr_x.
Import ListNotations.
Local Open Scope Z_scope.

Definition fresh (u : Z) (r : drec) : Prop := forall e, In e (daddrs r) -> lv u e = true.

(* st is s after some cleaning: same clock, same views, no new peers *)
Record GI (s st : dbook) : Prop := mkGI {
  gi_inv : DInv st;
  gi_now : d_now st = d_now s;
  gi_views : forall q, lents (unix (d_now s)) (d_store st) q = lents (unix (d_now s)) (d_store s) q /\
                       vcert (unix (d_now s)) (d_store st) q = vcert (unix (d_now s)) (d_store s) q;
  gi_sub : forall q, In q (map dp (d_store st)) -> In q (map dp (d_store s))
}.

Lemma GI_refl s : DInv s -> GI s s.
Proof. intros H. constructor; tauto. Qed.

(* changes that do not touch clock, store, cache flags *)
Lemma GI_same_store s st st' :
  GI s st -> d_now st' = d_now st -> d_store st' = d_store st -> d_cache st' = [] -> d_cached st' = d_cached st ->
  d_look st' = d_look st -> GI s st'.
Proof.
  intros [[H1 H2 H3 H4 H5] Hn Hv Hs] E1 E2 E3 E4 E5. constructor.
  - constructor; congruence.
  - congruence.
  - now rewrite E2.
  - now rewrite E2.
Qed.

Lemma fresh_sorted u r : sorted_exp (daddrs r) -> has_expired r u = false -> fresh u r.
Proof.
  unfold has_expired, fresh. destruct (daddrs r) as [|x t]; [intros _ _ e []|]. intros [H1 _] Hx e He.
  apply Z.leb_gt in Hx. unfold lv. apply Z.ltb_lt. destruct He as [<-|He]; [lia|]. specialize (H1 e He). lia.
Qed.

(* clean the stored record of p, flush it if it changed *)
Lemma gi_cstep s st p r :
  GI s st -> find_dr p (d_store st) = Some r ->
  exists chg, clean (d_now s) (undirty r) = (cleaned (unix (d_now s)) r, chg) /\
    let st1 := if chg then set_store st (flush_store (cleaned (unix (d_now s)) r) (d_store st)) else st in
    GI s st1 /\
    (forall q, q <> p -> find_dr q (d_store st1) = find_dr q (d_store st)) /\
    (forall r', find_dr p (d_store st1) = Some r' -> fresh (unix (d_now s)) r').
Proof.
  intros [HD Hn Hv Hs] F. destruct (cstep_spec (d_now s) (d_store st) p r (DI_store st HD) F) as [chg [Cl [HS' [HP Hsub]]]].
  exists chg. split; [exact Cl|]. cbn zeta.
  set (st1 := if chg then set_store st (flush_store (cleaned (unix (d_now s)) r) (d_store st)) else st).
  assert (Es : d_store st1 = if chg then flush_store (cleaned (unix (d_now s)) r) (d_store st) else d_store st)
    by (unfold st1; now destruct chg).
  assert (Ef : frame st st1) by (unfold st1; destruct chg; [apply frame_set_store|apply frame_refl]).
  rewrite <- Es in HS', HP, Hsub.
  pose proof (put_at_cleaned (unix (d_now s)) p r _ _ F HP) as HV.
  split; [|split].
  - constructor.
    + apply (DInv_frame st); assumption.
    + destruct Ef as [E _]. congruence.
    + intros q. destruct (HV q) as [E1 E2]. destruct (Hv q) as [E3 E4]. split; congruence.
    + intros q Hq. apply Hs. now apply Hsub.
  - intros q Hq. rewrite (HP q). destruct (Z.eqb_spec p q); [congruence|reflexivity].
  - intros r' Fr. rewrite (HP p), Z.eqb_refl in Fr. cbn [cleaned daddrs dcert] in Fr.
    destruct (filter (lv (unix (d_now s))) (daddrs r)) as [|x t] eqn:EL; [discriminate|]. injection Fr as <-.
    intros e He. cbn [daddrs] in He. rewrite <- EL in He. apply filter_In in He. tauto.
Qed.

Lemma in_store_find st r : SInv st -> In r st -> find_dr (dp r) st = Some r.
Proof. intros HS Hr. apply in_find_dr; [apply HS|exact Hr]. Qed.

(* ---- full purge ----------------------------------------------------------------------------------- *)
Lemma purge_store_spec s : DInv s ->
  GI s (d_purge_store s) /\ forall r, In r (d_store (d_purge_store s)) -> fresh (unix (d_now s)) r.
Proof.
  intros HD. rewrite purge_store_unfold.
  assert (G : forall l st, GI s st -> NoDup (map dp l) ->
              (forall r, In r l -> find_dr (dp r) (d_store st) = Some r) ->
              (forall r', In r' (d_store st) -> (exists r, In r l /\ dp r = dp r') \/ fresh (unix (d_now s)) r') ->
              GI s (fold_left (purge_store_step (d_now s)) l st) /\
              forall r, In r (d_store (fold_left (purge_store_step (d_now s)) l st)) -> fresh (unix (d_now s)) r).
  { induction l as [|r l' IH]; intros st HG Hnd Hl Hf; cbn [fold_left].
    - split; [exact HG|]. intros r Hr. destruct (Hf r Hr) as [[r0 [[] _]]|H]; exact H.
    - cbn [map] in Hnd. apply NoDup_cons_iff in Hnd. destruct Hnd as [Hr Hnd'].
      destruct (gi_cstep s st (dp r) r HG (Hl r (or_introl eq_refl))) as [chg [Cl [HG1 [Ho Hp]]]]. cbn zeta in *.
      set (st1 := if chg then set_store st (flush_store (cleaned (unix (d_now s)) r) (d_store st)) else st) in *.
      set (st2 := if chg then set_cache (set_store st (flush_store (cleaned (unix (d_now s)) r) (d_store st)))
                                        (del_dr (dp r) (d_cache st)) else st).
      assert (Eps : purge_store_step (d_now s) st r = st2) by (unfold purge_store_step, st2; now rewrite Cl).
      rewrite Eps.
      assert (E2 : d_store st2 = d_store st1) by (unfold st2, st1; now destruct chg).
      assert (HG2 : GI s st2).
      { apply (GI_same_store s st1); [exact HG1| | | | |]; unfold st2, st1; destruct chg; try reflexivity.
        - cbn [set_cache d_cache]. rewrite (DI_cache st (gi_inv _ _ HG)). reflexivity.
        - apply (DI_cache st (gi_inv _ _ HG)). }
      apply IH; [exact HG2|exact Hnd'| |].
      + intros r2 Hr2. rewrite E2. rewrite Ho; [now apply Hl; right|].
        intros E. apply Hr. rewrite <- E. now apply in_map.
      + intros r' Hr'. rewrite E2 in Hr'. pose proof (in_store_find _ _ (DI_store _ (gi_inv _ _ HG1)) Hr') as Fr'.
        destruct (Z.eq_dec (dp r') (dp r)) as [E|E].
        * right. apply Hp. now rewrite <- E.
        * rewrite (Ho _ E) in Fr'. destruct (Hf r' (find_in _ _ _ Fr')) as [[r0 [[<-|Hin] Hd]]|H]; [congruence| |now right].
          left. exists r0. tauto. }
  apply G.
  - now apply GI_refl.
  - apply (DI_store s HD).
  - intros r Hr. now apply in_store_find; [apply HD|].
  - intros r' Hr'. left. exists r'. tauto.
Qed.

(* ---- lookahead GC -------------------------------------------------------------------------------------- *)
Lemma key_eqb_eq k k' : key_eqb k k' = true <-> k = k'.
Proof.
  unfold key_eqb. destruct k as [a b], k' as [a' b']. cbn [fst snd]. rewrite andb_true_iff, !Z.eqb_eq.
  split; [intros [-> ->]; reflexivity|intros E; injection E as -> ->; tauto].
Qed.

Lemma put_key_in k ks : In k (put_key k ks).
Proof.
  unfold put_key. destruct (existsb (key_eqb k) ks) eqn:E.
  - apply existsb_exists in E. destruct E as [k' [Hin Hk]]. apply key_eqb_eq in Hk. now subst.
  - apply in_or_app. right. now left.
Qed.

Lemma put_key_mono k k' ks : In k' ks -> In k' (put_key k ks).
Proof. unfold put_key. destruct (existsb (key_eqb k) ks); [tauto|]. intros H. apply in_or_app. now left. Qed.

Lemma pop_step_mono s until ks p k : In k ks -> In k (pop_step s until ks p).
Proof.
  intros H. unfold pop_step. destruct (match find_dr p (d_cache s) with Some c => Some c | None => find_dr p (d_store s) end) as [r|]; [|exact H].
  destruct (daddrs r) as [|e t]; [exact H|]. destruct (dexp e <=? until); [now apply put_key_mono|exact H].
Qed.

Lemma pop_fold_mono s until k : forall ps ks, In k ks -> In k (fold_left (pop_step s until) ps ks).
Proof. induction ps as [|p t IH]; intros ks H; cbn [fold_left]; [exact H|]. apply IH. now apply pop_step_mono. Qed.

Lemma pop_fold_add s until p k : (forall ks, In k (pop_step s until ks p)) ->
  forall ps ks, In p ps -> In k (fold_left (pop_step s until) ps ks).
Proof.
  intros Hk. induction ps as [|q t IH]; intros ks Hp; [destruct Hp|]. cbn [fold_left].
  destruct Hp as [->|Hp]; [apply pop_fold_mono; apply Hk|now apply IH].
Qed.

Lemma populate_keys s r : DInv s -> In r (d_store s) -> has_expired r (unix (d_now s)) = true ->
  exists ts, ts <= unix (d_now s) /\ In (ts, dp r) (d_keys (d_populate s)).
Proof.
  intros HD Hr Hx. rewrite populate_unfold. cbn [set_keys d_keys]. unfold has_expired in Hx.
  destruct (daddrs r) as [|e t] eqn:D; [discriminate|]. apply Z.leb_le in Hx. exists (dexp e). split; [exact Hx|].
  apply (pop_fold_add s _ (dp r)); [|now apply in_map].
  intros ks. unfold pop_step. rewrite (DI_cache s HD). cbn [find_dr find]. fold (find_dr (dp r) (d_store s)).
  rewrite (in_store_find _ _ (DI_store s HD) Hr), D.
  assert (Hu : unix (d_now s) <= unix (d_now s + d_look s)) by (apply unix_mono; pose proof (DI_look s HD); lia).
  replace (dexp e <=? unix (d_now s + d_look s)) with true by (symmetry; apply Z.leb_le; lia). apply put_key_in.
Qed.

Lemma look_step_spec s st k :
  GI s st ->
  let st' := look_step (d_now s) st k in
  GI s st' /\
  (fst k <= unix (d_now s) -> forall r', In r' (d_store st') -> dp r' = snd k -> fresh (unix (d_now s)) r') /\
  (forall r', In r' (d_store st') -> dp r' <> snd k \/ unix (d_now s) < fst k -> In r' (d_store st)).
Proof.
  intros HG. cbn zeta. unfold look_step. destruct (Z.ltb_spec (unix (d_now s)) (fst k)) as [Hk|Hk].
  { split; [exact HG|split; [lia|tauto]]. }
  cbn zeta. rewrite (DI_cache st (gi_inv _ _ HG)). cbn [find_dr find]. fold (find_dr (snd k) (d_store st)).
  destruct (find_dr (snd k) (d_store st)) as [r|] eqn:F.
  - destruct (gi_cstep s st (snd k) r HG F) as [chg [Cl [HG1 [Ho Hp]]]]. cbn zeta in *. rewrite Cl.
    set (st1 := if chg then set_store st (flush_store (cleaned (unix (d_now s)) r) (d_store st)) else st) in *.
    split; [|split].
    + apply (GI_same_store s st1); try reflexivity; [exact HG1|]. cbn [set_keys d_cache]. apply (DI_cache st1 (gi_inv _ _ HG1)).
    + intros _ r' Hr' Hd. cbn [set_keys d_store] in Hr'. apply Hp. rewrite <- Hd.
      apply in_store_find; [apply (gi_inv _ _ HG1)|exact Hr'].
    + intros r' Hr' [Hd|Hd]; [|lia]. cbn [set_keys d_store] in Hr'.
      pose proof (in_store_find _ _ (DI_store _ (gi_inv _ _ HG1)) Hr') as Fr'. rewrite (Ho _ Hd) in Fr'. now apply (find_in _ _ _ Fr').
  - split; [|split].
    + apply (GI_same_store s st); try reflexivity; [exact HG|]. cbn [set_keys d_cache]. apply (DI_cache st (gi_inv _ _ HG)).
    + intros _ r' Hr' Hd. cbn [set_keys d_store] in Hr'. exfalso.
      pose proof (in_store_find _ _ (DI_store _ (gi_inv _ _ HG)) Hr') as Fr'. rewrite Hd in Fr'. congruence.
    + intros r' Hr' _. exact Hr'.
Qed.

Lemma purge_look_spec s sp : DInv s -> GI s sp -> d_now sp = d_now s ->
  (forall r, In r (d_store sp) -> fresh (unix (d_now s)) r \/ exists ts, ts <= unix (d_now s) /\ In (ts, dp r) (d_keys sp)) ->
  GI s (d_purge_look sp) /\ forall r, In r (d_store (d_purge_look sp)) -> fresh (unix (d_now s)) r.
Proof.
  intros HD HG Hn Hk. rewrite purge_look_unfold, Hn.
  assert (G : forall l st, GI s st ->
              (forall r, In r (d_store st) -> fresh (unix (d_now s)) r \/ exists ts, ts <= unix (d_now s) /\ In (ts, dp r) l) ->
              GI s (fold_left (look_step (d_now s)) l st) /\
              forall r, In r (d_store (fold_left (look_step (d_now s)) l st)) -> fresh (unix (d_now s)) r).
  { induction l as [|k l' IH]; intros st HGs Hf; cbn [fold_left].
    - split; [exact HGs|]. intros r Hr. destruct (Hf r Hr) as [H|[ts [_ []]]]. exact H.
    - destruct (look_step_spec s st k HGs) as [HG' [Hfr Hold]]. cbn zeta in *. apply IH; [exact HG'|].
      intros r' Hr'. destruct (Z.eq_dec (dp r') (snd k)) as [E|E].
      + destruct (Z.le_gt_cases (fst k) (unix (d_now s))) as [Hle|Hgt]; [left; now apply Hfr|].
        destruct (Hf r' (Hold r' Hr' (or_intror Hgt))) as [H|[ts [Hts [Hin|Hin]]]]; [now left| |right; now exists ts].
        rewrite Hin in Hgt. cbn [fst] in Hgt. lia.
      + destruct (Hf r' (Hold r' Hr' (or_introl E))) as [H|[ts [Hts [Hin|Hin]]]]; [now left| |right; now exists ts].
        rewrite Hin in E. cbn [snd] in E. congruence. }
  now apply G.
Qed.

Lemma gc_spec s : DInv s ->
  GI s (d_gc s) /\ forall r, In r (d_store (d_gc s)) -> fresh (unix (d_now s)) r.
Proof.
  intros HD. unfold d_gc. destruct (d_look s =? 0); [now apply purge_store_spec|].
  assert (HGp : GI s (d_populate s)).
  { apply (GI_same_store s s); try (rewrite populate_unfold; reflexivity); [now apply GI_refl|].
    rewrite populate_unfold. cbn [set_keys d_cache]. apply HD. }
  apply purge_look_spec; [exact HD|exact HGp|now rewrite populate_unfold|].
  intros r Hr. assert (Hr0 : In r (d_store s)) by (rewrite populate_unfold in Hr; exact Hr).
  destruct (has_expired r (unix (d_now s))) eqn:Hx.
  - right. now apply populate_keys.
  - left. apply fresh_sorted; [|exact Hx]. now apply (SI_sorted _ (DI_store s HD)).
Qed.

(* C09 — refinement of the datastore-backed model, part 8: ConsumePeerRecord.
   ds side: latestPeerRecordSeq, GetPeerRecord, supersededSignedAddrs + deleteAddrs, setAddrs(ttlExtend),
   storeSignedPeerRecord in sequence, as one per-address transformer. *)
From Coq Require Import List ZArith Bool Lia Permutation.
From Verif Require Import lib.Wire gen.Consts_c09 c09.Abs c09.Model_mem c09.Model_ds c09.Spec
  c09.Proofs_mem c09.Proofs_ds c09.Proofs c09.Proofs_dsr_a c09.Proofs_dsr_d c09.Proofs_dsr_s c09.Proofs_dsr_r
  c09.Proofs_dsr_o c09.Proofs_dsr_w c09.Proofs_dsr_x.
Import ListNotations.
Local Open Scope Z_scope.

Lemma olive_idem u o : olive u (olive u o) = olive u o.
Proof. destruct o as [e|]; [|reflexivity]. cbn [olive]. destruct (lv u e) eqn:E; [cbn [olive]; now rewrite E|reflexivity]. Qed.

(* only the live part of what a transformer produces matters *)
Lemma pspec_ext_live s s' p G G' c :
  (forall x, olive (unix (d_now s)) (G x (find_de x (lents (unix (d_now s)) (d_store s) p))) =
             olive (unix (d_now s)) (G' x (find_de x (lents (unix (d_now s)) (d_store s) p)))) ->
  pspec s s' p G c -> pspec s s' p G' c.
Proof. intros HG [P1 P2 P3 P4 P5 P6 P7]. constructor; try assumption. intros x. now rewrite <- HG. Qed.

Lemma load_keeps s p c u s1 pr inc :
  DInv s -> load s p c u = (s1, pr, inc) ->
  d_now s1 = d_now s /\
  forall q, lents (unix (d_now s)) (d_store s1) q = lents (unix (d_now s)) (d_store s) q /\
            vcert (unix (d_now s)) (d_store s1) q = vcert (unix (d_now s)) (d_store s) q.
Proof.
  intros HD HL. destruct (load_spec s p c u HD) as [s1' [E [HD1 [HF [HP Hsub]]]]]. rewrite E in HL.
  injection HL as <- _ _. split; [apply HF|]. now apply (load_views _ s s1' p).
Qed.

(* ---- supersededSignedAddrs + deleteAddrs ---------------------------------------------------------------- *)
Definition sup_of (prev : option arec) (new : list Z) (L : list dent) : list Z :=
  match prev with
  | None => []
  | Some c => filter (fun a => negb (zmem a new) && negb (existsb (fun e => (da e =? a) && conn (dttl e)) L))
                     (clean_addrs (raddrs c))
  end.

Lemma pspec_supersede s p prev new :
  DInv s ->
  pspec s (d_supersede s p prev new) p (G_del (sup_of prev new (lents (unix (d_now s)) (d_store s) p)))
        (vcert (unix (d_now s)) (d_store s) p).
Proof.
  intros HD. unfold d_supersede, sup_of. destruct prev as [c|].
  2:{ apply pspec_refl; [exact HD|]. intros x. reflexivity. }
  destruct (load s p true false) as [[s3 pr3] inc3] eqn:HL.
  destruct (pspec_load s p true false s3 pr3 inc3 HD HL) as [PL [Epr Einc]]. subst pr3 inc3. cbn [daddrs].
  destruct (load_keeps s p true false s3 _ _ HD HL) as [Hn3 HK].
  set (sup := filter _ (clean_addrs (raddrs c))).
  destruct sup as [|a0 t0] eqn:Es.
  - apply (pspec_ext s s3 p (fun _ o => o)); [|exact PL]. intros x. reflexivity.
  - rewrite <- Es. pose proof (pspec_deleteaddrs s3 p sup (ps_inv _ _ _ _ _ PL)) as PD.
    rewrite Hn3 in PD. rewrite (proj2 (HK p)) in PD.
    pose proof (pspec_trans s s3 _ p _ _ _ _ PL PD) as PT. cbn beta in PT.
    apply (pspec_ext s _ p _ _ _ (fun x => eq_refl) ) in PT.
    apply (pspec_ext_live s _ p (fun x o => G_del sup x (olive (unix (d_now s)) o))); [|exact PT].
    intros x. now rewrite olive_lents.
Qed.

Lemma existsb_conn x L :
  NoDup (map da L) ->
  existsb (fun e => (da e =? x) && conn (dttl e)) L = match find_de x L with Some d => conn (dttl d) | None => false end.
Proof.
  induction L as [|d t IH]; intros Hn; [reflexivity|]. cbn [existsb map] in *. rewrite find_de_cons.
  apply NoDup_cons_iff in Hn. destruct Hn as [Hd Ht]. destruct (Z.eqb_spec (da d) x) as [E|E]; cbn [andb orb].
  - destruct (conn (dttl d)); [reflexivity|]. cbn [orb]. rewrite (IH Ht).
    destruct (find_de x t) as [d'|] eqn:F; [|reflexivity]. exfalso. apply Hd. apply find_de_some in F.
    rewrite E, <- (proj2 F). now apply in_map.
  - now apply IH.
Qed.

Lemma zmem_sup prev new L x c :
  NoDup (map da L) -> prev = Some c ->
  zmem x (sup_of prev new L) =
  zmem x (clean_addrs (raddrs c)) && negb (zmem x new) &&
  negb (match find_de x L with Some d => conn (dttl d) | None => false end).
Proof. intros Hn ->. unfold sup_of. rewrite zmem_filter, (existsb_conn x L Hn). now rewrite andb_assoc. Qed.

(* ---- the whole accepted path ----------------------------------------------------------------------------------- *)
Definition G_consume (prev : option arec) (new : list Z) (t u : Z) (uu : Z) (L : list dent) (x : Z) (o : option dent) :=
  G_set TExtend new t u x (olive uu (G_del (sup_of prev new L) x o)).

Lemma pspec_consume_tail s p prev new ttl rec :
  DInv s ->
  let s4 := d_supersede s p prev new in
  let s5 := d_setaddrs s4 p new ttl TExtend in
  pspec s (d_store_signed s5 p rec) p
        (G_consume prev new ttl (unix (d_now s + ttl)) (unix (d_now s)) (lents (unix (d_now s)) (d_store s) p)) (Some rec).
Proof.
  intros HD. cbn zeta. pose proof (pspec_supersede s p prev new HD) as P4.
  set (s4 := d_supersede s p prev new) in *. set (U := unix (d_now s)) in *.
  set (L := lents U (d_store s) p) in *.
  pose proof (ps_inv _ _ _ _ _ P4) as HD4. pose proof (ps_frame _ _ _ _ _ P4) as [Hn4 _].
  assert (P5 : exists c5, pspec s (d_setaddrs s4 p new ttl TExtend) p
                 (fun x o => G_set TExtend new ttl (unix (d_now s + ttl)) x (olive U (G_del (sup_of prev new L) x o))) c5).
  { destruct new as [|a0 t0] eqn:En.
    - cbn [d_setaddrs]. eexists. apply (pspec_ext_live s s4 p (G_del (sup_of prev [] L))); [|exact P4].
      intros x. fold U. fold L. unfold G_set.
      destruct (olive U (G_del (sup_of prev [] L) x (find_de x L))) as [e|] eqn:E.
      + change (zmem x []) with false. cbn iota. rewrite <- E. now rewrite olive_idem.
      + change (zmem x []) with false. cbn iota. reflexivity.
    - rewrite <- En in *. assert (Hne : new <> []) by (rewrite En; discriminate).
      pose proof (pspec_setaddrs s4 p new ttl TExtend HD4 Hne) as PS. rewrite Hn4 in PS.
      eexists. exact (pspec_trans s s4 _ p _ _ _ _ P4 PS). }
  destruct P5 as [c5 P5]. set (s5 := d_setaddrs s4 p new ttl TExtend) in *.
  pose proof (pspec_store_signed s5 p rec (ps_inv _ _ _ _ _ P5)) as P6.
  pose proof (pspec_trans s s5 _ p _ _ _ _ P5 P6) as PT. cbn beta in PT. fold U in PT.
  apply (pspec_ext_live s _ p (fun x o => olive U (G_set TExtend new ttl (unix (d_now s + ttl)) x
                                                     (olive U (G_del (sup_of prev new L) x o))))); [|exact PT].
  intros x. unfold G_consume. apply olive_idem.
Qed.

Lemma getrec_keeps s p :
  DInv s ->
  d_now (fst (d_getrec_full s p)) = d_now s /\
  forall q, lents (unix (d_now s)) (d_store (fst (d_getrec_full s p))) q = lents (unix (d_now s)) (d_store s) q /\
            vcert (unix (d_now s)) (d_store (fst (d_getrec_full s p))) q = vcert (unix (d_now s)) (d_store s) q.
Proof.
  intros HD. unfold d_getrec_full. destruct (load s p true false) as [[s1 pr] inc] eqn:HL. cbn [fst].
  exact (load_keeps s p true false s1 pr inc HD HL).
Qed.

Definition latest_of (C : option arec) : Z := match C with Some c => rseq c | None => 0 end.

Lemma consume_ds_spec s p seq id addrs ttl :
  DInv s ->
  let U := unix (d_now s) in
  let L := lents U (d_store s) p in
  let C := vcert U (d_store s) p in
  if seq <? latest_of C
  then snd (d_consume s p seq id addrs ttl) = 0 /\ pspec s (fst (d_consume s p seq id addrs ttl)) p (fun _ o => o) C
  else snd (d_consume s p seq id addrs ttl) = 1 /\
       pspec s (fst (d_consume s p seq id addrs ttl)) p
             (G_consume C (clean_addrs addrs) ttl (unix (d_now s + ttl)) U L) (Some (mkR p seq id addrs)).
Proof.
  intros HD. cbn zeta. unfold d_consume.
  destruct (load s p true false) as [[s1 pr] inc] eqn:HL.
  destruct (pspec_load s p true false s1 pr inc HD HL) as [P1 [Epr Einc]]. subst pr inc. cbn [daddrs dcert].
  destruct (load_keeps s p true false s1 _ _ HD HL) as [Hn1 HK1].
  set (U := unix (d_now s)) in *. set (L := lents U (d_store s) p) in *. set (C := vcert U (d_store s) p) in *.
  assert (El : match L, C with _ :: _, Some c => rseq c | _, _ => 0 end = latest_of C).
  { unfold latest_of. pose proof (vcert_lents U (d_store s) p) as V. fold C in V. fold L in V.
    destruct L; [now rewrite V|reflexivity]. }
  rewrite El. destruct (seq <? latest_of C); [cbn [fst snd]; split; [reflexivity|exact P1]|].
  pose proof (ps_inv _ _ _ _ _ P1) as HD1.
  destruct (getrec_spec s1 p HD1) as [P2 Hprev]. destruct (getrec_keeps s1 p HD1) as [Hn2 HK2].
  destruct (d_getrec_full s1 p) as [s2 prev]. cbn [fst snd] in *.
  rewrite Hn1 in *. fold U in HK2, Hprev, P2. rewrite (proj2 (HK1 p)) in Hprev, P2. fold C in Hprev, P2. subst prev.
  split; [reflexivity|].
  pose proof (ps_inv _ _ _ _ _ P2) as HD2.
  pose proof (pspec_consume_tail s2 p C (clean_addrs addrs) ttl (mkR p seq id addrs) HD2) as P6. cbn zeta in P6.
  rewrite Hn2 in P6. fold U in P6. rewrite (proj1 (HK2 p)), (proj1 (HK1 p)) in P6. fold L in P6.
  pose proof (pspec_trans s s1 s2 p _ _ _ _ P1 P2) as P12.
  pose proof (pspec_trans s s2 _ p _ _ _ _ P12 P6) as PT. cbn beta in PT. fold U in PT.
  apply (pspec_ext_live s _ p (fun x o => G_consume C (clean_addrs addrs) ttl (unix (d_now s + ttl)) U L x (olive U (olive U o))));
    [|exact PT].
  intros x. subst L U. now rewrite !olive_lents.
Qed.

(* ---- abstract side ------------------------------------------------------------------------------------------------ *)
Definition Fev (old : option arec) (new : list Z) (x : Z) (o : option aent) : option aent :=
  match old with
  | None => o
  | Some r => if zmem x (clean_addrs (raddrs r)) && negb (zmem x new) &&
                 match o with Some e => negb (conn (ettl e)) | None => false end
              then None else o
  end.
Definition Fadd (p ttl now : Z) (new : list Z) (x : Z) (o : option aent) : option aent :=
  if ttl <=? 0 then o else if zmem x new then Some (mg p x ttl (now + ttl) o) else o.

Definition ents1_of (a : abook) (p : Z) (old : option arec) (new : list Z) : list aent :=
  match old with Some r => evict_superseded p (clean_addrs (raddrs r)) new (a_ents a) | None => a_ents a end.
Definition ents2_of (a : abook) (p ttl : Z) (old : option arec) (new : list Z) : list aent :=
  if ttl <=? 0 then ents1_of a p old new else add_list p ttl (a_now a) new (ents1_of a p old new).

Lemma find_ents1 a p old new q x :
  find_ent q x (ents1_of a p old new) = if q =? p then Fev old new x (find_ent p x (a_ents a)) else find_ent q x (a_ents a).
Proof.
  unfold ents1_of, Fev. destruct old as [r|]; [|destruct (Z.eqb_spec q p) as [->|]; reflexivity].
  rewrite find_evict. unfold evicted. destruct (Z.eqb_spec q p) as [->|Hq]; cbn [andb]; reflexivity.
Qed.

Lemma aspec_consume a p ttl old new rec :
  AInv a -> rp rec = p ->
  aspec a p (ents2_of a p ttl old new) (set_rec rec (a_recs a))
        (fun x o => Fadd p ttl (a_now a) new x (Fev old new x o)).
Proof.
  intros HA Hrp.
  assert (Hk1 : NoDup (map akey (ents1_of a p old new))).
  { unfold ents1_of. destruct old; [apply nodup_evict|]; apply HA. }
  constructor.
  - intros x. unfold ents2_of, Fadd. destruct (ttl <=? 0).
    + now rewrite find_ents1, Z.eqb_refl.
    + rewrite find_add_list, Z.eqb_refl. cbn [andb]. now rewrite find_ents1, Z.eqb_refl.
  - intros q x Hq. unfold ents2_of. destruct (ttl <=? 0).
    + rewrite find_ents1. destruct (Z.eqb_spec q p); [congruence|reflexivity].
    + rewrite find_add_list. destruct (Z.eqb_spec q p); [congruence|]. cbn [andb]. rewrite find_ents1.
      destruct (Z.eqb_spec q p); [congruence|reflexivity].
  - unfold ents2_of. destruct (ttl <=? 0); [exact Hk1|now apply nodup_add_list].
  - intros q Hq. rewrite find_set_rec, Hrp. destruct (Z.eqb_spec p q); [congruence|reflexivity].
  - apply nodup_set_rec. apply HA.
Qed.

(* ---- the two sides agree address by address -------------------------------------------------------------------------- *)
Lemma upd1_ext_noop x t u d : da d = x -> t <= dttl d -> u <= dexp d -> upd1 TExtend x t u d = d.
Proof.
  intros Ha Ht Hu. cbn [upd1]. replace (dttl d <? t) with false by (symmetry; apply Z.ltb_ge; lia).
  replace (dexp d <? u) with false by (symmetry; apply Z.ltb_ge; lia). destruct d; cbn in *. now subst.
Qed.

Lemma pt_evict a s p C new x :
  AInv a -> DInv s -> Rel a s -> C = vcert (unix (d_now s)) (d_store s) p ->
  let L := lents (unix (d_now s)) (d_store s) p in
  let oa1 := Fev C new x (find_ent p x (a_ents a)) in
  let od1 := olive (unix (d_now s)) (G_del (sup_of C new L) x (find_de x L)) in
  option_map kv_a oa1 = option_map kv_d od1 /\
  (forall e, oa1 = Some e -> In e (a_ents a)) /\
  (forall d, od1 = Some d -> da d = x /\ lv (unix (d_now s)) d = true).
Proof.
  intros HA HD HR HC. cbn zeta. pose proof (rel_kv a s p x HR) as K.
  destruct (lents_sorted (unix (d_now s)) (d_store s) p (DI_store s HD)) as [_ HnL].
  set (L := lents (unix (d_now s)) (d_store s) p) in *.
  assert (Hd : forall d, find_de x L = Some d -> da d = x /\ lv (unix (d_now s)) d = true).
  { intros d F. apply find_de_some in F. split; [tauto|]. apply (lents_live _ _ _ _ (proj1 F)). }
  unfold Fev, G_del. destruct C as [c|].
  2:{ cbn [sup_of]. change (zmem x []) with false. cbn iota.
      assert (Eo : olive (unix (d_now s)) (find_de x L) = find_de x L) by (unfold L; apply olive_lents).
      rewrite Eo. split; [exact K|split]; [intros e Fe; apply find_ent_some in Fe; tauto|exact Hd]. }
  rewrite (zmem_sup (Some c) new L x c HnL eq_refl).
  destruct (find_ent p x (a_ents a)) as [e|] eqn:Fe, (find_de x L) as [d|] eqn:Fd; cbn [option_map] in K; try discriminate.
  - assert (Et : ettl e = dttl d) by (unfold kv_a, kv_d in K; congruence). rewrite Et.
    destruct (zmem x (clean_addrs (raddrs c)) && negb (zmem x new) && negb (conn (dttl d))).
    + split; [reflexivity|split; discriminate].
    + cbn [olive]. rewrite (proj2 (Hd d eq_refl)). split; [exact K|split].
      * intros e' E. injection E as <-. apply find_ent_some in Fe. tauto.
      * intros d' E. injection E as <-. now apply Hd.
  - rewrite andb_false_r. destruct (_ && _ && _); split; try reflexivity; split; discriminate.
Qed.

Lemma pt_consume a s p ttl new C x :
  AInv a -> DInv s -> Rel a s -> ttl_okP ttl -> C = vcert (unix (d_now s)) (d_store s) p ->
  option_map kv_a (olive_a (a_now a) (Fadd p ttl (a_now a) new x (Fev C new x (find_ent p x (a_ents a))))) =
  option_map kv_d (olive (unix (d_now s))
     (G_consume C new ttl (unix (d_now s + ttl)) (unix (d_now s)) (lents (unix (d_now s)) (d_store s) p) x
        (find_de x (lents (unix (d_now s)) (d_store s) p)))) /\
  (forall e, olive_a (a_now a) (Fadd p ttl (a_now a) new x (Fev C new x (find_ent p x (a_ents a)))) = Some e -> egood e).
Proof.
  intros HA HD HR Hok HC. destruct (pt_evict a s p C new x HA HD HR HC) as [K1 [Ha1 Hd1]]. cbn zeta in *.
  pose proof HR as [Hn _]. pose proof (DI_clk s HD) as Hc. unfold G_consume.
  set (oa1 := Fev C new x (find_ent p x (a_ents a))) in *.
  set (od1 := olive (unix (d_now s)) (G_del _ x _)) in *.
  rewrite <- Hn in *. unfold Fadd, G_set.
  destruct oa1 as [e|] eqn:Eo, od1 as [d|] eqn:Ed; cbn [option_map] in K1; try discriminate.
  - assert (K' : kv_a e = kv_d d) by congruence. destruct (AI_good a HA e (Ha1 e eq_refl)) as [G1 G2].
    destruct (Hd1 d eq_refl) as [Hda Hlv].
    assert (Lm : live (a_now a) e = lv (unix (a_now a)) d) by (now apply live_match).
    destruct (Z.leb_spec ttl 0) as [Ht|Ht].
    + assert (Eu : (if zmem x new then upd1 TExtend x ttl (unix (a_now a + ttl)) d else d) = d).
      { destruct (zmem x new); [|reflexivity]. apply upd1_ext_noop; [exact Hda| |].
        - unfold kv_a, kv_d in K'. assert (ettl e = dttl d) by congruence. lia.
        - unfold lv in Hlv. apply Z.ltb_lt in Hlv. assert (unix (a_now a + ttl) <= unix (a_now a)) by (apply unix_mono; lia). lia. }
      rewrite Eu. split; [now apply olive_some|].
      intros e' He. cbn [olive_a] in He. destruct (live (a_now a) e); [|discriminate]. injection He as <-. now split.
    + destruct (zmem x new).
      * assert (Gm : egood (mg p x ttl (a_now a + ttl) (Some e))).
        { split; cbn [mg ettl eexp]; [lia|]. apply gexp_max; [exact G2|now apply gexp_fresh]. }
        split.
        -- apply olive_some; [now apply kv_mg_ext|]. apply live_match; [exact Hc|apply Gm|now apply kv_mg_ext].
        -- intros e' He. cbn [olive_a] in He.
           destruct (live (a_now a) (mg p x ttl (a_now a + ttl) (Some e))); [|discriminate]. now injection He as <-.
      * split; [now apply olive_some|].
        intros e' He. cbn [olive_a] in He. destruct (live (a_now a) e); [|discriminate]. injection He as <-. now split.
  - destruct (Z.leb_spec ttl 0) as [Ht|Ht].
    + split; [|discriminate]. destruct (zmem x new); [|reflexivity]. cbn [olive olive_a option_map]. unfold lv. cbn [dexp].
      assert (unix (a_now a + ttl) <= unix (a_now a)) by (apply unix_mono; lia).
      replace (unix (a_now a) <? unix (a_now a + ttl)) with false by (symmetry; apply Z.ltb_ge; lia). reflexivity.
    + destruct (zmem x new); [|split; [reflexivity|discriminate]].
      assert (Gm : egood (mkE p x ttl (a_now a + ttl))) by (split; cbn; [lia|now apply gexp_fresh]).
      split.
      * cbn [mg]. apply olive_some; [reflexivity|]. apply live_match; [exact Hc|apply Gm|reflexivity].
      * intros e' He. cbn [olive_a mg] in He. destruct (live (a_now a) _); [|discriminate]. now injection He as <-.
Qed.

Lemma dstep_consume a s p seq id ttl bad l :
  AInv a -> DInv s -> Rel a s -> dop_ok (d_now s) (OConsume p seq id ttl bad l) ->
  dstep_ok a s (OConsume p seq id ttl bad l).
Proof.
  intros HA HD HR Hop. unfold dstep_ok. cbn [d_step a_step]. destruct bad.
  { split; [exact HA|split; [exact HD|split; [exact HR|split; [reflexivity|apply from_old_refl]]]]. }
  destruct Hop as [Hop|[Hseq Hok]]; [discriminate|].
  pose proof (consume_ds_spec s p seq id l ttl HD) as DS. cbn zeta in DS.
  pose proof HR as [Hn HRp]. pose proof (proj2 (HRp p)) as HC.
  unfold a_consume. rewrite HC. set (C := vcert (unix (d_now s)) (d_store s) p) in *.
  assert (Econd : match C with Some r => seq <? rseq r | None => false end = (seq <? latest_of C)).
  { destruct C; cbn [latest_of]; [reflexivity|]. symmetry. apply Z.ltb_ge. lia. }
  rewrite Econd. destruct (d_consume s p seq id l ttl) as [s' r]. cbn [fst snd] in DS.
  destruct (seq <? latest_of C).
  - destruct DS as [-> PS]. destruct (rel_load a s s' p HA HD HR PS) as [HR1 Hfo].
    split; [exact HA|split; [apply PS|split; [exact HR1|split; [reflexivity|exact Hfo]]]].
  - destruct DS as [-> PS].
    change (mk_norm (a_now a)
              (if ttl <=? 0
               then match C with Some r => evict_superseded p (clean_addrs (raddrs r)) (clean_addrs l) (a_ents a) | None => a_ents a end
               else add_list p ttl (a_now a) (clean_addrs l)
                      match C with Some r => evict_superseded p (clean_addrs (raddrs r)) (clean_addrs l) (a_ents a) | None => a_ents a end)
              (set_rec (mkR p seq id l) (a_recs a)))
      with (mk_norm (a_now a) (ents2_of a p ttl C (clean_addrs l)) (set_rec (mkR p seq id l) (a_recs a))).
    destruct (rel_step a s s' p _ _ _ _ _ HA HD HR
                (aspec_consume a p ttl C (clean_addrs l) (mkR p seq id l) HA eq_refl) PS) as [HA' [HR' Hfo]].
    + intros x. apply pt_consume; try assumption. reflexivity.
    + intros _. rewrite find_set_rec. cbn [rp]. now rewrite Z.eqb_refl.
    + split; [exact HA'|split; [apply PS|split; [exact HR'|split; [reflexivity|exact Hfo]]]].
Qed.

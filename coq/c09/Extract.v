(* Extraction of the executable models + monitor for the correspondence driver.
   Only ExtrOcamlBasic: positive/N/Z/nat stay inductive types. *)
From Coq Require Import Extraction ExtrOcamlBasic.
From Verif Require Import c09.Spec.
Extraction Language OCaml.
Extraction "extract/c09_model.ml" conform_case monitor_case.

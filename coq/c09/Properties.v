(* C09 — property theorems only.  Each is closed by [exact] of a lemma from
   Proofs.v / Proofs_mem.v and followed by Print Assumptions.
   A = the abstract book of Abs.v; [holds] = the monitor of Spec.v that is run on
   the implementation's traces; m_* = the model of pstoremem; d_* = the model of pstoreds. *)
From Coq Require Import List ZArith Bool.
From Verif Require Import lib.Wire gen.Consts_c09 c09.Abs c09.Model_mem c09.Model_ds c09.Spec c09.Proofs_mem c09.Proofs_ds c09.Proofs
  c09.Proofs_dsr_w c09.Proofs_dsr c09.Model_cap c09.Proofs_cap.
Import ListNotations.
Local Open Scope Z_scope.

(* the TTL classes the models and histories mention, as /repo defines them now *)
Theorem c09_ttl_classes_ordered : 0 < TempAddrTTL /\ TempAddrTTL < RecentlyConnectedAddrTTL /\
  RecentlyConnectedAddrTTL < AddressTTL /\ AddressTTL < ConnectedAddrTTL /\ ConnectedAddrTTL < PermanentAddrTTL.
Proof. exact consts_order_l. Qed.
Print Assumptions c09_ttl_classes_ordered.

(* the monitor is satisfiable by an address book: it accepts every history of the abstract book *)
Theorem c09_spec_trace_holds : forall ops, holds (a_trace a_init ops) = true.
Proof. exact holds_a_l. Qed.
Print Assumptions c09_spec_trace_holds.

(* HEADLINE (in-memory book): for EVERY history whose clock moves forward and stays below
   ConnectedAddrTTL (292 years) — the only hypothesis: [clock_ok], decidable on the history —
   the monitor that is run on the implementation accepts the trace of the model of pstoremem.
   No GC schedule, TTL sign or record-address form is assumed any more (fix commits 39ac082, 6eab440). *)
Theorem c09_mem_trace_holds : forall ops, clock_ok 0 ops = true -> holds (m_trace m_init ops) = true.
Proof. exact mem_holds_l. Qed.
Print Assumptions c09_mem_trace_holds.

(* refinement, operation by operation: every answer of the model is the abstract book's answer
   (GC's heap count aside); PeersWithAddrs lists at least the abstract book's peers (a peer whose
   addresses expired since the last GC may still be listed: that is what the property allows) *)
Theorem c09_mem_refines_spec : forall ops, clock_ok 0 ops = true ->
  trace_refines (a_trace a_init ops) (m_trace m_init ops).
Proof. exact mem_refines_l. Qed.
Print Assumptions c09_mem_refines_spec.

(* state: the abstraction of the model's state is the abstract book's state; an entry is in the expiry
   heap iff its TTL class is below connected (DESIGN 9 item 1); every signed record belongs to a peer
   with a stored address; after a GC run everything stored is live (memory bounded) *)
Theorem c09_mem_bounded_after_gc : forall ops, clock_ok 0 ops = true ->
  let m := m_run m_init ops in
  m_abs m = a_run a_init ops /\
  (forall x, In x (m_ents m) -> mheap x = negb (conn (ettl (me x)))) /\
  (forall r, In r (m_recs m) -> m_has_peer (rp r) (m_ents m) = true) /\
  (forall x, In x (m_ents (m_gc m)) -> live (m_now (m_gc m)) (me x) = true).
Proof. exact mem_state_l. Qed.
Print Assumptions c09_mem_bounded_after_gc.

(* the 13 former findings: every witness history is accepted now by the monitor on the model of
   pstoremem and on the model of pstoreds in all four configurations (cache off/on x full-purge/lookahead) *)
Theorem c09_former_findings_absent :
  forallb (fun w => holds (m_trace m_init w)) all_wits = true /\
  forallb (fun c => forallb (fun w => holds (d_trace c w)) all_wits) ds_cfgs = true.
Proof. exact former_findings_absent_l. Qed.
Print Assumptions c09_former_findings_absent.

(* ... and on them every configuration of the pstoreds model answers exactly as the abstract book *)
Theorem c09_ds_agrees_on_witnesses :
  forallb (fun w => forallb (fun c =>
     list_eqb (fun x y => obs_conform (norm_obs x) (norm_obs y))
              (map snd (d_trace c w)) (map snd (a_trace a_init w))) ds_cfgs) all_wits = true.
Proof. exact witnesses_agree_l. Qed.
Print Assumptions c09_ds_agrees_on_witnesses.

(* ---- datastore-backed book (model of pstoreds, repaired tree) --------------------------- *)
(* cache sizes 0 and > 0: the same answers on EVERY history (no hypothesis), in both GC modes *)
Theorem c09_ds_cache_transparent : forall look ops,
  map snd (d_trace (d_init true look) ops) = map snd (d_trace (d_init false look) ops).
Proof. exact ds_cache_transparent_l. Qed.
Print Assumptions c09_ds_cache_transparent.

(* close + reopen on the same datastore after EVERY prefix of EVERY history: the same answers to
   every continuation (no hypothesis; cache on or off, both GC modes) *)
Theorem c09_ds_reopen_equiv : forall cached look pre post,
  map snd (d_trace (d_run (d_init cached look) (pre ++ [OReopen])) post) =
  map snd (d_trace (d_run (d_init cached look) pre) post).
Proof. exact ds_reopen_equiv_l. Qed.
Print Assumptions c09_ds_reopen_equiv.

(* expired addresses are never returned by the datastore-backed book: after every history the record
   Addrs reads from holds only entries whose (whole-second) expiry lies in the future — clean()'s
   "look at the first entry, cut a prefix" is sound because every stored record is sorted by expiry.
   Stated for the cache-less book; c09_ds_cache_transparent carries it to every cache. *)
Theorem c09_ds_expired_never_returned : forall look ops p,
  let s := d_run (d_init false look) ops in
  forall e, In e (daddrs (snd (fst (load s p true true)))) -> unix (d_now s) < dexp e.
Proof. exact ds0_addrs_live. Qed.
Print Assumptions c09_ds_expired_never_returned.

(* ---- datastore-backed book: refinement, for EVERY history of the op language (close/reopen included),
   every cache size, both GC modes (look = 0: full purge; look > 0: lookahead window) ------------------
   Hypothesis [ds_ok 0 ops] (decidable on the history; Proofs_dsr.v), each clause forced by a witness below:
     - every clock advance is a non-negative whole number of seconds and the clock stays one second below
       ConnectedAddrTTL (pstoreds keeps expiries as unix seconds);
     - every TTL given to AddAddrs / SetAddrs / UpdateAddrs(new) / ConsumePeerRecord is <= 0, or whole
       seconds, or >= ConnectedAddrTTL;
     - sequence numbers are >= 0 (uint64);
   and the lookahead interval is >= 0.
   Observational sense (trace_refines_ds): every answer EQUALS the abstract book's (ConsumePeerRecord
   result, GetPeerRecord, the stored-entry and signed-record counts reported after GC); Addrs is the same
   set listed without repetition (a permutation: pstoreds keeps a record sorted by expiry);
   PeersWithAddrs lists at least the abstract book's peers (a peer whose addresses all expired and whose
   record has been neither loaded nor collected since is still listed: the slack the property allows). *)
Theorem c09_ds_refines_spec : forall cached look ops, 0 <= look -> ds_ok 0 ops = true ->
  trace_refines_ds (a_trace a_init ops) (d_trace (d_init cached look) ops).
Proof. exact ds_refines_l. Qed.
Print Assumptions c09_ds_refines_spec.

(* HEADLINE (datastore-backed book): the monitor that is run on the implementation accepts every trace
   of the model of pstoreds *)
Theorem c09_ds_trace_holds : forall cached look ops, 0 <= look -> ds_ok 0 ops = true ->
  holds (d_trace (d_init cached look) ops) = true.
Proof. exact ds_holds_l. Qed.
Print Assumptions c09_ds_trace_holds.

(* the in-memory and the datastore-backed book give the same answers on every history ([ds_ok] implies
   [clock_ok]): equal values and GC counts, Addrs equal as sets without repetition; PeersWithAddrs: both
   list every peer with a live address (between expiry and collection they keep different expired peers
   listed: witness [wit_peers_slack]) *)
Theorem c09_mem_ds_equivalent : forall cached look ops, 0 <= look -> ds_ok 0 ops = true ->
  traces_agree (a_trace a_init ops) (m_trace m_init ops) (d_trace (d_init cached look) ops).
Proof. exact mem_ds_equivalent_l. Qed.
Print Assumptions c09_mem_ds_equivalent.

(* state: after every such history a GC run (either mode, any cache) leaves only unexpired entries in the
   datastore — exactly as many entries and signed records as the abstract book holds (memory bounded) —
   and the peers still listed are exactly the abstract book's peers *)
Theorem c09_ds_bounded_after_gc : forall cached look ops, 0 <= look -> ds_ok 0 ops = true ->
  let s := d_run (d_init cached look) ops in
  let a := a_run a_init ops in
  (forall r e, In r (d_store (d_gc s)) -> In e (daddrs r) -> unix (d_now s) < dexp e) /\
  d_stored (d_gc s) = zlen' (a_ents a) /\ d_nrecs (d_gc s) = zlen' (a_recs a) /\
  (forall q, In q (d_peers (d_gc s)) <-> In q (a_peers a)).
Proof. exact ds_bounded_l. Qed.
Print Assumptions c09_ds_bounded_after_gc.

Theorem c09_ds_ok_implies_clock_ok : forall now ops, ds_ok now ops = true -> clock_ok now ops = true.
Proof. exact ds_ok_clock. Qed.
Print Assumptions c09_ds_ok_implies_clock_ok.

(* the hypothesis is needed: a sub-second TTL (pstoreds rounds the expiry down and answers [] where the
   abstract book answers [1]); a negative lookahead interval (expired entries stay in the datastore).
   And the PeersWithAddrs slack is real: after the same history pstoremem still lists the expired peer,
   pstoreds does not *)
Theorem c09_ds_hypotheses_needed :
  ds_ok 0 wit_subsecond = false /\
  map snd (a_trace a_init wit_subsecond) = [ONone; ONone; OList [1]] /\
  map snd (d_trace (d_init false 0) wit_subsecond) = [ONone; ONone; OList []] /\
  ds_ok 0 wit_peers_slack = true /\
  map snd (m_trace m_init wit_peers_slack) = [ONone; ONone; OList []; OList [1]] /\
  map snd (d_trace (d_init false 0) wit_peers_slack) = [ONone; ONone; OList []; OList []].
Proof. exact ds_hypotheses_needed_l. Qed.
Print Assumptions c09_ds_hypotheses_needed.

(* the defect the refinement proof uncovered (a batch naming a NEW address twice, plainly or once with
   /p2p/<self>, was stored and returned twice by pstoreds; /repo 78d0362) is absent: such batches satisfy
   the hypothesis, and on them every configuration of the pstoreds model and the pstoremem model answer
   exactly as the abstract book (one entry per address, GC count included) *)
Theorem c09_dup_batch_repaired :
  ds_ok 0 wit_dup_batch = true /\
  map snd (a_trace a_init wit_dup_batch) = [ONone; OList [1]; ONone; OList [2]; OVal 1; OList [1; 3]; OSizes 3 1 0] /\
  forallb (fun c => list_eqb (fun x y => obs_conform x y) (map snd (d_trace c wit_dup_batch))
                             (map snd (a_trace a_init wit_dup_batch))) ds_cfgs = true /\
  list_eqb (fun x y => obs_conform (norm_obs x) (norm_obs y)) (map snd (m_trace m_init wit_dup_batch))
           (map snd (a_trace a_init wit_dup_batch)) = true.
Proof. exact ds_dup_batch_l. Qed.
Print Assumptions c09_dup_batch_repaired.

Theorem c09_ds_lookahead_nonnegative_needed :
  ds_ok 0 wit_neg_look = true /\
  map snd (a_trace a_init wit_neg_look) = [ONone; ONone; OSizes 0 0 0] /\
  map snd (d_trace (d_init false (s_ (-5))) wit_neg_look) = [ONone; ONone; OSizes 1 0 0].
Proof. exact ds_neg_look_l. Qed.
Print Assumptions c09_ds_lookahead_nonnegative_needed.

(* the two repaired defects (DESIGN 9 items 1 and 2) are absent from both models *)
Theorem c09_repaired_defects_absent :
  holds (m_trace m_init wit_fixed1) = true /\ holds (d_trace (d_init true 0) wit_fixed1) = true /\
  holds (m_trace m_init wit_fixed2) = true /\ holds (d_trace (d_init false 0) wit_fixed2) = true /\
  snd (last (d_trace (d_init false 0) wit_fixed2) (OPeers, ONone)) = OList [2].
Proof. exact fixed_witnesses_l. Qed.
Print Assumptions c09_repaired_defects_absent.

(* ---- the sentences of the property, about the abstract book -------------------- *)
Theorem c09_expired_never_returned : forall ops p a,
  let s := a_run a_init ops in
  In a (a_addrs s p) -> exists e, In e (a_ents s) /\ ep e = p /\ ea e = a /\ a_now s < eexp e.
Proof. exact expired_never_returned_l. Qed.
Print Assumptions c09_expired_never_returned.

Theorem c09_record_gone_when_no_live_addr : forall ops p,
  let s := a_run a_init ops in a_getrec s p <> 0 -> a_addrs s p <> [].
Proof. exact record_needs_live_l. Qed.
Print Assumptions c09_record_gone_when_no_live_addr.

Theorem c09_add_never_shortens : forall s p addrs ttl e, a_ok s -> In e (a_ents s) ->
  exists e', In e' (a_ents (a_add s p addrs ttl)) /\ ep e' = ep e /\ ea e' = ea e /\
             ettl e <= ettl e' /\ eexp e <= eexp e'.
Proof. exact add_never_shortens_l. Qed.
Print Assumptions c09_add_never_shortens.

Theorem c09_nonpositive_ttl_removes_exactly : forall s p addrs ttl, a_ok s -> ttl <= 0 ->
  a_ents (a_set s p addrs ttl) =
  filter (fun e => negb ((ep e =? p) && zmem (ea e) (clean_addrs addrs))) (a_ents s).
Proof. exact set_nonpositive_removes_exactly_l. Qed.
Print Assumptions c09_nonpositive_ttl_removes_exactly.

Theorem c09_record_seq_monotone : forall s p seq id addrs ttl r,
  find_rec p (a_recs s) = Some r -> snd (a_consume s p seq id addrs ttl) = true -> rseq r <= seq.
Proof. exact record_seq_monotone_l. Qed.
Print Assumptions c09_record_seq_monotone.

(* ---- non-vacuity ------------------------------------------------------------------ *)
Example c09_hypothesis_satisfiable : clock_ok 0 full_example = true /\
  map snd (m_trace m_init full_example) =
  [OVal 1; ONone; ONone; ONone; OList [1; 2]; OList []; ONone; OList []; OSizes 2 1 2; OList [1];
   ONone; OVal 0; ONone; OVal 0; OVal 1; OVal 3; ONone; OVal 0; ONone; ONone].
Proof. exact full_example_l. Qed.

(* the ds hypothesis holds on a history that exercises every operation (sub-zero UpdateAddrs TTL,
   /p2p suffixes, connected -> finite class transition, reopen), here with cache and lookahead GC *)
Example c09_ds_hypothesis_satisfiable : ds_ok 0 full_example = true /\
  map snd (d_trace (d_init true (s_ 30)) full_example) =
  [OVal 1; ONone; ONone; ONone; OList [1; 2]; OList []; ONone; OList []; OSizes 2 1 0; OList [1];
   ONone; OVal 0; ONone; OVal 0; OVal 1; OVal 3; ONone; OVal 0; ONone; ONone].
Proof. exact ds_example_l. Qed.

Example c09_monitor_rejects_bad_traces :
  holds [(OAdd 1 (s_ 120) [(1, 0)], ONone); (OAdvance (s_ 120), ONone); (OAddrs 1, OList [1])] = false /\
  holds [(OAdd 1 (s_ 120) [(1, 0)], ONone); (OAdvance (s_ 120), ONone); (OGC, OSizes 1 0 0)] = false /\
  holds [(OAdd 1 (s_ 120) [(1, 0)], ONone); (OAdvance (s_ 120), ONone); (OGC, OSizes 0 0 0); (OPeers, OList [1])] = false /\
  holds [(OConsume 1 5 1 (s_ 120) false [(1, 0)], OVal 1); (OConsume 1 4 2 (s_ 120) false [(1, 0)], OVal 1)] = false /\
  holds [(OAdd 1 (s_ 120) [(1, 0)], ONone); (OAdvance (s_ 119), ONone); (OAddrs 1, OList [1])] = true.
Proof. exact monitor_rejects_l. Qed.

(* ---- per-peer caps that BIND: "the most recent assignment is kept" ---------------------- *)
(* The weak monitor's clause (Spec.last_mark / the w_last test in w_step): after AddAddrs /
   SetAddrs with a positive TTL whose batch names at most [cap] distinct addresses (any batch if
   the TTL class is connected or no per-peer cap binds) the address named LAST is returned by
   Addrs.  Proved of the transcription of both books' capped loops, for EVERY prior content and
   EVERY batch (duplicates, entries of the connected class, eviction victims named again, ...).

   pstoreds, the loop of setAddrs (unconnectedCount once per call, addrsMap, eviction among the
   entries present before the call): the address named last is in pr.Addrs ++ entries with at
   least the new expiry. *)
Theorem c09_cap_ds_loop_keeps_last_named : forall mode ttl nx cap pre a orig,
  cap <= 0 \/ conn ttl = true \/ distinct_count (pre ++ [a]) <= cap ->
  let '(cur, fresh, _) := cap_loop mode ttl nx cap (pre ++ [a]) orig in
  exists e, In e (cur ++ fresh) /\ da e = a /\ nx <= dexp e.
Proof. exact cap_loop_keeps_last. Qed.
Print Assumptions c09_cap_ds_loop_keeps_last_named.

(* pstoreds, the whole book in ANY state (any stored records, any cache content, cache on or
   off): the write followed by Addrs returns the address named last. *)
Theorem c09_cap_ds_last_named_is_returned : forall cap s p pre a ttl mode,
  unix (d_now s) < unix (d_now s + ttl) ->
  cap <= 0 \/ conn ttl = true \/ distinct_count (pre ++ [a]) <= cap ->
  In a (snd (d_addrs (dc_setaddrs cap s p (pre ++ [a]) ttl mode) p)).
Proof. exact dc_setaddrs_then_addrs. Qed.
Print Assumptions c09_cap_ds_last_named_is_returned.

(* pstoremem, the capped loop body of addAddrsUnlocked / SetAddrs: whichever victim is picked
   among the entries (Go map order: [choose] is arbitrary, it only has to find one when an
   unconnected entry exists), for every cap and every batch size. *)
Theorem c09_cap_mem_loop_keeps_last_named : forall (choose : list dent -> option Z) set ttl exp cap pre a l,
  (forall l, 0 < count_unconn l -> choose l <> None) ->
  exists e, In e (mc_loop choose set ttl exp cap (pre ++ [a]) l) /\ da e = a /\ exp <= dexp e.
Proof. exact mc_loop_keeps_last. Qed.
Print Assumptions c09_cap_mem_loop_keeps_last_named.

(* the capped pstoreds model is a conservative extension: with the cap off it IS the model of
   Model_ds.v, trace for trace, from every state — so every pstoreds theorem above is also a
   theorem about [dc_trace cap] for cap <= 0, and the replay of binding-cap histories on
   [dc_step] exercises the same transcription the refinement theorems are about. *)
Theorem c09_cap_model_extends_uncapped : forall cap, cap <= 0 ->
  forall ops s, dc_trace cap s ops = d_trace s ops.
Proof. exact dc_trace_cap_off. Qed.
Print Assumptions c09_cap_model_extends_uncapped.

(* non-vacuity and necessity.  (1) the history of seeded change C09-m15 (cap 2; a1 1h, a2 2h;
   AddAddrs{a3,a1} 3h): the capped pstoreds model and the pstoremem loop answer {a1,a3}, the
   weak monitor accepts that and REJECTS the answer {a2,a3} — which is what the loop gives when
   the evicted entry stays in addrsMap (cap_one_orphan).  (2) the "at most cap distinct
   addresses" hypothesis is needed for pstoreds: cap 1, empty record, AddAddrs{a1,a2} keeps a1
   and refuses a2 (eviction only among entries present before the call), and the monitor does
   not demand a2 there. *)
Example c09_cap_clause_not_vacuous :
  let h := [OAdd 1 (s_ 3600) [(1, 0)]; OAdd 1 (s_ 7200) [(2, 0)]; OAdd 1 (s_ 10800) [(3, 0); (1, 0)]; OAddrs 1] in
  let o := [mkD 1 (s_ 3600) 3600; mkD 2 (s_ 7200) 7200] in
  map snd (dc_trace 2 (d_init false 0) h) = [ONone; ONone; ONone; OList [3; 1]] /\
  map snd (dc_trace 2 (d_init true 0) h) = [ONone; ONone; ONone; OList [3; 1]] /\
  holds_weak 2 0 0 (dc_trace 2 (d_init false 0) h) = true /\
  map da (mc_loop choose_first false (s_ 10800) 10800 2 [3; 1] o) = [3; 1] /\
  fst (fold_left (cap_one_orphan TExtend (s_ 10800) 10800 2) [3; 1] ((o, [], 2), [])) =
    ([mkD 2 (s_ 7200) 7200], [mkD 3 (s_ 10800) 10800], 2) /\
  holds_weak 2 0 0 [(OAdd 1 (s_ 3600) [(1, 0)], ONone); (OAdd 1 (s_ 7200) [(2, 0)], ONone);
                    (OAdd 1 (s_ 10800) [(3, 0); (1, 0)], ONone); (OAddrs 1, OList [2; 3])] = false /\
  map snd (dc_trace 1 (d_init false 0) [OAdd 1 (s_ 120) [(1, 0); (2, 0)]; OAddrs 1]) = [ONone; OList [1]] /\
  holds_weak 1 0 0 (dc_trace 1 (d_init false 0) [OAdd 1 (s_ 120) [(1, 0); (2, 0)]; OAddrs 1]) = true.
Proof. exact cap_clause_not_vacuous_l. Qed.

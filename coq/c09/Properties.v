(* C09 — property theorems only.  Each is closed by [exact] of a lemma from
   Proofs.v / Proofs_mem.v and followed by Print Assumptions.
   A = the abstract book of Abs.v; [holds] = the monitor of Spec.v that is run on
   the implementation's traces; m_* = the model of pstoremem; d_* = the model of pstoreds. *)
From Coq Require Import List ZArith Bool.
From Verif Require Import lib.Wire gen.Consts_c09 c09.Abs c09.Model_mem c09.Model_ds c09.Spec c09.Proofs_mem c09.Proofs.
Import ListNotations.
Local Open Scope Z_scope.

(* the TTL classes the models and histories mention, as /repo defines them now *)
Theorem c09_ttl_classes_ordered : 0 < TempAddrTTL /\ TempAddrTTL < RecentlyConnectedAddrTTL /\
  RecentlyConnectedAddrTTL < AddressTTL /\ AddressTTL < ConnectedAddrTTL /\ ConnectedAddrTTL < PermanentAddrTTL.
Proof. exact consts_order_l. Qed.
Print Assumptions c09_ttl_classes_ordered.

(* the monitor is satisfiable by an address book: it accepts every history of the abstract book *)
Theorem c09_spec_trace_holds : forall ops, holds (a_trace a_init ops) = true.
Proof. exact holds_a_l. Qed.
Print Assumptions c09_spec_trace_holds.

(* HEADLINE (in-memory book), partial: for every history in which every clock advance is
   followed by a GC run before anything else, no UpdateAddrs TTL is negative, signed records list
   suffix-free addresses and the clock stays below ConnectedAddrTTL, the model of pstoremem gives
   exactly the abstract book's answers (GC's heap count aside) ... *)
Theorem c09_mem_refines_spec_partial : forall ops, calm 0 ops = true ->
  map norm_pair (m_trace m_init ops) = map norm_pair (a_trace a_init ops).
Proof. exact mem_trace_eq_l. Qed.
Print Assumptions c09_mem_refines_spec_partial.

(* ... hence the monitor run on the implementation accepts every such trace of the model *)
Theorem c09_mem_trace_holds_partial : forall ops, calm 0 ops = true -> holds (m_trace m_init ops) = true.
Proof. exact mem_holds_l. Qed.
Print Assumptions c09_mem_trace_holds_partial.

(* memory bounded / heap discipline after such a history: everything stored is live, an entry is
   in the expiry heap iff its TTL class is below connected (DESIGN 9 item 1), every stored signed
   record belongs to a peer with a stored address *)
Theorem c09_mem_bounded_after_gc_partial : forall ops, calm 0 ops = true ->
  let m := m_run m_init ops in
  (forall x, In x (m_ents m) -> live (m_now m) (me x) = true) /\
  (forall x, In x (m_ents m) -> mheap x = negb (conn (ettl (me x)))) /\
  (forall r, In r (m_recs m) -> m_has_peer (rp r) (m_ents m) = true).
Proof. exact mem_state_l. Qed.
Print Assumptions c09_mem_bounded_after_gc_partial.

(* the full statement (no hypothesis) is FALSE of the faithful model of pstoremem *)
Theorem c09_mem_refines_spec_refuted :
  holds (m_trace m_init wit_stale_seq) = false /\ holds (m_trace m_init wit_stale_class) = false /\
  holds (m_trace m_init wit_resurrect) = false /\ holds (m_trace m_init wit_lapsed_record) = false /\
  holds (m_trace m_init wit_suffix) = false.
Proof. exact mem_refuted_l. Qed.
Print Assumptions c09_mem_refines_spec_refuted.

(* ... and of the faithful model of pstoreds (cache off / on, full-purge / lookahead GC) *)
Theorem c09_ds_refines_spec_refuted :
  holds (d_trace (d_init false 0) wit_lapsed_record) = false /\
  holds (d_trace (d_init true 0) wit_lapsed_record) = false /\
  holds (d_trace (d_init true 0) wit_ds_set0) = false /\
  holds (d_trace (d_init false 0) wit_ds_set0) = true /\
  holds (d_trace (d_init true 0) wit_suffix) = false /\
  holds (d_trace (d_init true (s_ 30)) wit_ds_gc) = false /\
  holds (d_trace (d_init true 0) wit_ds_gc) = true.
Proof. exact ds_refuted_l. Qed.
Print Assumptions c09_ds_refines_spec_refuted.

(* "same answers in both books" and "same answers with any cache size" are false of the models *)
Theorem c09_mem_ds_equivalent_refuted :
  map snd (m_trace m_init wit_stale_seq) <> map snd (d_trace (d_init true 0) wit_stale_seq) /\
  map snd (d_trace (d_init false 0) wit_ds_set0) <> map snd (d_trace (d_init true 0) wit_ds_set0).
Proof. exact mem_ds_differ_l. Qed.
Print Assumptions c09_mem_ds_equivalent_refuted.

(* "same answers after close and reopen" is false of the model of pstoreds with a cache *)
Theorem c09_ds_reopen_equiv_refuted :
  last (map snd (d_trace (d_init true 0) (wit_reopen false))) ONone <>
  last (map snd (d_trace (d_init true 0) (wit_reopen true))) ONone.
Proof. exact ds_reopen_differs_l. Qed.
Print Assumptions c09_ds_reopen_equiv_refuted.

(* the two repaired defects (DESIGN 9 items 1 and 2) are absent from both models *)
Theorem c09_repaired_defects_absent :
  holds (m_trace m_init wit_fixed1) = true /\ holds (d_trace (d_init true 0) wit_fixed1) = true /\
  holds (m_trace m_init wit_fixed2) = true /\ holds (d_trace (d_init false 0) wit_fixed2) = true /\
  snd (last (d_trace (d_init false 0) wit_fixed2) (OPeers, ONone)) = OList [2].
Proof. exact fixed_witnesses_l. Qed.
Print Assumptions c09_repaired_defects_absent.

(* ---- the sentences of the property, about the abstract book -------------------- *)
Theorem c09_expired_never_returned : forall ops p a,
  let s := a_run a_init ops in
  In a (a_addrs s p) -> exists e, In e (a_ents s) /\ ep e = p /\ ea e = a /\ a_now s < eexp e.
Proof. exact expired_never_returned_l. Qed.
Print Assumptions c09_expired_never_returned.

Theorem c09_record_gone_when_no_live_addr : forall ops p,
  let s := a_run a_init ops in a_getrec s p <> 0 -> a_addrs s p <> [].
Proof. exact record_needs_live_l. Qed.
Print Assumptions c09_record_gone_when_no_live_addr.

Theorem c09_add_never_shortens : forall s p addrs ttl e, a_ok s -> In e (a_ents s) ->
  exists e', In e' (a_ents (a_add s p addrs ttl)) /\ ep e' = ep e /\ ea e' = ea e /\
             ettl e <= ettl e' /\ eexp e <= eexp e'.
Proof. exact add_never_shortens_l. Qed.
Print Assumptions c09_add_never_shortens.

Theorem c09_nonpositive_ttl_removes_exactly : forall s p addrs ttl, a_ok s -> ttl <= 0 ->
  a_ents (a_set s p addrs ttl) =
  filter (fun e => negb ((ep e =? p) && zmem (ea e) (clean_addrs addrs))) (a_ents s).
Proof. exact set_nonpositive_removes_exactly_l. Qed.
Print Assumptions c09_nonpositive_ttl_removes_exactly.

Theorem c09_record_seq_monotone : forall s p seq id addrs ttl r,
  find_rec p (a_recs s) = Some r -> snd (a_consume s p seq id addrs ttl) = true -> rseq r <= seq.
Proof. exact record_seq_monotone_l. Qed.
Print Assumptions c09_record_seq_monotone.

(* ---- non-vacuity ------------------------------------------------------------------ *)
Example c09_calm_history_exists : calm 0 calm_example = true /\
  map snd (m_trace m_init calm_example) =
  [OVal 1; ONone; ONone; ONone; OSizes 2 1 2; OList [1]; OList []; ONone; OVal 0; OVal 1; ONone; OSizes 0 0 0; OVal 0; ONone].
Proof. exact calm_example_l. Qed.

Example c09_monitor_rejects_bad_traces :
  holds [(OAdd 1 (s_ 120) [(1, 0)], ONone); (OAdvance (s_ 120), ONone); (OAddrs 1, OList [1])] = false /\
  holds [(OAdd 1 (s_ 120) [(1, 0)], ONone); (OAdvance (s_ 120), ONone); (OGC, OSizes 1 0 0)] = false /\
  holds [(OAdd 1 (s_ 120) [(1, 0)], ONone); (OAdvance (s_ 120), ONone); (OGC, OSizes 0 0 0); (OPeers, OList [1])] = false /\
  holds [(OConsume 1 5 1 (s_ 120) false [(1, 0)], OVal 1); (OConsume 1 4 2 (s_ 120) false [(1, 0)], OVal 1)] = false /\
  holds [(OAdd 1 (s_ 120) [(1, 0)], ONone); (OAdvance (s_ 119), ONone); (OAddrs 1, OList [1])] = true.
Proof. exact monitor_rejects_l. Qed.

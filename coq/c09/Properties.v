From Coq Require Import List ZArith Bool.
From Verif Require Import lib.Wire gen.Consts_c09 c09.Abs c09.Model_mem c09.Model_ds c09.Spec c09.Proofs.
Import ListNotations.
Local Open Scope Z_scope.
Theorem c09_consts_order : ConnectedAddrTTL < PermanentAddrTTL.
Proof. exact consts_order_l. Qed.
Print Assumptions c09_consts_order.

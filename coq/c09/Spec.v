(* C09 — the property as a decidable predicate over the implementation's
   observable trace (monitor), the wire format of the correspondence cases,
   conform_case (model vs implementation) and monitor_case.  No proofs here.

   WIRE FORMAT (one case per line, integers):

     store cache look pcap gcap rcap nP nA  op*

     store  0 = pstoremem, 1 = pstoreds
     cache  ds: 0 = Options.CacheSize 0, 1 = CacheSize > 0 (large enough for nP peers)
     look   ds: Options.GCLookaheadInterval in seconds (0 = full-purge GC)
     pcap gcap rcap   caps that BIND on this universe (0 = cap out of play):
            per-peer address cap, pstoremem's global unconnected cap, pstoremem's
            signed-record cap.  If any is non-zero the case is judged by the
            weak monitor; a pstoreds case with a binding per-peer cap is also
            replayed on the capped model (Model_cap.dc_step), a pstoremem case
            with binding caps is not replayed (victims by Go map order).
     nP nA  number of peers / transport addresses in the universe (ids 1..)

     op = 1 p ttl n (a sfx)*n                 AddAddrs   (AddAddr when n = 1, harness' choice)
        | 2 p ttl n (a sfx)*n                 SetAddrs
        | 3 p old new                         UpdateAddrs
        | 4 p                                 ClearAddrs
        | 5 p seq id ttl bad n (a sfx)*n res  ConsumePeerRecord; id = harness' id of the
                                              envelope (equal content = equal id); bad = 1:
                                              envelope signed by another peer's key;
                                              res 0 rejected / 1 accepted / 2 error
        | 6 p k a_1..a_k                      Addrs -> sorted ids
        | 7 k p_1..p_k                        PeersWithAddrs -> sorted ids
        | 8 p id                              GetPeerRecord -> envelope id, 0 = nil
        | 9 d                                 clock advance, whole seconds
        | 10 stored recs heap                 GC run; then the number of stored address
                                              entries, stored signed records, heap entries
        | 11                                  close and reopen on the same datastore (ds)

     ttl (also old/new): whole seconds, or 2^40 = ConnectedAddrTTL, 2^40+1 = PermanentAddrTTL
     sfx: 0 no /p2p suffix, 1 /p2p/<p>, 2 /p2p/<the peer after p> *)
From Coq Require Import List ZArith Bool.
From Verif Require Import lib.Wire gen.Consts_c09 c09.Abs c09.Model_mem c09.Model_ds c09.Model_cap.
Import ListNotations.
Local Open Scope Z_scope.

Definition TTLW_CONN : Z := 1099511627776.
Definition TTLW_PERM : Z := 1099511627777.
Definition ttl_of_wire (w : Z) : Z :=
  if w =? TTLW_CONN then ConnectedAddrTTL
  else if w =? TTLW_PERM then PermanentAddrTTL else w * SEC.

(* ---- decoding ----------------------------------------------------------- *)
Fixpoint take_raws (n : nat) (l : list Z) : option (list raw * list Z) :=
  match n with
  | O => Some ([], l)
  | S k => match l with
           | a :: s :: r => match take_raws k r with
                            | Some (x, rest) => Some ((a, s) :: x, rest)
                            | None => None
                            end
           | _ => None
           end
  end.

Fixpoint take_n (n : nat) (l : list Z) : option (list Z * list Z) :=
  match n with
  | O => Some ([], l)
  | S k => match l with
           | a :: r => match take_n k r with
                       | Some (x, rest) => Some (a :: x, rest)
                       | None => None
                       end
           | [] => None
           end
  end.

Fixpoint decode_ops (fuel : nat) (l : list Z) : option (list (op * obs)) :=
  match fuel with
  | O => None
  | S f =>
    match l with
    | [] => Some []
    | 1 :: p :: t :: n :: r =>
        match take_raws (Z.to_nat n) r with
        | Some (x, rest) => option_map (cons (OAdd p (ttl_of_wire t) x, ONone)) (decode_ops f rest)
        | None => None
        end
    | 2 :: p :: t :: n :: r =>
        match take_raws (Z.to_nat n) r with
        | Some (x, rest) => option_map (cons (OSet p (ttl_of_wire t) x, ONone)) (decode_ops f rest)
        | None => None
        end
    | 3 :: p :: o :: n :: r =>
        option_map (cons (OUpdate p (ttl_of_wire o) (ttl_of_wire n), ONone)) (decode_ops f r)
    | 4 :: p :: r => option_map (cons (OClear p, ONone)) (decode_ops f r)
    | 5 :: p :: seq :: id :: t :: bad :: n :: r =>
        match take_raws (Z.to_nat n) r with
        | Some (x, res :: rest) =>
            option_map (cons (OConsume p seq id (ttl_of_wire t) (zbool bad) x, OVal res)) (decode_ops f rest)
        | _ => None
        end
    | 6 :: p :: k :: r =>
        match take_n (Z.to_nat k) r with
        | Some (x, rest) => option_map (cons (OAddrs p, OList x)) (decode_ops f rest)
        | None => None
        end
    | 7 :: k :: r =>
        match take_n (Z.to_nat k) r with
        | Some (x, rest) => option_map (cons (OPeers, OList x)) (decode_ops f rest)
        | None => None
        end
    | 8 :: p :: id :: r => option_map (cons (OGetRec p, OVal id)) (decode_ops f r)
    | 9 :: d :: r => if d <? 0 then None else option_map (cons (OAdvance (d * SEC), ONone)) (decode_ops f r)
    | 10 :: st :: rc :: hp :: r => option_map (cons (OGC, OSizes st rc hp)) (decode_ops f r)
    | 11 :: r => option_map (cons (OReopen, ONone)) (decode_ops f r)
    | _ => None
    end
  end.

Record cfg := mkCfg { c_store : Z; c_cache : bool; c_look : Z; c_pcap : Z; c_gcap : Z; c_rcap : Z }.

Definition decode_case (l : list Z) : option (cfg * list (op * obs)) :=
  match l with
  | st :: ca :: lk :: pc :: gc :: rc :: _ :: _ :: r =>
      if ((st =? 0) || (st =? 1)) && (0 <=? lk) then
        match decode_ops (S (length r)) r with
        | Some t => Some (mkCfg st (zbool ca) (lk * SEC) pc gc rc, t)
        | None => None
        end
      else None
  | _ => None
  end.

Definition binding (c : cfg) : bool := negb ((c_pcap c =? 0) && (c_gcap c =? 0) && (c_rcap c =? 0)).

(* ---- comparing observations --------------------------------------------- *)
Definition incl_b (l1 l2 : list Z) : bool := forallb (fun x => zmem x l2) l1.
Definition seteq (l1 l2 : list Z) : bool := incl_b l1 l2 && incl_b l2 l1.
Fixpoint nodup_b (l : list Z) : bool :=
  match l with [] => true | x :: r => negb (zmem x r) && nodup_b r end.

(* model vs implementation: every observation, sets as sets *)
Definition obs_conform (model impl : obs) : bool :=
  match model, impl with
  | ONone, ONone => true
  | OList a, OList b => seteq a b && (Z.of_nat (length a) =? Z.of_nat (length b))
  | OVal a, OVal b => a =? b
  | OSizes a b c, OSizes a' b' c' => (a =? a') && (b =? b') && (c =? c')
  | _, _ => false
  end.

Definition opcode (o : op) : Z :=
  match o with
  | OAdd _ _ _ => 1 | OSet _ _ _ => 2 | OUpdate _ _ _ => 3 | OClear _ => 4
  | OConsume _ _ _ _ _ _ => 5 | OAddrs _ => 6 | OPeers => 7 | OGetRec _ => 8
  | OAdvance _ => 9 | OGC => 10 | OReopen => 11
  end.

Fixpoint conform_mem (s : mbook) (i : Z) (tr : list (op * obs)) : list Z :=
  match tr with
  | [] => []
  | (o, x) :: r =>
      let '(s', mx) := m_step s o in
      if obs_conform mx x then conform_mem s' (i + 1) r else [ERR_MISMATCH; i; opcode o]
  end.

Fixpoint conform_ds (s : dbook) (i : Z) (tr : list (op * obs)) : list Z :=
  match tr with
  | [] => []
  | (o, x) :: r =>
      let '(s', mx) := d_step s o in
      if obs_conform mx x then conform_ds s' (i + 1) r else [ERR_MISMATCH; i; opcode o]
  end.

(* pstoreds under a binding per-peer cap: Model_cap.dc_step (deterministic: the
   datastore-backed book's eviction does not depend on Go map order) *)
Fixpoint conform_dsc (cap : Z) (s : dbook) (i : Z) (tr : list (op * obs)) : list Z :=
  match tr with
  | [] => []
  | (o, x) :: r =>
      let '(s', mx) := dc_step cap s o in
      if obs_conform mx x then conform_dsc cap s' (i + 1) r else [ERR_MISMATCH; i; opcode o]
  end.

Definition conform_case (l : list Z) : list Z :=
  match decode_case l with
  | None => [ERR_MALFORMED; 0]
  | Some (c, tr) =>
      if binding c then
        (* pstoremem under binding caps is not replayed (victims by Go map order): weak monitor only *)
        if (c_store c =? 1) && (0 <? c_pcap c) && (c_gcap c =? 0) && (c_rcap c =? 0)
        then conform_dsc (c_pcap c) (d_init (c_cache c) (c_look c)) 0 tr
        else []
      else if c_store c =? 0 then conform_mem m_init 0 tr
      else conform_ds (d_init (c_cache c) (c_look c)) 0 tr
  end.

(* ---- THE PROPERTY: the implementation's answers judged against A --------- *)
(* Monitor state: the abstract book, and for PeersWithAddrs the set of peers
   that had a live address at some moment since the last GC run (a peer whose
   addresses have all expired may stay listed until the next GC, not longer). *)
Record mon := mkMon { mo_a : abook; mo_cand : list Z }.
Definition mon_init : mon := mkMon a_init [].

Definition clause_of (o : op) : Z :=
  match o with
  | OConsume _ _ _ _ _ _ => 1    (* acceptance of a signed record *)
  | OAddrs _ => 2                (* Addrs = exactly the addresses with a future expiry *)
  | OGetRec _ => 3               (* record retrievable iff continuously live addresses *)
  | OPeers => 4                  (* listed peers *)
  | OGC => 5                     (* GC removes every expired entry; memory bounded *)
  | _ => 0
  end.

(* does the implementation's answer [x] to [o] satisfy the property, A being
   the abstract book before the operation and A' after it? *)
Definition obs_ok (m : mon) (a' : abook) (expect : obs) (o : op) (x : obs) : bool :=
  match o, expect, x with
  | OConsume _ _ _ _ _ _, OVal e, OVal v => e =? v
  | OAddrs _, OList e, OList v => seteq e v
  | OGetRec _, OVal e, OVal v => e =? v
  | OPeers, OList e, OList v => incl_b e v && incl_b v (mo_cand m)
  | OGC, OSizes st rc _, OSizes st' rc' _ => (st' =? st) && (rc' <=? rc)
  | _, ONone, ONone => true
  | _, _, _ => false
  end.

Definition mon_step (m : mon) (o : op) (x : obs) : option mon :=
  let '(a', e) := a_step (mo_a m) o in
  let cand0 := match o with OGC => [] | _ => mo_cand m end in
  let m0 := mkMon (mo_a m) (match o with OGC => a_peers a' | _ => mo_cand m end) in
  if obs_ok m0 a' e o x then Some (mkMon a' (a_peers a' ++ cand0)) else None.

Fixpoint holds_from (m : mon) (tr : list (op * obs)) : bool :=
  match tr with
  | [] => true
  | (o, x) :: r => match mon_step m o x with Some m' => holds_from m' r | None => false end
  end.

(* the property on a trace of an address book whose caps are out of play *)
Definition holds (tr : list (op * obs)) : bool := holds_from mon_init tr.

(* ---- attribution of a failure (diagnostics only; the verdict is [holds]) -- *)
(* The faithful model of the store is run next to A.  The first operation at
   which the model's abstraction stops agreeing with A is the root of the
   failure; it is described by the operation and by what the model held for
   that peer at that moment.  After a root A is replaced by the model's
   abstraction, so that later, independent roots are found too. *)
Definition tup_eqb (x y : Z * Z * Z * Z) : bool :=
  let '(a, b, c, d) := x in let '(a', b', c', d') := y in
  (a =? a') && (b =? b') && (c =? c') && (d =? d').
Definition tup_incl (l1 l2 : list (Z * Z * Z * Z)) : bool :=
  forallb (fun x => existsb (tup_eqb x) l2) l1.
Definition ents_view (gran : Z) (a : abook) : list (Z * Z * Z * Z) :=
  map (fun e => (ep e, ea e, ettl e, eexp e / gran)) (a_ents a).
Definition recs_view (a : abook) : list (Z * Z * Z * Z) :=
  map (fun r => (rp r, rid r, rseq r, 0)) (a_recs a).
Definition sim (gran : Z) (x y : abook) : bool :=
  tup_incl (ents_view gran x) (ents_view gran y) && tup_incl (ents_view gran y) (ents_view gran x) &&
  tup_incl (recs_view x) (recs_view y) && tup_incl (recs_view y) (recs_view x).

Definition m_abs (s : mbook) : abook := mk_norm (m_now s) (map me (m_ents s)) (m_recs s).

(* what the ds book would hand out for a peer: the cached object, else the stored one *)
Definition d_view (s : dbook) : list drec :=
  d_cache s ++ filter (fun r => match find_dr (dp r) (d_cache s) with Some _ => false | None => true end) (d_store s).
Definition d_abs (s : dbook) : abook :=
  let ents := flat_map (fun r => map (fun e => mkE (dp r) (da e) (dttl e) (dexp e * SEC)) (daddrs r)) (d_view s) in
  let recs := flat_map (fun r => match dcert r with Some c => [c] | None => [] end) (d_view s) in
  mk_norm (d_now s) ents recs.

Definition op_peer (o : op) : Z :=
  match o with
  | OAdd p _ _ | OSet p _ _ | OUpdate p _ _ | OClear p | OConsume p _ _ _ _ _
  | OAddrs p | OGetRec p => p
  | _ => 0
  end.

Definition sfx_free (l : list raw) : bool := forallb (fun r => snd r =? 0) l.

(* flags describing what the store held for peer p before the root operation *)
Definition flags_of (now : Z) (ents : list aent) (recs : list arec) (o : op) : list Z :=
  let p := op_peer o in
  let mine := filter (fun e => ep e =? p) ents in
  let stale := existsb (fun e => negb (live now e)) mine in
  let lapsed := match find_rec p recs with
                | Some _ => negb (existsb (live now) mine)
                | None => false
                end in
  let sfx := match o with
             | OConsume _ _ _ _ _ l =>
                 negb (sfx_free l && match find_rec p recs with Some r => sfx_free (raddrs r) | None => true end)
             | _ => false
             end in
  [boolz stale; boolz lapsed; boolz sfx].

Definition obs_val (x : obs) : Z := match x with OVal v => v | _ => -1 end.

(* the answers that are functions of the abstract state: does the model give A's answer? *)
Definition same_answer (o : op) (mx ax : obs) : bool :=
  match o with
  | OConsume _ _ _ _ _ _ | OGetRec _ => obs_val mx =? obs_val ax
  | OAddrs _ => match mx, ax with OList x, OList y => seteq x y | _, _ => false end
  | _ => true
  end.

Fixpoint roots_mem (s : mbook) (a : abook) (i : Z) (tr : list (op * obs)) : list Z :=
  match tr with
  | [] => []
  | (o, _) :: r =>
      let '(s', mx) := m_step s o in
      let '(a', ax) := a_step a o in
      if sim 1 (m_abs s') a' && same_answer o mx ax then
        (match o with
         | OGC => if zlen' (m_ents s') =? zlen' (a_ents a') then [] else [i; 10; 0; 0; 0; -1]
         | _ => []
         end) ++ roots_mem s' a' (i + 1) r
      else [i; opcode o] ++ flags_of (m_now s) (map me (m_ents s)) (m_recs s) o ++ [obs_val mx]
           ++ roots_mem s' (m_abs s') (i + 1) r
  end.

Fixpoint roots_ds (s : dbook) (a : abook) (i : Z) (tr : list (op * obs)) : list Z :=
  match tr with
  | [] => []
  | (o, _) :: r =>
      let '(s', mx) := d_step s o in
      let '(a', ax) := a_step a o in
      if sim SEC (d_abs s') a' && same_answer o mx ax then
        (match o with
         | OGC => if d_stored s' =? zlen' (a_ents a') then []
                  else [i; 10; boolz (d_cached s); boolz (0 <? d_look s); 0; -1]
         | _ => []
         end) ++ roots_ds s' a' (i + 1) r
      else
        let v := d_view s in
        (* the ds book purges expired entries of a record whenever it loads it: only live entries count *)
        let ents := filter (live (d_now s))
                      (flat_map (fun r => map (fun e => mkE (dp r) (da e) (dttl e) (dexp e * SEC)) (daddrs r)) v) in
        let recs := flat_map (fun r => match dcert r with Some c => [c] | None => [] end) v in
        [i; opcode o] ++ flags_of (d_now s) ents recs o ++ [obs_val mx]
        ++ roots_ds s' (d_abs s') (i + 1) r
  end.

Fixpoint fail_index (m : mon) (i : Z) (tr : list (op * obs)) : option (Z * Z) :=
  match tr with
  | [] => None
  | (o, x) :: r =>
      match mon_step m o x with
      | Some m' => fail_index m' (i + 1) r
      | None => Some (i, clause_of o)
      end
  end.

(* ---- weak monitor for cases whose caps bind ------------------------------ *)
(* With a binding cap the book may drop addresses, so "exactly" cannot be
   demanded.  What still must hold: everything returned has been assigned an
   expiry that may still lie in the future and has not been removed by name
   since; a returned record was accepted for that peer and the peer may have a
   live address; after GC nothing is stored beyond what may be live; and
   "memory stays bounded": with a per-peer cap c a peer never has more than
   c + 2k addresses returned, k = the number of its addresses that ever were
   given a connected TTL class (entries in a connected class are exempt from
   the cap, and both books let an entry that LEAVES the connected class stay
   above the cap: one insertion evicts one entry.  pstoreds, which counts the
   peer's unconnected entries once per batch, additionally admits up to c new
   entries in the batch that converts k connected ones — within the same
   bound).  For a peer that never had a connected address the bound is the
   cap itself.  WHICH addresses survive under a binding cap is not judged:
   pstoremem evicts by Go map order on equal expiries, and the two books
   choose victims differently (pstoreds only among the entries present before
   the batch), so "exactly" and "same answers" have no well-defined target. *)
Record uent := mkU { up : Z; ua : Z; uexp : Z; uconn : bool }.
(* w_last: for a peer, the address named LAST by the peer's most recent write
   batch and the deadline that batch assigned to it, (p, a, now + ttl) — kept
   only while no later write touches the peer, and only for batches that fit
   under the cap by themselves (see [last_mark]). *)
Record wmon := mkW { w_now : Z; w_ents : list uent; w_recs : list (Z * Z); w_fresh : bool;
                     w_last : list (Z * Z * Z) }.

Fixpoint u_raise (p a exp : Z) (c over : bool) (l : list uent) : list uent :=
  match l with
  | [] => [mkU p a exp c]
  | e :: r =>
      if (up e =? p) && (ua e =? a)
      then mkU p a (if over then exp else Z.max (uexp e) exp) (uconn e || c) :: r
      else e :: u_raise p a exp c over r
  end.

(* "THE MOST RECENT ASSIGNMENT IS KEPT".  A cap makes room for a new address by
   evicting an OLDER assignment (the unconnected entry with the nearest
   expiry); it never is a reason to lose the assignment being made.  The
   address a write batch names last is the most recent assignment of all:
   nothing is assigned after it, so nothing can evict it, and it can be refused
   only if no room can be made.  pstoremem always can make room (cap >= 1).
   pstoreds evicts only among the entries present before the batch, so it
   refuses once the batch itself has filled the cap: that needs more than
   [pcap] distinct addresses in the batch.  Hence, for both books: after
   AddAddrs / SetAddrs with a positive TTL whose batch names at most [pcap]
   distinct addresses (any number if the TTL class is connected or no per-peer
   cap binds), the address named last is returned by Addrs until the deadline
   the batch assigned, as long as no later write touches the peer.  (Not
   claimed when pstoremem's global cap binds: it refuses whole batches.) *)
Fixpoint distinct_count (l : list Z) : Z :=
  match l with [] => 0 | x :: r => (if zmem x r then 0 else 1) + distinct_count r end.
Definition drop_last_mark (p : Z) (l : list (Z * Z * Z)) : list (Z * Z * Z) :=
  filter (fun m => negb (fst (fst m) =? p)) l.
Definition last_mark (pcap gcap : Z) (p ttl now : Z) (cl : list Z) (l : list (Z * Z * Z)) : list (Z * Z * Z) :=
  match rev cl with
  | [] => l                                   (* nothing named: the call does nothing *)
  | a :: _ =>
      if (gcap =? 0) && ((pcap <=? 0) || conn ttl || (distinct_count cl <=? pcap))
      then (p, a, now + ttl) :: drop_last_mark p l
      else drop_last_mark p l
  end.

Definition w_step (pcap gcap rcap : Z) (w : wmon) (o : op) (x : obs) : option wmon :=
  let now := w_now w in
  let ulive p := filter (fun e => (up e =? p) && (now <? uexp e)) (w_ents w) in
  match o, x with
  | OAdd p ttl l, ONone =>
      Some (if ttl <=? 0 then w else
              mkW now (fold_left (fun acc a => u_raise p a (now + ttl) (conn ttl) false acc) (clean_addrs l) (w_ents w))
                  (w_recs w) false (last_mark pcap gcap p ttl now (clean_addrs l) (w_last w)))
  | OSet p ttl l, ONone =>
      Some (mkW now
              (fold_left (fun acc a =>
                            if 0 <? ttl then u_raise p a (now + ttl) (conn ttl) true acc
                            else (* removed by name: no longer live, but it stays on file (expired) so
                                    that the peer's count of ever-connected addresses is not lowered *)
                                 map (fun e => if (up e =? p) && (ua e =? a) then mkU p a now (uconn e) else e) acc)
                         (clean_addrs l) (w_ents w))
              (w_recs w) false
              (if 0 <? ttl then last_mark pcap gcap p ttl now (clean_addrs l) (w_last w)
               else drop_last_mark p (w_last w)))
  | OUpdate p old new, ONone =>
      Some (mkW now (map (fun e => if up e =? p
                                   then mkU p (ua e) (Z.max (uexp e) (now + new)) (uconn e || conn new)
                                   else e) (w_ents w))
                (w_recs w) false (drop_last_mark p (w_last w)))
  | OClear p, ONone =>
      Some (mkW now (filter (fun e => negb (up e =? p)) (w_ents w))
                (filter (fun r => negb (fst r =? p)) (w_recs w)) false (drop_last_mark p (w_last w)))
  | OConsume p seq id ttl bad l, OVal v =>
      if bad then (if v =? 2 then Some w else None)
      else if v =? 1 then
        Some (mkW now
                (if ttl <=? 0 then w_ents w
                 else fold_left (fun acc a => u_raise p a (now + ttl) (conn ttl) false acc) (clean_addrs l) (w_ents w))
                ((p, id) :: w_recs w) false (drop_last_mark p (w_last w)))
      else if (v =? 0) || ((v =? 2) && (0 <? rcap)) then Some w   (* 2: "too many signed peer records" *)
      else None
  | OAddrs p, OList v =>
      let lv := ulive p in
      let k := zlen' (filter (fun e => (up e =? p) && uconn e) (w_ents w)) in
      if forallb (fun a => existsb (fun e => ua e =? a) lv) v && nodup_b v &&
         ((pcap <=? 0) || (zlen' v <=? pcap + 2 * k)) &&
         forallb (fun m => let '(q, a, dl) := m in
                           negb ((q =? p) && (now <? dl)) || zmem a v) (w_last w)
      then Some w else None
  | OGetRec p, OVal v =>
      if (v =? 0) || (existsb (fun r => (fst r =? p) && (snd r =? v)) (w_recs w)
                      && negb (Nat.eqb (length (ulive p)) 0))
      then Some w else None
  | OPeers, OList v =>
      if forallb (fun p => if w_fresh w then negb (Nat.eqb (length (ulive p)) 0)
                           else existsb (fun e => up e =? p) (w_ents w)) v && nodup_b v
      then Some w else None
  | OAdvance d, ONone => Some (mkW (now + d) (w_ents w) (w_recs w) false (w_last w))
  | OGC, OSizes st rc _ =>
      if (st <=? zlen' (filter (fun e => now <? uexp e) (w_ents w)))
      then Some (mkW now (w_ents w) (w_recs w) true (w_last w)) else None
  | OReopen, ONone => Some w
  | _, _ => None
  end.

Fixpoint weak_fail (pcap gcap rcap : Z) (w : wmon) (i : Z) (tr : list (op * obs)) : option (Z * Z) :=
  match tr with
  | [] => None
  | (o, x) :: r =>
      match w_step pcap gcap rcap w o x with
      | Some w' => weak_fail pcap gcap rcap w' (i + 1) r
      | None => Some (i, clause_of o)
      end
  end.

Definition w_init : wmon := mkW 0 [] [] false [].

Definition holds_weak (pcap gcap rcap : Z) (tr : list (op * obs)) : bool :=
  match weak_fail pcap gcap rcap w_init 0 tr with None => true | Some _ => false end.

(* diagnostic: 902 index clause store weak  (root: index opcode stale lapsed sfx result)* *)
Definition monitor_case (l : list Z) : list Z :=
  match decode_case l with
  | None => [ERR_MALFORMED; 0]
  | Some (c, tr) =>
      if binding c then
        match weak_fail (c_pcap c) (c_gcap c) (c_rcap c) w_init 0 tr with
        | None => []
        | Some (i, cl) => [ERR_PROPERTY; i; cl; c_store c; 1]
        end
      else
        match fail_index mon_init 0 tr with
        | None => []
        | Some (i, cl) =>
            [ERR_PROPERTY; i; cl; c_store c; 0] ++
            (if c_store c =? 0 then roots_mem m_init a_init 0 tr
             else roots_ds (d_init (c_cache c) (c_look c)) a_init 0 tr)
        end
  end.

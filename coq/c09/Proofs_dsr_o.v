(* C09 — refinement of the datastore-backed model, part 5.
   The write paths of the cache-less ds book as per-address transformers of the peer's view:
   loadRecord, setAddrs, deleteAddrs, UpdateAddrs, storeSignedPeerRecord, and their sequencing. *)
From Coq Require Import List ZArith Bool Lia Permutation.
From Verif Require Import lib.Wire gen.Consts_c09 c09.Abs c09.Model_mem c09.Model_ds c09.Spec
  c09.Proofs_mem c09.Proofs_ds c09.Proofs c09.Proofs_dsr_a c09.Proofs_dsr_d c09.Proofs_dsr_s c09.Proofs_dsr_r.
Import ListNotations.
Local Open Scope Z_scope.

Lemma olive_lents u st p x : olive u (find_de x (lents u st p)) = find_de x (lents u st p).
Proof.
  destruct (find_de x (lents u st p)) as [e|] eqn:F; [|reflexivity]. cbn [olive].
  apply find_de_some in F. now rewrite (lents_live u st p e (proj1 F)).
Qed.

Lemma vcert_lents u st p : vcert u st p = match lents u st p with [] => None | _ => vcert u st p end.
Proof. unfold vcert, lents. destruct (find_dr p st) as [r|]; [|reflexivity]. now destruct (filter (lv u) (daddrs r)). Qed.

Lemma pspec_refl s p G :
  DInv s -> (forall x, G x (find_de x (lents (unix (d_now s)) (d_store s) p)) = find_de x (lents (unix (d_now s)) (d_store s) p)) ->
  pspec s s p G (vcert (unix (d_now s)) (d_store s) p).
Proof.
  intros HD HG. constructor; try tauto.
  - apply frame_refl.
  - intros x. now rewrite HG, olive_lents.
  - apply vcert_lents.
Qed.

Lemma pspec_ext s s' p G G' c :
  (forall x, G x (find_de x (lents (unix (d_now s)) (d_store s) p)) = G' x (find_de x (lents (unix (d_now s)) (d_store s) p))) ->
  pspec s s' p G c -> pspec s s' p G' c.
Proof. intros HG [P1 P2 P3 P4 P5 P6 P7]. constructor; try assumption. intros x. now rewrite <- HG. Qed.

Lemma pspec_trans s s1 s2 p G1 G2 c1 c2 :
  pspec s s1 p G1 c1 -> pspec s1 s2 p G2 c2 ->
  pspec s s2 p (fun x o => G2 x (olive (unix (d_now s)) (G1 x o))) c2.
Proof.
  intros [P1 P2 P3 P4 P5 P6 P7] [Q1 Q2 Q3 Q4 Q5 Q6 Q7]. pose proof P2 as [Fn _]. rewrite Fn in *.
  constructor.
  - exact Q1.
  - now apply (frame_trans s s1 s2).
  - intros x. now rewrite Q3, P3.
  - exact Q4.
  - intros q Hq. destruct (P5 q Hq) as [E1 E2]. destruct (Q5 q Hq) as [E3 E4]. split; congruence.
  - intros q Hq. destruct (Q6 q Hq) as [Hin|[-> Hne]]; [|right; now split].
    destruct (P6 q Hin) as [Hin0|[-> Hne]]; [now left|]. right. split; [reflexivity|].
    apply Q7; [intros _; exact Hne|exact Hq].
  - intros H. apply Q7. now apply P7.
Qed.

(* ---- loadRecord -------------------------------------------------------------------------------- *)
Lemma pspec_load s p c u s1 pr inc :
  DInv s -> load s p c u = (s1, pr, inc) ->
  pspec s s1 p (fun _ o => o) (vcert (unix (d_now s)) (d_store s) p) /\
  pr = mkDR p (lents (unix (d_now s)) (d_store s) p) (vcert (unix (d_now s)) (d_store s) p) false /\ inc = false.
Proof.
  intros HD HL. destruct (load_spec s p c u HD) as [s1' [E [HD1 [HF [HP Hsub]]]]]. rewrite E in HL.
  injection HL as <- <- <-. split; [|split; reflexivity].
  pose proof (load_views (unix (d_now s)) s s1' p HP) as HV.
  assert (Hfr : In p (map dp (d_store s1')) -> lents (unix (d_now s)) (d_store s1') p <> []).
  { intros Hin. apply find_dr_in_dp in Hin. destruct Hin as [r Fr]. rewrite (HP p), Z.eqb_refl in Fr.
    rewrite (proj1 (HV p)). destruct (lents (unix (d_now s)) (d_store s) p); [discriminate|discriminate]. }
  constructor.
  - exact HD1.
  - exact HF.
  - intros x. rewrite (proj1 (HV p)). now rewrite olive_lents.
  - rewrite (proj1 (HV p)), (proj2 (HV p)). apply vcert_lents.
  - intros q _. apply HV.
  - intros q Hq. left. now apply Hsub.
  - intros _. exact Hfr.
Qed.

(* a write after a load: the record of p becomes (l', c') *)
Lemma pspec_put s s1 s' p l' c' c1 G :
  pspec s s1 p (fun _ o => o) c1 -> DInv s' -> frame s1 s' ->
  put_at p l' c' (d_store s1) (d_store s') ->
  (forall e, In e l' -> lv (unix (d_now s)) e = true) ->
  (forall x, find_de x l' = olive (unix (d_now s)) (G x (find_de x (lents (unix (d_now s)) (d_store s) p)))) ->
  (forall q, In q (map dp (d_store s')) -> In q (map dp (d_store s1)) \/ (q = p /\ l' <> [])) ->
  pspec s s' p G c'.
Proof.
  intros [P1 P2 P3 P4 P5 P6 P7] HD' HF HP Hlv Hfind Hpeers.
  destruct (put_at_views (unix (d_now s)) _ _ _ _ _ HP) as [Ho [Hl Hc]].
  rewrite (filter_id _ l' Hlv) in Hl, Hc.
  constructor.
  - exact HD'.
  - now apply (frame_trans s s1 s').
  - intros x. now rewrite Hl.
  - now rewrite Hl, Hc.
  - intros q Hq. destruct (Ho q Hq) as [E1 E2]. destruct (P5 q Hq) as [E3 E4]. split; congruence.
  - intros q Hq. rewrite Hl. destruct (Hpeers q Hq) as [Hin|[-> Hne]]; [|right; now split].
    destruct (P6 q Hin) as [Hin0|[-> Hne]]; [now left|]. right. split; [reflexivity|].
    apply find_dr_in_dp in Hq. destruct Hq as [r Fr]. rewrite (HP p), Z.eqb_refl in Fr. destruct l'; discriminate.
  - intros _ Hin. rewrite Hl. apply find_dr_in_dp in Hin. destruct Hin as [r Fr].
    rewrite (HP p), Z.eqb_refl in Fr. destruct l'; discriminate.
Qed.

(* load; modify the object; clean; flush *)
Lemma pspec_clean_write_live s p ca u s1 pr inc l c G :
  DInv s -> load s p ca u = (s1, pr, inc) -> NoDup (map da (filter (lv (unix (d_now s))) l)) ->
  (forall x, find_de x (filter (lv (unix (d_now s))) l) =
             olive (unix (d_now s)) (G x (find_de x (lents (unix (d_now s)) (d_store s) p)))) ->
  pspec s (flush s1 (fst (clean (d_now s) (mkDR p l c true))) false) p G c.
Proof.
  intros HD HL Hn HG. destruct (pspec_load s p ca u s1 pr inc HD HL) as [PL _].
  pose proof (ps_inv _ _ _ _ _ PL) as HD1.
  destruct (write_spec s1 (d_now s) p l c HD1 Hn) as [HD' [HF [HP [Hn2 [Hput Hpeers]]]]].
  set (r2 := fst (clean (d_now s) (mkDR p l c true))) in *.
  apply (pspec_put s s1 _ p (daddrs r2) c _ G PL HD' HF Hput).
  - intros e He. apply (Permutation_in _ HP) in He. apply filter_In in He. tauto.
  - intros x. rewrite (find_de_perm _ _ x HP Hn2). apply HG.
  - exact Hpeers.
Qed.

Lemma pspec_clean_write s p ca u s1 pr inc l c G :
  DInv s -> load s p ca u = (s1, pr, inc) -> NoDup (map da l) ->
  (forall x, find_de x l = G x (find_de x (lents (unix (d_now s)) (d_store s) p))) ->
  pspec s (flush s1 (fst (clean (d_now s) (mkDR p l c true))) false) p G c.
Proof.
  intros HD HL Hn HG. apply (pspec_clean_write_live s p ca u s1 pr inc l c G HD HL).
  - now apply nodup_map_filter.
  - intros x. rewrite (find_de_filter _ x l Hn), HG. reflexivity.
Qed.

(* ---- setAddrs -------------------------------------------------------------------------------------- *)
Definition G_set (mode : ttlmode) (addrs : list Z) (t u : Z) (x : Z) (o : option dent) : option dent :=
  match o with
  | Some e => Some (if zmem x addrs then upd1 mode x t u e else e)
  | None => if zmem x addrs then Some (mkD x t u) else None
  end.

Lemma nodup_zmem l : NoDup l <-> nodup_b l = true.
Proof.
  induction l as [|x r IH]; cbn [nodup_b]; [split; [reflexivity|constructor]|].
  rewrite NoDup_cons_iff, andb_true_iff, negb_true_iff, IH. split; intros [H1 H2]; split; try assumption.
  - destruct (zmem x r) eqn:Zm; [|reflexivity]. exfalso. apply H1. unfold zmem in Zm. apply existsb_exists in Zm.
    destruct Zm as [y [Hy E]]. apply Z.eqb_eq in E. now subst.
  - intros Hin. apply zmem_in in Hin. congruence.
Qed.

Lemma nodup_app {A} (l1 l2 : list A) :
  NoDup l1 -> NoDup l2 -> (forall x, In x l1 -> ~ In x l2) -> NoDup (l1 ++ l2).
Proof.
  induction l1 as [|y t IH]; intros H1 H2 Hd; cbn [app]; [exact H2|].
  apply NoDup_cons_iff in H1. destruct H1 as [Hy Ht]. constructor.
  - intros Hin. apply in_app_or in Hin. destruct Hin as [Hin|Hin]; [now apply Hy|]. apply (Hd y); [now left|exact Hin].
  - apply IH; [exact Ht|exact H2|]. intros x Hx. apply Hd. now right.
Qed.

Lemma in_rec_in x l : in_rec x l = true <-> In x (map da l).
Proof.
  unfold in_rec, zmem. rewrite existsb_exists. split.
  - intros [y [Hy E]]. apply Z.eqb_eq in E. now subst.
  - intros H. exists x. split; [exact H|apply Z.eqb_refl].
Qed.

Lemma fresh_ok_nil t u orig : fresh_ok t u orig [].
Proof. split; [intros e []|constructor]. Qed.

Lemma sa_result mode t u L addrs cur fresh :
  NoDup (map da L) ->
  fold_left (sa_step mode t u L) addrs (L, []) = (cur, fresh) ->
  NoDup (map da (cur ++ fresh)) /\
  forall x, find_de x (cur ++ fresh) = G_set mode addrs t u x (find_de x L).
Proof.
  intros HL E. pose proof (sa_fold mode t u L addrs L [] (fresh_ok_nil t u L)) as H. rewrite E in H.
  destruct H as [H1 [H2 [[H3 H3n] H4]]]. split.
  - rewrite map_app, H1. apply nodup_app; [exact HL|exact H3n|].
    intros x Hx Hin. apply in_map_iff in Hin. destruct Hin as [e [<- He]]. destruct (H3 e He) as [_ Hn].
    apply in_rec_in in Hx. congruence.
  - intros x. rewrite find_de_app, H2, H4. unfold G_set. rewrite (in_rec_find x L).
    destruct (find_de x L) as [e|] eqn:F; cbn [negb option_map].
    + rewrite andb_true_r. destruct (zmem x addrs); reflexivity.
    + rewrite andb_false_r, andb_true_r. reflexivity.
Qed.

Lemma pspec_setaddrs s p addrs ttl mode :
  DInv s -> addrs <> [] ->
  pspec s (d_setaddrs s p addrs ttl mode) p (G_set mode addrs ttl (unix (d_now s + ttl)))
        (vcert (unix (d_now s)) (d_store s) p).
Proof.
  intros HD Hne. unfold d_setaddrs. destruct addrs as [|a0 t0]; [congruence|].
  destruct (load s p true false) as [[s1 pr] inc] eqn:HL.
  destruct (pspec_load s p true false s1 pr inc HD HL) as [PL [Epr Einc]]. subst pr inc. cbn [daddrs dcert].
  destruct (lents_sorted (unix (d_now s)) (d_store s) p (DI_store s HD)) as [_ HnL].
  destruct (fold_left _ (a0 :: t0) (lents (unix (d_now s)) (d_store s) p, [])) as [cur fresh] eqn:EF.
  apply (sa_result mode ttl (unix (d_now s + ttl)) _ (a0 :: t0) cur fresh HnL) in EF. destruct EF as [Hn HG].
  pose proof (pspec_clean_write s p true false s1 _ _ (cur ++ fresh) (vcert (unix (d_now s)) (d_store s) p)
                (G_set mode (a0 :: t0) ttl (unix (d_now s + ttl))) HD HL Hn HG) as P.
  destruct (clean (d_now s) _) as [pr2 chg]. exact P.
Qed.

(* ---- deleteAddrs ----------------------------------------------------------------------------------- *)
Definition G_del (del : list Z) (x : Z) (o : option dent) : option dent := if zmem x del then None else o.

Lemma pspec_deleteaddrs s p del :
  DInv s -> pspec s (d_deleteaddrs s p del) p (G_del del) (vcert (unix (d_now s)) (d_store s) p).
Proof.
  intros HD. unfold d_deleteaddrs.
  destruct (load s p false false) as [[s1 pr] inc] eqn:HL.
  destruct (pspec_load s p false false s1 pr inc HD HL) as [PL [Epr Einc]]. subst pr inc. cbn [daddrs dcert].
  destruct (lents_sorted (unix (d_now s)) (d_store s) p (DI_store s HD)) as [_ HnL].
  set (L := lents (unix (d_now s)) (d_store s) p) in *.
  pose proof (delete_in_place_perm L del) as HP.
  assert (Hn : NoDup (map da (delete_in_place L del))).
  { apply (Permutation_NoDup (Permutation_map da (Permutation_sym HP))). now apply nodup_map_filter. }
  assert (HG : forall x, find_de x (delete_in_place L del) = G_del del x (find_de x L)).
  { intros x. rewrite (find_de_perm _ _ x HP Hn), (find_de_filter _ x L HnL). unfold G_del, keep.
    destruct (find_de x L) as [e|] eqn:F; [|now destruct (zmem x del)].
    apply find_de_some in F. rewrite (proj2 F). now destruct (zmem x del). }
  pose proof (pspec_clean_write s p false false s1 _ _ _ (vcert (unix (d_now s)) (d_store s) p) (G_del del) HD HL Hn HG) as P.
  destruct (clean (d_now s) _) as [pr2 chg]. exact P.
Qed.

(* ---- UpdateAddrs -------------------------------------------------------------------------------------- *)
Definition upd_d (old new u : Z) (e : dent) : dent := if dttl e =? old then mkD (da e) new u else e.
Definition G_upd (old new u : Z) (x : Z) (o : option dent) : option dent := option_map (upd_d old new u) o.

Lemma clean_dirty_chg now p l c : l <> [] -> snd (clean now (mkDR p l c true)) = true.
Proof. intros H. unfold clean. cbn [ddirty daddrs negb andb]. destruct l; [congruence|reflexivity]. Qed.

Lemma clean_fresh_noop now p L c :
  (forall e, In e L -> lv (unix now) e = true) -> clean now (mkDR p L c false) = (mkDR p L c false, false).
Proof.
  intros H. unfold clean, has_expired. cbn [ddirty daddrs negb andb]. destruct L as [|d t]; [reflexivity|].
  specialize (H d (or_introl eq_refl)). unfold lv in H. apply Z.ltb_lt in H.
  replace (dexp d <=? unix now) with false by (symmetry; apply Z.leb_gt; lia). reflexivity.
Qed.

Lemma pspec_update s p old new :
  DInv s -> pspec s (d_update s p old new) p (G_upd old new (unix (d_now s + new))) (vcert (unix (d_now s)) (d_store s) p).
Proof.
  intros HD. unfold d_update.
  destruct (load s p true false) as [[s1 pr] inc] eqn:HL.
  destruct (pspec_load s p true false s1 pr inc HD HL) as [PL [Epr Einc]]. subst pr inc. cbn [daddrs dcert ddirty orb].
  destruct (lents_sorted (unix (d_now s)) (d_store s) p (DI_store s HD)) as [_ HnL].
  set (L := lents (unix (d_now s)) (d_store s) p) in *.
  set (C := vcert (unix (d_now s)) (d_store s) p) in *.
  change (fun e : dent => if dttl e =? old then mkD (da e) new (unix (d_now s + new)) else e)
    with (upd_d old new (unix (d_now s + new))).
  destruct (existsb (fun e => dttl e =? old) L) eqn:Hit.
  - assert (Hda : forall e, da (upd_d old new (unix (d_now s + new)) e) = da e)
      by (intros e; unfold upd_d; now destruct (dttl e =? old)).
    assert (Hn : NoDup (map da (map (upd_d old new (unix (d_now s + new))) L)))
      by (rewrite map_map, (map_ext _ da Hda); exact HnL).
    assert (HG : forall x, find_de x (map (upd_d old new (unix (d_now s + new))) L) =
                           G_upd old new (unix (d_now s + new)) x (find_de x L))
      by (intros x; now apply find_de_map_keep).
    pose proof (pspec_clean_write s p true false s1 _ _ _ C _ HD HL Hn HG) as P.
    assert (Hne : map (upd_d old new (unix (d_now s + new))) L <> []).
    { destruct L; [discriminate|discriminate]. }
    pose proof (clean_dirty_chg (d_now s) p _ C Hne) as Hc.
    destruct (clean (d_now s) _) as [pr2 chg]. cbn [snd fst] in *. subst chg. exact P.
  - assert (El : map (upd_d old new (unix (d_now s + new))) L = L) by (apply map_no_hit; exact Hit).
    rewrite El. rewrite (clean_fresh_noop (d_now s) p L C) by (intros e He; now apply (lents_live _ _ _ _ He)).
    unfold writeback. apply (pspec_ext s s1 p (fun _ o => o)); [|exact PL].
    intros x. fold L. unfold G_upd. destruct (find_de x L) as [e|] eqn:F; [|reflexivity]. cbn [option_map]. f_equal.
    apply find_de_some in F. unfold upd_d.
    destruct (dttl e =? old) eqn:E; [|reflexivity]. exfalso.
    assert (existsb (fun e => dttl e =? old) L = true) by (apply existsb_exists; exists e; tauto). congruence.
Qed.

(* ---- storeSignedPeerRecord ------------------------------------------------------------------------------ *)
Lemma pspec_store_signed s p rec :
  DInv s -> pspec s (d_store_signed s p rec) p (fun _ o => o) (Some rec).
Proof.
  intros HD. unfold d_store_signed.
  destruct (load s p true false) as [[s1 pr] inc] eqn:HL.
  destruct (pspec_load s p true false s1 pr inc HD HL) as [PL [Epr Einc]]. subst pr inc. cbn [daddrs].
  destruct (lents_sorted (unix (d_now s)) (d_store s) p (DI_store s HD)) as [HsL HnL].
  pose proof (ps_inv _ _ _ _ _ PL) as HD1.
  destruct (flush_spec s1 p (lents (unix (d_now s)) (d_store s) p) (Some rec) true HD1 HsL HnL) as [HD' [HF [HP Hpeers]]].
  apply (pspec_put s s1 _ p _ (Some rec) _ (fun _ o => o) PL HD' HF HP).
  - intros e He. now apply (lents_live _ _ _ _ He).
  - intros x. now rewrite olive_lents.
  - exact Hpeers.
Qed.

(* ---- GetPeerRecord ------------------------------------------------------------------------------------------ *)
Lemma getrec_spec s p :
  DInv s ->
  pspec s (fst (d_getrec_full s p)) p (fun _ o => o) (vcert (unix (d_now s)) (d_store s) p) /\
  snd (d_getrec_full s p) = vcert (unix (d_now s)) (d_store s) p.
Proof.
  intros HD. unfold d_getrec_full.
  destruct (load s p true false) as [[s1 pr] inc] eqn:HL.
  destruct (pspec_load s p true false s1 pr inc HD HL) as [PL [Epr Einc]]. subst pr inc. cbn [fst snd daddrs dcert].
  split; [exact PL|]. rewrite (vcert_lents (unix (d_now s)) (d_store s) p) at 2.
  destruct (vcert (unix (d_now s)) (d_store s) p), (lents (unix (d_now s)) (d_store s) p); reflexivity.
Qed.

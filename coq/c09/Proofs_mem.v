(* C09 — proofs about the in-memory model (repaired tree): the abstraction
   m_abs commutes with every operation, for every history whose clock only
   moves forward and stays below ConnectedAddrTTL. *)
From Coq Require Import List ZArith Bool Lia.
From Verif Require Import lib.Wire gen.Consts_c09 c09.Abs c09.Model_mem c09.Model_ds c09.Spec.
Import ListNotations.
Local Open Scope Z_scope.

(* ---- generic list facts --------------------------------------------------- *)
Lemma filter_id {A} (f : A -> bool) l : (forall x, In x l -> f x = true) -> filter f l = l.
Proof.
  induction l as [|x r IH]; intros H; cbn [filter]; [reflexivity|].
  rewrite (H x (or_introl eq_refl)). f_equal. apply IH. intros y Hy. apply H. now right.
Qed.

Lemma map_filter_comm {A B} (g : A -> B) (f : B -> bool) l :
  map g (filter (fun x => f (g x)) l) = filter f (map g l).
Proof.
  induction l as [|x r IH]; cbn [filter map]; [reflexivity|].
  destruct (f (g x)); cbn [map]; now rewrite IH.
Qed.

Definition erase (l : list ment) : list aent := map me l.

Lemma zmax_if a b : Z.max a b = if a <? b then b else a.
Proof. destruct (Z.ltb_spec a b); lia. Qed.

Lemma key_is_eq p a e : key_is p a e = true -> ep e = p /\ ea e = a.
Proof. unfold key_is. rewrite andb_true_iff, !Z.eqb_eq. tauto. Qed.

(* ---- invariants ----------------------------------------------------------- *)
Definition flags_ok (l : list ment) : Prop :=
  forall x, In x l -> mheap x = negb (conn (ettl (me x))).
Definition all_live (now : Z) (l : list aent) : Prop := forall e, In e l -> live now e = true.
Definition recs_ok (ents : list aent) (recs : list arec) : Prop :=
  forall r, In r recs -> has_peer (rp r) ents = true.
Definition conn_far (l : list aent) : Prop :=
  forall e, In e l -> conn (ettl e) = true -> ConnectedAddrTTL <= eexp e.

Lemma pa_update_flag_eq e h : pa_update_flag e h = negb (conn (ettl e)).
Proof. unfold pa_update_flag. destruct h, (conn (ettl e)); reflexivity. Qed.

Lemma pa_insert_flag e : mheap (pa_insert e) = negb (conn (ettl (me (pa_insert e)))).
Proof. unfold pa_insert. cbn. destruct (conn (ettl e)); reflexivity. Qed.

Lemma has_peer_erase p l : m_has_peer p l = has_peer p (erase l).
Proof. unfold m_has_peer, has_peer, erase. induction l; cbn; [reflexivity|]. now rewrite IHl. Qed.

Lemma remove_rec_absent p recs : find_rec p recs = None -> remove_rec p recs = recs.
Proof.
  unfold find_rec, remove_rec. induction recs as [|r t IH]; cbn [find filter]; [reflexivity|].
  destruct (rp r =? p) eqn:E; [discriminate|]. intros H. cbn [negb]. f_equal. now apply IH.
Qed.

Lemma recs_ok_no_rec ents recs p : recs_ok ents recs -> has_peer p ents = false -> find_rec p recs = None.
Proof.
  intros Hok Hp. unfold find_rec. destruct (find (fun r => rp r =? p) recs) eqn:F; [|reflexivity].
  apply find_some in F. destruct F as [Hin Heq]. apply Z.eqb_eq in Heq.
  pose proof (Hok _ Hin) as H. rewrite Heq in H. congruence.
Qed.

(* normalize is the identity on a book that holds only live entries *)
Lemma normalize_id now ents recs :
  all_live now ents -> recs_ok ents recs -> normalize now ents recs = (ents, recs).
Proof.
  intros Hl Hr. unfold normalize. rewrite (filter_id _ ents Hl). f_equal.
  apply filter_id. intros r Hin. now apply Hr.
Qed.

(* the records that survive when only peer p's entries changed *)
Lemma filter_recs p ents' recs :
  (forall r, In r recs -> rp r <> p -> has_peer (rp r) ents' = true) ->
  filter (fun r => has_peer (rp r) ents') recs =
  if has_peer p ents' then recs else remove_rec p recs.
Proof.
  intros H. induction recs as [|r t IH]; cbn [filter].
  - destruct (has_peer p ents'); reflexivity.
  - assert (IH' := IH (fun r0 Hin => H r0 (or_intror Hin))). clear IH.
    destruct (Z.eq_dec (rp r) p) as [E|E].
    + rewrite E. unfold remove_rec in *. cbn [filter]. rewrite E, Z.eqb_refl. cbn [negb].
      destruct (has_peer p ents'); rewrite IH'; reflexivity.
    + rewrite (H r (or_introl eq_refl) E). unfold remove_rec in *. cbn [filter].
      apply Z.eqb_neq in E. rewrite E. cbn [negb].
      destruct (has_peer p ents'); rewrite IH'; reflexivity.
Qed.

Lemma maybe_delete_norm p (ments : list ment) recs :
  (forall r, In r recs -> rp r <> p -> has_peer (rp r) (erase ments) = true) ->
  maybe_delete_rec p ments recs = filter (fun r => has_peer (rp r) (erase ments)) recs.
Proof.
  intros H. rewrite (filter_recs p _ _ H). unfold maybe_delete_rec. now rewrite has_peer_erase.
Qed.

(* ---- AddAddrs -------------------------------------------------------------- *)
Lemma erase_add_one p a ttl exp l :
  erase (m_add_one p a ttl exp l) = upsert_ext p a ttl exp (erase l).
Proof.
  induction l as [|x r IH]; cbn [m_add_one upsert_ext erase map].
  - unfold pa_insert. reflexivity.
  - destruct (key_is p a (me x)) eqn:K; cbn [map].
    + f_equal. rewrite !zmax_if. destruct (key_is_eq _ _ _ K) as [Hp Ha].
      destruct (ettl (me x) <? ttl) eqn:C1, (eexp (me x) <? exp) eqn:C2; cbn [orb me]; try reflexivity.
      destruct (me x) as [p0 a0 t0 e0]. cbn in *. now subst.
    + f_equal. exact IH.
Qed.

Lemma flags_add_one p a ttl exp l : flags_ok l -> flags_ok (m_add_one p a ttl exp l).
Proof.
  induction l as [|x r IH]; intros H; cbn [m_add_one].
  - intros y [<-|[]]. apply pa_insert_flag.
  - destruct (key_is p a (me x)).
    + intros y [<-|Hy].
      * destruct ((ettl (me x) <? ttl) || (eexp (me x) <? exp)).
        -- cbn [mheap me]. apply pa_update_flag_eq.
        -- apply H. now left.
      * apply H. now right.
    + intros y [<-|Hy]; [apply H; now left|]. apply IH; [|exact Hy]. intros z Hz. apply H. now right.
Qed.

Lemma upsert_ext_in p a ttl exp l e :
  In e (upsert_ext p a ttl exp l) ->
  In e l \/ (exists e0, In e0 l /\ key_is p a e0 = true /\
                        e = mkE p a (Z.max (ettl e0) ttl) (Z.max (eexp e0) exp))
  \/ e = mkE p a ttl exp.
Proof.
  induction l as [|x r IH]; cbn [upsert_ext]; intros H.
  - destruct H as [<-|[]]. right. now right.
  - destruct (key_is p a x) eqn:K.
    + destruct H as [<-|H]; [right; left; exists x; repeat split; auto; now left|]. left. now right.
    + destruct H as [<-|H]; [left; now left|].
      destruct (IH H) as [H1|[[e0 [H1 H2]]|H1]]; [left; now right| |right; now right].
      right. left. exists e0. split; [now right|exact H2].
Qed.

Lemma has_peer_upsert_ext q p a ttl exp l :
  has_peer q (upsert_ext p a ttl exp l) = has_peer q l || (q =? p).
Proof.
  unfold has_peer. induction l as [|x r IH]; cbn [upsert_ext existsb].
  - cbn. rewrite orb_false_r. apply Z.eqb_sym.
  - destruct (key_is p a x) eqn:K; cbn [existsb ep].
    + destruct (key_is_eq _ _ _ K) as [Hp _]. rewrite Hp.
      destruct (p =? q) eqn:E; [reflexivity|]. cbn [orb].
      rewrite Z.eqb_sym, E. now rewrite orb_false_r.
    + rewrite IH. now rewrite orb_assoc.
Qed.

Definition entry_good (now : Z) (e : aent) : Prop :=
  live now e = true /\ (conn (ettl e) = true -> ConnectedAddrTTL <= eexp e).

Lemma good_all now l : (forall e, In e l -> entry_good now e) <-> (all_live now l /\ conn_far l).
Proof.
  unfold entry_good, all_live, conn_far. split.
  - intros H. split; intros e He; apply (H e He).
  - intros [H1 H2] e He. split; [now apply H1|now apply H2].
Qed.

Lemma new_entry_good now p a ttl : 0 <= now -> 0 < ttl -> entry_good now (mkE p a ttl (now + ttl)).
Proof.
  intros Hn Ht. unfold entry_good, live, conn. cbn. split; [apply Z.ltb_lt; lia|].
  intros H. apply Z.leb_le in H. lia.
Qed.

Lemma upsert_ext_good now p a ttl l :
  0 <= now -> 0 < ttl -> (forall e, In e l -> entry_good now e) ->
  forall e, In e (upsert_ext p a ttl (now + ttl) l) -> entry_good now e.
Proof.
  intros Hn Ht H e He. destruct (upsert_ext_in _ _ _ _ _ _ He) as [H1|[[e0 [H1 [_ H2]]]|H1]].
  - now apply H.
  - subst e. destruct (H e0 H1) as [Hl Hf]. unfold entry_good, live, conn in *. cbn.
    apply Z.ltb_lt in Hl. split; [apply Z.ltb_lt; lia|].
    intros Hc. apply Z.leb_le in Hc.
    destruct (Z.le_gt_cases ConnectedAddrTTL (ettl e0)) as [Hc0|Hc0].
    + assert (ConnectedAddrTTL <= eexp e0) by (apply Hf; now apply Z.leb_le). lia.
    + lia.
  - subst e. now apply new_entry_good.
Qed.

Definition add_fold_m (p ttl exp : Z) (addrs : list raw) (l : list ment) : list ment :=
  fold_left (fun l (r : raw) => if snd r =? 2 then l else m_add_one p (fst r) ttl exp l) addrs l.

Lemma erase_add_fold p ttl now addrs l :
  erase (add_fold_m p ttl (now + ttl) addrs l) = add_list p ttl now (clean_addrs addrs) (erase l).
Proof.
  unfold add_fold_m, add_list, clean_addrs. revert l.
  induction addrs as [|r t IH]; intros l; cbn [fold_left filter map]; [reflexivity|].
  destruct (snd r =? 2); cbn [negb filter map fold_left].
  - apply IH.
  - rewrite IH. now rewrite erase_add_one.
Qed.

Lemma flags_add_fold p ttl exp addrs l : flags_ok l -> flags_ok (add_fold_m p ttl exp addrs l).
Proof.
  unfold add_fold_m. revert l. induction addrs as [|r t IH]; intros l H; cbn [fold_left]; [exact H|].
  destruct (snd r =? 2); apply IH; [exact H|]. now apply flags_add_one.
Qed.

Lemma add_list_good now p ttl addrs l :
  0 <= now -> 0 < ttl -> (forall e, In e l -> entry_good now e) ->
  forall e, In e (add_list p ttl now addrs l) -> entry_good now e.
Proof.
  intros Hn Ht. unfold add_list. revert l. induction addrs as [|a t IH]; intros l H; cbn [fold_left]; [exact H|].
  apply IH. now apply upsert_ext_good.
Qed.

Lemma has_peer_add_list q p ttl now addrs l :
  has_peer q l = true -> has_peer q (add_list p ttl now addrs l) = true.
Proof.
  unfold add_list. revert l. induction addrs as [|a t IH]; intros l H; cbn [fold_left]; [exact H|].
  apply IH. rewrite has_peer_upsert_ext, H. reflexivity.
Qed.

(* ---- SetAddrs --------------------------------------------------------------- *)
Definition a_set_one (p a ttl exp : Z) (l : list aent) : list aent :=
  if 0 <? ttl then upsert_set p a ttl exp l else remove_ent p a l.

Lemma erase_set_one p a ttl exp l :
  erase (m_set_one p a ttl exp l) = a_set_one p a ttl exp (erase l).
Proof.
  unfold a_set_one. induction l as [|x r IH]; cbn [m_set_one erase map].
  - destruct (0 <? ttl); reflexivity.
  - unfold remove_ent in *. cbn [upsert_set filter].
    destruct (key_is p a (me x)) eqn:K; cbn [negb].
    + destruct (0 <? ttl); [reflexivity|]. exact IH.
    + destruct (0 <? ttl); cbn [map]; f_equal; exact IH.
Qed.

Lemma flags_set_one p a ttl exp l : flags_ok l -> flags_ok (m_set_one p a ttl exp l).
Proof.
  induction l as [|x r IH]; intros H; cbn [m_set_one].
  - destruct (0 <? ttl); [|intros y []]. intros y [<-|[]]. apply pa_insert_flag.
  - assert (Hr : flags_ok r) by (intros z Hz; apply H; now right).
    destruct (key_is p a (me x)).
    + destruct (0 <? ttl); [|now apply IH].
      intros y [<-|Hy]; [cbn [mheap me]; apply pa_update_flag_eq|now apply Hr].
    + intros y [<-|Hy]; [apply H; now left|now apply IH].
Qed.

Lemma a_set_one_in p a ttl exp l e :
  In e (a_set_one p a ttl exp l) -> In e l \/ (0 < ttl /\ e = mkE p a ttl exp).
Proof.
  unfold a_set_one. destruct (Z.ltb_spec 0 ttl) as [Ht|Ht].
  - induction l as [|x r IH]; cbn [upsert_set]; intros H.
    + destruct H as [<-|[]]. now right.
    + destruct (key_is p a x).
      * destruct H as [<-|H]; [now right|left; now right].
      * destruct H as [<-|H]; [left; now left|]. destruct (IH H); [left; now right|now right].
  - intros H. left. unfold remove_ent in H. now apply filter_In in H.
Qed.

Lemma has_peer_other_set_one q p a ttl exp l :
  q <> p -> has_peer q (a_set_one p a ttl exp l) = has_peer q l.
Proof.
  intros Hq. unfold a_set_one, has_peer, remove_ent.
  assert (Hk : forall x, key_is p a x = true -> (ep x =? q) = false).
  { intros x K. destruct (key_is_eq _ _ _ K) as [Hp _]. apply Z.eqb_neq. congruence. }
  assert (Hpq : (p =? q) = false) by (apply Z.eqb_neq; congruence).
  destruct (0 <? ttl).
  - induction l as [|x r IH]; cbn [upsert_set existsb ep]; [now rewrite Hpq|].
    destruct (key_is p a x) eqn:K; cbn [existsb ep].
    + now rewrite Hpq, (Hk x K).
    + now rewrite IH.
  - induction l as [|x r IH]; cbn [filter existsb]; [reflexivity|].
    destruct (key_is p a x) eqn:K; cbn [negb existsb].
    + now rewrite (Hk x K), IH.
    + now rewrite IH.
Qed.

Definition set_fold_m (p ttl exp : Z) (addrs : list raw) (l : list ment) : list ment :=
  fold_left (fun l (r : raw) => if snd r =? 2 then l else m_set_one p (fst r) ttl exp l) addrs l.
Definition set_fold_a (p ttl exp : Z) (addrs : list Z) (l : list aent) : list aent :=
  fold_left (fun l a => a_set_one p a ttl exp l) addrs l.

Lemma erase_set_fold p ttl exp addrs l :
  erase (set_fold_m p ttl exp addrs l) = set_fold_a p ttl exp (clean_addrs addrs) (erase l).
Proof.
  unfold set_fold_m, set_fold_a, clean_addrs. revert l.
  induction addrs as [|r t IH]; intros l; cbn [fold_left filter map]; [reflexivity|].
  destruct (snd r =? 2); cbn [negb filter map fold_left].
  - apply IH.
  - rewrite IH. now rewrite erase_set_one.
Qed.

Lemma flags_set_fold p ttl exp addrs l : flags_ok l -> flags_ok (set_fold_m p ttl exp addrs l).
Proof.
  unfold set_fold_m. revert l. induction addrs as [|r t IH]; intros l H; cbn [fold_left]; [exact H|].
  destruct (snd r =? 2); apply IH; [exact H|]. now apply flags_set_one.
Qed.

Lemma set_fold_good now p ttl addrs l :
  0 <= now -> (forall e, In e l -> entry_good now e) ->
  forall e, In e (set_fold_a p ttl (now + ttl) addrs l) -> entry_good now e.
Proof.
  intros Hn. unfold set_fold_a. revert l. induction addrs as [|a t IH]; intros l H; cbn [fold_left]; [exact H|].
  apply IH. intros e He. destruct (a_set_one_in _ _ _ _ _ _ He) as [H1|[Ht ->]]; [now apply H|].
  now apply new_entry_good.
Qed.

Lemma has_peer_other_set_fold q p ttl exp addrs l :
  q <> p -> has_peer q (set_fold_a p ttl exp addrs l) = has_peer q l.
Proof.
  intros Hq. unfold set_fold_a. revert l. induction addrs as [|a t IH]; intros l; cbn [fold_left]; [reflexivity|].
  rewrite IH. now apply has_peer_other_set_one.
Qed.

(* the Abs definition of a_set is this fold *)
Lemma a_set_unfold s p addrs ttl :
  a_set s p addrs ttl =
  mk_norm (a_now s) (set_fold_a p ttl (a_now s + ttl) (clean_addrs addrs) (a_ents s)) (a_recs s).
Proof. reflexivity. Qed.

(* ---- UpdateAddrs ------------------------------------------------------------ *)
Definition upd_map (p old new now : Z) (e : aent) : aent :=
  if (ep e =? p) && (ettl e =? old) then mkE (ep e) (ea e) new (now + new) else e.

Lemma erase_update p old new now l :
  filter (live now) (erase (m_update_ents p old new (now + new) l)) =
  filter (live now) (map (upd_map p old new now) (erase l)).
Proof.
  induction l as [|x r IH]; cbn [m_update_ents erase map filter]; [reflexivity|].
  destruct ((ep (me x) =? p) && (ettl (me x) =? old)) eqn:C.
  - assert (U : upd_map p old new now (me x) = mkE (ep (me x)) (ea (me x)) new (now + new))
      by (unfold upd_map; now rewrite C).
    rewrite U. destruct (Z.eqb_spec new 0) as [->|Hne].
    + unfold live at 2. cbn [eexp]. replace (now <? now + 0) with false by (symmetry; apply Z.ltb_ge; lia).
      exact IH.
    + cbn [map me filter]. fold (erase (m_update_ents p old new (now + new) r)). now rewrite IH.
  - assert (U : upd_map p old new now (me x) = me x) by (unfold upd_map; now rewrite C).
    rewrite U. cbn [map filter]. fold (erase (m_update_ents p old new (now + new) r)). now rewrite IH.
Qed.

Lemma flags_update p old new exp l : flags_ok l -> flags_ok (m_update_ents p old new exp l).
Proof.
  induction l as [|x r IH]; intros H; cbn [m_update_ents]; [exact H|].
  assert (Hr : flags_ok r) by (intros z Hz; apply H; now right).
  destruct ((ep (me x) =? p) && (ettl (me x) =? old)).
  - destruct (new =? 0); [now apply IH|].
    intros y [<-|Hy]; [cbn [mheap me]; apply pa_update_flag_eq|now apply IH].
  - intros y [<-|Hy]; [apply H; now left|now apply IH].
Qed.

(* ---- ConsumePeerRecord: eviction ------------------------------------------- *)
Lemma find_erase (f : aent -> bool) l : option_map me (find (fun x => f (me x)) l) = find f (erase l).
Proof. induction l as [|x r IH]; cbn; [reflexivity|]. destruct (f (me x)); [reflexivity|exact IH]. Qed.

Lemma erase_pa_delete p a l : erase (pa_delete p a l) = remove_ent p a (erase l).
Proof. unfold pa_delete, remove_ent, erase. apply (map_filter_comm me (fun e => negb (key_is p a e))). Qed.

Lemma erase_evict p prev new l :
  erase (m_evict p prev new l) = evict_superseded p prev new (erase l).
Proof.
  unfold m_evict, evict_superseded. revert l.
  induction prev as [|a t IH]; intros l; cbn [fold_left]; [reflexivity|].
  rewrite IH. f_equal. destruct (zmem a new); [reflexivity|].
  unfold find_ent. rewrite <- (find_erase (key_is p a) l).
  destruct (find (fun x => key_is p a (me x)) l) as [x|]; cbn [option_map]; [|reflexivity].
  destruct (conn (ettl (me x))); [reflexivity|]. apply erase_pa_delete.
Qed.

Lemma flags_filter f l : flags_ok l -> flags_ok (filter f l).
Proof. intros H x Hx. apply filter_In in Hx. now apply H. Qed.

Lemma flags_evict p prev new l : flags_ok l -> flags_ok (m_evict p prev new l).
Proof.
  unfold m_evict. revert l. induction prev as [|a t IH]; intros l H; cbn [fold_left]; [exact H|].
  apply IH. destruct (zmem a new); [exact H|].
  destruct (find _ l) as [x|]; [|exact H]. destruct (conn _); [exact H|]. now apply flags_filter.
Qed.

Lemma evict_sub p prev new l e : In e (evict_superseded p prev new l) -> In e l.
Proof.
  unfold evict_superseded. revert l. induction prev as [|a t IH]; intros l H; cbn [fold_left] in H; [exact H|].
  apply IH in H. destruct (zmem a new); [exact H|]. destruct (find_ent p a l) as [x|]; [|exact H].
  destruct (conn _); [exact H|]. unfold remove_ent in H. now apply filter_In in H.
Qed.

Lemma has_peer_other_evict q p prev new l :
  q <> p -> has_peer q (evict_superseded p prev new l) = has_peer q l.
Proof.
  intros Hq. unfold evict_superseded. revert l. induction prev as [|a t IH]; intros l; cbn [fold_left]; [reflexivity|].
  rewrite IH. destruct (zmem a new); [reflexivity|]. destruct (find_ent p a l) as [x|]; [|reflexivity].
  destruct (conn _); [reflexivity|].
  replace (remove_ent p a l) with (a_set_one p a 0 0 l) by reflexivity. now apply has_peer_other_set_one.
Qed.


(* ---- live part of a list; operations commute with it once p is purged --------- *)
Definition Ls (now : Z) (l : list aent) : list aent := filter (live now) l.
(* p has no expired entry in l (what purgeExpiredUnlocked establishes) *)
Definition pclean (now p : Z) (l : list aent) : Prop := forall e, In e l -> ep e = p -> live now e = true.

Lemma filter_filter {A} (f g : A -> bool) l : filter f (filter g l) = filter (fun x => g x && f x) l.
Proof.
  induction l as [|x r IH]; cbn [filter]; [reflexivity|].
  destruct (g x); cbn [filter andb]; [destruct (f x)|]; now rewrite IH.
Qed.

Lemma Ls_idem now l : Ls now (Ls now l) = Ls now l.
Proof. unfold Ls. rewrite filter_filter. apply filter_ext. intros e. now rewrite andb_diag. Qed.

Lemma pclean_Ls now p l : pclean now p (Ls now l).
Proof. intros e He _. unfold Ls in He. apply filter_In in He. tauto. Qed.

Lemma pclean_tail now p x r : pclean now p (x :: r) -> pclean now p r.
Proof. intros H e He. apply H. now right. Qed.

Lemma has_peer_pclean now p l : pclean now p l -> has_peer p (Ls now l) = has_peer p l.
Proof.
  unfold has_peer, Ls. induction l as [|x r IH]; intros H; cbn [filter existsb]; [reflexivity|].
  specialize (IH (pclean_tail _ _ _ _ H)).
  destruct (ep x =? p) eqn:E.
  - apply Z.eqb_eq in E. rewrite (H x (or_introl eq_refl) E). cbn [existsb]. apply Z.eqb_eq in E. now rewrite E.
  - destruct (live now x); cbn [existsb]; rewrite ?E; exact IH.
Qed.

Lemma has_peer_Ls_true now q l : has_peer q (Ls now l) = true -> has_peer q l = true.
Proof.
  unfold has_peer, Ls. rewrite !existsb_exists. intros [e [He Hq]]. apply filter_In in He. exists e. tauto.
Qed.

(* upsert_ext *)
Lemma Ls_upsert_ext now p a ttl exp l :
  pclean now p l -> now < exp ->
  Ls now (upsert_ext p a ttl exp l) = upsert_ext p a ttl exp (Ls now l).
Proof.
  intros Hc Hx. unfold Ls. induction l as [|x r IH]; cbn [upsert_ext filter].
  - unfold live at 1. cbn [eexp]. now replace (now <? exp) with true by (symmetry; apply Z.ltb_lt; lia).
  - specialize (IH (pclean_tail _ _ _ _ Hc)). destruct (key_is p a x) eqn:K.
    + destruct (key_is_eq _ _ _ K) as [Hp _]. rewrite (Hc x (or_introl eq_refl) Hp).
      cbn [filter upsert_ext]. rewrite K. unfold live at 1. cbn [eexp].
      replace (now <? Z.max (eexp x) exp) with true by (symmetry; apply Z.ltb_lt; lia). reflexivity.
    + cbn [filter]. destruct (live now x); cbn [upsert_ext]; rewrite ?K, IH; reflexivity.
Qed.

Lemma pclean_upsert_ext now p a ttl exp l :
  pclean now p l -> now < exp -> pclean now p (upsert_ext p a ttl exp l).
Proof.
  intros Hc Hx e He Hp. destruct (upsert_ext_in _ _ _ _ _ _ He) as [H|[[e0 [H0 [K ->]]]| ->]].
  - now apply Hc.
  - destruct (key_is_eq _ _ _ K) as [Hp0 _]. specialize (Hc e0 H0 Hp0). unfold live in *. cbn.
    apply Z.ltb_lt in Hc. apply Z.ltb_lt. lia.
  - unfold live. cbn. apply Z.ltb_lt. lia.
Qed.

Lemma Ls_add_list now p ttl addrs l :
  pclean now p l -> 0 < ttl ->
  Ls now (add_list p ttl now addrs l) = add_list p ttl now addrs (Ls now l) /\
  pclean now p (add_list p ttl now addrs l).
Proof.
  intros Hc Ht. unfold add_list. revert l Hc. induction addrs as [|a t IH]; intros l Hc; cbn [fold_left]; [tauto|].
  destruct (IH (upsert_ext p a ttl (now + ttl) l)) as [E P]; [apply pclean_upsert_ext; [exact Hc|lia]|].
  split; [|exact P]. rewrite E. f_equal. apply Ls_upsert_ext; [exact Hc|lia].
Qed.

(* a_set_one *)
Lemma Ls_remove_ent now p a l : Ls now (remove_ent p a l) = remove_ent p a (Ls now l).
Proof. unfold Ls, remove_ent. rewrite !filter_filter. apply filter_ext. intros e. apply andb_comm. Qed.

Lemma Ls_set_one now p a ttl exp l :
  pclean now p l -> (0 < ttl -> now < exp) ->
  Ls now (a_set_one p a ttl exp l) = a_set_one p a ttl exp (Ls now l).
Proof.
  intros Hc Hx. unfold a_set_one. destruct (Z.ltb_spec 0 ttl) as [Ht|Ht]; [|apply Ls_remove_ent].
  specialize (Hx Ht). unfold Ls. induction l as [|x r IH]; cbn [upsert_set filter].
  - unfold live at 1. cbn [eexp]. now replace (now <? exp) with true by (symmetry; apply Z.ltb_lt; lia).
  - specialize (IH (pclean_tail _ _ _ _ Hc)). destruct (key_is p a x) eqn:K.
    + destruct (key_is_eq _ _ _ K) as [Hp _]. rewrite (Hc x (or_introl eq_refl) Hp).
      cbn [filter upsert_set]. rewrite K. unfold live at 1. cbn [eexp].
      replace (now <? exp) with true by (symmetry; apply Z.ltb_lt; lia). reflexivity.
    + cbn [filter]. destruct (live now x); cbn [upsert_set]; rewrite ?K, IH; reflexivity.
Qed.

Lemma pclean_set_one now p a ttl exp l :
  pclean now p l -> (0 < ttl -> now < exp) -> pclean now p (a_set_one p a ttl exp l).
Proof.
  intros Hc Hx e He Hp. destruct (a_set_one_in _ _ _ _ _ _ He) as [H|[Ht ->]]; [now apply Hc|].
  unfold live. cbn. apply Z.ltb_lt. auto.
Qed.

Lemma Ls_set_fold now p ttl addrs l :
  pclean now p l ->
  Ls now (set_fold_a p ttl (now + ttl) addrs l) = set_fold_a p ttl (now + ttl) addrs (Ls now l) /\
  pclean now p (set_fold_a p ttl (now + ttl) addrs l).
Proof.
  unfold set_fold_a. revert l. induction addrs as [|a t IH]; intros l Hc; cbn [fold_left]; [tauto|].
  destruct (IH (a_set_one p a ttl (now + ttl) l)) as [E P]; [apply pclean_set_one; [exact Hc|lia]|].
  split; [|exact P]. rewrite E. f_equal. apply Ls_set_one; [exact Hc|lia].
Qed.

(* UpdateAddrs *)
Lemma Ls_upd now p old new l :
  pclean now p l -> Ls now (map (upd_map p old new now) l) = Ls now (map (upd_map p old new now) (Ls now l)).
Proof.
  intros Hc. unfold Ls. induction l as [|x r IH]; cbn [map filter]; [reflexivity|].
  specialize (IH (pclean_tail _ _ _ _ Hc)).
  destruct (live now x) eqn:L; cbn [map filter]; [now rewrite IH|].
  assert (U : upd_map p old new now x = x).
  { unfold upd_map. destruct (ep x =? p) eqn:E; [|reflexivity]. apply Z.eqb_eq in E.
    rewrite (Hc x (or_introl eq_refl) E) in L. discriminate. }
  rewrite U, L. exact IH.
Qed.

Lemma has_peer_other_upd now q p old new l :
  q <> p -> has_peer q (Ls now (map (upd_map p old new now) l)) = has_peer q (Ls now l).
Proof.
  intros Hq. unfold has_peer, Ls. induction l as [|x r IH]; cbn [map filter existsb]; [reflexivity|].
  unfold upd_map at 1 2. destruct ((ep x =? p) && (ettl x =? old)) eqn:C.
  - apply andb_true_iff in C. destruct C as [C _]. apply Z.eqb_eq in C.
    assert (Eq : (ep x =? q) = false) by (apply Z.eqb_neq; congruence).
    destruct (live now _), (live now x); cbn [existsb ep]; rewrite ?Eq; exact IH.
  - destruct (live now x); cbn [existsb]; now rewrite IH.
Qed.

(* eviction *)
Lemma find_ent_Ls now p a l : pclean now p l -> find_ent p a (Ls now l) = find_ent p a l.
Proof.
  intros Hc. unfold find_ent, Ls. induction l as [|x r IH]; cbn [filter find]; [reflexivity|].
  specialize (IH (pclean_tail _ _ _ _ Hc)). destruct (key_is p a x) eqn:K.
  - destruct (key_is_eq _ _ _ K) as [Hp _]. rewrite (Hc x (or_introl eq_refl) Hp). cbn [find]. now rewrite K.
  - destruct (live now x); cbn [find]; rewrite ?K; exact IH.
Qed.

Lemma Ls_evict now p prev new l :
  pclean now p l ->
  Ls now (evict_superseded p prev new l) = evict_superseded p prev new (Ls now l) /\
  pclean now p (evict_superseded p prev new l).
Proof.
  unfold evict_superseded. revert l. induction prev as [|a t IH]; intros l Hc; cbn [fold_left]; [tauto|].
  destruct (zmem a new); [apply IH; exact Hc|].
  rewrite (find_ent_Ls now p a l Hc). destruct (find_ent p a l) as [e|]; [|apply IH; exact Hc].
  destruct (conn (ettl e)); [apply IH; exact Hc|].
  destruct (IH (remove_ent p a l)) as [E P].
  { intros x Hx. unfold remove_ent in Hx. apply filter_In in Hx. now apply Hc. }
  split; [|exact P]. rewrite E. now rewrite Ls_remove_ent.
Qed.

(* ---- records ------------------------------------------------------------------- *)
Definition hp (l : list aent) (r : arec) : bool := has_peer (rp r) l.

Lemma filter_cond {A} (f g : A -> bool) l :
  (forall x, In x l -> f x = true -> g x = true) -> filter f (filter g l) = filter f l.
Proof.
  intros H. rewrite filter_filter. apply filter_ext_in. intros x Hx.
  destruct (f x) eqn:F; [now rewrite (H x Hx F)|apply andb_false_r].
Qed.

Lemma filter_remove_rec (f : arec -> bool) p recs :
  (forall r, rp r = p -> f r = false) -> filter f (remove_rec p recs) = filter f recs.
Proof.
  intros H. unfold remove_rec. rewrite filter_filter. apply filter_ext. intros r.
  destruct (rp r =? p) eqn:E; [apply Z.eqb_eq in E; now rewrite (H r E)|reflexivity].
Qed.

Lemma maybe_delete_eq p ments recs :
  maybe_delete_rec p ments recs = if has_peer p (erase ments) then recs else remove_rec p recs.
Proof. unfold maybe_delete_rec. now rewrite has_peer_erase. Qed.

(* the abstraction forgets a record that maybeDelete would drop *)
Lemma abs_recs_md now p ments recs :
  filter (hp (Ls now (erase ments))) (maybe_delete_rec p ments recs) = filter (hp (Ls now (erase ments))) recs.
Proof.
  rewrite maybe_delete_eq. destruct (has_peer p (erase ments)) eqn:H; [reflexivity|].
  apply filter_remove_rec. intros r Hr. unfold hp. rewrite Hr.
  destruct (has_peer p (Ls now (erase ments))) eqn:K; [|reflexivity].
  apply has_peer_Ls_true in K. congruence.
Qed.

Lemma find_rec_filter (f : arec -> bool) p recs :
  (forall r, In r recs -> rp r = p -> f r = true) -> find_rec p (filter f recs) = find_rec p recs.
Proof.
  intros H. unfold find_rec. induction recs as [|r t IH]; cbn [filter find]; [reflexivity|].
  assert (IH' := IH (fun r0 Hin => H r0 (or_intror Hin))). clear IH.
  destruct (rp r =? p) eqn:E.
  - apply Z.eqb_eq in E. rewrite (H r (or_introl eq_refl) E). cbn [find]. apply Z.eqb_eq in E. now rewrite E.
  - destruct (f r); cbn [find]; rewrite ?E; exact IH'.
Qed.

Lemma filter_set_rec (f f2 : arec -> bool) r recs :
  (forall r0, In r0 recs -> rp r0 <> rp r -> f2 r0 = true -> f r0 = true) ->
  filter f2 (set_rec r (filter f recs)) = filter f2 (set_rec r recs).
Proof.
  intros H. unfold set_rec. rewrite !filter_app. f_equal.
  unfold remove_rec. rewrite !filter_filter. apply filter_ext_in. intros x Hx.
  destruct (rp x =? rp r) eqn:E; cbn [negb andb].
  - now rewrite andb_false_r.
  - apply Z.eqb_neq in E.
    destruct (f2 x) eqn:F2; [now rewrite (H x Hx E F2)|apply andb_false_r].
Qed.

(* ---- the abstraction and the model invariant ------------------------------------- *)
Lemma mk_norm_eq now X Y : mk_norm now X Y = mkA now (Ls now X) (filter (hp (Ls now X)) Y).
Proof. reflexivity. Qed.

Lemma m_abs_eq m : m_abs m = mkA (m_now m) (Ls (m_now m) (erase (m_ents m)))
                              (filter (hp (Ls (m_now m) (erase (m_ents m)))) (m_recs m)).
Proof. reflexivity. Qed.

Definition far (e : aent) : Prop := conn (ettl e) = true -> ConnectedAddrTTL <= eexp e.

Record Inv (m : mbook) : Prop := mkInv {
  I_flags : flags_ok (m_ents m);
  I_far : forall e, In e (erase (m_ents m)) -> far e;
  I_recs : forall r, In r (m_recs m) -> has_peer (rp r) (erase (m_ents m)) = true;
  I_now : 0 <= m_now m < ConnectedAddrTTL
}.

Lemma Inv_init : Inv m_init.
Proof. constructor; cbn; try (intros ? []). split; [lia|reflexivity]. Qed.

Lemma far_new now p a ttl : 0 <= now -> far (mkE p a ttl (now + ttl)).
Proof. intros Hn. unfold far, conn. cbn. intros H. apply Z.leb_le in H. lia. Qed.

Lemma far_upsert_ext now p a ttl l :
  0 <= now -> (forall e, In e l -> far e) -> forall e, In e (upsert_ext p a ttl (now + ttl) l) -> far e.
Proof.
  intros Hn H e He. destruct (upsert_ext_in _ _ _ _ _ _ He) as [H1|[[e0 [H0 [_ ->]]]| ->]].
  - now apply H.
  - specialize (H e0 H0). unfold far, conn in *. cbn. intros Hc. apply Z.leb_le in Hc.
    destruct (Z.le_gt_cases ConnectedAddrTTL (ettl e0)) as [Hc0|Hc0].
    + assert (ConnectedAddrTTL <= eexp e0) by (apply H; now apply Z.leb_le). lia.
    + lia.
  - now apply far_new.
Qed.

Lemma far_add_list now p ttl addrs l :
  0 <= now -> (forall e, In e l -> far e) -> forall e, In e (add_list p ttl now addrs l) -> far e.
Proof.
  intros Hn. unfold add_list. revert l. induction addrs as [|a t IH]; intros l H; cbn [fold_left]; [exact H|].
  apply IH. now apply far_upsert_ext.
Qed.

Lemma far_set_fold now p ttl addrs l :
  0 <= now -> (forall e, In e l -> far e) -> forall e, In e (set_fold_a p ttl (now + ttl) addrs l) -> far e.
Proof.
  intros Hn. unfold set_fold_a. revert l. induction addrs as [|a t IH]; intros l H; cbn [fold_left]; [exact H|].
  apply IH. intros e He. destruct (a_set_one_in _ _ _ _ _ _ He) as [H1|[_ ->]]; [now apply H|now apply far_new].
Qed.

Lemma in_update_ents p old new exp l x' :
  In x' (m_update_ents p old new exp l) ->
  In x' l \/ (exists x, In x l /\ ep (me x) = p /\ me x' = mkE (ep (me x)) (ea (me x)) new exp).
Proof.
  induction l as [|x r IH]; cbn [m_update_ents]; [tauto|].
  destruct ((ep (me x) =? p) && (ettl (me x) =? old)) eqn:C.
  - apply andb_true_iff in C. destruct C as [C _]. apply Z.eqb_eq in C.
    destruct (new =? 0).
    + intros H. destruct (IH H) as [H1|[x0 [H1 H2]]]; [left; now right|right; exists x0; split; [now right|exact H2]].
    + intros [<-|H].
      * right. exists x. split; [now left|]. split; [exact C|reflexivity].
      * destruct (IH H) as [H1|[x0 [H1 H2]]]; [left; now right|right; exists x0; split; [now right|exact H2]].
  - intros [<-|H]; [left; now left|].
    destruct (IH H) as [H1|[x0 [H1 H2]]]; [left; now right|right; exists x0; split; [now right|exact H2]].
Qed.

Lemma has_peer_other_update q p old new exp l :
  q <> p -> has_peer q (erase (m_update_ents p old new exp l)) = has_peer q (erase l).
Proof.
  intros Hq. unfold has_peer, erase. induction l as [|x r IH]; cbn [m_update_ents map existsb]; [reflexivity|].
  destruct ((ep (me x) =? p) && (ettl (me x) =? old)) eqn:C.
  - apply andb_true_iff in C. destruct C as [C _]. apply Z.eqb_eq in C.
    assert (Eq : (ep (me x) =? q) = false) by (apply Z.eqb_neq; congruence).
    destruct (new =? 0); cbn [map existsb me ep]; rewrite Eq; exact IH.
  - cbn [map existsb]. now rewrite IH.
Qed.

Lemma has_peer_other_add_list q p ttl now addrs l :
  q <> p -> has_peer q (add_list p ttl now addrs l) = has_peer q l.
Proof.
  intros Hq. unfold add_list. revert l. induction addrs as [|a t IH]; intros l; cbn [fold_left]; [reflexivity|].
  rewrite IH, has_peer_upsert_ext. apply Z.eqb_neq in Hq. now rewrite Hq, orb_false_r.
Qed.

(* the records of a model state whose entries for peers other than p kept their peers *)
Lemma recs_inv_md p (ments : list ment) recs (E1 : list aent) :
  (forall r, In r recs -> rp r <> p -> has_peer (rp r) E1 = true) ->
  (forall q, q <> p -> has_peer q E1 = true -> has_peer q (erase ments) = true) ->
  forall r, In r (maybe_delete_rec p ments recs) -> has_peer (rp r) (erase ments) = true.
Proof.
  intros H1 H2 r Hr. rewrite maybe_delete_eq in Hr. destruct (has_peer p (erase ments)) eqn:K.
  - destruct (Z.eq_dec (rp r) p) as [->|Hne]; [exact K|]. apply H2; [exact Hne|now apply H1].
  - unfold remove_rec in Hr. apply filter_In in Hr. destruct Hr as [Hin Hne].
    apply negb_true_iff, Z.eqb_neq in Hne. apply H2; [exact Hne|now apply H1].
Qed.

(* ---- purgeExpiredUnlocked ---------------------------------------------------------- *)
Lemma purge_spec m p :
  Inv m ->
  let m1 := m_purge m p in
  Inv m1 /\ m_abs m1 = m_abs m /\ m_now m1 = m_now m /\
  pclean (m_now m) p (erase (m_ents m1)) /\
  (forall x, In x (m_ents m1) -> In x (m_ents m)) /\
  (forall r, In r (m_recs m1) -> rp r = p -> hp (Ls (m_now m) (erase (m_ents m1))) r = true).
Proof.
  intros [Hf Hfar Hr Hn]. destruct m as [now ents recs]. cbn [m_now m_ents m_recs] in *.
  unfold m_purge. cbn [m_now m_ents m_recs]. cbn zeta.
  set (ents1 := filter (fun x => negb ((ep (me x) =? p) && expired_by now (me x))) ents).
  assert (Sub : forall x, In x ents1 -> In x ents) by (intros x Hx; unfold ents1 in Hx; now apply filter_In in Hx).
  assert (PC : pclean now p (erase ents1)).
  { intros e He Hp. unfold erase in He. apply in_map_iff in He. destruct He as [x [<- Hx]].
    unfold ents1 in Hx. apply filter_In in Hx. destruct Hx as [_ Hx]. apply Z.eqb_eq in Hp.
    rewrite Hp in Hx. cbn [andb] in Hx. unfold expired_by in Hx. rewrite negb_involutive in Hx. exact Hx. }
  assert (EL : Ls now (erase ents1) = Ls now (erase ents)).
  { unfold ents1, erase, Ls.
    rewrite (map_filter_comm me (fun e => negb ((ep e =? p) && expired_by now e))).
    rewrite filter_filter. apply filter_ext. intros e. unfold expired_by, live.
    destruct (now <? eexp e); [|apply andb_false_r]. cbn. now rewrite andb_false_r. }
  assert (SubE : forall e, In e (erase ents1) -> In e (erase ents)).
  { intros e He. unfold erase in *. apply in_map_iff in He. destruct He as [x [<- Hx]]. apply in_map. auto. }
  split; [|split; [|split; [reflexivity|split; [exact PC|split; [exact Sub|]]]]].
  - constructor; cbn [m_now m_ents m_recs]; auto.
    + intros x Hx. apply Hf. auto.
    + apply (recs_inv_md p ents1 recs (erase ents)).
      * intros r Hin _. now apply Hr.
      * intros q Hq Hh. unfold has_peer in *. rewrite existsb_exists in *. destruct Hh as [e [He Hpe]].
        exists e. split; [|exact Hpe]. unfold erase in *. apply in_map_iff in He. destruct He as [x [<- Hx]].
        apply in_map. unfold ents1. apply filter_In. split; [exact Hx|].
        apply Z.eqb_eq in Hpe. replace (ep (me x) =? p) with false; [reflexivity|].
        symmetry. apply Z.eqb_neq. congruence.
  - rewrite !m_abs_eq. cbn [m_now m_ents m_recs]. rewrite EL. f_equal.
    rewrite <- EL. apply abs_recs_md.
  - intros r Hin Hp. rewrite maybe_delete_eq in Hin. unfold hp. rewrite Hp.
    rewrite (has_peer_pclean now p _ PC). destruct (has_peer p (erase ents1)) eqn:K; [reflexivity|].
    unfold remove_rec in Hin. apply filter_In in Hin. destruct Hin as [_ Hne].
    apply negb_true_iff, Z.eqb_neq in Hne. congruence.
Qed.

(* ---- a write on peer p, on a purged state, commutes with the abstraction ------------ *)
Lemma write_commute_plain now p ents1 ents2 recs1 X :
  let L := Ls now (erase ents1) in
  let L2 := Ls now (erase ents2) in
  Ls now X = L2 ->
  (forall q, q <> p -> has_peer q L2 = has_peer q L) ->
  (forall r, In r recs1 -> rp r = p -> hp L r = true) ->
  mk_norm now X (filter (hp L) recs1) = m_abs (mkMB now ents2 (maybe_delete_rec p ents2 recs1)).
Proof.
  cbn zeta. intros HX Ho Hp. rewrite mk_norm_eq, m_abs_eq. cbn [m_now m_ents m_recs]. rewrite HX. f_equal.
  rewrite abs_recs_md. apply filter_cond. intros r Hin H2.
  destruct (Z.eq_dec (rp r) p) as [E|E]; [now apply Hp|]. unfold hp in *. now rewrite <- (Ho _ E).
Qed.

Lemma write_commute_set now p ents1 ents2 recs1 X r :
  let L := Ls now (erase ents1) in
  let L2 := Ls now (erase ents2) in
  rp r = p ->
  Ls now X = L2 ->
  (forall q, q <> p -> has_peer q L2 = has_peer q L) ->
  mk_norm now X (set_rec r (filter (hp L) recs1)) =
  m_abs (mkMB now ents2 (maybe_delete_rec p ents2 (set_rec r recs1))).
Proof.
  cbn zeta. intros Hr HX Ho. rewrite mk_norm_eq, m_abs_eq. cbn [m_now m_ents m_recs]. rewrite HX. f_equal.
  rewrite abs_recs_md. apply filter_set_rec. intros r0 Hin Hne H2. rewrite Hr in Hne.
  unfold hp in *. now rewrite <- (Ho _ Hne).
Qed.

Definition norm_obs (x : obs) : obs := match x with OSizes a b _ => OSizes a b 0 | _ => x end.

Definition obs_rel (m : mbook) (o : op) (e x : obs) : Prop :=
  match o with
  | OPeers => e = OList (a_peers (m_abs m)) /\ x = OList (m_peers m)
  | _ => norm_obs x = norm_obs e
  end.

Definition from_old (m m' : mbook) : Prop :=
  forall e', In e' (erase (m_ents m')) ->
    live (m_now m') e' = true \/ exists e0, In e0 (erase (m_ents m)) /\ ep e0 = ep e'.

Definition step_ok (m : mbook) (o : op) : Prop :=
  let '(m', x) := m_step m o in
  let '(a', e) := a_step (m_abs m) o in
  a' = m_abs m' /\ Inv m' /\ obs_rel m o e x /\ from_old m m'.

Definition op_ok (now : Z) (o : op) : Prop :=
  match o with OAdvance d => 0 <= d /\ now + d < ConnectedAddrTTL | _ => True end.

Lemma erase_sub (l1 l2 : list ment) : (forall x, In x l1 -> In x l2) -> forall e, In e (erase l1) -> In e (erase l2).
Proof. intros H e He. unfold erase in *. apply in_map_iff in He. destruct He as [x [<- Hx]]. apply in_map. auto. Qed.

Lemma add_list_from now p ttl addrs l e :
  0 < ttl -> In e (add_list p ttl now addrs l) -> In e l \/ live now e = true.
Proof.
  intros Ht. unfold add_list. revert l. induction addrs as [|a t IH]; intros l H; cbn [fold_left] in H; [now left|].
  destruct (IH _ H) as [H1|H1]; [|now right].
  destruct (upsert_ext_in _ _ _ _ _ _ H1) as [H2|[[e0 [_ [_ ->]]]| ->]]; [now left| |];
    right; unfold live; cbn; apply Z.ltb_lt; lia.
Qed.

Lemma set_fold_from now p ttl addrs l e :
  In e (set_fold_a p ttl (now + ttl) addrs l) -> In e l \/ live now e = true.
Proof.
  unfold set_fold_a. revert l. induction addrs as [|a t IH]; intros l H; cbn [fold_left] in H; [now left|].
  destruct (IH _ H) as [H1|H1]; [|now right].
  destruct (a_set_one_in _ _ _ _ _ _ H1) as [H2|[Ht ->]]; [now left|].
  right. unfold live. cbn. apply Z.ltb_lt. lia.
Qed.

(* AddAddrs *)
Lemma step_add m p ttl l : Inv m -> step_ok m (OAdd p ttl l).
Proof.
  intros HI. unfold step_ok. cbn [m_step a_step]. unfold m_add.
  destruct (purge_spec m p HI) as [HI1 [HA [Hnow [PC [Sub Prec]]]]]. cbn zeta in *.
  set (m1 := m_purge m p) in *. rewrite <- HA. clear HA.
  destruct m1 as [now1 ents1 recs1] eqn:Em1. cbn [m_now m_ents m_recs] in *. subst now1.
  set (now := m_now m) in *. destruct HI1 as [Hf Hfar Hr Hn]. cbn [m_now m_ents m_recs] in *.
  unfold m_add_unlocked, a_add. rewrite m_abs_eq. cbn [m_now m_ents m_recs a_now a_ents a_recs].
  set (L := Ls now (erase ents1)) in *.
  destruct (Z.leb_spec ttl 0) as [Ht|Ht].
  - split; [|split; [|split; [reflexivity|]]].
    + rewrite m_abs_eq. cbn [m_now m_ents m_recs]. unfold L. f_equal. now rewrite abs_recs_md.
    + constructor; cbn [m_now m_ents m_recs]; auto.
      apply (recs_inv_md p ents1 recs1 (erase ents1)); auto.
    + intros e' He'. right. exists e'. split; [|reflexivity]. cbn [m_ents] in He'. eapply erase_sub; eauto.
  - fold (add_fold_m p ttl (now + ttl) l ents1).
    set (ents2 := add_fold_m p ttl (now + ttl) l ents1).
    assert (E2 : erase ents2 = add_list p ttl now (clean_addrs l) (erase ents1)) by apply erase_add_fold.
    destruct (Ls_add_list now p ttl (clean_addrs l) (erase ents1) PC Ht) as [C1 _].
    destruct (Ls_add_list now p ttl (clean_addrs l) L (pclean_Ls _ _ _) Ht) as [C2 _].
    unfold L in C2 at 2. rewrite Ls_idem in C2. fold L in C2.
    split; [|split; [|split; [reflexivity|]]].
    + apply write_commute_plain.
      * rewrite E2, C1. exact C2.
      * intros q Hq. rewrite E2, C1. fold L. now apply has_peer_other_add_list.
      * exact Prec.
    + constructor; cbn [m_now m_ents m_recs]; auto.
      * now apply flags_add_fold.
      * rewrite E2. apply far_add_list; [lia|exact Hfar].
      * apply (recs_inv_md p ents2 recs1 (erase ents1)); [intros r Hin _; now apply Hr|].
        intros q Hq Hh. rewrite E2, has_peer_other_add_list; auto.
    + intros e' He'. cbn [m_ents m_now] in *. rewrite E2 in He'.
      destruct (add_list_from _ _ _ _ _ _ Ht He') as [H1|H1]; [|now left].
      right. exists e'. split; [|reflexivity]. eapply erase_sub; eauto.
Qed.

(* SetAddrs *)
Lemma step_set m p ttl l : Inv m -> step_ok m (OSet p ttl l).
Proof.
  intros HI. unfold step_ok. cbn [m_step a_step]. unfold m_set.
  destruct (purge_spec m p HI) as [HI1 [HA [Hnow [PC [Sub Prec]]]]]. cbn zeta in *.
  set (m1 := m_purge m p) in *. rewrite <- HA. clear HA.
  destruct m1 as [now1 ents1 recs1] eqn:Em1. cbn [m_now m_ents m_recs] in *. subst now1.
  set (now := m_now m) in *. destruct HI1 as [Hf Hfar Hr Hn]. cbn [m_now m_ents m_recs] in *.
  rewrite a_set_unfold, m_abs_eq. cbn [m_now m_ents m_recs a_now a_ents a_recs].
  set (L := Ls now (erase ents1)) in *.
  fold (set_fold_m p ttl (now + ttl) l ents1). set (ents2 := set_fold_m p ttl (now + ttl) l ents1).
  assert (E2 : erase ents2 = set_fold_a p ttl (now + ttl) (clean_addrs l) (erase ents1)) by apply erase_set_fold.
  destruct (Ls_set_fold now p ttl (clean_addrs l) (erase ents1) PC) as [C1 _].
  destruct (Ls_set_fold now p ttl (clean_addrs l) L (pclean_Ls _ _ _)) as [C2 _].
  unfold L in C2 at 2. rewrite Ls_idem in C2. fold L in C2.
  split; [|split; [|split; [reflexivity|]]].
  - apply write_commute_plain.
    + rewrite E2, C1. exact C2.
    + intros q Hq. rewrite E2, C1. fold L. now apply has_peer_other_set_fold.
    + exact Prec.
  - constructor; cbn [m_now m_ents m_recs]; auto.
    + now apply flags_set_fold.
    + rewrite E2. apply far_set_fold; [lia|exact Hfar].
    + apply (recs_inv_md p ents2 recs1 (erase ents1)); [intros r Hin _; now apply Hr|].
      intros q Hq Hh. rewrite E2, has_peer_other_set_fold; auto.
  - intros e' He'. cbn [m_ents m_now] in *. rewrite E2 in He'.
    destruct (set_fold_from _ _ _ _ _ _ He') as [H1|H1]; [|now left].
    right. exists e'. split; [|reflexivity]. eapply erase_sub; eauto.
Qed.

(* UpdateAddrs *)
Lemma step_update m p old new : Inv m -> step_ok m (OUpdate p old new).
Proof.
  intros HI. unfold step_ok. cbn [m_step a_step]. unfold m_update.
  destruct (purge_spec m p HI) as [HI1 [HA [Hnow [PC [Sub Prec]]]]]. cbn zeta in *.
  set (m1 := m_purge m p) in *. rewrite <- HA. clear HA.
  destruct m1 as [now1 ents1 recs1] eqn:Em1. cbn [m_now m_ents m_recs] in *. subst now1.
  set (now := m_now m) in *. destruct HI1 as [Hf Hfar Hr Hn]. cbn [m_now m_ents m_recs] in *.
  unfold a_update. rewrite m_abs_eq. cbn [m_now m_ents m_recs a_now a_ents a_recs].
  set (L := Ls now (erase ents1)) in *. fold (upd_map p old new now).
  set (ents2 := m_update_ents p old new (now + new) ents1).
  assert (C1 : Ls now (erase ents2) = Ls now (map (upd_map p old new now) L)).
  { unfold ents2, Ls at 1. rewrite erase_update. fold (Ls now (map (upd_map p old new now) (erase ents1))).
    now rewrite (Ls_upd now p old new _ PC). }
  split; [|split; [|split; [reflexivity|]]].
  - apply write_commute_plain.
    + now rewrite C1.
    + intros q Hq. rewrite C1. rewrite has_peer_other_upd by exact Hq. unfold L. now rewrite Ls_idem.
    + exact Prec.
  - constructor; cbn [m_now m_ents m_recs]; auto.
    + now apply flags_update.
    + intros e He. unfold erase in He. apply in_map_iff in He. destruct He as [x' [<- Hx']].
      destruct (in_update_ents _ _ _ _ _ _ Hx') as [H1|[x [H1 [_ ->]]]].
      * apply Hfar. now apply in_map.
      * apply far_new. lia.
    + apply (recs_inv_md p ents2 recs1 (erase ents1)); [intros r Hin _; now apply Hr|].
      intros q Hq Hh. unfold ents2. now rewrite has_peer_other_update.
  - intros e' He'. cbn [m_ents m_now] in *. right. unfold erase in He'. apply in_map_iff in He'.
    destruct He' as [x' [<- Hx']]. destruct (in_update_ents _ _ _ _ _ _ Hx') as [H1|[x [H1 [_ Hm]]]].
    + exists (me x'). split; [|reflexivity]. apply (erase_sub ents1); [exact Sub|now apply in_map].
    + exists (me x). split; [apply (erase_sub ents1); [exact Sub|now apply in_map]|]. now rewrite Hm.
Qed.

(* ConsumePeerRecord *)
Lemma step_consume m p seq id ttl bad l : Inv m -> step_ok m (OConsume p seq id ttl bad l).
Proof.
  intros HI. unfold step_ok. cbn [m_step a_step].
  destruct bad.
  { split; [reflexivity|split; [exact HI|split; [reflexivity|]]].
    intros e' He'. right. exists e'. tauto. }
  unfold m_consume.
  destruct (purge_spec m p HI) as [HI1 [HA [Hnow [PC [Sub Prec]]]]]. cbn zeta in *.
  set (m1 := m_purge m p) in *. rewrite <- HA.
  destruct m1 as [now1 ents1 recs1] eqn:Em1. cbn [m_now m_ents m_recs] in *. subst now1.
  set (now := m_now m) in *. pose proof HI1 as [Hf Hfar Hr Hn]. cbn [m_now m_ents m_recs] in *.
  unfold a_consume. rewrite m_abs_eq. cbn [m_now m_ents m_recs a_now a_ents a_recs].
  set (L := Ls now (erase ents1)) in *.
  rewrite (find_rec_filter (hp L) p recs1 Prec).
  destruct (match find_rec p recs1 with Some r => seq <? rseq r | None => false end) eqn:Rej.
  - (* rejected: the purged state *)
    split; [|split; [exact HI1|split; [reflexivity|]]].
    + rewrite m_abs_eq. reflexivity.
    + intros e' He'. right. exists e'. split; [|reflexivity]. eapply erase_sub; eauto.
  - set (ents1' := match find_rec p recs1 with
                   | Some r => m_evict p (clean_addrs (raddrs r)) (clean_addrs l) ents1
                   | None => ents1 end).
    set (L1 := match find_rec p recs1 with
               | Some r => evict_superseded p (clean_addrs (raddrs r)) (clean_addrs l) L
               | None => L end).
    assert (E1 : erase ents1' = match find_rec p recs1 with
                                | Some r => evict_superseded p (clean_addrs (raddrs r)) (clean_addrs l) (erase ents1)
                                | None => erase ents1 end).
    { unfold ents1'. destruct (find_rec p recs1); [apply erase_evict|reflexivity]. }
    assert (C1 : Ls now (erase ents1') = L1 /\ pclean now p (erase ents1')).
    { rewrite E1. unfold L1. destruct (find_rec p recs1); [|split; [reflexivity|exact PC]].
      now apply Ls_evict. }
    destruct C1 as [C1 PC1].
    assert (PL1 : pclean now p L1) by (rewrite <- C1; apply pclean_Ls).
    assert (LL1 : Ls now L1 = L1) by (rewrite <- C1; apply Ls_idem).
    assert (O1 : forall q, q <> p -> has_peer q L1 = has_peer q L).
    { intros q Hq. unfold L1. destruct (find_rec p recs1); [now apply has_peer_other_evict|reflexivity]. }
    assert (OE1 : forall q, q <> p -> has_peer q (erase ents1') = has_peer q (erase ents1)).
    { intros q Hq. rewrite E1. destruct (find_rec p recs1); [now apply has_peer_other_evict|reflexivity]. }
    assert (F1 : flags_ok ents1').
    { unfold ents1'. destruct (find_rec p recs1); [now apply flags_evict|exact Hf]. }
    assert (Far1 : forall e, In e (erase ents1') -> far e).
    { intros e He. rewrite E1 in He. destruct (find_rec p recs1); [apply evict_sub in He|]; now apply Hfar. }
    assert (S1 : forall e, In e (erase ents1') -> In e (erase ents1)).
    { intros e He. rewrite E1 in He. destruct (find_rec p recs1); [now apply evict_sub in He|exact He]. }
    unfold m_add_unlocked. cbn [m_now m_ents m_recs fst snd].
    set (r := mkR p seq id l).
    assert (RI : forall ents2, (forall q, q <> p -> has_peer q (erase ents1) = true -> has_peer q (erase ents2) = true) ->
                 forall r0, In r0 (maybe_delete_rec p ents2 (set_rec r recs1)) -> has_peer (rp r0) (erase ents2) = true).
    { intros ents2 Hm. apply (recs_inv_md p ents2 (set_rec r recs1) (erase ents1)); [|exact Hm].
      intros r0 Hin Hne. unfold set_rec in Hin. apply in_app_or in Hin. destruct Hin as [Hin|[<-|[]]].
      - unfold remove_rec in Hin. apply filter_In in Hin. now apply Hr.
      - cbn in Hne. congruence. }
    destruct (Z.leb_spec ttl 0) as [Ht|Ht].
    + split; [|split; [|split; [reflexivity|]]].
      * apply (write_commute_set now p ents1 ents1' recs1 L1 r); [reflexivity|now rewrite C1|].
        intros q Hq. rewrite C1. now apply O1.
      * constructor; cbn [m_now m_ents m_recs]; auto.
        apply RI. intros q Hq Hh. now rewrite OE1.
      * intros e' He'. right. exists e'. split; [|reflexivity]. cbn [m_ents] in He'.
        apply (erase_sub ents1); [exact Sub|now apply S1].
    + fold (add_fold_m p ttl (now + ttl) l ents1').
      set (ents2 := add_fold_m p ttl (now + ttl) l ents1').
      assert (E2 : erase ents2 = add_list p ttl now (clean_addrs l) (erase ents1')) by apply erase_add_fold.
      destruct (Ls_add_list now p ttl (clean_addrs l) (erase ents1') PC1 Ht) as [C2 _].
      destruct (Ls_add_list now p ttl (clean_addrs l) L1 PL1 Ht) as [C3 _].
      rewrite LL1 in C3. rewrite C1 in C2.
      split; [|split; [|split; [reflexivity|]]].
      * apply (write_commute_set now p ents1 ents2 recs1 (add_list p ttl now (clean_addrs l) L1) r); [reflexivity| |].
        -- rewrite E2, C2. exact C3.
        -- intros q Hq. rewrite E2, C2. rewrite has_peer_other_add_list by exact Hq. now apply O1.
      * constructor; cbn [m_now m_ents m_recs]; auto.
        -- now apply flags_add_fold.
        -- rewrite E2. apply far_add_list; [lia|exact Far1].
        -- apply RI. intros q Hq Hh. rewrite E2, has_peer_other_add_list by exact Hq. now rewrite OE1.
      * intros e' He'. cbn [m_ents m_now] in *. rewrite E2 in He'.
        destruct (add_list_from _ _ _ _ _ _ Ht He') as [H1|H1]; [|now left].
        right. exists e'. split; [|reflexivity]. apply (erase_sub ents1); [exact Sub|now apply S1].
Qed.

(* ClearAddrs *)
Lemma step_clear m p : Inv m -> step_ok m (OClear p).
Proof.
  intros HI. unfold step_ok. cbn [m_step a_step]. destruct HI as [Hf Hfar Hr Hn].
  destruct m as [now ents recs]. cbn [m_now m_ents m_recs] in *.
  unfold m_clear, a_clear. rewrite !m_abs_eq. cbn [m_now m_ents m_recs a_now a_ents a_recs].
  set (notp := fun e : aent => negb (ep e =? p)).
  assert (E : erase (filter (fun x => negb (ep (me x) =? p)) ents) = filter notp (erase ents))
    by apply (map_filter_comm me notp).
  assert (LE : Ls now (filter notp (erase ents)) = filter notp (Ls now (erase ents))).
  { unfold Ls. rewrite !filter_filter. apply filter_ext. intros e. apply andb_comm. }
  assert (HO : forall q l, q <> p -> has_peer q (filter notp l) = has_peer q l).
  { intros q l Hq. replace (filter notp l) with (a_set_one p 0 0 0 (filter notp l)).
    2:{ unfold a_set_one. cbn. unfold remove_ent. apply filter_id. intros x Hx. apply filter_In in Hx.
        destruct Hx as [_ Hx]. unfold key_is, notp in *. apply negb_true_iff in Hx. now rewrite Hx. }
    rewrite has_peer_other_set_one by exact Hq. clear -Hq. unfold has_peer, notp.
    induction l as [|x r IH]; cbn [filter existsb]; [reflexivity|].
    destruct (ep x =? p) eqn:E; cbn [negb existsb]; rewrite IH; [|reflexivity].
    apply Z.eqb_eq in E. replace (ep x =? q) with false; [reflexivity|]. symmetry. apply Z.eqb_neq. congruence. }
  split; [|split; [|split; [reflexivity|]]].
  - rewrite E, LE. f_equal. unfold remove_rec. rewrite !filter_filter. apply filter_ext_in. intros r _.
    destruct (rp r =? p) eqn:K; cbn [negb andb]; [now rewrite andb_false_r|].
    rewrite andb_true_r. unfold hp. apply Z.eqb_neq in K. now rewrite HO.
  - constructor; cbn [m_now m_ents m_recs]; auto.
    + now apply flags_filter.
    + intros e He. rewrite E in He. apply filter_In in He. now apply Hfar.
    + intros r Hin. unfold remove_rec in Hin. apply filter_In in Hin. destruct Hin as [Hin Hne].
      apply negb_true_iff, Z.eqb_neq in Hne. rewrite E, HO by exact Hne. now apply Hr.
  - intros e' He'. cbn [m_ents] in *. right. exists e'. split; [|reflexivity]. rewrite E in He'.
    now apply filter_In in He'.
Qed.

Lemma from_old_refl m : from_old m m.
Proof. intros e' He'. right. exists e'. tauto. Qed.

(* reads *)
Lemma step_addrs m p : Inv m -> step_ok m (OAddrs p).
Proof.
  intros HI. unfold step_ok. cbn [m_step a_step].
  split; [reflexivity|split; [exact HI|split; [|apply from_old_refl]]].
  cbn [obs_rel norm_obs]. f_equal. unfold m_addrs, a_addrs. rewrite m_abs_eq. cbn [a_ents].
  unfold Ls, erase. rewrite filter_filter. rewrite <- (map_filter_comm me (fun e => live (m_now m) e && (ep e =? p))).
  rewrite map_map. f_equal. apply filter_ext. intros x. unfold expired_by, live.
  rewrite negb_involutive. apply andb_comm.
Qed.

Lemma step_getrec m p : Inv m -> step_ok m (OGetRec p).
Proof.
  intros HI. unfold step_ok. cbn [m_step a_step].
  split; [reflexivity|split; [exact HI|split; [|apply from_old_refl]]].
  cbn [obs_rel norm_obs]. f_equal. unfold m_getrec, a_getrec. rewrite m_abs_eq. cbn [a_recs].
  set (now := m_now m). set (L := Ls now (erase (m_ents m))).
  assert (AL : m_addrs m p = map ea (filter (fun e => ep e =? p) L)).
  { unfold m_addrs, L, Ls, erase. fold now. rewrite filter_filter.
    rewrite <- (map_filter_comm me (fun e => live now e && (ep e =? p))). rewrite map_map. f_equal.
    apply filter_ext. intros x. unfold expired_by, live. rewrite negb_involutive. apply andb_comm. }
  assert (HP : has_peer p L = negb (match filter (fun e => ep e =? p) L with [] => true | _ => false end)).
  { unfold has_peer. clear. induction L as [|x r IH]; cbn [existsb filter]; [reflexivity|].
    destruct (ep x =? p); [reflexivity|exact IH]. }
  destruct (has_peer p L) eqn:K.
  - rewrite (find_rec_filter (hp L) p (m_recs m)) by (intros r _ Hr; unfold hp; now rewrite Hr).
    rewrite has_peer_erase, (has_peer_Ls_true now p _ K). cbn [negb]. rewrite AL.
    destruct (filter (fun e => ep e =? p) L); [discriminate|reflexivity].
  - assert (N : find_rec p (filter (hp L) (m_recs m)) = None).
    { unfold find_rec. destruct (find _ _) eqn:F; [|reflexivity]. apply find_some in F.
      destruct F as [Hin Hp]. apply filter_In in Hin. destruct Hin as [_ Hh]. apply Z.eqb_eq in Hp.
      unfold hp in Hh. congruence. }
    rewrite N. destruct (negb (m_has_peer p (m_ents m))); [reflexivity|]. rewrite AL.
    destruct (filter (fun e => ep e =? p) L); [reflexivity|discriminate].
Qed.

Lemma step_peers m : Inv m -> step_ok m OPeers.
Proof.
  intros HI. unfold step_ok. cbn [m_step a_step].
  split; [reflexivity|split; [exact HI|split; [|apply from_old_refl]]]. split; reflexivity.
Qed.

Lemma step_reopen m : Inv m -> step_ok m OReopen.
Proof.
  intros HI. unfold step_ok. cbn [m_step a_step].
  split; [reflexivity|split; [exact HI|split; [reflexivity|apply from_old_refl]]].
Qed.

(* clock advance *)
Lemma step_advance m d : Inv m -> 0 <= d -> m_now m + d < ConnectedAddrTTL -> step_ok m (OAdvance d).
Proof.
  intros [Hf Hfar Hr Hn] Hd Hh. unfold step_ok. cbn [m_step a_step].
  destruct m as [now ents recs]. cbn [m_now m_ents m_recs] in *.
  unfold a_advance. rewrite !m_abs_eq, mk_norm_eq. cbn [m_now m_ents m_recs a_now a_ents a_recs].
  assert (LE : Ls (now + d) (Ls now (erase ents)) = Ls (now + d) (erase ents)).
  { unfold Ls. rewrite filter_filter. apply filter_ext. intros e. unfold live.
    destruct (Z.ltb_spec (now + d) (eexp e)); [|apply andb_false_r].
    replace (now <? eexp e) with true; [reflexivity|]. symmetry. apply Z.ltb_lt. lia. }
  split; [|split; [|split; [reflexivity|intros e' He'; right; exists e'; tauto]]].
  - rewrite LE. f_equal. apply filter_cond. intros r _ H. unfold hp in *.
    rewrite <- LE in H. now apply has_peer_Ls_true in H.
  - constructor; cbn [m_now m_ents m_recs]; auto. lia.
Qed.

(* GC *)
Lemma existsb_split {A} (f g : A -> bool) l :
  existsb f l = existsb f (filter g l) || existsb f (filter (fun x => negb (g x)) l).
Proof.
  induction l as [|x r IH]; cbn [existsb filter]; [reflexivity|].
  destruct (g x); cbn [negb existsb]; rewrite IH; destruct (f x); cbn;
    try reflexivity; now rewrite ?orb_true_r.
Qed.

Lemma gc_spec m : Inv m ->
  let L := Ls (m_now m) (erase (m_ents m)) in
  m_now (m_gc m) = m_now m /\ erase (m_ents (m_gc m)) = L /\ m_recs (m_gc m) = filter (hp L) (m_recs m) /\
  flags_ok (m_ents (m_gc m)).
Proof.
  intros [Hf Hfar Hr Hn]. destruct m as [now ents recs]. cbn [m_now m_ents m_recs] in *. cbn zeta.
  set (popped := fun x => mheap x && expired_by now (me x)).
  assert (P : forall x, In x ents -> negb (popped x) = live now (me x)).
  { intros x Hx. unfold popped. rewrite (Hf x Hx).
    assert (G : far (me x)) by (apply Hfar; now apply in_map).
    unfold expired_by, live. destruct (conn (ettl (me x))) eqn:C; cbn [negb andb].
    - specialize (G C). symmetry. apply Z.ltb_lt. lia.
    - now rewrite negb_involutive. }
  assert (E : erase (filter (fun x => negb (popped x)) ents) = Ls now (erase ents)).
  { rewrite (filter_ext_in _ (fun x => live now (me x)) ents P). apply (map_filter_comm me (live now)). }
  assert (G : m_gc (mkMB now ents recs) =
              mkMB now (filter (fun x => negb (popped x)) ents)
                   (filter (fun r => negb (m_has_peer (rp r) (filter popped ents) &&
                                           negb (m_has_peer (rp r) (filter (fun x => negb (popped x)) ents)))) recs))
    by reflexivity.
  rewrite G. cbn [m_now m_ents m_recs]. split; [reflexivity|split; [exact E|split; [|now apply flags_filter]]].
  apply filter_ext_in. intros r Hin. rewrite (has_peer_erase _ (filter (fun x => negb (popped x)) ents)), E.
  unfold hp. destruct (has_peer (rp r) (Ls now (erase ents))) eqn:K; [now rewrite andb_false_r|].
  assert (H0 := Hr r Hin). rewrite <- has_peer_erase in H0. unfold m_has_peer in H0.
  rewrite (existsb_split _ (fun x => negb (popped x))) in H0.
  fold (m_has_peer (rp r) (filter (fun x => negb (popped x)) ents)) in H0.
  rewrite has_peer_erase, E, K in H0. cbn [orb] in H0.
  rewrite (filter_ext _ popped) in H0 by (intros x; apply negb_involutive).
  unfold m_has_peer. rewrite H0. reflexivity.
Qed.

Lemma step_gc m : Inv m -> step_ok m OGC.
Proof.
  intros HI. unfold step_ok. cbn [m_step a_step].
  destruct (gc_spec m HI) as [Gn [Ge [Gr Gf]]]. cbn zeta in *.
  set (L := Ls (m_now m) (erase (m_ents m))) in *.
  assert (A : m_abs (m_gc m) = m_abs m).
  { rewrite !m_abs_eq, Gn, Ge, Gr. fold L. unfold L at 1 2. rewrite Ls_idem. fold L. f_equal.
    apply filter_cond. auto. }
  destruct HI as [Hf Hfar Hr Hn].
  split; [now rewrite A|split; [|split]].
  - constructor; try (rewrite Gn); auto.
    + intros e He. rewrite Ge in He. unfold L, Ls in He. apply filter_In in He. now apply Hfar.
    + intros r Hin. rewrite Gr in Hin. apply filter_In in Hin. rewrite Ge. tauto.
  - cbn [obs_rel norm_obs]. rewrite m_abs_eq. cbn [a_ents a_recs]. fold L. unfold zlen'.
    rewrite <- Ge at 1. unfold erase. rewrite map_length. now rewrite Gr.
  - intros e' He'. left. rewrite Ge in He'. rewrite Gn. unfold L, Ls in He'. apply filter_In in He'. tauto.
Qed.

Lemma gc_all_live m : Inv m -> forall e', In e' (erase (m_ents (m_gc m))) -> live (m_now (m_gc m)) e' = true.
Proof.
  intros HI e' He'. destruct (gc_spec m HI) as [Gn [Ge _]]. cbn zeta in *. rewrite Ge in He'. rewrite Gn.
  unfold Ls in He'. apply filter_In in He'. tauto.
Qed.

(* every operation *)
Lemma step_all m o : Inv m -> op_ok (m_now m) o -> step_ok m o.
Proof.
  intros HI Ho. destruct o.
  - now apply step_add.
  - now apply step_set.
  - now apply step_update.
  - now apply step_clear.
  - now apply step_consume.
  - now apply step_addrs.
  - now apply step_peers.
  - now apply step_getrec.
  - destruct Ho. now apply step_advance.
  - now apply step_gc.
  - now apply step_reopen.
Qed.

(* ---- histories: the clock moves forward and stays below ConnectedAddrTTL ---------- *)
Fixpoint clock_ok (now : Z) (ops : list op) : bool :=
  match ops with
  | [] => true
  | OAdvance d :: r => (0 <=? d) && (now + d <? ConnectedAddrTTL) && clock_ok (now + d) r
  | _ :: r => clock_ok now r
  end.

Lemma m_step_now m o : m_now (fst (m_step m o)) = match o with OAdvance d => m_now m + d | _ => m_now m end.
Proof.
  destruct o; cbn [m_step fst]; try reflexivity.
  all: try (destruct bad; [reflexivity|]; unfold m_consume;
            destruct (match find_rec _ _ with Some _ => _ | None => _ end); reflexivity).
Qed.

Lemma clock_ok_step now o r : clock_ok now (o :: r) = true ->
  op_ok now o /\ clock_ok (match o with OAdvance d => now + d | _ => now end) r = true.
Proof.
  destruct o; cbn [clock_ok op_ok]; try tauto.
  rewrite !andb_true_iff, Z.leb_le, Z.ltb_lt. tauto.
Qed.

(* the model's state is always the abstraction of ... itself: a_run on the abstraction *)
Lemma abs_run ops : forall m, Inv m -> clock_ok (m_now m) ops = true ->
  a_run (m_abs m) ops = m_abs (m_run m ops) /\ Inv (m_run m ops).
Proof.
  induction ops as [|o r IH]; intros m HI Hc; [split; [reflexivity|exact HI]|].
  destruct (clock_ok_step _ _ _ Hc) as [Ho Hr]. pose proof (step_all m o HI Ho) as S.
  unfold step_ok in S. cbn [a_run m_run]. pose proof (m_step_now m o) as Hn.
  destruct (m_step m o) as [m' x]. destruct (a_step (m_abs m) o) as [a' e]. cbn [fst] in *.
  destruct S as [-> [HI' _]]. apply IH; [exact HI'|]. now rewrite Hn.
Qed.

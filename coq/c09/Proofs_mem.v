(* C09 — proofs about the in-memory model: under the hypothesis [calm] the
   model's trace is the abstract book's trace. *)
From Coq Require Import List ZArith Bool Lia.
From Verif Require Import lib.Wire gen.Consts_c09 c09.Abs c09.Model_mem c09.Model_ds c09.Spec.
Import ListNotations.
Local Open Scope Z_scope.

(* ---- generic list facts --------------------------------------------------- *)
Lemma filter_id {A} (f : A -> bool) l : (forall x, In x l -> f x = true) -> filter f l = l.
Proof.
  induction l as [|x r IH]; intros H; cbn [filter]; [reflexivity|].
  rewrite (H x (or_introl eq_refl)). f_equal. apply IH. intros y Hy. apply H. now right.
Qed.

Lemma map_filter_comm {A B} (g : A -> B) (f : B -> bool) l :
  map g (filter (fun x => f (g x)) l) = filter f (map g l).
Proof.
  induction l as [|x r IH]; cbn [filter map]; [reflexivity|].
  destruct (f (g x)); cbn [map]; now rewrite IH.
Qed.

Definition erase (l : list ment) : list aent := map me l.

Lemma zmax_if a b : Z.max a b = if a <? b then b else a.
Proof. destruct (Z.ltb_spec a b); lia. Qed.

Lemma key_is_eq p a e : key_is p a e = true -> ep e = p /\ ea e = a.
Proof. unfold key_is. rewrite andb_true_iff, !Z.eqb_eq. tauto. Qed.

(* ---- invariants ----------------------------------------------------------- *)
Definition flags_ok (l : list ment) : Prop :=
  forall x, In x l -> mheap x = negb (conn (ettl (me x))).
Definition all_live (now : Z) (l : list aent) : Prop := forall e, In e l -> live now e = true.
Definition recs_ok (ents : list aent) (recs : list arec) : Prop :=
  forall r, In r recs -> has_peer (rp r) ents = true.
Definition conn_far (l : list aent) : Prop :=
  forall e, In e l -> conn (ettl e) = true -> ConnectedAddrTTL <= eexp e.
Definition recs_plain (recs : list arec) : Prop := forall r, In r recs -> sfx_free (raddrs r) = true.

Lemma pa_update_flag_eq e h : pa_update_flag e h = negb (conn (ettl e)).
Proof. unfold pa_update_flag. destruct h, (conn (ettl e)); reflexivity. Qed.

Lemma pa_insert_flag e : mheap (pa_insert e) = negb (conn (ettl (me (pa_insert e)))).
Proof. unfold pa_insert. cbn. destruct (conn (ettl e)); reflexivity. Qed.

Lemma has_peer_erase p l : m_has_peer p l = has_peer p (erase l).
Proof. unfold m_has_peer, has_peer, erase. induction l; cbn; [reflexivity|]. now rewrite IHl. Qed.

Lemma remove_rec_absent p recs : find_rec p recs = None -> remove_rec p recs = recs.
Proof.
  unfold find_rec, remove_rec. induction recs as [|r t IH]; cbn [find filter]; [reflexivity|].
  destruct (rp r =? p) eqn:E; [discriminate|]. intros H. cbn [negb]. f_equal. now apply IH.
Qed.

Lemma recs_ok_no_rec ents recs p : recs_ok ents recs -> has_peer p ents = false -> find_rec p recs = None.
Proof.
  intros Hok Hp. unfold find_rec. destruct (find (fun r => rp r =? p) recs) eqn:F; [|reflexivity].
  apply find_some in F. destruct F as [Hin Heq]. apply Z.eqb_eq in Heq.
  pose proof (Hok _ Hin) as H. rewrite Heq in H. congruence.
Qed.

(* normalize is the identity on a book that holds only live entries *)
Lemma normalize_id now ents recs :
  all_live now ents -> recs_ok ents recs -> normalize now ents recs = (ents, recs).
Proof.
  intros Hl Hr. unfold normalize. rewrite (filter_id _ ents Hl). f_equal.
  apply filter_id. intros r Hin. now apply Hr.
Qed.

(* the records that survive when only peer p's entries changed *)
Lemma filter_recs p ents' recs :
  (forall r, In r recs -> rp r <> p -> has_peer (rp r) ents' = true) ->
  filter (fun r => has_peer (rp r) ents') recs =
  if has_peer p ents' then recs else remove_rec p recs.
Proof.
  intros H. induction recs as [|r t IH]; cbn [filter].
  - destruct (has_peer p ents'); reflexivity.
  - assert (IH' := IH (fun r0 Hin => H r0 (or_intror Hin))). clear IH.
    destruct (Z.eq_dec (rp r) p) as [E|E].
    + rewrite E. unfold remove_rec in *. cbn [filter]. rewrite E, Z.eqb_refl. cbn [negb].
      destruct (has_peer p ents'); rewrite IH'; reflexivity.
    + rewrite (H r (or_introl eq_refl) E). unfold remove_rec in *. cbn [filter].
      apply Z.eqb_neq in E. rewrite E. cbn [negb].
      destruct (has_peer p ents'); rewrite IH'; reflexivity.
Qed.

Lemma maybe_delete_norm p (ments : list ment) recs :
  (forall r, In r recs -> rp r <> p -> has_peer (rp r) (erase ments) = true) ->
  maybe_delete_rec p ments recs = filter (fun r => has_peer (rp r) (erase ments)) recs.
Proof.
  intros H. rewrite (filter_recs p _ _ H). unfold maybe_delete_rec. now rewrite has_peer_erase.
Qed.

(* ---- AddAddrs -------------------------------------------------------------- *)
Lemma erase_add_one p a ttl exp l :
  erase (m_add_one p a ttl exp l) = upsert_ext p a ttl exp (erase l).
Proof.
  induction l as [|x r IH]; cbn [m_add_one upsert_ext erase map].
  - unfold pa_insert. reflexivity.
  - destruct (key_is p a (me x)) eqn:K; cbn [map].
    + f_equal. rewrite !zmax_if. destruct (key_is_eq _ _ _ K) as [Hp Ha].
      destruct (ettl (me x) <? ttl) eqn:C1, (eexp (me x) <? exp) eqn:C2; cbn [orb me]; try reflexivity.
      destruct (me x) as [p0 a0 t0 e0]. cbn in *. now subst.
    + f_equal. exact IH.
Qed.

Lemma flags_add_one p a ttl exp l : flags_ok l -> flags_ok (m_add_one p a ttl exp l).
Proof.
  induction l as [|x r IH]; intros H; cbn [m_add_one].
  - intros y [<-|[]]. apply pa_insert_flag.
  - destruct (key_is p a (me x)).
    + intros y [<-|Hy].
      * destruct ((ettl (me x) <? ttl) || (eexp (me x) <? exp)).
        -- cbn [mheap me]. apply pa_update_flag_eq.
        -- apply H. now left.
      * apply H. now right.
    + intros y [<-|Hy]; [apply H; now left|]. apply IH; [|exact Hy]. intros z Hz. apply H. now right.
Qed.

Lemma upsert_ext_in p a ttl exp l e :
  In e (upsert_ext p a ttl exp l) ->
  In e l \/ (exists e0, In e0 l /\ key_is p a e0 = true /\
                        e = mkE p a (Z.max (ettl e0) ttl) (Z.max (eexp e0) exp))
  \/ e = mkE p a ttl exp.
Proof.
  induction l as [|x r IH]; cbn [upsert_ext]; intros H.
  - destruct H as [<-|[]]. right. now right.
  - destruct (key_is p a x) eqn:K.
    + destruct H as [<-|H]; [right; left; exists x; repeat split; auto; now left|]. left. now right.
    + destruct H as [<-|H]; [left; now left|].
      destruct (IH H) as [H1|[[e0 [H1 H2]]|H1]]; [left; now right| |right; now right].
      right. left. exists e0. split; [now right|exact H2].
Qed.

Lemma has_peer_upsert_ext q p a ttl exp l :
  has_peer q (upsert_ext p a ttl exp l) = has_peer q l || (q =? p).
Proof.
  unfold has_peer. induction l as [|x r IH]; cbn [upsert_ext existsb].
  - cbn. rewrite orb_false_r. apply Z.eqb_sym.
  - destruct (key_is p a x) eqn:K; cbn [existsb ep].
    + destruct (key_is_eq _ _ _ K) as [Hp _]. rewrite Hp.
      destruct (p =? q) eqn:E; [reflexivity|]. cbn [orb].
      rewrite Z.eqb_sym, E. now rewrite orb_false_r.
    + rewrite IH. now rewrite orb_assoc.
Qed.

Definition entry_good (now : Z) (e : aent) : Prop :=
  live now e = true /\ (conn (ettl e) = true -> ConnectedAddrTTL <= eexp e).

Lemma good_all now l : (forall e, In e l -> entry_good now e) <-> (all_live now l /\ conn_far l).
Proof.
  unfold entry_good, all_live, conn_far. split.
  - intros H. split; intros e He; apply (H e He).
  - intros [H1 H2] e He. split; [now apply H1|now apply H2].
Qed.

Lemma new_entry_good now p a ttl : 0 <= now -> 0 < ttl -> entry_good now (mkE p a ttl (now + ttl)).
Proof.
  intros Hn Ht. unfold entry_good, live, conn. cbn. split; [apply Z.ltb_lt; lia|].
  intros H. apply Z.leb_le in H. lia.
Qed.

Lemma upsert_ext_good now p a ttl l :
  0 <= now -> 0 < ttl -> (forall e, In e l -> entry_good now e) ->
  forall e, In e (upsert_ext p a ttl (now + ttl) l) -> entry_good now e.
Proof.
  intros Hn Ht H e He. destruct (upsert_ext_in _ _ _ _ _ _ He) as [H1|[[e0 [H1 [_ H2]]]|H1]].
  - now apply H.
  - subst e. destruct (H e0 H1) as [Hl Hf]. unfold entry_good, live, conn in *. cbn.
    apply Z.ltb_lt in Hl. split; [apply Z.ltb_lt; lia|].
    intros Hc. apply Z.leb_le in Hc.
    destruct (Z.le_gt_cases ConnectedAddrTTL (ettl e0)) as [Hc0|Hc0].
    + assert (ConnectedAddrTTL <= eexp e0) by (apply Hf; now apply Z.leb_le). lia.
    + lia.
  - subst e. now apply new_entry_good.
Qed.

Definition add_fold_m (p ttl exp : Z) (addrs : list raw) (l : list ment) : list ment :=
  fold_left (fun l (r : raw) => if snd r =? 2 then l else m_add_one p (fst r) ttl exp l) addrs l.

Lemma erase_add_fold p ttl now addrs l :
  erase (add_fold_m p ttl (now + ttl) addrs l) = add_list p ttl now (clean_addrs addrs) (erase l).
Proof.
  unfold add_fold_m, add_list, clean_addrs. revert l.
  induction addrs as [|r t IH]; intros l; cbn [fold_left filter map]; [reflexivity|].
  destruct (snd r =? 2); cbn [negb filter map fold_left].
  - apply IH.
  - rewrite IH. now rewrite erase_add_one.
Qed.

Lemma flags_add_fold p ttl exp addrs l : flags_ok l -> flags_ok (add_fold_m p ttl exp addrs l).
Proof.
  unfold add_fold_m. revert l. induction addrs as [|r t IH]; intros l H; cbn [fold_left]; [exact H|].
  destruct (snd r =? 2); apply IH; [exact H|]. now apply flags_add_one.
Qed.

Lemma add_list_good now p ttl addrs l :
  0 <= now -> 0 < ttl -> (forall e, In e l -> entry_good now e) ->
  forall e, In e (add_list p ttl now addrs l) -> entry_good now e.
Proof.
  intros Hn Ht. unfold add_list. revert l. induction addrs as [|a t IH]; intros l H; cbn [fold_left]; [exact H|].
  apply IH. now apply upsert_ext_good.
Qed.

Lemma has_peer_add_list q p ttl now addrs l :
  has_peer q l = true -> has_peer q (add_list p ttl now addrs l) = true.
Proof.
  unfold add_list. revert l. induction addrs as [|a t IH]; intros l H; cbn [fold_left]; [exact H|].
  apply IH. rewrite has_peer_upsert_ext, H. reflexivity.
Qed.

(* ---- SetAddrs --------------------------------------------------------------- *)
Definition a_set_one (p a ttl exp : Z) (l : list aent) : list aent :=
  if 0 <? ttl then upsert_set p a ttl exp l else remove_ent p a l.

Lemma erase_set_one p a ttl exp l :
  erase (m_set_one p a ttl exp l) = a_set_one p a ttl exp (erase l).
Proof.
  unfold a_set_one. induction l as [|x r IH]; cbn [m_set_one erase map].
  - destruct (0 <? ttl); reflexivity.
  - unfold remove_ent in *. cbn [upsert_set filter].
    destruct (key_is p a (me x)) eqn:K; cbn [negb].
    + destruct (0 <? ttl); [reflexivity|]. exact IH.
    + destruct (0 <? ttl); cbn [map]; f_equal; exact IH.
Qed.

Lemma flags_set_one p a ttl exp l : flags_ok l -> flags_ok (m_set_one p a ttl exp l).
Proof.
  induction l as [|x r IH]; intros H; cbn [m_set_one].
  - destruct (0 <? ttl); [|intros y []]. intros y [<-|[]]. apply pa_insert_flag.
  - assert (Hr : flags_ok r) by (intros z Hz; apply H; now right).
    destruct (key_is p a (me x)).
    + destruct (0 <? ttl); [|now apply IH].
      intros y [<-|Hy]; [cbn [mheap me]; apply pa_update_flag_eq|now apply Hr].
    + intros y [<-|Hy]; [apply H; now left|now apply IH].
Qed.

Lemma a_set_one_in p a ttl exp l e :
  In e (a_set_one p a ttl exp l) -> In e l \/ (0 < ttl /\ e = mkE p a ttl exp).
Proof.
  unfold a_set_one. destruct (Z.ltb_spec 0 ttl) as [Ht|Ht].
  - induction l as [|x r IH]; cbn [upsert_set]; intros H.
    + destruct H as [<-|[]]. now right.
    + destruct (key_is p a x).
      * destruct H as [<-|H]; [now right|left; now right].
      * destruct H as [<-|H]; [left; now left|]. destruct (IH H); [left; now right|now right].
  - intros H. left. unfold remove_ent in H. now apply filter_In in H.
Qed.

Lemma has_peer_other_set_one q p a ttl exp l :
  q <> p -> has_peer q (a_set_one p a ttl exp l) = has_peer q l.
Proof.
  intros Hq. unfold a_set_one, has_peer, remove_ent.
  assert (Hk : forall x, key_is p a x = true -> (ep x =? q) = false).
  { intros x K. destruct (key_is_eq _ _ _ K) as [Hp _]. apply Z.eqb_neq. congruence. }
  assert (Hpq : (p =? q) = false) by (apply Z.eqb_neq; congruence).
  destruct (0 <? ttl).
  - induction l as [|x r IH]; cbn [upsert_set existsb ep]; [now rewrite Hpq|].
    destruct (key_is p a x) eqn:K; cbn [existsb ep].
    + now rewrite Hpq, (Hk x K).
    + now rewrite IH.
  - induction l as [|x r IH]; cbn [filter existsb]; [reflexivity|].
    destruct (key_is p a x) eqn:K; cbn [negb existsb].
    + now rewrite (Hk x K), IH.
    + now rewrite IH.
Qed.

Definition set_fold_m (p ttl exp : Z) (addrs : list raw) (l : list ment) : list ment :=
  fold_left (fun l (r : raw) => if snd r =? 2 then l else m_set_one p (fst r) ttl exp l) addrs l.
Definition set_fold_a (p ttl exp : Z) (addrs : list Z) (l : list aent) : list aent :=
  fold_left (fun l a => a_set_one p a ttl exp l) addrs l.

Lemma erase_set_fold p ttl exp addrs l :
  erase (set_fold_m p ttl exp addrs l) = set_fold_a p ttl exp (clean_addrs addrs) (erase l).
Proof.
  unfold set_fold_m, set_fold_a, clean_addrs. revert l.
  induction addrs as [|r t IH]; intros l; cbn [fold_left filter map]; [reflexivity|].
  destruct (snd r =? 2); cbn [negb filter map fold_left].
  - apply IH.
  - rewrite IH. now rewrite erase_set_one.
Qed.

Lemma flags_set_fold p ttl exp addrs l : flags_ok l -> flags_ok (set_fold_m p ttl exp addrs l).
Proof.
  unfold set_fold_m. revert l. induction addrs as [|r t IH]; intros l H; cbn [fold_left]; [exact H|].
  destruct (snd r =? 2); apply IH; [exact H|]. now apply flags_set_one.
Qed.

Lemma set_fold_good now p ttl addrs l :
  0 <= now -> (forall e, In e l -> entry_good now e) ->
  forall e, In e (set_fold_a p ttl (now + ttl) addrs l) -> entry_good now e.
Proof.
  intros Hn. unfold set_fold_a. revert l. induction addrs as [|a t IH]; intros l H; cbn [fold_left]; [exact H|].
  apply IH. intros e He. destruct (a_set_one_in _ _ _ _ _ _ He) as [H1|[Ht ->]]; [now apply H|].
  now apply new_entry_good.
Qed.

Lemma has_peer_other_set_fold q p ttl exp addrs l :
  q <> p -> has_peer q (set_fold_a p ttl exp addrs l) = has_peer q l.
Proof.
  intros Hq. unfold set_fold_a. revert l. induction addrs as [|a t IH]; intros l; cbn [fold_left]; [reflexivity|].
  rewrite IH. now apply has_peer_other_set_one.
Qed.

(* the Abs definition of a_set is this fold *)
Lemma a_set_unfold s p addrs ttl :
  a_set s p addrs ttl =
  mk_norm (a_now s) (set_fold_a p ttl (a_now s + ttl) (clean_addrs addrs) (a_ents s)) (a_recs s).
Proof. reflexivity. Qed.

(* ---- UpdateAddrs ------------------------------------------------------------ *)
Definition upd_map (p old new now : Z) (e : aent) : aent :=
  if (ep e =? p) && (ettl e =? old) then mkE (ep e) (ea e) new (now + new) else e.

Lemma erase_update p old new now l :
  0 <= new -> all_live now (erase l) ->
  erase (m_update_ents p old new (now + new) l) = filter (live now) (map (upd_map p old new now) (erase l)).
Proof.
  intros Hn. induction l as [|x r IH]; intros Hl; cbn [m_update_ents erase map filter]; [reflexivity|].
  assert (Hr : all_live now (erase r)) by (intros e He; apply Hl; now right).
  destruct ((ep (me x) =? p) && (ettl (me x) =? old)) eqn:C.
  - assert (U : upd_map p old new now (me x) = mkE (ep (me x)) (ea (me x)) new (now + new))
      by (unfold upd_map; now rewrite C).
    rewrite U. destruct (Z.eqb_spec new 0) as [->|Hne].
    + unfold live at 1. cbn [eexp]. replace (now <? now + 0) with false by (symmetry; apply Z.ltb_ge; lia).
      now apply IH.
    + unfold live at 1. cbn [eexp]. replace (now <? now + new) with true by (symmetry; apply Z.ltb_lt; lia).
      cbn [map me]. f_equal. now apply IH.
  - assert (U : upd_map p old new now (me x) = me x) by (unfold upd_map; now rewrite C).
    rewrite U. rewrite (Hl (me x) (or_introl eq_refl)). cbn [map]. f_equal. now apply IH.
Qed.

Lemma flags_update p old new exp l : flags_ok l -> flags_ok (m_update_ents p old new exp l).
Proof.
  induction l as [|x r IH]; intros H; cbn [m_update_ents]; [exact H|].
  assert (Hr : flags_ok r) by (intros z Hz; apply H; now right).
  destruct ((ep (me x) =? p) && (ettl (me x) =? old)).
  - destruct (new =? 0); [now apply IH|].
    intros y [<-|Hy]; [cbn [mheap me]; apply pa_update_flag_eq|now apply IH].
  - intros y [<-|Hy]; [apply H; now left|now apply IH].
Qed.

Lemma update_good p old new now l :
  0 <= now -> (forall e, In e l -> entry_good now e) ->
  forall e, In e (filter (live now) (map (upd_map p old new now) l)) -> entry_good now e.
Proof.
  intros Hn H e He. apply filter_In in He. destruct He as [He Hlive].
  apply in_map_iff in He. destruct He as [e0 [<- H0]]. unfold upd_map in *.
  destruct ((ep e0 =? p) && (ettl e0 =? old)); [|now apply H].
  split; [exact Hlive|]. unfold live, conn in *. cbn in *. intros Hc. apply Z.leb_le in Hc. lia.
Qed.

Lemma has_peer_filter_map_other q p old new now l :
  q <> p -> all_live now l ->
  has_peer q (filter (live now) (map (upd_map p old new now) l)) = has_peer q l.
Proof.
  intros Hq. unfold has_peer. induction l as [|x r IH]; intros Hl; cbn [map filter existsb]; [reflexivity|].
  assert (Hr : all_live now r) by (intros e He; apply Hl; now right).
  assert (Hep : ep (upd_map p old new now x) = ep x)
    by (unfold upd_map; destruct ((ep x =? p) && (ettl x =? old)); reflexivity).
  destruct (live now (upd_map p old new now x)) eqn:L; cbn [existsb].
  - rewrite Hep, (IH Hr). reflexivity.
  - assert (Eq : (ep x =? q) = false).
    { unfold upd_map in L. destruct ((ep x =? p) && (ettl x =? old)) eqn:C.
      - apply andb_true_iff in C. destruct C as [C _]. apply Z.eqb_eq in C. apply Z.eqb_neq. congruence.
      - rewrite (Hl x (or_introl eq_refl)) in L. discriminate. }
    rewrite Eq, (IH Hr). reflexivity.
Qed.

(* ---- ConsumePeerRecord: eviction ------------------------------------------- *)
Lemma clean_sfx_free l : sfx_free l = true -> clean_addrs l = map fst l.
Proof.
  unfold sfx_free, clean_addrs. induction l as [|r t IH]; cbn [forallb filter map]; [reflexivity|].
  rewrite andb_true_iff. intros [H1 H2]. apply Z.eqb_eq in H1. rewrite H1. cbn. f_equal. now apply IH.
Qed.

Lemma raw_mem_plain a new : snd a = 0 -> sfx_free new = true -> raw_mem a new = zmem (fst a) (map fst new).
Proof.
  intros Ha. unfold raw_mem, zmem, sfx_free. induction new as [|r t IH]; cbn [existsb forallb map]; [reflexivity|].
  rewrite andb_true_iff. intros [H1 H2]. apply Z.eqb_eq in H1. rewrite (IH H2).
  unfold raw_eqb. rewrite Ha, H1. cbn. now rewrite andb_true_r.
Qed.

Lemma find_erase (f : aent -> bool) l : option_map me (find (fun x => f (me x)) l) = find f (erase l).
Proof. induction l as [|x r IH]; cbn; [reflexivity|]. destruct (f (me x)); [reflexivity|exact IH]. Qed.

Lemma erase_pa_delete p a l : erase (pa_delete p a l) = remove_ent p a (erase l).
Proof. unfold pa_delete, remove_ent, erase. apply (map_filter_comm me (fun e => negb (key_is p a e))). Qed.

Lemma erase_evict p prev new l :
  sfx_free prev = true -> sfx_free new = true ->
  erase (m_evict p prev new l) = evict_superseded p (map fst prev) (map fst new) (erase l).
Proof.
  intros Hp Hn. unfold m_evict, evict_superseded. revert l.
  induction prev as [|a t IH]; intros l; cbn [fold_left map]; [reflexivity|].
  cbn [sfx_free forallb] in Hp. apply andb_true_iff in Hp. destruct Hp as [Ha Ht]. apply Z.eqb_eq in Ha.
  rewrite (IH Ht). f_equal. rewrite (raw_mem_plain a new Ha Hn).
  destruct (zmem (fst a) (map fst new)); [reflexivity|].
  rewrite Ha. cbn [Z.eqb negb]. unfold find_ent. rewrite <- (find_erase (key_is p (fst a)) l).
  destruct (find (fun x => key_is p (fst a) (me x)) l) as [x|]; cbn [option_map]; [|reflexivity].
  destruct (conn (ettl (me x))); [reflexivity|]. apply erase_pa_delete.
Qed.

Lemma flags_filter f l : flags_ok l -> flags_ok (filter f l).
Proof. intros H x Hx. apply filter_In in Hx. now apply H. Qed.

Lemma flags_evict p prev new l : flags_ok l -> flags_ok (m_evict p prev new l).
Proof.
  unfold m_evict. revert l. induction prev as [|a t IH]; intros l H; cbn [fold_left]; [exact H|].
  apply IH. destruct (raw_mem a new); [exact H|]. destruct (negb (snd a =? 0)); [exact H|].
  destruct (find _ l) as [x|]; [|exact H]. destruct (conn _); [exact H|]. now apply flags_filter.
Qed.

Lemma evict_sub p prev new l e : In e (evict_superseded p prev new l) -> In e l.
Proof.
  unfold evict_superseded. revert l. induction prev as [|a t IH]; intros l H; cbn [fold_left] in H; [exact H|].
  apply IH in H. destruct (zmem a new); [exact H|]. destruct (find_ent p a l) as [x|]; [|exact H].
  destruct (conn _); [exact H|]. unfold remove_ent in H. now apply filter_In in H.
Qed.

Lemma has_peer_other_evict q p prev new l :
  q <> p -> has_peer q (evict_superseded p prev new l) = has_peer q l.
Proof.
  intros Hq. unfold evict_superseded. revert l. induction prev as [|a t IH]; intros l; cbn [fold_left]; [reflexivity|].
  rewrite IH. destruct (zmem a new); [reflexivity|]. destruct (find_ent p a l) as [x|]; [|reflexivity].
  destruct (conn _); [reflexivity|].
  replace (remove_ent p a l) with (a_set_one p a 0 0 l) by reflexivity. now apply has_peer_other_set_one.
Qed.

(* ---- the coupling between the in-memory model and the abstract book --------- *)
Record Rel (m : mbook) (a : abook) : Prop := mkRel {
  R_now : m_now m = a_now a;
  R_ents : erase (m_ents m) = a_ents a;
  R_recs : m_recs m = a_recs a;
  R_flags : flags_ok (m_ents m);
  R_good : forall e, In e (a_ents a) -> entry_good (a_now a) e;
  R_recsok : recs_ok (a_ents a) (a_recs a);
  R_plain : recs_plain (a_recs a);
  R_nonneg : 0 <= a_now a
}.

Lemma Rel_init : Rel m_init a_init.
Proof. constructor; cbn; try reflexivity; try (intros ? []); lia. Qed.

(* the hypothesis on a single operation (clock advances are treated with the GC run that must follow them) *)
Definition op_calm (o : op) : bool :=
  match o with
  | OUpdate _ _ new => 0 <=? new
  | OConsume _ _ _ _ _ l => sfx_free l
  | OAdvance _ => false
  | _ => true
  end.

Definition norm_obs (x : obs) : obs := match x with OSizes a b _ => OSizes a b 0 | _ => x end.

Lemma mk_norm_id now ents recs :
  (forall e, In e ents -> entry_good now e) -> recs_ok ents recs -> mk_norm now ents recs = mkA now ents recs.
Proof.
  intros Hg Hr. unfold mk_norm. rewrite normalize_id; [reflexivity| |exact Hr].
  intros e He. apply (Hg e He).
Qed.

Lemma mk_norm_recs p now ents recs :
  (forall e, In e ents -> entry_good now e) ->
  (forall r, In r recs -> rp r <> p -> has_peer (rp r) ents = true) ->
  mk_norm now ents recs = mkA now ents (if has_peer p ents then recs else remove_rec p recs).
Proof.
  intros Hg Hr. unfold mk_norm, normalize.
  rewrite (filter_id (live now) ents) by (intros e He; apply (Hg e He)).
  now rewrite (filter_recs p ents recs Hr).
Qed.

Lemma recs_ok_after p ents' recs :
  (forall r, In r recs -> rp r <> p -> has_peer (rp r) ents' = true) ->
  recs_ok ents' (if has_peer p ents' then recs else remove_rec p recs).
Proof.
  intros H r Hr. destruct (has_peer p ents') eqn:E.
  - destruct (Z.eq_dec (rp r) p) as [->|Hne]; [exact E|now apply H].
  - unfold remove_rec in Hr. apply filter_In in Hr. destruct Hr as [Hin Hne].
    apply negb_true_iff, Z.eqb_neq in Hne. now apply H.
Qed.

Lemma plain_sub recs recs' : recs_plain recs -> (forall r, In r recs' -> In r recs) -> recs_plain recs'.
Proof. intros H Hs r Hr. apply H. now apply Hs. Qed.

Lemma in_if_remove p (b : bool) recs r : In r (if b then recs else remove_rec p recs) -> In r recs.
Proof. destruct b; [tauto|]. unfold remove_rec. intros H. now apply filter_In in H. Qed.

Lemma maybe_delete_eq p ments recs :
  maybe_delete_rec p ments recs = if has_peer p (erase ments) then recs else remove_rec p recs.
Proof. unfold maybe_delete_rec. now rewrite has_peer_erase. Qed.

(* one calm operation: same answer, coupling preserved *)
Lemma step_calm m a o :
  Rel m a -> op_calm o = true ->
  Rel (fst (m_step m o)) (fst (a_step a o)) /\ norm_obs (snd (m_step m o)) = norm_obs (snd (a_step a o)).
Proof.
  intros [Hnow Hents Hrecs Hfl Hgood Hrok Hplain Hnn] Hc.
  destruct m as [mnow ments mrecs]. destruct a as [now ents recs].
  cbn [m_now m_ents m_recs a_now a_ents a_recs] in *. subst mnow mrecs.
  destruct o as [p ttl l|p ttl l|p old new|p|p seq id ttl bad l|p| |p|d| |]; cbn [m_step a_step fst snd op_calm] in *.
  - (* AddAddrs *)
    split; [|reflexivity]. unfold m_add_unlocked, a_add. cbn [m_now m_ents m_recs a_now a_ents a_recs].
    destruct (Z.leb_spec ttl 0) as [Ht|Ht].
    + rewrite maybe_delete_eq, Hents.
      assert (E : (if has_peer p ents then recs else remove_rec p recs) = recs).
      { destruct (has_peer p ents) eqn:H; [reflexivity|]. apply remove_rec_absent. now apply (recs_ok_no_rec ents). }
      rewrite E. constructor; cbn; auto.
    + fold (add_fold_m p ttl (now + ttl) l ments).
      pose proof (erase_add_fold p ttl now l ments) as E. rewrite Hents in E.
      assert (G : forall e, In e (add_list p ttl now (clean_addrs l) ents) -> entry_good now e)
        by (apply add_list_good; auto).
      assert (K : recs_ok (add_list p ttl now (clean_addrs l) ents) recs)
        by (intros r Hr; apply has_peer_add_list; now apply Hrok).
      rewrite (mk_norm_id _ _ _ G K). rewrite maybe_delete_eq, E.
      assert (E2 : (if has_peer p (add_list p ttl now (clean_addrs l) ents) then recs else remove_rec p recs) = recs).
      { destruct (has_peer p _) eqn:H; [reflexivity|]. apply remove_rec_absent. now apply (recs_ok_no_rec _ _ _ K). }
      rewrite E2. constructor; cbn; auto. now apply flags_add_fold.
  - (* SetAddrs *)
    split; [|reflexivity]. unfold m_set. rewrite a_set_unfold. cbn [m_now m_ents m_recs a_now a_ents a_recs].
    fold (set_fold_m p ttl (now + ttl) l ments).
    pose proof (erase_set_fold p ttl (now + ttl) l ments) as E. rewrite Hents in E.
    set (ents' := set_fold_a p ttl (now + ttl) (clean_addrs l) ents) in *.
    assert (G : forall e, In e ents' -> entry_good now e) by (apply set_fold_good; auto).
    assert (K : forall r, In r recs -> rp r <> p -> has_peer (rp r) ents' = true).
    { intros r Hr Hne. unfold ents'. rewrite has_peer_other_set_fold by exact Hne. now apply Hrok. }
    rewrite (mk_norm_recs p _ _ _ G K). rewrite maybe_delete_eq, E.
    constructor; cbn; auto.
    + now apply flags_set_fold.
    + now apply recs_ok_after.
    + eapply plain_sub; [exact Hplain|]. intros r. apply in_if_remove.
  - (* UpdateAddrs, new >= 0 *)
    apply Z.leb_le in Hc. split; [|reflexivity]. unfold m_update, a_update.
    cbn [m_now m_ents m_recs a_now a_ents a_recs].
    assert (Hl : all_live now (erase ments)) by (rewrite Hents; intros e He; apply (Hgood e He)).
    pose proof (erase_update p old new now ments Hc Hl) as E. rewrite Hents in E.
    fold (upd_map p old new now).
    set (ents' := filter (live now) (map (upd_map p old new now) ents)) in *.
    assert (G : forall e, In e ents' -> entry_good now e) by (apply update_good; auto).
    assert (K : forall r, In r recs -> rp r <> p -> has_peer (rp r) ents' = true).
    { intros r Hr Hne. unfold ents'. rewrite has_peer_filter_map_other; auto.
      intros e He. apply (Hgood e He). }
    assert (N : mk_norm now (map (upd_map p old new now) ents) recs =
                mkA now ents' (if has_peer p ents' then recs else remove_rec p recs)).
    { unfold mk_norm, normalize. fold ents'. now rewrite (filter_recs p ents' recs K). }
    rewrite N, maybe_delete_eq, E. constructor; cbn; auto.
    + now apply flags_update.
    + now apply recs_ok_after.
    + eapply plain_sub; [exact Hplain|]. intros r. apply in_if_remove.
  - (* ClearAddrs *)
    split; [|reflexivity]. unfold m_clear, a_clear. cbn [m_now m_ents m_recs a_now a_ents a_recs].
    assert (E : erase (filter (fun x => negb (ep (me x) =? p)) ments) = filter (fun e => negb (ep e =? p)) ents).
    { rewrite <- Hents. apply (map_filter_comm me (fun e => negb (ep e =? p))). }
    constructor; cbn; auto.
    + now apply flags_filter.
    + intros e He. apply filter_In in He. now apply Hgood.
    + intros r Hr. unfold remove_rec in Hr. apply filter_In in Hr. destruct Hr as [Hin Hne].
      apply negb_true_iff, Z.eqb_neq in Hne.
      replace (filter (fun e => negb (ep e =? p)) ents) with (a_set_one p 0 0 0 (filter (fun e => negb (ep e =? p)) ents)).
      2:{ unfold a_set_one. cbn. unfold remove_ent. apply filter_id. intros x Hx. apply filter_In in Hx.
          destruct Hx as [_ Hx]. unfold key_is. apply negb_true_iff in Hx. now rewrite Hx. }
      clear E. specialize (Hrok r Hin). unfold has_peer in *.
      rewrite existsb_exists in *. destruct Hrok as [x [Hx Hpx]]. exists x. split; [|exact Hpx].
      unfold a_set_one. cbn. unfold remove_ent. apply filter_In. split.
      * apply filter_In. split; [exact Hx|]. apply Z.eqb_eq in Hpx. apply negb_true_iff, Z.eqb_neq. congruence.
      * unfold key_is. apply Z.eqb_eq in Hpx. apply negb_true_iff.
        replace (ep x =? p) with false; [reflexivity|]. symmetry. apply Z.eqb_neq. congruence.
    + eapply plain_sub; [exact Hplain|]. intros r Hr. unfold remove_rec in Hr. now apply filter_In in Hr.
  - (* ConsumePeerRecord *)
    destruct bad; [split; [constructor; cbn; auto|reflexivity]|].
    unfold m_consume, a_consume. cbn [m_now m_ents m_recs a_now a_ents a_recs].
    destruct (match find_rec p recs with Some r => seq <? rseq r | None => false end) eqn:Rej.
    + cbn [fst snd]. split; [constructor; cbn; auto|reflexivity].
    + cbn [fst snd]. split; [|reflexivity].
      set (ments1 := match find_rec p recs with Some r => m_evict p (raddrs r) l ments | None => ments end).
      set (ents1 := match find_rec p recs with
                    | Some r => evict_superseded p (clean_addrs (raddrs r)) (clean_addrs l) ents
                    | None => ents end).
      assert (E1 : erase ments1 = ents1).
      { unfold ments1, ents1. destruct (find_rec p recs) as [r|] eqn:F; [|exact Hents].
        assert (Hr : sfx_free (raddrs r) = true).
        { apply Hplain. unfold find_rec in F. apply find_some in F. tauto. }
        rewrite (clean_sfx_free _ Hr), (clean_sfx_free _ Hc), <- Hents. now apply erase_evict. }
      assert (F1 : flags_ok ments1).
      { unfold ments1. destruct (find_rec p recs); [now apply flags_evict|exact Hfl]. }
      assert (G1 : forall e, In e ents1 -> entry_good now e).
      { unfold ents1. intros e He. destruct (find_rec p recs); [apply evict_sub in He|]; now apply Hgood. }
      assert (O1 : forall q, q <> p -> has_peer q ents1 = has_peer q ents).
      { intros q Hq. unfold ents1. destruct (find_rec p recs); [now apply has_peer_other_evict|reflexivity]. }
      set (recs1 := set_rec (mkR p seq id l) recs).
      assert (K1 : forall ents2, (forall q, q <> p -> has_peer q ents1 = true -> has_peer q ents2 = true) ->
                   forall r, In r recs1 -> rp r <> p -> has_peer (rp r) ents2 = true).
      { intros ents2 Hm r Hr Hne. unfold recs1, set_rec in Hr. apply in_app_or in Hr. destruct Hr as [Hr|[<-|[]]].
        - cbn [rp] in Hr. unfold remove_rec in Hr. apply filter_In in Hr. destruct Hr as [Hin _].
          apply Hm; [exact Hne|]. rewrite O1 by exact Hne. now apply Hrok.
        - cbn in Hne. congruence. }
      assert (P1 : recs_plain recs1).
      { intros r Hr. unfold recs1, set_rec in Hr. apply in_app_or in Hr. destruct Hr as [Hr|[<-|[]]].
        - unfold remove_rec in Hr. apply filter_In in Hr. now apply Hplain.
        - exact Hc. }
      unfold m_add_unlocked. cbn [m_now m_ents m_recs].
      destruct (Z.leb_spec ttl 0) as [Ht|Ht].
      * rewrite (mk_norm_recs p now ents1 recs1 G1 (K1 ents1 (fun q _ H => H))).
        rewrite maybe_delete_eq, E1. constructor; cbn; auto.
        -- apply recs_ok_after. apply (K1 ents1 (fun q _ H => H)).
        -- eapply plain_sub; [exact P1|]. intros r. apply in_if_remove.
      * fold (add_fold_m p ttl (now + ttl) l ments1).
        pose proof (erase_add_fold p ttl now l ments1) as E2. rewrite E1 in E2.
        set (ents2 := add_list p ttl now (clean_addrs l) ents1) in *.
        assert (G2 : forall e, In e ents2 -> entry_good now e) by (apply add_list_good; auto).
        assert (K2 : forall r, In r recs1 -> rp r <> p -> has_peer (rp r) ents2 = true).
        { apply K1. intros q _ H. now apply has_peer_add_list. }
        rewrite (mk_norm_recs p now ents2 recs1 G2 K2). rewrite maybe_delete_eq, E2.
        constructor; cbn; auto.
        -- now apply flags_add_fold.
        -- now apply recs_ok_after.
        -- eapply plain_sub; [exact P1|]. intros r. apply in_if_remove.
  - (* Addrs *)
    split; [constructor; cbn; auto|]. cbn [norm_obs]. f_equal. unfold m_addrs, a_addrs. cbn [m_now m_ents a_ents].
    rewrite <- Hents. unfold erase.
    rewrite <- (map_filter_comm me (fun e => ep e =? p)). rewrite map_map. f_equal.
    apply filter_ext_in. intros x Hx.
    assert (L : live now (me x) = true) by (apply Hgood; rewrite <- Hents; now apply in_map).
    unfold expired_by. unfold live in L. rewrite L. cbn. now rewrite andb_true_r.
  - (* PeersWithAddrs *)
    split; [constructor; cbn; auto|]. cbn [norm_obs]. f_equal. unfold m_peers, a_peers. cbn [m_ents a_ents].
    rewrite <- Hents. unfold erase. now rewrite map_map.
  - (* GetPeerRecord *)
    split; [constructor; cbn; auto|]. cbn [norm_obs]. f_equal. unfold m_getrec, a_getrec.
    cbn [m_now m_ents m_recs a_recs]. rewrite has_peer_erase, Hents.
    destruct (has_peer p ents) eqn:H; cbn [negb].
    + assert (NE : m_addrs (mkMB now ments recs) p <> []).
      { unfold has_peer in H. apply existsb_exists in H. destruct H as [e [He Hp]].
        rewrite <- Hents in He. apply in_map_iff in He. destruct He as [x [<- Hx]].
        unfold m_addrs. cbn [m_now m_ents]. intros Z0.
        assert (In x (filter (fun x0 => (ep (me x0) =? p) && negb (expired_by now (me x0))) ments)).
        { apply filter_In. split; [exact Hx|]. rewrite Hp. cbn.
          assert (L : live now (me x) = true) by (apply Hgood; rewrite <- Hents; now apply in_map).
          unfold expired_by. unfold live in L. now rewrite L. }
        destruct (filter _ ments); [contradiction|discriminate]. }
      destruct (m_addrs (mkMB now ments recs) p); [congruence|reflexivity].
    + now rewrite (recs_ok_no_rec ents recs p Hrok H).
  - discriminate.
  - (* GC with nothing expired *)
    assert (P : forall x, In x ments -> (mheap x && expired_by now (me x)) = false).
    { intros x Hx. assert (L : live now (me x) = true) by (apply Hgood; rewrite <- Hents; now apply in_map).
      unfold expired_by. unfold live in L. rewrite L. cbn. apply andb_false_r. }
    assert (E : m_gc (mkMB now ments recs) = mkMB now ments recs).
    { unfold m_gc. cbn [m_now m_ents m_recs].
      rewrite (filter_id _ ments) by (intros x Hx; now rewrite (P x Hx)).
      assert (Z0 : filter (fun x => mheap x && expired_by now (me x)) ments = []).
      { clear -P. induction ments as [|x r IH]; cbn [filter]; [reflexivity|].
        rewrite (P x (or_introl eq_refl)). apply IH. intros y Hy. apply P. now right. }
      rewrite Z0. f_equal. apply filter_id. intros r _. reflexivity. }
    rewrite E. cbn [fst snd]. split; [constructor; cbn; auto|]. cbn [norm_obs m_ents m_recs a_ents a_recs].
    unfold zlen'. rewrite <- Hents. unfold erase. now rewrite map_length.
  - (* reopen *)
    split; [constructor; cbn; auto|reflexivity].
Qed.

(* ---- clock advance followed by a GC run -------------------------------------- *)
Lemma existsb_split {A} (f g : A -> bool) l :
  existsb f l = existsb f (filter g l) || existsb f (filter (fun x => negb (g x)) l).
Proof.
  induction l as [|x r IH]; cbn [existsb filter]; [reflexivity|].
  destruct (g x); cbn [negb existsb]; rewrite IH; destruct (f x); cbn;
    try reflexivity; now rewrite ?orb_true_r.
Qed.

Lemma step_advance_gc m a d :
  Rel m a -> 0 <= d -> a_now a + d < ConnectedAddrTTL ->
  let m1 := fst (m_step m (OAdvance d)) in
  let a1 := fst (a_step a (OAdvance d)) in
  Rel (fst (m_step m1 OGC)) (fst (a_step a1 OGC)) /\
  norm_obs (snd (m_step m1 OGC)) = norm_obs (snd (a_step a1 OGC)).
Proof.
  intros [Hnow Hents Hrecs Hfl Hgood Hrok Hplain Hnn] Hd Hh.
  destruct m as [mnow ments mrecs]. destruct a as [now ents recs].
  cbn [m_now m_ents m_recs a_now a_ents a_recs] in *. subst mnow mrecs.
  cbn [m_step a_step fst snd a_advance]. cbn [m_now m_ents m_recs a_now a_ents a_recs].
  set (now' := now + d) in *.
  set (popped := fun x => mheap x && expired_by now' (me x)).
  assert (P : forall x, In x ments -> negb (popped x) = live now' (me x)).
  { intros x Hx. unfold popped. rewrite (Hfl x Hx).
    assert (G : entry_good now (me x)) by (apply Hgood; rewrite <- Hents; now apply in_map).
    destruct G as [_ Gf]. unfold expired_by, live.
    destruct (conn (ettl (me x))) eqn:C; cbn [negb andb].
    - specialize (Gf eq_refl). symmetry. apply Z.ltb_lt. lia.
    - now rewrite negb_involutive. }
  assert (E : erase (filter (fun x => negb (popped x)) ments) = filter (live now') ents).
  { rewrite (filter_ext_in _ (fun x => live now' (me x)) ments P).
    rewrite <- Hents. apply (map_filter_comm me (live now')). }
  set (ents' := filter (live now') ents) in *.
  assert (RQ : filter (fun r => negb (m_has_peer (rp r) (filter popped ments) &&
                                      negb (m_has_peer (rp r) (filter (fun x => negb (popped x)) ments)))) recs
               = filter (fun r => has_peer (rp r) ents') recs).
  { apply filter_ext_in. intros r Hr. rewrite (has_peer_erase _ (filter (fun x => negb (popped x)) ments)), E.
    destruct (has_peer (rp r) ents') eqn:K; [now rewrite andb_false_r|].
    assert (H0 := Hrok r Hr). rewrite <- Hents, <- has_peer_erase in H0. unfold m_has_peer in H0.
    rewrite (existsb_split _ (fun x => negb (popped x))) in H0.
    fold (m_has_peer (rp r) (filter (fun x => negb (popped x)) ments)) in H0.
    rewrite has_peer_erase, E, K in H0. cbn [orb] in H0.
    rewrite (filter_ext _ popped) in H0 by (intros x; apply negb_involutive).
    unfold m_has_peer. rewrite H0. reflexivity. }
  assert (G : m_gc (mkMB now' ments recs) =
              mkMB now' (filter (fun x => negb (popped x)) ments)
                   (filter (fun r => negb (m_has_peer (rp r) (filter popped ments) &&
                                           negb (m_has_peer (rp r) (filter (fun x => negb (popped x)) ments)))) recs))
    by reflexivity.
  rewrite G, RQ. clear G.
  assert (G2 : a_advance (mkA now ents recs) d = mkA now' ents' (filter (fun r => has_peer (rp r) ents') recs))
    by reflexivity.
  rewrite G2. clear G2. cbn [fst snd].
  split.
  - constructor; cbn [m_now m_ents m_recs a_now a_ents a_recs]; auto.
    + now apply flags_filter.
    + intros e He. unfold ents' in He. apply filter_In in He. destruct He as [He Hl].
      split; [exact Hl|]. apply (Hgood e He).
    + intros r Hr. apply filter_In in Hr. tauto.
    + eapply plain_sub; [exact Hplain|]. intros r Hr. now apply filter_In in Hr.
    + unfold now'. lia.
  - cbn [norm_obs m_ents m_recs a_ents a_recs]. unfold zlen'. rewrite <- E. unfold erase. now rewrite map_length.
Qed.

(* ---- the hypothesis on histories, and the trace theorem ----------------------- *)
(* [calm now ops]: no negative UpdateAddrs TTL, signed records list plain
   transport addresses, every clock advance is non-negative, stays below
   ConnectedAddrTTL in total, and is directly followed by a GC run *)
Fixpoint calm (now : Z) (ops : list op) : bool :=
  match ops with
  | [] => true
  | OAdvance d :: OGC :: r => (0 <=? d) && (now + d <? ConnectedAddrTTL) && calm (now + d) r
  | o :: r => op_calm o && calm now r
  end.

Definition norm_pair (ox : op * obs) : op * obs := (fst ox, norm_obs (snd ox)).

Lemma a_step_now a o : op_calm o = true -> a_now (fst (a_step a o)) = a_now a.
Proof.
  assert (N : forall n e r, a_now (mk_norm n e r) = n) by (intros; unfold mk_norm; destruct (normalize _ _ _); reflexivity).
  destruct o; cbn [op_calm a_step fst]; intros H; try reflexivity; try discriminate.
  all: try (unfold a_add; destruct (_ <=? _); [reflexivity|apply N]).
  all: try (destruct bad; cbn [fst]; [reflexivity|]; unfold a_consume;
            destruct (match find_rec _ _ with Some _ => _ | None => _ end); cbn [fst]; [reflexivity|apply N]).
Qed.

Lemma trace_eq_n n : forall ops m a, (length ops <= n)%nat -> Rel m a -> calm (a_now a) ops = true ->
  map norm_pair (m_trace m ops) = map norm_pair (a_trace a ops).
Proof.
  induction n as [|n IH]; intros ops m a Hlen HR Hc.
  - destruct ops; [reflexivity|cbn in Hlen; lia].
  - destruct ops as [|o r]; [reflexivity|].
    assert (Generic : op_calm o = true -> calm (a_now a) r = true ->
              map norm_pair (m_trace m (o :: r)) = map norm_pair (a_trace a (o :: r))).
    { intros Ho Hr. destruct (step_calm m a o HR Ho) as [HR' Hobs].
      cbn [m_trace a_trace]. destruct (m_step m o) as [m' x] eqn:Em. destruct (a_step a o) as [a' y] eqn:Ea.
      cbn [fst snd] in *. cbn [map]. unfold norm_pair at 1 3. cbn [fst snd]. rewrite Hobs. f_equal.
      apply IH; [cbn in Hlen; lia|exact HR'|].
      replace (a_now a') with (a_now a); [exact Hr|].
      pose proof (a_step_now a o Ho) as H. rewrite Ea in H. now symmetry. }
    destruct o; try (cbn [calm] in Hc; apply andb_true_iff in Hc; destruct Hc as [H1 H2]; now apply Generic).
    (* OAdvance *)
    destruct r as [|o2 r2]; [cbn in Hc; discriminate|].
    destruct o2; try (cbn in Hc; discriminate).
    cbn [calm] in Hc. apply andb_true_iff in Hc. destruct Hc as [Hc H3].
    apply andb_true_iff in Hc. destruct Hc as [H1 H2]. apply Z.leb_le in H1. apply Z.ltb_lt in H2.
    destruct (step_advance_gc m a d HR H1 H2) as [HR' Hobs].
    cbn [m_trace a_trace]. cbn [m_step a_step] in *. cbn [fst snd] in *.
    cbn [map]. unfold norm_pair at 1 2 4 5. cbn [fst snd norm_obs].
    f_equal. 
    destruct (m_gc _) eqn:Eg. 
    cbn [fst snd] in *. f_equal; [now rewrite <- Eg in *; f_equal|].
    apply IH; [cbn in Hlen; lia|exact HR'|].
    replace (a_now (a_advance a d)) with (a_now a + d); [exact H3|].
    unfold a_advance, mk_norm. destruct (normalize _ _ _). reflexivity.
Qed.

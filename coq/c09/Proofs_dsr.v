(* C09 — refinement of the datastore-backed model, top level: every history.
   The hypothesis [ds_ok] (decidable on the history) is what the proof forces:
     - clock advances are non-negative whole seconds and the clock stays a second below
       ConnectedAddrTTL (pstoreds stores expiries as unix seconds);
     - every TTL given to AddAddrs / SetAddrs / UpdateAddrs / ConsumePeerRecord is not positive, or
       whole seconds, or in the connected class (>= ConnectedAddrTTL);
     - sequence numbers are not negative (uint64). *)
From Coq Require Import List ZArith Bool Lia Permutation.
From Verif Require Import lib.Wire gen.Consts_c09 c09.Abs c09.Model_mem c09.Model_ds c09.Spec
  c09.Proofs_mem c09.Proofs_ds c09.Proofs c09.Proofs_dsr_a c09.Proofs_dsr_d c09.Proofs_dsr_s c09.Proofs_dsr_r
  c09.Proofs_dsr_o c09.Proofs_dsr_w c09.Proofs_dsr_x c09.Proofs_dsr_c c09.Proofs_dsr_g.
Import ListNotations.
Local Open Scope Z_scope.

Definition ttl_ok (t : Z) : bool := (t <=? 0) || (t mod SEC =? 0) || (ConnectedAddrTTL <=? t).

Definition dop_okb (now : Z) (o : op) : bool :=
  match o with
  | OAdd _ ttl _ | OSet _ ttl _ => ttl_ok ttl
  | OUpdate _ _ new => ttl_ok new
  | OConsume _ seq _ ttl bad _ => bad || ((0 <=? seq) && ttl_ok ttl)
  | OAdvance d => (0 <=? d) && (d mod SEC =? 0) && (now + d + SEC <=? ConnectedAddrTTL)
  | _ => true
  end.

Fixpoint ds_ok (now : Z) (ops : list op) : bool :=
  match ops with
  | [] => true
  | o :: r => dop_okb now o && ds_ok (match o with OAdvance d => now + d | _ => now end) r
  end.

Lemma ttl_ok_P t : ttl_ok t = true -> ttl_okP t.
Proof.
  unfold ttl_ok, ttl_okP, whole. rewrite !orb_true_iff, Z.leb_le, Z.eqb_eq, Z.leb_le. tauto.
Qed.

Lemma dop_okb_P now o : dop_okb now o = true -> dop_ok now o.
Proof.
  destruct o; cbn [dop_okb dop_ok]; try tauto.
  - apply ttl_ok_P.
  - apply ttl_ok_P.
  - apply ttl_ok_P.
  - rewrite orb_true_iff, andb_true_iff, Z.leb_le. intros [H|[H1 H2]]; [now left|right].
    split; [exact H1|now apply ttl_ok_P].
  - rewrite !andb_true_iff, !Z.leb_le, Z.eqb_eq. unfold whole. tauto.
Qed.

Lemma ds_ok_step now o r : ds_ok now (o :: r) = true ->
  dop_ok now o /\ ds_ok (match o with OAdvance d => now + d | _ => now end) r = true.
Proof. cbn [ds_ok]. rewrite andb_true_iff. intros [H1 H2]. split; [now apply dop_okb_P|exact H2]. Qed.

Lemma ds_ok_clock now ops : ds_ok now ops = true -> clock_ok now ops = true.
Proof.
  revert now. induction ops as [|o r IH]; intros now H; [reflexivity|]. cbn [ds_ok] in H. apply andb_true_iff in H.
  destruct H as [H1 H2]. destruct o; cbn [clock_ok]; try (now apply IH).
  cbn [dop_okb] in H1. rewrite !andb_true_iff, !Z.leb_le in H1. destruct H1 as [[Hd _] Hb].
  rewrite !andb_true_iff, Z.leb_le, Z.ltb_lt. pose proof SEC_pos. split; [split; lia|now apply IH].
Qed.

(* ---- one step, any operation ---------------------------------------------------------------------------- *)
Lemma dstep_all a s o : AInv a -> DInv s -> Rel a s -> dop_ok (d_now s) o -> dstep_ok a s o.
Proof.
  intros HA HD HR Ho. destruct o.
  - now apply dstep_add.
  - now apply dstep_set.
  - now apply dstep_update.
  - now apply dstep_clear.
  - now apply dstep_consume.
  - now apply dstep_addrs.
  - now apply dstep_peers.
  - now apply dstep_getrec.
  - now apply dstep_advance.
  - now apply dstep_gc.
  - now apply dstep_reopen.
Qed.

Lemma a_step_now a o : a_now (fst (a_step a o)) = match o with OAdvance d => a_now a + d | _ => a_now a end.
Proof.
  destruct o; cbn [a_step fst]; try reflexivity.
  - unfold a_add. now destruct (ttl <=? 0).
  - destruct bad; [reflexivity|]. unfold a_consume.
    destruct (match find_rec p (a_recs a) with Some r => seq <? rseq r | None => false end); reflexivity.
Qed.

Lemma DInv_init look : 0 <= look -> DInv (d_init false look).
Proof.
  intros H. constructor; cbn; try reflexivity; [apply SInv_nil| |exact H].
  split; [apply whole_0|]. pose proof SEC_le_conn. lia.
Qed.

Lemma Rel_init look : Rel a_init (d_init false look).
Proof. split; [reflexivity|]. intros p. split; [intros x|]; reflexivity. Qed.

(* ---- refinement, operation by operation ---------------------------------------------------------------------- *)
(* every answer of the model is the abstract book's answer; Addrs as a set without repetition (the ds book
   keeps a record sorted by expiry, the abstract book in insertion order); PeersWithAddrs lists at least
   the abstract book's peers (a peer whose addresses expired and whose record has not been loaded or
   collected since may still be listed) *)
Definition obs_refines_ds (o : op) (spec model : obs) : Prop :=
  match o with
  | OPeers => exists ls lm, spec = OList ls /\ model = OList lm /\ (forall z, In z ls -> In z lm)
  | OAddrs _ => exists ls lm, spec = OList ls /\ model = OList lm /\ Permutation ls lm
  | _ => model = spec
  end.

Definition trace_refines_ds (ta td : list (op * obs)) : Prop :=
  Forall2 (fun ae dx => fst ae = fst dx /\ obs_refines_ds (fst ae) (snd ae) (snd dx)) ta td.

Lemma norm_obs_ds s o : norm_obs (snd (d_step s o)) = snd (d_step s o).
Proof.
  destruct o; cbn [d_step]; try reflexivity.
  - destruct bad; [reflexivity|]. now destruct (d_consume s p seq id addrs ttl).
  - now destruct (d_addrs s p).
  - now destruct (d_getrec_full s p).
Qed.

Lemma norm_obs_a a o : norm_obs (snd (a_step a o)) = snd (a_step a o).
Proof.
  destruct o; cbn [a_step]; try reflexivity.
  destruct bad; [reflexivity|]. now destruct (a_consume a p seq id addrs ttl).
Qed.

Lemma ds_refines_from ops : forall a s, AInv a -> DInv s -> Rel a s -> ds_ok (d_now s) ops = true ->
  trace_refines_ds (a_trace a ops) (d_trace s ops).
Proof.
  induction ops as [|o r IH]; intros a s HA HD HR Hok; [constructor|].
  destruct (ds_ok_step _ _ _ Hok) as [Ho Hr]. pose proof (dstep_all a s o HA HD HR Ho) as St.
  pose proof (a_step_now a o) as Hn. pose proof (norm_obs_ds s o) as N1. pose proof (norm_obs_a a o) as N2.
  unfold dstep_ok in St. cbn [a_trace d_trace].
  destruct (d_step s o) as [s' x]. destruct (a_step a o) as [a' e]. cbn [fst snd] in *.
  destruct St as [HA' [HD' [HR' [Hobs _]]]]. constructor.
  - split; [reflexivity|]. cbn [fst snd]. destruct o; cbn [obs_rel_d obs_refines_ds] in *; try congruence; try exact Hobs.
    destruct Hobs as [-> ->]. eexists. eexists. split; [reflexivity|split; [reflexivity|]].
    intros z. now apply peers_sub_d.
  - apply IH; try assumption. destruct HR' as [E _]. rewrite <- E, Hn. destruct HR as [E0 _]. now rewrite E0.
Qed.

(* ---- every cache size ---------------------------------------------------------------------------------------- *)
Lemma d_trace_fst ops : forall s, map fst (d_trace s ops) = ops.
Proof.
  induction ops as [|o r IH]; intros s; [reflexivity|]. cbn [d_trace]. destruct (d_step s o) as [s' x].
  cbn [map fst]. now rewrite IH.
Qed.

Lemma pairs_eq {A B} (l1 l2 : list (A * B)) : map fst l1 = map fst l2 -> map snd l1 = map snd l2 -> l1 = l2.
Proof.
  revert l2. induction l1 as [|[a b] t IH]; intros [|[a' b'] t']; cbn [map fst snd]; try discriminate; [reflexivity|].
  intros H1 H2. injection H1 as -> H1. injection H2 as -> H2. f_equal. now apply IH.
Qed.

Lemma d_trace_cached cached look ops : d_trace (d_init cached look) ops = d_trace (d_init false look) ops.
Proof.
  apply pairs_eq; [now rewrite !d_trace_fst|]. destruct cached; [apply ds_cache_transparent_l|reflexivity].
Qed.

Lemma ds_refines_l cached look ops : 0 <= look -> ds_ok 0 ops = true ->
  trace_refines_ds (a_trace a_init ops) (d_trace (d_init cached look) ops).
Proof.
  intros Hl H. rewrite d_trace_cached. apply ds_refines_from; [exact AInv_init|now apply DInv_init|apply Rel_init|exact H].
Qed.

(* ---- the monitor accepts every trace of the ds model ------------------------------------------------------------ *)
Lemma ds_holds_from ops : forall a s cand, AInv a -> DInv s -> Rel a s -> ds_ok (d_now s) ops = true ->
  (forall q, In q (map dp (d_store s)) -> In q cand) ->
  holds_from (mkMon a cand) (d_trace s ops) = true.
Proof.
  induction ops as [|o r IH]; intros a s cand HA HD HR Hok Hcand; [reflexivity|].
  destruct (ds_ok_step _ _ _ Hok) as [Ho Hr]. pose proof (dstep_all a s o HA HD HR Ho) as St.
  assert (Hap : forall x, In x (a_peers a) -> In x cand).
  { intros z Hz. apply Hcand. exact (peers_sub_d a s z HR Hz). }
  pose proof (obs_ok_self a cand o Hap) as Self.
  pose proof (a_step_now a o) as Hn. pose proof (norm_obs_ds s o) as N1. pose proof (norm_obs_a a o) as N2.
  pose proof (fun q => gc_peers a s q HA HD HR) as GP.
  unfold dstep_ok in St. cbn [d_trace].
  destruct (d_step s o) as [s' x] eqn:Ed. destruct (a_step a o) as [a' e] eqn:Ea. cbn [fst snd] in *.
  destruct St as [HA' [HD' [HR' [Hobs Hold]]]].
  cbn [holds_from]. unfold mon_step. cbn [mo_a mo_cand]. rewrite Ea.
  assert (OK : obs_ok (mkMon a (match o with OGC => a_peers a' | _ => cand end)) a' e o x = true).
  { destruct o; cbn [obs_rel_d] in Hobs; try (assert (x = e) by congruence; subst x; exact Self).
    - destruct Hobs as [le [lx [-> [-> HP]]]]. cbn [obs_ok]. unfold seteq.
      rewrite !incl_b_sub; [reflexivity| |].
      + intros z. apply Permutation_in. now apply Permutation_sym.
      + intros z. now apply Permutation_in.
    - destruct Hobs as [-> ->]. cbn [obs_ok mo_cand]. rewrite !incl_b_sub; [reflexivity| |].
      + exact Hcand.
      + intros z. now apply peers_sub_d. }
  rewrite OK. apply IH; try assumption.
  - destruct HR' as [E _]. rewrite <- E, Hn. destruct HR as [E0 _]. now rewrite E0.
  - intros q Hq. apply in_or_app. destruct o; try (destruct (Hold q Hq) as [H|H]; [now left|right; now apply Hcand]).
    left. cbn [d_step a_step] in Ed, Ea. injection Ed as <- _. injection Ea as <- _. now apply GP.
Qed.

Lemma ds_holds_l cached look ops : 0 <= look -> ds_ok 0 ops = true ->
  holds (d_trace (d_init cached look) ops) = true.
Proof.
  intros Hl H. rewrite d_trace_cached. unfold holds, mon_init.
  apply ds_holds_from; [exact AInv_init|now apply DInv_init|apply Rel_init|exact H|intros q []].
Qed.

(* ---- the state after any history; what GC leaves ------------------------------------------------------------ *)
Lemma ds_run_rel ops : forall a s, AInv a -> DInv s -> Rel a s -> ds_ok (d_now s) ops = true ->
  AInv (a_run a ops) /\ DInv (d_run s ops) /\ Rel (a_run a ops) (d_run s ops).
Proof.
  induction ops as [|o r IH]; intros a s HA HD HR Hok; [tauto|].
  destruct (ds_ok_step _ _ _ Hok) as [Ho Hr]. pose proof (dstep_all a s o HA HD HR Ho) as St.
  pose proof (a_step_now a o) as Hn. unfold dstep_ok in St. cbn [a_run d_run].
  destruct (d_step s o) as [s' x]. destruct (a_step a o) as [a' e]. cbn [fst snd] in *.
  destruct St as [HA' [HD' [HR' _]]]. apply IH; try assumption.
  destruct HR' as [E _]. rewrite <- E, Hn. destruct HR as [E0 _]. now rewrite E0.
Qed.

Lemma ds_bounded_l cached look ops : 0 <= look -> ds_ok 0 ops = true ->
  let s := d_run (d_init cached look) ops in
  let a := a_run a_init ops in
  (forall r e, In r (d_store (d_gc s)) -> In e (daddrs r) -> unix (d_now s) < dexp e) /\
  d_stored (d_gc s) = zlen' (a_ents a) /\ d_nrecs (d_gc s) = zlen' (a_recs a) /\
  (forall q, In q (d_peers (d_gc s)) <-> In q (a_peers a)).
Proof.
  intros Hl H. cbn zeta.
  pose proof (run_sim ops _ _ (S_init cached look)) as HS. pose proof (gc_sim _ _ HS) as HG.
  destruct HS as [_ [En [Es _]]]. destruct HG as [_ [_ [Eg _]]].
  unfold d_stored, d_nrecs, d_peers. rewrite <- Eg, <- En.
  set (s0 := d_run (d_init false look) ops).
  destruct (ds_run_rel ops a_init (d_init false look) AInv_init (DInv_init look Hl) (Rel_init look) H) as [HA [HD HR]].
  fold s0 in HD, HR. destruct (gc_spec s0 HD) as [[HD' Hn Hv Hsub] Hf].
  assert (HR' : Rel (a_run a_init ops) (d_gc s0)).
  { destruct HR as [Hna HRp]. split; [congruence|]. rewrite Hn. intros q. destruct (Hv q) as [E1 E2].
    unfold prel. rewrite E1, E2. apply HRp. }
  pose proof Hf as Hf'. rewrite <- Hn in Hf'.
  destruct (fresh_counts _ (d_gc s0) HA HD' HR' Hf') as [C1 C2].
  split; [|split; [exact C1|split; [exact C2|]]].
  - intros r e Hr He. specialize (Hf r Hr e He). unfold lv in Hf. now apply Z.ltb_lt.
  - intros q. split; [now apply (gc_peers _ s0 q HA HD HR)|now apply peers_sub_d].
Qed.

(* ---- the two stores give the same answers ---------------------------------------------------------------------------- *)
(* same answer to every operation: equal values; Addrs as sets without repetition; GC: the same numbers of
   stored entries and signed records.  PeersWithAddrs: both list every peer that has a live address
   (between expiry and collection the two stores keep different already-expired peers listed: pstoreds
   purges a record whenever it loads it, pstoremem on writes to the peer and on GC) *)
Definition obs_same (o : op) (spec xm xd : obs) : Prop :=
  match o with
  | OPeers => exists ls lm ld, spec = OList ls /\ xm = OList lm /\ xd = OList ld /\
                               (forall z, In z ls -> In z lm /\ In z ld)
  | OAddrs _ => exists lm ld, xm = OList lm /\ xd = OList ld /\ Permutation lm ld
  | _ => norm_obs xm = norm_obs xd
  end.

Fixpoint traces_agree (ta tm td : list (op * obs)) : Prop :=
  match ta, tm, td with
  | [], [], [] => True
  | (o, e) :: ta', (om, xm) :: tm', (od, xd) :: td' =>
      om = o /\ od = o /\ obs_same o e xm xd /\ traces_agree ta' tm' td'
  | _, _, _ => False
  end.

Lemma agree_of_refines ta : forall tm td, trace_refines ta tm -> trace_refines_ds ta td -> traces_agree ta tm td.
Proof.
  induction ta as [|[o e] ta' IH]; intros tm td Hm Hd; inversion Hm; subst; inversion Hd; subst; [exact I|].
  destruct y as [om xm], y0 as [od xd]. cbn [fst snd] in *. destruct H1 as [<- Rm]. destruct H2 as [<- Rd].
  cbn [traces_agree]. split; [reflexivity|split; [reflexivity|split; [|now apply IH]]].
  destruct o; cbn [obs_refines obs_refines_ds obs_same] in *; try (now rewrite Rm, Rd).
  - destruct Rd as [ls [ld [-> [-> HP]]]]. exists ls, ld. split; [|split; [reflexivity|exact HP]].
    destruct xm; cbn [norm_obs] in Rm; congruence.
  - destruct Rm as [ls [lm [-> [-> Hm1]]]]. destruct Rd as [ls' [ld [E [-> Hd1]]]]. injection E as <-.
    exists ls, lm, ld. repeat split; auto.
Qed.

Lemma mem_ds_equivalent_l cached look ops : 0 <= look -> ds_ok 0 ops = true ->
  traces_agree (a_trace a_init ops) (m_trace m_init ops) (d_trace (d_init cached look) ops).
Proof.
  intros Hl H. apply agree_of_refines; [apply mem_refines_l; now apply ds_ok_clock|now apply ds_refines_l].
Qed.

(* ---- the hypotheses are needed, and satisfiable ------------------------------------------------------------------------ *)
(* a TTL that is not whole seconds: pstoreds rounds the expiry down *)
Definition wit_subsecond : list op := [OAdd 1 1500000000 [(1, 0)]; OAdvance SEC; OAddrs 1].
(* a batch naming a new address twice (once with /p2p/<self>): stored once by both books since /repo
   78d0362; before, pstoreds stored and returned it twice *)
Definition wit_dup_batch : list op :=
  [OAdd 1 (s_ 120) [(1, 0); (1, 1)]; OAddrs 1; OSet 2 (s_ 120) [(2, 0); (2, 0)]; OAddrs 2;
   OConsume 1 1 1 (s_ 900) false [(3, 1); (3, 0)]; OAddrs 1; OGC].
(* between expiry and GC the two stores list different expired peers *)
Definition wit_peers_slack : list op := [OAdd 1 (s_ 120) [(1, 0)]; OAdvance (s_ 120); OAddrs 1; OPeers].

(* a negative lookahead interval: the window closes before now, expired entries are never visited *)
Definition wit_neg_look : list op := [OAdd 1 (s_ 120) [(1, 0)]; OAdvance (s_ 120); OGC].

Lemma ds_neg_look_l :
  ds_ok 0 wit_neg_look = true /\
  map snd (a_trace a_init wit_neg_look) = [ONone; ONone; OSizes 0 0 0] /\
  map snd (d_trace (d_init false (s_ (-5))) wit_neg_look) = [ONone; ONone; OSizes 1 0 0].
Proof. repeat split; vm_compute; reflexivity. Qed.

Lemma ds_hypotheses_needed_l :
  ds_ok 0 wit_subsecond = false /\
  map snd (a_trace a_init wit_subsecond) = [ONone; ONone; OList [1]] /\
  map snd (d_trace (d_init false 0) wit_subsecond) = [ONone; ONone; OList []] /\
  ds_ok 0 wit_peers_slack = true /\
  map snd (m_trace m_init wit_peers_slack) = [ONone; ONone; OList []; OList [1]] /\
  map snd (d_trace (d_init false 0) wit_peers_slack) = [ONone; ONone; OList []; OList []].
Proof. repeat split; vm_compute; reflexivity. Qed.

Lemma ds_dup_batch_l :
  ds_ok 0 wit_dup_batch = true /\
  map snd (a_trace a_init wit_dup_batch) = [ONone; OList [1]; ONone; OList [2]; OVal 1; OList [1; 3]; OSizes 3 1 0] /\
  forallb (fun c => list_eqb (fun x y => obs_conform x y) (map snd (d_trace c wit_dup_batch))
                             (map snd (a_trace a_init wit_dup_batch))) ds_cfgs = true /\
  list_eqb (fun x y => obs_conform (norm_obs x) (norm_obs y)) (map snd (m_trace m_init wit_dup_batch))
           (map snd (a_trace a_init wit_dup_batch)) = true.
Proof. repeat split; vm_compute; reflexivity. Qed.

Lemma ds_example_l : ds_ok 0 full_example = true /\
  map snd (d_trace (d_init true (s_ 30)) full_example) =
  [OVal 1; ONone; ONone; ONone; OList [1; 2]; OList []; ONone; OList []; OSizes 2 1 0; OList [1];
   ONone; OVal 0; ONone; OVal 0; OVal 1; OVal 3; ONone; OVal 0; ONone; ONone].
Proof. split; vm_compute; reflexivity. Qed.

(* C09 — refinement of the datastore-backed model, part 6.
   AddAddrs / SetAddrs / UpdateAddrs / ClearAddrs: each step keeps the coupling relation. *)
From Coq Require Import List ZArith Bool Lia Permutation.
From Verif Require Import lib.Wire gen.Consts_c09 c09.Abs c09.Model_mem c09.Model_ds c09.Spec
  c09.Proofs_mem c09.Proofs_ds c09.Proofs c09.Proofs_dsr_a c09.Proofs_dsr_d c09.Proofs_dsr_s c09.Proofs_dsr_r
  c09.Proofs_dsr_o.
Import ListNotations.
Local Open Scope Z_scope.

(* what a step must establish *)
Definition obs_rel_d (a : abook) (s : dbook) (o : op) (e x : obs) : Prop :=
  match o with
  | OPeers => e = OList (a_peers a) /\ x = OList (d_peers s)
  | OAddrs _ => exists le lx, e = OList le /\ x = OList lx /\ Permutation le lx
  | _ => norm_obs x = norm_obs e
  end.

Definition dstep_ok (a : abook) (s : dbook) (o : op) : Prop :=
  let '(s', x) := d_step s o in
  let '(a', e) := a_step a o in
  AInv a' /\ DInv s' /\ Rel a' s' /\ obs_rel_d a s o e x /\ from_old_d a' s s'.

(* the hypothesis on an operation at clock value [now] *)
Definition dop_ok (now : Z) (o : op) : Prop :=
  match o with
  | OAdd _ ttl _ | OSet _ ttl _ => ttl_okP ttl
  | OUpdate _ _ new => ttl_okP new
  | OConsume _ seq _ ttl bad _ => bad = true \/ (0 <= seq /\ ttl_okP ttl)
  | OAdvance d => 0 <= d /\ whole d /\ now + d + SEC <= ConnectedAddrTTL
  | _ => True
  end.

Lemma from_old_refl a s : from_old_d a s s.
Proof. intros q Hq. now right. Qed.

Lemma mk_norm_self a : AInv a -> mk_norm (a_now a) (a_ents a) (a_recs a) = a.
Proof.
  intros HA. unfold mk_norm. rewrite (normalize_id _ _ _ (AI_live a HA) (AI_recs a HA)). now destruct a.
Qed.

Lemma rel_kv a s p x : Rel a s ->
  option_map kv_a (find_ent p x (a_ents a)) = option_map kv_d (find_de x (lents (unix (d_now s)) (d_store s) p)).
Proof. intros [_ H]. exact (proj1 (H p) x). Qed.

Lemma olive_some now e d :
  kv_a e = kv_d d -> live now e = lv (unix now) d ->
  option_map kv_a (olive_a now (Some e)) = option_map kv_d (olive (unix now) (Some d)).
Proof. intros H1 H2. cbn [olive_a olive]. rewrite H2. destruct (lv (unix now) d); cbn [option_map]; [now rewrite H1|reflexivity]. Qed.

(* an untouched address *)
Lemma pt_same a s p x : AInv a -> DInv s -> Rel a s ->
  option_map kv_a (olive_a (a_now a) (find_ent p x (a_ents a))) =
  option_map kv_d (olive (unix (d_now s)) (find_de x (lents (unix (d_now s)) (d_store s) p))) /\
  (forall e, olive_a (a_now a) (find_ent p x (a_ents a)) = Some e -> egood e).
Proof.
  intros HA HD HR. pose proof (rel_kv a s p x HR) as K. pose proof HR as [Hn _]. split.
  - rewrite Hn. apply olive_match; [apply HD| |exact K]. intros e Fe. apply find_ent_some in Fe.
    apply (AI_good a HA e (proj1 Fe)).
  - intros e He. destruct (find_ent p x (a_ents a)) as [e'|] eqn:Fe; [|discriminate]. cbn [olive_a] in He.
    destruct (live (a_now a) e'); [|discriminate]. injection He as <-. apply find_ent_some in Fe. apply (AI_good a HA e' (proj1 Fe)).
Qed.

(* ---- AddAddrs ----------------------------------------------------------------------------------- *)
Lemma aspec_add a p t addrs :
  AInv a -> aspec a p (add_list p t (a_now a) addrs (a_ents a)) (a_recs a)
                  (fun x o => if zmem x addrs then Some (mg p x t (a_now a + t) o) else o).
Proof.
  intros HA. constructor.
  - intros x. now rewrite find_add_list, Z.eqb_refl.
  - intros q x Hq. rewrite find_add_list. destruct (Z.eqb_spec q p); [congruence|reflexivity].
  - apply nodup_add_list. apply HA.
  - reflexivity.
  - apply HA.
Qed.

Lemma kv_mg_ext p x t now e d :
  kv_a e = kv_d d ->
  kv_a (mg p x t (now + t) (Some e)) = kv_d (upd1 TExtend x t (unix (now + t)) d).
Proof.
  unfold kv_a, kv_d. intros H. injection H as H1 H2. cbn [mg upd1 ettl eexp dttl dexp].
  rewrite unix_max, !zmax_if, H1, H2. reflexivity.
Qed.

Lemma pt_add a s p t addrs x :
  AInv a -> DInv s -> Rel a s -> 0 < t -> ttl_okP t ->
  option_map kv_a (olive_a (a_now a) (if zmem x addrs then Some (mg p x t (a_now a + t) (find_ent p x (a_ents a)))
                                      else find_ent p x (a_ents a))) =
  option_map kv_d (olive (unix (d_now s))
                     (G_set TExtend addrs t (unix (d_now s + t)) x (find_de x (lents (unix (d_now s)) (d_store s) p)))) /\
  (forall e, olive_a (a_now a) (if zmem x addrs then Some (mg p x t (a_now a + t) (find_ent p x (a_ents a)))
                                else find_ent p x (a_ents a)) = Some e -> egood e).
Proof.
  intros HA HD HR Ht Hok. pose proof (rel_kv a s p x HR) as K. pose proof HR as [Hn _]. pose proof (DI_clk s HD) as Hc.
  unfold G_set. destruct (zmem x addrs).
  2:{ destruct (pt_same a s p x HA HD HR) as [P1 P2]. split; [|exact P2].
      rewrite P1. now destruct (find_de x (lents (unix (d_now s)) (d_store s) p)). }
  rewrite <- Hn in *.
  destruct (find_ent p x (a_ents a)) as [e|] eqn:Fe, (find_de x (lents (unix (a_now a)) (d_store s) p)) as [d|] eqn:Fd;
    cbn [option_map] in K; try discriminate.
  - assert (K' : kv_a e = kv_d d) by congruence. apply find_ent_some in Fe. destruct (AI_good a HA e (proj1 Fe)) as [G1 G2].
    assert (Gm : egood (mg p x t (a_now a + t) (Some e))).
    { split; cbn [mg ettl eexp]; [lia|]. apply gexp_max; [exact G2|now apply gexp_fresh]. }
    split.
    + apply olive_some; [now apply kv_mg_ext|]. apply live_match; [exact Hc|apply Gm|now apply kv_mg_ext].
    + intros e' He. cbn [olive_a] in He. destruct (live (a_now a) _); [|discriminate]. now injection He as <-.
  - assert (Gm : egood (mkE p x t (a_now a + t))) by (split; cbn; [lia|now apply gexp_fresh]).
    split.
    + apply olive_some; [reflexivity|]. apply live_match; [exact Hc|apply Gm|reflexivity].
    + intros e' He. cbn [olive_a mg] in He. destruct (live (a_now a) _); [|discriminate]. now injection He as <-.
Qed.

Lemma step_noop a s o x e :
  AInv a -> DInv s -> Rel a s -> d_step s o = (s, x) -> a_step a o = (a, e) -> obs_rel_d a s o e x -> dstep_ok a s o.
Proof.
  intros HA HD HR E1 E2 Ho. unfold dstep_ok. rewrite E1, E2. split; [exact HA|split; [exact HD|split; [exact HR|split; [exact Ho|apply from_old_refl]]]].
Qed.

Lemma dstep_add a s p ttl l : AInv a -> DInv s -> Rel a s -> dop_ok (d_now s) (OAdd p ttl l) -> dstep_ok a s (OAdd p ttl l).
Proof.
  intros HA HD HR Hok. unfold dstep_ok. cbn [d_step a_step]. unfold d_add, a_add.
  destruct (Z.leb_spec ttl 0) as [Ht|Ht].
  { split; [exact HA|split; [exact HD|split; [exact HR|split; [reflexivity|apply from_old_refl]]]]. }
  destruct (clean_addrs l) as [|a0 t0] eqn:El.
  { unfold add_list. cbn [fold_left d_setaddrs]. rewrite (mk_norm_self a HA).
    split; [exact HA|split; [exact HD|split; [exact HR|split; [reflexivity|apply from_old_refl]]]]. }
  rewrite <- El in *.
  assert (Hne : clean_addrs l <> []) by (rewrite El; discriminate).
  pose proof (pspec_setaddrs s p (clean_addrs l) ttl TExtend HD Hne) as PS.
  destruct (rel_step a s _ p _ _ _ _ _ HA HD HR (aspec_add a p ttl (clean_addrs l) HA) PS) as [HA' [HR' Hfo]].
  - intros x. now apply pt_add.
  - intros _. apply HR.
  - split; [exact HA'|split; [apply PS|split; [exact HR'|split; [reflexivity|exact Hfo]]]].
Qed.

(* ---- SetAddrs ----------------------------------------------------------------------------------- *)
Lemma aspec_set a p t addrs :
  AInv a -> aspec a p (set_fold_a p t (a_now a + t) addrs (a_ents a)) (a_recs a)
                  (fun x o => if zmem x addrs then (if 0 <? t then Some (mkE p x t (a_now a + t)) else None) else o).
Proof.
  intros HA. constructor.
  - intros x. now rewrite find_set_fold, Z.eqb_refl.
  - intros q x Hq. rewrite find_set_fold. destruct (Z.eqb_spec q p); [congruence|reflexivity].
  - apply nodup_set_fold. apply HA.
  - reflexivity.
  - apply HA.
Qed.

Lemma pt_set_pos a s p t addrs x :
  AInv a -> DInv s -> Rel a s -> 0 < t -> ttl_okP t ->
  option_map kv_a (olive_a (a_now a) (if zmem x addrs then (if 0 <? t then Some (mkE p x t (a_now a + t)) else None)
                                      else find_ent p x (a_ents a))) =
  option_map kv_d (olive (unix (d_now s))
                     (G_set TOverride addrs t (unix (d_now s + t)) x (find_de x (lents (unix (d_now s)) (d_store s) p)))) /\
  (forall e, olive_a (a_now a) (if zmem x addrs then (if 0 <? t then Some (mkE p x t (a_now a + t)) else None)
                                else find_ent p x (a_ents a)) = Some e -> egood e).
Proof.
  intros HA HD HR Ht Hok. pose proof HR as [Hn _]. pose proof (DI_clk s HD) as Hc.
  unfold G_set. destruct (zmem x addrs).
  2:{ destruct (pt_same a s p x HA HD HR) as [P1 P2]. split; [|exact P2].
      rewrite P1. now destruct (find_de x (lents (unix (d_now s)) (d_store s) p)). }
  rewrite <- Hn in *. replace (0 <? t) with true by (symmetry; apply Z.ltb_lt; lia).
  assert (Gm : egood (mkE p x t (a_now a + t))) by (split; cbn; [lia|now apply gexp_fresh]).
  assert (E : option_map kv_a (olive_a (a_now a) (Some (mkE p x t (a_now a + t)))) =
              option_map kv_d (olive (unix (a_now a)) (Some (mkD x t (unix (a_now a + t)))))).
  { apply olive_some; [reflexivity|]. apply live_match; [exact Hc|apply Gm|reflexivity]. }
  split.
  - rewrite E. now destruct (find_de x (lents (unix (a_now a)) (d_store s) p)).
  - intros e' He. cbn [olive_a] in He. destruct (live (a_now a) _); [|discriminate]. now injection He as <-.
Qed.

Lemma pt_set_neg a s p t addrs x :
  AInv a -> DInv s -> Rel a s -> t <= 0 ->
  option_map kv_a (olive_a (a_now a) (if zmem x addrs then (if 0 <? t then Some (mkE p x t (a_now a + t)) else None)
                                      else find_ent p x (a_ents a))) =
  option_map kv_d (olive (unix (d_now s)) (G_del addrs x (find_de x (lents (unix (d_now s)) (d_store s) p)))) /\
  (forall e, olive_a (a_now a) (if zmem x addrs then (if 0 <? t then Some (mkE p x t (a_now a + t)) else None)
                                else find_ent p x (a_ents a)) = Some e -> egood e).
Proof.
  intros HA HD HR Ht. unfold G_del. destruct (zmem x addrs); [|now apply pt_same].
  replace (0 <? t) with false by (symmetry; apply Z.ltb_ge; lia). split; [reflexivity|discriminate].
Qed.

Lemma dstep_set a s p ttl l : AInv a -> DInv s -> Rel a s -> dop_ok (d_now s) (OSet p ttl l) -> dstep_ok a s (OSet p ttl l).
Proof.
  intros HA HD HR Hok. unfold dstep_ok. cbn [d_step a_step]. rewrite a_set_unfold. unfold d_set.
  destruct (Z.leb_spec ttl 0) as [Ht|Ht].
  - pose proof (pspec_deleteaddrs s p (clean_addrs l) HD) as PS.
    destruct (rel_step a s _ p _ _ _ _ _ HA HD HR (aspec_set a p ttl (clean_addrs l) HA) PS) as [HA' [HR' Hfo]].
    + intros x. now apply pt_set_neg.
    + intros _. apply HR.
    + split; [exact HA'|split; [apply PS|split; [exact HR'|split; [reflexivity|exact Hfo]]]].
  - destruct (clean_addrs l) as [|a0 t0] eqn:El.
    { unfold set_fold_a. cbn [fold_left d_setaddrs]. rewrite (mk_norm_self a HA).
      split; [exact HA|split; [exact HD|split; [exact HR|split; [reflexivity|apply from_old_refl]]]]. }
    rewrite <- El in *.
    assert (Hne : clean_addrs l <> []) by (rewrite El; discriminate).
    pose proof (pspec_setaddrs s p (clean_addrs l) ttl TOverride HD Hne) as PS.
    destruct (rel_step a s _ p _ _ _ _ _ HA HD HR (aspec_set a p ttl (clean_addrs l) HA) PS) as [HA' [HR' Hfo]].
    + intros x. now apply pt_set_pos.
    + intros _. apply HR.
    + split; [exact HA'|split; [apply PS|split; [exact HR'|split; [reflexivity|exact Hfo]]]].
Qed.

(* ---- UpdateAddrs --------------------------------------------------------------------------------- *)
Lemma akey_upd_map p old new now e : akey (upd_map p old new now e) = akey e.
Proof. unfold upd_map. now destruct ((ep e =? p) && (ettl e =? old)). Qed.

Lemma aspec_update a p old new :
  AInv a -> aspec a p (map (upd_map p old new (a_now a)) (a_ents a)) (a_recs a)
                  (fun x o => option_map (upd_map p old new (a_now a)) o).
Proof.
  intros HA. constructor.
  - intros x. apply find_map_keep. apply akey_upd_map.
  - intros q x Hq. rewrite (find_map_keep _ q x _ (akey_upd_map p old new (a_now a))).
    destruct (find_ent q x (a_ents a)) as [e|] eqn:Fe; [|reflexivity]. cbn [option_map]. f_equal.
    apply find_ent_some in Fe. unfold upd_map. destruct (Z.eqb_spec (ep e) p) as [E|E]; [|reflexivity].
    exfalso. apply Hq. now rewrite <- (proj1 (proj2 Fe)).
  - apply nodup_map_keep; [apply akey_upd_map|apply HA].
  - reflexivity.
  - apply HA.
Qed.

Lemma pt_update a s p old new x :
  AInv a -> DInv s -> Rel a s -> ttl_okP new ->
  option_map kv_a (olive_a (a_now a) (option_map (upd_map p old new (a_now a)) (find_ent p x (a_ents a)))) =
  option_map kv_d (olive (unix (d_now s))
                     (G_upd old new (unix (d_now s + new)) x (find_de x (lents (unix (d_now s)) (d_store s) p)))) /\
  (forall e, olive_a (a_now a) (option_map (upd_map p old new (a_now a)) (find_ent p x (a_ents a))) = Some e -> egood e).
Proof.
  intros HA HD HR Hok. pose proof (rel_kv a s p x HR) as K. pose proof HR as [Hn _]. pose proof (DI_clk s HD) as Hc.
  rewrite <- Hn in *. unfold G_upd.
  destruct (find_ent p x (a_ents a)) as [e|] eqn:Fe, (find_de x (lents (unix (a_now a)) (d_store s) p)) as [d|] eqn:Fd;
    cbn [option_map] in K; try discriminate; [|split; [reflexivity|discriminate]].
  assert (K' : kv_a e = kv_d d) by congruence. apply find_ent_some in Fe. destruct Fe as [Hin [Hp Ha]].
  destruct (AI_good a HA e Hin) as [G1 G2]. cbn [option_map].
  unfold upd_map, upd_d. rewrite Hp, Z.eqb_refl. cbn [andb].
  assert (Et : ettl e = dttl d) by (unfold kv_a, kv_d in K'; congruence). rewrite <- Et.
  destruct (ettl e =? old).
  - assert (L : live (a_now a) (mkE p (ea e) new (a_now a + new)) = lv (unix (a_now a)) (mkD (da d) new (unix (a_now a + new))))
      by (unfold live, lv; cbn; now apply fresh_agree).
    split; [apply olive_some; [reflexivity|exact L]|].
    intros e' He. cbn [olive_a] in He. destruct (live (a_now a) _) eqn:Lv; [|discriminate]. injection He as <-.
    unfold live in Lv. cbn in Lv. apply Z.ltb_lt in Lv. split; cbn; [lia|]. apply gexp_fresh; [exact Hc|exact Hok|lia].
  - split; [apply olive_some; [exact K'|now apply live_match]|].
    intros e' He. cbn [olive_a] in He. destruct (live (a_now a) e); [|discriminate]. injection He as <-. now split.
Qed.

Lemma dstep_update a s p old new :
  AInv a -> DInv s -> Rel a s -> dop_ok (d_now s) (OUpdate p old new) -> dstep_ok a s (OUpdate p old new).
Proof.
  intros HA HD HR Hok. unfold dstep_ok. cbn [d_step a_step]. unfold a_update.
  change (fun e : aent => if (ep e =? p) && (ettl e =? old) then mkE (ep e) (ea e) new (a_now a + new) else e)
    with (upd_map p old new (a_now a)).
  pose proof (pspec_update s p old new HD) as PS.
  destruct (rel_step a s _ p _ _ _ _ _ HA HD HR (aspec_update a p old new HA) PS) as [HA' [HR' Hfo]].
  - intros x. now apply pt_update.
  - intros _. apply HR.
  - split; [exact HA'|split; [apply PS|split; [exact HR'|split; [reflexivity|exact Hfo]]]].
Qed.

(* C09 — refinement of the datastore-backed model, part 7.
   ClearAddrs, the reads (Addrs, GetPeerRecord, PeersWithAddrs), close/reopen, clock advance. *)
From Coq Require Import List ZArith Bool Lia Permutation.
From Verif Require Import lib.Wire gen.Consts_c09 c09.Abs c09.Model_mem c09.Model_ds c09.Spec
  c09.Proofs_mem c09.Proofs_ds c09.Proofs c09.Proofs_dsr_a c09.Proofs_dsr_d c09.Proofs_dsr_s c09.Proofs_dsr_r
  c09.Proofs_dsr_o c09.Proofs_dsr_w.
Import ListNotations.
Local Open Scope Z_scope.

(* ---- ClearAddrs ---------------------------------------------------------------------------------- *)
Lemma find_clear q x p l :
  find_ent q x (filter (fun e => negb (ep e =? p)) l) = if q =? p then None else find_ent q x l.
Proof.
  induction l as [|e r IH]; cbn [filter]; [now destruct (q =? p)|].
  destruct (Z.eqb_spec (ep e) p) as [E|E]; cbn [negb].
  - rewrite IH, find_ent_cons. destruct (Z.eqb_spec q p) as [->|Hq]; [reflexivity|].
    unfold key_is. destruct (Z.eqb_spec (ep e) q); [congruence|reflexivity].
  - rewrite !find_ent_cons, IH. destruct (key_is q x e) eqn:K; [|reflexivity].
    apply key_is_eq in K. destruct (Z.eqb_spec q p); [exfalso; apply E; now rewrite (proj1 K)|reflexivity].
Qed.

Lemma lents_del u p st q : lents u (del_dr p st) q = if p =? q then [] else lents u st q.
Proof. unfold lents. rewrite find_del. now destruct (p =? q). Qed.

Lemma vcert_del u p st q : vcert u (del_dr p st) q = if p =? q then None else vcert u st q.
Proof. unfold vcert. rewrite find_del. now destruct (p =? q). Qed.

Lemma dstep_clear a s p : AInv a -> DInv s -> Rel a s -> dstep_ok a s (OClear p).
Proof.
  intros HA HD [Hn HR]. unfold dstep_ok. cbn [d_step a_step]. unfold d_clear, a_clear.
  split; [|split; [|split; [|split; [reflexivity|]]]].
  - pose proof (a_step_ok a (OClear p) (conj (AI_live a HA) (AI_recs a HA))) as [_ Hr]. cbn [a_step fst] in Hr.
    constructor; cbn [a_now a_ents a_recs].
    + intros e He. apply filter_In in He. now apply (AI_live a HA).
    + apply nodup_map_filter. apply HA.
    + intros e He. apply filter_In in He. now apply (AI_good a HA).
    + exact Hr.
    + unfold remove_rec. apply nodup_map_filter. apply HA.
  - destruct HD as [H1 H2 H3 H4 H5]. constructor; cbn [set_cache set_store d_cache d_cached d_store d_now d_look]; try assumption.
    + now rewrite H1.
    + now apply SInv_del.
  - split; [exact Hn|]. cbn [set_cache set_store d_now d_store a_ents a_recs]. intros q. destruct (HR q) as [R1 R2]. split.
    + intros x. unfold la, ld. rewrite find_clear, lents_del, (Z.eqb_sym p q).
      destruct (q =? p); [reflexivity|apply R1].
    + rewrite find_remove_rec, vcert_del. destruct (p =? q); [reflexivity|exact R2].
  - intros q Hq. right. cbn [set_cache set_store d_store] in Hq. unfold del_dr in Hq.
    apply in_map_iff in Hq. destruct Hq as [r [<- Hr]]. apply filter_In in Hr. apply in_map. tauto.
Qed.

(* ---- a load leaves the relation alone ----------------------------------------------------------------- *)
Lemma aspec_id a p : AInv a -> aspec a p (a_ents a) (a_recs a) (fun _ o => o).
Proof. intros HA. constructor; try reflexivity; apply HA. Qed.

Lemma rel_load a s s1 p :
  AInv a -> DInv s -> Rel a s -> pspec s s1 p (fun _ o => o) (vcert (unix (d_now s)) (d_store s) p) ->
  Rel a s1 /\ from_old_d a s s1.
Proof.
  intros HA HD HR PS.
  destruct (rel_step a s s1 p _ _ _ _ _ HA HD HR (aspec_id a p HA) PS) as [_ H].
  - intros x. now apply pt_same.
  - intros _. apply HR.
  - now rewrite (mk_norm_self a HA) in H.
Qed.

(* ---- Addrs ------------------------------------------------------------------------------------------------ *)
Lemma nodup_addrs p l : NoDup (map akey l) -> NoDup (map ea (filter (fun e => ep e =? p) l)).
Proof.
  induction l as [|e r IH]; cbn [filter map]; intros H; [constructor|].
  apply NoDup_cons_iff in H. destruct H as [He Hr].
  destruct (Z.eqb_spec (ep e) p) as [E|E]; cbn [map]; [|now apply IH].
  constructor; [|now apply IH]. intros Hin. apply in_map_iff in Hin. destruct Hin as [e' [Ha Hin]].
  apply filter_In in Hin. destruct Hin as [Hin Hp]. apply Z.eqb_eq in Hp. apply He.
  replace (akey e) with (akey e') by (unfold akey; congruence). now apply in_map.
Qed.

Lemma in_a_addrs a p x : In x (a_addrs a p) <-> exists e, find_ent p x (a_ents a) = Some e.
Proof.
  unfold a_addrs. rewrite in_map_iff. split.
  - intros [e [Ha He]]. apply filter_In in He. destruct He as [He Hp]. apply Z.eqb_eq in Hp.
    destruct (find_ent p x (a_ents a)) as [e'|] eqn:F; [now exists e'|]. exfalso.
    apply (find_ent_none _ _ _ F e He). unfold akey. congruence.
  - intros [e F]. apply find_ent_some in F. exists e. split; [tauto|]. apply filter_In. split; [tauto|]. apply Z.eqb_eq. tauto.
Qed.

Lemma in_map_da x l : In x (map da l) <-> exists d, find_de x l = Some d.
Proof.
  rewrite find_de_zmem. unfold zmem. rewrite existsb_exists. split.
  - intros H. exists x. split; [exact H|apply Z.eqb_refl].
  - intros [y [Hy E]]. apply Z.eqb_eq in E. now subst.
Qed.

Lemma dstep_addrs a s p : AInv a -> DInv s -> Rel a s -> dstep_ok a s (OAddrs p).
Proof.
  intros HA HD HR. unfold dstep_ok. cbn [d_step a_step]. unfold d_addrs.
  destruct (load s p true true) as [[s1 pr] inc] eqn:HL.
  destruct (pspec_load s p true true s1 pr inc HD HL) as [PL [Epr Einc]]. subst pr inc. cbn [daddrs].
  destruct (rel_load a s s1 p HA HD HR PL) as [HR1 Hfo].
  split; [exact HA|split; [apply PL|split; [exact HR1|split; [|exact Hfo]]]].
  eexists. eexists. split; [reflexivity|split; [reflexivity|]].
  apply NoDup_Permutation.
  - apply nodup_addrs. apply HA.
  - apply (lents_sorted _ _ _ (DI_store s HD)).
  - intros x. rewrite in_a_addrs, in_map_da. pose proof (rel_kv a s p x HR) as K.
    destruct (find_ent p x (a_ents a)) as [e|], (find_de x (lents (unix (d_now s)) (d_store s) p)) as [d|];
      cbn [option_map] in K; try discriminate; split; intros [y Hy]; try discriminate; eauto.
Qed.

(* ---- GetPeerRecord --------------------------------------------------------------------------------------------- *)
Lemma dstep_getrec a s p : AInv a -> DInv s -> Rel a s -> dstep_ok a s (OGetRec p).
Proof.
  intros HA HD HR. unfold dstep_ok. cbn [d_step a_step].
  destruct (getrec_spec s p HD) as [PL Hv]. destruct (d_getrec_full s p) as [s1 r]. cbn [fst snd] in *. subst r.
  destruct (rel_load a s s1 p HA HD HR PL) as [HR1 Hfo].
  split; [exact HA|split; [apply PL|split; [exact HR1|split; [|exact Hfo]]]].
  cbn [obs_rel_d norm_obs]. unfold a_getrec. destruct HR as [_ HR]. now rewrite (proj2 (HR p)).
Qed.

(* ---- PeersWithAddrs, close/reopen -------------------------------------------------------------------------------- *)
Lemma dstep_peers a s : AInv a -> DInv s -> Rel a s -> dstep_ok a s OPeers.
Proof.
  intros HA HD HR. unfold dstep_ok. cbn [d_step a_step].
  split; [exact HA|split; [exact HD|split; [exact HR|split; [split; reflexivity|apply from_old_refl]]]].
Qed.

Lemma dstep_reopen a s : AInv a -> DInv s -> Rel a s -> dstep_ok a s OReopen.
Proof.
  intros HA HD HR. unfold dstep_ok. cbn [d_step a_step]. unfold d_reopen.
  split; [exact HA|split; [|split; [exact HR|split; [reflexivity|intros q Hq; right; exact Hq]]]].
  destruct HD as [H1 H2 H3 H4 H5]. now constructor.
Qed.

(* the stored peers that answer PeersWithAddrs include every peer of the abstract book *)
Lemma peers_sub_d a s z : Rel a s -> In z (a_peers a) -> In z (d_peers s).
Proof.
  intros [_ HR] Hz. unfold a_peers in Hz. rewrite in_zdedup in Hz. apply in_map_iff in Hz. destruct Hz as [e [<- He]].
  assert (Hh : has_peer (ep e) (a_ents a) = true).
  { unfold has_peer. apply existsb_exists. exists e. split; [exact He|apply Z.eqb_refl]. }
  apply (has_peer_rel _ _ _ _ (proj1 (HR (ep e)))) in Hh. unfold lents in Hh. unfold d_peers.
  destruct (find_dr (ep e) (d_store s)) as [r|] eqn:F; [|congruence].
  rewrite <- (find_dr_dp _ _ _ F). apply in_map. now apply (find_in _ _ _ F).
Qed.

(* ---- clock advance ---------------------------------------------------------------------------------------------- *)
Lemma lents_mono u u' st q : u <= u' -> lents u' st q = filter (lv u') (lents u st q).
Proof.
  intros H. unfold lents. destruct (find_dr q st) as [r|]; [|reflexivity]. rewrite filter_filter.
  apply filter_ext. intros e. unfold lv. destruct (Z.ltb_spec u' (dexp e)); [|now rewrite andb_false_r].
  replace (u <? dexp e) with true by (symmetry; apply Z.ltb_lt; lia). reflexivity.
Qed.

Lemma vcert_raw u st q :
  vcert u st q = match lents u st q with [] => None | _ => match find_dr q st with Some r => dcert r | None => None end end.
Proof. unfold vcert, lents. now destruct (find_dr q st). Qed.

Lemma dstep_advance a s d :
  AInv a -> DInv s -> Rel a s -> dop_ok (d_now s) (OAdvance d) -> dstep_ok a s (OAdvance d).
Proof.
  intros HA HD [Hn HR] [Hd0 [Hdw Hdb]]. unfold dstep_ok. cbn [d_step a_step]. unfold a_advance.
  destruct HD as [H1 H2 H3 H4 H5]. destruct H4 as [C1 [C2 C3]].
  assert (Hc' : clk (d_now s + d)) by (split; [now apply whole_add|split; lia]).
  assert (HU : unix (d_now s) <= unix (d_now s + d)) by (apply unix_mono; lia).
  assert (HAI : AInv (mk_norm (a_now a + d) (a_ents a) (a_recs a))).
  { apply mk_norm_inv; [apply HA| |apply HA]. intros e He _. now apply (AI_good a HA). }
  assert (Hself : forall q x, la (a_ents (mk_norm (a_now a + d) (a_ents a) (a_recs a))) q x =
                              ld (lents (unix (d_now s + d)) (d_store s) q) x).
  { intros q x. unfold la, ld. rewrite (mk_norm_find_ent _ _ _ q x (AI_keys a HA)).
    rewrite (lents_mono _ _ _ q HU). rewrite (find_de_filter _ x _ (proj2 (lents_sorted _ _ q H3))).
    rewrite Hn. apply (olive_match (d_now s + d)); [exact Hc'| |exact (proj1 (HR q) x)].
    intros e Fe. apply find_ent_some in Fe. apply (AI_good a HA e (proj1 Fe)). }
  split; [exact HAI|split; [|split; [|split; [reflexivity|intros q Hq; right; exact Hq]]]].
  - constructor; cbn [d_cache d_cached d_store d_now d_look]; assumption.
  - split; [cbn [d_now]; rewrite mk_norm_now; lia|]. cbn [d_now d_store]. intros q. split; [apply Hself|].
    rewrite (mk_norm_find_rec _ _ _ q (AI_rkeys a HA)). rewrite (proj2 (HR q)).
    pose proof (has_peer_rel _ _ _ _ (Hself q)) as HP. rewrite !vcert_raw. rewrite (lents_mono _ _ _ q HU).
    rewrite (lents_mono _ _ _ q HU) in HP.
    destruct (filter (lv (unix (d_now s + d))) (lents (unix (d_now s)) (d_store s) q)) as [|d0 t0] eqn:EL.
    + destruct (has_peer q (a_ents (mk_norm (a_now a + d) (a_ents a) (a_recs a)))) eqn:Hh; [exfalso; now apply (proj1 HP)|].
      now destruct (lents (unix (d_now s)) (d_store s) q), (find_dr q (d_store s)) as [[? ? [?|] ?]|].
    + rewrite (proj2 HP) by discriminate.
      destruct (lents (unix (d_now s)) (d_store s) q) as [|d1 t1]; [discriminate|].
      now destruct (find_dr q (d_store s)) as [[? ? [?|] ?]|].
Qed.

(* C09 — executable transcription of p2p/host/peerstore/pstoremem/addr_book.go
   (the repaired tree: peerAddrs.Update pushes an entry that leaves the
   connected class; every write first purges the peer's expired, not yet
   collected entries; record addresses are compared as transport addresses).
   No proofs here.

   Layout kept from the code: every stored entry carries the flag
   "is in expiringHeap" (heapIndex <> -1).  The ORDER inside the heap is
   container/heap's and is abstracted: PopIfExpired pops every flagged entry
   whose expiry is <= now.  The flag discipline (Insert / Update / Delete) is
   libp2p's and is transcribed branch by branch.  The two Go maps are
   association lists (insertion order; no operation of the book depends on map
   order once the caps are out of play).

   Not modelled, by choice (see Model_ds.v and the weak monitor in Spec.v): the
   three caps (maxUnconnectedAddrs, maxSignedPeerRecords, maxAddrsPerPeer) — the model is the book with caps that never bind (the
   defaults, on the small universes of the histories); AddrStream pub-sub. *)
From Coq Require Import List ZArith Bool.
From Verif Require Import gen.Consts_c09 c09.Abs.
Import ListNotations.
Local Open Scope Z_scope.

Record ment := mkM { me : aent; mheap : bool }.
Record mbook := mkMB { m_now : Z; m_ents : list ment; m_recs : list arec }.

Definition m_init : mbook := mkMB 0 [] [].

Definition expired_by (now : Z) (e : aent) : bool := negb (now <? eexp e).  (* !t.Before(e.Expiry) *)

Definition m_has_peer (p : Z) (l : list ment) : bool := existsb (fun x => ep (me x) =? p) l.

(* peerAddrs.Insert *)
Definition pa_insert (e : aent) : ment := mkM e (if conn (ettl e) then false else true).

(* peerAddrs.Update: the heap flag after the call *)
Definition pa_update_flag (e : aent) (inheap : bool) : bool :=
  if negb inheap then
    (* heapIndex == -1 *)
    (if negb (conn (ettl e)) then true (* heap.Push *) else false)
  else
    (if conn (ettl e) then false (* heap.Remove *) else true (* heap.Fix *)).

(* peerAddrs.Delete *)
Definition pa_delete (p a : Z) (l : list ment) : list ment :=
  filter (fun x => negb (key_is p a (me x))) l.

(* maybeDeleteSignedPeerRecordUnlocked *)
Definition maybe_delete_rec (p : Z) (ents : list ment) (recs : list arec) : list arec :=
  if m_has_peer p ents then recs else remove_rec p recs.

(* purgeExpiredUnlocked: drop p's expired entries, then p's record if nothing is left *)
Definition m_purge (s : mbook) (p : Z) : mbook :=
  let ents := filter (fun x => negb ((ep (me x) =? p) && expired_by (m_now s) (me x))) (m_ents s) in
  mkMB (m_now s) ents (maybe_delete_rec p ents (m_recs s)).

(* the loop body of addAddrsUnlocked for one (already split) address *)
Fixpoint m_add_one (p a ttl exp : Z) (l : list ment) : list ment :=
  match l with
  | [] => [pa_insert (mkE p a ttl exp)]
  | x :: r =>
      if key_is p a (me x) then
        let e := me x in
        let c1 := ettl e <? ttl in
        let c2 := eexp e <? exp in
        let e' := mkE p a (if c1 then ttl else ettl e) (if c2 then exp else eexp e) in
        (if c1 || c2 then mkM e' (pa_update_flag e' (mheap x)) else x) :: r
      else x :: m_add_one p a ttl exp r
  end.

Definition m_add_unlocked (s : mbook) (p : Z) (addrs : list raw) (ttl : Z) : mbook :=
  let ents :=
    if ttl <=? 0 then m_ents s
    else fold_left (fun l (r : raw) =>
                      if snd r =? 2 then l   (* /p2p/<other peer>: skipped *)
                      else m_add_one p (fst r) ttl (m_now s + ttl) l)
                   addrs (m_ents s) in
  mkMB (m_now s) ents (maybe_delete_rec p ents (m_recs s)).

(* the loop body of SetAddrs *)
Fixpoint m_set_one (p a ttl exp : Z) (l : list ment) : list ment :=
  match l with
  | [] => if 0 <? ttl then [pa_insert (mkE p a ttl exp)] else []
  | x :: r =>
      if key_is p a (me x) then
        if 0 <? ttl then
          let e' := mkE p a ttl exp in mkM e' (pa_update_flag e' (mheap x)) :: r
        else m_set_one p a ttl exp r                             (* Delete: the key leaves the map *)
      else x :: m_set_one p a ttl exp r
  end.

(* addAddrs (AddAddr / AddAddrs): purge, then addAddrsUnlocked *)
Definition m_add (s : mbook) (p : Z) (addrs : list raw) (ttl : Z) : mbook :=
  m_add_unlocked (m_purge s p) p addrs ttl.

Definition m_set (s0 : mbook) (p : Z) (addrs : list raw) (ttl : Z) : mbook :=
  let s := m_purge s0 p in
  let ents :=
    fold_left (fun l (r : raw) =>
                 if snd r =? 2 then l else m_set_one p (fst r) ttl (m_now s + ttl) l)
              addrs (m_ents s) in
  mkMB (m_now s) ents (maybe_delete_rec p ents (m_recs s)).

(* UpdateAddrs: every stored entry of p whose TTL is oldTTL — expired or not *)
Fixpoint m_update_ents (p old new exp : Z) (l : list ment) : list ment :=
  match l with
  | [] => []
  | x :: r =>
      let e := me x in
      if (ep e =? p) && (ettl e =? old) then
        if new =? 0 then m_update_ents p old new exp r                        (* Delete *)
        else let e' := mkE (ep e) (ea e) new exp in
             mkM e' (pa_update_flag e' (mheap x)) :: m_update_ents p old new exp r
      else x :: m_update_ents p old new exp r
  end.

Definition m_update (s0 : mbook) (p old new : Z) : mbook :=
  let s := m_purge s0 p in
  let ents := m_update_ents p old new (m_now s + new) (m_ents s) in
  mkMB (m_now s) ents (maybe_delete_rec p ents (m_recs s)).

Definition m_clear (s : mbook) (p : Z) : mbook :=
  mkMB (m_now s) (filter (fun x => negb (ep (me x) =? p)) (m_ents s)) (remove_rec p (m_recs s)).

(* ConsumePeerRecord's eviction loop over the transport addresses (SplitAddr,
   foreign /p2p suffixes skipped) of the previous record; "still listed"
   compares with the transport addresses of the new record *)
Definition m_evict (p : Z) (prev new : list Z) (ents : list ment) : list ment :=
  fold_left (fun l a =>
               if zmem a new then l
               else match find (fun x => key_is p a (me x)) l with
                    | None => l
                    | Some x => if conn (ettl (me x)) then l else pa_delete p a l
                    end)
            prev ents.

Definition m_consume (s0 : mbook) (p seq id : Z) (addrs : list raw) (ttl : Z) : mbook * Z :=
  let s := m_purge s0 p in
  let last := find_rec p (m_recs s) in
  if match last with Some r => seq <? rseq r | None => false end then (s, 0)
  else
    let ents1 := match last with
                 | Some r => m_evict p (clean_addrs (raddrs r)) (clean_addrs addrs) (m_ents s)
                 | None => m_ents s
                 end in
    let recs1 := set_rec (mkR p seq id addrs) (m_recs s) in
    (m_add_unlocked (mkMB (m_now s) ents1 recs1) p addrs ttl, 1).

(* gc: PopIfExpired until the heap's minimum is in the future; after each pop
   maybeDeleteSignedPeerRecordUnlocked(peer of the popped entry) *)
Definition m_gc (s : mbook) : mbook :=
  let now := m_now s in
  let popped x := mheap x && expired_by now (me x) in
  let ents := filter (fun x => negb (popped x)) (m_ents s) in
  let gone := filter popped (m_ents s) in
  let recs := filter (fun r => negb (m_has_peer (rp r) gone && negb (m_has_peer (rp r) ents)))
                     (m_recs s) in
  mkMB now ents recs.

(* reads *)
Definition m_addrs (s : mbook) (p : Z) : list Z :=
  map (fun x => ea (me x))
      (filter (fun x => (ep (me x) =? p) && negb (expired_by (m_now s) (me x))) (m_ents s)).

Definition m_getrec (s : mbook) (p : Z) : Z :=
  if negb (m_has_peer p (m_ents s)) then 0
  else match m_addrs s p with
       | [] => 0
       | _ => match find_rec p (m_recs s) with Some r => rid r | None => 0 end
       end.

Definition m_peers (s : mbook) : list Z := zdedup (map (fun x => ep (me x)) (m_ents s)).

Definition m_heapcount (s : mbook) : Z := zlen' (filter mheap (m_ents s)).

Definition m_step (s : mbook) (o : op) : mbook * obs :=
  match o with
  | OAdd p ttl l => (m_add s p l ttl, ONone)
  | OSet p ttl l => (m_set s p l ttl, ONone)
  | OUpdate p old new => (m_update s p old new, ONone)
  | OClear p => (m_clear s p, ONone)
  | OConsume p seq id ttl bad l =>
      if bad then (s, OVal 2) else let '(s', r) := m_consume s p seq id l ttl in (s', OVal r)
  | OAddrs p => (s, OList (m_addrs s p))
  | OPeers => (s, OList (m_peers s))
  | OGetRec p => (s, OVal (m_getrec s p))
  | OAdvance d => (mkMB (m_now s + d) (m_ents s) (m_recs s), ONone)
  | OGC => let s' := m_gc s in (s', OSizes (zlen' (m_ents s')) (zlen' (m_recs s')) (m_heapcount s'))
  | OReopen => (s, ONone)
  end.

Fixpoint m_trace (s : mbook) (ops : list op) : list (op * obs) :=
  match ops with
  | [] => []
  | o :: r => let '(s', x) := m_step s o in (o, x) :: m_trace s' r
  end.

Fixpoint m_run (s : mbook) (ops : list op) : mbook :=
  match ops with [] => s | o :: r => m_run (fst (m_step s o)) r end.

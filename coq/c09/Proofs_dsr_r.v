(* C09 — refinement of the datastore-backed model, part 4.
   The coupling relation between the abstract book and the cache-less ds book, and the generic
   step lemma: an operation on peer p described on both sides as a per-address transformer. *)
From Coq Require Import List ZArith Bool Lia Permutation.
From Verif Require Import lib.Wire gen.Consts_c09 c09.Abs c09.Model_mem c09.Model_ds c09.Spec
  c09.Proofs_mem c09.Proofs_ds c09.Proofs c09.Proofs_dsr_a c09.Proofs_dsr_d c09.Proofs_dsr_s.
Import ListNotations.
Local Open Scope Z_scope.

(* what the two books must agree on for an address: TTL class and expiry in whole seconds *)
Definition kv_a (e : aent) : Z * Z := (ettl e, unix (eexp e)).
Definition kv_d (e : dent) : Z * Z := (dttl e, dexp e).
Definition la (ents : list aent) (p x : Z) : option (Z * Z) := option_map kv_a (find_ent p x ents).
Definition ld (l : list dent) (x : Z) : option (Z * Z) := option_map kv_d (find_de x l).

(* peer p: the live entries of its stored record are the abstract entries; its certified record is
   the abstract record as long as an entry is live *)
Definition prel (ents : list aent) (recs : list arec) (u : Z) (st : list drec) (p : Z) : Prop :=
  (forall x, la ents p x = ld (lents u st p) x) /\ find_rec p recs = vcert u st p.

Definition Rel (a : abook) (s : dbook) : Prop :=
  a_now a = d_now s /\ forall p, prel (a_ents a) (a_recs a) (unix (d_now s)) (d_store s) p.

Definition olive_a (now : Z) (o : option aent) : option aent :=
  match o with Some e => if live now e then Some e else None | None => None end.

Lemma live_match now e d : clk now -> gexp (eexp e) -> kv_a e = kv_d d -> live now e = lv (unix now) d.
Proof.
  intros Hc Hg H. unfold kv_a, kv_d in H. injection H as _ H2. unfold live, lv. rewrite <- H2. now apply live_agree.
Qed.

Lemma olive_match now oa od :
  clk now -> (forall e, oa = Some e -> gexp (eexp e)) -> option_map kv_a oa = option_map kv_d od ->
  option_map kv_a (olive_a now oa) = option_map kv_d (olive (unix now) od).
Proof.
  intros Hc Hg H. destruct oa as [e|], od as [d|]; cbn [option_map] in H; try discriminate; [|reflexivity].
  assert (H' : kv_a e = kv_d d) by congruence. cbn [olive_a olive].
  rewrite (live_match now e d Hc (Hg e eq_refl) H').
  destruct (lv (unix now) d); cbn [option_map]; [now rewrite H'|reflexivity].
Qed.

(* a peer has an abstract entry iff its stored record has a live entry *)
Lemma has_peer_rel ents u st p :
  (forall x, la ents p x = ld (lents u st p) x) -> (has_peer p ents = true <-> lents u st p <> []).
Proof.
  intros H. rewrite has_peer_find. split.
  - intros [x [e F]] E. specialize (H x). unfold la, ld in H. rewrite F, E in H. discriminate.
  - intros Hne. destruct (lents u st p) as [|d t] eqn:E; [congruence|]. specialize (H (da d)).
    unfold la, ld in H. rewrite find_de_cons, Z.eqb_refl in H. cbn in H.
    destruct (find_ent p (da d) ents) as [e|] eqn:F; [now exists (da d), e|discriminate].
Qed.

(* ---- an operation on peer p, abstract side: a' = mk_norm now X Y ------------------------------- *)
Record aspec (a : abook) (p : Z) (X : list aent) (Y : list arec) (F : Z -> option aent -> option aent) : Prop := mkAspec {
  as_self : forall x, find_ent p x X = F x (find_ent p x (a_ents a));
  as_other : forall q x, q <> p -> find_ent q x X = find_ent q x (a_ents a);
  as_keys : NoDup (map akey X);
  as_rother : forall q, q <> p -> find_rec q Y = find_rec q (a_recs a);
  as_rkeys : NoDup (map rp Y)
}.

(* ---- ds side ------------------------------------------------------------------------------------------ *)
Record pspec (s s' : dbook) (p : Z) (G : Z -> option dent -> option dent) (c' : option arec) : Prop := mkPspec {
  ps_inv : DInv s';
  ps_frame : frame s s';
  ps_self : forall x, find_de x (lents (unix (d_now s)) (d_store s') p) =
                      olive (unix (d_now s)) (G x (find_de x (lents (unix (d_now s)) (d_store s) p)));
  ps_cert : vcert (unix (d_now s)) (d_store s') p =
            match lents (unix (d_now s)) (d_store s') p with [] => None | _ => c' end;
  ps_other : forall q, q <> p ->
             lents (unix (d_now s)) (d_store s') q = lents (unix (d_now s)) (d_store s) q /\
             vcert (unix (d_now s)) (d_store s') q = vcert (unix (d_now s)) (d_store s) q;
  ps_peers : forall q, In q (map dp (d_store s')) ->
             In q (map dp (d_store s)) \/ (q = p /\ lents (unix (d_now s)) (d_store s') p <> []);
  ps_frkeep : (In p (map dp (d_store s)) -> lents (unix (d_now s)) (d_store s) p <> []) ->
              (In p (map dp (d_store s')) -> lents (unix (d_now s)) (d_store s') p <> [])
}.

Definition from_old_d (a' : abook) (s s' : dbook) : Prop :=
  forall q, In q (map dp (d_store s')) -> In q (a_peers a') \/ In q (map dp (d_store s)).

Lemma in_a_peers p a : has_peer p (a_ents a) = true -> In p (a_peers a).
Proof.
  unfold a_peers, has_peer. rewrite existsb_exists, in_zdedup. intros [e [He Hp]].
  apply Z.eqb_eq in Hp. rewrite <- Hp. now apply in_map.
Qed.

Lemma rel_step a s s' p X Y F G c' :
  AInv a -> DInv s -> Rel a s -> aspec a p X Y F -> pspec s s' p G c' ->
  (forall x,
     option_map kv_a (olive_a (a_now a) (F x (find_ent p x (a_ents a)))) =
     option_map kv_d (olive (unix (d_now s)) (G x (find_de x (lents (unix (d_now s)) (d_store s) p)))) /\
     (forall e, olive_a (a_now a) (F x (find_ent p x (a_ents a))) = Some e -> egood e)) ->
  (lents (unix (d_now s)) (d_store s') p <> [] -> find_rec p Y = c') ->
  let a' := mk_norm (a_now a) X Y in
  AInv a' /\ Rel a' s' /\ from_old_d a' s s'.
Proof.
  intros HA HD [Hnow HR] [A1 A2 A3 A4 A5] [P1 P2 P3 P4 P5 P6 P7] Hpt Hc. cbn zeta.
  pose proof P2 as [Fn _].
  assert (HAI : AInv (mk_norm (a_now a) X Y)).
  { apply mk_norm_inv; [exact A3| |exact A5]. intros e He Hl.
    pose proof (find_ent_in X e A3 He) as Fe. destruct (Z.eq_dec (ep e) p) as [Ep|Ep].
    - rewrite Ep, A1 in Fe. apply (proj2 (Hpt (ea e)) e). rewrite Fe. cbn [olive_a]. now rewrite Hl.
    - rewrite (A2 _ _ Ep) in Fe. apply find_ent_some in Fe. apply HA. tauto. }
  assert (Hself : forall x, la (a_ents (mk_norm (a_now a) X Y)) p x = ld (lents (unix (d_now s)) (d_store s') p) x).
  { intros x. unfold la, ld. rewrite (mk_norm_find_ent _ X Y p x A3), A1, P3. exact (proj1 (Hpt x)). }
  assert (HRel : forall q, prel (a_ents (mk_norm (a_now a) X Y)) (a_recs (mk_norm (a_now a) X Y))
                                (unix (d_now s)) (d_store s') q).
  { intros q. destruct (Z.eq_dec q p) as [->|Hq].
    - split; [exact Hself|]. rewrite (mk_norm_find_rec _ X Y p A5), P4.
      pose proof (has_peer_rel _ _ _ _ Hself) as HP.
      destruct (lents (unix (d_now s)) (d_store s') p) as [|d t] eqn:EL.
      + destruct (has_peer p (a_ents (mk_norm (a_now a) X Y))) eqn:Hh; [exfalso; now apply (proj1 HP)|].
        now destruct (find_rec p Y).
      + rewrite (proj2 HP) by discriminate. rewrite Hc by discriminate. now destruct c'.
    - destruct (HR q) as [R1 R2]. destruct (P5 q Hq) as [E1 E2]. split.
      + intros x. unfold la, ld. rewrite (mk_norm_find_ent _ X Y q x A3), (A2 q x Hq), E1.
        specialize (R1 x). unfold la, ld in R1. rewrite <- R1.
        destruct (find_ent q x (a_ents a)) as [e|] eqn:Fe; [|reflexivity].
        apply find_ent_some in Fe. now rewrite (AI_live a HA e (proj1 Fe)).
      + rewrite (mk_norm_find_rec _ X Y q A5), (A4 q Hq), E2, <- R2.
        destruct (find_rec q (a_recs a)) as [r|] eqn:Fr; [|reflexivity].
        apply find_rec_some in Fr. destruct Fr as [Hin Hrp]. pose proof (AI_recs a HA r Hin) as Hh. rewrite Hrp in Hh.
        apply has_peer_find in Hh. destruct Hh as [x [e Fe]].
        assert (Hh' : has_peer q (a_ents (mk_norm (a_now a) X Y)) = true).
        { apply has_peer_find. exists x, e. rewrite (mk_norm_find_ent _ X Y q x A3), (A2 q x Hq), Fe.
          apply find_ent_some in Fe. now rewrite (AI_live a HA e (proj1 Fe)). }
        now rewrite Hh'. }
  split; [exact HAI|split].
  - split; [rewrite mk_norm_now, Fn; exact Hnow|]. rewrite Fn. exact HRel.
  - intros q Hq. destruct (P6 q Hq) as [Hin|[-> Hne]]; [now right|left].
    apply in_a_peers. now apply (has_peer_rel _ _ _ _ Hself).
Qed.

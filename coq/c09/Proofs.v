(* placeholder, replaced below *)
From Coq Require Import List ZArith Bool Lia.
From Verif Require Import lib.Wire gen.Consts_c09 c09.Abs c09.Model_mem c09.Model_ds c09.Spec.
Import ListNotations.
Local Open Scope Z_scope.
Lemma consts_order_l : ConnectedAddrTTL < PermanentAddrTTL.
Proof. reflexivity. Qed.

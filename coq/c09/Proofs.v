(* C09 — the monitor accepts every trace of the abstract book; with
   Proofs_mem: it accepts every trace of the in-memory model (clock moving
   forward, below ConnectedAddrTTL); the sentences of the property about A;
   the former finding witnesses, now accepted on both models. *)
From Coq Require Import List ZArith Bool Lia.
From Verif Require Import lib.Wire gen.Consts_c09 c09.Abs c09.Model_mem c09.Model_ds c09.Spec c09.Proofs_mem.
Import ListNotations.
Local Open Scope Z_scope.

Lemma consts_order_l : 0 < TempAddrTTL /\ TempAddrTTL < RecentlyConnectedAddrTTL /\
  RecentlyConnectedAddrTTL < AddressTTL /\ AddressTTL < ConnectedAddrTTL /\ ConnectedAddrTTL < PermanentAddrTTL.
Proof. repeat split; reflexivity. Qed.

(* ---- the monitor accepts A's own answers -------------------------------------- *)
Lemma zmem_in x l : In x l -> zmem x l = true.
Proof. intros H. unfold zmem. apply existsb_exists. exists x. split; [exact H|apply Z.eqb_refl]. Qed.

Lemma incl_b_sub l1 l2 : (forall x, In x l1 -> In x l2) -> incl_b l1 l2 = true.
Proof. intros H. unfold incl_b. apply forallb_forall. intros x Hx. apply zmem_in. now apply H. Qed.

Lemma obs_ok_self a cand o :
  (forall x, In x (a_peers a) -> In x cand) ->
  let '(a', e) := a_step a o in
  obs_ok (mkMon a (match o with OGC => a_peers a' | _ => cand end)) a' e o e = true.
Proof.
  intros Hc. destruct o; cbn [a_step obs_ok]; try reflexivity.
  - destruct bad; [cbn; reflexivity|]. destruct (a_consume a p seq id addrs ttl) as [s' ok].
    cbn [obs_ok]. apply Z.eqb_refl.
  - cbn [obs_ok]. unfold seteq. now rewrite incl_b_sub by auto.
  - cbn [obs_ok mo_cand]. rewrite incl_b_sub by auto. now rewrite incl_b_sub by exact Hc.
  - apply Z.eqb_refl.
  - rewrite Z.eqb_refl. cbn. apply Z.leb_refl.
Qed.

Lemma holds_a_from a cand ops :
  (forall x, In x (a_peers a) -> In x cand) -> holds_from (mkMon a cand) (a_trace a ops) = true.
Proof.
  revert a cand. induction ops as [|o r IH]; intros a cand Hc; [reflexivity|].
  cbn [a_trace]. pose proof (obs_ok_self a cand o Hc) as H.
  destruct (a_step a o) as [a' e] eqn:E. cbn [holds_from]. unfold mon_step. cbn [mo_a mo_cand].
  rewrite E. rewrite H. apply IH. intros x Hx. apply in_or_app. now left.
Qed.

Lemma holds_a_l ops : holds (a_trace a_init ops) = true.
Proof. apply holds_a_from. intros x []. Qed.

(* the monitor does not look at the heap count *)
Lemma mon_step_norm m o x : mon_step m o (norm_obs x) = mon_step m o x.
Proof.
  unfold mon_step. destruct (a_step (mo_a m) o) as [a' e].
  destruct x; cbn [norm_obs]; try reflexivity.
  all: try (destruct o, e; reflexivity).
Qed.

(* ---- in-memory model: every history is accepted --------------------------------- *)
Lemma obs_ok_norm m a' e o x : obs_ok m a' e o (norm_obs x) = obs_ok m a' e o x.
Proof. destruct x; cbn [norm_obs]; try reflexivity. all: try (destruct o, e; reflexivity). Qed.

Lemma obs_ok_norm_e m a' e o x : obs_ok m a' (norm_obs e) o x = obs_ok m a' e o x.
Proof. destruct e; cbn [norm_obs]; try reflexivity. all: try (destruct o, x; reflexivity). Qed.

Lemma in_zdedup x l : In x (zdedup l) <-> In x l.
Proof.
  induction l as [|y r IH]; cbn [zdedup]; [tauto|].
  destruct (zmem y r) eqn:M.
  - rewrite IH. split; [now right|]. intros [<-|H]; [|exact H].
    unfold zmem in M. apply existsb_exists in M. destruct M as [z [Hz E]]. apply Z.eqb_eq in E. now subst.
  - cbn [In]. now rewrite IH.
Qed.

Lemma peers_sub m z : In z (a_peers (m_abs m)) -> In z (m_peers m).
Proof.
  unfold a_peers, m_peers. rewrite m_abs_eq. cbn [a_ents]. rewrite !in_zdedup.
  intros H. apply in_map_iff in H. destruct H as [e [<- He]]. unfold Ls in He. apply filter_In in He.
  destruct He as [He _]. unfold erase in He. apply in_map_iff in He. destruct He as [x [<- Hx]].
  apply in_map_iff. exists x. tauto.
Qed.

Lemma live_in_peers m e : In e (erase (m_ents m)) -> live (m_now m) e = true -> In (ep e) (a_peers (m_abs m)).
Proof.
  intros He Hl. unfold a_peers. rewrite m_abs_eq. cbn [a_ents]. apply in_zdedup. apply in_map.
  unfold Ls. apply filter_In. tauto.
Qed.

Lemma mem_holds_from ops : forall m cand, Inv m -> clock_ok (m_now m) ops = true ->
  (forall e, In e (erase (m_ents m)) -> In (ep e) cand) ->
  holds_from (mkMon (m_abs m) cand) (m_trace m ops) = true.
Proof.
  induction ops as [|o r IH]; intros m cand HI Hc Hcand; [reflexivity|].
  destruct (clock_ok_step _ _ _ Hc) as [Ho Hr]. pose proof (step_all m o HI Ho) as S.
  assert (Hap : forall x, In x (a_peers (m_abs m)) -> In x cand).
  { intros z Hz. apply peers_sub in Hz. unfold m_peers in Hz. rewrite in_zdedup in Hz.
    apply in_map_iff in Hz. destruct Hz as [x [<- Hx]]. apply Hcand. now apply in_map. }
  pose proof (obs_ok_self (m_abs m) cand o Hap) as Self.
  pose proof (m_step_now m o) as Hn. pose proof (gc_all_live m HI) as GL.
  unfold step_ok in S. cbn [m_trace].
  destruct (m_step m o) as [m' x] eqn:Em. destruct (a_step (m_abs m) o) as [a' e] eqn:Ea. cbn [fst] in Hn.
  destruct S as [-> [HI' [Hobs Hold]]].
  cbn [holds_from]. unfold mon_step. cbn [mo_a mo_cand]. rewrite Ea.
  assert (OK : obs_ok (mkMon (m_abs m) (match o with OGC => a_peers (m_abs m') | _ => cand end)) (m_abs m') e o x = true).
  { destruct o; try (cbn [obs_rel] in Hobs; rewrite <- obs_ok_norm, Hobs, obs_ok_norm; exact Self).
    destruct Hobs as [-> ->]. cbn [obs_ok mo_cand]. apply andb_true_iff. split.
    - apply incl_b_sub. apply peers_sub.
    - apply incl_b_sub. intros z Hz. unfold m_peers in Hz. rewrite in_zdedup in Hz.
      apply in_map_iff in Hz. destruct Hz as [y [<- Hy]]. apply Hcand. now apply in_map. }
  rewrite OK. apply IH; [exact HI'|now rewrite Hn|].
  intros e' He'. apply in_or_app.
  destruct o; try (destruct (Hold e' He') as [Hl|[e0 [H0 <-]]]; [left; now apply live_in_peers|right; now apply Hcand]).
  (* GC *)
  left. cbn [m_step] in Em. injection Em as <- _. apply live_in_peers; [exact He'|now apply GL].
Qed.

Lemma mem_holds_l ops : clock_ok 0 ops = true -> holds (m_trace m_init ops) = true.
Proof.
  intros H. unfold holds, mon_init. change a_init with (m_abs m_init).
  apply mem_holds_from; [exact Inv_init|exact H|intros e []].
Qed.

(* refinement: the model answers as the abstract book, operation by operation; only
   PeersWithAddrs may additionally list peers whose addresses expired since the last GC *)
Definition obs_refines (o : op) (spec model : obs) : Prop :=
  match o with
  | OPeers => exists ls lm, spec = OList ls /\ model = OList lm /\ (forall z, In z ls -> In z lm)
  | _ => norm_obs model = norm_obs spec
  end.

Definition trace_refines (ta tm : list (op * obs)) : Prop :=
  Forall2 (fun ae mx => fst ae = fst mx /\ obs_refines (fst ae) (snd ae) (snd mx)) ta tm.

Lemma mem_refines_from ops : forall m, Inv m -> clock_ok (m_now m) ops = true ->
  trace_refines (a_trace (m_abs m) ops) (m_trace m ops).
Proof.
  induction ops as [|o r IH]; intros m HI Hc; [constructor|].
  destruct (clock_ok_step _ _ _ Hc) as [Ho Hr]. pose proof (step_all m o HI Ho) as S.
  pose proof (m_step_now m o) as Hn. unfold step_ok in S. cbn [m_trace a_trace].
  destruct (m_step m o) as [m' x] eqn:Em. destruct (a_step (m_abs m) o) as [a' e] eqn:Ea. cbn [fst] in Hn.
  destruct S as [-> [HI' [Hobs _]]]. constructor.
  - split; [reflexivity|]. cbn [fst snd]. destruct o; try exact Hobs.
    destruct Hobs as [-> ->]. eexists. eexists. split; [reflexivity|split; [reflexivity|apply peers_sub]].
  - apply IH; [exact HI'|now rewrite Hn].
Qed.

Lemma mem_refines_l ops : clock_ok 0 ops = true -> trace_refines (a_trace a_init ops) (m_trace m_init ops).
Proof. intros H. change a_init with (m_abs m_init). apply mem_refines_from; [exact Inv_init|exact H]. Qed.

(* the state after any history: abstraction = the abstract book's state; heap discipline;
   records only for peers with a stored address; after a GC run everything stored is live *)
Lemma mem_state_l ops : clock_ok 0 ops = true ->
  let m := m_run m_init ops in
  m_abs m = a_run a_init ops /\
  (forall x, In x (m_ents m) -> mheap x = negb (conn (ettl (me x)))) /\
  (forall r, In r (m_recs m) -> m_has_peer (rp r) (m_ents m) = true) /\
  (forall x, In x (m_ents (m_gc m)) -> live (m_now (m_gc m)) (me x) = true).
Proof.
  intros H. cbn zeta. destruct (abs_run ops m_init Inv_init H) as [A HI]. split; [now rewrite <- A|].
  pose proof (gc_all_live _ HI) as GL. destruct HI as [Hf _ Hr _]. split; [exact Hf|split].
  - intros r Hin. rewrite has_peer_erase. now apply Hr.
  - intros x Hx. apply GL. now apply in_map.
Qed.

(* ---- sentences of the property, about A ----------------------------------------- *)
Definition a_ok (s : abook) : Prop :=
  all_live (a_now s) (a_ents s) /\ recs_ok (a_ents s) (a_recs s).

Lemma mk_norm_ok now ents recs : a_ok (mk_norm now ents recs).
Proof.
  unfold mk_norm, normalize, a_ok. cbn. split.
  - intros e He. apply filter_In in He. tauto.
  - intros r Hr. apply filter_In in Hr. tauto.
Qed.

Lemma a_step_ok s o : a_ok s -> a_ok (fst (a_step s o)).
Proof.
  intros H. destruct o; cbn [a_step fst]; try exact H; try apply mk_norm_ok.
  - unfold a_add. destruct (_ <=? _); [exact H|apply mk_norm_ok].
  - destruct H as [Hl Hr]. unfold a_clear, a_ok. cbn. split.
    + intros e He. apply filter_In in He. now apply Hl.
    + intros r Hin. unfold remove_rec in Hin. apply filter_In in Hin. destruct Hin as [Hin Hne].
      apply negb_true_iff, Z.eqb_neq in Hne. specialize (Hr r Hin). unfold has_peer in *.
      rewrite existsb_exists in *. destruct Hr as [x [Hx Hp]]. exists x. split; [|exact Hp].
      apply filter_In. split; [exact Hx|]. apply Z.eqb_eq in Hp. apply negb_true_iff, Z.eqb_neq. congruence.
  - destruct bad; [exact H|]. unfold a_consume.
    destruct (match find_rec p (a_recs s) with Some r => seq <? rseq r | None => false end); cbn [fst]; [exact H|].
    apply mk_norm_ok.
Qed.

Lemma a_run_ok ops : forall s, a_ok s -> a_ok (a_run s ops).
Proof. induction ops as [|o r IH]; intros s H; [exact H|]. cbn [a_run]. apply IH. now apply a_step_ok. Qed.

Lemma a_init_ok : a_ok a_init.
Proof. split; intros ? []. Qed.

(* expired addresses are never returned *)
Lemma expired_never_returned_l ops p a :
  let s := a_run a_init ops in
  In a (a_addrs s p) -> exists e, In e (a_ents s) /\ ep e = p /\ ea e = a /\ a_now s < eexp e.
Proof.
  cbn zeta. intros H. destruct (a_run_ok ops a_init a_init_ok) as [Hl _].
  unfold a_addrs in H. apply in_map_iff in H. destruct H as [e [Ha He]]. apply filter_In in He.
  destruct He as [He Hp]. exists e. repeat split; auto; [now apply Z.eqb_eq|].
  specialize (Hl e He). unfold live in Hl. now apply Z.ltb_lt.
Qed.

(* a record is retrievable only while the peer has a live address *)
Lemma record_needs_live_l ops p :
  let s := a_run a_init ops in a_getrec s p <> 0 -> a_addrs s p <> [].
Proof.
  cbn zeta. intros H. destruct (a_run_ok ops a_init a_init_ok) as [_ Hr].
  unfold a_getrec in H. destruct (find_rec p (a_recs (a_run a_init ops))) as [r|] eqn:F; [|congruence].
  unfold find_rec in F. apply find_some in F. destruct F as [Hin Hp]. apply Z.eqb_eq in Hp.
  specialize (Hr r Hin). rewrite Hp in Hr. unfold has_peer in Hr. apply existsb_exists in Hr.
  destruct Hr as [e [He Hpe]]. unfold a_addrs. intros Z0.
  assert (In e (filter (fun e0 => ep e0 =? p) (a_ents (a_run a_init ops)))) by (apply filter_In; tauto).
  destruct (filter _ _); [contradiction|discriminate].
Qed.

(* adding never shortens: every entry present before is present after with at least its TTL and expiry *)
Lemma add_never_shortens_l s p addrs ttl e :
  a_ok s -> In e (a_ents s) ->
  exists e', In e' (a_ents (a_add s p addrs ttl)) /\ ep e' = ep e /\ ea e' = ea e /\
             ettl e <= ettl e' /\ eexp e <= eexp e'.
Proof.
  intros [Hl _] He. unfold a_add. destruct (ttl <=? 0); [exists e; repeat split; auto; lia|].
  assert (K : forall l l0, (exists e0, In e0 l0 /\ ep e0 = ep e /\ ea e0 = ea e /\ ettl e <= ettl e0 /\ eexp e <= eexp e0) ->
              exists e', In e' (add_list p ttl (a_now s) l l0) /\ ep e' = ep e /\ ea e' = ea e /\
                         ettl e <= ettl e' /\ eexp e <= eexp e').
  { unfold add_list. induction l as [|a t IH]; intros l0 H; cbn [fold_left]; [exact H|]. apply IH.
    destruct H as [e0 [H0 [H1 [H2 [H3 H4]]]]].
    revert H0. induction l0 as [|x r IHr]; intros H0; [destruct H0|]. cbn [upsert_ext].
    destruct (key_is p a x) eqn:Kx.
    - destruct H0 as [->|H0].
      + destruct (key_is_eq _ _ _ Kx) as [Hp Ha]. eexists. split; [now left|]. cbn. repeat split; try congruence; lia.
      + exists e0. split; [now right|tauto].
    - destruct H0 as [->|H0]; [exists e0; split; [now left|tauto]|].
      destruct (IHr H0) as [e' [Hi Hrest]]. exists e'. split; [now right|exact Hrest]. }
  destruct (K (clean_addrs addrs) (a_ents s)) as [e' [Hin [H1 [H2 [H3 H4]]]]];
    [exists e; repeat split; auto; lia|].
  exists e'. split; [|tauto]. unfold mk_norm, normalize. cbn. apply filter_In. split; [exact Hin|].
  specialize (Hl e He). unfold live in *. apply Z.ltb_lt in Hl. apply Z.ltb_lt. lia.
Qed.

(* setting a non-positive TTL removes exactly the named addresses *)
Lemma set_nonpositive_removes_exactly_l s p addrs ttl :
  a_ok s -> ttl <= 0 ->
  a_ents (a_set s p addrs ttl) =
  filter (fun e => negb ((ep e =? p) && zmem (ea e) (clean_addrs addrs))) (a_ents s).
Proof.
  intros [Hl _] Ht. rewrite a_set_unfold.
  assert (F : forall l l0, set_fold_a p ttl (a_now s + ttl) l l0 =
                           filter (fun e => negb ((ep e =? p) && zmem (ea e) l)) l0).
  { unfold set_fold_a, a_set_one. replace (0 <? ttl) with false by (symmetry; apply Z.ltb_ge; lia).
    induction l as [|a t IH]; intros l0; cbn [fold_left].
    - symmetry. apply filter_id. intros e _. cbn. now rewrite andb_false_r.
    - rewrite IH. unfold remove_ent. rewrite filter_filter. apply filter_ext. intros e.
      unfold key_is, zmem. cbn [existsb]. rewrite (Z.eqb_sym (ea e) a).
      destruct (ep e =? p), (a =? ea e), (existsb (Z.eqb (ea e)) t); reflexivity. }
  rewrite F. unfold mk_norm, normalize. cbn. apply filter_id. intros e He. apply filter_In in He. now apply Hl.
Qed.

(* a signed record is accepted only if its seq is not lower than the stored one *)
Lemma record_seq_monotone_l s p seq id addrs ttl r :
  find_rec p (a_recs s) = Some r -> snd (a_consume s p seq id addrs ttl) = true -> rseq r <= seq.
Proof.
  intros F. unfold a_consume. rewrite F. destruct (Z.ltb_spec seq (rseq r)); cbn [snd]; [discriminate|]. intros _. lia.
Qed.

(* ---- the histories that were findings on the unrepaired tree ------------------------- *)
Definition CONN := ConnectedAddrTTL.
Definition s_ (n : Z) : Z := n * SEC.

(* (a) lower seq after expiry, before gc *)
Definition wit_stale_seq : list op :=
  [OConsume 1 5 1 (s_ 120) false [(1, 0)]; OAdvance (s_ 180); OConsume 1 3 2 (s_ 3600) false [(2, 0)]; OAddrs 1].
(* (b) re-adding an expired, uncollected entry keeps its TTL class *)
Definition wit_stale_class : list op :=
  [OAdd 1 (s_ 3600) [(1, 0)]; OAdvance (s_ 7200); OAdd 1 (s_ 120) [(1, 0)]; OUpdate 1 (s_ 3600) 0; OAddrs 1].
(* (c) UpdateAddrs gives an expired entry a new life *)
Definition wit_resurrect : list op :=
  [OAdd 1 (s_ 120) [(1, 0)]; OAdvance (s_ 180); OUpdate 1 (s_ 120) (s_ 3600); OAddrs 1].
(* (d) the record of a peer whose addresses all expired comes back (both stores) *)
Definition wit_lapsed_record : list op :=
  [OConsume 1 5 1 (s_ 120) false [(1, 0)]; OAdvance (s_ 180); OAdd 1 (s_ 3600) [(2, 0)]; OGetRec 1].
(* ds, cache on: removing the last address by name keeps the record object *)
Definition wit_ds_set0 : list op :=
  [OConsume 1 5 1 (s_ 3600) false [(1, 0)]; OSet 1 0 [(1, 0)]; OAdd 1 (s_ 3600) [(2, 0)]; OGetRec 1].
(* record listing an address with /p2p/<self> *)
Definition wit_suffix : list op :=
  [OConsume 1 1 1 (s_ 3600) false [(1, 1); (2, 0)]; OConsume 1 2 2 (s_ 120) false [(3, 0)]; OAddrs 1].
(* ds, cache on, lookahead GC: the cached copy hides the expired datastore record *)
Definition wit_ds_gc : list op :=
  [OAdd 1 (s_ 120) [(1, 0)]; OAdvance (s_ 180); OGetRec 1; OGC; OPeers].

Definition wit_reopen (re : bool) : list op :=
  [OConsume 1 5 1 (s_ 3600) false [(1, 0)]; OSet 1 0 [(1, 0)]] ++ (if re then [OReopen] else []) ++
  [OAdd 1 (s_ 3600) [(2, 0)]; OGetRec 1].

(* the former findings (DESIGN 9 item 5 and relatives; fix commits 39ac082, c312de3, 6eab440):
   every witness history is accepted now, on both models, in every configuration *)
Definition all_wits : list (list op) :=
  [wit_stale_seq; wit_stale_class; wit_resurrect; wit_lapsed_record; wit_ds_set0; wit_suffix; wit_ds_gc;
   wit_reopen false; wit_reopen true].
Definition ds_cfgs : list dbook := [d_init false 0; d_init true 0; d_init false (s_ 30); d_init true (s_ 30)].

Lemma former_findings_absent_l :
  forallb (fun w => holds (m_trace m_init w)) all_wits = true /\
  forallb (fun c => forallb (fun w => holds (d_trace c w)) all_wits) ds_cfgs = true.
Proof. split; vm_compute; reflexivity. Qed.

(* ... and the books agree with each other and with A on them (GC sizes and peer lists included) *)
Lemma witnesses_agree_l :
  forallb (fun w => forallb (fun c =>
     list_eqb (fun x y => obs_conform (norm_obs x) (norm_obs y))
              (map snd (d_trace c w)) (map snd (a_trace a_init w))) ds_cfgs) all_wits = true.
Proof. vm_compute. reflexivity. Qed.

(* the repaired defects stay repaired in the models *)
Definition wit_fixed1 : list op :=
  [OAdd 1 CONN [(1, 0)]; OUpdate 1 CONN (s_ 120); OAdvance (s_ 120); OGC; OPeers].
Definition wit_fixed2 : list op :=
  [OAdd 1 (s_ 3600) [(1, 0); (2, 0); (3, 0)]; OSet 1 0 [(1, 0); (3, 0)]; OAddrs 1].
Lemma fixed_witnesses_l :
  holds (m_trace m_init wit_fixed1) = true /\ holds (d_trace (d_init true 0) wit_fixed1) = true /\
  holds (m_trace m_init wit_fixed2) = true /\ holds (d_trace (d_init false 0) wit_fixed2) = true /\
  snd (last (d_trace (d_init false 0) wit_fixed2) (OPeers, ONone)) = OList [2].
Proof. repeat split; vm_compute; reflexivity. Qed.

(* non-vacuity: a history with clock advances not followed by GC, a negative UpdateAddrs TTL and
   /p2p suffixes in a record satisfies the hypothesis, and exercises every operation *)
Definition full_example : list op :=
  [OConsume 1 2 1 (s_ 900) false [(1, 1); (2, 0)]; OAdd 2 CONN [(3, 1); (4, 2)]; OUpdate 2 CONN (s_ 120);
   OAdvance (s_ 120); OPeers; OAddrs 2; OUpdate 2 (s_ 120) (s_ 3600); OAddrs 2; OGC; OPeers;
   OSet 1 0 [(1, 0)]; OConsume 1 1 2 (s_ 900) false [(3, 0)]; OUpdate 1 (s_ 900) (-1); OGetRec 1;
   OConsume 1 0 3 (s_ 900) false [(3, 0)]; OGetRec 1; OAdvance (s_ 900); OGetRec 1; OClear 1; OReopen].
Lemma full_example_l : clock_ok 0 full_example = true /\
  map snd (m_trace m_init full_example) =
  [OVal 1; ONone; ONone; ONone; OList [1; 2]; OList []; ONone; OList []; OSizes 2 1 2; OList [1];
   ONone; OVal 0; ONone; OVal 0; OVal 1; OVal 3; ONone; OVal 0; ONone; ONone].
Proof. split; vm_compute; reflexivity. Qed.

Lemma monitor_rejects_l :
  holds [(OAdd 1 (s_ 120) [(1, 0)], ONone); (OAdvance (s_ 120), ONone); (OAddrs 1, OList [1])] = false /\
  holds [(OAdd 1 (s_ 120) [(1, 0)], ONone); (OAdvance (s_ 120), ONone); (OGC, OSizes 1 0 0)] = false /\
  holds [(OAdd 1 (s_ 120) [(1, 0)], ONone); (OAdvance (s_ 120), ONone); (OGC, OSizes 0 0 0); (OPeers, OList [1])] = false /\
  holds [(OConsume 1 5 1 (s_ 120) false [(1, 0)], OVal 1); (OConsume 1 4 2 (s_ 120) false [(1, 0)], OVal 1)] = false /\
  holds [(OAdd 1 (s_ 120) [(1, 0)], ONone); (OAdvance (s_ 119), ONone); (OAddrs 1, OList [1])] = true.
Proof. repeat split; vm_compute; reflexivity. Qed.

(* C09 — proofs about the datastore-backed model (repaired tree): the cache is
   transparent.  Whatever the cache holds (size 0, size > 0, dropped by a
   close/reopen), every operation gives the answers, and leaves the datastore,
   of the cache-less book.  Hence: same answers for every cache size, and same
   answers after close and reopen at any point of any history. *)
From Coq Require Import List ZArith Bool Lia.
From Verif Require Import lib.Wire gen.Consts_c09 c09.Abs c09.Model_mem c09.Model_ds c09.Spec.
Import ListNotations.
Local Open Scope Z_scope.

(* ---- association-list algebra -------------------------------------------------- *)
Lemma find_dr_dp p l r : find_dr p l = Some r -> dp r = p.
Proof. unfold find_dr. intros H. apply find_some in H. destruct H as [_ H]. now apply Z.eqb_eq. Qed.

Lemma find_put p x l : find_dr p (put_dr x l) = if dp x =? p then Some x else find_dr p l.
Proof.
  unfold find_dr. induction l as [|r t IH]; cbn [put_dr find].
  - destruct (dp x =? p); reflexivity.
  - destruct (dp r =? dp x) eqn:E; cbn [find].
    + apply Z.eqb_eq in E. rewrite E. destruct (dp x =? p); reflexivity.
    + destruct (dp r =? p) eqn:F.
      * apply Z.eqb_eq in F. subst p. rewrite Z.eqb_sym, E. reflexivity.
      * exact IH.
Qed.

Lemma find_del p q l : find_dr p (del_dr q l) = if q =? p then None else find_dr p l.
Proof.
  unfold find_dr, del_dr. induction l as [|r t IH]; cbn [filter find].
  - destruct (q =? p); reflexivity.
  - destruct (Z.eqb_spec (dp r) q) as [E|E]; cbn [negb find].
    + rewrite IH. subst q. destruct (Z.eqb_spec (dp r) p); reflexivity.
    + rewrite IH. destruct (Z.eqb_spec (dp r) p) as [F|F]; [|reflexivity].
      subst p. destruct (Z.eqb_spec q (dp r)); [congruence|reflexivity].
Qed.

Lemma put_same p x l : find_dr p l = Some x -> put_dr x l = l.
Proof.
  unfold find_dr. induction l as [|r t IH]; cbn [put_dr find]; [discriminate|].
  destruct (dp r =? p) eqn:E.
  - intros H. injection H as ->. now rewrite Z.eqb_refl.
  - intros H. pose proof (find_dr_dp p t x H) as Hx. rewrite Hx, E. f_equal. now apply IH.
Qed.

Lemma find_flush_store p pr st :
  find_dr p (flush_store pr st) =
  if dp pr =? p then (match daddrs pr with [] => None | _ => Some (mkDR (dp pr) (daddrs pr) (dcert pr) false) end)
  else find_dr p st.
Proof.
  unfold flush_store. destruct (daddrs pr) eqn:D.
  - rewrite find_del. reflexivity.
  - rewrite find_put. cbn [dp]. reflexivity.
Qed.

(* ---- clean ----------------------------------------------------------------------- *)
Lemma remove_expired_len l u : (length (remove_expired l u) <= length l)%nat.
Proof. induction l as [|x t IH]; cbn [remove_expired length]; [lia|]. destruct (u <? dexp x); cbn [length]; lia. Qed.

Lemma clean_dp now r : dp (fst (clean now r)) = dp r.
Proof. unfold clean. destruct (negb (ddirty r) && _); [reflexivity|]. destruct (Nat.eqb _ 0); reflexivity. Qed.

Lemma clean_dirty now r : ddirty (fst (clean now r)) = ddirty r.
Proof. unfold clean. destruct (negb (ddirty r) && _); [reflexivity|]. destruct (Nat.eqb _ 0); reflexivity. Qed.

Lemma clean_nochg now r r' : ddirty r = false -> clean now r = (r', false) -> r' = r.
Proof.
  unfold clean. intros Hd. rewrite Hd. cbn [negb andb orb].
  destruct (has_expired r (unix now)) eqn:H; cbn [negb]; [|intros E; now injection E as <-].
  unfold has_expired in H. destruct (daddrs r) as [|x t] eqn:D; [discriminate|].
  cbn [length Nat.eqb]. intros E. injection E as _ E. exfalso.
  apply negb_false_iff, Nat.eqb_eq in E. cbn [remove_expired] in E.
  replace (unix now <? dexp x) with false in E by (symmetry; apply Z.ltb_ge; now apply Z.leb_le).
  pose proof (remove_expired_len t (unix now)). lia.
Qed.

Lemma undirty_id r : ddirty r = false -> undirty r = r.
Proof. destruct r; cbn. now intros ->. Qed.

(* ---- coherence of the cache with the datastore ------------------------------------ *)
Definition cache_ok (cache store : list drec) : Prop :=
  forall p r, find_dr p cache = Some r ->
    ddirty r = false /\
    ((daddrs r = [] /\ dcert r = None /\ find_dr p store = None) \/ find_dr p store = Some r).
Definition store_ok (store : list drec) : Prop :=
  forall p r, find_dr p store = Some r -> ddirty r = false.

Definition coh (s : dbook) : Prop := cache_ok (d_cache s) (d_store s) /\ store_ok (d_store s).

(* s0 is s without its cache (whatever the GC window end of either) *)
Definition S (s s0 : dbook) : Prop :=
  coh s /\ d_now s0 = d_now s /\ d_store s0 = d_store s /\ d_look s0 = d_look s /\ d_keys s0 = d_keys s /\
  d_cache s0 = [] /\ d_cached s0 = false.

Lemma cache_ok_upd C st C' st' p :
  cache_ok C st ->
  (forall q, q <> p -> find_dr q C' = find_dr q C /\ find_dr q st' = find_dr q st) ->
  (forall r, find_dr p C' = Some r ->
     ddirty r = false /\ ((daddrs r = [] /\ dcert r = None /\ find_dr p st' = None) \/ find_dr p st' = Some r)) ->
  cache_ok C' st'.
Proof.
  intros H Ho Hp q r Hq. destruct (Z.eq_dec q p) as [->|Hne]; [now apply Hp|].
  destruct (Ho q Hne) as [E1 E2]. rewrite E1 in Hq. rewrite E2. now apply H.
Qed.

Lemma store_ok_flush pr st : store_ok st -> store_ok (flush_store pr st).
Proof.
  intros H p r. rewrite find_flush_store. destruct (dp pr =? p); [|apply H].
  destruct (daddrs pr); [discriminate|]. intros E. now injection E as <-.
Qed.

Lemma flushed_eta pr x t : daddrs pr = x :: t -> flushed pr = mkDR (dp pr) (daddrs pr) (dcert pr) false.
Proof. intros H. unfold flushed. now rewrite H. Qed.

(* installing the flushed object in the cache and writing it to the store keeps the cache coherent *)
Lemma coh_install C st pr p :
  cache_ok C st -> dp pr = p ->
  cache_ok (put_dr (flushed pr) C) (flush_store pr st).
Proof.
  intros H Hp. apply (cache_ok_upd C st _ _ p H).
  - intros q Hq. rewrite find_put, find_flush_store. cbn [flushed dp]. rewrite Hp.
    destruct (Z.eqb_spec p q); [congruence|tauto].
  - intros r. rewrite find_put, find_flush_store. cbn [flushed dp]. rewrite Hp, Z.eqb_refl.
    intros E. injection E as <-. split; [reflexivity|]. unfold flushed. cbn [daddrs dcert].
    destruct (daddrs pr) eqn:D; [left; tauto|right]. rewrite Hp. reflexivity.
Qed.

(* writing to the store while the cache has no object for p *)
Lemma coh_store_only C st pr p :
  cache_ok C st -> dp pr = p -> find_dr p C = None -> cache_ok C (flush_store pr st).
Proof.
  intros H Hp Hn. apply (cache_ok_upd C st _ _ p H).
  - intros q Hq. rewrite find_flush_store, Hp. destruct (Z.eqb_spec p q); [congruence|tauto].
  - intros r Hr. congruence.
Qed.

Ltac splits := unfold S, coh; repeat match goal with |- _ /\ _ => split end.
Ltac proj_simpl := cbn [set_store set_cache d_now d_store d_cache d_cached d_look d_keys d_wend] in *.

(* ---- loadRecord ------------------------------------------------------------------- *)
Lemma load_sim s s0 p c u :
  S s s0 ->
  match load s p c u, load s0 p c u with
  | (s1, pr, inc), (s1', pr', inc') =>
      S s1 s1' /\ pr' = pr /\ inc' = false /\ dp pr = p /\ ddirty pr = false /\
      d_wend s1 = d_wend s /\ d_wend s1' = d_wend s0 /\
      (if inc then find_dr p (d_cache s1) = Some pr else find_dr p (d_cache s1) = None)
  end.
Proof.
  intros [[HC HS] [Hn [Hst [Hl [Hk [Hc0 Hcd]]]]]].
  unfold load. rewrite Hc0, Hcd, Hn, Hst. cbn [find_dr find]. rewrite andb_false_r.
  destruct (find_dr p (d_cache s)) as [r|] eqn:FC.
  - destruct (HC p r FC) as [Hd Hr]. pose proof (find_dr_dp _ _ _ FC) as Hp.
    destruct Hr as [[Ha [Hce Hno]]|Hsome].
    + rewrite Hno.
      assert (Cl : clean (d_now s) r = (r, false)).
      { unfold clean, has_expired. rewrite Hd, Ha. reflexivity. }
      rewrite Cl. rewrite (put_same p r _ FC).
      assert (Er : mkDR p [] None false = r) by (destruct r; cbn in *; congruence).
      rewrite Er. replace (set_cache s (d_cache s)) with s by (destruct s; reflexivity).
      splits; auto.
    + rewrite Hsome. rewrite (undirty_id r Hd).
      destruct (clean (d_now s) r) as [pr1 chg] eqn:Cl.
      assert (Hp1 : dp pr1 = p) by (pose proof (clean_dp (d_now s) r) as H; rewrite Cl in H; cbn in H; congruence).
      destruct chg.
      * proj_simpl. splits; proj_simpl; auto.
        all: try (now apply (coh_install _ _ _ p)).
        all: try (now apply store_ok_flush).
        all: try (now rewrite Hst).
        all: try (rewrite find_put; cbn [flushed dp]; now rewrite Hp1, Z.eqb_refl).
      * pose proof (clean_nochg _ _ _ Hd Cl) as ->. rewrite (put_same p r _ FC).
        replace (set_cache s (d_cache s)) with s by (destruct s; reflexivity).
        splits; auto.
  - destruct (find_dr p (d_store s)) as [data|] eqn:FS.
    + pose proof (HS p data FS) as Hd. pose proof (find_dr_dp _ _ _ FS) as Hp. rewrite (undirty_id data Hd).
      destruct (clean (d_now s) data) as [pr1 chg] eqn:Cl.
      assert (Hp1 : dp pr1 = p) by (pose proof (clean_dp (d_now s) data) as H; rewrite Cl in H; cbn in H; congruence).
      destruct chg.
      * destruct (c && d_cached s); proj_simpl; splits; proj_simpl; auto.
        all: try (now apply (coh_install _ _ _ p)).
        all: try (now apply store_ok_flush).
        all: try (now rewrite Hst).
        all: try (rewrite find_put; cbn [flushed dp]; now rewrite Hp1, Z.eqb_refl).
        all: try (now apply (coh_store_only _ _ _ p)).
      * pose proof (clean_nochg _ _ _ Hd Cl) as ->.
        destruct (c && d_cached s); proj_simpl; splits; proj_simpl; auto.
        -- apply (cache_ok_upd (d_cache s) (d_store s) _ _ p HC).
           ++ intros q Hq. rewrite find_put, Hp. destruct (Z.eqb_spec p q); [congruence|tauto].
           ++ intros r. rewrite find_put, Hp, Z.eqb_refl. intros E. injection E as <-. tauto.
        -- rewrite find_put. now rewrite Hp, Z.eqb_refl.
    + destruct (c && d_cached s); proj_simpl; splits; proj_simpl; auto.
      * apply (cache_ok_upd (d_cache s) (d_store s) _ _ p HC).
        -- intros q Hq. rewrite find_put. cbn [dp]. destruct (Z.eqb_spec p q); [congruence|tauto].
        -- intros r. rewrite find_put. cbn [dp]. rewrite Z.eqb_refl. intros E. injection E as <-. cbn. tauto.
      * rewrite find_put. cbn [dp]. now rewrite Z.eqb_refl.
Qed.

Lemma flush_sim s1 s1' pr p inc :
  S s1 s1' -> dp pr = p -> (inc = false -> find_dr p (d_cache s1) = None) ->
  S (flush s1 pr inc) (flush s1' pr false).
Proof.
  intros [[HC HS] [Hn [Hst [Hl [Hk [Hc0 Hcd]]]]]] Hp Hinc.
  unfold flush, writeback. destruct inc; proj_simpl; splits; proj_simpl; auto.
  all: try (now apply store_ok_flush).
  all: try (now rewrite Hst).
  - now apply (coh_install _ _ _ p).
  - apply (coh_store_only _ _ _ p); auto.
Qed.

Lemma flush_wend s pr inc : d_wend (flush s pr inc) = d_wend s.
Proof. unfold flush, writeback. destruct inc; reflexivity. Qed.

(* ---- setAddrs / deleteAddrs -------------------------------------------------------- *)
Lemma setaddrs_sim s s0 p addrs ttl mode :
  S s s0 -> S (d_setaddrs s p addrs ttl mode) (d_setaddrs s0 p addrs ttl mode) /\
            d_wend (d_setaddrs s p addrs ttl mode) = d_wend s /\
            d_wend (d_setaddrs s0 p addrs ttl mode) = d_wend s0.
Proof.
  intros HS. unfold d_setaddrs. destruct addrs as [|a t]; [tauto|].
  pose proof (load_sim s s0 p true false HS) as L.
  destruct (load s p true false) as [[s1 pr] inc]. destruct (load s0 p true false) as [[s1' pr'] inc'].
  destruct L as [HS1 [-> [-> [Hp [Hd [W1 [W2 Hinc]]]]]]].
  destruct HS as [_ [Hn _]]. rewrite Hn.
  destruct (fold_left _ (a :: t) (daddrs pr, [])) as [cur fresh].
  destruct (clean (d_now s) _) as [pr2 chg] eqn:Cl.
  assert (Hp2 : dp pr2 = p) by (pose proof (clean_dp (d_now s) (mkDR p (cur ++ fresh) (dcert pr) true)) as H; rewrite Cl in H; exact H).
  split; [|split; rewrite flush_wend; assumption].
  apply (flush_sim _ _ _ p); auto. intros ->. exact Hinc.
Qed.

Lemma deleteaddrs_sim s s0 p del :
  S s s0 -> S (d_deleteaddrs s p del) (d_deleteaddrs s0 p del) /\
            d_wend (d_deleteaddrs s p del) = d_wend s /\ d_wend (d_deleteaddrs s0 p del) = d_wend s0.
Proof.
  intros HS. unfold d_deleteaddrs.
  pose proof (load_sim s s0 p false false HS) as L.
  destruct (load s p false false) as [[s1 pr] inc]. destruct (load s0 p false false) as [[s1' pr'] inc'].
  destruct L as [HS1 [-> [-> [Hp [Hd [W1 [W2 Hinc]]]]]]].
  destruct HS as [_ [Hn _]]. rewrite Hn.
  destruct (clean (d_now s) _) as [pr2 chg] eqn:Cl.
  assert (Hp2 : dp pr2 = p) by (pose proof (clean_dp (d_now s) (mkDR p (delete_in_place (daddrs pr) del) (dcert pr) true)) as H; rewrite Cl in H; exact H).
  split; [|split; rewrite flush_wend; assumption].
  apply (flush_sim _ _ _ p); auto. intros ->. exact Hinc.
Qed.

(* a step of the book: same observation, S preserved *)
Definition sim_step (s s0 : dbook) (o : op) : Prop :=
  S (fst (d_step s o)) (fst (d_step s0 o)) /\ snd (d_step s0 o) = snd (d_step s o).

Lemma sim_add s s0 p ttl l : S s s0 -> sim_step s s0 (OAdd p ttl l).
Proof.
  intros HS. unfold sim_step. cbn [d_step fst snd]. split; [|reflexivity]. unfold d_add.
  destruct (ttl <=? 0); [exact HS|]. now apply setaddrs_sim.
Qed.

Lemma sim_set s s0 p ttl l : S s s0 -> sim_step s s0 (OSet p ttl l).
Proof.
  intros HS. unfold sim_step. cbn [d_step fst snd]. split; [|reflexivity]. unfold d_set.
  destruct (ttl <=? 0); [now apply deleteaddrs_sim|now apply setaddrs_sim].
Qed.

Lemma map_no_hit (f : dent -> bool) (g : dent -> dent) l :
  existsb f l = false -> map (fun e => if f e then g e else e) l = l.
Proof.
  induction l as [|x t IH]; cbn [existsb map]; [reflexivity|]. rewrite orb_false_iff. intros [H1 H2].
  rewrite H1. f_equal. now apply IH.
Qed.

Lemma update_sim s s0 p old new :
  S s s0 -> S (d_update s p old new) (d_update s0 p old new) /\
            d_wend (d_update s p old new) = d_wend s /\ d_wend (d_update s0 p old new) = d_wend s0.
Proof.
  intros HS. unfold d_update.
  pose proof (load_sim s s0 p true false HS) as L.
  destruct (load s p true false) as [[s1 pr] inc]. destruct (load s0 p true false) as [[s1' pr'] inc'].
  destruct L as [HS1 [-> [-> [Hp [Hd [W1 [W2 Hinc]]]]]]].
  destruct HS as [_ [Hn _]]. rewrite Hn.
  set (hit := existsb (fun e => dttl e =? old) (daddrs pr)).
  set (l := map _ (daddrs pr)).
  destruct (clean (d_now s) (mkDR p l (dcert pr) (ddirty pr || hit))) as [pr2 chg] eqn:Cl.
  assert (Hp2 : dp pr2 = p) by (pose proof (clean_dp (d_now s) (mkDR p l (dcert pr) (ddirty pr || hit))) as H; rewrite Cl in H; exact H).
  destruct chg.
  - split; [|split; rewrite flush_wend; assumption].
    apply (flush_sim _ _ _ p); auto. intros ->. exact Hinc.
  - (* nothing matched and nothing expired: the object is untouched *)
    assert (Hh : hit = false).
    { destruct hit eqn:E; [|reflexivity]. exfalso. unfold clean in Cl. rewrite Hd in Cl. cbn [ddirty orb negb andb] in Cl.
      destruct (Nat.eqb _ 0); [discriminate|]. cbn [orb] in Cl. discriminate. }
    assert (El : l = daddrs pr) by (unfold l; apply map_no_hit; exact Hh).
    assert (Epr : mkDR p l (dcert pr) (ddirty pr || hit) = pr).
    { rewrite El, Hh, Hd. destruct pr; cbn in *; congruence. }
    rewrite Epr in Cl. pose proof (clean_nochg _ _ _ Hd Cl) as ->.
    unfold writeback. destruct inc.
    + rewrite (put_same p pr _ Hinc). replace (set_cache s1 (d_cache s1)) with s1 by (destruct s1; reflexivity). tauto.
    + tauto.
Qed.

Lemma sim_update s s0 p old new : S s s0 -> sim_step s s0 (OUpdate p old new).
Proof. intros HS. unfold sim_step. cbn [d_step fst snd]. split; [now apply update_sim|reflexivity]. Qed.

Lemma sim_clear s s0 p : S s s0 -> sim_step s s0 (OClear p).
Proof.
  intros [[HC HS] [Hn [Hst [Hl [Hk [Hc0 Hcd]]]]]]. unfold sim_step. cbn [d_step fst snd]. split; [|reflexivity].
  unfold d_clear. proj_simpl. splits; proj_simpl; auto.
  - apply (cache_ok_upd (d_cache s) (d_store s) _ _ p HC).
    + intros q Hq. rewrite !find_del. destruct (Z.eqb_spec p q); [congruence|tauto].
    + intros r. rewrite find_del, Z.eqb_refl. discriminate.
  - intros q r. rewrite find_del. destruct (p =? q); [discriminate|apply HS].
  - now rewrite Hst.
  - now rewrite Hc0.
Qed.

Lemma sim_addrs s s0 p : S s s0 -> sim_step s s0 (OAddrs p).
Proof.
  intros HS. unfold sim_step. cbn [d_step]. unfold d_addrs.
  pose proof (load_sim s s0 p true true HS) as L.
  destruct (load s p true true) as [[s1 pr] inc]. destruct (load s0 p true true) as [[s1' pr'] inc'].
  destruct L as [HS1 [-> _]]. cbn [fst snd]. tauto.
Qed.

Lemma getrec_sim s s0 p :
  S s s0 ->
  S (fst (d_getrec_full s p)) (fst (d_getrec_full s0 p)) /\ snd (d_getrec_full s0 p) = snd (d_getrec_full s p) /\
  d_wend (fst (d_getrec_full s p)) = d_wend s /\ d_wend (fst (d_getrec_full s0 p)) = d_wend s0.
Proof.
  intros HS. unfold d_getrec_full.
  pose proof (load_sim s s0 p true false HS) as L.
  destruct (load s p true false) as [[s1 pr] inc]. destruct (load s0 p true false) as [[s1' pr'] inc'].
  destruct L as [HS1 [-> [_ [_ [_ [W1 [W2 _]]]]]]]. cbn [fst snd]. tauto.
Qed.

Lemma sim_getrec s s0 p : S s s0 -> sim_step s s0 (OGetRec p).
Proof.
  intros HS. unfold sim_step. cbn [d_step]. destruct (getrec_sim s s0 p HS) as [H1 [H2 _]].
  destruct (d_getrec_full s p) as [s1 r]. destruct (d_getrec_full s0 p) as [s1' r']. cbn [fst snd] in *.
  subst r'. tauto.
Qed.

(* ConsumePeerRecord *)
Lemma supersede_sim s s0 p prev new : S s s0 -> S (d_supersede s p prev new) (d_supersede s0 p prev new).
Proof.
  intros HS. unfold d_supersede. destruct prev as [c|]; [|exact HS].
  pose proof (load_sim s s0 p true false HS) as L3.
  destruct (load s p true false) as [[s3 pr3] inc3]. destruct (load s0 p true false) as [[s3' pr3'] inc3'].
  destruct L3 as [HS3 [-> _]].
  destruct (filter _ (clean_addrs (raddrs c))); [exact HS3|]. now apply deleteaddrs_sim.
Qed.

Lemma store_signed_sim s s0 p rec : S s s0 -> S (d_store_signed s p rec) (d_store_signed s0 p rec).
Proof.
  intros HS. unfold d_store_signed.
  pose proof (load_sim s s0 p true false HS) as L6.
  destruct (load s p true false) as [[s6 pr6] inc6]. destruct (load s0 p true false) as [[s6' pr6'] inc6'].
  destruct L6 as [HS6 [-> [-> [Hp6 [_ [_ [_ Hinc6]]]]]]].
  apply (flush_sim _ _ _ p); auto. intros ->. exact Hinc6.
Qed.

Lemma consume_sim s s0 p seq id addrs ttl :
  S s s0 ->
  S (fst (d_consume s p seq id addrs ttl)) (fst (d_consume s0 p seq id addrs ttl)) /\
  snd (d_consume s0 p seq id addrs ttl) = snd (d_consume s p seq id addrs ttl).
Proof.
  intros HS. unfold d_consume.
  pose proof (load_sim s s0 p true false HS) as L.
  destruct (load s p true false) as [[s1 pr] inc]. destruct (load s0 p true false) as [[s1' pr'] inc'].
  destruct L as [HS1 [-> _]].
  destruct (seq <? match daddrs pr, dcert pr with _ :: _, Some c => rseq c | _, _ => 0 end); [cbn [fst snd]; tauto|].
  destruct (getrec_sim s1 s1' p HS1) as [HS2 [Hprev _]].
  destruct (d_getrec_full s1 p) as [s2 prev]. destruct (d_getrec_full s1' p) as [s2' prev']. cbn [fst snd] in *. subst prev'.
  split; [|reflexivity]. apply store_signed_sim. apply setaddrs_sim. now apply supersede_sim.
Qed.

Lemma sim_consume s s0 p seq id ttl bad l : S s s0 -> sim_step s s0 (OConsume p seq id ttl bad l).
Proof.
  intros HS. unfold sim_step. cbn [d_step]. destruct bad; [cbn [fst snd]; tauto|].
  destruct (consume_sim s s0 p seq id l ttl HS) as [H1 H2].
  destruct (d_consume s p seq id l ttl) as [s1 r]. destruct (d_consume s0 p seq id l ttl) as [s1' r']. cbn [fst snd] in *.
  subst r'. tauto.
Qed.

Lemma sim_peers s s0 : S s s0 -> sim_step s s0 OPeers.
Proof.
  intros HS. unfold sim_step. cbn [d_step fst snd]. split; [exact HS|]. unfold d_peers.
  destruct HS as [_ [_ [-> _]]]. reflexivity.
Qed.

Lemma sim_advance s s0 d : S s s0 -> sim_step s s0 (OAdvance d).
Proof.
  intros [[HC HS] [Hn [Hst [Hl [Hk [Hc0 Hcd]]]]]]. unfold sim_step. cbn [d_step fst snd]. split; [|reflexivity].
  splits; proj_simpl; auto. now rewrite Hn.
Qed.

(* close + reopen: the reopened book is again "the book without its cache" *)
Lemma sim_reopen s s0 : S s s0 -> sim_step s s0 OReopen.
Proof.
  intros [[HC HS] [Hn [Hst [Hl [Hk [Hc0 Hcd]]]]]]. unfold sim_step. cbn [d_step fst snd]. split; [|reflexivity].
  unfold d_reopen. splits; proj_simpl; auto. intros p r. cbn. discriminate.
Qed.

(* ---- GC ------------------------------------------------------------------------------ *)
Definition purge_store_step (now : Z) (st : dbook) (r : drec) : dbook :=
  let '(r1, chg) := clean now (undirty r) in
  if chg then set_cache (set_store st (flush_store r1 (d_store st))) (del_dr (dp r) (d_cache st)) else st.

Lemma purge_store_unfold s : d_purge_store s = fold_left (purge_store_step (d_now s)) (d_store s) s.
Proof. reflexivity. Qed.

Lemma purge_store_step_sim now st st' r : S st st' -> S (purge_store_step now st r) (purge_store_step now st' r).
Proof.
  intros [[HC HS] [Hn [Hst [Hl [Hk [Hc0 Hcd]]]]]]. unfold purge_store_step.
  destruct (clean now (undirty r)) as [r1 chg] eqn:Cl.
  assert (Hp1 : dp r1 = dp r) by (pose proof (clean_dp now (undirty r)) as H; rewrite Cl in H; exact H).
  destruct chg; [|splits; auto]. proj_simpl. splits; proj_simpl; auto.
  - apply (cache_ok_upd (d_cache st) (d_store st) _ _ (dp r) HC).
    + intros q Hq. rewrite find_del, find_flush_store, Hp1. destruct (Z.eqb_spec (dp r) q); [congruence|tauto].
    + intros x. rewrite find_del, Z.eqb_refl. discriminate.
  - now apply store_ok_flush.
  - now rewrite Hst.
  - now rewrite Hc0.
Qed.

Lemma fold_sim (f : dbook -> drec -> dbook) l : (forall st st' r, S st st' -> S (f st r) (f st' r)) ->
  forall st st', S st st' -> S (fold_left f l st) (fold_left f l st').
Proof. intros H. induction l as [|r t IH]; intros st st' HS; cbn [fold_left]; [exact HS|]. apply IH. now apply H. Qed.

Lemma purge_store_sim s s0 : S s s0 -> S (d_purge_store s) (d_purge_store s0).
Proof.
  intros HS. rewrite !purge_store_unfold. pose proof HS as [_ [Hn [Hst _]]]. rewrite Hn, Hst.
  apply fold_sim; [apply purge_store_step_sim|exact HS].
Qed.

(* populateLookahead *)
Definition pop_step (s : dbook) (until : Z) (ks : list (Z * Z)) (p : Z) : list (Z * Z) :=
  match match find_dr p (d_cache s) with Some c => Some c | None => find_dr p (d_store s) end with
  | Some r => match daddrs r with
              | e :: _ => if dexp e <=? until then put_key (dexp e, p) ks else ks
              | [] => ks
              end
  | None => ks
  end.

Lemma populate_unfold s :
  d_populate s = set_keys s (fold_left (pop_step s (unix (d_now s + d_look s))) (map dp (d_store s)) (d_keys s))
                          (unix (d_now s + d_look s)).
Proof. reflexivity. Qed.

Lemma pop_step_sim s s0 until ks p : S s s0 -> pop_step s0 until ks p = pop_step s until ks p.
Proof.
  intros [[HC HS] [Hn [Hst [Hl [Hk [Hc0 Hcd]]]]]]. unfold pop_step. rewrite Hc0, Hst. cbn [find_dr find].
  destruct (find_dr p (d_cache s)) as [c|] eqn:FC; [|reflexivity].
  destruct (HC p c FC) as [_ [[Ha [_ Hno]]|Hsome]].
  - rewrite Hno, Ha. reflexivity.
  - now rewrite Hsome.
Qed.

Lemma populate_sim s s0 : S s s0 -> S (d_populate s) (d_populate s0) /\ d_wend (d_populate s0) = d_wend (d_populate s).
Proof.
  intros HS. pose proof HS as [[HC HSt] [Hn [Hst [Hl [Hk [Hc0 Hcd]]]]]]. rewrite !populate_unfold.
  rewrite Hn, Hl, Hst, Hk.
  assert (E : fold_left (pop_step s0 (unix (d_now s + d_look s))) (map dp (d_store s)) (d_keys s) =
              fold_left (pop_step s (unix (d_now s + d_look s))) (map dp (d_store s)) (d_keys s)).
  { generalize (d_keys s). induction (map dp (d_store s)) as [|p t IH]; intros ks; cbn [fold_left]; [reflexivity|].
    rewrite (pop_step_sim s s0 _ ks p HS). apply IH. }
  rewrite E. split; [|reflexivity]. unfold set_keys. splits; proj_simpl; auto.
Qed.

(* purgeLookahead *)
Definition look_step (now : Z) (st : dbook) (k : Z * Z) : dbook :=
  if unix now <? fst k then st
  else
    let p := snd k in
    let resched (ar : drec) (st' : dbook) :=
      let ks := del_key k (d_keys st') in
      set_keys st' (match daddrs ar with
                    | e :: _ => if dexp e <=? d_wend st' then put_key (dexp e, p) ks else ks
                    | [] => ks
                    end) (d_wend st') in
    match find_dr p (d_cache st) with
    | Some c =>
        let '(c1, chg) := clean now c in
        let st1 := if chg
                   then set_cache (set_store st (flush_store c1 (d_store st))) (put_dr (flushed c1) (d_cache st))
                   else set_cache st (put_dr c1 (d_cache st)) in
        resched c1 st1
    | None =>
        match find_dr p (d_store st) with
        | None => set_keys st (del_key k (d_keys st)) (d_wend st)
        | Some r =>
            let '(r1, chg) := clean now (undirty r) in
            let st1 := if chg then set_store st (flush_store r1 (d_store st)) else st in
            resched r1 st1
        end
    end.

Lemma purge_look_unfold s : d_purge_look s = fold_left (look_step (d_now s)) (d_keys s) s.
Proof. reflexivity. Qed.

Definition Sw (s s0 : dbook) : Prop := S s s0 /\ d_wend s0 = d_wend s.

Lemma look_step_sim now st st' k : Sw st st' -> Sw (look_step now st k) (look_step now st' k).
Proof.
  intros [HSS Hw]. pose proof HSS as [[HC HS] [Hn [Hst [Hl [Hk [Hc0 Hcd]]]]]]. unfold look_step.
  destruct (unix now <? fst k); [split; assumption|]. cbn zeta.
  rewrite Hc0, Hst, Hk, Hw. cbn [find_dr find]. set (p := snd k).
  destruct (find_dr p (d_cache st)) as [c|] eqn:FC.
  - destruct (HC p c FC) as [Hd Hr]. pose proof (find_dr_dp _ _ _ FC) as Hp.
    destruct Hr as [[Ha [Hce Hno]]|Hsome].
    + assert (Cl : clean now c = (c, false)) by (unfold clean, has_expired; rewrite Hd, Ha; reflexivity).
      fold (find_dr p (d_store st)). rewrite Hno, Cl, Ha. rewrite (put_same p c _ FC).
      unfold Sw, set_keys. proj_simpl. splits; proj_simpl; auto.
    + fold (find_dr p (d_store st)). rewrite Hsome, (undirty_id c Hd).
      destruct (clean now c) as [c1 chg] eqn:Cl.
      assert (Hp1 : dp c1 = p) by (pose proof (clean_dp now c) as H; rewrite Cl in H; cbn in H; congruence).
      destruct chg.
      * unfold Sw, set_keys. proj_simpl. rewrite Hw, Hk. splits; proj_simpl; auto.
        all: try (now apply (coh_install _ _ _ p)).
        all: try (now apply store_ok_flush).
        all: try (now rewrite Hst).
      * pose proof (clean_nochg _ _ _ Hd Cl) as ->. rewrite (put_same p c _ FC).
        unfold Sw, set_keys. proj_simpl. rewrite Hw, Hk. splits; proj_simpl; auto.
  - fold (find_dr p (d_store st)). destruct (find_dr p (d_store st)) as [r|] eqn:FS.
    + pose proof (find_dr_dp _ _ _ FS) as Hp.
      destruct (clean now (undirty r)) as [r1 chg] eqn:Cl.
      assert (Hp1 : dp r1 = p) by (pose proof (clean_dp now (undirty r)) as H; rewrite Cl in H; cbn in H; congruence).
      destruct chg; unfold Sw, set_keys; proj_simpl; rewrite ?Hw, ?Hk; splits; proj_simpl; auto.
      all: try (now apply (coh_store_only _ _ _ p)).
      all: try (now apply store_ok_flush).
      all: try (now rewrite Hst).
    + unfold Sw, set_keys. proj_simpl. splits; proj_simpl; auto.
Qed.

Lemma purge_look_sim s s0 : Sw s s0 -> S (d_purge_look s) (d_purge_look s0).
Proof.
  intros HS. rewrite !purge_look_unfold. pose proof HS as [[_ [Hn [_ [_ [Hk _]]]]] _]. rewrite Hn, Hk.
  assert (G : forall l st st', Sw st st' -> Sw (fold_left (look_step (d_now s)) l st) (fold_left (look_step (d_now s)) l st')).
  { induction l as [|k t IH]; intros st st' H; cbn [fold_left]; [exact H|]. apply IH. now apply look_step_sim. }
  apply (G (d_keys s) s s0 HS).
Qed.

Lemma gc_sim s s0 : S s s0 -> S (d_gc s) (d_gc s0).
Proof.
  intros HS. unfold d_gc. pose proof HS as [_ [_ [_ [Hl _]]]]. rewrite Hl.
  destruct (d_look s =? 0); [now apply purge_store_sim|].
  apply purge_look_sim. destruct (populate_sim s s0 HS). split; assumption.
Qed.

Lemma sim_gc s s0 : S s s0 -> sim_step s s0 OGC.
Proof.
  intros HS. unfold sim_step. cbn [d_step fst snd]. pose proof (gc_sim s s0 HS) as G. split; [exact G|].
  destruct G as [_ [_ [Hst _]]]. unfold d_stored, d_nrecs. now rewrite Hst.
Qed.

(* ---- every operation, every history ------------------------------------------------------ *)
Lemma sim_all s s0 o : S s s0 -> sim_step s s0 o.
Proof.
  intros HS. destruct o.
  - now apply sim_add.
  - now apply sim_set.
  - now apply sim_update.
  - now apply sim_clear.
  - now apply sim_consume.
  - now apply sim_addrs.
  - now apply sim_peers.
  - now apply sim_getrec.
  - now apply sim_advance.
  - now apply sim_gc.
  - now apply sim_reopen.
Qed.

Lemma trace_sim ops : forall s s0, S s s0 -> map snd (d_trace s ops) = map snd (d_trace s0 ops).
Proof.
  induction ops as [|o r IH]; intros s s0 HS; [reflexivity|]. cbn [d_trace].
  destruct (sim_all s s0 o HS) as [HS' Ho].
  destruct (d_step s o) as [s' x]. destruct (d_step s0 o) as [s0' x0]. cbn [fst snd] in *. subst x0.
  cbn [map snd]. f_equal. now apply IH.
Qed.

Lemma run_sim ops : forall s s0, S s s0 -> S (d_run s ops) (d_run s0 ops).
Proof.
  induction ops as [|o r IH]; intros s s0 HS; [exact HS|]. cbn [d_run]. apply IH. now apply sim_all.
Qed.

Lemma S_init cached look : S (d_init cached look) (d_init false look).
Proof. unfold d_init. splits; proj_simpl; auto; intros p r; cbn; discriminate. Qed.

Lemma d_run_app a b : forall st, d_run st (a ++ b) = d_run (d_run st a) b.
Proof. induction a as [|o r IH]; intros st; cbn [app d_run]; [reflexivity|apply IH]. Qed.

(* cache size 0 and cache size > 0 give the same answers on every history *)
Lemma ds_cache_transparent_l look ops :
  map snd (d_trace (d_init true look) ops) = map snd (d_trace (d_init false look) ops).
Proof. apply trace_sim. apply S_init. Qed.

(* after every prefix of every history, closing and reopening on the same datastore gives the
   same answers to every continuation *)
Lemma ds_reopen_equiv_l cached look pre post :
  map snd (d_trace (d_run (d_init cached look) (pre ++ [OReopen])) post) =
  map snd (d_trace (d_run (d_init cached look) pre) post).
Proof.
  pose proof (run_sim pre _ _ (S_init cached look)) as HS.
  set (s := d_run (d_init cached look) pre) in *. set (s0 := d_run (d_init false look) pre) in *.
  assert (E : d_run (d_init cached look) (pre ++ [OReopen]) = d_reopen s).
  { unfold s. rewrite d_run_app. reflexivity. }
  rewrite E. rewrite (trace_sim post s s0 HS). apply trace_sim.
  destruct HS as [[HC HS] [Hn [Hst [Hl [Hk [Hc0 Hcd]]]]]]. unfold d_reopen. splits; proj_simpl; auto.
  intros p r. cbn. discriminate.
Qed.

(* ---- expired addresses are never returned (datastore-backed model) ------------------------ *)
(* clean() looks at the first entry only and cuts a prefix: sound because every record that is
   not dirty is sorted by expiry.  That invariant is proved for the cache-less book over every
   history and transferred to every cache by [trace_sim]. *)
Fixpoint sorted_exp (l : list dent) : Prop :=
  match l with
  | [] => True
  | x :: t => (forall y, In y t -> dexp x <= dexp y) /\ sorted_exp t
  end.

Lemma ins_exp_in x l y : In y (ins_exp x l) <-> y = x \/ In y l.
Proof.
  induction l as [|z t IH]; cbn [ins_exp In]; [intuition congruence|].
  destruct (dexp z <? dexp x); cbn [In]; [rewrite IH|]; intuition congruence.
Qed.

Lemma ins_exp_sorted x l : sorted_exp l -> sorted_exp (ins_exp x l).
Proof.
  induction l as [|z t IH]; cbn [ins_exp sorted_exp].
  - intros _. split; [intros y []|exact I].
  - intros [H1 H2]. destruct (Z.ltb_spec (dexp z) (dexp x)); cbn [sorted_exp].
    + split; [|now apply IH]. intros y Hy. apply ins_exp_in in Hy. destruct Hy as [->|Hy]; [lia|now apply H1].
    + split; [|split; assumption]. intros y [<-|Hy]; [lia|]. specialize (H1 y Hy). lia.
Qed.

Lemma sort_exp_sorted l : sorted_exp (sort_exp l).
Proof. unfold sort_exp. induction l as [|x t IH]; cbn [fold_right]; [exact I|now apply ins_exp_sorted]. Qed.

Lemma remove_expired_live l u : sorted_exp l ->
  sorted_exp (remove_expired l u) /\ forall e, In e (remove_expired l u) -> u < dexp e.
Proof.
  induction l as [|x t IH]; cbn [remove_expired sorted_exp]; [intros _; split; [exact I|intros e []]|].
  intros [H1 H2]. destruct (Z.ltb_spec u (dexp x)).
  - split; [cbn [sorted_exp]; tauto|]. intros e [<-|He]; [lia|]. specialize (H1 e He). lia.
  - now apply IH.
Qed.

Lemma sorted_short (l : list dent) : (length l <= 1)%nat -> sorted_exp l.
Proof.
  destruct l as [|x [|y t]]; cbn [length sorted_exp]; intros H.
  - exact I.
  - split; [intros y []|exact I].
  - lia.
Qed.

(* the record clean hands out: sorted, and nothing in it has expired *)
Lemma clean_live now r : (ddirty r = false -> sorted_exp (daddrs r)) ->
  let r1 := fst (clean now r) in
  sorted_exp (daddrs r1) /\ forall e, In e (daddrs r1) -> unix now < dexp e.
Proof.
  intros Hs. cbn zeta. unfold clean.
  destruct (negb (ddirty r) && negb (has_expired r (unix now))) eqn:C.
  - apply andb_true_iff in C. destruct C as [C1 C2]. apply negb_true_iff in C1, C2. cbn [fst].
    specialize (Hs C1). split; [exact Hs|]. unfold has_expired in C2.
    destruct (daddrs r) as [|x t]; [intros e []|]. apply Z.leb_gt in C2. destruct Hs as [H1 _].
    intros e [<-|He]; [lia|]. specialize (H1 e He). lia.
  - destruct (Nat.eqb (length (daddrs r)) 0) eqn:N.
    + cbn [fst daddrs]. apply Nat.eqb_eq in N. destruct (daddrs r); [split; [exact I|intros e []]|discriminate].
    + cbn [fst daddrs]. apply remove_expired_live.
      destruct (ddirty r) eqn:D; cbn [andb].
      * destruct (Nat.ltb_spec 1 (length (daddrs r))); [apply sort_exp_sorted|apply sorted_short; lia].
      * now apply Hs.
Qed.

Definition all_sorted (st : list drec) : Prop := forall r, In r st -> sorted_exp (daddrs r).

Definition inv0 (s : dbook) : Prop := d_cache s = [] /\ d_cached s = false /\ all_sorted (d_store s).

Lemma in_put_dr x l r : In r (put_dr x l) -> r = x \/ In r l.
Proof.
  induction l as [|y t IH]; cbn [put_dr In]; [intuition congruence|].
  destruct (dp y =? dp x); cbn [In]; [intuition congruence|]. intros [H|H]; [tauto|]. destruct (IH H); tauto.
Qed.

Lemma sorted_flush_store pr st : sorted_exp (daddrs pr) -> all_sorted st -> all_sorted (flush_store pr st).
Proof.
  intros Hs H r. unfold flush_store. destruct (daddrs pr) eqn:D.
  - unfold del_dr. intros Hr. apply filter_In in Hr. now apply H.
  - intros Hr. apply in_put_dr in Hr. destruct Hr as [->|Hr]; [cbn [daddrs]; rewrite ?D; exact Hs|now apply H].
Qed.

Lemma find_in p st r : find_dr p st = Some r -> In r st.
Proof. unfold find_dr. intros H. now apply find_some in H. Qed.

Lemma load0 s p c u : inv0 s ->
  match load s p c u with
  | (s1, pr, inc) => inv0 s1 /\ inc = false /\ d_now s1 = d_now s /\ sorted_exp (daddrs pr) /\
                     forall e, In e (daddrs pr) -> unix (d_now s) < dexp e
  end.
Proof.
  intros [Hc [Hcd Hs]]. unfold load. rewrite Hc, Hcd. cbn [find_dr find]. rewrite andb_false_r.
  fold (find_dr p (d_store s)). destruct (find_dr p (d_store s)) as [data|] eqn:F.
  - pose proof (clean_live (d_now s) (undirty data) (fun _ => Hs data (find_in _ _ _ F))) as [L1 L2]. cbn zeta in *.
    destruct (clean (d_now s) (undirty data)) as [pr1 chg]. cbn [fst] in *. destruct chg.
    + unfold flushed. cbn [daddrs]. splits; proj_simpl; auto. unfold inv0. proj_simpl. splits; auto.
      now apply sorted_flush_store.
    + splits; auto. unfold inv0. tauto.
  - cbn [daddrs]. splits; auto; [unfold inv0; tauto|exact I|intros e []].
Qed.

Lemma inv0_flush s pr : inv0 s -> sorted_exp (daddrs pr) -> inv0 (flush s pr false).
Proof.
  intros [Hc [Hcd Hs]] Hp. unfold flush, writeback, inv0. proj_simpl. splits; auto. now apply sorted_flush_store.
Qed.

Lemma inv0_clean_flush s s1 p l cert :
  inv0 s1 -> inv0 (flush s1 (fst (clean (d_now s) (mkDR p l cert true))) false).
Proof.
  intros H. apply inv0_flush; [exact H|]. apply (clean_live (d_now s) (mkDR p l cert true)). cbn. discriminate.
Qed.

Lemma inv0_setaddrs s p addrs ttl mode : inv0 s -> inv0 (d_setaddrs s p addrs ttl mode).
Proof.
  intros H. unfold d_setaddrs. destruct addrs as [|a t]; [exact H|].
  pose proof (load0 s p true false H) as L. destruct (load s p true false) as [[s1 pr] inc].
  destruct L as [H1 [-> _]]. destruct (fold_left _ (a :: t) (daddrs pr, [])) as [cur fresh].
  pose proof (inv0_clean_flush s s1 p (cur ++ fresh) (dcert pr) H1) as G.
  destruct (clean (d_now s) _) as [pr2 chg]. exact G.
Qed.

Lemma inv0_deleteaddrs s p del : inv0 s -> inv0 (d_deleteaddrs s p del).
Proof.
  intros H. unfold d_deleteaddrs.
  pose proof (load0 s p false false H) as L. destruct (load s p false false) as [[s1 pr] inc].
  destruct L as [H1 [-> _]].
  pose proof (inv0_clean_flush s s1 p (delete_in_place (daddrs pr) del) (dcert pr) H1) as G.
  destruct (clean (d_now s) _) as [pr2 chg]. exact G.
Qed.

Lemma inv0_purge_store s : inv0 s -> inv0 (d_purge_store s).
Proof.
  intros H. rewrite purge_store_unfold. pose proof H as [_ [_ Hs0]].
  assert (G : forall l st, all_sorted l -> inv0 st -> inv0 (fold_left (purge_store_step (d_now s)) l st)).
  { induction l as [|r t IH]; intros st Hl Hst; cbn [fold_left]; [exact Hst|].
    apply IH; [intros x Hx; apply Hl; now right|].
    unfold purge_store_step. pose proof (clean_live (d_now s) (undirty r) (fun _ => Hl r (or_introl eq_refl))) as CL.
    destruct (clean (d_now s) (undirty r)) as [r1 chg]. cbn [fst] in CL. destruct chg; [|exact Hst].
    destruct Hst as [Hc [Hcd Hs]]. unfold inv0. proj_simpl. rewrite Hc. splits; auto.
    apply sorted_flush_store; [apply CL|exact Hs]. }
  now apply G.
Qed.

Lemma inv0_purge_look s : inv0 s -> inv0 (d_purge_look s).
Proof.
  intros H. rewrite purge_look_unfold.
  assert (G : forall l st, inv0 st -> inv0 (fold_left (look_step (d_now s)) l st)).
  { induction l as [|k t IH]; intros st Hst; cbn [fold_left]; [exact Hst|]. apply IH.
    unfold look_step. destruct (unix (d_now s) <? fst k); [exact Hst|]. cbn zeta.
    pose proof Hst as [Hc [Hcd Hs]]. rewrite Hc. cbn [find_dr find]. fold (find_dr (snd k) (d_store st)).
    destruct (find_dr (snd k) (d_store st)) as [r|] eqn:F.
    - pose proof (clean_live (d_now s) (undirty r) (fun _ => Hs r (find_in _ _ _ F))) as CL.
      destruct (clean (d_now s) (undirty r)) as [r1 chg]. cbn [fst] in CL.
      destruct chg; unfold inv0, set_keys; proj_simpl; splits; auto.
      apply sorted_flush_store; [apply CL|exact Hs].
    - unfold inv0, set_keys. proj_simpl. tauto. }
  now apply G.
Qed.

Lemma inv0_step s o : inv0 s -> inv0 (fst (d_step s o)).
Proof.
  intros H. destruct o; cbn [d_step fst].
  - unfold d_add. destruct (_ <=? _); [exact H|now apply inv0_setaddrs].
  - unfold d_set. destruct (_ <=? _); [now apply inv0_deleteaddrs|now apply inv0_setaddrs].
  - unfold d_update. pose proof (load0 s p true false H) as L. destruct (load s p true false) as [[s1 pr] inc].
    destruct L as [H1 [-> [_ [Hs _]]]].
    set (r0 := mkDR p _ (dcert pr) _).
    pose proof (clean_live (d_now s) r0) as CL. destruct (clean (d_now s) r0) as [pr2 chg] eqn:Cl. cbn [fst] in CL.
    destruct chg; [|exact H1]. apply inv0_flush; [exact H1|]. apply CL.
    unfold r0. cbn [ddirty daddrs]. intros Hd. apply orb_false_iff in Hd. destruct Hd as [_ Hh].
    rewrite map_no_hit; [exact Hs|exact Hh].
  - destruct H as [Hc [Hcd Hs]]. unfold d_clear, inv0. proj_simpl. rewrite Hc. splits; auto.
    intros r Hr. unfold del_dr in Hr. apply filter_In in Hr. now apply Hs.
  - destruct bad; [exact H|]. unfold d_consume.
    pose proof (load0 s p true false H) as L. destruct (load s p true false) as [[s1 pr] inc].
    destruct L as [H1 _]. destruct (seq <? _); [exact H1|].
    unfold d_getrec_full. pose proof (load0 s1 p true false H1) as L2. destruct (load s1 p true false) as [[s2 pr2] inc2].
    destruct L2 as [H2 _]. cbn [fst].
    set (prev := match dcert pr2, daddrs pr2 with Some c, _ :: _ => Some c | _, _ => None end).
    assert (H4 : inv0 (d_supersede s2 p prev (clean_addrs addrs))).
    { unfold d_supersede. destruct prev; [|exact H2].
      pose proof (load0 s2 p true false H2) as L3. destruct (load s2 p true false) as [[s3 pr3] inc3].
      destruct L3 as [H3 _]. destruct (filter _ _); [exact H3|now apply inv0_deleteaddrs]. }
    pose proof (inv0_setaddrs _ p (clean_addrs addrs) ttl TExtend H4) as H5.
    unfold d_store_signed. pose proof (load0 _ p true false H5) as L6.
    destruct (load (d_setaddrs _ p (clean_addrs addrs) ttl TExtend) p true false) as [[s6 pr6] inc6].
    destruct L6 as [H6 [-> [_ [Hs6 _]]]]. now apply inv0_flush.
  - unfold d_addrs. pose proof (load0 s p true true H) as L. destruct (load s p true true) as [[s1 pr] inc]. cbn [fst]. tauto.
  - exact H.
  - unfold d_getrec_full. pose proof (load0 s p true false H) as L. destruct (load s p true false) as [[s1 pr] inc]. cbn [fst]. tauto.
  - destruct H as [Hc [Hcd Hs]]. unfold inv0. proj_simpl. tauto.
  - unfold d_gc. destruct (d_look s =? 0); [now apply inv0_purge_store|].
    apply inv0_purge_look. destruct H as [Hc [Hcd Hs]]. rewrite populate_unfold. unfold inv0, set_keys. proj_simpl. tauto.
  - destruct H as [Hc [Hcd Hs]]. unfold d_reopen, inv0. proj_simpl. tauto.
Qed.

Lemma inv0_run ops : forall s, inv0 s -> inv0 (d_run s ops).
Proof. induction ops as [|o r IH]; intros s H; [exact H|]. cbn [d_run]. apply IH. now apply inv0_step. Qed.

(* what Addrs hands out after any history of the cache-less book has not expired *)
Lemma ds0_addrs_live look ops p :
  let s := d_run (d_init false look) ops in
  forall e, In e (daddrs (snd (fst (load s p true true)))) -> unix (d_now s) < dexp e.
Proof.
  cbn zeta. assert (H0 : inv0 (d_init false look)) by (unfold inv0, d_init; cbn; splits; auto; intros r []).
  pose proof (inv0_run ops _ H0) as H. pose proof (load0 _ p true true H) as L.
  destruct (load _ p true true) as [[s1 pr] inc]. cbn [fst snd]. tauto.
Qed.

(* C05 — the DialPeer monitor on composite-model traces, clause 3: while any caller waits each
   address is handed to a transport at most once.  An address in the monitor's list belongs to a
   job of the live generation that has left the limiter's queues for good; the job the model
   starts is still in them. *)
From Coq Require Import List ZArith Bool Lia Relations Permutation.
From Verif Require Import lib.Wire c05.ModelLimiter c05.Proofs_Limiter c05.SpecLimiter c05.Proofs_LimiterMon c05.Proofs_LimiterOnce c05.Proofs_LimiterAll.
From Verif Require Import c05.ModelWorker c05.Proofs_WorkerMon c05.ModelSync c05.ModelComposite.
From Verif Require Import c05.Proofs_Composite c05.Proofs_Composite2 c05.Proofs_Composite3 c05.Proofs_Composite4.
From Verif Require Import c05.SpecWorker c05.SpecDialPeer c05.SpecComposite c05.Proofs_CompositeMon c05.Proofs_CompositeH.
From Verif Require Import c05.Proofs_CompositeMon2 c05.Proofs_CompositeJG c05.Proofs_CompositeHI.
Import ListNotations.
Local Open Scope Z_scope.

(* ---- records of jobs persist -------------------------------------------------------------------- *)
Lemma adds_jrec : forall g p news s n, n < c_next s -> jget n (fold_left (add_addr_job g p) news s) = jget n s.
Proof.
  induction news as [|a r IH]; intros s n Hn; cbn [fold_left]; [reflexivity|].
  rewrite IH by (unfold add_addr_job; cprj; lia). unfold add_addr_job, jget. cprj. rewrite aget_aput.
  destruct (c_next s =? n) eqn:E; [apply Z.eqb_eq in E; lia | reflexivity].
Qed.

Lemma cstep_jrec : forall s l n jr, n < c_next s -> jget n s = Some jr ->
  exists jr', jget n (cstep s l) = Some jr' /\ jr_addr jr' = jr_addr jr /\ jr_gen jr' = jr_gen jr.
Proof.
  intros s l n jr Hn Hj.
  assert (Same : forall s', c_jobs s' = c_jobs s -> exists jr', jget n s' = Some jr' /\ jr_addr jr' = jr_addr jr /\ jr_gen jr' = jr_gen jr).
  { intros s' E. exists jr. unfold jget in *. rewrite E. auto. }
  destruct l; cbn [cstep].
  - destruct (cget c s); [apply Same; reflexivity|]. destruct best; [apply Same; reflexivity|].
    destruct (p_active _); cprj; [destruct (aget None p _)|]; apply Same; reflexivity.
  - destruct (cget c s) as [r|]; [|apply Same; reflexivity]. destruct (cr_phase r); apply Same; reflexivity.
  - destruct (g <? c_next s); [|apply Same; reflexivity]. exists jr. rewrite adds_jrec by (cprj; exact Hn). auto.
  - apply Same; reflexivity.
  - destruct (jget n0 s) as [j|] eqn:Ej; [|apply Same; reflexivity]. destruct (_ && _); [|apply Same; reflexivity].
    unfold jget in *. cprj. rewrite aget_aput. destruct (n0 =? n) eqn:E; [|exists jr; auto].
    apply Z.eqb_eq in E. subst n0. rewrite Ej in Hj. inversion Hj; subst. eexists. split; [reflexivity | split; reflexivity].
  - destruct (jget n0 s) as [j|]; [|apply Same; reflexivity]. destruct (jr_reported j); apply Same; reflexivity.
  - destruct (cget c s) as [r|]; [|apply Same; reflexivity]. destruct (cr_phase r); apply Same; reflexivity.
  - destruct (cget c s) as [r|]; [|apply Same; reflexivity].
    assert (Lv : forall k, c_jobs (do_leave s c r k) = c_jobs s) by (intros k; unfold do_leave; cprj; destruct (p_active _); reflexivity).
    destruct (cr_phase r); try (apply Same; reflexivity).
    + destruct (cr_canc r); apply Same; [apply Lv | reflexivity].
    + destruct (resp_of c _) as [[|]|]; try (apply Same; apply Lv). destruct (cr_canc r); apply Same; [apply Lv | reflexivity].
  - destruct (memz g (c_stale s)); apply Same; reflexivity.
Qed.

(* ---- the live generation only ends ---------------------------------------------------------------- *)
Lemma cstep_livegen : forall s l, is_call l = false ->
  live_gen (cstep s l) = live_gen s \/ live_gen (cstep s l) = None.
Proof.
  intros s l Hl. unfold live_gen.
  assert (Lv : forall c r k, aget None PEER (c_gen (do_leave s c r k)) = aget None PEER (c_gen s) \/
                             aget None PEER (c_gen (do_leave s c r k)) = None).
  { intros c r k. unfold do_leave. cprj. destruct (p_active _); cprj; [left; reflexivity|].
    rewrite aget_adel. destruct (cr_peer r =? PEER); [right | left]; reflexivity. }
  destruct l; cbn [cstep]; try discriminate.
  - destruct (cget c s) as [r|]; [|left; reflexivity]. destruct (cr_phase r); left; reflexivity.
  - destruct (g <? c_next s); [|left; reflexivity].
    match goal with |- context [fold_left ?f ?news ?s0] => destruct (add_jobs_frame g (aget 0 g (c_gpeer s)) news s0) as [_ [_ [C _]]] end.
    left. rewrite C. reflexivity.
  - left; reflexivity.
  - destruct (jget n s) as [j|]; [|left; reflexivity]. destruct (_ && _); left; reflexivity.
  - destruct (jget n s) as [j|]; [|left; reflexivity]. destruct (jr_reported j); left; reflexivity.
  - destruct (cget c s) as [r|]; [|left; reflexivity]. destruct (cr_phase r); left; reflexivity.
  - destruct (cget c s) as [r|]; [|left; reflexivity]. destruct (cr_phase r); try (left; reflexivity).
    + destruct (cr_canc r); [apply Lv | left; reflexivity].
    + destruct (resp_of c _) as [[|]|]; try apply Lv. destruct (cr_canc r); [apply Lv | left; reflexivity].
  - destruct (memz g (c_stale s)); left; reflexivity.
Qed.

(* ---- an address that has been handed to a transport ------------------------------------------ *)
Definition Started (s : cst) (x : Z) : Prop :=
  exists n jr, jget n s = Some jr /\ jr_addr jr = x /\ R0 n s /\ (forall g, live_gen s = Some g -> jr_gen jr = g).

Lemma Started_cstep : forall s l x, TI s -> (live_gen (cstep s l) = live_gen s \/ live_gen (cstep s l) = None) ->
  Started s x -> Started (cstep s l) x.
Proof.
  intros s l x T Lg [n [jr [A [B [C D]]]]]. destruct (cstep_jrec s l n jr (proj1 C) A) as [jr' [A' [B' C']]].
  exists n, jr'. split; [exact A'|]. split; [congruence|]. split; [apply cstep_R0; assumption|].
  intros g Hg. rewrite C'. destruct Lg as [Lg|Lg]; rewrite Lg in Hg; [apply D, Hg | discriminate].
Qed.

Lemma Started_hstep : forall a b x, TIs a -> hstep a b -> Started (snd a) x -> Started (snd b) x.
Proof.
  intros a b x T St H. destruct St; cbn [snd] in *; try exact H;
    try (apply Started_cstep; [exact T | apply cstep_livegen; reflexivity | exact H]).
  unfold end_job. cbn iota beta. destruct (jget (jid j) s); [|exact H]. cbn [snd].
  apply Started_cstep; [apply cstep_TI, T | apply cstep_livegen; reflexivity|].
  apply Started_cstep; [exact T | apply cstep_livegen; reflexivity | exact H].
Qed.

(* ---- the job that is started ---------------------------------------------------------------------- *)
Lemma take_job_some : forall l j, In j l -> exists j' r, take_job (jid j) l = Some (j', r).
Proof.
  induction l as [|y l IH]; intros j H; [destruct H|]. cbn [take_job]. destruct (jid y =? jid j) eqn:E; [eauto|].
  destruct H as [->|H]; [rewrite Z.eqb_refl in E; discriminate|]. destruct (IH j H) as [j' [r Ht]]. rewrite Ht. eauto.
Qed.

Lemma take_job_first : forall id l j' r j, take_job id l = Some (j', r) -> In j l -> jid j = id -> NoDup (map jid l) -> j' = j.
Proof.
  induction l as [|y l IH]; intros j' r j H Hj Hid N; cbn [take_job] in H; [discriminate|]. cbn [map] in N. inversion N; subst.
  destruct (jid y =? jid j) eqn:E.
  - inversion H; subst. destruct Hj as [->|Hj]; [reflexivity|]. exfalso. apply Z.eqb_eq in E. apply H2. rewrite E. apply in_map, Hj.
  - destruct Hj as [->|Hj]; [rewrite Z.eqb_refl in E; discriminate|].
    destruct (take_job (jid j) l) as [[z r']|] eqn:Et; [|discriminate]. inversion H; subst. eapply IH; eauto.
Qed.

Lemma begin_live_dialing : forall s j, TI s -> In j (spawned (c_lim s)) -> is_cancelled (c_lim s) j = false ->
  In j (dialing (lstep (c_lim s) (LBegin (jid j)))).
Proof.
  intros s j T Hj Hc. cbn [lstep]. destruct (take_job_some _ _ Hj) as [j' [r Ht]]. rewrite Ht.
  assert (E : j' = j) by (eapply take_job_first; eauto; apply TI_spawned_nodup, T). subst j'.
  rewrite (is_cancelled_eq (c_lim s)) by reflexivity. rewrite Hc. prj. apply in_or_app. right. left. reflexivity.
Qed.

Lemma begin_live_R0 : forall s j, TI s -> jid j < c_next s -> In j (spawned (c_lim s)) -> is_cancelled (c_lim s) j = false ->
  R0 (jid j) (cstep s (CBegin (jid j))).
Proof.
  intros s j T Hn Hj Hc. split; [cbn [cstep]; cprj; exact Hn|]. cbn [cstep]. cprj.
  pose proof (begin_live_dialing s j T Hj Hc) as Hd. pose proof (cstep_TI s (CBegin (jid j)) T) as T'. cbn [cstep] in T'. cprj.
  pose proof (ti_one _ T' (jid j)) as One. cprj. pose proof (rest_nonneg (jid j) (lstep (c_lim s) (LBegin (jid j)))) as Nn.
  assert (P : 1 <= cid (jid j) (dialing (lstep (c_lim s) (LBegin (jid j))))) by (apply cid_pos, in_map, Hd).
  unfold rest in *. lia.
Qed.

Lemma nodup_insert : forall (l1 l2 : list Z) a, NoDup (l1 ++ l2) -> ~ In a (l1 ++ l2) -> NoDup ((l1 ++ [a]) ++ l2).
Proof.
  intros l1 l2 a N H. apply (Permutation_NoDup (l := a :: l1 ++ l2)); [|constructor; assumption].
  rewrite <- app_assoc. cbn [app]. apply Permutation_middle.
Qed.

(* the invariant of clause 3 inside a step *)
Definition D3 (dl : list Z) (a : denv * cst) : Prop :=
  NoDup (dn_starts (fst a) ++ dl) /\ forall x, In x (dn_starts (fst a) ++ dl) -> Started (snd a) x.

Lemma hstep_D3 : forall fdl ppl dl a b, HI fdl ppl a -> hstep a b -> D3 dl a -> D3 dl b.
Proof.
  intros fdl ppl dl a b H St [N S].
  assert (Keep : dn_starts (fst b) = dn_starts (fst a) -> D3 dl b).
  { intros E. split; rewrite E; [exact N|]. intros x Hx. eapply Started_hstep; [apply (hi_t _ _ _ H) | exact St | apply S, Hx]. }
  destruct St; try (apply Keep; reflexivity).
  - (* a goroutine reaches its cancelled() test *)
    destruct (is_cancelled (c_lim s) j) eqn:Ec; [apply Keep; unfold begin_one; rewrite Ec; reflexivity|].
    destruct H as [Ci T Jg Lg _]. cbn [fst snd] in *.
    destruct (ap_sp _ _ Jg j H0) as [Hn [jr [Hj Hgen]]].
    assert (Hlive : live_gen s = Some (jr_gen jr)).
    { apply (Lg _ _ Hj). rewrite Hgen. apply is_cancelled_false, Ec. }
    assert (Fresh : ~ In (jr_addr jr) (dn_starts e ++ dl)).
    { intros X. destruct (S _ X) as [n' [jr' [A' [B' [[_ C'] D']]]]].
      assert (En : n' = jid j) by (apply (w_uniq _ (ci_w _ _ _ Ci) n' (jid j) jr' jr A' Hj); [rewrite (D' _ Hlive); reflexivity | exact B']).
      subst n'. pose proof (cid_pos (jid j) (spawned (c_lim s)) (in_map jid _ _ H0)) as P.
      pose proof (wpsum_nonneg (jid j) (waitingOnPeer (c_lim s))). pose proof (cid_nonneg (jid j) (waitingOnFd (c_lim s))).
      unfold rest, tot in C'. lia. }
    unfold D3, begin_one. rewrite Ec, Hj. cbn [negb fst snd dn_starts de_se]. split.
    + apply nodup_insert; assumption.
    + intros x Hx. rewrite <- app_assoc in Hx. apply in_app_or in Hx. destruct Hx as [Hx|Hx].
      * apply Started_cstep; [exact T | left; reflexivity | apply S, in_or_app; left; exact Hx].
      * destruct Hx as [<-|Hx]; [|apply Started_cstep; [exact T | left; reflexivity | apply S, in_or_app; right; exact Hx]].
        exists (jid j), jr. split; [exact Hj|]. split; [reflexivity|]. split; [apply begin_live_R0; assumption|].
        intros g Hg. change (live_gen (cstep s (CBegin (jid j)))) with (live_gen s) in Hg. congruence.
  - (* a cancelled dial ends: the list of started addresses is untouched *)
    apply Keep. unfold end_job. destruct (jget (jid j) s); reflexivity.
Qed.

(* ---- the harness dials one peer ------------------------------------------------------------------- *)
Definition AP (s : cst) : Prop := forall c r, cget c s = Some r -> cr_peer r = PEER.

Lemma cstep_AP : forall s l, AP s -> lab_lgp s l -> AP (cstep s l).
Proof.
  intros s l H Hl.
  assert (Put : forall c r' s', cr_peer r' = PEER -> c_callers s' = aput c (Some r') (c_callers s) -> AP s').
  { intros c r' s' Hp E x rx. unfold cget. rewrite E, aget_aput. destruct (c =? x); [intros X; inversion X; subst; exact Hp | apply H]. }
  assert (Same : forall s', c_callers s' = c_callers s -> AP s') by (intros s' E x rx; unfold cget; rewrite E; apply H).
  destruct l; cbn [cstep]; cbn [lab_lgp] in Hl.
  - subst p. destruct (cget c s); [exact H|]. destruct best; [eapply Put; [|reflexivity]; reflexivity|].
    destruct (p_active _); cprj; [destruct (aget None PEER _); [|exact H]|]; (eapply Put; [|reflexivity]; reflexivity).
  - destruct (cget c s) as [r|] eqn:Ec; [|exact H]. destruct (cr_phase r); try exact H.
    eapply Put; [|reflexivity]. cbn. apply (H c r Ec).
  - destruct (g <? c_next s); [|exact H].
    match goal with |- context [fold_left ?f ?news ?s0] => destruct (add_jobs_frame g (aget 0 g (c_gpeer s)) news s0) as [A _] end.
    apply Same. rewrite A. reflexivity.
  - apply Same; reflexivity.
  - destruct (jget n s) as [j|]; [|exact H]. destruct (_ && _); [apply Same; reflexivity | exact H].
  - destruct (jget n s) as [j|]; [|exact H]. destruct (jr_reported j); [apply Same; reflexivity | exact H].
  - destruct (cget c s) as [r|] eqn:Ec; [|exact H].
    destruct (cr_phase r); try exact H; (eapply Put; [|reflexivity]; cbn; apply (H c r Ec)).
  - destruct (cget c s) as [r|] eqn:Ec; [|exact H].
    assert (Lv : forall k, AP (do_leave s c r k)).
    { intros k. destruct (do_leave_shape s c r k) as [E _]. eapply Put; [|exact E]. cbn. apply (H c r Ec). }
    destruct (cr_phase r); try exact H.
    + destruct (cr_canc r); [apply Lv | exact H].
    + destruct (resp_of c _) as [[|]|]; try apply Lv. destruct (cr_canc r); [apply Lv | exact H].
  - destruct (memz g (c_stale s)); [apply Same; reflexivity | exact H].
Qed.

Lemma hstep_AP : forall a b, AP (snd a) -> hstep a b -> AP (snd b).
Proof.
  intros a b H St. destruct St; cbn [snd] in *; try exact H; try (apply cstep_AP; [exact H | first [exact I | assumption]]).
  unfold end_job. cbn iota beta. destruct (jget (jid j) s); [|exact H]. cbn [snd].
  apply cstep_AP; [apply cstep_AP; [exact H | exact I] | exact I].
Qed.

Lemma kinit_AP : forall es x, AP (snd es) -> AP (snd (kinit es x)).
Proof.
  intros [e0 s] x H. cbn [snd] in H. unfold kinit. destruct x; cbn [snd]; try exact H.
  - apply cstep_AP; [exact H | reflexivity].
  - destruct (find_dialing s a) as [n|]; [|exact H]. cbn [snd]. unfold end_job. cbn iota beta.
    destruct (jget n s); [|exact H]. cbn [snd]. apply cstep_AP; [apply cstep_AP; [exact H | exact I] | exact I].
  - apply cstep_AP; [apply cstep_AP; [exact H | exact I] | exact I].
Qed.

Lemma kstep_AP : forall es x, TIs es -> AP (snd es) -> AP (snd (kstep es x)).
Proof.
  intros es x T H. apply (kstep_closed_h (fun a => AP (snd a))); [|exact T|apply kinit_AP, H].
  intros a b Ha _ St. eapply hstep_AP; eauto.
Qed.

(* ---- the coupling of the monitor's list of started addresses ------------------------------------ *)
Definition MD (s : cst) (w dl : list Z) : Prop :=
  (w = [] -> dl = []) /\ NoDup dl /\ forall x, In x dl -> Started s x.

Lemma kinit_starts : forall es x, dn_starts (fst (kinit es x)) = [].
Proof.
  intros [e0 s] x. unfold kinit. destruct x; cbn [fst]; try reflexivity.
  - cbv zeta. destruct (cget c (cstep s _)) as [r|]; [destruct (aget None (cr_gen r) _)|]; reflexivity.
  - destruct (find_dialing s a) as [n|]; [|reflexivity]. cbn [fst]. unfold end_job. cbn iota beta.
    destruct (jget n s); cbn [fst]; (destruct (w_stopped _); [reflexivity|]; destruct (_ && _); [reflexivity|]; destruct (_ && _); reflexivity).
Qed.

Lemma kinit_D3 : forall fdl ppl es x w dl, HI fdl ppl es -> AP (snd es) -> (forall c, In c w <-> inside (snd es) c) ->
  MD (snd es) w dl -> D3 dl (kinit es x).
Proof.
  intros fdl ppl [e0 s] x w dl H Ha Hw [Me [Nd Ms]]. cbn [snd] in *. unfold D3. rewrite kinit_starts. cbn [app].
  split; [exact Nd|]. intros y Hy. specialize (Ms y Hy). pose proof (hi_t _ _ _ H) as T. cbn [snd] in T.
  unfold kinit. destruct x; cbn [snd]; try exact Ms.
  - apply Started_cstep; [exact T| |exact Ms]. left.
    destruct w as [|c0 w']; [rewrite (Me eq_refl) in Hy; destruct Hy|].
    destruct (proj1 (Hw c0) (or_introl eq_refl)) as [r0 [Hc0 Hp0]].
    pose proof (g_livegen _ (ci_g _ _ _ (hi_c _ _ _ H)) c0 r0 Hc0 Hp0) as Lg. cbn [snd] in Lg. rewrite (Ha c0 r0 Hc0) in Lg.
    destruct (g_gen _ (ci_g _ _ _ (hi_c _ _ _ H)) PEER _ Lg) as [Act _]. cbn [snd] in Act.
    unfold live_gen. cbn [cstep]. destruct (cget c s); [reflexivity|]. destruct (okconn _ fdir); [reflexivity|].
    rewrite Act. cprj. rewrite Lg. cprj. exact Lg.
  - destruct (find_dialing s a) as [n|]; [|exact Ms]. cbn [snd]. unfold end_job. cbn iota beta.
    destruct (jget n s); [|exact Ms]. cbn [snd].
    apply Started_cstep; [apply cstep_TI, T | apply cstep_livegen; reflexivity|].
    apply Started_cstep; [exact T | apply cstep_livegen; reflexivity | exact Ms].
  - apply Started_cstep; [apply cstep_TI, T | apply cstep_livegen; reflexivity|].
    apply Started_cstep; [exact T | apply cstep_livegen; reflexivity | exact Ms].
Qed.

Lemma step_clause3 : forall fdl ppl es x w dl, HI fdl ppl es -> AP (snd es) -> (forall c, In c w <-> inside (snd es) c) ->
  MD (snd es) w dl -> wf_kstim2 (snd es) x ->
  let es' := kstep es x in
  let o := kobs es es' in
  nodup_z (d_starts o ++ dl) = true /\ NoDup (d_starts o ++ dl) /\ (forall y, In y (d_starts o ++ dl) -> Started (snd es') y).
Proof.
  intros fdl ppl es x w dl H Ha Hw M Wf es' o.
  assert (G : HI fdl ppl es' /\ D3 dl es').
  { apply (kstep_closed_h (fun a => HI fdl ppl a /\ D3 dl a)).
    - intros a b [A B] _ St. split; [eapply hstep_HI; eauto | eapply hstep_D3; eauto].
    - apply (hi_t _ _ _ H).
    - split; [apply kinit_HI; assumption | eapply kinit_D3; eauto]. }
  destruct G as [_ [N S]].
  assert (P : Permutation (d_starts o ++ dl) (dn_starts (fst es') ++ dl)).
  { apply Permutation_app_tail. unfold o, kobs, dobs_of. cbn [d_starts]. apply sort_z_perm. }
  assert (N' : NoDup (d_starts o ++ dl)) by (eapply Permutation_NoDup; [apply Permutation_sym, P | exact N]).
  split; [apply nodup_z_true, N'|]. split; [exact N'|]. intros y Hy. apply S. eapply Permutation_in; [exact P | exact Hy].
Qed.

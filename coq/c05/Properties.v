(* C05 — property theorems only.  Each is closed by [exact]/[apply] of a lemma
   from Proofs_*.v and followed by Print Assumptions. *)
From Coq Require Import List ZArith Bool Lia.
From Coq Require Import Permutation.
From Verif Require Import lib.Wire c05.ModelLimiter c05.SpecLimiter c05.Proofs_Limiter gen.Consts_c05.
From Verif Require Import c05.ModelWorker c05.SpecWorker c05.Proofs_Worker.
From Verif Require Import c05.ModelRanker c05.SpecRanker c05.Proofs_Ranker.
From Verif Require Import c05.Proofs_LimiterMon c05.Proofs_WorkerMon c05.Proofs_LimiterOnce c05.Proofs_WorkerMon2 c05.Proofs_WorkerMon3.
From Verif Require Import c05.ModelSync c05.SpecSync c05.Proofs_Sync c05.SpecDialPeer.
From Verif Require Import c05.ModelComposite c05.SpecComposite c05.Proofs_Composite c05.Proofs_Composite2 c05.Proofs_Composite3.
From Verif Require Import c05.Proofs_Composite4 c05.Proofs_Composite5 c05.Proofs_Composite6 c05.Proofs_CompositeMon.
From Verif Require Import c05.ModelAddrs c05.SpecAddrs c05.Proofs_Addrs.
From Verif Require Import c05.Proofs_CompositeHI c05.Proofs_CompositeMon5 c05.Proofs_CompositeQ c05.Proofs_CompositeMon6 c05.Proofs_CompositeMon8.
Import ListNotations.
Local Open Scope Z_scope.

(* ---- dial limiter -------------------------------------------------------------
   For every pair of limits and EVERY finite history of AddDialJob /
   context cancellation / clearAllPeerDials / goroutine start / dialFunc return,
   in any interleaving (LBegin and LCancel may fall anywhere, so "cancel lands
   between token hand-over and dial start" is one of the histories): *)

(* tokens are exactly the jobs that hold them: fdConsuming counts the executing
   FD-consuming jobs, activePerPeer p the executing plus FD-waiting jobs of p;
   all zero when nothing executes or waits for an FD *)
Theorem c05_limiter_tokens_balanced : forall fdl ppl ops, 0 <= fdl -> 0 <= ppl ->
  let s := lrun (init_lim fdl ppl) ops in
  fdConsuming s = cnt_fd (spawned s ++ dialing s) /\
  (forall p, act_get p (activePerPeer s) =
             cnt_peer p (spawned s ++ dialing s) + cnt_peer p (waitingOnFd s)) /\
  (spawned s = [] -> dialing s = [] -> waitingOnFd s = [] ->
   fdConsuming s = 0 /\ forall p, act_get p (activePerPeer s) = 0).
Proof. exact tokens_balanced_l. Qed.
Print Assumptions c05_limiter_tokens_balanced.

(* the caps: on the token counters and on the dialFunc invocations in progress
   (provable since the repair 243a477 of freeFDToken) *)
Theorem c05_limiter_caps : forall fdl ppl ops, 0 <= fdl -> 0 <= ppl ->
  let s := lrun (init_lim fdl ppl) ops in
  0 <= fdConsuming s <= fdl /\ (forall p, 0 <= act_get p (activePerPeer s) <= ppl) /\
  cnt_fd (dialing s) <= fdl /\ (forall p, cnt_peer p (dialing s) <= ppl).
Proof. exact caps_l. Qed.
Print Assumptions c05_limiter_caps.

(* no residue and no lost wake-up: when no dial goroutine exists, no token is
   held and NO job is queued (so a queued job always has a running dial whose
   completion hands the token on) *)
Theorem c05_limiter_no_residue : forall fdl ppl ops, 1 <= fdl -> 1 <= ppl ->
  let s := lrun (init_lim fdl ppl) ops in
  spawned s = [] -> dialing s = [] ->
  fdConsuming s = 0 /\ waitingOnFd s = [] /\
  (forall p, act_get p (activePerPeer s) = 0 /\ wl_get p (waitingOnPeer s) = []).
Proof. exact no_residue_l. Qed.
Print Assumptions c05_limiter_no_residue.

(* regenerated obligation: the limits compiled into /repo satisfy the
   hypotheses of the theorems above *)
Theorem c05_default_caps_wf : 1 <= ConcurrentFdDials /\ 1 <= DefaultPerPeerRateLimit.
Proof. vm_compute. split; discriminate. Qed.
Print Assumptions c05_default_caps_wf.

(* HEADLINE (limiter): the very functions that judge the implementation's limiter traces
   (SpecLimiter.monitor_lim_case = monitor_lim, then once_lim) accept the trace of the model
   for EVERY sequence of harness stimuli (AddDialJob / cancel / clear / return, each followed
   by the started goroutines running to their parking point) whose AddDialJob identities are
   pairwise distinct: caps on counters and on dialFunc invocations, no residue when nothing is
   in flight, every live job attempted (no job is lost), and a job's dialFunc is invoked at
   most once (job identities are never duplicated across the queues). *)
Theorem c05_limiter_monitor_holds : forall fdl ppl xs, 1 <= fdl -> 1 <= ppl -> fresh_adds [] xs ->
  let tr := lim_trace (init_lim fdl ppl) xs in
  match monitor_lim fdl ppl (mkLmon [] []) 0 tr with [] => once_lim [] [] 0 tr | d => d end = [].
Proof.
  intros fdl ppl xs H1 H2 F tr. unfold tr. rewrite monitor_lim_holds_l by assumption.
  apply once_lim_holds_l; try lia. exact F.
Qed.
Print Assumptions c05_limiter_monitor_holds.

(* ---- dial worker loop ------------------------------------------------------------
   For EVERY finite sequence of loop iterations (request / dial timer / dial update /
   reqch closed) in any order, with every answer the environment can give inside a
   handler (existing connection or not, ranking, back-off table, addConn verdict,
   clock).  wf_run: request ids are fresh, a ranking lists each address once
   (c05_ranker_is_permutation + ma.Unique), a dial update arrives only for a dial
   that is in flight and is never ErrDialBackoff itself. *)

(* no request is ever sent two responses *)
Theorem c05_response_at_most_once : forall evs, wf_run init_w evs ->
  NoDup (map fst (w_resps (wrun init_w evs))).
Proof. exact response_at_most_once_l. Qed.
Print Assumptions c05_response_at_most_once.

(* hence a send on a request's resch (capacity 1) never blocks the worker *)
Theorem c05_buffered_send_never_blocks : forall evs, wf_run init_w evs ->
  forall rid, (count_occ Z.eq_dec (map fst (w_resps (wrun init_w evs))) rid <= 1)%nat.
Proof. exact resp_count_le_1_l. Qed.
Print Assumptions c05_buffered_send_never_blocks.

(* whenever nothing is scheduled and no dial is in flight, no request is pending:
   every request received has been answered.  With the environment hypothesis that
   the timer fires and every started dial eventually reports, this is "returns
   exactly once". *)
Theorem c05_response_at_least_once_at_quiescence : forall evs, wf_run init_w evs ->
  let s := wrun init_w evs in
  w_dq s = [] -> w_inflight s = 0 ->
  w_pending s = [] /\ forall rid, In rid (w_seen s) -> In rid (map fst (w_resps s)).
Proof. exact exactly_once_at_quiescence_l. Qed.
Print Assumptions c05_response_at_least_once_at_quiescence.

(* per worker, an address is passed to dialNextAddr -> limiter -> transport at most
   once (back-off refusals are not dials) *)
Theorem c05_addr_handed_once : forall evs, wf_run init_w evs ->
  NoDup (w_dials (wrun init_w evs)).
Proof. exact addr_handed_once_l. Qed.
Print Assumptions c05_addr_handed_once.

(* every address that entered the worker for some request (w_asked: put into
   trackedDials) has been handed to a transport or refused by back-off once nothing
   is scheduled any more; while the queue is non-empty it is still scheduled *)
Theorem c05_all_eligible_attempted : forall evs, wf_run init_w evs ->
  let s := wrun init_w evs in
  w_dq s = [] -> forall a, In a (w_asked s) -> In a (w_dials s) \/ In a (w_refused s).
Proof. exact all_eligible_attempted_l. Qed.
Print Assumptions c05_all_eligible_attempted.

(* HEADLINE (worker): the very monitor that judges the implementation's worker traces
   (SpecWorker.monitor_w), run on the trace of the model for EVERY sequence of well-formed
   harness stimuli (requests with fresh ids and repetition-free rankings, clock advances, dial
   updates for dials in flight, back-off entries, inbound connections, close; every due timer
   fires after each), accepts: it never reports clause 1 (request answered twice), 2 (address
   handed to a transport twice), 3 (a response is not justified: a connection only when an
   acceptable one exists or a candidate address of the request succeeded, an error only when
   every candidate has failed or was refused by back-off), 4 (request unanswered at
   quiescence) or 5 (a candidate address neither handed to a transport nor ever in back-off
   at quiescence without a connection). *)
Theorem c05_worker_monitor_holds : forall xs, wf_stims (init_env, init_w) xs ->
  monitor_w wmon0 0 (wtrace (init_env, init_w) xs) = [].
Proof. exact monitor_w_holds_l. Qed.
Print Assumptions c05_worker_monitor_holds.

(* ---- dialSync ------------------------------------------------------------------------
   for EVERY interleaving of getActiveDial / locked-tail-of-Dial sections of any number
   of callers on any peers: refCnt counts the callers inside Dial; ds.dials[p] exists iff
   some caller is inside; exactly one worker runs for p while it exists and every earlier
   one has been stopped (worker stops iff the last caller returned); while a caller is
   inside the shared context is live and reqch open (a caller that leaves - cancelled or
   answered - does not cancel it); reqch is only ever closed after the shared context was
   cancelled, also in the state between the two statements that the worker can observe. *)
Theorem c05_sync_refcount : forall evs p,
  let ps := sget p (srun [] evs) in
  p_ref ps = Z.of_nat (length (p_inside ps)) /\
  (p_active ps = true <-> p_inside ps <> []) /\
  p_started ps = p_stopped ps + (if p_active ps then 1 else 0) /\
  (p_active ps = true -> p_canc ps = false /\ p_closed ps = false) /\
  (p_closed ps = true -> p_canc ps = true).
Proof.
  intros evs p ps. destruct (srun_inv evs [] init_sinv p) as [A B C D E _]. auto.
Qed.
Print Assumptions c05_sync_refcount.

Theorem c05_sync_cancel_before_close : forall evs e p,
  let s := srun [] evs in
  p_closed (sget p (smid s e)) = true -> p_canc (sget p (smid s e)) = true.
Proof.
  intros evs e p s. destruct (sstep_inv s e (srun_inv evs [] init_sinv)) as [_ M]. exact (M p).
Qed.
Print Assumptions c05_sync_cancel_before_close.

Theorem c05_sync_leaving_caller_keeps_shared_dial : forall evs c p,
  let ps := sget p (srun [] evs) in
  memc c (p_inside ps) = true -> 2 <= p_ref ps ->
  let ps' := sget p (sstep (srun [] evs) (SLeave c p)) in
  p_active ps' = true /\ p_canc ps' = p_canc ps /\ p_closed ps' = p_closed ps /\
  p_started ps' = p_started ps /\ p_stopped ps' = p_stopped ps.
Proof.
  intros evs c p ps Hm H2 ps'. unfold ps'. cbn [sstep]. fold ps. rewrite Hm.
  unfold sget. rewrite Proofs_Limiter.aget_aput, Z.eqb_refl.
  apply leave_not_last; auto. apply (srun_inv evs [] init_sinv p).
Qed.
Print Assumptions c05_sync_leaving_caller_keeps_shared_dial.

(* ---- DefaultDialRanker ---------------------------------------------------------------
   for every sort.Slice that permutes its input, every address list and every
   assignment of the predicates: each input address is returned exactly once, and no
   delay is negative (the delay constants are re-read from /repo each run).  With
   ma.Unique in addrsForDial this discharges the NoDup hypothesis of wf_run. *)
Theorem c05_ranker_is_permutation : forall sortf, (forall l, Permutation (sortf l) l) ->
  forall addrs,
  Permutation (map fst (default_ranker sortf addrs)) addrs /\
  Forall (fun e => 0 <= snd e) (default_ranker sortf addrs).
Proof. exact default_ranker_spec. Qed.
Print Assumptions c05_ranker_is_permutation.

Theorem c05_ranker_keeps_nodup : forall sortf, (forall l, Permutation (sortf l) l) ->
  forall addrs, NoDup (map ra_id addrs) -> NoDup (map ra_id (map fst (default_ranker sortf addrs))).
Proof. exact default_ranker_nodup. Qed.
Print Assumptions c05_ranker_keeps_nodup.

(* the sort hypothesis is satisfiable: the stable insertion sort used to run the model *)
Theorem c05_ranker_sort_instance : forall l, Permutation (sort_score l) l.
Proof. exact sort_score_perm. Qed.
Print Assumptions c05_ranker_sort_instance.

(* ---- the composite: dialPeer -> dialSync.Dial -> one worker loop per active dial -> limiter
   ModelComposite.cstep is a labelled transition system whose labels are the sections the
   code makes atomic (see the table in ModelComposite.v); it moves the component models
   only by their own steps.  [reach fdl ppl fd ls] is the state after the schedule [ls],
   an arbitrary list of labels (a label whose guard is false is a no-op).  wf_label: a
   ranking lists each address once, a transport never reports ErrDialBackoff itself. *)

(* global FD cap and per-peer cap, on the limiter's counters and on the dials in progress *)
Theorem c05_composite_caps : forall fdl ppl fd ls, 0 <= fdl -> 0 <= ppl ->
  let l := c_lim (reach fdl ppl fd ls) in
  0 <= fdConsuming l <= fdl /\ (forall p, 0 <= act_get p (activePerPeer l) <= ppl) /\
  cnt_fd (dialing l) <= fdl /\ (forall p, cnt_peer p (dialing l) <= ppl).
Proof. exact composite_caps_l. Qed.
Print Assumptions c05_composite_caps.

(* at most one worker with an open reqch per peer at any time (workers started = workers
   whose reqch was closed + 1 if an active dial exists), refCnt counts the callers inside,
   and all callers inside for one peer share one generation (one activeDial, one worker) *)
Theorem c05_composite_one_worker_per_peer : forall fdl ppl fd ls,
  let s := reach fdl ppl fd ls in
  (forall p, let ps := sget p (c_sync s) in
     p_started ps = p_stopped ps + (if p_active ps then 1 else 0) /\
     p_ref ps = Z.of_nat (length (p_inside ps))) /\
  (forall c c' r r', cget c s = Some r -> cget c' s = Some r' ->
     cr_phase r <> PReturned -> cr_phase r' <> PReturned -> cr_peer r = cr_peer r' -> cr_gen r = cr_gen r').
Proof.
  intros fdl ppl fd ls s. split.
  - intros p ps. destruct (composite_sync_ok fdl ppl fd ls p) as [R _ W _ _ _]. auto.
  - apply callers_share_l.
Qed.
Print Assumptions c05_composite_one_worker_per_peer.

(* each DialPeer call gets exactly one answer: never two ... *)
Theorem c05_composite_answered_at_most_once : forall fdl ppl fd ls,
  NoDup (map fst (c_rets (reach fdl ppl fd ls))).
Proof. exact answered_at_most_once_l. Qed.
Print Assumptions c05_composite_answered_at_most_once.

(* ... and a caller inside always has a way to its answer: once its worker has nothing
   scheduled and nothing in flight the response is there for CLeave to take (the timer
   firing and dials reporting are the environment's part), and a cancelled caller is
   answered by its own next step whatever the others do *)
Theorem c05_composite_answer_available : forall fdl ppl fd ls, 0 <= fdl -> 0 <= ppl -> Forall wf_label ls ->
  let s := reach fdl ppl fd ls in
  forall c r, cget c s = Some r -> cr_phase r = PWaiting ->
  let w := wget (cr_gen r) s in
  w_dq w = [] -> w_inflight w = 0 -> resp_of c (w_resps w) <> None.
Proof. exact answer_available_l. Qed.
Print Assumptions c05_composite_answer_available.

Theorem c05_composite_cancelled_caller_returns : forall s c r pick,
  cget c s = Some r -> cr_phase r <> PReturned -> cr_canc r = true ->
  In c (map fst (c_rets (cstep s (CLeave c pick)))).
Proof. exact cancelled_caller_returns_l. Qed.
Print Assumptions c05_composite_cancelled_caller_returns.

(* dedup: per worker an address is dialed at most once, and there is exactly one limiter
   job per dialed address *)
Theorem c05_composite_dedup : forall fdl ppl fd ls, 0 <= fdl -> 0 <= ppl -> Forall wf_label ls ->
  let s := reach fdl ppl fd ls in
  (forall g, NoDup (w_dials (wget g s))) /\
  (forall n n' j j', jget n s = Some j -> jget n' s = Some j' -> jr_gen j = jr_gen j' -> jr_addr j = jr_addr j' -> n = n') /\
  (forall n j, jget n s = Some j -> In (jr_addr j) (w_dials (wget (jr_gen j) s))).
Proof. exact dedup_l. Qed.
Print Assumptions c05_composite_dedup.

(* a caller that leaves - cancelled by its own context or answered - does not cancel the
   dials another caller of the same peer still waits for: that caller's generation keeps
   its active dial, its running worker and its uncancelled shared context *)
Theorem c05_composite_leaving_caller_keeps_shared_dials : forall fdl ppl fd ls c pick,
  let s := reach fdl ppl fd ls in
  let s' := cstep s (CLeave c pick) in
  forall c' r', c' <> c -> cget c' s = Some r' -> cr_phase r' <> PReturned ->
    aget None (cr_peer r') (c_gen s') = Some (cr_gen r') /\
    w_stopped (wget (cr_gen r') s') = false /\ ~ In (cr_gen r') (cancelledG (c_lim s')) /\
    p_active (sget (cr_peer r') (c_sync s')) = true.
Proof. exact leaving_keeps_others_l. Qed.
Print Assumptions c05_composite_leaving_caller_keeps_shared_dials.

(* once all requesters are gone no active dial is leaked *)
Theorem c05_composite_no_leaked_active_dial : forall fdl ppl fd ls,
  let s := reach fdl ppl fd ls in
  (forall c r, cget c s = Some r -> cr_phase r = PReturned) ->
  forall p, p_active (sget p (c_sync s)) = false /\ aget None p (c_gen s) = None /\
            p_started (sget p (c_sync s)) = p_stopped (sget p (c_sync s)) /\ p_ref (sget p (c_sync s)) = 0.
Proof. exact no_leaked_active_dial_l. Qed.
Print Assumptions c05_composite_no_leaked_active_dial.

(* "every address ... is attempted unless ... every caller has given up": in the composite a
   job of a live generation (shared context not cancelled) stays in the limiter - queued, about
   to run or dialing - until it reports, for EVERY schedule.  (Before the repair "fix: swarm:
   clearAllPeerDials dropped the live dial jobs of a newer active dial" this was false: the
   deferred clearAllPeerDials of a worker that returns late deleted the per-peer queue
   wholesale; see the example composite_stale_exit_old_vs_new and the regression scenario
   c05DialPeerStaleExit of the harness.) *)
Theorem c05_composite_no_lost_job : forall fdl ppl fd ls, 0 <= fdl -> 0 <= ppl ->
  Forall wf_label ls -> NLJ (reach fdl ppl fd ls).
Proof. exact no_lost_job_l. Qed.
Print Assumptions c05_composite_no_lost_job.

(* The drain of the harness-level semantics (SpecComposite.drain: rounds of "everything that can
   run runs", as many as a bound computed from the state) ends, from every state the semantics
   reaches, in a state in which nothing can move: no request to deliver, no due timer, no
   started goroutine, no cancelled dial in progress, no ready return, no exit pending. *)
Theorem c05_composite_drain_quiescent : forall fdl ppl es, QI fdl ppl es -> Quiet (drain es) /\ QI fdl ppl (drain es).
Proof. exact drain_quiet. Qed.
Print Assumptions c05_composite_drain_quiescent.

(* HEADLINE (composite): the DialPeer monitor that judges the implementation's traces
   (SpecDialPeer.monitor_d), run on the trace of the composite model under the harness-level
   semantics (SpecComposite: one stimulus, then every enabled step until nothing moves), ACCEPTS,
   for EVERY sequence of stimuli with fresh caller ids, repetition-free rankings whose delays are
   in [0, 2 s), non-negative clock advances (SpecDialPeer.wf_stims_b, which the driver also
   evaluates on every recorded case before judging it), and limits >= 1.  It never reports
   clause 1 (a return is of a caller inside, at most once, never of another peer, with a
   connection only after some dial produced one), 2 (a cancelled caller is released in the
   same step with its context error), 3 (while any caller waits each address is handed to a
   transport at most once), 4 (caps), 5 (cancelling one caller ends no dial of the others),
   6 (once all callers have returned nothing is left: no dial, no token, no active dial, no
   goroutine), 7 (the count of callers inside) or 9 (after 2 s of virtual time a caller still
   waits only while some transport dial is in progress, unless a worker is parked in the
   gater).  Clause 8 of monitor_d_case (the case ends with every caller returned) is about how
   the harness ends a case, not about the model. *)
Theorem c05_composite_monitor_accepts : forall fdl ppl fds xs, 1 <= fdl -> 1 <= ppl ->
  wf_stims_b [] xs = true ->
  monitor_d fdl ppl (mkDmon [] [] [] false false) 0 (ctrace (init_denv, init_c fdl ppl fds) xs) = [].
Proof. exact monitor_d_accepts_b. Qed.
Print Assumptions c05_composite_monitor_accepts.

(* ---- addrsForDial ---------------------------------------------------------------------
   "each address of the peer is handed to a transport at most once" starts with the list handed
   to the worker: whatever the peerstore holds (literal addresses, the same address with a
   trailing /p2p/<peer>, DNS and dnsaddr names) and whatever the names resolve to, the list
   computed by resolve, strip /p2p, de-duplicate, filter names every address once (addresses
   compared after the /p2p component is stripped), names only addresses some entry resolves to,
   and names every such address the filters keep.  The filters are an arbitrary predicate of the
   de-duplicated list.  (Judged on the implementation by clause 10 of the DialPeer case monitor:
   the ranking recorded for every request is repetition-free.) *)
Theorem c05_addrs_for_dial_no_duplicates : forall keep es, NoDup (addrs_for_dial keep es).
Proof. exact addrs_for_dial_nodup_l. Qed.
Print Assumptions c05_addrs_for_dial_no_duplicates.

Theorem c05_addrs_for_dial_sound_complete : forall keep es a,
  (In a (addrs_for_dial keep es) -> exists e b, In e es /\ In (a, b) e) /\
  (forall e b, In e es -> In (a, b) e -> keep (nodupz (strip_p2p (resolve_all es))) a = true -> In a (addrs_for_dial keep es)).
Proof. intros. split; [apply addrs_for_dial_sound_l | intros; eapply addrs_for_dial_complete_l; eauto]. Qed.
Print Assumptions c05_addrs_for_dial_sound_complete.

(* filterKnownUndialables, in the code's order (no transport; low priority AMONG THE DIALABLE ones;
   unspecified; relayed under ForceDirectDial), for every table of address attributes and every
   peerstore content: an address is handed to the worker iff some entry resolves to it, the swarm
   has a transport for it, its IP is not unspecified, it is not a relayed address under
   ForceDirectDial, and it is not a /ws (/webtransport) address with a DIALABLE /tcp (/quic-v1)
   address of the same ip:port among the resolved ones; each once.  The addresses reported with
   an error are exactly the resolved ones without a transport.  SpecAddrs.should_dial is the
   very predicate the monitor of wire kind 6 evaluates on the implementation's answers. *)
Theorem c05_addrs_pipeline_spec : forall info fdir es a,
  In a (fst (addrs_pipeline info fdir es)) <-> should_dial info fdir (strip_p2p (resolve_all es)) a = true.
Proof. exact pipeline_spec_l. Qed.
Print Assumptions c05_addrs_pipeline_spec.

Theorem c05_addrs_pipeline_once_and_errors : forall info fdir es,
  NoDup (fst (addrs_pipeline info fdir es)) /\ NoDup (snd (addrs_pipeline info fdir es)) /\
  forall a, In a (snd (addrs_pipeline info fdir es)) <-> In a (strip_p2p (resolve_all es)) /\ ai_tpt (info a) = false.
Proof. intros. destruct (pipeline_nodup_l info fdir es). split; [assumption|]. split; [assumption|]. apply pipeline_errs_l. Qed.
Print Assumptions c05_addrs_pipeline_once_and_errors.

(* ---- non-vacuity ----------------------------------------------------------------- *)
(* the history of the repaired defect reaches a state with a queued live job and
   the FD cap exactly saturated *)
Example witness_reachable :
  let A := mkJob 1 1 true 1 in let B := mkJob 2 2 true 2 in
  let C := mkJob 3 3 true 3 in let D := mkJob 4 2 true 4 in
  let s := lrun (init_lim 1 1)
             [LAdd A; LBegin 1; LAdd B; LAdd C; LAdd D; LCancel 2; LReturn 1; LBegin 4] in
  fdConsuming s = 1 /\ waitingOnFd s = [C] /\ dialing s = [D].
Proof. vm_compute. repeat split. Qed.

(* the monitor rejects the trace the unrepaired code produced (two FD dials in
   flight with fdLimit 1) *)
Example monitor_rejects_fd_cap_exceeded :
  monitor_lim_case [1; 1;  1; 1; 1; 1; 1;  1; 0; 0; 1; 1; 1; 0; 1; 1; 1; 1; 1;
                           1; 2; 2; 1; 2;  2; 0; 0; 2; 1; 1; 2; 1; 0; 2; 1; 1; 1; 1; 2; 2; 1; 2] <> [].
Proof. vm_compute. discriminate. Qed.

(* two callers with different address sets, the shared address fails last: both are
   answered exactly once (a reachable state that meets the hypotheses) *)
Example worker_two_callers :
  let evs := [WReq 1 false false false (Some [(10, 0); (11, 0)]);
              WTimer [] [];
              WReq 2 false false false (Some [(11, 0); (12, 250)]);
              WRes 10 (DRFail EOther) [];
              WTimer [] [];
              WRes 12 (DRFail EOther) [];
              WRes 11 (DRFail EOther) []] in
  wf_run init_w evs /\
  let s := wrun init_w evs in
  w_dq s = [] /\ w_inflight s = 0 /\ w_resps s = [(1, RespErr); (2, RespErr)] /\ w_dials s = [10; 11; 12].
Proof.
  vm_compute.
  repeat split; try discriminate; try tauto;
    repeat (constructor; [cbn; intuition discriminate|]); try constructor;
    try (intros [H|[]]; discriminate).
Qed.

(* the worker monitor rejects a trace in which a request is answered twice *)
Example worker_monitor_rejects_double_response :
  monitor_w_case [1; 1; 0; 0; 1; 1; 5; 0;  0; 1; 5; 0; 1; 5; 0; 0; 1; 1; 1; 0;
                  3; 5; 0; 0;  1; 1; 1; 0; 0; 1; 5; 1; 2; 0; 1;
                  2; 1;       1; 1; 1; 0; 0; 1; 5; 1; 2; 0; 1] <> [].
Proof. vm_compute. discriminate. Qed.

(* the ranker monitor rejects an output that drops an address *)
Example ranker_monitor_rejects_dropped_address :
  monitor_r_case [2; 1; 0; 0; 1; 0; 0; 1; 1048577;  2; 0; 0; 1; 0; 1; 0; 262145;  1; 2; 0] <> [].
Proof. vm_compute. discriminate. Qed.

(* the hypotheses of the worker headline are satisfiable by a non-trivial run, and on it
   the monitor accepts *)
Example worker_headline_nonvacuous :
  let xs := [TReq 1 false false (Some [(10, 0); (11, 250000000)]); TAdvance 250000000;
             TRes 10 0 false; TReq 2 true false (Some [(11, 0); (12, 0)]); TRes 11 0 false; TRes 12 0 false] in
  wf_stims (init_env, init_w) xs /\ monitor_w wmon0 0 (wtrace (init_env, init_w) xs) = [].
Proof.
  vm_compute. repeat split; try tauto;
    repeat (constructor; [cbn; intuition discriminate|]); try constructor; auto;
    try (intros [H|[]]; discriminate); try (intros []).
Qed.

(* the dialSync monitor rejects a trace where reqch is closed before the shared context
   is cancelled *)
Example sync_monitor_rejects_close_before_cancel :
  monitor_s_case [1; 1; 1;  1; 1; 1; 1; 1; 0; 0;  0;  0;
                  2; 1;     1; 1; 0; 0; 1; 1; 1;  1; 1; 2;  3] <> [].
Proof. vm_compute. discriminate. Qed.

(* the DialPeer monitor rejects a trace in which cancelling one caller ends the dials
   the other caller still waits for *)
Example dialpeer_monitor_rejects_shared_cancel :
  monitor_d_case [2; 4; 0;  1; 1; 0; 0; 1; 1; 7; 0;  0; 1; 7; 0;  1; 1; 1; 1; 1; 0; 1;
                            1; 2; 0; 0; 1; 1; 7; 0;  0; 0; 0;     1; 1; 1; 1; 1; 0; 2;
                            4; 1;        1; 1; 2; 0; 1; 7;  0; 0; 0; 0; 1; 0; 1] <> [].
Proof. vm_compute. discriminate. Qed.

(* the schedule of the repaired defect, evaluated: before the old worker returns job 6
   (generation 4, live) is queued; the code before the repair (clear_peer_old) drops it, the
   repaired clearAllPeerDials keeps it *)
Example composite_stale_exit_old_vs_new :
  let pre := reach 4 1 [1; 2] (removelast stale_exit_schedule) in
  jget 6 pre = Some (mkJ 4 2 false) /\ cancelledG (c_lim pre) = [1] /\
  in_limiter (c_lim pre) 6 = true /\
  in_limiter (clear_peer_old (c_lim pre) 1) 6 = false /\
  in_limiter (clear_peer (c_lim pre) 1) 6 = true /\
  in_limiter (c_lim (reach 4 1 [1; 2] stale_exit_schedule)) 6 = true.
Proof. exact stale_exit_old_vs_new. Qed.


(* the hypothesis of the composite headline is satisfiable by a scenario in which things happen:
   two callers share the dial to address 1; it fails, so caller 2 (who had no other candidate)
   returns with an error and address 2 is dialed for caller 1; that dial succeeds and caller 1
   returns with the connection.  The monitor accepts the model's trace. *)
Example composite_headline_nonvacuous :
  let xs := [KCall 1 false false (Some [(1, 0); (2, 250000000)]); KCall 2 false false (Some [(1, 0)]);
             KAdvance 3000000000; KRes 1 0 false; KCancel 2; KRes 2 1 false; KAdvance 2000000000] in
  let tr := ctrace (init_denv, init_c 1 1 [1; 2]) xs in
  wf_stims_b [] xs = true /\
  map (fun xo => (d_rets (snd xo), d_starts (snd xo), d_ends (snd xo), d_inpeer (snd xo), d_waiting (snd xo))) tr =
    [([], [1], [], 1, 1); ([], [], [], 1, 2); ([], [], [], 1, 2); ([(2, 1)], [2], [1], 1, 1);
     ([], [], [], 1, 1); ([(1, 0)], [], [2], 0, 0); ([], [], [], 0, 0)] /\
  monitor_d 1 1 (mkDmon [] [] [] false false) 0 tr = [].
Proof. vm_compute. repeat split. Qed.

(* the order matters: de-duplicating before the /p2p component is stripped leaves the address of
   a dnsaddr record (X/p2p/<peer>) next to the cached X - the worker would be handed X twice *)
Example addrs_for_dial_wrong_order_duplicates :
  addrs_for_dial_wrong (fun _ _ => true) [[(1, true)]; [(1, false)]] = [1; 1] /\
  addrs_for_dial (fun _ _ => true) [[(1, true)]; [(1, false)]] = [1].
Proof. vm_compute. split; reflexivity. Qed.

(* the DialPeer case monitor rejects a request whose recorded ranking names an address twice *)
Example dialpeer_monitor_rejects_duplicate_ranking :
  monitor_d_case [1; 1; 0;  1; 1; 0; 0; 1; 2; 7; 250000000; 7; 250000000;  0; 2; 7; 7; 0; 0; 2; 0; 1; 1; 0; 1] = [ERR_PROPERTY; 0; 10].
Proof. vm_compute. reflexivity. Qed.

(* the order of the filters matters: a swarm with a WebSocket transport but no TCP transport, a
   peer with /tcp (address 1) and /ws (address 2) on one ip:port.  In the code's order the /ws
   address is dialed and the /tcp one reported; with the low-priority filter first the /ws
   address is silently discarded and nothing is left to dial.  The monitor of kind 6 rejects
   that answer (clause 3). *)
Example addrs_filter_order_matters :
  let info := fun a => if a =? 1 then mkAI CLS_TCP 7 false false false else mkAI CLS_WS 7 true false false in
  known_undialables info false [1; 2] = ([2], [1]) /\
  known_undialables_wrong info false [1; 2] = ([], [1]) /\
  monitor_a_case [0; 2; 1; 1; 7; 0; 0; 0; 2; 2; 7; 1; 0; 0;  2; 1; 1; 0; 1; 2; 0;  0;  1; 1] = [ERR_PROPERTY; 0; 3] /\
  monitor_a_case [0; 2; 1; 1; 7; 0; 0; 0; 2; 2; 7; 1; 0; 0;  2; 1; 1; 0; 1; 2; 0;  1; 2;  1; 1] = [].
Proof. vm_compute. repeat split. Qed.

(* the DialPeer case monitor rejects (recorded from seeded defects of the implementation):
   a call that returns an error while address 2 of its ranking is still being dialed (address 1
   ended connected to another peer) - clause 11; and a second caller for whom address 1, whose
   back-off expired before it called, is never attempted - clause 12 *)
Example dialpeer_monitor_rejects_early_error :
  monitor_d_case [4; 4; 2; 1; 2; 1; 1; 0; 0; 1; 2; 1; 0; 2; 0; 0; 2; 1; 2; 0; 2; 2; 2; 2; 1; 0; 1; 2; 10000000; 0; 0; 0; 2; 2; 2; 2; 1; 0; 1;
                  3; 1; 0; 0; 1; 1; 1; 0; 2; 1; 2; 0; 0; 0; 0; 0; 0; 0; 2; 1000000000; 0; 0; 0; 0; 0; 0; 0; 0; 0; 0;
                  2; 2000000000; 0; 0; 0; 0; 0; 0; 0; 0; 0; 0; 2; 1000000000; 0; 0; 0; 0; 0; 0; 0; 0; 0; 0] = [ERR_PROPERTY; 2; 11].
Proof. vm_compute. reflexivity. Qed.

Example dialpeer_monitor_rejects_unattempted_after_backoff_expiry :
  monitor_d_case [4; 4; 2; 1; 2; 5; 1; 0; 0; 0; 0; 0; 0; 0; 0; 0; 0; 1; 1; 0; 0; 1; 2; 1; 0; 2; 0; 0; 1; 2; 0; 1; 1; 1; 1; 1; 0; 1;
                  2; 10000000; 0; 0; 0; 1; 1; 1; 1; 1; 0; 1; 5; -1; 0; 0; 0; 1; 1; 1; 1; 1; 0; 1;
                  1; 2; 0; 0; 1; 2; 1; 0; 2; 0; 0; 0; 0; 1; 1; 1; 1; 1; 0; 2; 2; 2000000000; 0; 0; 0; 1; 1; 1; 1; 1; 0; 2;
                  2; 2000000000; 0; 0; 0; 1; 1; 1; 1; 1; 0; 2; 4; 1; 1; 1; 2; 0; 0; 1; 1; 1; 1; 1; 0; 1;
                  4; 2; 1; 2; 2; 0; 1; 2; 0; 0; 0; 0; 0; 0; 0; 2; 1000000000; 0; 0; 0; 0; 0; 0; 0; 0; 0; 0] = [ERR_PROPERTY; 5; 12].
Proof. vm_compute. reflexivity. Qed.

(* wire stimulus 5 of the limiter cases (an attempt finishes while nobody receives its result,
   then its context is cancelled), recorded from the implementation: fdLimit 1, perPeerLimit 1,
   job 1 (TCP, peer 1) runs, job 2 waits on the peer limit, job 3 (TCP, peer 2) for the FD token.
   The history of the unchanged code is reproduced by the model and accepted by the monitor: the
   tokens of job 1 go to jobs 2 and 3.  The history recorded from a seeded defect (the cancellation
   is looked at once, before the send of the result: the goroutine stays parked in the send) is
   rejected by the residue clause at the second entry of the stimulus (trace entry 4): nothing in
   flight, fdConsuming = 1. *)
Example limiter_undelivered_result_then_cancel_accepted :
  conform_lim_case [1; 1;  1; 1; 1; 1; 1;  1; 0; 0; 1; 1; 1; 0; 1; 1; 1; 1; 1;
                    1; 2; 1; 0; 2;  1; 0; 0; 1; 1; 1; 1; 1; 1; 1; 1; 1; 1; 1;
                    1; 3; 2; 1; 2;  1; 1; 0; 2; 1; 1; 2; 1; 1; 1; 1; 1; 1; 1; 1; 1;
                    5; 1; 1;  1; 1; 0; 2; 1; 1; 2; 1; 1; 1; 1; 1; 1; 1; 1; 1;
                              1; 0; 0; 2; 1; 1; 2; 1; 0; 2; 2; 1; 0; 2; 3; 2; 1; 2;
                    2; 2;  1; 0; 0; 2; 1; 1; 2; 1; 0; 2; 2; 1; 0; 2; 3; 2; 1; 2;
                    4; 2;  1; 0; 0; 1; 2; 1; 0; 1; 3; 2; 1; 2;
                    4; 3;  0; 0; 0; 0; 0; 0] = [] /\
  monitor_lim_case [1; 1;  1; 1; 1; 1; 1;  1; 0; 0; 1; 1; 1; 0; 1; 1; 1; 1; 1;
                    1; 2; 1; 0; 2;  1; 0; 0; 1; 1; 1; 1; 1; 1; 1; 1; 1; 1; 1;
                    1; 3; 2; 1; 2;  1; 1; 0; 2; 1; 1; 2; 1; 1; 1; 1; 1; 1; 1; 1; 1;
                    5; 1; 1;  1; 1; 0; 2; 1; 1; 2; 1; 1; 1; 1; 1; 1; 1; 1; 1;
                              1; 0; 0; 2; 1; 1; 2; 1; 0; 2; 2; 1; 0; 2; 3; 2; 1; 2;
                    2; 2;  1; 0; 0; 2; 1; 1; 2; 1; 0; 2; 2; 1; 0; 2; 3; 2; 1; 2;
                    4; 2;  1; 0; 0; 1; 2; 1; 0; 1; 3; 2; 1; 2;
                    4; 3;  0; 0; 0; 0; 0; 0] = [].
Proof. vm_compute. split; reflexivity. Qed.

Example limiter_monitor_rejects_tokens_kept_by_undelivered_result :
  monitor_lim_case [1; 1;  1; 1; 1; 1; 1;  1; 0; 0; 1; 1; 1; 0; 1; 1; 1; 1; 1;
                    1; 2; 1; 0; 2;  1; 0; 0; 1; 1; 1; 1; 1; 1; 1; 1; 1; 1; 1;
                    1; 3; 2; 1; 2;  1; 1; 0; 2; 1; 1; 2; 1; 1; 1; 1; 1; 1; 1; 1; 1;
                    5; 1; 1;  1; 1; 0; 2; 1; 1; 2; 1; 1; 1; 1; 1; 1; 1; 1; 1;
                              1; 1; 0; 2; 1; 1; 2; 1; 1; 1; 1; 0;
                    2; 2;  1; 1; 0; 2; 1; 1; 2; 1; 1; 1; 1; 0] = [ERR_PROPERTY; 4; 2; 1; 1].
Proof. vm_compute. reflexivity. Qed.

(* wire stimulus 8 of the DialPeer cases, recorded from a seeded defect of the implementation
   (the DialPeer timeout is not applied to a caller whose context has a deadline of its own):
   caller 1 called with a dial timeout of 40.501 ms on a context whose deadline is 11 s away;
   when the dial timeout passes the call has not returned - clause 2 *)
Example dialpeer_monitor_rejects_call_outliving_its_dial_timeout :
  monitor_d_case [2; 4; 0;  2; 1000000; 0; 0; 0; 0; 0; 0; 0; 0; 0; 0;
                  1; 1; 1; 0; 1; 2; 2; 0; 1; 0;  0; 2; 1; 2; 0; 0; 2; 0; 2; 1; 0; 1;
                  1; 2; 0; 0; 1; 2; 1; 100000000; 2; 30000000;  0; 0; 0; 0; 2; 0; 2; 1; 0; 2;
                  3; 1; 0; 0;  0; 0; 1; 1; 0; 1; 0; 1; 1; 0; 2;
                  2; 40500999;  0; 0; 0; 0; 1; 0; 1; 1; 0; 2;
                  8; 1; 40501000; 11040501000;  0; 0; 0; 0; 1; 0; 1; 1; 0; 2] = [ERR_PROPERTY; 5; 2].
Proof. vm_compute. reflexivity. Qed.

(* C05 — property theorems only.  Each is closed by [exact]/[apply] of a lemma
   from Proofs_*.v and followed by Print Assumptions. *)
From Coq Require Import List ZArith Bool Lia.
From Verif Require Import lib.Wire c05.ModelLimiter c05.SpecLimiter c05.Proofs_Limiter gen.Consts_c05.
Import ListNotations.
Local Open Scope Z_scope.

(* ---- dial limiter -------------------------------------------------------------
   For every pair of limits and EVERY finite history of AddDialJob /
   context cancellation / clearAllPeerDials / goroutine start / dialFunc return,
   in any interleaving (LBegin and LCancel may fall anywhere, so "cancel lands
   between token hand-over and dial start" is one of the histories): *)

(* tokens are exactly the jobs that hold them: fdConsuming counts the executing
   FD-consuming jobs, activePerPeer p the executing plus FD-waiting jobs of p;
   all zero when nothing executes or waits for an FD *)
Theorem c05_limiter_tokens_balanced : forall fdl ppl ops, 0 <= fdl -> 0 <= ppl ->
  let s := lrun (init_lim fdl ppl) ops in
  fdConsuming s = cnt_fd (spawned s ++ dialing s) /\
  (forall p, act_get p (activePerPeer s) =
             cnt_peer p (spawned s ++ dialing s) + cnt_peer p (waitingOnFd s)) /\
  (spawned s = [] -> dialing s = [] -> waitingOnFd s = [] ->
   fdConsuming s = 0 /\ forall p, act_get p (activePerPeer s) = 0).
Proof. exact tokens_balanced_l. Qed.
Print Assumptions c05_limiter_tokens_balanced.

(* the caps: on the token counters and on the dialFunc invocations in progress
   (provable since the repair 243a477 of freeFDToken) *)
Theorem c05_limiter_caps : forall fdl ppl ops, 0 <= fdl -> 0 <= ppl ->
  let s := lrun (init_lim fdl ppl) ops in
  0 <= fdConsuming s <= fdl /\ (forall p, 0 <= act_get p (activePerPeer s) <= ppl) /\
  cnt_fd (dialing s) <= fdl /\ (forall p, cnt_peer p (dialing s) <= ppl).
Proof. exact caps_l. Qed.
Print Assumptions c05_limiter_caps.

(* no residue and no lost wake-up: when no dial goroutine exists, no token is
   held and NO job is queued (so a queued job always has a running dial whose
   completion hands the token on) *)
Theorem c05_limiter_no_residue : forall fdl ppl ops, 1 <= fdl -> 1 <= ppl ->
  let s := lrun (init_lim fdl ppl) ops in
  spawned s = [] -> dialing s = [] ->
  fdConsuming s = 0 /\ waitingOnFd s = [] /\
  (forall p, act_get p (activePerPeer s) = 0 /\ wl_get p (waitingOnPeer s) = []).
Proof. exact no_residue_l. Qed.
Print Assumptions c05_limiter_no_residue.

(* regenerated obligation: the limits compiled into /repo satisfy the
   hypotheses of the theorems above *)
Theorem c05_default_caps_wf : 1 <= ConcurrentFdDials /\ 1 <= DefaultPerPeerRateLimit.
Proof. vm_compute. split; discriminate. Qed.
Print Assumptions c05_default_caps_wf.

(* ---- non-vacuity ----------------------------------------------------------------- *)
(* the history of the repaired defect reaches a state with a queued live job and
   the FD cap exactly saturated *)
Example witness_reachable :
  let A := mkJob 1 1 true 1 in let B := mkJob 2 2 true 2 in
  let C := mkJob 3 3 true 3 in let D := mkJob 4 2 true 4 in
  let s := lrun (init_lim 1 1)
             [LAdd A; LBegin 1; LAdd B; LAdd C; LAdd D; LCancel 2; LReturn 1; LBegin 4] in
  fdConsuming s = 1 /\ waitingOnFd s = [C] /\ dialing s = [D].
Proof. vm_compute. repeat split. Qed.

(* the monitor rejects the trace the unrepaired code produced (two FD dials in
   flight with fdLimit 1) *)
Example monitor_rejects_fd_cap_exceeded :
  monitor_lim_case [1; 1;  1; 1; 1; 1; 1;  1; 0; 0; 1; 1; 1; 0; 1; 1; 1; 1; 1;
                           1; 2; 2; 1; 2;  2; 0; 0; 2; 1; 1; 2; 1; 0; 2; 1; 1; 1; 1; 2; 2; 1; 2] <> [].
Proof. vm_compute. discriminate. Qed.

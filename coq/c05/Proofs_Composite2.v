(* C05 — composite LTS, part 2: callers, returns, generations. *)
From Coq Require Import List ZArith Bool Lia Permutation.
From Verif Require Import c05.ModelLimiter c05.Proofs_Limiter c05.Proofs_LimiterMon.
From Verif Require Import c05.ModelWorker c05.Proofs_Worker c05.Proofs_WorkerMon.
From Verif Require Import c05.ModelSync c05.Proofs_Sync c05.ModelComposite c05.Proofs_Composite.
Import ListNotations.
Local Open Scope Z_scope.

(* ---- lookups ---------------------------------------------------------------------------- *)
Lemma cget_cput : forall c c' r s, cget c' (cput c r s) = if c =? c' then Some r else cget c' s.
Proof. intros. unfold cget, cput. cprj. apply aget_aput. Qed.
Lemma wget_wput : forall g g' w s, wget g' (wput g w s) = if g =? g' then w else wget g' s.
Proof. intros. unfold wget, wput. cprj. apply aget_aput. Qed.
Lemma jget_jput : forall n n' j s, jget n' (jput n j s) = if n =? n' then Some j else jget n' s.
Proof. intros. unfold jget, jput. cprj. apply aget_aput. Qed.

Lemma sget_enter : forall q c p y, sget q (sstep y (SEnter c p)) = if p =? q then enter (sget p y) c else sget q y.
Proof. intros. cbn [sstep]. unfold sget. apply aget_aput. Qed.

Lemma sget_leave : forall q c p y, memc c (p_inside (sget p y)) = true ->
  sget q (sstep y (SLeave c p)) = if p =? q then leave_end (leave_mid (sget p y) c) else sget q y.
Proof. intros q c p y H. cbn [sstep]. rewrite H. unfold sget. apply aget_aput. Qed.

Lemma sstep_leave_noop : forall c p y, memc c (p_inside (sget p y)) = false -> sstep y (SLeave c p) = y.
Proof. intros c p y H. cbn [sstep]. rewrite H. reflexivity. Qed.

Lemma memc_In : forall c l, memc c l = true <-> In c l.
Proof.
  intros. unfold memc. rewrite existsb_exists. split.
  - intros [y [H E]]. apply Z.eqb_eq in E. subst. exact H.
  - intros H. exists c. split; [exact H | apply Z.eqb_refl].
Qed.

Lemma rm1_in : forall c l x, NoDup l -> (In x (rm1 c l) <-> In x l /\ x <> c).
Proof.
  induction l as [|y l IH]; intros x N; cbn [rm1]; [cbn; tauto|]. inversion N as [|? ? Ny Nl]; subst.
  destruct (Z.eqb_spec y c).
  - subst y. cbn [In]. split.
    + intros H. split; [right; exact H|]. intros ->. contradiction.
    + intros [[H|H] Hn]; [congruence | exact H].
  - cbn [In]. rewrite (IH x Nl). split.
    + intros [H|[H1 H2]]; [subst; split; [left; reflexivity | assumption] | split; [right; exact H1 | exact H2]].
    + intros [[H|H] Hn]; [left; exact H | right; split; assumption].
Qed.

Lemma rm1_nodup : forall c l, NoDup l -> NoDup (rm1 c l).
Proof.
  induction l as [|y l IH]; intros N; cbn [rm1]; [constructor|]. inversion N as [|? ? Ny Nl]; subst.
  destruct (y =? c); [exact Nl|]. constructor; [|apply IH, Nl].
  intros H. apply (rm1_in c l y Nl) in H. tauto.
Qed.

(* cancelledG moves only at LCancel *)
Lemma lstep_cancG : forall l o, cancelledG (lstep l o) = match o with LCancel g => g :: cancelledG l | _ => cancelledG l end.
Proof.
  intros l o. destruct o as [j|g|p|id|id]; cbn [lstep]; try reflexivity.
  - unfold add_job. destruct (perPeerLimit l <=? _); [reflexivity|].
    match goal with |- context [add_check_fd ?x j] => destruct (add_check_fd_lims x j) as [_ [_ [E _]]] end.
    rewrite E. reflexivity.
  - destruct (take_job id (spawned l)) as [[j r]|]; [|reflexivity].
    destruct (is_cancelled _ j); [rewrite finished_canc|]; reflexivity.
  - destruct (take_job id (dialing l)) as [[j r]|]; [|reflexivity]. rewrite finished_canc. reflexivity.
Qed.

(* ---- what the labels that do not involve a caller leave alone --------------------------- *)
Lemma add_jobs_frame : forall g p news s,
  let s' := fold_left (add_addr_job g p) news s in
  c_callers s' = c_callers s /\ c_rets s' = c_rets s /\ c_gen s' = c_gen s /\ c_stale s' = c_stale s /\
  c_gpeer s' = c_gpeer s /\ c_w s' = c_w s /\ c_next s <= c_next s' /\
  cancelledG (c_lim s') = cancelledG (c_lim s).
Proof.
  induction news as [|a r IH]; intros s; cbn [fold_left]; [repeat split; lia|].
  destruct (IH (add_addr_job g p s a)) as [A [B [C [D [E [F [G H]]]]]]].
  unfold add_addr_job in *. cprj. rewrite lstep_cancG in H. repeat split; try assumption. lia.
Qed.

(* ---- generations, callers and dialSync ---------------------------------------------------- *)
Definition live (r : crec) : Prop := cr_phase r <> PReturned.

Record GInv (s : cst) : Prop := mkGInv {
  g_sinv : SInv (c_sync s);
  g_nodup : forall p, NoDup (p_inside (sget p (c_sync s)));
  g_inside : forall p c, In c (p_inside (sget p (c_sync s))) <->
                         exists r, cget c s = Some r /\ cr_peer r = p /\ live r;
  g_livegen : forall c r, cget c s = Some r -> live r -> aget None (cr_peer r) (c_gen s) = Some (cr_gen r);
  g_gen : forall p g, aget None p (c_gen s) = Some g ->
            p_active (sget p (c_sync s)) = true /\ w_stopped (wget g s) = false /\
            ~ In g (cancelledG (c_lim s)) /\ ~ In g (c_stale s) /\ aget 0 g (c_gpeer s) = p /\ g < c_next s;
  g_active : forall p, p_active (sget p (c_sync s)) = true -> exists g, aget None p (c_gen s) = Some g;
  g_stale : forall g, In g (c_stale s) -> g < c_next s;
  g_canc : forall g, In g (cancelledG (c_lim s)) -> g < c_next s }.

Lemma init_ginv : forall fdl ppl fd, GInv (init_c fdl ppl fd).
Proof.
  intros. constructor; cbn; try (intros; discriminate); try tauto.
  - apply init_sinv.
  - intros p. constructor.
  - intros p c. split; [intros [] | intros [r [H _]]; discriminate].
Qed.

(* two states that agree on dialSync, generations and on who is live *)
Definition same_view (s s' : cst) : Prop :=
  forall c, match cget c s, cget c s' with
            | Some r, Some r' => cr_peer r = cr_peer r' /\ cr_gen r = cr_gen r' /\ (live r <-> live r')
            | None, None => True
            | None, Some r' => ~ live r'          (* a call answered at once *)
            | _, _ => False
            end.

Lemma ginv_frame : forall s s', GInv s ->
  c_sync s' = c_sync s -> c_gen s' = c_gen s -> c_gpeer s' = c_gpeer s -> same_view s s' ->
  (forall g, w_stopped (wget g s') = w_stopped (wget g s)) ->
  cancelledG (c_lim s') = cancelledG (c_lim s) -> incl (c_stale s') (c_stale s) ->
  c_next s <= c_next s' -> GInv s'.
Proof.
  intros s s' [SI ND IN LG GG GA GS GC] Ey Eg Ep V Ew Ec Es En.
  constructor; rewrite ?Ey, ?Eg, ?Ep, ?Ec; auto.
  - intros p c. rewrite IN. specialize (V c). split.
    + intros [r [H1 [H2 H3]]]. rewrite H1 in V. destruct (cget c s') as [r'|]; [|contradiction].
      destruct V as [V1 [V2 V3]]. exists r'. repeat split; [congruence | apply V3, H3].
    + intros [r' [H1 [H2 H3]]]. rewrite H1 in V. destruct (cget c s) as [r|]; [|contradiction].
      destruct V as [V1 [V2 V3]]. exists r. repeat split; [congruence | apply V3, H3].
  - intros c r' H1 H2. specialize (V c). rewrite H1 in V. destruct (cget c s) as [r|] eqn:E; [|contradiction].
    destruct V as [V1 [V2 V3]]. rewrite <- V1, <- V2. apply (LG c r E). apply V3, H2.
  - intros p g H. destruct (GG p g H) as [A [B [C [D [E F]]]]]. rewrite Ew. repeat split; auto; try lia.
  - intros g H. apply Es, GS in H. lia.
  - intros g H. apply GC in H. lia.
Qed.

Lemma same_view_refl : forall s s', c_callers s' = c_callers s -> same_view s s'.
Proof.
  intros s s' E c. unfold cget. rewrite E. destruct (aget None c (c_callers s)); [|exact I].
  repeat split; auto.
Qed.

Lemma same_view_cput : forall s c r r', cget c s = Some r ->
  cr_peer r = cr_peer r' -> cr_gen r = cr_gen r' -> (live r <-> live r') ->
  forall s1, c_callers s1 = c_callers s -> same_view s (cput c r' s1).
Proof.
  intros s c r r' H A B C s1 E x. rewrite cget_cput. destruct (c =? x) eqn:Ex.
  - apply Z.eqb_eq in Ex. subst x. rewrite H. auto.
  - assert (Hx : cget x s1 = cget x s) by (unfold cget; rewrite E; reflexivity).
    rewrite Hx. destruct (cget x s); [repeat split; auto | exact I].
Qed.

Lemma wstopped_wput_step : forall s g e, e <> WClose ->
  forall g', w_stopped (wget g' (wput g (wstep (wget g s) e) s)) = w_stopped (wget g' s).
Proof.
  intros s g e Hn g'. rewrite wget_wput. destruct (g =? g') eqn:E; [|reflexivity].
  apply Z.eqb_eq in E. subst g'. rewrite wstep_stopped_eq. destruct e; try congruence; apply orb_false_r.
Qed.

(* the labels that neither enter nor leave dialSync *)
Lemma ginv_deliver : forall s c best rank, GInv s -> GInv (cstep s (CDeliver c best rank)).
Proof.
  intros s c best rank G. cbn [cstep]. destruct (cget c s) as [r|] eqn:Ec; [|exact G].
  destruct (cr_phase r) eqn:Ep; try exact G.
  eapply ginv_frame; [exact G|..]; cprj; try reflexivity; try apply incl_refl; try lia.
  - eapply same_view_cput; eauto; try reflexivity. unfold live. cbn. rewrite Ep. split; intros _; discriminate.
  - intros g'. unfold wget. cprj. apply (wstopped_wput_step s (cr_gen r)). discriminate.
Qed.

Lemma ginv_cancel : forall s c, GInv s -> GInv (cstep s (CCancel c)).
Proof.
  intros s c G. cbn [cstep]. destruct (cget c s) as [r|] eqn:Ec; [|exact G].
  assert (X : GInv (cput c (set_canc r) s)).
  { eapply ginv_frame; [exact G|..]; cprj; try reflexivity; try apply incl_refl; try lia.
    eapply same_view_cput; eauto; try reflexivity; try (unfold live; cbn; tauto). }
  destruct (cr_phase r); [exact X | exact X | exact G].
Qed.

Lemma ginv_timer : forall s g bo bestl, GInv s -> GInv (cstep s (CTimer g bo bestl)).
Proof.
  intros s g bo bestl G. cbn [cstep]. destruct (g <? c_next s); [|exact G].
  match goal with |- GInv (fold_left ?f ?news ?s0) => destruct (add_jobs_frame g (aget 0 g (c_gpeer s)) news s0) as [A [B [C [D [E [F [H K]]]]]]] end.
  eapply ginv_frame; [exact G|..].
  - rewrite add_jobs_sync. reflexivity.
  - rewrite C. reflexivity.
  - rewrite E. reflexivity.
  - apply same_view_refl. rewrite A. reflexivity.
  - intros g'. unfold wget at 1. rewrite F. cprj. apply (wstopped_wput_step s g). discriminate.
  - rewrite K. reflexivity.
  - rewrite D. apply incl_refl.
  - cprj. lia.
Qed.

Lemma ginv_limop : forall s o, GInv s -> (forall g, o <> LCancel g) -> GInv (lim_do s o).
Proof.
  intros s o G Hn. eapply ginv_frame; [exact G|..]; cprj; try reflexivity.
  - apply same_view_refl. reflexivity.
  - rewrite lstep_cancG. destruct o; try reflexivity. exfalso. apply (Hn g). reflexivity.
  - intros x Hx. exact Hx.
Qed.

Lemma ginv_res : forall s n r bestl, GInv s -> GInv (cstep s (CRes n r bestl)).
Proof.
  intros s n r bestl G. cbn [cstep]. destruct (jget n s) as [j|]; [|exact G].
  destruct (_ && _); [|exact G].
  eapply ginv_frame; [exact G|..]; cprj; try reflexivity; try apply incl_refl; try lia.
  - apply same_view_refl. reflexivity.
  - intros g'. unfold wget. cprj. apply (wstopped_wput_step s (jr_gen j)). discriminate.
Qed.

Lemma ginv_exit : forall s g, GInv s -> GInv (cstep s (CExit g)).
Proof.
  intros s g G. cbn [cstep]. destruct (memz g (c_stale s)); [|exact G].
  eapply ginv_frame; [exact G|..]; cprj; try reflexivity; try apply incl_refl; try lia.
  - apply same_view_refl. reflexivity.
  - intros x Hx. clear -Hx. induction (c_stale s) as [|y l IH]; cbn [remove1] in Hx; [destruct Hx|].
    destruct (y =? g); [right; exact Hx|]. destruct Hx as [Hx|Hx]; [left; exact Hx | right; apply IH, Hx].
Qed.

Lemma enter_inside : forall ps c, p_inside (enter ps c) = c :: p_inside ps /\ p_active (enter ps c) = true.
Proof. intros. unfold enter. destruct (p_active ps) eqn:E; cbn; rewrite ?E; auto. Qed.

Lemma ginv_call : forall s c p sim fdir best, GInv s -> GInv (cstep s (CCall c p sim fdir best)).
Proof.
  intros s c p sim fdir best G. cbn [cstep]. destruct (cget c s) as [r0|] eqn:Ec; [exact G|].
  destruct best.
  { (* answered at once *)
    eapply ginv_frame; [exact G|..]; cprj; try reflexivity; try lia; try (intros x Hx; exact Hx).
    intros x. unfold cget in *. cprj. rewrite aget_aput. destruct (c =? x) eqn:Ex.
    - apply Z.eqb_eq in Ex. subst x. rewrite Ec. unfold live. cbn. intros H. apply H. reflexivity.
    - destruct (aget None x (c_callers s)); [repeat split; auto | exact I]. }
  pose proof G as [SI ND IN LG GG GA GS GC].
  assert (Cnew : forall q, ~ In c (p_inside (sget q (c_sync s)))).
  { intros q H. apply IN in H. destruct H as [r [H _]]. congruence. }
  set (y' := sstep (c_sync s) (SEnter c p)).
  assert (SI' : SInv y') by (apply sstep_inv, SI).
  destruct (enter_inside (sget p (c_sync s)) c) as [Ei Ea].
  assert (Sg : forall q, sget q y' = if p =? q then enter (sget p (c_sync s)) c else sget q (c_sync s))
    by (intros; apply sget_enter).
  destruct (p_active (sget p (c_sync s))) eqn:Hact.
  - (* joins the active dial *)
    cprj. destruct (aget None p (c_gen s)) as [g|] eqn:Hg; [|exact G].
    set (rc := mkC p g PSending false sim fdir).
    assert (Cg : forall x, cget x (cput c rc (set_sync s y')) = if c =? x then Some rc else cget x s).
    { intros x. rewrite cget_cput. reflexivity. }
    constructor; cprj; auto.
    + intros q. rewrite Sg. destruct (p =? q) eqn:E; [|apply ND]. rewrite Ei. constructor; [apply Cnew | apply ND].
    + intros q x. rewrite Sg, Cg. destruct (p =? q) eqn:E.
      * apply Z.eqb_eq in E. subst q. rewrite Ei. cbn [In]. split.
        -- intros [H|H]; [subst x; rewrite Z.eqb_refl; exists rc; repeat split; discriminate|].
           destruct (c =? x) eqn:Ex; [apply Z.eqb_eq in Ex; subst; exfalso; apply (Cnew p), H|]. apply IN, H.
        -- intros [r [H1 [H2 H3]]]. destruct (c =? x) eqn:Ex; [left; apply Z.eqb_eq, Ex|]. right. apply IN. exists r. auto.
      * split.
        -- intros H. destruct (c =? x) eqn:Ex; [apply Z.eqb_eq in Ex; subst; exfalso; apply (Cnew q), H|]. apply IN, H.
        -- intros [r [H1 [H2 H3]]]. destruct (c =? x) eqn:Ex.
           ++ inversion H1; subst r. cbn in H2. apply Z.eqb_neq in E. congruence.
           ++ apply IN. exists r. auto.
    + intros x r. rewrite Cg. destruct (c =? x); [intros H _; inversion H; subst; exact Hg | apply LG].
    + intros q g' H. destruct (GG q g' H) as [A [B [C [D [E F]]]]]. rewrite Sg. repeat split; auto.
      destruct (p =? q); [exact Ea | exact A].
    + intros q. rewrite Sg. destruct (p =? q) eqn:E; [apply Z.eqb_eq in E; subst; intros _; eauto | apply GA].
  - (* a new active dial, a new worker *)
    cprj. set (g := c_next s). set (rc := mkC p g PSending false sim fdir).
    assert (Empty : p_inside (sget p (c_sync s)) = []).
    { destruct (p_inside (sget p (c_sync s))) eqn:E; [reflexivity|]. exfalso.
      destruct (SI p) as [_ A _ _ _ _]. assert (X : p_active (sget p (c_sync s)) = true) by (apply A; rewrite E; discriminate).
      congruence. }
    constructor; cprj; auto.
    + intros q. rewrite Sg. destruct (p =? q) eqn:E; [|apply ND]. rewrite Ei. constructor; [apply Cnew | apply ND].
    + intros q x. rewrite Sg. unfold cget. cprj. rewrite aget_aput. fold (cget x s). destruct (p =? q) eqn:E.
      * apply Z.eqb_eq in E. subst q. rewrite Ei, Empty. cbn [In]. split.
        -- intros [H|[]]. subst x. rewrite Z.eqb_refl. exists rc. repeat split; discriminate.
        -- intros [r [H1 [H2 H3]]]. destruct (c =? x) eqn:Ex; [left; apply Z.eqb_eq, Ex|]. exfalso.
           assert (X : In x (p_inside (sget p (c_sync s)))) by (apply IN; exists r; auto). rewrite Empty in X. destruct X.
      * split.
        -- intros H. destruct (c =? x) eqn:Ex; [apply Z.eqb_eq in Ex; subst; exfalso; apply (Cnew q), H|]. apply IN, H.
        -- intros [r [H1 [H2 H3]]]. destruct (c =? x) eqn:Ex.
           ++ inversion H1; subst r. cbn in H2. apply Z.eqb_neq in E. congruence.
           ++ apply IN. exists r. auto.
    + intros x r. unfold cget. cprj. rewrite !aget_aput. fold (cget x s).
      destruct (c =? x); [intros H _; inversion H; subst; cbn; rewrite Z.eqb_refl; reflexivity|].
      intros H L. destruct (p =? cr_peer r) eqn:E; [|apply (LG x r); auto]. exfalso. apply Z.eqb_eq in E.
      assert (X : In x (p_inside (sget p (c_sync s)))) by (apply IN; exists r; auto). rewrite Empty in X. destruct X.
    + intros q g'. rewrite aget_aput, Sg. unfold wget. cprj. rewrite !aget_aput. destruct (p =? q) eqn:E.
      * intros H. inversion H; subst g'. apply Z.eqb_eq in E. subst q. rewrite !Z.eqb_refl. repeat split; auto; try lia.
        -- intros H1. apply GC in H1. unfold g in H1. lia.
        -- intros H1. apply GS in H1. unfold g in H1. lia.
      * intros H. destruct (GG q g' H) as [A [B [C [D [E' F]]]]].
        assert (Ng : (g =? g') = false) by (apply Z.eqb_neq; unfold g; lia).
        rewrite Ng. repeat split; auto. lia.
    + intros q. rewrite Sg, aget_aput. destruct (p =? q) eqn:E; [intros _; eauto | apply GA].
    + intros g' H. apply GS in H. lia.
    + intros g' H. apply GC in H. lia.
Qed.

Lemma leave_fields : forall ps c,
  p_inside (leave_end (leave_mid ps c)) = rm1 c (p_inside ps).
Proof. intros. unfold leave_end, leave_mid. cbn. destruct (p_ref ps - 1 =? 0); reflexivity. Qed.

Lemma ginv_do_leave : forall s c r k, GInv s -> cget c s = Some r -> live r -> GInv (do_leave s c r k).
Proof.
  intros s c r k G Ec Lr. pose proof G as [SI ND IN LG GG GA GS GC].
  set (p := cr_peer r). set (g := cr_gen r).
  assert (Hin : In c (p_inside (sget p (c_sync s)))) by (apply IN; exists r; auto).
  assert (Hm : memc c (p_inside (sget p (c_sync s))) = true) by (apply memc_In, Hin).
  assert (Hg : aget None p (c_gen s) = Some g) by (apply (LG c r); auto).
  destruct (GG p g Hg) as [Ga [Gb [Gc [Gd [Ge Gf]]]]].
  set (y' := sstep (c_sync s) (SLeave c p)).
  assert (SI' : SInv y') by (apply sstep_inv, SI).
  assert (Sg : forall q, sget q y' = if p =? q then leave_end (leave_mid (sget p (c_sync s)) c) else sget q (c_sync s))
    by (intros; apply sget_leave, Hm).
  set (rc := set_phase r PReturned).
  assert (Cg : forall x s0, c_callers s0 = aput c (Some rc) (c_callers s) -> cget x s0 = if c =? x then Some rc else cget x s).
  { intros x s0 E. unfold cget. rewrite E. apply aget_aput. }
  assert (Nl : ~ live rc) by (unfold live, rc; cbn; intros H; apply H; reflexivity).
  (* who is inside after the leave *)
  assert (INp : forall x, In x (p_inside (sget p y')) <-> exists r', (if c =? x then Some rc else cget x s) = Some r' /\ cr_peer r' = p /\ live r').
  { intros x. rewrite Sg, Z.eqb_refl, leave_fields, (rm1_in c _ x (ND p)), IN. split.
    - intros [[r' [H1 [H2 H3]]] Hn]. destruct (c =? x) eqn:Ex; [apply Z.eqb_eq in Ex; congruence|]. exists r'. auto.
    - intros [r' [H1 [H2 H3]]]. destruct (c =? x) eqn:Ex; [inversion H1; subst; contradiction|].
      split; [exists r'; auto | intros ->; rewrite Z.eqb_refl in Ex; discriminate]. }
  assert (INq : forall q x, q <> p -> (In x (p_inside (sget q y')) <-> exists r', (if c =? x then Some rc else cget x s) = Some r' /\ cr_peer r' = q /\ live r')).
  { intros q x Hq. rewrite Sg. destruct (p =? q) eqn:E; [apply Z.eqb_eq in E; congruence|]. rewrite IN. split.
    - intros [r' [H1 [H2 H3]]]. destruct (c =? x) eqn:Ex.
      + apply Z.eqb_eq in Ex. subst x. rewrite Ec in H1. inversion H1; subst r'. fold p in H2. congruence.
      + exists r'. auto.
    - intros [r' [H1 [H2 H3]]]. destruct (c =? x) eqn:Ex; [inversion H1; subst; contradiction | exists r'; auto]. }
  assert (INall : forall q x, In x (p_inside (sget q y')) <-> exists r', (if c =? x then Some rc else cget x s) = Some r' /\ cr_peer r' = q /\ live r').
  { intros q x. destruct (Z.eq_dec q p) as [->|N]; [apply INp | apply INq, N]. }
  assert (NDall : forall q, NoDup (p_inside (sget q y'))).
  { intros q. rewrite Sg. destruct (p =? q); [rewrite leave_fields; apply rm1_nodup, ND | apply ND]. }
  unfold do_leave. fold p g y'. cprj.
  destruct (p_active (sget p y')) eqn:Hact.
  - (* others are still inside: the active dial stays *)
    constructor; cprj; auto.
    + intros q x. erewrite (Cg x) by reflexivity. apply INall.
    + intros x r'. erewrite (Cg x) by reflexivity. destruct (c =? x); [intros H; inversion H; subst; contradiction | apply LG].
    + intros q g' H. destruct (GG q g' H) as [A [B [C [D [E F]]]]]. repeat split; auto.
      destruct (Z.eq_dec q p) as [->|N]; [exact Hact|]. rewrite Sg.
      destruct (p =? q) eqn:E'; [apply Z.eqb_eq in E'; congruence | exact A].
    + intros q H. destruct (Z.eq_dec q p) as [->|N]; [eauto|]. apply GA. rewrite Sg in H.
      destruct (p =? q) eqn:E'; [apply Z.eqb_eq in E'; congruence | exact H].
  - (* the last caller: the generation is closed *)
    assert (Empty : p_inside (sget p y') = []).
    { destruct (p_inside (sget p y')) eqn:E; [reflexivity|]. exfalso. destruct (SI' p) as [_ A _ _ _ _].
      assert (X : p_active (sget p y') = true) by (apply A; rewrite E; discriminate). congruence. }
    assert (Gother : forall q g', q <> p -> aget None q (c_gen s) = Some g' -> g' <> g).
    { intros q g' N H Eq. subst g'. destruct (GG q g H) as [_ [_ [_ [_ [E _]]]]]. congruence. }
    constructor; cprj; auto.
    + intros q x. erewrite (Cg x) by reflexivity. apply INall.
    + intros x r'. erewrite (Cg x) by reflexivity. destruct (c =? x) eqn:Ex; [intros H; inversion H; subst; contradiction|].
      intros H L. rewrite aget_adel. destruct (p =? cr_peer r') eqn:E.
      * exfalso. apply Z.eqb_eq in E. assert (X : In x (p_inside (sget p y'))).
        { apply INall. rewrite Ex. exists r'. auto. }
        rewrite Empty in X. destruct X.
      * apply (LG x r'); auto.
    + intros q g'. rewrite aget_adel. destruct (p =? q) eqn:E; [discriminate|]. intros H.
      assert (N : q <> p) by (intros ->; rewrite Z.eqb_refl in E; discriminate).
      destruct (GG q g' H) as [A [B [C [D [E' F]]]]]. pose proof (Gother q g' N H) as Ng.
      rewrite Sg, E. unfold wget. cprj. rewrite aget_aput, lstep_cancG.
      destruct (g =? g') eqn:Eg; [apply Z.eqb_eq in Eg; congruence|]. repeat split; auto.
      * intros [X|X]; [congruence | contradiction].
      * intros X. apply in_app_or in X. destruct X as [X|[X|[]]]; [contradiction | congruence].
    + intros q H. rewrite aget_adel. destruct (p =? q) eqn:E; [apply Z.eqb_eq in E; subst; congruence|].
      apply GA. rewrite Sg, E in H. exact H.
    + intros g' X. apply in_app_or in X. destruct X as [X|[X|[]]]; [apply GS, X | subst; exact Gf].
    + intros g'. rewrite lstep_cancG. intros [X|X]; [subst; exact Gf | apply GC, X].
Qed.

Lemma ginv_leave : forall s c pick, GInv s -> GInv (cstep s (CLeave c pick)).
Proof.
  intros s c pick G. cbn [cstep]. destruct (cget c s) as [r|] eqn:Ec; [|exact G].
  assert (L : cr_phase r <> PReturned -> forall k, GInv (do_leave s c r k)).
  { intros Hp k. apply ginv_do_leave; auto. }
  destruct (cr_phase r) eqn:Ep; try exact G.
  - destruct (cr_canc r); [apply L; discriminate | exact G].
  - destruct (resp_of c _) as [[|]|]; try (apply L; discriminate).
    destruct (cr_canc r); [apply L; discriminate | exact G].
Qed.

Lemma cstep_ginv : forall s l, GInv s -> GInv (cstep s l).
Proof.
  intros s l G. destruct l.
  - apply ginv_call, G.
  - apply ginv_deliver, G.
  - apply ginv_timer, G.
  - apply (ginv_limop s (LBegin n) G). discriminate.
  - apply ginv_res, G.
  - cbn [cstep]. destruct (jget n s) as [j|]; [|exact G]. destruct (jr_reported j); [|exact G].
    apply (ginv_limop s (LReturn n) G). discriminate.
  - apply ginv_cancel, G.
  - apply ginv_leave, G.
  - apply ginv_exit, G.
Qed.

Lemma crun_ginv : forall ls s, GInv s -> GInv (crun s ls).
Proof.
  induction ls as [|l r IH]; intros s G; cbn [crun fold_left]; [exact G|]. apply IH, cstep_ginv, G.
Qed.

(* ---- every call is answered at most once --------------------------------------------------- *)
Record RInv (s : cst) : Prop := mkRInv {
  r_nodup : NoDup (map fst (c_rets s));
  r_ret : forall c, In c (map fst (c_rets s)) -> exists r, cget c s = Some r /\ cr_phase r = PReturned }.

Lemma rinv_frame : forall s s', RInv s -> c_rets s' = c_rets s ->
  (forall c r, cget c s = Some r -> cr_phase r = PReturned -> exists r', cget c s' = Some r' /\ cr_phase r' = PReturned) ->
  RInv s'.
Proof.
  intros s s' [N R] E K. constructor; rewrite E; [exact N|].
  intros c H. destruct (R c H) as [r [A B]]. apply (K c r A B).
Qed.

Lemma rinv_add : forall s s' c k, RInv s -> c_rets s' = c_rets s ++ [(c, k)] ->
  ~ In c (map fst (c_rets s)) ->
  (exists r', cget c s' = Some r' /\ cr_phase r' = PReturned) ->
  (forall x r, x <> c -> cget x s = Some r -> cr_phase r = PReturned -> exists r', cget x s' = Some r' /\ cr_phase r' = PReturned) ->
  RInv s'.
Proof.
  intros s s' c k [N R] E F Hc K. constructor; rewrite E, map_app; cbn [map fst].
  - apply NoDup_snoc; assumption.
  - intros x H. apply in_app_or in H. destruct H as [H|[H|[]]]; [|subst x; exact Hc].
    destruct (Z.eq_dec x c) as [->|Nx]; [exact Hc|]. destruct (R x H) as [r [A B]]. apply (K x r Nx A B).
Qed.

Lemma rinv_do_leave : forall s c r k, RInv s -> cget c s = Some r -> cr_phase r <> PReturned ->
  RInv (do_leave s c r k).
Proof.
  intros s c r k RI Ec Hp.
  assert (F : ~ In c (map fst (c_rets s))).
  { intros H. destruct RI as [_ R]. destruct (R c H) as [r' [A B]]. congruence. }
  assert (Cg : forall x s0, c_callers s0 = aput c (Some (set_phase r PReturned)) (c_callers s) ->
               cget x s0 = if c =? x then Some (set_phase r PReturned) else cget x s).
  { intros x s0 E. unfold cget. rewrite E. apply aget_aput. }
  unfold do_leave. cprj. destruct (p_active _).
  - eapply (rinv_add s _ c k RI); cprj; [reflexivity | exact F | |].
    + erewrite (Cg c) by reflexivity. rewrite Z.eqb_refl. eexists. split; reflexivity.
    + intros x r0 Nx A B. erewrite (Cg x) by reflexivity.
      destruct (c =? x) eqn:E; [apply Z.eqb_eq in E; congruence | eauto].
  - eapply (rinv_add s _ c k RI); cprj; [reflexivity | exact F | |].
    + erewrite (Cg c) by reflexivity. rewrite Z.eqb_refl. eexists. split; reflexivity.
    + intros x r0 Nx A B. erewrite (Cg x) by reflexivity.
      destruct (c =? x) eqn:E; [apply Z.eqb_eq in E; congruence | eauto].
Qed.

Lemma cstep_rinv : forall s l, RInv s -> RInv (cstep s l).
Proof.
  intros s l RI. destruct l; cbn [cstep].
  - destruct (cget c s) as [r0|] eqn:Ec; [exact RI|].
    assert (F : ~ In c (map fst (c_rets s))).
    { intros H. destruct RI as [_ R]. destruct (R c H) as [r' [A B]]. congruence. }
    assert (K : forall s0 rc, c_callers s0 = aput c (Some rc) (c_callers s) -> c_rets s0 = c_rets s -> RInv s0).
    { intros s0 rc E1 E2. eapply rinv_frame; [exact RI | exact E2|].
      intros x r A B. unfold cget in *. rewrite E1, aget_aput.
      destruct (c =? x) eqn:E; [apply Z.eqb_eq in E; subst; congruence | eauto]. }
    destruct best.
    + eapply (rinv_add s _ c 0 RI); cprj; [reflexivity | exact F | |].
      * unfold cget. cprj. rewrite aget_aput, Z.eqb_refl. eexists. split; reflexivity.
      * intros x r Nx A B. unfold cget in *. cprj. rewrite aget_aput.
        destruct (c =? x) eqn:E; [apply Z.eqb_eq in E; congruence | eauto].
    + destruct (p_active _); cprj.
      * destruct (aget None p (c_gen s)); [|exact RI]. eapply K; reflexivity.
      * eapply K; reflexivity.
  - destruct (cget c s) as [r|] eqn:Ec; [|exact RI]. destruct (cr_phase r) eqn:Ep; try exact RI.
    eapply rinv_frame; [exact RI | reflexivity|]. intros x r0 A B. unfold cget in *. cprj. rewrite aget_aput.
    destruct (c =? x) eqn:E; [apply Z.eqb_eq in E; subst; congruence | eauto].
  - destruct (g <? c_next s); [|exact RI].
    match goal with |- RInv (fold_left ?f ?news ?s0) =>
      destruct (add_jobs_frame g (aget 0 g (c_gpeer s)) news s0) as [A [B _]] end.
    eapply rinv_frame; [exact RI | rewrite B; reflexivity|]. intros x r X Y. unfold cget in *. rewrite A. eauto.
  - eapply rinv_frame; [exact RI | reflexivity | eauto].
  - destruct (jget n s) as [j|]; [|exact RI]. destruct (_ && _); [|exact RI].
    eapply rinv_frame; [exact RI | reflexivity | eauto].
  - destruct (jget n s) as [j|]; [|exact RI]. destruct (jr_reported j); [|exact RI].
    eapply rinv_frame; [exact RI | reflexivity | eauto].
  - destruct (cget c s) as [r|] eqn:Ec; [|exact RI]. destruct (cr_phase r) eqn:Ep; try exact RI;
      (eapply rinv_frame; [exact RI | reflexivity|]; intros x r0 A B; unfold cget in *; cprj; rewrite aget_aput;
       destruct (c =? x) eqn:E; [apply Z.eqb_eq in E; subst; congruence | eauto]).
  - destruct (cget c s) as [r|] eqn:Ec; [|exact RI].
    assert (L : cr_phase r <> PReturned -> forall k, RInv (do_leave s c r k)) by (intros; apply rinv_do_leave; auto).
    destruct (cr_phase r) eqn:Ep; try exact RI.
    + destruct (cr_canc r); [apply L; discriminate | exact RI].
    + destruct (resp_of c _) as [[|]|]; try (apply L; discriminate).
      destruct (cr_canc r); [apply L; discriminate | exact RI].
  - destruct (memz g (c_stale s)); [|exact RI]. eapply rinv_frame; [exact RI | reflexivity | eauto].
Qed.

Lemma crun_rinv : forall ls s, RInv s -> RInv (crun s ls).
Proof.
  induction ls as [|l r IH]; intros s G; cbn [crun fold_left]; [exact G|]. apply IH, cstep_rinv, G.
Qed.

Lemma init_rinv : forall fdl ppl fd, RInv (init_c fdl ppl fd).
Proof. intros. constructor; cbn; [constructor | intros c []]. Qed.

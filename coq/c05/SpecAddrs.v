(* C05 — addrsForDial against the real Swarm (wire kind 6).  One case = one call of
   s.addrsForDial(ctx, p) made by the DialPeer harness:

     6 fdir  n (id cls grp tpt unspec proxy)*n   m (k (id suffix)*k)*m   nout (id)*nout  nerr (id)*nerr

   the table of the addresses of the case as the harness built them (class 1 tcp, 2 ws/wss,
   3 quic-v1, 4 webtransport, 0 other; ip:port group; whether one of the fake transports of the
   swarm claims the address; unspecified IP; relayed), the peerstore entries by what they resolve
   to (scripted resolver), and what the implementation returned: the addresses to dial and the
   addresses reported with an error.  Addresses are numbered after stripping /p2p/<peer>.
   conform: the transcription of the pipeline (ModelAddrs) gives the same two sets.
   monitor: the characterisation proved of the pipeline, evaluated directly:
     1  an address is returned twice
     2  a returned address is not one some entry resolves to, has no transport, has an
        unspecified IP, is relayed under ForceDirectDial, or is a /ws (/webtransport) address
        while a DIALABLE /tcp (/quic-v1) address of the same ip:port is known
     3  an address that none of these excludes is not returned (silently discarded)
     4  the addresses reported with an error are not exactly those without a transport. *)
From Coq Require Import List ZArith Bool.
From Verif Require Import lib.Wire c05.ModelLimiter c05.ModelWorker c05.SpecLimiter c05.SpecWorker c05.ModelAddrs.
Import ListNotations.
Local Open Scope Z_scope.

Fixpoint take_infos (n : nat) (l : list Z) : option (list (Z * ainfo) * list Z) :=
  match n with
  | O => Some ([], l)
  | S k => match l with
           | id :: c :: g :: t :: u :: p :: r =>
               match take_infos k r with
               | Some (x, r') => Some ((id, mkAI c g (zbool t) (zbool u) (zbool p)) :: x, r')
               | None => None end
           | _ => None end
  end.

Fixpoint take_entries (n : nat) (l : list Z) : option (list pent * list Z) :=
  match n with
  | O => Some ([], l)
  | S k => match l with
           | c :: r =>
               if small c then
                 match take_pairs (Z.to_nat c) r with
                 | Some (ps, r1) =>
                     match take_entries k r1 with
                     | Some (x, r') => Some (map (fun q => (fst q, zbool (snd q))) ps :: x, r')
                     | None => None end
                 | None => None end
               else None
           | [] => None end
  end.

Fixpoint info_of (tbl : list (Z * ainfo)) (a : Z) : ainfo :=
  match tbl with
  | [] => mkAI 0 0 false false false
  | (k, v) :: r => if k =? a then v else info_of r a
  end.

Record acase := mkAC { ac_fdir : bool; ac_tbl : list (Z * ainfo); ac_es : list pent; ac_out : list Z; ac_err : list Z }.

Definition decode_acase (l : list Z) : option acase :=
  match l with
  | fdir :: n :: r =>
      if small n then
      match take_infos (Z.to_nat n) r with
      | Some (tbl, m :: r1) =>
          if small m then
          match take_entries (Z.to_nat m) r1 with
          | Some (es, nout :: r2) =>
              if small nout then
              match take_zs (Z.to_nat nout) r2 with
              | Some (out, nerr :: r3) =>
                  if small nerr then
                  match take_zs (Z.to_nat nerr) r3 with
                  | Some (errs, []) => Some (mkAC (zbool fdir) tbl es out errs)
                  | _ => None end
                  else None
              | _ => None end
              else None
          | _ => None end
          else None
      | _ => None end
      else None
  | _ => None
  end.

Definition conform_a_case (l : list Z) : list Z :=
  match decode_acase l with
  | Some c =>
      let (out, errs) := addrs_pipeline (info_of (ac_tbl c)) (ac_fdir c) (ac_es c) in
      if list_eqb Z.eqb (sort_z out) (sort_z (ac_out c)) && list_eqb Z.eqb (sort_z errs) (sort_z (ac_err c)) then []
      else [ERR_MISMATCH; 0; zlen out; zlen (ac_out c); zlen errs; zlen (ac_err c)]
  | None => [ERR_MALFORMED; 60]
  end.

(* the specification, evaluated without the pipeline *)
Definition should_dial (info : Z -> ainfo) (fdir : bool) (u : list Z) (a : Z) : bool :=
  memz a u && ai_tpt (info a) && negb (ai_unspec (info a)) && negb (fdir && ai_proxy (info a)) &&
  negb (let pc := preferred_cls (ai_cls (info a)) in
        negb (pc =? 0) && negb (ai_grp (info a) =? 0) &&
        existsb (fun b => ai_tpt (info b) && (ai_cls (info b) =? pc) && (ai_grp (info b) =? ai_grp (info a))) u).

Definition monitor_a_case (l : list Z) : list Z :=
  match decode_acase l with
  | Some c =>
      let info := info_of (ac_tbl c) in
      let u := strip_p2p (resolve_all (ac_es c)) in
      if negb (nodup_z (ac_out c)) then [ERR_PROPERTY; 0; 1]
      else if negb (forallb (should_dial info (ac_fdir c) u) (ac_out c)) then [ERR_PROPERTY; 0; 2]
      else if negb (forallb (fun a => negb (should_dial info (ac_fdir c) u a) || memz a (ac_out c)) u) then [ERR_PROPERTY; 0; 3]
      else if negb (forallb (fun a => memz a u && negb (ai_tpt (info a))) (ac_err c) &&
                    forallb (fun a => ai_tpt (info a) || memz a (ac_err c)) u && nodup_z (ac_err c)) then [ERR_PROPERTY; 0; 4]
      else []
  | None => [ERR_MALFORMED; 60]
  end.

(* C05 — the dial worker loop (p2p/net/swarm/dial_worker.go) as an
   event-driven state machine.  One event = one iteration of the `select` in
   dialWorker.loop.  No proofs here.

   Go state                                   model
   ---------------------------------------    ------------------------------------
   w.pendingRequests map[*pendRequest]        w_pending : list preq (request id, the
     (pr.addrs: addresses still waited on)      remaining addresses)
   w.trackedDials map[string]*addrDial        w_tracked : assoc addr -> option adial
                                                (a stored value is always Some)
   dq (local dialQueue, ordered by delay)     w_dq : list (addr * delay)
   dialsInFlight (local)                      w_inflight : Z
   w.connected                                w_connected
   timerRunning / dialTimer target            w_timer : option Z (offset from startTime)
   loop returned (reqch closed)               w_stopped

   Ghost history (never read by the handlers):
     w_resps   every response sent on a request's resch, in order
     w_dials   every address for which dialNextAddr started a dial (limiter job)
     w_refused every address refused by back-off at dial time
     w_asked   every address that was ever put into trackedDials
     w_seen    ids of the requests received
     w_flying  addresses whose dial has started and has not reported its final result

   What the environment answers inside a handler travels with the event:
   bestAcceptableConnToPeer (per request), addrsForDial + ranking, the back-off
   table consulted by dialNextAddr, addConn's verdict, the clock. *)
From Coq Require Import List ZArith Bool.
From Verif Require Import c05.ModelLimiter gen.Consts_c05.
Import ListNotations.
Local Open Scope Z_scope.

Inductive dstatus := DPending | DConn | DErr.

(* addrDial: dialed; conn/err; the two context values the worker reads from ad.ctx *)
Record adial := mkAd { ad_dialed : bool; ad_st : dstatus; ad_fdir : bool; ad_sim : bool;
                       ad_upg : option Z (* expectedTCPUpgradeTime, offset from startTime *) }.

Record preq := mkPr { pr_id : Z; pr_addrs : list Z }.

Inductive resp := RespConn | RespErr.

Inductive derr := ECanceled | EOther | EBackoff.

Inductive dres :=
| DROk (addok : bool)              (* a connection; addok = s.addConn accepted it *)
| DRFail (e : derr)
| DRProgress (pub : bool) (now : Z). (* UpdateKindHandshakeProgressed; manet.IsPublicAddr; w.cl.Now() *)

Inductive wev :=
| WReq (rid : Z) (sim fdir : bool)
       (best : bool)                       (* bestAcceptableConnToPeer(req.ctx) != nil *)
       (rank : option (list (Z * Z)))      (* None: addrsForDial failed; Some: rankAddrs output *)
| WTimer (bo : list Z)                     (* addresses for which s.backf.Backoff holds now *)
         (bestl : list Z)                  (* requests for which an acceptable conn exists now *)
| WRes (a : Z) (r : dres) (bestl : list Z)
| WClose.

Record wst := mkW {
  w_pending : list preq;
  w_tracked : list (Z * option adial);
  w_dq : list (Z * Z);
  w_inflight : Z;
  w_connected : bool;
  w_timer : option Z;
  w_stopped : bool;
  w_resps : list (Z * resp);
  w_dials : list Z;
  w_refused : list Z;
  w_asked : list Z;
  w_seen : list Z;
  w_flying : list Z }.

(* MaxInt64 timer: armed, never fires *)
Definition FAR : Z := 9223372036854775807.
Definition init_w : wst := mkW [] [] [] 0 false (Some FAR) false [] [] [] [] [] [].

Definition set_pending (s : wst) v := mkW v (w_tracked s) (w_dq s) (w_inflight s) (w_connected s) (w_timer s) (w_stopped s) (w_resps s) (w_dials s) (w_refused s) (w_asked s) (w_seen s) (w_flying s).
Definition set_tracked (s : wst) v := mkW (w_pending s) v (w_dq s) (w_inflight s) (w_connected s) (w_timer s) (w_stopped s) (w_resps s) (w_dials s) (w_refused s) (w_asked s) (w_seen s) (w_flying s).
Definition set_dq (s : wst) v := mkW (w_pending s) (w_tracked s) v (w_inflight s) (w_connected s) (w_timer s) (w_stopped s) (w_resps s) (w_dials s) (w_refused s) (w_asked s) (w_seen s) (w_flying s).
Definition set_inflight (s : wst) v := mkW (w_pending s) (w_tracked s) (w_dq s) v (w_connected s) (w_timer s) (w_stopped s) (w_resps s) (w_dials s) (w_refused s) (w_asked s) (w_seen s) (w_flying s).
Definition set_connected (s : wst) v := mkW (w_pending s) (w_tracked s) (w_dq s) (w_inflight s) v (w_timer s) (w_stopped s) (w_resps s) (w_dials s) (w_refused s) (w_asked s) (w_seen s) (w_flying s).
Definition set_timer (s : wst) v := mkW (w_pending s) (w_tracked s) (w_dq s) (w_inflight s) (w_connected s) v (w_stopped s) (w_resps s) (w_dials s) (w_refused s) (w_asked s) (w_seen s) (w_flying s).
Definition set_stopped (s : wst) v := mkW (w_pending s) (w_tracked s) (w_dq s) (w_inflight s) (w_connected s) (w_timer s) v (w_resps s) (w_dials s) (w_refused s) (w_asked s) (w_seen s) (w_flying s).
Definition set_resps (s : wst) v := mkW (w_pending s) (w_tracked s) (w_dq s) (w_inflight s) (w_connected s) (w_timer s) (w_stopped s) v (w_dials s) (w_refused s) (w_asked s) (w_seen s) (w_flying s).
Definition set_dials (s : wst) v := mkW (w_pending s) (w_tracked s) (w_dq s) (w_inflight s) (w_connected s) (w_timer s) (w_stopped s) (w_resps s) v (w_refused s) (w_asked s) (w_seen s) (w_flying s).
Definition set_refused (s : wst) v := mkW (w_pending s) (w_tracked s) (w_dq s) (w_inflight s) (w_connected s) (w_timer s) (w_stopped s) (w_resps s) (w_dials s) v (w_asked s) (w_seen s) (w_flying s).
Definition set_asked (s : wst) v := mkW (w_pending s) (w_tracked s) (w_dq s) (w_inflight s) (w_connected s) (w_timer s) (w_stopped s) (w_resps s) (w_dials s) (w_refused s) v (w_seen s) (w_flying s).
Definition set_seen (s : wst) v := mkW (w_pending s) (w_tracked s) (w_dq s) (w_inflight s) (w_connected s) (w_timer s) (w_stopped s) (w_resps s) (w_dials s) (w_refused s) (w_asked s) v (w_flying s).
Definition set_flying (s : wst) v := mkW (w_pending s) (w_tracked s) (w_dq s) (w_inflight s) (w_connected s) (w_timer s) (w_stopped s) (w_resps s) (w_dials s) (w_refused s) (w_asked s) (w_seen s) v.

Definition memz (x : Z) (l : list Z) : bool := existsb (Z.eqb x) l.
Fixpoint removez (x : Z) (l : list Z) : list Z :=
  match l with [] => [] | y :: r => if y =? x then removez x r else y :: removez x r end.
Fixpoint remove1 (x : Z) (l : list Z) : list Z :=
  match l with [] => [] | y :: r => if y =? x then r else y :: remove1 x r end.
Fixpoint nodupz (l : list Z) : list Z :=
  match l with [] => [] | x :: r => if memz x r then nodupz r else x :: nodupz r end.

Definition tget (a : Z) (s : wst) : option adial := aget None a (w_tracked s).
Definition tput (a : Z) (ad : adial) (s : wst) : wst := set_tracked s (aput a (Some ad) (w_tracked s)).
Definition tdel (a : Z) (s : wst) : wst := set_tracked s (adel a (w_tracked s)).

Definition ad_set_st (ad : adial) (v : dstatus) := mkAd (ad_dialed ad) v (ad_fdir ad) (ad_sim ad) (ad_upg ad).
Definition ad_set_dialed (ad : adial) := mkAd true (ad_st ad) (ad_fdir ad) (ad_sim ad) (ad_upg ad).
Definition ad_set_sim (ad : adial) := mkAd (ad_dialed ad) (ad_st ad) (ad_fdir ad) true (ad_upg ad).
Definition ad_set_upg (ad : adial) (v : option Z) := mkAd (ad_dialed ad) (ad_st ad) (ad_fdir ad) (ad_sim ad) v.

(* ---- dialQueue ----------------------------------------------------------------- *)
(* Add: insert after the LAST element whose delay is <= the new delay *)
Fixpoint dq_add (x : Z * Z) (q : list (Z * Z)) : list (Z * Z) :=
  match q with
  | [] => [x]
  | y :: r => if existsb (fun z => snd z <=? snd x) q then y :: dq_add x r else x :: q
  end.

(* the scan of UpdateOrAdd: None = "existing element is the same", otherwise the
   queue with the matching element removed.  After a removal the Go loop's i++
   skips the element that moved into slot i (transcribed). *)
Fixpoint dq_scan (a d : Z) (q : list (Z * Z)) : option (list (Z * Z)) :=
  match q with
  | [] => Some []
  | y :: r =>
      if fst y =? a then
        if snd y =? d then None
        else match r with
             | [] => Some []
             | z :: r' => option_map (cons z) (dq_scan a d r')
             end
      else option_map (cons y) (dq_scan a d r)
  end.

Definition dq_update_or_add (a d : Z) (q : list (Z * Z)) : list (Z * Z) :=
  match dq_scan a d q with
  | None => q
  | Some q' => dq_add (a, d) q'
  end.

(* NextBatch: the maximal prefix with the delay of the head *)
Fixpoint span_delay (d : Z) (q : list (Z * Z)) : list (Z * Z) * list (Z * Z) :=
  match q with
  | [] => ([], [])
  | y :: r => if snd y =? d then let (b, rest) := span_delay d r in (y :: b, rest) else ([], q)
  end.
Definition next_batch (q : list (Z * Z)) : list (Z * Z) * list (Z * Z) :=
  match q with [] => ([], []) | y :: _ => span_delay (snd y) q end.

(* ---- scheduleNextDial ------------------------------------------------------------ *)
Definition max_upg (t0 : Z) (tr : list (Z * option adial)) : Z :=
  fold_right (fun e acc =>
                match snd e with
                | Some ad => match ad_upg ad with Some u => Z.max u acc | None => acc end
                | None => acc
                end) t0 tr.

Definition schedule (s : wst) : wst :=
  match w_dq s with
  | [] => set_timer s None
  | top :: _ =>
      if (w_inflight s =? 0) && negb (w_connected s) then set_timer s (Some 0)
      else set_timer s (Some (max_upg (snd top) (w_tracked s)))
  end.

(* ---- dispatchError ----------------------------------------------------------------- *)
Fixpoint disp_loop (a : Z) (bestl : list Z) (prs : list preq) : list preq * list (Z * resp) :=
  match prs with
  | [] => ([], [])
  | pr :: r =>
      let (keep, out) := disp_loop a bestl r in
      if memz a (pr_addrs pr) then
        match removez a (pr_addrs pr) with
        | [] => (keep, (pr_id pr, if memz (pr_id pr) bestl then RespConn else RespErr) :: out)
        | l => (mkPr (pr_id pr) l :: keep, out)
        end
      else (pr :: keep, out)
  end.

Definition dispatch_error (s : wst) (a : Z) (e : derr) (bestl : list Z) : wst :=
  let s1 := match tget a s with Some ad => tput a (ad_set_st ad DErr) s | None => s end in
  let (keep, out) := disp_loop a bestl (w_pending s1) in
  let s2 := set_resps (set_pending s1 keep) (w_resps s1 ++ out) in
  match e with EBackoff => tdel a s2 | _ => s2 end.

(* ---- a request ------------------------------------------------------------------------ *)
Inductive scanres := ScanConn | ScanDone (todial tojoin errd : list Z).

Fixpoint scan (s : wst) (rank : list (Z * Z)) (todial tojoin errd : list Z) : scanres :=
  match rank with
  | [] => ScanDone todial tojoin errd
  | (a, _) :: r =>
      match tget a s with
      | None => scan s r (todial ++ [a]) tojoin errd
      | Some ad =>
          match ad_st ad with
          | DConn => ScanConn
          | DErr => scan s r todial tojoin (errd ++ [a])
          | DPending => scan s r todial (tojoin ++ [a]) errd
          end
      end
  end.

(* addrDelay[addr]: a Go map filled in ranking order, so the last entry wins *)
Fixpoint delay_of (a : Z) (rank : list (Z * Z)) : Z :=
  match rank with
  | [] => 0
  | (x, d) :: r => if memz a (map fst r) then delay_of a r else if x =? a then d else 0
  end.

Fixpoint join_loop (sim : bool) (rank : list (Z * Z)) (tojoin : list Z) (s : wst) : wst :=
  match tojoin with
  | [] => s
  | a :: r =>
      let s' :=
        match tget a s with
        | Some ad =>
            if negb (ad_dialed ad) && sim && negb (ad_sim ad)
            then set_dq (tput a (ad_set_sim ad) s) (dq_update_or_add a (delay_of a rank) (w_dq s))
            else s
        | None => s
        end in
      join_loop sim rank r s'
  end.

Fixpoint todial_loop (sim fdir : bool) (rank : list (Z * Z)) (todial : list Z) (s : wst) : wst :=
  match todial with
  | [] => s
  | a :: r =>
      let s1 := tput a (mkAd false DPending fdir sim None) s in
      let s2 := set_dq s1 (dq_add (a, delay_of a rank) (w_dq s1)) in
      todial_loop sim fdir rank r (set_asked s2 (w_asked s2 ++ [a]))
  end.

Fixpoint removeall (xs : list Z) (l : list Z) : list Z :=
  match xs with [] => l | x :: r => removeall r (removez x l) end.

Definition respond (s : wst) (rid : Z) (r : resp) : wst := set_resps s (w_resps s ++ [(rid, r)]).

Definition on_request (s : wst) (rid : Z) (sim fdir best : bool) (rank : option (list (Z * Z))) : wst :=
  let s := set_seen s (w_seen s ++ [rid]) in
  if best then respond s rid RespConn else
  match rank with
  | None => respond s rid RespErr
  | Some rk =>
      match scan s rk [] [] [] with
      | ScanConn => respond s rid RespConn
      | ScanDone todial tojoin errd =>
          match todial, tojoin with
          | [], [] => respond s rid RespErr
          | _, _ =>
              let pr := mkPr rid (removeall errd (nodupz (map fst rk))) in
              let s1 := set_pending s (w_pending s ++ [pr]) in
              let s2 := join_loop sim rk tojoin s1 in
              let s3 := todial_loop sim fdir rk todial s2 in
              schedule s3
          end
      end
  end.

(* ---- the dial timer ---------------------------------------------------------------------- *)
Fixpoint batch_loop (bo bestl : list Z) (batch : list (Z * Z)) (s : wst) : wst :=
  match batch with
  | [] => s
  | (a, _) :: r =>
      let s' :=
        match tget a s with
        | None => s                                  (* "SWARM BUG: no entry for address" *)
        | Some ad =>
            let s1 := tput a (ad_set_dialed ad) s in
            if negb (ad_fdir ad) && memz a bo
            then dispatch_error (set_refused s1 (w_refused s1 ++ [a])) a EBackoff bestl
            else set_flying (set_dials (set_inflight s1 (w_inflight s1 + 1)) (w_dials s1 ++ [a]))
                            (w_flying s1 ++ [a])
        end in
      batch_loop bo bestl r s'
  end.

Definition on_timer (s : wst) (bo bestl : list Z) : wst :=
  let (batch, rest) := next_batch (w_dq s) in
  schedule (batch_loop bo bestl batch (set_dq s rest)).

(* ---- a dial update ------------------------------------------------------------------------ *)
Fixpoint succ_loop (a : Z) (prs : list preq) : list preq * list (Z * resp) :=
  match prs with
  | [] => ([], [])
  | pr :: r =>
      let (keep, out) := succ_loop a r in
      if memz a (pr_addrs pr) then (keep, (pr_id pr, RespConn) :: out) else (pr :: keep, out)
  end.

Definition on_result (s : wst) (a : Z) (r : dres) (bestl : list Z) : wst :=
  match tget a s with
  | None => set_flying (set_inflight s (w_inflight s - 1)) (remove1 a (w_flying s))
  | Some ad =>
      match r with
      | DRProgress pub now =>
          schedule (if pub then tput a (ad_set_upg ad (Some (now + PublicTCPDelay))) s else s)
      | DROk addok =>
          let s1 := set_flying (set_inflight s (w_inflight s - 1)) (remove1 a (w_flying s)) in
          let ad1 := ad_set_upg ad None in
          let s2 := tput a ad1 s1 in
          if addok then
            let (keep, out) := succ_loop a (w_pending s2) in
            let s3 := set_resps (set_pending s2 keep) (w_resps s2 ++ out) in
            set_connected (tput a (ad_set_st ad1 DConn) s3) true
          else dispatch_error s2 a EOther bestl
      | DRFail e =>
          let s1 := set_flying (set_inflight s (w_inflight s - 1)) (remove1 a (w_flying s)) in
          let s2 := tput a (ad_set_upg ad None) s1 in
          schedule (dispatch_error s2 a e bestl)
      end
  end.

Definition wstep (s : wst) (e : wev) : wst :=
  if w_stopped s then s else
  match e with
  | WReq rid sim fdir best rank => on_request s rid sim fdir best rank
  | WTimer bo bestl => on_timer s bo bestl
  | WRes a r bestl => on_result s a r bestl
  | WClose => set_stopped s true
  end.

Definition wrun (s : wst) (evs : list wev) : wst := fold_left wstep evs s.

(* C05 — provenance of every response the worker sends: a connection only when an
   acceptable one exists or a candidate address of the request succeeded; an error only
   when every candidate address has failed or been refused.  Stated against abstract
   sets (what has succeeded / failed / been in back-off, the request table, whether an
   acceptable connection exists) that the monitor coupling instantiates. *)
From Coq Require Import List ZArith Bool Lia Permutation.
From Verif Require Import c05.ModelLimiter c05.Proofs_Limiter c05.ModelWorker c05.Proofs_Worker c05.Proofs_WorkerMon.
Import ListNotations.
Local Open Scope Z_scope.

  Lemma removez_nil : forall a l x, removez a l = [] -> In x l -> x = a.
  Proof.
    intros a l x H Hx. destruct (Z.eq_dec x a) as [E|E]; [exact E|]. exfalso.
    assert (X : In x (removez a l)) by (apply removez_In; auto). rewrite H in X. destruct X.
  Qed.

  Lemma disp_loop_spec : forall a bestl prs keep out, disp_loop a bestl prs = (keep, out) ->
    (forall rid k, In (rid, k) out -> exists pr, In pr prs /\ pr_id pr = rid /\ In a (pr_addrs pr) /\
         removez a (pr_addrs pr) = [] /\ k = if memz rid bestl then RespConn else RespErr) /\
    (forall pr', In pr' keep -> exists pr, In pr prs /\ pr_id pr' = pr_id pr /\
         (forall x, In x (pr_addrs pr') -> In x (pr_addrs pr)) /\
         (forall x, In x (pr_addrs pr) -> x = a \/ In x (pr_addrs pr'))).
  Proof.
    induction prs as [|pr r IH]; intros keep out H; cbn [disp_loop] in H.
    - inversion H; subst. split; intros; contradiction.
    - destruct (disp_loop a bestl r) as [k o]. destruct (IH _ _ eq_refl) as [A B].
      destruct (memz a (pr_addrs pr)) eqn:Em.
      + destruct (removez a (pr_addrs pr)) as [|z l] eqn:Er.
        * inversion H; subst. split.
          -- intros rid kk [Hin|Hin].
             ++ inversion Hin; subst. exists pr. repeat split; auto. left; reflexivity. apply memz_In, Em.
             ++ destruct (A rid kk Hin) as [p [X Y]]. exists p. split; [right; exact X | exact Y].
          -- intros pr' Hin. destruct (B pr' Hin) as [p [X Y]]. exists p. split; [right; exact X | exact Y].
        * inversion H; subst. split.
          -- intros rid kk Hin. destruct (A rid kk Hin) as [p [X Y]]. exists p. split; [right; exact X | exact Y].
          -- intros pr' [Hin|Hin].
             ++ subst pr'. exists pr. split; [left; reflexivity|]. split; [reflexivity|]. cbn [pr_addrs]. rewrite <- Er. split.
                ** intros x Hx. apply removez_In in Hx. tauto.
                ** intros x Hx. destruct (Z.eq_dec x a); [left; assumption | right; apply removez_In; auto].
             ++ destruct (B pr' Hin) as [p [X Y]]. exists p. split; [right; exact X | exact Y].
      + inversion H; subst. split.
        * intros rid kk Hin. destruct (A rid kk Hin) as [p [X Y]]. exists p. split; [right; exact X | exact Y].
        * intros pr' [Hin|Hin].
          -- subst pr'. exists pr. split; [left; reflexivity|]. split; [reflexivity|]. split; auto.
          -- destruct (B pr' Hin) as [p [X Y]]. exists p. split; [right; exact X | exact Y].
  Qed.

  Lemma scan_conn : forall s rk td tj ed, scan s rk td tj ed = ScanConn ->
    exists a ad, In a (map fst rk) /\ tget a s = Some ad /\ ad_st ad = DConn.
  Proof.
    induction rk as [|[a d] r IH]; intros td tj ed H; cbn [scan] in H; [discriminate|].
    destruct (tget a s) as [ad|] eqn:Et.
    - destruct (ad_st ad) eqn:Es.
      + destruct (IH _ _ _ H) as [x [adx [X Y]]]. exists x, adx. split; [right; exact X | exact Y].
      + exists a, ad. split; [left; reflexivity | split; assumption].
      + destruct (IH _ _ _ H) as [x [adx [X Y]]]. exists x, adx. split; [right; exact X | exact Y].
    - destruct (IH _ _ _ H) as [x [adx [X Y]]]. exists x, adx. split; [right; exact X | exact Y].
  Qed.

  Lemma succ_loop_spec : forall a prs keep out, succ_loop a prs = (keep, out) ->
    (forall x, In x out -> exists pr, In pr prs /\ pr_id pr = fst x /\ In a (pr_addrs pr) /\ snd x = RespConn) /\
    (forall pr, In pr keep -> In pr prs).
  Proof.
    induction prs as [|pr r IH]; intros keep out H; cbn [succ_loop] in H.
    - inversion H; subst. split; intros; contradiction.
    - destruct (succ_loop a r) as [k o]. destruct (IH _ _ eq_refl) as [A B].
      destruct (memz a (pr_addrs pr)) eqn:Em; inversion H; subst; split.
      + intros x [<-|Hin].
        * exists pr. cbn. repeat split; auto. apply memz_In, Em.
        * destruct (A x Hin) as [p [X Y]]. exists p. split; [right; exact X | exact Y].
      + intros p Hin. right. apply B, Hin.
      + intros x Hin. destruct (A x Hin) as [p [X Y]]. exists p. split; [right; exact X | exact Y].
      + intros p [<-|Hin]; [left; reflexivity | right; apply B, Hin].
  Qed.

Section Prov.
  Variable R : Z -> option (bool * option (list Z)).   (* request id -> (force-direct, candidates) *)
  Variable ConnOK : bool -> Prop.                       (* an acceptable connection exists for this flag *)
  Variables Succ Failed Bo : Z -> Prop.

  Definition Just (x : Z * resp) : Prop :=
    exists fdir cand, R (fst x) = Some (fdir, cand) /\
      match snd x with
      | RespConn => ConnOK fdir \/ exists l a, cand = Some l /\ In a l /\ Succ a
      | RespErr => cand = None \/ exists l, cand = Some l /\ forall a, In a l -> Failed a \/ Bo a
      end.

  Record PV (s : wst) : Prop := mkPV {
    pv_pend : forall pr, In pr (w_pending s) -> exists fdir l, R (pr_id pr) = Some (fdir, Some l) /\
                incl (pr_addrs pr) l /\ forall a, In a l -> In a (pr_addrs pr) \/ Failed a \/ Bo a;
    pv_st : forall a ad, tget a s = Some ad ->
                (ad_st ad = DConn -> Succ a) /\ (ad_st ad = DErr -> Failed a \/ Bo a) }.

  Definition bestl_ok (bestl : list Z) : Prop :=
    forall rid, In rid bestl -> forall fdir cand, R rid = Some (fdir, cand) -> ConnOK fdir.

  (* a step that appends justified responses and keeps the invariant *)
  Definition Good (s s' : wst) : Prop :=
    PV s' /\ exists news, w_resps s' = w_resps s ++ news /\ forall x, In x news -> Just x.

  Lemma Good_refl : forall s, PV s -> Good s s.
  Proof. intros s H. split; [exact H|]. exists []. split; [rewrite app_nil_r; reflexivity | intros x []]. Qed.

  Lemma Good_trans : forall a b c, Good a b -> Good b c -> Good a c.
  Proof.
    intros a b c [_ [n1 [E1 J1]]] [P [n2 [E2 J2]]]. split; [exact P|]. exists (n1 ++ n2). split.
    - rewrite E2, E1, app_assoc. reflexivity.
    - intros x H. apply in_app_or in H. destruct H; auto.
  Qed.

  Lemma PV_ext : forall s s', PV s -> w_pending s' = w_pending s -> w_tracked s' = w_tracked s -> PV s'.
  Proof. intros s s' [A B] Ep Et. constructor; unfold tget; rewrite ?Ep, ?Et; auto. Qed.

  Lemma Good_same : forall s s', PV s -> w_pending s' = w_pending s -> w_tracked s' = w_tracked s ->
    w_resps s' = w_resps s -> Good s s'.
  Proof.
    intros s s' H Ep Et Er. split; [eapply PV_ext; eauto|]. exists []. rewrite Er, app_nil_r. split; [reflexivity | intros x []].
  Qed.

  (* an entry is rewritten without changing its status (or made pending) *)
  Lemma PV_tput : forall s a ad ad', PV s -> tget a s = Some ad ->
    (ad_st ad' = ad_st ad \/ ad_st ad' = DPending) -> PV (tput a ad' s).
  Proof.
    intros s a ad ad' [A B] Ht Hs. constructor; wprj; [exact A|].
    intros x adx. unfold tget in *. wprj. rewrite aget_aput. destruct (a =? x) eqn:E; [|apply B].
    apply Z.eqb_eq in E. subst x. intros H. inversion H; subst adx. destruct (B a ad Ht) as [B1 B2].
    destruct Hs as [Hs|Hs]; rewrite Hs; [auto | split; discriminate].
  Qed.

  Lemma PV_tput_new : forall s a ad', PV s -> ad_st ad' = DPending -> PV (tput a ad' s).
  Proof.
    intros s a ad' [A B] Hs. constructor; wprj; [exact A|].
    intros x adx. unfold tget in *. wprj. rewrite aget_aput. destruct (a =? x); [|apply B].
    intros H. inversion H; subst adx. rewrite Hs. split; discriminate.
  Qed.



  Lemma dispatch_error_good : forall s a e bestl, PV s -> (Failed a \/ Bo a) -> bestl_ok bestl ->
    Good s (dispatch_error s a e bestl).
  Proof.
    intros s a e bestl [A B] Ha Hb. unfold dispatch_error.
    set (s1 := match tget a s with Some ad => tput a (ad_set_st ad DErr) s | None => s end).
    assert (Ep : w_pending s1 = w_pending s /\ w_resps s1 = w_resps s) by (unfold s1; destruct (tget a s); split; reflexivity).
    destruct Ep as [Ep Er].
    assert (B1 : forall x adx, tget x s1 = Some adx -> (ad_st adx = DConn -> Succ x) /\ (ad_st adx = DErr -> Failed x \/ Bo x)).
    { intros x adx. unfold s1. destruct (tget a s) as [ad|] eqn:Et; [|apply B]. unfold tget in *. wprj. rewrite aget_aput.
      destruct (a =? x) eqn:E; [|apply B]. apply Z.eqb_eq in E. subst x. intros H. inversion H; subst adx. cbn. split; [discriminate | auto]. }
    destruct (disp_loop a bestl (w_pending s1)) as [keep out] eqn:El. rewrite Ep in El.
    destruct (disp_loop_spec _ _ _ _ _ El) as [So Sk].
    set (s2 := set_resps (set_pending s1 keep) (w_resps s1 ++ out)).
    assert (P2 : PV s2).
    { constructor; unfold s2; wprj.
      - intros pr' Hin. destruct (Sk pr' Hin) as [pr [X [Y [Z1 Z2]]]]. destruct (A pr X) as [fdir [l [R1 [R2 R3]]]].
        exists fdir, l. rewrite Y. split; [exact R1|]. split; [intros x Hx; apply R2, Z1, Hx|].
        intros x Hx. destruct (R3 x Hx) as [G|G]; [|right; exact G]. destruct (Z2 x G) as [->|G']; [right; exact Ha | left; exact G'].
      - exact B1. }
    assert (Jo : forall x, In x out -> Just x).
    { intros [rid k] Hin. destruct (So rid k Hin) as [pr [X [Y [Z1 [Z2 Z3]]]]]. destruct (A pr X) as [fdir [l [R1 [R2 R3]]]].
      exists fdir, (Some l). cbn [fst snd]. rewrite <- Y. split; [exact R1|]. rewrite Z3. destruct (memz rid bestl) eqn:Em.
      - left. apply memz_In in Em. eapply (Hb rid Em). rewrite <- Y. exact R1.
      - right. exists l. split; [reflexivity|]. intros x Hx. destruct (R3 x Hx) as [G|G]; [|exact G].
        rewrite (removez_nil a _ x Z2 G). exact Ha. }
    assert (G2 : Good s s2).
    { split; [exact P2|]. exists out. split; [unfold s2; wprj; rewrite Er; reflexivity | exact Jo]. }
    destruct e; try exact G2.
    destruct G2 as [[A2 B2] N]. split; [|exact N]. constructor; wprj; [exact A2|].
    intros x adx. unfold tget in *. wprj. rewrite aget_adel. destruct (a =? x); [discriminate | apply B2].
  Qed.

  Lemma Good_schedule : forall s s', Good s s' -> Good s (schedule s').
  Proof.
    intros s s' G. eapply Good_trans; [exact G|]. destruct (schedule_same s') as [A [B [_ [C _]]]].
    apply Good_same; auto. destruct G; assumption.
  Qed.


  Lemma join_loop_pv : forall sim rk tj s, PV s -> PV (join_loop sim rk tj s).
  Proof.
    induction tj as [|a r IH]; intros s H; cbn [join_loop]; [exact H|]. apply IH.
    destruct (tget a s) as [ad|] eqn:Et; [|exact H].
    destruct (negb (ad_dialed ad) && sim && negb (ad_sim ad)); [|exact H].
    eapply PV_ext with (s := tput a (ad_set_sim ad) s); [|reflexivity|reflexivity].
    eapply PV_tput; eauto.
  Qed.

  Lemma todial_loop_pv : forall sim fdir rk td s, PV s -> PV (todial_loop sim fdir rk td s).
  Proof.
    induction td as [|a r IH]; intros s H; cbn [todial_loop]; [exact H|]. apply IH.
    eapply PV_ext with (s := tput a (mkAd false DPending fdir sim None) s); [|reflexivity|reflexivity].
    apply PV_tput_new; auto.
  Qed.

  Lemma on_request_good : forall s rid sim fdir best rank, PV s ->
    R rid = Some (fdir, option_map (map fst) rank) -> (best = true -> ConnOK fdir) ->
    Good s (on_request s rid sim fdir best rank).
  Proof.
    intros s rid sim fdir best rank P HR Hb. unfold on_request.
    set (s0 := set_seen s (w_seen s ++ [rid])).
    assert (P0 : PV s0) by (eapply PV_ext; eauto).
    assert (One : forall k, Just (rid, k) -> Good s (respond s0 rid k)).
    { intros k J. split; [eapply PV_ext; eauto|]. exists [(rid, k)]. split; [reflexivity|].
      intros x [<-|[]]. exact J. }
    destruct best.
    { apply One. exists fdir, (option_map (map fst) rank). split; [exact HR|]. left. auto. }
    destruct rank as [rk|]; cbn [option_map] in HR.
    2:{ apply One. exists fdir, None. split; [exact HR|]. left. reflexivity. }
    destruct (scan s0 rk [] [] []) as [|td tj ed] eqn:Es.
    { apply One. destruct (scan_conn _ _ _ _ _ Es) as [a [ad [X [Y Z]]]].
      exists fdir, (Some (map fst rk)). split; [exact HR|]. right. exists (map fst rk), a.
      split; [reflexivity|]. split; [exact X|]. destruct P0 as [_ B]. apply (B a ad Y); exact Z. }
    destruct (scan_spec _ _ _ _ _ _ _ _ Es) as [_ [_ [C [D _]]]].
    assert (Ed : forall a, In a ed -> Failed a \/ Bo a).
    { intros a Ha. destruct (C a Ha) as [[]|[ad [X Y]]]. destruct P0 as [_ B]. apply (B a ad X); exact Y. }
    assert (Pend : Good s (schedule (todial_loop sim fdir rk td (join_loop sim rk tj
               (set_pending s0 (w_pending s0 ++ [mkPr rid (removeall ed (nodupz (map fst rk)))])))))).
    { apply Good_schedule. split.
      - apply todial_loop_pv, join_loop_pv. destruct P0 as [A B]. constructor; wprj; [|exact B].
        intros pr Hin. apply in_app_or in Hin. destruct Hin as [Hin|[<-|[]]]; [apply A, Hin|]. cbn [pr_id pr_addrs].
        exists fdir, (map fst rk). split; [exact HR|]. split.
        + intros x Hx. apply removeall_In in Hx. destruct Hx as [Hx _]. apply (proj1 (nodupz_In _ _)) in Hx. exact Hx.
        + intros x Hx. destruct (in_dec Z.eq_dec x ed) as [I|I]; [right; apply Ed, I|].
          left. apply removeall_In. split; [apply nodupz_In, Hx | exact I].
      - exists []. rewrite app_nil_r. split; [|intros x []].
        destruct (todial_loop_same sim fdir rk td (join_loop sim rk tj
               (set_pending s0 (w_pending s0 ++ [mkPr rid (removeall ed (nodupz (map fst rk)))])))) as [_ [E1 _]].
        destruct (join_loop_same sim rk tj
               (set_pending s0 (w_pending s0 ++ [mkPr rid (removeall ed (nodupz (map fst rk)))]))) as [_ [E2 _]].
        rewrite E1, E2. reflexivity. }
    destruct td as [|t0 td']; [destruct tj as [|j0 tj']|]; try exact Pend.
    apply One. exists fdir, (Some (map fst rk)). split; [exact HR|]. right. exists (map fst rk). split; [reflexivity|].
    intros a Ha. destruct (D a Ha) as [[]|[[]|I]]. apply Ed, I.
  Qed.

  Lemma batch_loop_good : forall bo bestl batch s, PV s -> (forall a, In a bo -> Bo a) -> bestl_ok bestl ->
    Good s (batch_loop bo bestl batch s).
  Proof.
    induction batch as [|[a d] r IH]; intros s P Hbo Hb; cbn [batch_loop]; [apply Good_refl, P|].
    assert (G1 : Good s (match tget a s with
        | None => s
        | Some ad => let s1 := tput a (ad_set_dialed ad) s in
            if negb (ad_fdir ad) && memz a bo
            then dispatch_error (set_refused s1 (w_refused s1 ++ [a])) a EBackoff bestl
            else set_flying (set_dials (set_inflight s1 (w_inflight s1 + 1)) (w_dials s1 ++ [a])) (w_flying s1 ++ [a]) end)).
    { destruct (tget a s) as [ad|] eqn:Et; [|apply Good_refl, P]. cbv zeta.
      assert (P1 : PV (tput a (ad_set_dialed ad) s)) by (eapply PV_tput; eauto).
      destruct (negb (ad_fdir ad) && memz a bo) eqn:Eb.
      - apply andb_prop in Eb. destruct Eb as [_ Eb]. apply memz_In in Eb.
        eapply Good_trans with (b := set_refused (tput a (ad_set_dialed ad) s) (w_refused (tput a (ad_set_dialed ad) s) ++ [a])).
        + split; [eapply PV_ext; eauto|]. exists []. rewrite app_nil_r. split; [reflexivity | intros x []].
        + apply dispatch_error_good; auto. eapply PV_ext; eauto.
      - split; [eapply PV_ext; eauto|]. exists []. rewrite app_nil_r. split; [reflexivity | intros x []]. }
    eapply Good_trans; [exact G1|]. apply IH; auto. destruct G1; assumption.
  Qed.

  Lemma on_timer_good : forall s bo bestl, PV s -> (forall a, In a bo -> Bo a) -> bestl_ok bestl ->
    Good s (on_timer s bo bestl).
  Proof.
    intros s bo bestl P Hbo Hb. unfold on_timer. destruct (next_batch (w_dq s)) as [batch rest].
    apply Good_schedule. eapply Good_trans with (b := set_dq s rest).
    - apply Good_same; auto.
    - apply batch_loop_good; auto. eapply PV_ext; eauto.
  Qed.


  Definition res_ok (a : Z) (r : dres) : Prop :=
    match r with DROk true => Succ a | DRProgress _ _ => True | _ => Failed a end.

  Lemma on_result_good : forall s a r bestl, PV s -> res_ok a r -> bestl_ok bestl ->
    Good s (on_result s a r bestl).
  Proof.
    intros s a r bestl P Hr Hb. unfold on_result. destruct (tget a s) as [ad|] eqn:Et.
    2:{ apply Good_same; auto. }
    destruct r as [addok|e|pub now].
    - set (s1 := set_flying (set_inflight s (w_inflight s - 1)) (remove1 a (w_flying s))).
      assert (P1 : PV s1) by (eapply PV_ext; eauto).
      assert (P2 : PV (tput a (ad_set_upg ad None) s1)) by (eapply PV_tput with (ad := ad); eauto).
      destruct addok.
      + cbn in Hr. destruct (succ_loop a (w_pending (tput a (ad_set_upg ad None) s1))) as [keep out] eqn:El.
        destruct (succ_loop_spec _ _ _ _ El) as [So Sk]. destruct P2 as [A B]. split.
        * constructor; wprj.
          -- intros pr Hin. apply A, Sk, Hin.
          -- intros x adx. unfold tget in *. wprj. rewrite aget_aput. destruct (a =? x) eqn:E.
             ++ apply Z.eqb_eq in E. subst x. intros H. inversion H; subst adx. cbn. split; [auto | discriminate].
             ++ intros H. apply (B x adx). exact H.
        * exists out. split; [reflexivity|]. intros x Hin. destruct (So x Hin) as [pr [X [Y [Z1 Z2]]]].
          destruct (A pr X) as [fdir [l [R1 [R2 _]]]]. exists fdir, (Some l). rewrite <- Y. split; [exact R1|].
          rewrite Z2. right. exists l, a. split; [reflexivity|]. split; [apply R2, Z1 | exact Hr].
      + eapply Good_trans with (b := tput a (ad_set_upg ad None) s1).
        * split; [exact P2|]. exists []. rewrite app_nil_r. split; [reflexivity | intros x []].
        * apply dispatch_error_good; auto.
    - set (s1 := set_flying (set_inflight s (w_inflight s - 1)) (remove1 a (w_flying s))).
      assert (P1 : PV s1) by (eapply PV_ext; eauto).
      assert (P2 : PV (tput a (ad_set_upg ad None) s1)) by (eapply PV_tput with (ad := ad); eauto).
      apply Good_schedule. eapply Good_trans with (b := tput a (ad_set_upg ad None) s1).
      + split; [exact P2|]. exists []. rewrite app_nil_r. split; [reflexivity | intros x []].
      + apply dispatch_error_good; auto.
    - apply Good_schedule. destruct pub; [|apply Good_refl, P].
      split; [eapply PV_tput with (ad := ad); eauto|]. exists []. rewrite app_nil_r. split; [reflexivity | intros x []].
  Qed.

  (* what the environment must guarantee about the oracle values of an event *)
  Definition ev_ok (e : wev) : Prop :=
    match e with
    | WReq rid sim fdir best rank => R rid = Some (fdir, option_map (map fst) rank) /\ (best = true -> ConnOK fdir)
    | WTimer bo bestl => (forall a, In a bo -> Bo a) /\ bestl_ok bestl
    | WRes a r bestl => res_ok a r /\ bestl_ok bestl
    | WClose => True
    end.

  Theorem wstep_good : forall s e, PV s -> ev_ok e -> Good s (wstep s e).
  Proof.
    intros s e P H. unfold wstep. destruct (w_stopped s); [apply Good_refl, P|].
    destruct e as [rid sim fdir best rank|bo bestl|a r bestl|]; cbn in H.
    - destruct H. apply on_request_good; auto.
    - destruct H. apply on_timer_good; auto.
    - destruct H. apply on_result_good; auto.
    - apply Good_same; auto.
  Qed.
End Prov.

(* C05 — sync_refcount: invariants of the dialSync model for every history. *)
From Coq Require Import List ZArith Bool Lia.
From Verif Require Import c05.ModelLimiter c05.Proofs_Limiter c05.ModelSync.
Import ListNotations.
Local Open Scope Z_scope.

Record PInv (ps : pstate) : Prop := mkPInv {
  i_ref : p_ref ps = Z.of_nat (length (p_inside ps));
  i_act : p_active ps = true <-> p_inside ps <> [];
  i_wrk : p_started ps = p_stopped ps + (if p_active ps then 1 else 0);
  i_ctx : p_active ps = true -> p_canc ps = false /\ p_closed ps = false;
  i_ord : p_closed ps = true -> p_canc ps = true;      (* cancelled before closed *)
  i_idle : p_active ps = false -> p_started ps = 0 \/ (p_canc ps = true /\ p_closed ps = true) }.

(* the state in the middle of the last SLeave: the context is already cancelled,
   the channel not yet closed - never the other way round *)
Definition MidOK (ps : pstate) : Prop := p_closed ps = true -> p_canc ps = true.

Ltac fin := cbn in *; intuition (try discriminate; try congruence; try lia).

Lemma P0_inv : PInv P0.
Proof. constructor; fin. Qed.

Lemma enter_inv : forall ps c, PInv ps -> PInv (enter ps c).
Proof.
  intros ps c [R A W X O I]. unfold enter. destruct (p_active ps) eqn:Ea; constructor;
    cbn [p_ref p_active p_started p_stopped p_canc p_closed p_inside length] in *; rewrite ?Ea in *;
    rewrite ?Nat2Z.inj_succ; try (split; [discriminate | reflexivity]); try discriminate; try lia; auto;
    try (intros _; discriminate).
Qed.

Lemma rm1_len : forall c l, memc c l = true -> Z.of_nat (length (rm1 c l)) = Z.of_nat (length l) - 1.
Proof.
  induction l as [|y l IH]; cbn [memc existsb rm1]; [discriminate|]. intros H.
  destruct (Z.eqb_spec y c).
  - cbn [length]. lia.
  - apply orb_true_iff in H. destruct H as [H|H]; [apply Z.eqb_eq in H; congruence|].
    cbn [length]. rewrite !Nat2Z.inj_succ, IH; auto. lia.
Qed.

Lemma leave_inv : forall ps c, PInv ps -> memc c (p_inside ps) = true ->
  PInv (leave_end (leave_mid ps c)) /\ MidOK (leave_mid ps c).
Proof.
  intros ps c [R A W X O I] Hm.
  assert (Hne : p_inside ps <> []) by (destruct (p_inside ps); [discriminate | discriminate]).
  assert (Ea : p_active ps = true) by (apply A, Hne).
  destruct (X Ea) as [X1 X2]. pose proof (rm1_len c _ Hm) as Hl.
  split.
  - unfold leave_end, leave_mid. cbn [p_ref p_active p_started p_stopped p_canc p_closed p_inside].
    destruct (p_ref ps - 1 =? 0) eqn:Ez.
    + apply Z.eqb_eq in Ez.
      constructor; cbn [p_ref p_active p_started p_stopped p_canc p_closed p_inside];
        [ lia
        | split; [discriminate|]; intros Hn; exfalso; apply Hn;
          destruct (rm1 c (p_inside ps)); [reflexivity | cbn [length] in Hl; lia]
        | rewrite W, Ea; lia
        | discriminate
        | intros _; reflexivity
        | intros _; right; split; reflexivity ].
    + apply Z.eqb_neq in Ez.
      constructor; cbn [p_ref p_active p_started p_stopped p_canc p_closed p_inside];
        [ rewrite R; lia
        | rewrite Ea; split; [|reflexivity]; intros _ Hn; rewrite Hn in Hl; cbn [length] in Hl; lia
        | exact W
        | intros _; split; assumption
        | rewrite X2; discriminate
        | rewrite Ea; discriminate ].
  - unfold MidOK, leave_mid. cbn. rewrite X2. discriminate.
Qed.

Definition SInv (s : sync) : Prop := forall p, PInv (sget p s).

Lemma sstep_inv : forall s e, SInv s -> SInv (sstep s e) /\ (forall p, MidOK (sget p (smid s e))).
Proof.
  intros s e I. destruct e as [c p|c p]; cbn [sstep smid].
  - split.
    + intros q. unfold sget. rewrite aget_aput. destruct (p =? q); [apply enter_inv, I | apply I].
    + intros q. destruct (I q). exact i_ord0.
  - destruct (memc c (p_inside (sget p s))) eqn:Hm.
    + destruct (leave_inv _ c (I p) Hm) as [A B]. split.
      * intros q. unfold sget. rewrite aget_aput. destruct (p =? q); [exact A | apply I].
      * intros q. unfold sget. rewrite aget_aput. destruct (p =? q); [exact B|]. destruct (I q). exact i_ord0.
    + split; [exact I|]. intros q. destruct (I q). exact i_ord0.
Qed.

Lemma srun_inv : forall evs s, SInv s -> SInv (srun s evs).
Proof.
  induction evs as [|e r IH]; intros s I; cbn [srun fold_left]; [exact I|].
  apply IH. apply sstep_inv, I.
Qed.

Lemma init_sinv : SInv [].
Proof. intros p. cbn. apply P0_inv. Qed.

(* a caller that leaves while others are inside changes neither the worker nor the
   shared context *)
Lemma leave_not_last : forall ps c, PInv ps -> memc c (p_inside ps) = true -> (2 <= p_ref ps) ->
  let ps' := leave_end (leave_mid ps c) in
  p_active ps' = true /\ p_canc ps' = p_canc ps /\ p_closed ps' = p_closed ps /\
  p_started ps' = p_started ps /\ p_stopped ps' = p_stopped ps.
Proof.
  intros ps c I Hm H2. unfold leave_end, leave_mid. cbn.
  destruct (p_ref ps - 1 =? 0) eqn:Ez; [apply Z.eqb_eq in Ez; lia|]. cbn.
  destruct I. repeat split. apply i_act0. destruct (p_inside ps); [discriminate | discriminate].
Qed.

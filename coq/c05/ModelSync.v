(* C05 — dialSync (p2p/net/swarm/dial_sync.go): the ref-counted active dial.
   Atomic sections: getActiveDial (under ds.mutex: create the activeDial and
   start the worker if there is none, refCnt++) and the tail of Dial (under
   ds.mutex: refCnt--, and when it reaches 0: cancelCause, close(reqch), delete).
   Between the two a caller is parked in activeDial.dial (select on its own
   context).  No proofs here.

   Per peer: refCnt, whether ds.dials[p] exists, how many workers were started
   and how many have had their reqch closed, whether the shared context of the
   current (or last) activeDial is cancelled; ghost: the callers inside Dial. *)
From Coq Require Import List ZArith Bool.
From Verif Require Import c05.ModelLimiter.
Import ListNotations.
Local Open Scope Z_scope.

Record pstate := mkP {
  p_ref : Z; p_active : bool; p_started : Z; p_stopped : Z;
  p_canc : bool;      (* activeDial.ctx cancelled *)
  p_closed : bool;    (* reqch of the current / last activeDial closed *)
  p_inside : list Z }.

Definition P0 : pstate := mkP 0 false 0 0 false false [].

Definition sync := list (Z * pstate).
Definition sget (p : Z) (s : sync) : pstate := aget P0 p s.

Fixpoint rm1 (x : Z) (l : list Z) : list Z :=
  match l with [] => [] | y :: r => if y =? x then r else y :: rm1 x r end.

Inductive sev :=
| SEnter (c p : Z)        (* getActiveDial *)
| SLeave (c p : Z).       (* the locked tail of Dial *)

(* getActiveDial *)
Definition enter (ps : pstate) (c : Z) : pstate :=
  let ps1 := if p_active ps then ps
             else mkP (p_ref ps) true (p_started ps + 1) (p_stopped ps) false false (p_inside ps) in
  mkP (p_ref ps1 + 1) (p_active ps1) (p_started ps1) (p_stopped ps1) (p_canc ps1) (p_closed ps1) (c :: p_inside ps1).

(* refCnt--; the state between cancelCause and close(reqch) is observable by the
   worker (it does not take the mutex), so the step yields the intermediate state too *)
Definition leave_mid (ps : pstate) (c : Z) : pstate :=
  let r := p_ref ps - 1 in
  mkP r (p_active ps) (p_started ps) (p_stopped ps) (if r =? 0 then true else p_canc ps) (p_closed ps)
      (rm1 c (p_inside ps)).

Definition leave_end (ps : pstate) : pstate :=
  if p_ref ps =? 0
  then mkP 0 false (p_started ps) (p_stopped ps + 1) (p_canc ps) true (p_inside ps)
  else ps.

Definition memc (c : Z) (l : list Z) : bool := existsb (Z.eqb c) l.

Definition sstep (s : sync) (e : sev) : sync :=
  match e with
  | SEnter c p => aput p (enter (sget p s) c) s
  | SLeave c p =>
      if memc c (p_inside (sget p s))
      then aput p (leave_end (leave_mid (sget p s) c)) s
      else s
  end.

(* the state the worker may see in the middle of the last caller's SLeave *)
Definition smid (s : sync) (e : sev) : sync :=
  match e with
  | SLeave c p => if memc c (p_inside (sget p s)) then aput p (leave_mid (sget p s) c) s else s
  | _ => s
  end.

Definition srun (s : sync) (evs : list sev) : sync := fold_left sstep evs s.

(* C05 — composite: every job in the limiter has its record (same generation), for every
   schedule; a job that has left the queues never returns to them. *)
From Coq Require Import List ZArith Bool Lia Relations.
From Verif Require Import lib.Wire c05.ModelLimiter c05.Proofs_Limiter c05.SpecLimiter c05.Proofs_LimiterMon c05.Proofs_LimiterOnce c05.Proofs_LimiterAll.
From Verif Require Import c05.ModelWorker c05.ModelSync c05.ModelComposite c05.Proofs_Composite c05.Proofs_Composite2.
From Verif Require Import c05.SpecWorker c05.SpecDialPeer c05.SpecComposite c05.Proofs_CompositeMon c05.Proofs_CompositeH.
Import ListNotations.
Local Open Scope Z_scope.

Definition jrec_ok (s : cst) (x : job) : Prop :=
  jid x < c_next s /\ exists jr, jget (jid x) s = Some jr /\ jr_gen jr = jgrp x.

Definition JG (s : cst) : Prop := AllP (jrec_ok s) (c_lim s).

Lemma AllP_mono : forall (P Q : job -> Prop) l, (forall x, P x -> Q x) -> AllP P l -> AllP Q l.
Proof. intros P Q l H [A B C D]. constructor; eauto. Qed.

Lemma JG_limop : forall s s' o, JG s -> c_lim s' = lstep (c_lim s) o -> c_jobs s' = c_jobs s -> c_next s <= c_next s' ->
  (forall j, o <> LAdd j) -> JG s'.
Proof.
  intros s s' o H El Ej En Ho. unfold JG. rewrite El.
  apply (AllP_mono (jrec_ok s)); [intros x [X [jr Y]]; split; [lia | exists jr; unfold jget in *; rewrite Ej; exact Y]|].
  apply lstep_all; [|exact H]. destruct o; auto. exfalso. eapply Ho. reflexivity.
Qed.

Lemma JG_same : forall s s', JG s -> c_lim s' = c_lim s -> c_next s <= c_next s' ->
  (forall n jr, jget n s = Some jr -> exists jr', jget n s' = Some jr' /\ jr_gen jr' = jr_gen jr) -> JG s'.
Proof.
  intros s s' H El En Hj. unfold JG. rewrite El. apply (AllP_mono (jrec_ok s)); [|exact H].
  intros x [X [jr [Y1 Y2]]]. split; [lia|]. destruct (Hj _ _ Y1) as [jr' [Z1 Z2]]. exists jr'. split; [exact Z1 | congruence].
Qed.

Lemma JG_add : forall g p s a, JG s -> JG (add_addr_job g p s a).
Proof.
  intros g p s a H. unfold add_addr_job, JG. cprj.
  set (x := mkJob (c_next s) p (memz a (c_fd s)) g).
  set (s' := set_next (set_jobs (set_lim s (lstep (c_lim s) (LAdd x))) (aput (c_next s) (Some (mkJ g a false)) (c_jobs s))) (c_next s + 1)).
  change (AllP (jrec_ok s') (lstep (c_lim s) (LAdd x))).
  assert (Hx : jrec_ok s' x).
  { split; [unfold s', x; cprj; cbn [jid]; lia|]. exists (mkJ g a false). unfold jget, s', x. cprj. cbn [jid jgrp jr_gen].
    rewrite aget_aput, Z.eqb_refl. split; reflexivity. }
  apply lstep_all; [exact Hx|]. apply (AllP_mono (jrec_ok s)); [|exact H].
  intros y [Y [jr [Y1 Y2]]]. split; [unfold s'; cprj; lia|]. exists jr. unfold jget, s'. cprj. rewrite aget_aput.
  destruct (c_next s =? jid y) eqn:E; [apply Z.eqb_eq in E; lia|]. split; assumption.
Qed.

Lemma JG_adds : forall g p news s, JG s -> JG (fold_left (add_addr_job g p) news s).
Proof. induction news as [|a r IH]; intros s H; cbn [fold_left]; [exact H|]. apply IH, JG_add, H. Qed.

Lemma JG_leave : forall s c r k, JG s -> JG (do_leave s c r k).
Proof.
  intros s c r k H. unfold do_leave. cprj. destruct (p_active _); cprj.
  - eapply JG_same; [exact H|reflexivity|cprj; lia|]. intros n jr Hj. exists jr. split; [exact Hj | reflexivity].
  - eapply JG_limop with (o := LCancel (cr_gen r)); [exact H|reflexivity|reflexivity|cprj; lia|discriminate].
Qed.

Lemma cstep_JG : forall s l, JG s -> JG (cstep s l).
Proof.
  intros s l H.
  assert (Same : forall s', c_lim s' = c_lim s -> c_jobs s' = c_jobs s -> c_next s <= c_next s' -> JG s').
  { intros s' El Ej En. eapply JG_same; [exact H|exact El|exact En|]. intros n jr Hj. exists jr. unfold jget in *. rewrite Ej. auto. }
  destruct l; cbn [cstep].
  - destruct (cget c s); [exact H|]. destruct best; [apply Same; cprj; try reflexivity; lia|].
    destruct (p_active _); cprj.
    + destruct (aget None p _); [|exact H]. apply Same; cprj; try reflexivity; lia.
    + apply Same; cprj; try reflexivity; lia.
  - destruct (cget c s) as [r|]; [|exact H]. destruct (cr_phase r); exact H.
  - destruct (g <? c_next s); [|exact H]. apply JG_adds. apply Same; cprj; try reflexivity; lia.
  - eapply JG_limop with (o := LBegin n); [exact H|reflexivity|reflexivity|cprj; lia|discriminate].
  - destruct (jget n s) as [j|] eqn:Ej; [|exact H]. destruct (_ && _); [|exact H].
    eapply JG_same; [exact H|reflexivity|cprj; lia|]. intros n' jr Hj. unfold jget in *. cprj. rewrite aget_aput.
    destruct (n =? n') eqn:E; [|exists jr; auto]. apply Z.eqb_eq in E. subst n'. rewrite Ej in Hj. inversion Hj; subst.
    eexists. split; reflexivity.
  - destruct (jget n s) as [j|]; [|exact H]. destruct (jr_reported j); [|exact H].
    eapply JG_limop with (o := LReturn n); [exact H|reflexivity|reflexivity|cprj; lia|discriminate].
  - destruct (cget c s) as [r|]; [|exact H]. destruct (cr_phase r); try exact H; apply Same; cprj; try reflexivity; lia.
  - destruct (cget c s) as [r|]; [|exact H].
    destruct (cr_phase r); try exact H;
      (destruct (resp_of _ _) as [[|]|] || idtac); try (apply JG_leave; exact H);
      destruct (cr_canc r); try exact H; apply JG_leave; exact H.
  - destruct (memz g (c_stale s)); [|exact H].
    eapply JG_limop with (o := LClear (aget 0 g (c_gpeer s))); [exact H|reflexivity|reflexivity|cprj; lia|discriminate].
Qed.

Lemma init_JG : forall fdl ppl fd, JG (init_c fdl ppl fd).
Proof. intros. constructor; cbn; intros; contradiction. Qed.

(* ---- the limiter steps of a label; identities of added jobs are fresh ------------------------- *)
Definition fresh_ops (s : cst) (ops : list lop) : Prop := forall j, In (LAdd j) ops -> c_next s <= jid j.

Lemma adds_limpath : forall g p news s, exists ops,
  c_lim (fold_left (add_addr_job g p) news s) = fold_left lstep ops (c_lim s) /\
  c_next s <= c_next (fold_left (add_addr_job g p) news s) /\ fresh_ops s ops.
Proof.
  induction news as [|a r IH]; intros s; cbn [fold_left].
  - exists []. split; [reflexivity|]. split; [lia | intros j []].
  - destruct (IH (add_addr_job g p s a)) as [ops [A [B C]]]. unfold add_addr_job in *. cprj.
    exists (LAdd (mkJob (c_next s) p (memz a (c_fd s)) g) :: ops). split; [exact A|]. split; [lia|].
    intros j [Hj|Hj]; [inversion Hj; subst; cbn [jid]; lia | apply C in Hj; cprj; lia].
Qed.

Lemma cstep_limpath : forall s l, exists ops,
  c_lim (cstep s l) = fold_left lstep ops (c_lim s) /\ c_next s <= c_next (cstep s l) /\ fresh_ops s ops.
Proof.
  intros s l.
  assert (Same : forall (L : lim) (N : Z), L = c_lim s -> c_next s <= N -> exists ops,
     L = fold_left lstep ops (c_lim s) /\ c_next s <= N /\ fresh_ops s ops).
  { intros L N El En. exists []. split; [exact El|]. split; [exact En | intros j []]. }
  assert (One : forall (L : lim) (N : Z) o, L = lstep (c_lim s) o -> c_next s <= N -> (forall j, o <> LAdd j) -> exists ops,
     L = fold_left lstep ops (c_lim s) /\ c_next s <= N /\ fresh_ops s ops).
  { intros L N o El En Ho. exists [o]. split; [exact El|]. split; [exact En|]. intros j [Hj|[]]. exfalso. eapply Ho; eauto. }
  assert (Lv : forall c r k, exists ops, c_lim (do_leave s c r k) = fold_left lstep ops (c_lim s) /\
     c_next s <= c_next (do_leave s c r k) /\ fresh_ops s ops).
  { intros c r k. unfold do_leave. cprj. destruct (p_active _); cprj.
    - exists []. split; [reflexivity|]. split; [lia | intros j []].
    - exists [LCancel (cr_gen r)]. split; [reflexivity|]. split; [lia | intros j [Hj|[]]; discriminate]. }
  destruct l; cbn [cstep].
  - destruct (cget c s); [apply Same; [reflexivity | lia]|]. destruct best; [apply Same; cprj; [reflexivity | lia]|].
    destruct (p_active _); cprj.
    + destruct (aget None p _); apply Same; cprj; try reflexivity; lia.
    + apply Same; cprj; [reflexivity | lia].
  - destruct (cget c s) as [r|]; [|apply Same; [reflexivity | lia]].
    destruct (cr_phase r); apply Same; cprj; try reflexivity; lia.
  - destruct (g <? c_next s); [|apply Same; [reflexivity | lia]].
    match goal with |- context [fold_left ?f ?news ?s0] => destruct (adds_limpath g (aget 0 g (c_gpeer s)) news s0) as [ops [A [B C]]] end.
    exists ops. cprj. split; [exact A|]. split; [exact B | exact C].
  - apply (One _ _ (LBegin n)); cprj; [reflexivity | lia | discriminate].
  - destruct (jget n s) as [j|]; [|apply Same; [reflexivity | lia]]. destruct (_ && _); apply Same; cprj; try reflexivity; lia.
  - destruct (jget n s) as [j|]; [|apply Same; [reflexivity | lia]].
    destruct (jr_reported j); [apply (One _ _ (LReturn n)); cprj; [reflexivity | lia | discriminate] | apply Same; [reflexivity | lia]].
  - destruct (cget c s) as [r|]; [|apply Same; [reflexivity | lia]].
    destruct (cr_phase r); apply Same; cprj; try reflexivity; lia.
  - destruct (cget c s) as [r|]; [|apply Same; [reflexivity | lia]].
    destruct (cr_phase r); try (apply Same; [reflexivity | lia]).
    + destruct (cr_canc r); [apply Lv | apply Same; [reflexivity | lia]].
    + destruct (resp_of c _) as [[|]|]; try apply Lv. destruct (cr_canc r); [apply Lv | apply Same; [reflexivity | lia]].
  - destruct (memz g (c_stale s)); [|apply Same; [reflexivity | lia]].
    apply (One _ _ (LClear (aget 0 g (c_gpeer s)))); cprj; [reflexivity | lia | discriminate].
Qed.

(* a job that has left the queues (running, or gone) never returns to them *)
Lemma ops_rest0 : forall n ops l, Inv2 l -> (forall j, In (LAdd j) ops -> jid j <> n) -> rest n l = 0 ->
  rest n (fold_left lstep ops l) = 0.
Proof.
  induction ops as [|o r IH]; intros l I F H; cbn [fold_left]; [exact H|]. apply IH.
  - apply lstep_inv2, I.
  - intros j Hj. apply F. right. exact Hj.
  - destruct (lstep_tot l o n (i2core _ I)) as [_ B]. pose proof (rest_nonneg n (lstep l o)).
    assert (Z0 : addc n o = 0).
    { destruct o; try reflexivity. cbn [addc cid]. destruct (jid j =? n) eqn:E; [|reflexivity].
      apply Z.eqb_eq in E. exfalso. apply (F j); [left; reflexivity | exact E]. }
    lia.
Qed.

Definition R0 (n : Z) (s : cst) : Prop := n < c_next s /\ rest n (c_lim s) = 0.

Lemma cstep_R0 : forall n s l, TI s -> R0 n s -> R0 n (cstep s l).
Proof.
  intros n s l T [A B]. destruct (cstep_limpath s l) as [ops [E [En F]]]. split; [lia|]. rewrite E.
  apply ops_rest0; [apply (ti_inv _ T) | | exact B]. intros j Hj. apply F in Hj. lia.
Qed.

Lemma hstep_R0 : forall n a b, TIs a -> hstep a b -> R0 n (snd a) -> R0 n (snd b).
Proof.
  intros n a b T St H. destruct St; cbn [snd] in *; try exact H; try (apply cstep_R0; assumption).
  unfold end_job. cbn iota beta. destruct (jget (jid j) s); [|exact H]. cbn [snd].
  apply cstep_R0; [apply cstep_TI, T | apply cstep_R0; assumption].
Qed.

(* ---- a job whose context is live belongs to the live generation ----------------------------- *)
Definition LGP (s : cst) : Prop :=
  forall n jr, jget n s = Some jr -> ~ In (jr_gen jr) (cancelledG (c_lim s)) -> live_gen s = Some (jr_gen jr).

Definition lab_lgp (s : cst) (l : clabel) : Prop :=
  match l with
  | CCall _ p _ _ _ => p = PEER
  | CTimer g _ _ => live_gen s = Some g
  | _ => True
  end.

Lemma LGP_same : forall s s', LGP s -> c_gen s' = c_gen s -> cancelledG (c_lim s') = cancelledG (c_lim s) ->
  (forall n jr', jget n s' = Some jr' -> exists jr, jget n s = Some jr /\ jr_gen jr = jr_gen jr') -> LGP s'.
Proof.
  intros s s' H Eg Ec Hj n jr' H1 H2. destruct (Hj n jr' H1) as [jr [A B]]. unfold live_gen. rewrite Eg, <- B.
  apply (H n jr A). rewrite B, <- Ec. exact H2.
Qed.

Lemma LGP_add : forall g p s a, live_gen s = Some g -> LGP s ->
  LGP (add_addr_job g p s a) /\ live_gen (add_addr_job g p s a) = Some g.
Proof.
  intros g p s a Hg H. split; [|exact Hg]. intros n jr. unfold add_addr_job, jget, live_gen. cprj. rewrite aget_aput, lstep_cancG.
  destruct (c_next s =? n); [intros E; inversion E; subst; intros _; exact Hg | apply H].
Qed.

Lemma LGP_adds : forall g p news s, live_gen s = Some g -> LGP s -> LGP (fold_left (add_addr_job g p) news s).
Proof.
  induction news as [|a r IH]; intros s Hg H; cbn [fold_left]; [exact H|].
  destruct (LGP_add g p s a Hg H) as [A B]. apply IH; assumption.
Qed.

Lemma LGP_leave : forall s c r k, GInv s -> LGP s -> cget c s = Some r -> cr_phase r <> PReturned -> LGP (do_leave s c r k).
Proof.
  intros s c r k G H Hc Hp. pose proof (g_livegen _ G c r Hc Hp) as Lg. unfold do_leave. cprj. destruct (p_active _); cprj.
  - eapply LGP_same; [exact H|reflexivity|reflexivity|]. intros n jr' Hj. exists jr'. split; [exact Hj | reflexivity].
  - intros n jr. unfold jget, live_gen. cprj. intros Hj Hn.
    assert (Hn' : jr_gen jr <> cr_gen r /\ ~ In (jr_gen jr) (cancelledG (c_lim s))) by (split; intros X; apply Hn; [left; symmetry; exact X | right; exact X]).
    destruct Hn' as [N1 N2]. pose proof (H n jr Hj N2) as L. unfold live_gen in L. rewrite aget_adel.
    destruct (cr_peer r =? PEER) eqn:E; [|exact L]. apply Z.eqb_eq in E. rewrite E in Lg. rewrite Lg in L. inversion L. congruence.
Qed.

Lemma cstep_LGP : forall s l, GInv s -> LGP s -> lab_lgp s l -> LGP (cstep s l).
Proof.
  intros s l G H Hl.
  assert (Same : forall s', c_gen s' = c_gen s -> cancelledG (c_lim s') = cancelledG (c_lim s) -> c_jobs s' = c_jobs s -> LGP s').
  { intros s' Eg Ec Ej. eapply LGP_same; [exact H|exact Eg|exact Ec|]. intros n jr' Hj. exists jr'. unfold jget in *. rewrite <- Ej. auto. }
  destruct l; cbn [cstep]; cbn [lab_lgp] in Hl.
  - subst p. destruct (cget c s); [exact H|]. destruct best; [apply Same; reflexivity|].
    destruct (p_active (sget PEER (c_sync s))) eqn:Ea; cprj.
    + destruct (aget None PEER (c_gen s)); [apply Same; reflexivity | exact H].
    + intros n jr Hj Hn. exfalso. unfold jget in Hj. cprj. pose proof (H n jr Hj Hn) as L.
      destruct (g_gen _ G PEER _ L) as [X _]. congruence.
  - destruct (cget c s) as [r|]; [|exact H]. destruct (cr_phase r); exact H.
  - destruct (g <? c_next s); [|exact H]. apply LGP_adds; [exact Hl|]. apply Same; reflexivity.
  - apply Same; cprj; try reflexivity; apply lstep_cancG.
  - destruct (jget n s) as [j|] eqn:Ej; [|exact H]. destruct (_ && _); [|exact H].
    eapply LGP_same; [exact H|reflexivity|reflexivity|]. intros n' jr'. unfold jget in *. cprj. rewrite aget_aput.
    destruct (n =? n') eqn:E; [|intros X; exists jr'; auto]. apply Z.eqb_eq in E. subst n'. intros X. inversion X; subst.
    exists j. split; [exact Ej | reflexivity].
  - destruct (jget n s) as [j|]; [|exact H]. destruct (jr_reported j); [|exact H]. apply Same; cprj; try reflexivity; apply lstep_cancG.
  - destruct (cget c s) as [r|]; [|exact H]. destruct (cr_phase r); try exact H; apply Same; reflexivity.
  - destruct (cget c s) as [r|] eqn:Ec; [|exact H]. destruct (cr_phase r) eqn:Ep; try exact H.
    + destruct (cr_canc r); [apply LGP_leave; auto; congruence | exact H].
    + destruct (resp_of c _) as [[|]|]; try (apply LGP_leave; auto; congruence).
      destruct (cr_canc r); [apply LGP_leave; auto; congruence | exact H].
  - destruct (memz g (c_stale s)); [|exact H]. apply Same; cprj; try reflexivity; apply lstep_cancG.
Qed.

Lemma init_LGP : forall fdl ppl fd, LGP (init_c fdl ppl fd).
Proof. intros fdl ppl fd n jr H. discriminate. Qed.

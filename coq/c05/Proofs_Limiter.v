(* C05 — invariants of the dial limiter model, for every history. *)
From Coq Require Import List ZArith Bool Lia.
From Verif Require Import c05.ModelLimiter.
Import ListNotations.
Local Open Scope Z_scope.

Ltac prj := cbn [fdLimit perPeerLimit fdConsuming waitingOnFd activePerPeer waitingOnPeer
                 spawned dialing cancelledG set_fd set_wfd set_act set_wp set_spawned
                 set_dialing set_cancelled spawn] in *.

(* ---- counting ------------------------------------------------------------ *)
Fixpoint cnt_fd (l : list job) : Z :=
  match l with [] => 0 | j :: r => (if jfd j then 1 else 0) + cnt_fd r end.
Fixpoint cnt_peer (p : Z) (l : list job) : Z :=
  match l with [] => 0 | j :: r => (if jpeer j =? p then 1 else 0) + cnt_peer p r end.

Lemma cnt_fd_app : forall a b, cnt_fd (a ++ b) = cnt_fd a + cnt_fd b.
Proof. induction a; intros; cbn [app cnt_fd]; [lia | rewrite IHa; lia]. Qed.
Lemma cnt_peer_app : forall p a b, cnt_peer p (a ++ b) = cnt_peer p a + cnt_peer p b.
Proof. induction a; intros; cbn [app cnt_peer]; [lia | rewrite IHa; lia]. Qed.
Lemma cnt_fd_nonneg : forall l, 0 <= cnt_fd l.
Proof. induction l; cbn [cnt_fd]; [lia | destruct (jfd a); lia]. Qed.
Lemma cnt_peer_nonneg : forall p l, 0 <= cnt_peer p l.
Proof. induction l; cbn [cnt_peer]; [lia | destruct (jpeer a =? p); lia]. Qed.

Ltac normg := rewrite <- ?app_assoc; rewrite ?cnt_fd_app, ?cnt_peer_app; cbn [cnt_fd cnt_peer app];
              rewrite ?cnt_fd_app, ?cnt_peer_app; cbn [cnt_fd cnt_peer app].

Lemma take_job_cnt : forall id l j r, take_job id l = Some (j, r) ->
  cnt_fd l = (if jfd j then 1 else 0) + cnt_fd r /\
  (forall p, cnt_peer p l = (if jpeer j =? p then 1 else 0) + cnt_peer p r).
Proof.
  induction l as [|x l IH]; intros j r H; cbn [take_job] in H; [discriminate|].
  destruct (jid x =? id).
  - inversion H; subst. split; intros; reflexivity.
  - destruct (take_job id l) as [[y r']|] eqn:E; [|discriminate].
    inversion H; subst. destruct (IH _ _ eq_refl) as [A B]. split.
    + cbn [cnt_fd]. rewrite A. lia.
    + intros p. cbn [cnt_peer]. rewrite B. lia.
Qed.

(* ---- association lists ----------------------------------------------------- *)
Lemma aget_adel : forall V (d : V) k k' m,
  aget d k (adel k' m) = if k' =? k then d else aget d k m.
Proof.
  induction m as [|[a v] m IH]; cbn [adel aget].
  - destruct (k' =? k); reflexivity.
  - destruct (a =? k') eqn:E1.
    + rewrite IH. destruct (k' =? k) eqn:E2; [reflexivity|].
      apply Z.eqb_eq in E1. subst. rewrite E2. reflexivity.
    + cbn [aget]. destruct (a =? k) eqn:E3.
      * destruct (k' =? k) eqn:E2; [|reflexivity].
        apply Z.eqb_eq in E2, E3. subst. rewrite Z.eqb_refl in E1. discriminate.
      * apply IH.
Qed.

Lemma aget_aput : forall V (d : V) k k' v m,
  aget d k (aput k' v m) = if k' =? k then v else aget d k m.
Proof.
  intros. unfold aput. cbn [aget]. destruct (k' =? k) eqn:E; [reflexivity|].
  rewrite aget_adel, E. reflexivity.
Qed.

Lemma act_get_set : forall q p v m,
  act_get q (act_set p v m) = if p =? q then v else act_get q m.
Proof.
  intros. unfold act_get, act_set. destruct (v =? 0) eqn:E.
  - rewrite aget_adel. apply Z.eqb_eq in E. subst. reflexivity.
  - apply aget_aput.
Qed.

Lemma wl_get_set : forall q p l m,
  wl_get q (wl_set p l m) = if p =? q then l else wl_get q m.
Proof.
  intros. unfold wl_get, wl_set. destruct l.
  - apply aget_adel.
  - apply aget_aput.
Qed.

Lemma wl_get_aput : forall q p l m,
  wl_get q (aput p l m) = if p =? q then l else wl_get q m.
Proof. intros. apply aget_aput. Qed.

Lemma wl_get_adel : forall q p m,
  wl_get q (adel p m) = if p =? q then [] else wl_get q m.
Proof. intros. apply aget_adel. Qed.

(* ---- the invariant --------------------------------------------------------- *)
Definition exec (s : lim) : list job := spawned s ++ dialing s.

(* [extra]: jobs that hold a peer token but are, at this point inside a
   method, in none of the lists (the job being finished / being added) *)
Record Core (s : lim) (extra : list job) : Prop := mkCore {
  cF  : fdConsuming s = cnt_fd (exec s);
  cP  : forall q, act_get q (activePerPeer s) =
                  cnt_peer q (exec s) + cnt_peer q (waitingOnFd s) + cnt_peer q extra;
  cWF : Forall (fun j => jfd j = true) (waitingOnFd s);
  cCF : fdConsuming s <= fdLimit s;
  cCP : forall q, act_get q (activePerPeer s) <= perPeerLimit s;
  cWP : forall q j, In j (wl_get q (waitingOnPeer s)) -> jpeer j = q }.

Lemma cnt_peer_one : forall q j, cnt_peer q [j] = if jpeer j =? q then 1 else 0.
Proof. intros. cbn [cnt_peer]. lia. Qed.

Lemma add_check_fd_core : forall s j extra,
  Core s (j :: extra) -> Core (add_check_fd s j) extra.
Proof.
  intros s j extra [F P WF CF CP WP]. unfold add_check_fd, exec in *.
  destruct (jfd j) eqn:Ej.
  - destruct (Z.leb_spec (fdLimit s) (fdConsuming s)).
    + constructor; unfold exec; prj; auto.
      * intros q. rewrite P. normg. lia.
      * apply Forall_app. split; auto.
    + constructor; unfold exec; prj; auto.
      * rewrite cnt_fd_app in F. normg. rewrite Ej. lia.
      * intros q. rewrite P. normg. lia.
      * lia.
  - constructor; unfold exec; prj; auto.
    + rewrite cnt_fd_app in F. normg. rewrite Ej. lia.
    + intros q. rewrite P. normg. lia.
Qed.

Lemma add_check_fd_act : forall s j, activePerPeer (add_check_fd s j) = activePerPeer s.
Proof.
  intros. unfold add_check_fd. destruct (jfd j); [destruct (fdLimit s <=? fdConsuming s)|]; reflexivity.
Qed.
Lemma add_check_fd_wp : forall s j, waitingOnPeer (add_check_fd s j) = waitingOnPeer s.
Proof.
  intros. unfold add_check_fd. destruct (jfd j); [destruct (fdLimit s <=? fdConsuming s)|]; reflexivity.
Qed.
Lemma add_check_fd_lims : forall s j,
  fdLimit (add_check_fd s j) = fdLimit s /\ perPeerLimit (add_check_fd s j) = perPeerLimit s /\
  cancelledG (add_check_fd s j) = cancelledG s /\ dialing (add_check_fd s j) = dialing s.
Proof.
  intros. unfold add_check_fd. destruct (jfd j); [destruct (fdLimit s <=? fdConsuming s)|]; repeat split.
Qed.

Lemma peer_loop_core : forall wl p s extra,
  (forall j, In j wl -> jpeer j = p) ->
  act_get p (activePerPeer s) <= perPeerLimit s - 1 ->
  Core s extra -> Core (peer_loop wl s) extra.
Proof.
  induction wl as [|next rest IH]; intros p s extra Hp Hlt C; cbn [peer_loop]; [exact C|].
  assert (Ep : jpeer next = p) by (apply Hp; left; reflexivity).
  set (s1 := set_wp s (wl_set (jpeer next) rest (waitingOnPeer s))).
  assert (C1 : Core s1 extra).
  { destruct C as [F P WF CF CP WP]. constructor; unfold s1, exec in *; prj; auto.
    intros q j. rewrite wl_get_set. destruct (jpeer next =? q) eqn:E.
    - intros Hin. apply Z.eqb_eq in E. rewrite <- E, Ep. apply Hp. right. exact Hin.
    - apply WP. }
  destruct (is_cancelled s1 next).
  - apply (IH p); auto. intros j Hj. apply Hp. right. exact Hj.
  - apply add_check_fd_core.
    destruct C1 as [F P WF CF CP WP]. constructor; unfold exec in *; prj; auto.
    + intros q. rewrite act_get_set. destruct (jpeer next =? q) eqn:E.
      * apply Z.eqb_eq in E. rewrite E. rewrite P. cbn [cnt_peer].
        rewrite <- E, Z.eqb_refl. lia.
      * rewrite P. cbn [cnt_peer]. rewrite E. lia.
    + intros q. rewrite act_get_set. destruct (jpeer next =? q) eqn:E.
      * rewrite Ep. unfold s1. prj. lia.
      * apply CP.
Qed.

Lemma free_peer_token_core : forall s j extra,
  Core s (j :: extra) -> Core (free_peer_token s j) extra.
Proof.
  intros s j extra C. unfold free_peer_token.
  set (p := jpeer j).
  set (s1 := set_act s (act_set p (act_get p (activePerPeer s) - 1) (activePerPeer s))).
  apply (peer_loop_core _ p).
  - intros x Hx. destruct C. unfold s1 in Hx. prj. eapply cWP0; eauto.
  - unfold s1. prj. rewrite act_get_set, Z.eqb_refl. destruct C. specialize (cCP0 p). lia.
  - destruct C as [F P WF CF CP WP]. constructor; unfold s1, exec in *; prj; auto.
    + intros q. rewrite act_get_set. destruct (p =? q) eqn:E.
      * apply Z.eqb_eq in E. subst q. rewrite P. cbn [cnt_peer]. unfold p. rewrite Z.eqb_refl. lia.
      * rewrite P. cbn [cnt_peer]. fold p. rewrite E. lia.
    + intros q. rewrite act_get_set. destruct (p =? q) eqn:E.
      * apply Z.eqb_eq in E. subst q. specialize (CP p). lia.
      * apply CP.
Qed.

Lemma fd_loop_core : forall fuel s extra, Core s extra -> Core (fd_loop fuel s) extra.
Proof.
  induction fuel as [|f IH]; intros s extra C; cbn [fd_loop]; [exact C|].
  destruct (waitingOnFd s) as [|next rest] eqn:Ew; [exact C|].
  destruct (Z.ltb_spec (fdConsuming s) (fdLimit s)); [|exact C].
  set (s1 := set_wfd s rest).
  assert (Hn : jfd next = true /\ Forall (fun j => jfd j = true) rest).
  { destruct C. rewrite Ew in cWF0. inversion cWF0; auto. }
  destruct (is_cancelled s1 next).
  - apply IH. apply free_peer_token_core.
    destruct C as [F P WF CF CP WP]. constructor; unfold s1, exec in *; prj; auto.
    + intros q. rewrite P, Ew. cbn [cnt_peer]. lia.
    + tauto.
  - destruct C as [F P WF CF CP WP]. constructor; unfold s1, exec in *; prj; auto.
    + destruct Hn as [Hn _]. rewrite cnt_fd_app in F. normg. rewrite Hn. lia.
    + intros q. rewrite P, Ew. normg. lia.
    + tauto.
    + lia.
Qed.

(* finishedDial for a job [j] that has just been removed from the executing
   lists: its tokens are still counted *)
Record PreFin (s : lim) (j : job) : Prop := mkPreFin {
  pF  : fdConsuming s = cnt_fd (exec s) + (if jfd j then 1 else 0);
  pP  : forall q, act_get q (activePerPeer s) =
                  cnt_peer q (exec s) + cnt_peer q (waitingOnFd s) + cnt_peer q [j];
  pWF : Forall (fun j => jfd j = true) (waitingOnFd s);
  pCF : fdConsuming s <= fdLimit s;
  pCP : forall q, act_get q (activePerPeer s) <= perPeerLimit s;
  pWP : forall q x, In x (wl_get q (waitingOnPeer s)) -> jpeer x = q }.

Lemma prefin_core : forall s j, PreFin s j ->
  Core (if jfd j then set_fd s (fdConsuming s - 1) else s) [j].
Proof.
  intros s j [F P WF CF CP WP]. destruct (jfd j).
  - constructor; unfold exec in *; prj; auto; lia.
  - constructor; unfold exec in *; prj; auto; lia.
Qed.

Lemma finished_core : forall s j, PreFin s j -> Core (finished s j) [].
Proof.
  intros s j H. pose proof (prefin_core s j H) as C. unfold finished.
  apply free_peer_token_core.
  destruct (jfd j) eqn:Ej.
  - unfold free_fd_token. apply fd_loop_core. exact C.
  - exact C.
Qed.

Definition Inv (s : lim) : Prop := Core s [].

Lemma init_inv : forall a b, 0 <= a -> 0 <= b -> Inv (init_lim a b).
Proof.
  intros a b Ha Hb. constructor; unfold exec; cbn; auto.
  - intros q j [].
Qed.

Lemma add_job_inv : forall s j, Inv s -> Inv (add_job s j).
Proof.
  intros s j C. unfold add_job.
  destruct (Z.leb_spec (perPeerLimit s) (act_get (jpeer j) (activePerPeer s))).
  - destruct C as [F P WF CF CP WP]. constructor; unfold exec in *; prj; auto.
    intros q x. rewrite wl_get_aput. destruct (jpeer j =? q) eqn:E.
    + intros Hin. apply in_app_or in Hin. destruct Hin as [Hin|[Hin|[]]].
      * apply Z.eqb_eq in E. rewrite <- E. apply WP in Hin. rewrite Hin. reflexivity.
      * subst x. apply Z.eqb_eq in E. exact E.
    + apply WP.
  - apply add_check_fd_core.
    destruct C as [F P WF CF CP WP]. constructor; unfold exec in *; prj; auto.
    + intros q. rewrite act_get_set. destruct (jpeer j =? q) eqn:E.
      * apply Z.eqb_eq in E. subst q. rewrite P. cbn [cnt_peer]. rewrite Z.eqb_refl. lia.
      * rewrite P. cbn [cnt_peer]. rewrite E. lia.
    + intros q. rewrite act_get_set. destruct (jpeer j =? q) eqn:E; [lia | apply CP].
Qed.

Lemma take_spawned_prefin : forall s id j r, Inv s ->
  take_job id (spawned s) = Some (j, r) -> PreFin (set_spawned s r) j.
Proof.
  intros s id j r [F P WF CF CP WP] E. destruct (take_job_cnt _ _ _ _ E) as [A B].
  constructor; unfold exec in *; prj; auto.
  - rewrite cnt_fd_app in *. lia.
  - intros q. rewrite P, !cnt_peer_app, B. cbn [cnt_peer]. lia.
Qed.

Lemma take_dialing_prefin : forall s id j r, Inv s ->
  take_job id (dialing s) = Some (j, r) -> PreFin (set_dialing s r) j.
Proof.
  intros s id j r [F P WF CF CP WP] E. destruct (take_job_cnt _ _ _ _ E) as [A B].
  constructor; unfold exec in *; prj; auto.
  - rewrite cnt_fd_app in *. lia.
  - intros q. rewrite P, !cnt_peer_app, B. cbn [cnt_peer]. lia.
Qed.

Lemma lstep_inv : forall s o, Inv s -> Inv (lstep s o).
Proof.
  intros s o C. destruct o as [j|g|p|id|id]; cbn [lstep].
  - apply add_job_inv, C.
  - destruct C. constructor; unfold exec in *; prj; auto.
  - destruct C as [F P WF CF CP WP]. constructor; unfold clear_peer, exec in *; prj; auto.
    intros q x. rewrite wl_get_set. destruct (p =? q) eqn:E; [|apply WP].
    apply Z.eqb_eq in E. subst q. intros Hin. apply filter_In in Hin. apply WP, Hin.
  - destruct (take_job id (spawned s)) as [[j r]|] eqn:E; [|exact C].
    pose proof (take_spawned_prefin _ _ _ _ C E) as H.
    destruct (is_cancelled (set_spawned s r) j).
    + apply finished_core, H.
    + destruct (take_job_cnt _ _ _ _ E) as [A B].
      destruct C as [F P WF CF CP WP]. unfold exec in *.
      constructor; unfold exec; prj; auto.
      * rewrite !cnt_fd_app in *. cbn [cnt_fd]. lia.
      * intros q. rewrite P, !cnt_peer_app, B. cbn [cnt_peer]. lia.
  - destruct (take_job id (dialing s)) as [[j r]|] eqn:E; [|exact C].
    apply finished_core. eapply take_dialing_prefin; eauto.
Qed.

Lemma lrun_inv : forall ops s, Inv s -> Inv (lrun s ops).
Proof.
  induction ops as [|o ops IH]; intros s C; cbn [lrun fold_left]; [exact C|].
  apply IH, lstep_inv, C.
Qed.

(* ---- no lost wake-up: a queue is non-empty only while its cap is saturated ---- *)
Definition QF (s : lim) : Prop := waitingOnFd s <> [] -> fdLimit s <= fdConsuming s.
Definition QFm (s : lim) : Prop := waitingOnFd s <> [] -> fdLimit s - 1 <= fdConsuming s.
Definition QP (s : lim) : Prop :=
  forall q, wl_get q (waitingOnPeer s) <> [] -> perPeerLimit s <= act_get q (activePerPeer s).

Lemma add_check_fd_QF : forall s j, QF s -> QF (add_check_fd s j).
Proof.
  intros s j H. unfold QF, add_check_fd in *.
  destruct (jfd j); [destruct (Z.leb_spec (fdLimit s) (fdConsuming s))|]; prj; intros Hn.
  - lia.
  - apply H in Hn. lia.
  - apply H, Hn.
Qed.

Lemma add_check_fd_QFm : forall s j, QFm s -> QFm (add_check_fd s j).
Proof.
  intros s j H. unfold QFm, add_check_fd in *.
  destruct (jfd j); [destruct (Z.leb_spec (fdLimit s) (fdConsuming s))|]; prj; intros Hn.
  - lia.
  - apply H in Hn. lia.
  - apply H, Hn.
Qed.

Lemma peer_loop_QFx : forall (X : lim -> Prop),
  (forall s j, X s -> X (add_check_fd s j)) ->
  (forall s v, X s -> X (set_wp s v)) -> (forall s v, X s -> X (set_act s v)) ->
  forall wl s, X s -> X (peer_loop wl s).
Proof.
  intros X Ha Hw Hc. induction wl as [|next rest IH]; intros s H; cbn [peer_loop]; [exact H|].
  destruct (is_cancelled _ next).
  - apply IH, Hw, H.
  - apply Ha, Hc, Hw, H.
Qed.

Lemma free_peer_token_QF : forall s j, QF s -> QF (free_peer_token s j).
Proof.
  intros s j H. unfold free_peer_token.
  apply (peer_loop_QFx QF); auto using add_check_fd_QF.
Qed.

Lemma free_peer_token_QFm : forall s j, QFm s -> QFm (free_peer_token s j).
Proof.
  intros s j H. unfold free_peer_token.
  apply (peer_loop_QFx QFm); auto using add_check_fd_QFm.
Qed.

Lemma peer_loop_QP : forall wl p s,
  (forall j, In j wl -> jpeer j = p) ->
  wl_get p (waitingOnPeer s) = wl ->
  (forall q, q <> p -> wl_get q (waitingOnPeer s) <> [] -> perPeerLimit s <= act_get q (activePerPeer s)) ->
  (wl <> [] -> perPeerLimit s - 1 <= act_get p (activePerPeer s)) ->
  QP (peer_loop wl s).
Proof.
  induction wl as [|next rest IH]; intros p s Hp Hw Ho Hm; cbn [peer_loop].
  - intros q Hq. destruct (Z.eq_dec q p); [subst; congruence | apply Ho; auto].
  - assert (Ep : jpeer next = p) by (apply Hp; left; reflexivity).
    assert (Hne : next :: rest <> []) by discriminate. specialize (Hm Hne).
    set (s1 := set_wp s (wl_set (jpeer next) rest (waitingOnPeer s))).
    destruct (is_cancelled s1 next).
    + apply (IH p).
      * intros j Hj. apply Hp. right. exact Hj.
      * unfold s1. prj. rewrite wl_get_set, Ep, Z.eqb_refl. reflexivity.
      * intros q Hq. unfold s1. prj. rewrite wl_get_set, Ep.
        destruct (p =? q) eqn:E; [apply Z.eqb_eq in E; congruence|]. apply Ho, Hq.
      * intros _. unfold s1. prj. exact Hm.
    + intros q. rewrite add_check_fd_wp, add_check_fd_act.
      destruct (add_check_fd_lims (set_act s1 (act_set (jpeer next)
                  (act_get (jpeer next) (activePerPeer s1) + 1) (activePerPeer s1))) next) as [_ [E2 _]].
      rewrite E2. unfold s1. prj. rewrite wl_get_set, act_get_set, Ep.
      destruct (p =? q) eqn:E.
      * intros _. lia.
      * apply Ho. intros ->. rewrite Z.eqb_refl in E. discriminate.
Qed.

Lemma free_peer_token_QP : forall s j extra,
  Core s extra -> QP s -> QP (free_peer_token s j).
Proof.
  intros s j extra C H. unfold free_peer_token.
  set (p := jpeer j).
  apply (peer_loop_QP _ p); prj.
  - intros x Hx. destruct C. eapply cWP0; eauto.
  - reflexivity.
  - intros q Hq Hn. rewrite act_get_set.
    destruct (p =? q) eqn:E; [apply Z.eqb_eq in E; congruence|]. apply H, Hn.
  - intros Hn. rewrite act_get_set, Z.eqb_refl. apply H in Hn. lia.
Qed.

Lemma peer_loop_wfd : forall wl s, fdConsuming s < fdLimit s ->
  waitingOnFd (peer_loop wl s) = waitingOnFd s.
Proof.
  induction wl as [|next rest IH]; intros s H; cbn [peer_loop]; [reflexivity|].
  destruct (is_cancelled _ next).
  - rewrite IH; prj; auto.
  - unfold add_check_fd. prj. destruct (jfd next); [|reflexivity].
    destruct (Z.leb_spec (fdLimit s) (fdConsuming s)); [lia | reflexivity].
Qed.

Lemma free_peer_token_wfd : forall s j, fdConsuming s < fdLimit s ->
  waitingOnFd (free_peer_token s j) = waitingOnFd s.
Proof. intros. unfold free_peer_token. rewrite peer_loop_wfd; prj; auto. Qed.

Lemma pop_core : forall s extra next rest, Core s extra -> waitingOnFd s = next :: rest ->
  Core (set_wfd s rest) (next :: extra).
Proof.
  intros s extra next rest [F P WF CF CP WP] Ew. rewrite Ew in WF. inversion WF; subst.
  constructor; unfold exec in *; prj; auto.
  intros q. rewrite P, Ew. cbn [cnt_peer]. lia.
Qed.

(* the fuel S (length waitingOnFd) given by free_fd_token is enough: the loop
   ends because the queue is empty, the limit is reached again, or the token
   was handed over -- never because the fuel ran out *)
Lemma fd_loop_Q : forall fuel s extra,
  Core s extra -> QP s -> QFm s -> (length (waitingOnFd s) < fuel)%nat ->
  QP (fd_loop fuel s) /\ QF (fd_loop fuel s).
Proof.
  induction fuel as [|f IH]; intros s extra C HP HF Hl; [lia|]. cbn [fd_loop].
  destruct (waitingOnFd s) as [|next rest] eqn:Ew.
  - split; [exact HP|]. intros Hn. congruence.
  - destruct (Z.ltb_spec (fdConsuming s) (fdLimit s)).
    + set (s1 := set_wfd s rest).
      assert (Hne : waitingOnFd s <> []) by (rewrite Ew; discriminate).
      pose proof (pop_core _ _ _ _ C Ew) as C1. fold s1 in C1.
      destruct (is_cancelled s1 next).
      * apply (IH _ extra).
        -- apply free_peer_token_core, C1.
        -- eapply free_peer_token_QP; [exact C1|]. exact HP.
        -- apply free_peer_token_QFm. intros _. unfold s1. prj. apply HF, Hne.
        -- rewrite free_peer_token_wfd; unfold s1; prj; auto. cbn [length] in Hl. lia.
      * split.
        -- exact HP.
        -- intros _. unfold s1. prj. specialize (HF Hne). lia.
    + split; [exact HP|]. intros _. lia.
Qed.

Lemma finished_Q : forall s j, PreFin s j -> QF s -> QP s ->
  QF (finished s j) /\ QP (finished s j).
Proof.
  intros s j H HF HP. pose proof (prefin_core s j H) as C. unfold finished.
  destruct (jfd j) eqn:Ej.
  - unfold free_fd_token.
    set (s1 := set_fd s (fdConsuming s - 1)) in *.
    destruct (fd_loop_Q (S (length (waitingOnFd s1))) s1 [j] C) as [A B].
    + exact HP.
    + intros Hn. unfold s1 in *. prj. specialize (HF Hn). lia.
    + lia.
    + split.
      * apply free_peer_token_QF, B.
      * eapply free_peer_token_QP; [|exact A]. apply fd_loop_core, C.
  - split.
    + apply free_peer_token_QF, HF.
    + eapply free_peer_token_QP; eauto.
Qed.

Lemma lstep_Q : forall s o, Inv s -> QF s -> QP s -> QF (lstep s o) /\ QP (lstep s o).
Proof.
  intros s o C HF HP. destruct o as [j|g|p|id|id]; cbn [lstep].
  - unfold add_job.
    destruct (Z.leb_spec (perPeerLimit s) (act_get (jpeer j) (activePerPeer s))).
    + split; [exact HF|]. intros q. prj. rewrite wl_get_aput.
      destruct (jpeer j =? q) eqn:E; [|apply HP]. apply Z.eqb_eq in E. subst q. intros _. exact H.
    + split.
      * apply add_check_fd_QF. exact HF.
      * intros q. rewrite add_check_fd_wp, add_check_fd_act.
        destruct (add_check_fd_lims (set_act s (act_set (jpeer j)
                  (act_get (jpeer j) (activePerPeer s) + 1) (activePerPeer s))) j) as [_ [E2 _]].
        rewrite E2. prj. rewrite act_get_set. intros Hn. apply HP in Hn.
        destruct (jpeer j =? q) eqn:E; [apply Z.eqb_eq in E; subst; lia | exact Hn].
  - split; [exact HF | exact HP].
  - split; [exact HF|]. intros q. unfold clear_peer. prj. rewrite wl_get_set.
    destruct (p =? q) eqn:E; [|apply HP]. apply Z.eqb_eq in E. subst q. intros Hn. apply HP.
    intros He. apply Hn. rewrite He. reflexivity.
  - destruct (take_job id (spawned s)) as [[j r]|] eqn:E; [|split; assumption].
    pose proof (take_spawned_prefin _ _ _ _ C E) as H.
    destruct (is_cancelled (set_spawned s r) j).
    + apply finished_Q; auto.
    + split; [exact HF | exact HP].
  - destruct (take_job id (dialing s)) as [[j r]|] eqn:E; [|split; assumption].
    apply finished_Q; auto. eapply take_dialing_prefin; eauto.
Qed.

Record Inv2 (s : lim) : Prop := mkInv2 { i2core : Inv s; i2qf : QF s; i2qp : QP s }.

Lemma init_inv2 : forall a b, 0 <= a -> 0 <= b -> Inv2 (init_lim a b).
Proof.
  intros. constructor; [apply init_inv; auto| |].
  - intros Hn. cbn in Hn. congruence.
  - intros q Hn. cbn in Hn. congruence.
Qed.

Lemma lstep_inv2 : forall s o, Inv2 s -> Inv2 (lstep s o).
Proof.
  intros s o [C HF HP]. destruct (lstep_Q s o C HF HP). constructor; auto using lstep_inv.
Qed.

Lemma lrun_inv2 : forall ops s, Inv2 s -> Inv2 (lrun s ops).
Proof.
  induction ops as [|o ops IH]; intros s C; cbn [lrun fold_left]; [exact C|].
  apply IH, lstep_inv2, C.
Qed.

Lemma lstep_limits : forall s o, fdLimit (lstep s o) = fdLimit s /\ perPeerLimit (lstep s o) = perPeerLimit s.
Proof.
  assert (Hacf : forall s j, fdLimit (add_check_fd s j) = fdLimit s /\ perPeerLimit (add_check_fd s j) = perPeerLimit s).
  { intros. destruct (add_check_fd_lims s j) as [A [B _]]. auto. }
  assert (Hpl : forall wl s, fdLimit (peer_loop wl s) = fdLimit s /\ perPeerLimit (peer_loop wl s) = perPeerLimit s).
  { induction wl as [|n r IH]; intros s; cbn [peer_loop]; [auto|].
    destruct (is_cancelled _ n).
    - destruct (IH (set_wp s (wl_set (jpeer n) r (waitingOnPeer s)))) as [A B]. rewrite A, B. auto.
    - match goal with |- context [add_check_fd ?x n] => destruct (Hacf x n) as [A B] end.
      rewrite A, B. auto. }
  assert (Hfp : forall s j, fdLimit (free_peer_token s j) = fdLimit s /\ perPeerLimit (free_peer_token s j) = perPeerLimit s).
  { intros. unfold free_peer_token. match goal with |- context [peer_loop ?w ?x] => destruct (Hpl w x) as [A B] end.
    rewrite A, B. auto. }
  assert (Hfl : forall f s, fdLimit (fd_loop f s) = fdLimit s /\ perPeerLimit (fd_loop f s) = perPeerLimit s).
  { induction f as [|f IH]; intros s; cbn [fd_loop]; [auto|].
    destruct (waitingOnFd s) as [|n r]; [auto|]. destruct (fdConsuming s <? fdLimit s); [|auto].
    destruct (is_cancelled _ n); [|auto].
    match goal with |- context [fd_loop f ?x] => destruct (IH x) as [A B] end. rewrite A, B.
    destruct (Hfp (set_wfd s r) n) as [A2 B2]. rewrite A2, B2. auto. }
  assert (Hfin : forall s j, fdLimit (finished s j) = fdLimit s /\ perPeerLimit (finished s j) = perPeerLimit s).
  { intros. unfold finished. match goal with |- context [free_peer_token ?x j] => destruct (Hfp x j) as [A B] end.
    rewrite A, B. destruct (jfd j); [|auto]. unfold free_fd_token.
    match goal with |- context [fd_loop ?f ?x] => destruct (Hfl f x) as [A' B'] end. rewrite A', B'. auto. }
  intros s o. destruct o as [j|g|p|id|id]; cbn [lstep]; auto.
  - unfold add_job. destruct (perPeerLimit s <=? _); [auto|].
    match goal with |- context [add_check_fd ?x j] => destruct (Hacf x j) as [A B] end. rewrite A, B. auto.
  - destruct (take_job id (spawned s)) as [[j r]|]; [|auto].
    destruct (is_cancelled _ j); [|auto].
    match goal with |- context [finished ?x j] => destruct (Hfin x j) as [A B] end. rewrite A, B. auto.
  - destruct (take_job id (dialing s)) as [[j r]|]; [|auto].
    match goal with |- context [finished ?x j] => destruct (Hfin x j) as [A B] end. rewrite A, B. auto.
Qed.

Lemma lrun_limits : forall ops s, fdLimit (lrun s ops) = fdLimit s /\ perPeerLimit (lrun s ops) = perPeerLimit s.
Proof.
  induction ops as [|o ops IH]; intros s; cbn [lrun fold_left]; [auto|].
  fold (lrun (lstep s o) ops). destruct (IH (lstep s o)) as [A B]. destruct (lstep_limits s o) as [C D].
  rewrite A, B, C, D. auto.
Qed.

(* ---- the statements used in Properties.v ------------------------------------ *)
Lemma tokens_balanced_l : forall a b ops, 0 <= a -> 0 <= b ->
  let s := lrun (init_lim a b) ops in
  fdConsuming s = cnt_fd (spawned s ++ dialing s) /\ (forall p, act_get p (activePerPeer s) =
             cnt_peer p (spawned s ++ dialing s) + cnt_peer p (waitingOnFd s)) /\ (spawned s = [] -> dialing s = [] -> waitingOnFd s = [] ->
   fdConsuming s = 0 /\ forall p, act_get p (activePerPeer s) = 0).
Proof.
  intros a b ops Ha Hb s. destruct (lrun_inv ops _ (init_inv a b Ha Hb)) as [F P _ _ _ _].
  fold s in F, P. unfold exec in *. split; [exact F|]. split.
  - intros p. rewrite P. cbn [cnt_peer]. lia.
  - intros E1 E2 E3. split.
    + rewrite F, E1, E2. reflexivity.
    + intros p. rewrite P, E1, E2, E3. reflexivity.
Qed.

Lemma caps_l : forall a b ops, 0 <= a -> 0 <= b ->
  let s := lrun (init_lim a b) ops in
  0 <= fdConsuming s <= a /\ (forall p, 0 <= act_get p (activePerPeer s) <= b) /\ cnt_fd (dialing s) <= a /\ (forall p, cnt_peer p (dialing s) <= b).
Proof.
  intros a b ops Ha Hb s. destruct (lrun_inv ops _ (init_inv a b Ha Hb)) as [F P _ CF CP _].
  fold s in F, P, CF, CP. destruct (lrun_limits ops (init_lim a b)) as [L1 L2]. fold s in L1, L2.
  cbn in L1, L2. rewrite L1 in CF. unfold exec in *.
  pose proof (cnt_fd_nonneg (spawned s)). pose proof (cnt_fd_nonneg (dialing s)).
  rewrite cnt_fd_app in F. repeat split; try lia.
  - specialize (P p). rewrite cnt_peer_app in P. cbn [cnt_peer] in P.
    pose proof (cnt_peer_nonneg p (spawned s)). pose proof (cnt_peer_nonneg p (dialing s)).
    pose proof (cnt_peer_nonneg p (waitingOnFd s)). lia.
  - specialize (CP p). lia.
  - intros p. specialize (P p). specialize (CP p). rewrite cnt_peer_app in P. cbn [cnt_peer] in P.
    pose proof (cnt_peer_nonneg p (spawned s)). pose proof (cnt_peer_nonneg p (waitingOnFd s)). lia.
Qed.

Lemma no_residue_l : forall a b ops, 1 <= a -> 1 <= b ->
  let s := lrun (init_lim a b) ops in
  spawned s = [] -> dialing s = [] ->
  fdConsuming s = 0 /\ waitingOnFd s = [] /\ (forall p, act_get p (activePerPeer s) = 0 /\ wl_get p (waitingOnPeer s) = []).
Proof.
  intros a b ops Ha Hb s E1 E2.
  assert (Ha0 : 0 <= a) by lia. assert (Hb0 : 0 <= b) by lia.
  destruct (lrun_inv2 ops _ (init_inv2 a b Ha0 Hb0)) as [[F P _ _ _ _] HF HP].
  fold s in F, P, HF, HP. destruct (lrun_limits ops (init_lim a b)) as [L1 L2]. fold s in L1, L2.
  cbn in L1, L2. unfold exec, QF, QP in *. rewrite E1, E2 in *. cbn [app cnt_fd cnt_peer] in *.
  assert (W : waitingOnFd s = []).
  { destruct (waitingOnFd s) eqn:E; [reflexivity|]. assert (Hn : j :: l <> []) by discriminate.
    apply HF in Hn. lia. }
  split; [exact F|]. split; [exact W|]. intros p.
  assert (A : act_get p (activePerPeer s) = 0) by (rewrite P, W; reflexivity).
  split; [exact A|].
  destruct (wl_get p (waitingOnPeer s)) eqn:E; [reflexivity|].
  assert (Hn : wl_get p (waitingOnPeer s) <> []) by (rewrite E; discriminate).
  apply HP in Hn. lia.
Qed.

(* C05 — the DialPeer monitor on the traces of the composite model (harness-level
   semantics of SpecComposite).  Proved here: the caps clause (4) never fires.  The
   harness-level semantics reaches only states of the LTS, so every invariant of
   Proofs_Composite*.v that needs no hypothesis on the labels holds at every observation. *)
From Coq Require Import List ZArith Bool Lia.
From Verif Require Import lib.Wire c05.ModelLimiter c05.Proofs_Limiter c05.SpecLimiter c05.Proofs_LimiterMon.
From Verif Require Import c05.ModelWorker c05.ModelSync c05.ModelComposite c05.Proofs_Composite.
From Verif Require Import c05.SpecWorker c05.SpecDialPeer c05.SpecComposite.
Import ListNotations.
Local Open Scope Z_scope.

Section KClosed.
  Variable P : cst -> Prop.
  Hypothesis Pstep : forall s l, P s -> P (cstep s l).

  Lemma fold_closed : forall (A : Type) (f : denv * cst -> A -> denv * cst) (l : list A),
    (forall es a, P (snd es) -> P (snd (f es a))) -> forall es, P (snd es) -> P (snd (fold_left f l es)).
  Proof. induction l as [|a r IH]; intros Hf es H; cbn [fold_left]; [exact H|]. apply IH; auto. Qed.

  Lemma deliver_closed : forall es c, P (snd es) -> P (snd (deliver_one es c)).
  Proof.
    intros [e s] c H. cbn [snd] in *. unfold deliver_one. destruct (cget c s) as [r|]; [|exact H].
    destruct (cr_phase r); try exact H. destruct (is_blocked e (cr_gen r)); [exact H|].
    destruct (dn_park e); [exact H|]. cbn [snd]. apply Pstep, H.
  Qed.

  Lemma timer_closed : forall es, P (snd es) -> P (snd (fire_timer es)).
  Proof.
    intros [e s] H. cbn [snd] in *. unfold fire_timer. destruct (live_gen s) as [g|]; [|exact H].
    destruct (timer_due e s g (dn_now e)); [|exact H]. cbn [snd]. apply Pstep, H.
  Qed.

  Lemma begin_closed : forall es j, P (snd es) -> P (snd (begin_one es j)).
  Proof. intros [e s] j H. cbn [snd] in *. unfold begin_one. cbn [snd]. apply Pstep, H. Qed.

  Lemma end_closed : forall es n r, P (snd es) -> P (snd (end_job es n r)).
  Proof.
    intros [e s] n r H. cbn [snd] in *. unfold end_job. destruct (jget n s) as [j|]; [|exact H].
    cbn [snd]. apply Pstep, Pstep, H.
  Qed.

  Lemma leave_closed : forall es c, P (snd es) -> P (snd (leave_one es c)).
  Proof. intros [e s] c H. cbn [snd] in *. apply Pstep, H. Qed.

  Lemma exit_closed : forall es g, P (snd es) -> P (snd (exit_one es g)).
  Proof.
    intros [e s] g H. cbn [snd] in *. unfold exit_one. destruct (is_blocked e g); [exact H|]. cbn [snd]. apply Pstep, H.
  Qed.

  Lemma round_closed : forall es, P (snd es) -> P (snd (round es)).
  Proof.
    intros es H. unfold round.
    apply fold_closed; [intros; apply exit_closed; assumption|].
    apply fold_closed; [intros; apply leave_closed; assumption|].
    apply fold_closed; [intros; apply end_closed; assumption|].
    apply fold_closed; [intros; apply begin_closed; assumption|].
    apply timer_closed. apply fold_closed; [intros; apply deliver_closed; assumption | exact H].
  Qed.

  Lemma rounds_closed : forall n es, P (snd es) -> P (snd (rounds n es)).
  Proof. induction n as [|n IH]; intros es H; cbn [rounds]; [exact H|]. apply IH, round_closed, H. Qed.

  Lemma drain_closed : forall es, P (snd es) -> P (snd (drain es)).
  Proof. intros. apply rounds_closed. assumption. Qed.

  Lemma advance_closed : forall f stop es, P (snd es) -> P (snd (advance_to f stop es)).
  Proof.
    induction f as [|f IH]; intros stop [e s] H; cbn [advance_to snd] in *; [exact H|].
    destruct (live_gen s) as [g|]; [|exact H]. destruct (timer_due e s g stop); [|exact H].
    apply IH. apply drain_closed. exact H.
  Qed.

  Lemma kstep_closed : forall es x, P (snd es) -> P (snd (kstep es x)).
  Proof.
    intros [e0 s] x H. cbn [snd] in H. unfold kstep. destruct x.
    - apply drain_closed. cbn [snd]. apply Pstep, H.
    - apply drain_closed. apply advance_closed. apply drain_closed. exact H.
    - destruct (find_dialing s a) as [n|]; [|exact H]. apply drain_closed. cbn [snd].
      apply (end_closed (de_se e0 [] [], s)). exact H.
    - apply drain_closed. cbn [snd]. apply Pstep, Pstep, H.
    - apply drain_closed. exact H.
    - exact H.
    - apply drain_closed. exact H.
  Qed.
End KClosed.

Definition LimC (fdl ppl : Z) (s : cst) : Prop := LimOK fdl ppl (c_lim s).

Lemma LimC_step : forall fdl ppl s l, LimC fdl ppl s -> LimC fdl ppl (cstep s l).
Proof. intros. apply (cstep_lim (LimOK fdl ppl)); [apply LimOK_step | exact H]. Qed.

(* the caps clause of the monitor on an observation of a model state *)
Lemma caps_clause : forall fdl ppl s0 e s, LimC fdl ppl s ->
  let o := dobs_of s0 e s in
  (d_infd o <=? fdl) && (d_inpeer o <=? ppl) && (0 <=? d_fdc o) && (d_fdc o <=? fdl) &&
  (0 <=? d_actp o) && (d_actp o <=? ppl) = true.
Proof.
  intros fdl ppl s0 e s [I [L1 L2]] o. destruct (caps_state (c_lim s) (i2core _ I)) as [[A1 A2] [B [C D]]].
  unfold o, dobs_of. cbn [d_infd d_inpeer d_fdc d_actp]. rewrite L1, L2 in *.
  destruct (B PEER) as [B1 B2].
  repeat (apply andb_true_iff; split); apply Z.leb_le; try assumption.
  all: try (rewrite count_fd_eq; exact C); try (rewrite count_peer_eq; apply D).
Qed.

Lemma gtrace_cons : forall (S X O : Type) (step : S -> X -> S) (obs : S -> S -> O) s x r,
  gtrace step obs s (x :: r) = (x, obs s (step s x)) :: gtrace step obs (step s x) r.
Proof. reflexivity. Qed.

(* on every trace of the composite model the DialPeer monitor never reports the caps clause *)
Lemma monitor_d_caps_model : forall fdl ppl xs es m i, LimC fdl ppl (snd es) ->
  forall d, monitor_d fdl ppl m i (ctrace es xs) = d ->
  d = [] \/ exists j c, d = [ERR_PROPERTY; j; c] /\ c <> 4.
Proof.
  induction xs as [|x xs IH]; intros es m i L d H.
  - left. cbn in H. congruence.
  - unfold ctrace in *. rewrite gtrace_cons in H. cbn [monitor_d] in H.
    pose proof (kstep_closed (LimC fdl ppl) (LimC_step fdl ppl) es x L) as L'.
    pose proof (caps_clause fdl ppl (snd es) (fst (kstep es x)) (snd (kstep es x)) L') as Cc. cbv zeta in Cc.
    fold (kobs es (kstep es x)) in Cc.
    repeat match type of H with
    | (if ?c then ?a else ?b) = d =>
        lazymatch a with
        | [ERR_PROPERTY; _; 4] => rewrite Cc in H; cbn [negb] in H
        | _ => destruct c; [right; eexists; eexists; split; [symmetry; exact H | discriminate]|]
        end
    end.
    eapply IH; eauto.
Qed.

Lemma monitor_d_accepts_partial_l : forall fdl ppl fds xs, 0 <= fdl -> 0 <= ppl ->
  forall d, monitor_d fdl ppl (mkDmon [] [] [] false false) 0 (ctrace (init_denv, init_c fdl ppl fds) xs) = d ->
  d = [] \/ exists j c, d = [ERR_PROPERTY; j; c] /\ c <> 4.
Proof.
  intros fdl ppl fds xs H1 H2. apply monitor_d_caps_model. cbn.
  split; [apply init_inv2; assumption | split; reflexivity].
Qed.

(* ---- clause 2: a cancelled caller is released in the same step, with its context error ---- *)
From Verif Require Import c05.Proofs_Composite2.

(* a caller that has returned is in the list of returns *)
Definition RC (s : cst) : Prop :=
  forall c r, cget c s = Some r -> cr_phase r = PReturned -> In c (map fst (c_rets s)).

Definition rets_ext (s0 s : cst) : Prop := exists l, c_rets s = c_rets s0 ++ l.
Definition known (s0 s : cst) : Prop := forall c, cget c s0 <> None -> cget c s <> None.

Lemma rets_ext_refl : forall s, rets_ext s s. Proof. intros. exists []. rewrite app_nil_r. reflexivity. Qed.
Lemma rets_ext_trans : forall a b c, rets_ext a b -> rets_ext b c -> rets_ext a c.
Proof. intros a b c [l1 E1] [l2 E2]. exists (l1 ++ l2). rewrite E2, E1, app_assoc. reflexivity. Qed.

(* what a step does to callers and returns: nothing, a record update that keeps the phase
   un-returned or returns the caller together with an entry in c_rets *)
Lemma do_leave_facts : forall s c r k, cget c s = Some r ->
  c_rets (do_leave s c r k) = c_rets s ++ [(c, k)] /\
  (forall x, cget x (do_leave s c r k) = if c =? x then Some (set_phase r PReturned) else cget x s).
Proof.
  intros s c r k Hc. unfold do_leave. cprj. destruct (p_active _); cprj; split; try reflexivity;
    intros x; unfold cget; cprj; apply aget_aput.
Qed.

Lemma cstep_facts : forall s l, RC s ->
  RC (cstep s l) /\ rets_ext s (cstep s l) /\ known s (cstep s l).
Proof.
  intros s l R.
  assert (Same : forall s', c_callers s' = c_callers s -> c_rets s' = c_rets s -> RC s' /\ rets_ext s s' /\ known s s').
  { intros s' Ec Er. split; [|split].
    - intros c r. unfold cget. rewrite Ec, Er. apply R.
    - exists []. rewrite Er, app_nil_r. reflexivity.
    - intros c. unfold cget. rewrite Ec. auto. }
  assert (Upd : forall c r r' s', cget c s = Some r -> cr_phase r' <> PReturned \/ cr_phase r = PReturned ->
                 c_callers s' = aput c (Some r') (c_callers s) -> c_rets s' = c_rets s -> RC s' /\ rets_ext s s' /\ known s s').
  { intros c r r' s' Hc Hp Ec Er. split; [|split].
    - intros x rx. unfold cget. rewrite Ec, Er, aget_aput. destruct (c =? x) eqn:E; [|apply R].
      apply Z.eqb_eq in E. subst x. intros H Hr. inversion H; subst rx. destruct Hp as [Hp|Hp]; [congruence | apply (R c r Hc Hp)].
    - exists []. rewrite Er, app_nil_r. reflexivity.
    - intros x. unfold cget. rewrite Ec, aget_aput. destruct (c =? x); [discriminate | auto]. }
  assert (Leave : forall c r k, cget c s = Some r -> RC (do_leave s c r k) /\ rets_ext s (do_leave s c r k) /\ known s (do_leave s c r k)).
  { intros c r k Hc. destruct (do_leave_facts s c r k Hc) as [Er Eg]. split; [|split].
    - intros x rx. rewrite Eg, Er, map_app. destruct (c =? x) eqn:E.
      + intros _ _. apply Z.eqb_eq in E. subst x. apply in_or_app. right. left. reflexivity.
      + intros H Hr. apply in_or_app. left. apply (R x rx H Hr).
    - exists [(c, k)]. exact Er.
    - intros x. rewrite Eg. destruct (c =? x); [discriminate | auto]. }
  destruct l; cbn [cstep].
  - destruct (cget c s) as [r0|] eqn:Ec; [apply Same; reflexivity|].
    assert (New : forall rc s', cr_phase rc <> PReturned -> c_callers s' = aput c (Some rc) (c_callers s) -> c_rets s' = c_rets s ->
                    RC s' /\ rets_ext s s' /\ known s s').
    { intros rc s' Hp E1 E2. split; [|split].
      - intros x rx. unfold cget. rewrite E1, E2, aget_aput. destruct (c =? x); [intros H; inversion H; subst; congruence | apply R].
      - exists []. rewrite E2, app_nil_r. reflexivity.
      - intros x. unfold cget. rewrite E1, aget_aput. destruct (c =? x); [discriminate | auto]. }
    destruct best.
    + split; [|split].
      * intros x rx. unfold cget. cprj. rewrite aget_aput, map_app. destruct (c =? x) eqn:E.
        -- intros _ _. apply Z.eqb_eq in E. subst x. apply in_or_app. right. left. reflexivity.
        -- intros H Hr. apply in_or_app. left. apply (R x rx H Hr).
      * exists [(c, 0)]. reflexivity.
      * intros x. unfold cget. cprj. rewrite aget_aput. destruct (c =? x); [discriminate | auto].
    + destruct (p_active _); cprj.
      * destruct (aget None p (c_gen s)); [|apply Same; reflexivity]. eapply New; [|reflexivity|reflexivity]; cbn; discriminate.
      * eapply New; [|reflexivity|reflexivity]; cbn; discriminate.
  - destruct (cget c s) as [r|] eqn:Ec; [|apply Same; reflexivity]. destruct (cr_phase r) eqn:Ep; try (apply Same; reflexivity).
    eapply Upd; [exact Ec | | reflexivity | reflexivity]; left; cbn; discriminate.
  - destruct (g <? c_next s); [|apply Same; reflexivity].
    match goal with |- context [fold_left ?f ?news ?s0] => destruct (add_jobs_frame g (aget 0 g (c_gpeer s)) news s0) as [A [B _]] end.
    apply Same; [rewrite A | rewrite B]; reflexivity.
  - apply Same; reflexivity.
  - destruct (jget n s) as [j|]; [|apply Same; reflexivity]. destruct (_ && _); apply Same; reflexivity.
  - destruct (jget n s) as [j|]; [|apply Same; reflexivity]. destruct (jr_reported j); apply Same; reflexivity.
  - destruct (cget c s) as [r|] eqn:Ec; [|apply Same; reflexivity].
    destruct (cr_phase r) eqn:Ep; try (apply Same; reflexivity);
      (eapply Upd; [exact Ec | | reflexivity | reflexivity]; left; cbn; rewrite Ep; discriminate).
  - destruct (cget c s) as [r|] eqn:Ec; [|apply Same; reflexivity].
    destruct (cr_phase r); try (apply Same; reflexivity).
    + destruct (cr_canc r); [apply Leave, Ec | apply Same; reflexivity].
    + destruct (resp_of c _) as [[|]|]; try (apply Leave, Ec). destruct (cr_canc r); [apply Leave, Ec | apply Same; reflexivity].
  - destruct (memz g (c_stale s)); apply Same; reflexivity.
Qed.

(* the three facts as one predicate relative to the state at the start of the step *)
Definition RK (s0 s : cst) : Prop := RC s /\ RInv s /\ rets_ext s0 s /\ known s0 s.

Lemma RK_step : forall s0 s l, RK s0 s -> RK s0 (cstep s l).
Proof.
  intros s0 s l [A [B [C D]]]. destruct (cstep_facts s l A) as [A' [C' D']].
  split; [exact A'|]. split; [apply cstep_rinv, B|]. split; [eapply rets_ext_trans; eauto|].
  intros c H. apply D', D, H.
Qed.

Lemma RK_refl : forall s, RC s -> RInv s -> RK s s.
Proof. intros. split; [assumption|]. split; [assumption|]. split; [apply rets_ext_refl | intros c H'; exact H']. Qed.

Lemma in_fold_remz : forall l w c, In c (fold_right remz w l) -> In c w /\ ~ In c l.
Proof.
  induction l as [|x l IH]; intros w c H; cbn [fold_right] in H; [split; [exact H | intros []]|].
  unfold remz in H at 1. apply filter_In in H. destruct H as [H Hn]. destruct (IH w c H) as [A B].
  split; [exact A|]. intros [X|X]; [subst x; rewrite Z.eqb_refl in Hn; discriminate | contradiction].
Qed.

(* the callers the monitor believes inside are inside *)
Definition WL (s : cst) (w : list Z) : Prop :=
  forall c, In c w -> exists r, cget c s = Some r /\ cr_phase r <> PReturned.

Definition wf_kstim (s : cst) (x : cstim) : Prop :=
  match x with KCall c _ _ _ => cget c s = None | _ => True end.

(* generic over the step function so that the termination check does not unfold kstep *)
Fixpoint gwf {S X : Type} (step : S -> X -> S) (ok : S -> X -> Prop) (s : S) (xs : list X) : Prop :=
  match xs with [] => True | x :: r => ok s x /\ gwf step ok (step s x) r end.

Definition wf_kstims (es : denv * cst) (xs : list cstim) : Prop :=
  gwf kstep (fun es x => wf_kstim (snd es) x) es xs.

Lemma kstep_RK : forall es x, RC (snd es) -> RInv (snd es) -> RK (snd es) (snd (kstep es x)).
Proof.
  intros es x A B. apply (kstep_closed (RK (snd es))); [intros; apply RK_step; assumption | apply RK_refl; assumption].
Qed.

Lemma sort_pairs_in : forall x l, In x (sort_pairs l) <-> In x l.
Proof.
  intros x l. split; intros H.
  - eapply Permutation.Permutation_in; [apply c05.Proofs_WorkerMon.sort_pairs_perm | exact H].
  - eapply Permutation.Permutation_in; [apply Permutation.Permutation_sym, c05.Proofs_WorkerMon.sort_pairs_perm | exact H].
Qed.

Definition RCX (s2 : cst) (y : cst) : Prop := RC y /\ rets_ext s2 y /\ known s2 y.

Lemma RCX_step : forall s2 y l, RCX s2 y -> RCX s2 (cstep y l).
Proof.
  intros s2 y l [A [B C]]. destruct (cstep_facts y l A) as [A' [B' C']].
  split; [exact A'|]. split; [eapply rets_ext_trans; eauto | intros c H; apply C', C, H].
Qed.

(* the new caller of a KCall stimulus is registered by its first label *)
Lemma call_registers : forall s c sim fdir best, GInv s -> cget c s = None ->
  cget c (cstep s (CCall c PEER sim fdir best)) <> None.
Proof.
  intros s c sim fdir best G Hc. cbn [cstep]. rewrite Hc. destruct best.
  - unfold cget. cprj. rewrite aget_aput, Z.eqb_refl. discriminate.
  - destruct (p_active (sget PEER (c_sync s))) eqn:Ha; cprj.
    + destruct (g_active s G PEER Ha) as [g Hg]. rewrite Hg. unfold cget. cprj. rewrite aget_aput, Z.eqb_refl. discriminate.
    + unfold cget. cprj. rewrite aget_aput, Z.eqb_refl. discriminate.
Qed.

Lemma step_clause2 : forall es x w, GInv (snd es) -> RC (snd es) -> RInv (snd es) -> WL (snd es) w -> wf_kstim (snd es) x ->
  let es' := kstep es x in
  let o := kobs es es' in
  let wait0 := match x with KCall c _ _ _ => c :: w | _ => w end in
  let wait1 := fold_right remz wait0 (map fst (d_rets o)) in
  match x with
  | KCancel c => mem_z c w && negb (existsb (fun e => (fst e =? c) && (snd e =? 2)) (d_rets o))
  | _ => false end = false /\
  GInv (snd es') /\ RC (snd es') /\ RInv (snd es') /\ WL (snd es') wait1.
Proof.
  intros [e0 s] x w G A B Wl Wf. cbn [snd] in G, A, B, Wl, Wf.
  pose proof (kstep_RK (e0, s) x A B) as RKx.
  pose proof (kstep_closed GInv cstep_ginv (e0, s) x G) as G'.
  remember (kstep (e0, s) x) as es' eqn:Ees. intros es'' o wait0 wait1. subst es''.
  destruct RKx as [A' [B' [[l El] Kn]]]. cbn [snd] in El, Kn, G'.
  assert (Rn : d_rets o = sort_pairs l).
  { unfold o, kobs, dobs_of. cbn [d_rets]. change (snd (e0, s)) with s. rewrite El, c05.Proofs_WorkerMon.skipn_app_len. reflexivity. }
  split; [|split; [exact G'|split; [exact A'|split; [exact B'|]]]].
  - destruct x; try reflexivity. destruct (mem_z c w) eqn:Em; [|reflexivity]. cbn [andb]. apply negb_false_iff.
    apply mem_z_In in Em. destruct (Wl c Em) as [r [Hc Hp]].
    set (s1 := cstep s (CCancel c)). set (s2 := cstep s1 (CLeave c false)).
    assert (C1 : cget c s1 = Some (set_canc r) /\ c_rets s1 = c_rets s).
    { unfold s1. cbn [cstep]. rewrite Hc. destruct (cr_phase r) eqn:Ep; try congruence;
        (split; [unfold cget; cprj; rewrite aget_aput, Z.eqb_refl; reflexivity | reflexivity]). }
    destruct C1 as [C1 C2].
    assert (E2 : c_rets s2 = c_rets s ++ [(c, 2)]).
    { unfold s2. cbn [cstep]. rewrite C1. cbn [cr_phase set_canc cr_canc cr_gen negb andb].
      assert (L : c_rets (do_leave s1 c (set_canc r) 2) = c_rets s ++ [(c, 2)]).
      { destruct (do_leave_facts s1 c (set_canc r) 2 C1) as [X _]. rewrite X, C2. reflexivity. }
      destruct (cr_phase r) eqn:Ep; try congruence; try exact L.
      destruct (resp_of c _) as [[|]|]; exact L. }
    assert (R2 : RC s2) by (apply cstep_facts, cstep_facts, A).
    assert (Ex : RCX s2 (snd es')).
    { rewrite Ees. change (kstep (e0, s) (KCancel c)) with (drain (de_se e0 [] [], s2)).
      apply (drain_closed (RCX s2) (RCX_step s2)). change (snd (de_se e0 [] [], s2)) with s2.
      split; [exact R2|]. split; [apply rets_ext_refl | intros y Hy; exact Hy]. }
    destruct Ex as [_ [[l3 E3] _]]. rewrite E2, <- app_assoc in E3. rewrite El in E3. apply app_inv_head in E3.
    apply existsb_exists. exists (c, 2). split; [|cbn [fst snd]; rewrite Z.eqb_refl; reflexivity].
    rewrite Rn. apply sort_pairs_in. rewrite E3. left. reflexivity.
  - intros c' Hin. unfold wait1 in Hin. apply in_fold_remz in Hin. destruct Hin as [H0 Hn].
    assert (Old : ~ In c' (map fst (c_rets s)) /\ cget c' (snd es') <> None).
    { unfold wait0 in H0. destruct x; try (destruct (Wl c' H0) as [r [Hc Hp]]; split;
        [intros X; destruct (r_ret s B c' X) as [r0 [Y1 Y2]]; congruence | apply Kn; congruence]).
      destruct H0 as [H0|H0].
      - subst c'. cbn [wf_kstim] in Wf. split; [intros X; destruct (r_ret s B c X) as [r0 [Y1 _]]; congruence|].
        set (s1 := cstep s (CCall c PEER sim fdir (okconn (de_se e0 [] []) fdir))).
        assert (Ex : RCX s1 (snd es')).
        { rewrite Ees. unfold kstep. fold s1.
          match goal with |- RCX s1 (snd (drain ?z)) => apply (drain_closed (RCX s1) (RCX_step s1) z) end.
          match goal with |- RCX s1 (snd (?a, ?b)) => change (snd (a, b)) with b end.
          split; [apply cstep_facts, A|]. split; [apply rets_ext_refl | intros y Hy; exact Hy]. }
        destruct Ex as [_ [_ K1]]. apply K1. apply call_registers; auto.
      - destruct (Wl c' H0) as [r [Hc Hp]]. split;
          [intros X; destruct (r_ret s B c' X) as [r0 [Y1 Y2]]; congruence | apply Kn; congruence]. }
    destruct Old as [O1 O2]. destruct (cget c' (snd es')) as [r'|] eqn:Ec; [|congruence].
    exists r'. split; [reflexivity|]. intros Hr. pose proof (A' c' r' Ec Hr) as X. rewrite El, map_app in X.
    apply in_app_or in X. destruct X as [X|X]; [contradiction|]. apply Hn. rewrite Rn.
    apply in_map_iff in X. destruct X as [pr [X1 X2]]. apply in_map_iff. exists pr. split; [exact X1 | apply sort_pairs_in, X2].
Qed.

Lemma gwf_cons : forall (S X : Type) (step : S -> X -> S) ok s x r,
  gwf step ok s (x :: r) = (ok s x /\ gwf step ok (step s x) r).
Proof. reflexivity. Qed.

(* on every trace of the composite model (fresh caller ids) the DialPeer monitor reports
   neither clause 2 (cancelled caller not released) nor clause 4 (caps) *)
Lemma monitor_d_model24 : forall fdl ppl xs es m i,
  LimC fdl ppl (snd es) -> GInv (snd es) -> RC (snd es) -> RInv (snd es) -> WL (snd es) (dm_wait m) ->
  wf_kstims es xs ->
  forall d, monitor_d fdl ppl m i (ctrace es xs) = d ->
  d = [] \/ exists j c, d = [ERR_PROPERTY; j; c] /\ c <> 2 /\ c <> 4.
Proof.
  induction xs as [|x xs IH]; intros es m i L G A B Wl Wf d H.
  - left. cbn in H. congruence.
  - unfold ctrace in *. rewrite gtrace_cons in H. cbn [monitor_d] in H.
    unfold wf_kstims in Wf. rewrite gwf_cons in Wf. destruct Wf as [Wf1 Wf2].
    pose proof (kstep_closed (LimC fdl ppl) (LimC_step fdl ppl) es x L) as L'.
    pose proof (caps_clause fdl ppl (snd es) (fst (kstep es x)) (snd (kstep es x)) L') as Cc. cbv zeta in Cc.
    fold (kobs es (kstep es x)) in Cc.
    destruct (step_clause2 es x (dm_wait m) G A B Wl Wf1) as [C2 [G' [A' [B' Wl']]]]. cbv zeta in C2, Wl'.
    cbv zeta in H.
    repeat match type of H with
    | (if ?c then ?a else ?b) = d =>
        lazymatch a with
        | [ERR_PROPERTY; _; 4] => rewrite Cc in H; cbn [negb] in H
        | [ERR_PROPERTY; _; 2] => rewrite C2 in H
        | _ => destruct c; [right; eexists; eexists; split; [symmetry; exact H | split; discriminate]|]
        end
    end.
    eapply IH; eauto. cbn [dm_wait]. exact Wl'.
Qed.

Lemma monitor_d_accepts_partial24_l : forall fdl ppl fds xs, 0 <= fdl -> 0 <= ppl ->
  wf_kstims (init_denv, init_c fdl ppl fds) xs ->
  forall d, monitor_d fdl ppl (mkDmon [] [] [] false false) 0 (ctrace (init_denv, init_c fdl ppl fds) xs) = d ->
  d = [] \/ exists j c, d = [ERR_PROPERTY; j; c] /\ c <> 2 /\ c <> 4.
Proof.
  intros fdl ppl fds xs H1 H2 Wf. apply monitor_d_model24; auto; cbn [snd].
  - cbn. split; [apply init_inv2; assumption | split; reflexivity].
  - apply init_ginv.
  - intros c r H. discriminate.
  - apply init_rinv.
  - intros c [].
Qed.

(* C05 — the DialPeer monitor on the traces of the composite model (harness-level
   semantics of SpecComposite).  Proved here: the caps clause (4) never fires.  The
   harness-level semantics reaches only states of the LTS, so every invariant of
   Proofs_Composite*.v that needs no hypothesis on the labels holds at every observation. *)
From Coq Require Import List ZArith Bool Lia.
From Verif Require Import lib.Wire c05.ModelLimiter c05.Proofs_Limiter c05.SpecLimiter c05.Proofs_LimiterMon.
From Verif Require Import c05.ModelWorker c05.ModelSync c05.ModelComposite c05.Proofs_Composite.
From Verif Require Import c05.SpecWorker c05.SpecDialPeer c05.SpecComposite.
Import ListNotations.
Local Open Scope Z_scope.

Section KClosed.
  Variable P : cst -> Prop.
  Hypothesis Pstep : forall s l, P s -> P (cstep s l).

  Lemma fold_closed : forall (A : Type) (f : denv * cst -> A -> denv * cst) (l : list A),
    (forall es a, P (snd es) -> P (snd (f es a))) -> forall es, P (snd es) -> P (snd (fold_left f l es)).
  Proof. induction l as [|a r IH]; intros Hf es H; cbn [fold_left]; [exact H|]. apply IH; auto. Qed.

  Lemma deliver_closed : forall es c, P (snd es) -> P (snd (deliver_one es c)).
  Proof.
    intros [e s] c H. cbn [snd] in *. unfold deliver_one. destruct (cget c s) as [r|]; [|exact H].
    destruct (cr_phase r); try exact H. destruct (is_blocked e (cr_gen r)); [exact H|].
    destruct (dn_park e); [exact H|]. cbn [snd]. apply Pstep, H.
  Qed.

  Lemma timer_closed : forall es, P (snd es) -> P (snd (fire_timer es)).
  Proof.
    intros [e s] H. cbn [snd] in *. unfold fire_timer. destruct (live_gen s) as [g|]; [|exact H].
    destruct (timer_due e s g (dn_now e)); [|exact H]. cbn [snd]. apply Pstep, H.
  Qed.

  Lemma begin_closed : forall es j, P (snd es) -> P (snd (begin_one es j)).
  Proof. intros [e s] j H. cbn [snd] in *. unfold begin_one. cbn [snd]. apply Pstep, H. Qed.

  Lemma end_closed : forall es n r, P (snd es) -> P (snd (end_job es n r)).
  Proof.
    intros [e s] n r H. cbn [snd] in *. unfold end_job. destruct (jget n s) as [j|]; [|exact H].
    cbn [snd]. apply Pstep, Pstep, H.
  Qed.

  Lemma leave_closed : forall es c, P (snd es) -> P (snd (leave_one es c)).
  Proof. intros [e s] c H. cbn [snd] in *. apply Pstep, H. Qed.

  Lemma exit_closed : forall es g, P (snd es) -> P (snd (exit_one es g)).
  Proof.
    intros [e s] g H. cbn [snd] in *. unfold exit_one. destruct (is_blocked e g); [exact H|]. cbn [snd]. apply Pstep, H.
  Qed.

  Lemma round_closed : forall es, P (snd es) -> P (snd (round es)).
  Proof.
    intros es H. unfold round.
    apply fold_closed; [intros; apply exit_closed; assumption|].
    apply fold_closed; [intros; apply leave_closed; assumption|].
    apply fold_closed; [intros; apply end_closed; assumption|].
    apply fold_closed; [intros; apply begin_closed; assumption|].
    apply timer_closed. apply fold_closed; [intros; apply deliver_closed; assumption | exact H].
  Qed.

  Lemma rounds_closed : forall n es, P (snd es) -> P (snd (rounds n es)).
  Proof. induction n as [|n IH]; intros es H; cbn [rounds]; [exact H|]. apply IH, round_closed, H. Qed.

  Lemma drain_closed : forall es, P (snd es) -> P (snd (drain es)).
  Proof. intros. apply rounds_closed. assumption. Qed.

  Lemma advance_closed : forall f stop es, P (snd es) -> P (snd (advance_to f stop es)).
  Proof.
    induction f as [|f IH]; intros stop [e s] H; cbn [advance_to snd] in *; [exact H|].
    destruct (live_gen s) as [g|]; [|exact H]. destruct (timer_due e s g stop); [|exact H].
    apply IH. apply drain_closed. exact H.
  Qed.

  Lemma kstep_closed : forall es x, P (snd es) -> P (snd (kstep es x)).
  Proof.
    intros [e0 s] x H. cbn [snd] in H. unfold kstep. destruct x.
    - apply drain_closed. cbn [snd]. apply Pstep, H.
    - apply drain_closed. apply advance_closed. apply drain_closed. exact H.
    - destruct (find_dialing s a) as [n|]; [|exact H]. apply drain_closed. cbn [snd].
      apply (end_closed (de_se e0 [] [], s)). exact H.
    - apply drain_closed. cbn [snd]. apply Pstep, H.
    - apply drain_closed. exact H.
    - exact H.
    - apply drain_closed. exact H.
  Qed.
End KClosed.

Definition LimC (fdl ppl : Z) (s : cst) : Prop := LimOK fdl ppl (c_lim s).

Lemma LimC_step : forall fdl ppl s l, LimC fdl ppl s -> LimC fdl ppl (cstep s l).
Proof. intros. apply (cstep_lim (LimOK fdl ppl)); [apply LimOK_step | exact H]. Qed.

(* the caps clause of the monitor on an observation of a model state *)
Lemma caps_clause : forall fdl ppl s0 e s, LimC fdl ppl s ->
  let o := dobs_of s0 e s in
  (d_infd o <=? fdl) && (d_inpeer o <=? ppl) && (0 <=? d_fdc o) && (d_fdc o <=? fdl) &&
  (0 <=? d_actp o) && (d_actp o <=? ppl) = true.
Proof.
  intros fdl ppl s0 e s [I [L1 L2]] o. destruct (caps_state (c_lim s) (i2core _ I)) as [[A1 A2] [B [C D]]].
  unfold o, dobs_of. cbn [d_infd d_inpeer d_fdc d_actp]. rewrite L1, L2 in *.
  destruct (B PEER) as [B1 B2].
  repeat (apply andb_true_iff; split); apply Z.leb_le; try assumption.
  all: try (rewrite count_fd_eq; exact C); try (rewrite count_peer_eq; apply D).
Qed.

Lemma gtrace_cons : forall (S X O : Type) (step : S -> X -> S) (obs : S -> S -> O) s x r,
  gtrace step obs s (x :: r) = (x, obs s (step s x)) :: gtrace step obs (step s x) r.
Proof. reflexivity. Qed.

(* on every trace of the composite model the DialPeer monitor never reports the caps clause *)
Lemma monitor_d_caps_model : forall fdl ppl xs es m i, LimC fdl ppl (snd es) ->
  forall d, monitor_d fdl ppl m i (ctrace es xs) = d ->
  d = [] \/ exists j c, d = [ERR_PROPERTY; j; c] /\ c <> 4.
Proof.
  induction xs as [|x xs IH]; intros es m i L d H.
  - left. cbn in H. congruence.
  - unfold ctrace in *. rewrite gtrace_cons in H. cbn [monitor_d] in H.
    pose proof (kstep_closed (LimC fdl ppl) (LimC_step fdl ppl) es x L) as L'.
    pose proof (caps_clause fdl ppl (snd es) (fst (kstep es x)) (snd (kstep es x)) L') as Cc. cbv zeta in Cc.
    fold (kobs es (kstep es x)) in Cc.
    repeat match type of H with
    | (if ?c then ?a else ?b) = d =>
        lazymatch a with
        | [ERR_PROPERTY; _; 4] => rewrite Cc in H; cbn [negb] in H
        | _ => destruct c; [right; eexists; eexists; split; [symmetry; exact H | discriminate]|]
        end
    end.
    eapply IH; eauto.
Qed.

Lemma monitor_d_accepts_partial_l : forall fdl ppl fds xs, 0 <= fdl -> 0 <= ppl ->
  forall d, monitor_d fdl ppl (mkDmon [] [] [] false false) 0 (ctrace (init_denv, init_c fdl ppl fds) xs) = d ->
  d = [] \/ exists j c, d = [ERR_PROPERTY; j; c] /\ c <> 4.
Proof.
  intros fdl ppl fds xs H1 H2. apply monitor_d_caps_model. cbn.
  split; [apply init_inv2; assumption | split; reflexivity].
Qed.

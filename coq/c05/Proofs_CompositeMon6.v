(* C05 — the DialPeer monitor on composite-model traces, clauses 5 (cancelling one caller ends no
   dial of the others) and 6 (nothing is left once every caller has returned): both rest on the
   quiescence of a drain (Proofs_CompositeQ.drain_quiet). *)
From Coq Require Import List ZArith Bool Lia Relations Permutation.
From Verif Require Import lib.Wire c05.ModelLimiter c05.Proofs_Limiter c05.SpecLimiter c05.Proofs_LimiterMon c05.Proofs_LimiterOnce c05.Proofs_LimiterAll.
From Verif Require Import c05.ModelWorker c05.Proofs_WorkerMon c05.ModelSync c05.Proofs_Sync c05.ModelComposite.
From Verif Require Import c05.Proofs_Composite c05.Proofs_Composite2 c05.Proofs_Composite3 c05.Proofs_Composite4 c05.Proofs_Composite6.
From Verif Require Import c05.SpecWorker c05.SpecDialPeer c05.SpecComposite c05.Proofs_CompositeMon c05.Proofs_CompositeH.
From Verif Require Import c05.Proofs_CompositeMon2 c05.Proofs_CompositeJG c05.Proofs_CompositeHI c05.Proofs_CompositeMon4 c05.Proofs_CompositeQ.
Import ListNotations.
Local Open Scope Z_scope.

(* ---- QI along a step ---------------------------------------------------------------------------- *)
Lemma kinit_QI : forall fdl ppl es x, QI fdl ppl es -> wf_kstim2 (snd es) x -> QI fdl ppl (kinit es x).
Proof.
  intros fdl ppl es x [A B C] Wf. constructor; [apply kinit_HI; assumption | apply kinit_AP, B|].
  destruct es as [e0 s]. cbn [snd] in *. unfold kinit. destruct x; cbn [snd]; try exact C.
  - apply CK_step, C.
  - destruct (find_dialing s a) as [n|]; [|exact C]. cbn [snd]. unfold end_job. cbn iota beta.
    destruct (jget n s); [cbn [snd]; apply CK_step, CK_step, C | exact C].
  - apply CK_step, CK_step, C.
Qed.

Lemma kstep_QI : forall fdl ppl es x, QI fdl ppl es -> wf_kstim2 (snd es) x -> QI fdl ppl (kstep es x).
Proof.
  intros fdl ppl es x Q Wf. eapply hreach_QI; [apply kstep_reach, (QI_TI _ _ _ Q) | apply kinit_QI; assumption].
Qed.

(* a step ends with a drain, or leaves the state and the parked generation alone *)
Lemma kstep_shape : forall fdl ppl es x, QI fdl ppl es -> wf_kstim2 (snd es) x ->
  (exists z, QI fdl ppl z /\ kstep es x = drain z) \/
  (snd (kstep es x) = snd es /\ dn_blocked (fst (kstep es x)) = dn_blocked (fst es)).
Proof.
  intros fdl ppl [e0 s] x Q Wf. pose proof (kinit_QI fdl ppl (e0, s) x Q Wf) as Q1. unfold kstep, kinit in *. destruct x.
  - left. eexists. split; [exact Q1 | reflexivity].
  - left. eexists. split; [|reflexivity].
    pose proof (drain_reach _ (QI_TI _ _ _ Q1)) as R1. pose proof (hreach_QI _ _ _ _ R1 Q1) as Q2.
    eapply hreach_QI; [apply advance_reach, (QI_TI _ _ _ Q2) | exact Q2].
  - destruct (find_dialing s a) as [n|]; [left; eexists; split; [exact Q1 | reflexivity] | right; split; reflexivity].
  - left. eexists. split; [exact Q1 | reflexivity].
  - left. eexists. split; [exact Q1 | reflexivity].
  - right. split; reflexivity.
  - left. eexists. split; [exact Q1 | reflexivity].
Qed.

(* what is carried between steps: no goroutine about to run, no cancelled dial in progress, every
   closed worker that has not returned is parked in the gater *)
Record QS (es : denv * cst) : Prop := mkQS {
  qs_spawned : spawned (c_lim (snd es)) = [];
  qs_cancelled : cancelled_dialing (snd es) = [];
  qs_exit : forall g, In g (c_stale (snd es)) -> is_blocked (fst es) g = true }.

Lemma kstep_QS : forall fdl ppl es x, QI fdl ppl es -> QS es -> wf_kstim2 (snd es) x -> QS (kstep es x).
Proof.
  intros fdl ppl es x Q [A B C] Wf. destruct (kstep_shape fdl ppl es x Q Wf) as [[z [Qz E]]|[E1 E2]].
  - rewrite E. destruct (drain_quiet fdl ppl z Qz) as [[_ _ S Cn _ X] _]. constructor; assumption.
  - constructor; rewrite ?E1; auto. intros g Hg. unfold is_blocked. rewrite E2. apply C, Hg.
Qed.

Lemma init_QS : forall fdl ppl fd, QS (init_denv, init_c fdl ppl fd).
Proof. intros. constructor; cbn; [reflexivity | reflexivity | intros g []]. Qed.

Lemma init_QI : forall fdl ppl fd, 0 <= fdl -> 0 <= ppl -> QI fdl ppl (init_denv, init_c fdl ppl fd).
Proof.
  intros. constructor; cbn [snd]; [apply init_HI; assumption | intros c r X; discriminate | constructor].
Qed.

(* ---- clause 6 ----------------------------------------------------------------------------------- *)
Lemma is_cancelled_true : forall l x, In (jgrp x) (cancelledG l) -> is_cancelled l x = true.
Proof.
  intros l x H. destruct (is_cancelled l x) eqn:E; [reflexivity|]. apply is_cancelled_false in E. contradiction.
Qed.

Lemma nothing_left : forall fdl ppl e s, 1 <= fdl -> 1 <= ppl -> QI fdl ppl (e, s) -> QS (e, s) -> (forall c, ~ inside s c) ->
  p_active (sget PEER (c_sync s)) = false /\ spawned (c_lim s) = [] /\ dialing (c_lim s) = [] /\
  fdConsuming (c_lim s) = 0 /\ act_get PEER (activePerPeer (c_lim s)) = 0 /\
  (c_stale s = [] \/ dn_blocked e <> None).
Proof.
  intros fdl ppl e s L1 L2 Q [S1 S2 S3] Hn. cbn [fst snd] in *.
  pose proof (q_hi _ _ _ Q) as Hi. pose proof (hi_c _ _ _ Hi) as Ci. cbn [snd] in Ci. pose proof (ci_g _ _ _ Ci) as G.
  assert (Act : p_active (sget PEER (c_sync s)) = false).
  { destruct (p_active (sget PEER (c_sync s))) eqn:E; [|reflexivity]. exfalso.
    apply (i_act _ (g_sinv _ G PEER)) in E. destruct (p_inside (sget PEER (c_sync s))) as [|c l] eqn:Ei; [congruence|].
    assert (X : In c (p_inside (sget PEER (c_sync s)))) by (rewrite Ei; left; reflexivity).
    apply (g_inside _ G) in X. destruct X as [r [X1 [_ X2]]]. apply (Hn c). exists r. split; assumption. }
  assert (Lg : live_gen s = None).
  { destruct (live_gen s) as [g|] eqn:E; [|reflexivity]. destruct (g_gen _ G PEER g E) as [X _]. congruence. }
  assert (Dl : dialing (c_lim s) = []).
  { destruct (dialing (c_lim s)) as [|j l] eqn:Ed; [reflexivity|]. exfalso.
    assert (Hj : In j (dialing (c_lim s))) by (rewrite Ed; left; reflexivity).
    destruct (ap_dl _ _ (hi_j _ _ _ Hi) j Hj) as [_ [jr [Hr Hg]]]. cbn [snd] in Hr.
    assert (Hc : is_cancelled (c_lim s) j = true).
    { apply is_cancelled_true. destruct (in_dec Z.eq_dec (jgrp j) (cancelledG (c_lim s))) as [X|X]; [exact X|].
      exfalso. rewrite <- Hg in X. pose proof (hi_l _ _ _ Hi _ _ Hr X) as Y. cbn [snd] in Y. congruence. }
    unfold cancelled_dialing in S2. rewrite Ed in S2. cbn [filter] in S2. rewrite Hc in S2. discriminate. }
  destruct (ci_lim _ _ _ Ci) as [I2 [Ef Ep]].
  destruct (residue_state (c_lim s) I2) as [R1 [_ R3]]; try lia; try assumption.
  split; [exact Act|]. split; [exact S1|]. split; [exact Dl|]. split; [exact R1|]. split; [apply R3|].
  destruct (c_stale s) as [|g l] eqn:Es; [left; reflexivity|]. right.
  specialize (S3 g (or_introl eq_refl)). unfold is_blocked in S3. destruct (dn_blocked e); [discriminate | discriminate].
Qed.

(* the coupling of the monitor's park flag *)
Definition PKc (park : bool) (a : denv * cst) : Prop :=
  (dn_blocked (fst a) <> None \/ dn_park (fst a) = true) -> park = true.

Lemma hstep_PKc : forall park a b, PKc park a -> hstep a b -> PKc park b.
Proof.
  intros park a b H St. destruct St; unfold PKc in *; cbn [fst] in *; try exact H.
  - intros _. apply H. right. assumption.
  - unfold begin_one. cbn [fst]. destruct (negb _); exact H.
  - unfold end_job. destruct (jget (jid j) s); exact H.
Qed.

Definition next_park (park : bool) (x : cstim) : bool := match x with KPark => true | KRelease => false | _ => park end.

Lemma kinit_PKc : forall park es x, PKc park es -> PKc (next_park park x) (kinit es x).
Proof.
  intros park [e0 s] x H. unfold PKc, kinit, next_park in *. cbn [fst] in H. destruct x; cbn [fst]; try exact H.
  - cbv zeta. destruct (cget c (cstep s _)) as [r|]; [destruct (aget None (cr_gen r) _)|]; exact H.
  - destruct (find_dialing s a) as [n|]; [|exact H]. cbn [fst]. unfold end_job. cbn iota beta.
    destruct (jget n s); cbn [fst]; (destruct (w_stopped _); [exact H|]; destruct (_ && _); [exact H|]; destruct (_ && _); exact H).
  - intros _. reflexivity.
  - cbn. intros [X|X]; [congruence | discriminate].
Qed.

Lemma kstep_PKc : forall park es x, TIs es -> PKc park es -> PKc (next_park park x) (kstep es x).
Proof.
  intros park es x T H. apply (kstep_closed_h (PKc (next_park park x))); [|exact T|apply kinit_PKc, H].
  intros a b Ha _ St. eapply hstep_PKc; eauto.
Qed.

Lemma clause6_false : forall fdl ppl es es' park, 1 <= fdl -> 1 <= ppl -> QI fdl ppl es' -> QS es' -> PKc park es' ->
  (forall c, ~ inside (snd es') c) ->
  let o := kobs es es' in
  negb ((d_inpeer o =? 0) && (d_fdc o =? 0) && (d_actp o =? 0) && (d_nad o =? 0) && ((d_left o =? 0) || park)) = false.
Proof.
  intros fdl ppl es [e' s'] park L1 L2 Q S P Hn o. cbn [snd] in Hn.
  destruct (nothing_left fdl ppl e' s' L1 L2 Q S Hn) as [A [B [C [D [E F]]]]].
  apply negb_false_iff. unfold o, kobs, dobs_of. cbn [fst snd d_inpeer d_fdc d_actp d_nad d_left].
  rewrite A, B, C, D, E. cbn [count_peer boolz zlen length]. cbn.
  destruct (waiting_callers s' =? 0); [|reflexivity].
  destruct F as [F|F]; [rewrite F; reflexivity|]. rewrite (P (or_introl F)). apply orb_true_r.
Qed.

(* ---- clause 5 ----------------------------------------------------------------------------------- *)
Lemma hstep_facts : forall a b, RC (snd a) -> hstep a b -> RC (snd b) /\ rets_ext (snd a) (snd b).
Proof.
  intros a b R St. destruct St; unfold begin_one, end_job; cbn iota beta; cbn [snd] in *; try (split; [exact R | apply rets_ext_refl]);
    try (match goal with |- RC (cstep ?s0 ?l) /\ _ => destruct (cstep_facts s0 l R) as [X [Y _]]; split; [exact X | exact Y] end).
  destruct (jget (jid j) s); [|split; [exact R | apply rets_ext_refl]]. cbn [snd].
  match goal with |- RC (cstep (cstep ?s0 ?l1) ?l2) /\ _ =>
    destruct (cstep_facts s0 l1 R) as [X [Y _]]; destruct (cstep_facts (cstep s0 l1) l2 X) as [X' [Y' _]] end.
  split; [exact X' | eapply rets_ext_trans; eauto].
Qed.

Lemma inside_back : forall s s' c, RC s -> RInv s' -> rets_ext s s' -> cget c s <> None -> inside s' c -> inside s c.
Proof.
  intros s s' c R B [l El] Hc [r' [H1 H2]]. destruct (cget c s) as [r|] eqn:Ec; [|congruence]. exists r. split; [exact Ec|].
  intros Hp. pose proof (R c r Ec Hp) as X.
  assert (X' : In c (map fst (c_rets s'))) by (rewrite El, map_app; apply in_or_app; left; exact X).
  destruct (r_ret _ B c X') as [r2 [Y1 Y2]]. congruence.
Qed.

Lemma inside_active : forall s c, GInv s -> AP s -> inside s c -> p_active (sget PEER (c_sync s)) = true.
Proof.
  intros s c G A [r [H1 H2]]. apply (i_act _ (g_sinv _ G PEER)).
  assert (X : In c (p_inside (sget PEER (c_sync s)))) by (apply (g_inside _ G); exists r; split; [exact H1 | split; [apply (A c r H1) | exact H2]]).
  intros E. rewrite E in X. destruct X.
Qed.

Lemma leave_keeps_lim : forall s c0 pick c, AP s -> GInv (cstep s (CLeave c0 pick)) -> AP (cstep s (CLeave c0 pick)) ->
  inside (cstep s (CLeave c0 pick)) c -> c_lim (cstep s (CLeave c0 pick)) = c_lim s.
Proof.
  intros s c0 pick c A G' A' Hin. pose proof (inside_active _ c G' A' Hin) as Act. revert Act. cbn [cstep].
  destruct (cget c0 s) as [r|] eqn:Ec; [|reflexivity].
  assert (Lv : forall k, p_active (sget PEER (c_sync (do_leave s c0 r k))) = true -> c_lim (do_leave s c0 r k) = c_lim s).
  { intros k. unfold do_leave. cprj. rewrite (A c0 r Ec).
    destruct (p_active (sget PEER (sstep (c_sync s) (SLeave c0 PEER)))) eqn:E; cprj; [reflexivity|]. rewrite E. discriminate. }
  destruct (cr_phase r); try reflexivity.
  - destruct (cr_canc r); [apply Lv | reflexivity].
  - destruct (resp_of c0 _) as [[|]|]; try apply Lv. destruct (cr_canc r); [apply Lv | reflexivity].
Qed.

Definition ND (s : cst) : Prop := forall j, In j (dialing (c_lim s)) -> is_cancelled (c_lim s) j = false.

Lemma ND_same : forall s s', ND s -> dialing (c_lim s') = dialing (c_lim s) -> cancelledG (c_lim s') = cancelledG (c_lim s) -> ND s'.
Proof. intros s s' H Ed Ec j Hj. rewrite Ed in Hj. rewrite (is_cancelled_eq (c_lim s)); [apply H, Hj | exact Ec]. Qed.

Lemma adds_dialing : forall g p news s, dialing (c_lim (fold_left (add_addr_job g p) news s)) = dialing (c_lim s).
Proof.
  induction news as [|a r IH]; intros s; cbn [fold_left]; [reflexivity|]. rewrite IH. unfold add_addr_job. cprj.
  cbn [lstep]. apply add_job_dialing.
Qed.

Definition P5 (c : Z) (a : denv * cst) : Prop := inside (snd a) c -> dn_ends (fst a) = [] /\ ND (snd a).

Record B5 (fdl ppl c : Z) (a : denv * cst) : Prop := mkB5 { b5_q : QI fdl ppl a; b5_r : RC (snd a); b5_p : P5 c a }.

Lemma hstep_B5 : forall fdl ppl c a b, B5 fdl ppl c a -> hstep a b -> B5 fdl ppl c b.
Proof.
  intros fdl ppl c a b [Q R P] St. pose proof (hstep_QI _ _ _ _ Q St) as Q'. destruct (hstep_facts a b R St) as [R' Ex].
  constructor; [exact Q' | exact R'|]. intros Hin.
  pose proof (ci_r _ _ _ (hi_c _ _ _ (q_hi _ _ _ Q'))) as B'.
  assert (Hc : cget c (snd a) <> None) by (eapply hstep_dom; [exact St | destruct Hin as [r [X _]]; congruence]).
  destruct (P (inside_back _ _ c R B' Ex Hc Hin)) as [E N].
  pose proof (ci_g _ _ _ (hi_c _ _ _ (q_hi _ _ _ Q'))) as G'. pose proof (q_ap _ _ _ Q') as A'.
  destruct St; cbn [fst snd] in *.
  - split; [exact E|]. eapply ND_same; [exact N| |]; cbn [cstep]; rewrite H; destruct (cr_phase r); reflexivity.
  - split; assumption.
  - split; [exact E|]. cbn [cstep]. destruct (g <? c_next s); [|exact N].
    match goal with |- ND (fold_left ?f ?news ?s0) => destruct (add_jobs_frame g (aget 0 g (c_gpeer s)) news s0) as [_ [_ [_ [_ [_ [_ [_ Hc']]]]]]] end.
    eapply ND_same; [exact N | rewrite adds_dialing; reflexivity | rewrite Hc'; reflexivity].
  - unfold begin_one. cbn [fst snd]. split; [destruct (negb _); exact E|]. cbn [cstep]. cprj.
    intros x Hx. rewrite (is_cancelled_eq (c_lim s)) by apply lstep_cancG. cprj. cbn [lstep] in Hx.
    destruct (take_job (jid j) (spawned (c_lim s))) as [[j' r]|] eqn:Et; [|apply N, Hx].
    destruct (is_cancelled (set_spawned (c_lim s) r) j') eqn:Ecn.
    + rewrite finished_dialing in Hx. prj. apply N, Hx.
    + prj. apply in_app_or in Hx. destruct Hx as [Hx|[<-|[]]]; [apply N, Hx | exact Ecn].
  - exfalso. rewrite (N j H) in H0. discriminate.
  - split; [exact E|]. eapply ND_same; [exact N| |]; rewrite (leave_keeps_lim s c0 true c (q_ap _ _ _ Q) G' A' Hin); reflexivity.
  - split; [exact E|]. cbn [cstep]. destruct (memz g (c_stale s)); [|exact N]. eapply ND_same; [exact N | reflexivity | reflexivity].
  - split; assumption.
Qed.

Lemma cancelled_nil_ND : forall s, cancelled_dialing s = [] -> ND s.
Proof.
  intros s H j Hj. destruct (is_cancelled (c_lim s) j) eqn:E; [|reflexivity]. exfalso.
  assert (X : In (jid j) (cancelled_dialing s)) by (unfold cancelled_dialing; apply in_map, filter_In; split; assumption).
  rewrite H in X. destruct X.
Qed.

Lemma clause5_false : forall fdl ppl es c0 c, QI fdl ppl es -> RC (snd es) -> QS es -> wf_kstim2 (snd es) (KCancel c0) ->
  inside (snd (kstep es (KCancel c0))) c -> d_ends (kobs es (kstep es (KCancel c0))) = [].
Proof.
  intros fdl ppl es c0 c Q R S Wf Hin.
  assert (B : B5 fdl ppl c (kstep es (KCancel c0))).
  { apply (kstep_closed_h (B5 fdl ppl c)); [intros a b Ha _ St; eapply hstep_B5; eauto | apply (QI_TI _ _ _ Q)|].
    pose proof (kinit_QI fdl ppl es (KCancel c0) Q Wf) as Q1. destruct es as [e0 s]. cbn [snd] in *.
    constructor; [exact Q1 | unfold kinit; cbn [snd]; apply cstep_facts, cstep_facts, R|].
    intros Hi. unfold kinit in *. cbn [fst snd] in *. split; [reflexivity|].
    pose proof (ci_g _ _ _ (hi_c _ _ _ (q_hi _ _ _ Q1))) as G1. pose proof (q_ap _ _ _ Q1) as A1. cbn [snd] in G1, A1.
    set (s1 := cstep s (CCancel c0)) in *.
    assert (A1' : AP s1) by (apply cstep_AP; [apply (q_ap _ _ _ Q) | exact I]).
    eapply ND_same; [apply cancelled_nil_ND, (qs_cancelled _ S)| |]; rewrite (leave_keeps_lim s1 c0 false c A1' G1 A1 Hi);
      unfold s1; cbn [cstep]; destruct (cget c0 s) as [r|]; try reflexivity; destruct (cr_phase r); reflexivity. }
  destruct (b5_p _ _ _ _ B Hin) as [E _]. unfold kobs, dobs_of. cbn [d_ends]. rewrite E. reflexivity.
Qed.

(* ---- assembly: every clause but 9 ------------------------------------------------------------------ *)
From Verif Require Import c05.Proofs_CompositeMon3 c05.Proofs_CompositeMon5.

Record MC2 (fdl ppl : Z) (es : denv * cst) (m : dmon) : Prop := mkMC2 {
  m2_mc : MC fdl ppl es m; m2_qs : QS es; m2_pk : PKc (dm_park m) es }.

Lemma MC_QI : forall fdl ppl es m, MC fdl ppl es m -> QI fdl ppl es.
Proof. intros fdl ppl es m M. constructor; [apply (mc_hi _ _ _ _ M) | apply (mc_ap _ _ _ _ M) | apply (mc_ck _ _ _ _ M)]. Qed.

Lemma step_MC2 : forall fdl ppl es m x, 1 <= fdl -> 1 <= ppl -> MC2 fdl ppl es m -> wf_kstim2 (snd es) x ->
  let es' := kstep es x in
  let o := kobs es es' in
  let wait0 := match x with KCall c _ _ _ => c :: dm_wait m | _ => dm_wait m end in
  let rets := map fst (d_rets o) in
  let wait1 := fold_right remz wait0 rets in
  let park := match x with KPark => true | KRelease => false | _ => dm_park m end in
  match x with
  | KCancel _ => negb (match wait1 with [] => true | _ => false end) && negb (match d_ends o with [] => true | _ => false end)
  | _ => false end = false /\
  match wait1 with
  | [] => negb ((d_inpeer o =? 0) && (d_fdc o =? 0) && (d_actp o =? 0) && (d_nad o =? 0) && ((d_left o =? 0) || park))
  | _ => false end = false /\
  MC2 fdl ppl es' (next_mon m x o).
Proof.
  intros fdl ppl es m x L1 L2 [M S P] Wf es' o wait0 rets wait1 park.
  pose proof (MC_QI _ _ _ _ M) as Q.
  destruct (step_MC fdl ppl es m x M Wf) as [_ [_ [_ [_ [_ M']]]]]. fold es' in M'. fold o in M'.
  pose proof (MC_QI _ _ _ _ M') as Q'.
  pose proof (kstep_QS fdl ppl es x Q S Wf) as S'. fold es' in S'.
  pose proof (kstep_PKc (dm_park m) es x (QI_TI _ _ _ Q) P) as P'. fold es' in P'.
  destruct (mc_w _ _ _ _ M') as [_ [Hw' _]]. cbn [next_mon dm_wait] in Hw'. fold wait0 in Hw'. fold rets in Hw'. fold wait1 in Hw'.
  split; [|split].
  - destruct x; try reflexivity. destruct wait1 as [|c' w1] eqn:Ew; [reflexivity|]. cbn [negb andb].
    assert (Hin : inside (snd es') c') by (apply Hw'; left; reflexivity).
    unfold o, es'. rewrite (clause5_false fdl ppl es c c' Q (mc_rc _ _ _ _ M) S Wf Hin). reflexivity.
  - destruct wait1 as [|c' w1] eqn:Ew; [|reflexivity].
    apply (clause6_false fdl ppl es es' park L1 L2 Q' S' P'). intros c Hc. apply Hw' in Hc. destruct Hc.
  - constructor; [exact M' | exact S' | exact P'].
Qed.

Lemma monitor_d_model_9 : forall fdl ppl xs es m i, 1 <= fdl -> 1 <= ppl -> MC2 fdl ppl es m -> wf_kstims2 es xs ->
  forall d, monitor_d fdl ppl m i (ctrace es xs) = d -> d = [] \/ exists j, d = [ERR_PROPERTY; j; 9].
Proof.
  induction xs as [|x xs IH]; intros es m i L1 L2 M Wf d H.
  - left. cbn in H. congruence.
  - unfold ctrace in *. rewrite gtrace_cons in H. rewrite monitor_d_unfold in H. rewrite wf2_cons in Wf. destruct Wf as [Wf1 Wf2].
    destruct (step_MC fdl ppl es m x (m2_mc _ _ _ _ M) Wf1) as [C1 [C2 [C3 [C4 [C7 _]]]]].
    destruct (step_MC2 fdl ppl es m x L1 L2 M Wf1) as [C5 [C6 M']]. cbv zeta in *.
    rewrite C1, C2, C3, C4, C5, C6, C7 in H. cbn [negb] in H.
    match type of H with
    | (if ?c then ?a else ?b) = d => destruct c; [right; eexists; symmetry; exact H|]
    end.
    eapply IH; eauto.
Qed.

Theorem monitor_d_accepts_9_l : forall fdl ppl fds xs, 1 <= fdl -> 1 <= ppl ->
  wf_kstims2 (init_denv, init_c fdl ppl fds) xs ->
  forall d, monitor_d fdl ppl (mkDmon [] [] [] false false) 0 (ctrace (init_denv, init_c fdl ppl fds) xs) = d ->
  d = [] \/ exists j, d = [ERR_PROPERTY; j; 9].
Proof.
  intros fdl ppl fds xs H1 H2 Wf. apply monitor_d_model_9; try assumption.
  constructor; [apply init_MC; lia | apply init_QS|]. intros [X|X]; [exfalso; apply X; reflexivity | discriminate].
Qed.

(* C05 — worker monitor, clause 3 (every response is justified): the provenance invariant of
   Proofs_WorkerResp instantiated with the monitor's own bookkeeping, carried through a
   harness-level step (the stimulus, then every due timer). *)
From Coq Require Import List ZArith Bool Lia Permutation.
From Verif Require Import lib.Wire c05.ModelLimiter c05.Proofs_Limiter c05.ModelWorker c05.Proofs_Worker c05.Proofs_WorkerMon.
From Verif Require Import c05.SpecLimiter c05.SpecWorker c05.Proofs_WorkerMon2 c05.Proofs_WorkerResp.
Import ListNotations.
Local Open Scope Z_scope.

Definition mR (m : wmon) (rid : Z) := req_find rid (wm_reqs m).
Definition mConn (m : wmon) (fdir : bool) : Prop := wm_conn m = true /\ (fdir = false \/ wm_direct m = true).
Definition mSucc (m : wmon) (a : Z) : Prop := In a (wm_succ m).
Definition mFailed (m : wmon) (a : Z) : Prop := In a (wm_failed m).
Definition mBo (m : wmon) (a : Z) : Prop := In a (wm_boever m).

Definition PVm (m : wmon) := PV (mR m) (mSucc m) (mFailed m) (mBo m).
Definition Goodm (m : wmon) := Good (mR m) (mConn m) (mSucc m) (mFailed m) (mBo m).
Definition Justm (m : wmon) := Just (mR m) (mConn m) (mSucc m) (mFailed m) (mBo m).

(* the monitor's sets only grow *)
Record mle (m m' : wmon) : Prop := mkMle {
  le_succ : incl (wm_succ m) (wm_succ m');
  le_failed : incl (wm_failed m) (wm_failed m');
  le_bo : incl (wm_boever m) (wm_boever m') }.

Lemma PV_weaken : forall m m' s, PVm m s -> mle m m' ->
  (forall pr, In pr (w_pending s) -> mR m' (pr_id pr) = mR m (pr_id pr)) -> PVm m' s.
Proof.
  intros m m' s [A B] [L1 L2 L3] HR. constructor.
  - intros pr Hin. destruct (A pr Hin) as [fdir [l [R1 [R2 R3]]]]. exists fdir, l. rewrite (HR pr Hin).
    split; [exact R1|]. split; [exact R2|]. intros a Ha. destruct (R3 a Ha) as [G|[G|G]]; [left; exact G | right; left; apply L2, G | right; right; apply L3, G].
  - intros a ad Ht. destruct (B a ad Ht) as [B1 B2]. split.
    + intros H. apply L1, B1, H.
    + intros H. destruct (B2 H) as [G|G]; [left; apply L2, G | right; apply L3, G].
Qed.

(* what the environment of the model and the monitor agree on *)
Record EnvOK (e : wenv) (m : wmon) : Prop := mkEnvOK {
  j_conn : e_conn e = true -> wm_conn m = true;
  j_dir : e_direct e = true -> wm_direct m = true;
  j_fd : forall rid c, mR m rid = Some (true, c) -> In rid (e_fdirs e);
  j_bo : incl (e_backoff e) (wm_boever m) }.

Lemma conn_ok_mConn : forall e m fdir, (e_conn e = true -> wm_conn m = true) ->
  (e_direct e = true -> wm_direct m = true) -> conn_ok e fdir = true -> mConn m fdir.
Proof.
  intros e m fdir C D H. unfold conn_ok in H. apply andb_true_iff in H. destruct H as [H1 H2].
  split; [apply C, H1|]. destruct fdir; [right; apply D; exact H2 | left; reflexivity].
Qed.

Lemma bestl_of_ok : forall e m s, EnvOK e m -> bestl_ok (mR m) (mConn m) (bestl_of e s).
Proof.
  intros e m s K rid Hin fdir cand HR. unfold bestl_of in Hin. apply filter_In in Hin. destruct Hin as [_ Hc].
  destruct fdir.
  - pose proof (j_fd _ _ K rid cand HR) as F. apply memz_In in F. rewrite F in Hc. destruct K as [C D _ _]. eapply conn_ok_mConn; eauto.
  - unfold conn_ok in Hc. apply andb_true_iff in Hc. destruct Hc as [Hc _]. split; [apply (j_conn _ _ K), Hc | left; reflexivity].
Qed.

Lemma timer_good : forall e m s, EnvOK e m -> PVm m s ->
  Goodm m s (wstep s (WTimer (e_backoff e) (bestl_of e s))).
Proof.
  intros e m s K P. apply wstep_good; [exact P|]. cbn. split.
  - intros a Ha. apply (j_bo _ _ K), Ha.
  - apply bestl_of_ok, K.
Qed.

Lemma settle_good : forall f e m s, EnvOK e m -> PVm m s -> Goodm m s (settle f e s).
Proof.
  induction f as [|f IH]; intros e m s K P; cbn [settle]; [apply Good_refl, P|].
  destruct (w_stopped s); [apply Good_refl, P|]. destruct (w_timer s) as [t|]; [|apply Good_refl, P].
  destruct (t <=? e_now e); [|apply Good_refl, P].
  pose proof (timer_good e m s K P) as G. eapply Good_trans; [exact G|]. apply IH; [exact K | destruct G; assumption].
Qed.

Lemma EnvOK_now : forall e m t, EnvOK e m -> EnvOK (env_now e t) m.
Proof. intros e m t [A B C D]. constructor; auto. Qed.

Lemma advance_good : forall f e stop m s, EnvOK e m -> PVm m s ->
  Goodm m s (snd (advance f e stop s)) /\ EnvOK (fst (advance f e stop s)) m.
Proof.
  induction f as [|f IH]; intros e stop m s K P; cbn [advance].
  - split; [apply Good_refl, P | apply (EnvOK_now e m stop K)].
  - destruct (w_timer s) as [t|]; [|split; [apply Good_refl, P | apply (EnvOK_now e m stop K)]].
    destruct (negb (w_stopped s) && (t <=? stop)); [|split; [apply Good_refl, P | apply (EnvOK_now e m stop K)]].
    pose proof (timer_good e m s K P) as G.
    destruct (IH (mkEnv (Z.max t (e_now e)) (e_backoff e) (e_conn e) (e_direct e) (e_fdirs e)) stop m
                 (wstep s (WTimer (e_backoff e) (bestl_of e s))) (EnvOK_now e m _ K) (proj1 G)) as [G2 K2].
    split; [eapply Good_trans; [exact G | exact G2] | exact K2].
Qed.

Lemma mle_refl : forall m, mle m m.
Proof. intros. constructor; apply incl_refl. Qed.

Lemma mle_stim : forall m x, mle m (wmon_stim m x).
Proof.
  intros m x. destruct x as [rid sim fdir rank|d|a kind flag|a| |dr]; cbn [wmon_stim]; try apply mle_refl.
  - constructor; cbn; apply incl_refl.
  - destruct (kind =? 1); [constructor; cbn; try apply incl_refl; apply incl_tl, incl_refl|].
    destruct (kind =? 3); [apply mle_refl|]. constructor; cbn; try apply incl_refl; apply incl_tl, incl_refl.
  - constructor; cbn; try apply incl_refl; apply incl_tl, incl_refl.
  - constructor; cbn; apply incl_refl.
  - constructor; cbn; apply incl_refl.
Qed.

Lemma res_of_cases : forall k f n,
  (k = 1 /\ res_of k f n = DROk true) \/ (k = 3 /\ res_of k f n = DRProgress f n) \/
  (k <> 1 /\ k <> 3 /\ (res_of k f n = DROk false \/ exists e, res_of k f n = DRFail e)).
Proof.
  intros k f n. unfold res_of. destruct (k =? 1) eqn:E1; [left; split; [apply Z.eqb_eq, E1 | reflexivity]|].
  apply Z.eqb_neq in E1. destruct (k =? 4) eqn:E4.
  { apply Z.eqb_eq in E4. right. right. split; [exact E1|]. split; [lia | left; reflexivity]. }
  destruct (k =? 2) eqn:E2.
  { apply Z.eqb_eq in E2. right. right. split; [exact E1|]. split; [lia | right; eexists; reflexivity]. }
  destruct (k =? 3) eqn:E3; [right; left; split; [apply Z.eqb_eq, E3 | reflexivity]|].
  apply Z.eqb_neq in E3. right. right. split; [exact E1|]. split; [exact E3 | right; eexists; reflexivity].
Qed.

(* one harness-level stimulus: the new responses are justified for the monitor state m0
   reached by the stimulus alone, and the invariants hold again *)
Lemma wstim_step_good : forall e s m x, InvW s -> EnvOK e m -> PVm m s -> wf_stim s x ->
  let es' := wstim_step (e, s) x in
  let m0 := wmon_stim m x in
  Goodm m0 s (snd es') /\ EnvOK (fst es') m0.
Proof.
  intros e s m x I K P Wf. cbn [wstim_step]. pose proof (mle_stim m x) as Le.
  destruct x as [rid sim fdir rank|d|a kind flag|a| |dr]; cbn [fst snd].
  - (* request *)
    set (m0 := wmon_stim m (TReq rid sim fdir rank)).
    set (e' := mkEnv (e_now e) (e_backoff e) (e_conn e) (e_direct e) (if fdir then rid :: e_fdirs e else e_fdirs e)).
    assert (Hhd : mR m0 rid = Some (fdir, option_map (map fst) rank)).
    { unfold mR, m0. cbn [wmon_stim wm_reqs req_find]. rewrite Z.eqb_refl. reflexivity. }
    assert (Hot : forall r, r <> rid -> mR m0 r = mR m r).
    { intros r Hr. unfold mR, m0. cbn [wmon_stim wm_reqs req_find]. destruct (rid =? r) eqn:E; [apply Z.eqb_eq in E; congruence | reflexivity]. }
    assert (K0 : EnvOK e' m0).
    { destruct K as [C D F B]. constructor; auto. intros r c Hr. destruct (Z.eq_dec r rid) as [->|Ne].
      - rewrite Hhd in Hr. inversion Hr; subst fdir. cbn. left. reflexivity.
      - rewrite (Hot r Ne) in Hr. apply F in Hr. unfold e'. cbn [e_fdirs]. destruct fdir; [right; exact Hr | exact Hr]. }
    assert (P0 : PVm m0 s).
    { apply (PV_weaken m m0 s P Le). intros pr Hin. apply Hot. intros E. destruct Wf as [Wf _]. apply Wf.
      destruct I as [[_ As _] _]. apply As. unfold ids. apply in_or_app. left. rewrite <- E. apply in_map, Hin. }
    assert (G : Goodm m0 s (wstep s (WReq rid sim fdir (conn_ok e fdir) rank))).
    { apply wstep_good; [exact P0|]. cbn. split; [exact Hhd|]. intros Hc. destruct K as [C D F B]. apply (conn_ok_mConn e m0); auto. }
    split; [|exact K0]. eapply Good_trans; [exact G|]. apply settle_good; [exact K0 | destruct G; assumption].
  - (* time *)
    destruct (advance (settle_fuel s) e (e_now e + d) s) as [e1 s1] eqn:Ea.
    destruct (advance_good (settle_fuel s) e (e_now e + d) m s K P) as [G K1]. rewrite Ea in G, K1. cbn [fst snd] in *.
    split; [|exact K1]. eapply Good_trans; [exact G|]. apply settle_good; [exact K1 | destruct G; assumption].
  - (* a dial update *)
    set (m0 := wmon_stim m (TRes a kind flag)) in *.
    assert (HR : forall r, mR m0 r = mR m r).
    { intros r. unfold mR, m0. cbn [wmon_stim]. destruct (kind =? 1); [reflexivity|]. destruct (kind =? 3); reflexivity. }
    assert (Km : EnvOK e m0).
    { destruct K as [C D F B]. constructor.
      - intros H. unfold m0. cbn [wmon_stim]. destruct (kind =? 1); [reflexivity|]. destruct (kind =? 3); cbn; auto.
      - intros H. unfold m0. cbn [wmon_stim]. destruct (kind =? 1); [cbn; rewrite (D H); reflexivity|]. destruct (kind =? 3); cbn; auto.
      - intros r c. rewrite HR. apply F.
      - intros y Hy. apply (le_bo _ _ Le), B, Hy. }
    assert (P0 : PVm m0 s) by (apply (PV_weaken m m0 s P Le); intros; apply HR).
    assert (G : Goodm m0 s (wstep s (WRes a (res_of kind flag (e_now e)) (bestl_of e s)))).
    { apply wstep_good; [exact P0|]. cbn. split; [|apply bestl_of_ok, Km].
      destruct (res_of_cases kind flag (e_now e)) as [[E1 ->]|[[E3 ->]|[N1 [N3 [->|[er ->]]]]]]; cbn.
      - unfold mSucc, m0. subst kind. cbn. left. reflexivity.
      - exact Logic.I.
      - unfold mFailed, m0. cbn [wmon_stim]. apply Z.eqb_neq in N1, N3. rewrite N1, N3. cbn. left. reflexivity.
      - unfold mFailed, m0. cbn [wmon_stim]. apply Z.eqb_neq in N1, N3. rewrite N1, N3. cbn. left. reflexivity. }
    set (tracked := match tget a s with Some _ => true | None => false end).
    assert (K0 : EnvOK (if w_stopped s then e
          else if (kind =? 1) && tracked then mkEnv (e_now e) [] true (e_direct e || flag) (e_fdirs e)
          else if (kind =? 0) && tracked && negb (w_connected s)
          then mkEnv (e_now e) (a :: e_backoff e) (e_conn e) (e_direct e) (e_fdirs e) else e) m0).
    { destruct (w_stopped s); [exact Km|]. destruct ((kind =? 1) && tracked) eqn:E1.
      - apply andb_true_iff in E1. destruct E1 as [E1 _]. destruct Km as [C D F B]. constructor; cbn; auto.
        + intros _. unfold m0. cbn [wmon_stim]. rewrite E1. reflexivity.
        + intros H. unfold m0. cbn [wmon_stim]. rewrite E1. cbn. apply orb_true_iff in H. destruct H as [H|H].
          * destruct K as [_ D' _ _]. rewrite (D' H). reflexivity.
          * rewrite H. apply orb_true_r.
        + intros y [].
      - destruct ((kind =? 0) && tracked && negb (w_connected s)) eqn:E0; [|exact Km].
        apply andb_true_iff in E0. destruct E0 as [E0 _]. apply andb_true_iff in E0. destruct E0 as [E0 _].
        apply Z.eqb_eq in E0. destruct Km as [C D F B]. constructor; cbn; auto.
        intros y [<-|Hy]; [|apply B, Hy]. unfold m0. subst kind. cbn. left. reflexivity. }
    split; [|exact K0]. eapply Good_trans; [exact G|]. apply settle_good; [exact K0 | destruct G; assumption].
  - (* back-off entry *)
    set (m0 := wmon_stim m (TBackoff a)) in *.
    assert (P0 : PVm m0 s) by (apply (PV_weaken m m0 s P Le); intros; reflexivity).
    assert (K0 : EnvOK (mkEnv (e_now e) (a :: e_backoff e) (e_conn e) (e_direct e) (e_fdirs e)) m0).
    { destruct K as [C D F B]. constructor; cbn; auto. intros y [<-|Hy]; [left; reflexivity | right; apply B, Hy]. }
    split; [|exact K0]. apply settle_good; assumption.
  - (* close *)
    set (m0 := wmon_stim m TClose) in *.
    assert (P0 : PVm m0 s) by (apply (PV_weaken m m0 s P Le); intros; reflexivity).
    assert (K0 : EnvOK e m0) by (destruct K as [C D F B]; constructor; cbn; auto).
    assert (G : Goodm m0 s (wstep s WClose)) by (apply wstep_good; [exact P0 | exact Logic.I]).
    split; [|exact K0]. eapply Good_trans; [exact G|]. apply settle_good; [exact K0 | destruct G; assumption].
  - (* a connection appears *)
    set (m0 := wmon_stim m (TConn dr)) in *.
    assert (P0 : PVm m0 s) by (apply (PV_weaken m m0 s P Le); intros; reflexivity).
    assert (K0 : EnvOK (mkEnv (e_now e) [] true (e_direct e || dr) (e_fdirs e)) m0).
    { destruct K as [C D F B]. constructor; cbn; auto.
      - intros H. apply orb_true_iff in H. destruct H as [H|H]; [rewrite (D H); reflexivity | rewrite H; apply orb_true_r].
      - intros y []. }
    split; [|exact K0]. apply settle_good; assumption.
Qed.

(* ---- the monitor's clause 3 ------------------------------------------------------------------ *)
Lemma just_bool : forall m x, Justm m x -> resp_justified m (fst x) (resp_code (snd x)) = true.
Proof.
  intros m [rid k] [fdir [cand [HR J]]]. cbn [fst snd] in *. unfold resp_justified. unfold mR in HR. rewrite HR.
  destruct k; cbn [resp_code Z.eqb] in *.
  - destruct J as [[C D]|[l [a [-> [Ha Hs]]]]].
    + apply orb_true_iff. left. rewrite C. cbn. destruct D as [-> | ->]; [reflexivity | apply orb_true_r].
    + apply orb_true_iff. right. apply existsb_exists. exists a. split; [exact Ha | apply memz_In, Hs].
  - destruct J as [-> | [l [-> H]]]; [reflexivity|]. apply forallb_forall. intros a Ha. apply orb_true_iff.
    destruct (H a Ha) as [G|G]; [left | right]; apply memz_In, G.
Qed.

Lemma wmon_check_3 : forall m0 o, fst (wmon_check m0 o) = 3 ->
  forallb (fun r => resp_justified m0 (fst r) (snd r)) (ob_resps o) = false.
Proof.
  intros m0 o. unfold wmon_check.
  repeat match goal with |- fst (if ?c then _ else _) = _ -> _ => destruct c eqn:?; cbn [fst]; try discriminate end.
  intros _. apply negb_true_iff. assumption.
Qed.

Lemma clause3_ok : forall m0 s s', Goodm m0 s s' ->
  forallb (fun r => resp_justified m0 (fst r) (snd r)) (ob_resps (wobs_of s s')) = true.
Proof.
  intros m0 s s' [_ [news [E J]]]. apply forallb_forall. intros [rid k] Hin. cbn [wobs_of ob_resps] in Hin.
  rewrite E, skipn_app_len in Hin.
  apply (Permutation_in _ (sort_pairs_perm _)) in Hin. apply in_map_iff in Hin. destruct Hin as [x [Ex Hx]].
  inversion Ex; subst. apply just_bool, J, Hx.
Qed.

Lemma PVm_next : forall m0 o s, PVm m0 s -> PVm (wmon_next m0 o) s.
Proof. intros m0 o s P. exact P. Qed.

Lemma EnvOK_next : forall e m0 o, EnvOK e m0 -> EnvOK e (wmon_next m0 o).
Proof. intros e m0 o [A B C D]. constructor; auto. Qed.

(* one step of the monitor on one step of the model: no clause can be reported *)
Lemma step_all : forall e s m x, InvW s -> CW s m -> CW5 e s m -> EnvOK e m -> PVm m s -> wf_stim s x ->
  let es' := wstim_step (e, s) x in
  let o := wobs_of s (snd es') in
  let cm := wmon_check (wmon_stim m x) o in
  InvW (snd es') /\ CW (snd es') (snd cm) /\ CW5 (fst es') (snd es') (snd cm) /\
  EnvOK (fst es') (snd cm) /\ PVm (snd cm) (snd es') /\ fst cm = 0.
Proof.
  intros e s m x I C K EK P W es' o cm.
  destruct (step_CW5 e s m x I C K W) as [I' [C' [K' F]]]. fold es' in I', C', K', F. fold o in C', K', F. fold cm in C', K', F.
  destruct (wstim_step_good e s m x I EK P W) as [G EK']. fold es' in G, EK'.
  assert (Sn : snd cm = wmon_next (wmon_stim m x) o) by apply wmon_check_snd.
  split; [exact I'|]. split; [exact C'|]. split; [exact K'|].
  split; [rewrite Sn; apply EnvOK_next, EK'|]. split; [rewrite Sn; apply PVm_next; destruct G; assumption|].
  destruct F as [F|F]; [exact F|]. exfalso. apply wmon_check_3 in F. fold o in F.
  pose proof (clause3_ok _ _ _ G) as X. fold o in X. congruence.
Qed.

Lemma monitor_w_model_all : forall xs e s m i, InvW s -> CW s m -> CW5 e s m -> EnvOK e m -> PVm m s ->
  wf_stims (e, s) xs -> monitor_w m i (wtrace (e, s) xs) = [].
Proof.
  induction xs as [|x xs IH]; intros e s m i I C K EK P W; cbn [wtrace monitor_w]; [reflexivity|].
  destruct W as [W1 W2]. cbn [snd] in W1.
  destruct (step_all e s m x I C K EK P W1) as [I' [C' [K' [EK' [P' F]]]]]. cbv zeta in *.
  destruct (wstim_step (e, s) x) as [e' s'] eqn:Es. cbn [fst snd] in *.
  destruct (wmon_check (wmon_stim m x) (wobs_of s s')) as [c m1] eqn:Ec. cbn [fst snd] in *.
  subst c. cbn [Z.eqb]. apply IH; auto.
Qed.

Theorem monitor_w_holds_l : forall xs, wf_stims (init_env, init_w) xs ->
  monitor_w wmon0 0 (wtrace (init_env, init_w) xs) = [].
Proof.
  intros xs W. apply monitor_w_model_all; auto using init_invW.
  - constructor; cbn; auto; try discriminate; try (intros _ r []).
  - constructor; cbn; try discriminate; try (intros; contradiction).
    + intros a [].
    + intros a H. exfalso. apply H. reflexivity.
    + intros a [].
    + intros [a [ad [H _]]]. discriminate.
    + intros a [].
  - constructor; cbn; try discriminate. intros a [].
  - constructor; cbn.
    + intros pr [].
    + intros a ad H. discriminate.
Qed.

(* C05 — composite LTS, part 3: every worker generation satisfies the worker invariants,
   because the composite feeds it well-formed events (fresh request ids, results only
   for dials in flight). *)
From Coq Require Import List ZArith Bool Lia Permutation.
From Verif Require Import c05.ModelLimiter c05.Proofs_Limiter c05.Proofs_LimiterMon.
From Verif Require Import c05.ModelWorker c05.Proofs_Worker c05.Proofs_WorkerMon c05.Proofs_WorkerFly.
From Verif Require Import c05.ModelSync c05.Proofs_Sync c05.ModelComposite c05.Proofs_Composite c05.Proofs_Composite2.
Import ListNotations.
Local Open Scope Z_scope.

(* what the environment may put into a label: a ranking lists each address once
   (ma.Unique + c05_ranker_is_permutation); a transport never reports ErrDialBackoff itself *)
Definition wf_label (l : clabel) : Prop :=
  match l with
  | CDeliver _ _ (Some rk) => NoDup (map fst rk)
  | CRes _ r _ => r <> DRFail EBackoff
  | _ => True
  end.

Definition WOK (w : wst) : Prop := InvW w /\ InvG w [].

Lemma WOK_init : WOK init_w.
Proof. split; [apply init_invW | intros x []]. Qed.

Lemma WOK_step : forall w e, WOK w -> (w_stopped w = false -> wf_ev w e) -> WOK (wstep w e).
Proof. intros w e [A B] H. split; [apply wstep_invW | apply wstep_invG]; auto. Qed.

Record WInv (s : cst) : Prop := mkWInv {
  w_all : forall g, WOK (wget g s);
  w_seenc : forall g c, In c (w_seen (wget g s)) -> exists r, cget c s = Some r /\ cr_phase r <> PSending;
  w_fly : forall n j, jget n s = Some j -> jr_reported j = false ->
            w_stopped (wget (jr_gen j) s) = true \/ In (jr_addr j) (w_flying (wget (jr_gen j) s));
  w_dial : forall n j, jget n s = Some j -> In (jr_addr j) (w_dials (wget (jr_gen j) s));
  w_uniq : forall n n' j j', jget n s = Some j -> jget n' s = Some j' ->
            jr_gen j = jr_gen j' -> jr_addr j = jr_addr j' -> n = n';
  w_ids : forall n j, jget n s = Some j -> n < c_next s /\ jr_gen j < c_next s }.

Lemma init_winv : forall fdl ppl fd, WInv (init_c fdl ppl fd).
Proof.
  intros. constructor; cbn; try (intros; discriminate).
  - intros g. apply WOK_init.
  - intros g c [].
Qed.

(* states that differ only in the limiter, dialSync, generations table, stale list, returns *)
Lemma winv_frame : forall s s', WInv s ->
  c_w s' = c_w s -> c_jobs s' = c_jobs s -> c_next s <= c_next s' ->
  (forall c r, cget c s = Some r -> cr_phase r <> PSending ->
               exists r', cget c s' = Some r' /\ cr_phase r' <> PSending) ->
  WInv s'.
Proof.
  intros s s' [A B C D E F] Ew Ej En K.
  assert (Wg : forall g, wget g s' = wget g s) by (intros; unfold wget; rewrite Ew; reflexivity).
  assert (Jg : forall n, jget n s' = jget n s) by (intros; unfold jget; rewrite Ej; reflexivity).
  constructor; intros; rewrite ?Wg, ?Jg in *; eauto.
  - destruct (B g c H) as [r [X Y]]. eauto.
  - destruct (F n j H). lia.
Qed.

Lemma winv_limop : forall s o, WInv s -> WInv (lim_do s o).
Proof. intros s o W. eapply winv_frame; [exact W|..]; cprj; try reflexivity; try lia; eauto. Qed.

(* a caller record is replaced by one whose phase is not Sending (or stays what it was) *)
Lemma winv_cput : forall s c r', WInv s -> (cr_phase r' <> PSending \/ (exists r, cget c s = Some r /\ cr_phase r = cr_phase r')) ->
  forall s1, c_w s1 = c_w s -> c_jobs s1 = c_jobs s -> c_next s <= c_next s1 -> c_callers s1 = c_callers s ->
  WInv (cput c r' s1).
Proof.
  intros s c r' W Hr s1 Ew Ej En Ec. eapply winv_frame; [exact W|..]; cprj; auto.
  intros x r A B. unfold cget in *. cprj. rewrite Ec, aget_aput. destruct (c =? x) eqn:E; [|eauto].
  apply Z.eqb_eq in E. subst x. exists r'. split; [reflexivity|].
  destruct Hr as [Hr|[r0 [H1 H2]]]; [exact Hr|]. rewrite H1 in A. inversion A; subst. congruence.
Qed.

Lemma wstep_seen_in : forall w e x, In x (w_seen (wstep w e)) ->
  In x (w_seen w) \/ (exists sim fdir best rank, e = WReq x sim fdir best rank).
Proof.
  intros w e x H. destruct (w_stopped w) eqn:St.
  - rewrite wstep_stopped in H by exact St. left. exact H.
  - rewrite wstep_seen in H by exact St. destruct e; try (left; exact H).
    apply in_app_or in H. destruct H as [H|[H|[]]]; [left; exact H|]. subst. right. eauto.
Qed.

(* the worker of generation g takes one event; the job table is untouched *)
Lemma winv_wstep : forall s g e, WInv s ->
  (w_stopped (wget g s) = false -> wf_ev (wget g s) e) ->
  (forall x, In x (w_seen (wstep (wget g s) e)) -> exists r, cget x s = Some r /\ cr_phase r <> PSending) ->
  (forall n j, jget n s = Some j -> jr_gen j = g -> jr_reported j = false ->
       w_stopped (wstep (wget g s) e) = true \/ In (jr_addr j) (w_flying (wstep (wget g s) e))) ->
  (forall a, In a (w_dials (wget g s)) -> In a (w_dials (wstep (wget g s) e))) ->
  WInv (wput g (wstep (wget g s) e) s).
Proof.
  intros s g e [A B C D E F] Hwf Hseen Hfly Hdial.
  assert (Wg : forall g', wget g' (wput g (wstep (wget g s) e) s) = if g =? g' then wstep (wget g s) e else wget g' s)
    by (intros; apply wget_wput).
  constructor; cprj.
  - intros g'. rewrite Wg. destruct (g =? g'); [apply WOK_step; auto | apply A].
  - intros g' c. rewrite Wg. destruct (g =? g'); [apply Hseen | apply B].
  - intros n j H1 H2. rewrite Wg. destruct (g =? jr_gen j) eqn:Eg; [|apply (C n j); auto].
    apply Z.eqb_eq in Eg. apply (Hfly n j); auto.
  - intros n j H1. rewrite Wg. destruct (g =? jr_gen j) eqn:Eg; [|apply (D n j); auto].
    apply Z.eqb_eq in Eg. apply Hdial. rewrite Eg. apply (D n j H1).
  - exact E.
  - exact F.
Qed.

(* side conditions of winv_wstep for the events that do not end a dial *)
Lemma wside_mono : forall s g e, WInv s ->
  (match e with WRes _ r _ => is_final_res r = false | _ => True end) ->
  (match e with WRes a _ _ => tget a (wget g s) <> None | _ => True end) ->
  (forall n j, jget n s = Some j -> jr_gen j = g -> jr_reported j = false ->
       w_stopped (wstep (wget g s) e) = true \/ In (jr_addr j) (w_flying (wstep (wget g s) e))) /\
  (forall a, In a (w_dials (wget g s)) -> In a (w_dials (wstep (wget g s) e))).
Proof.
  intros s g e W He Ht. destruct (w_stopped (wget g s)) eqn:St.
  - rewrite wstep_stopped by exact St. split; [|auto]. intros n j H1 H2 H3. left. exact St.
  - pose proof (wstep_df (wget g s) e St) as Df. split.
    + intros n j H1 H2 H3. destruct (w_fly s W n j H1 H3) as [X|X]; [rewrite H2 in X; congruence|].
      rewrite H2 in X. right. destruct e as [? ? ? ? ?|? ?|a r ?|].
      * destruct Df as [_ F]. rewrite F. exact X.
      * destruct Df as [l [_ F]]. rewrite F. apply in_or_app. left. exact X.
      * destruct (Df Ht) as [_ F]. rewrite F. destruct r; try discriminate. exact X.
      * destruct Df as [_ F]. rewrite F. exact X.
    + intros a Ha. destruct e as [? ? ? ? ?|? ?|a0 r ?|].
      * destruct Df as [F _]. rewrite F. exact Ha.
      * destruct Df as [l [F _]]. rewrite F. apply in_or_app. left. exact Ha.
      * destruct (Df Ht) as [F _]. rewrite F. exact Ha.
      * destruct Df as [F _]. rewrite F. exact Ha.
Qed.

Lemma winv_deliver : forall s c best rank, WInv s -> wf_label (CDeliver c best rank) ->
  WInv (cstep s (CDeliver c best rank)).
Proof.
  intros s c best rank W Hl. cbn [cstep]. destruct (cget c s) as [r|] eqn:Ec; [|exact W].
  destruct (cr_phase r) eqn:Ep; try exact W.
  set (g := cr_gen r). set (e := WReq c (cr_sim r) (cr_fdir r) best rank).
  set (s1 := cput c (set_phase r PWaiting) s).
  assert (W1 : WInv s1).
  { unfold s1. apply (winv_cput s); auto; try lia. left. cbn. discriminate. }
  change (WInv (wput g (wstep (wget g s1) e) s1)).
  destruct (wside_mono s1 g e W1 Logic.I Logic.I) as [Hf Hd].
  apply winv_wstep; auto.
  - intros _. cbn [wf_ev e]. split.
    + intros Hin. destruct (w_seenc s W g c Hin) as [r' [A B]]. rewrite Ec in A. inversion A; subst. congruence.
    + destruct rank; [exact Hl | exact Logic.I].
  - intros x Hx. apply wstep_seen_in in Hx. destruct Hx as [Hx|[? [? [? [? Hx]]]]].
    + apply (w_seenc s1 W1 g x Hx).
    + unfold e in Hx. inversion Hx; subst x. unfold s1. rewrite cget_cput, Z.eqb_refl.
      eexists. split; [reflexivity|]. cbn. discriminate.
Qed.

Lemma winv_cancel : forall s c, WInv s -> WInv (cstep s (CCancel c)).
Proof.
  intros s c W. cbn [cstep]. destruct (cget c s) as [r|] eqn:Ec; [|exact W].
  assert (X : WInv (cput c (set_canc r) s)).
  { apply (winv_cput s); auto; try lia. right. exists r. split; [exact Ec | reflexivity]. }
  destruct (cr_phase r); [exact X | exact X | exact W].
Qed.

Lemma winv_do_leave : forall s c r k, WInv s -> WInv (do_leave s c r k).
Proof.
  intros s c r k W. unfold do_leave.
  set (s1 := set_sync s (sstep (c_sync s) (SLeave c (cr_peer r)))).
  set (s2 := set_rets (cput c (set_phase r PReturned) s1) (c_rets s1 ++ [(c, k)])).
  assert (W2 : WInv s2).
  { eapply winv_frame; [exact W|..]; unfold s2, s1; cprj; try reflexivity; try lia.
    intros x r0 A B. unfold cget in *. cprj. rewrite aget_aput. destruct (cr_phase r0) eqn:E0; try congruence;
      (destruct (c =? x) eqn:E; [eexists; split; [reflexivity | cbn; discriminate] | exists r0; split; [exact A | congruence]]). }
  fold s1. fold s2. destruct (p_active _); [exact W2|].
  set (g := cr_gen r). set (s3 := lim_do s2 (LCancel g)).
  assert (W3 : WInv s3) by (apply winv_limop, W2).
  assert (X : WInv (wput g (wstep (wget g s3) WClose) s3)).
  { destruct (wside_mono s3 g WClose W3 Logic.I Logic.I) as [Hf Hd]. apply winv_wstep; auto.
    - intros _. exact Logic.I.
    - intros x Hx. apply wstep_seen_in in Hx. destruct Hx as [Hx|[? [? [? [? Hx]]]]]; [|discriminate].
      apply (w_seenc s3 W3 g x Hx). }
  eapply winv_frame; [exact X|..]; cprj; try reflexivity; try lia. eauto.
Qed.

Lemma winv_leave : forall s c pick, WInv s -> WInv (cstep s (CLeave c pick)).
Proof.
  intros s c pick W. cbn [cstep]. destruct (cget c s) as [r|]; [|exact W].
  destruct (cr_phase r); try exact W.
  - destruct (cr_canc r); [apply winv_do_leave, W | exact W].
  - destruct (resp_of c _) as [[|]|]; try (apply winv_do_leave, W).
    destruct (cr_canc r); [apply winv_do_leave, W | exact W].
Qed.

Lemma winv_call : forall s c p sim fdir best, WInv s -> WInv (cstep s (CCall c p sim fdir best)).
Proof.
  intros s c p sim fdir best W. cbn [cstep]. destruct (cget c s) as [r0|] eqn:Ec; [exact W|].
  assert (Fresh : forall g, ~ In c (w_seen (wget g s))).
  { intros g H. destruct (w_seenc s W g c H) as [r [A _]]. congruence. }
  (* adding the caller record: nobody has seen c yet *)
  assert (K : forall s1 rc, c_w s1 = c_w s -> c_jobs s1 = c_jobs s -> c_next s <= c_next s1 -> c_callers s1 = c_callers s ->
                WInv (cput c rc s1)).
  { intros s1 rc Ew Ej En Ecs. eapply winv_frame; [exact W|..]; cprj; auto.
    intros x r A B. unfold cget in *. cprj. rewrite Ecs, aget_aput.
    destruct (c =? x) eqn:E; [apply Z.eqb_eq in E; subst; congruence | eauto]. }
  destruct best.
  - eapply winv_frame; [apply (K s (mkC p 0 PReturned false sim fdir)); try reflexivity; lia|..]; cprj; try reflexivity; try lia; eauto.
  - destruct (p_active _); cprj.
    + destruct (aget None p (c_gen s)); [|exact W]. apply K; cprj; try reflexivity; lia.
    + (* a new generation g = c_next s with a fresh worker *)
      set (g := c_next s).
      set (s2 := set_next (set_gpeer (wput g init_w (set_gen (set_sync s (sstep (c_sync s) (SEnter c p)))
                    (aput p (Some g) (c_gen s)))) (aput g p (c_gpeer s))) (g + 1)).
      assert (W2 : WInv s2).
      { destruct W as [A B C D E F].
        assert (Wg : forall g', wget g' s2 = if g =? g' then init_w else wget g' s) by (intros; unfold wget, s2; cprj; apply aget_aput).
        assert (Jg : forall n, jget n s2 = jget n s) by reflexivity.
        assert (Ng : forall n j, jget n s = Some j -> (g =? jr_gen j) = false).
        { intros n j H. destruct (F n j H). apply Z.eqb_neq. unfold g. lia. }
        constructor.
        - intros g'. rewrite Wg. destruct (g =? g'); [apply WOK_init | apply A].
        - intros g' x. rewrite Wg. destruct (g =? g'); [intros [] | apply B].
        - intros n j H1 H2. rewrite Jg in H1. rewrite Wg, (Ng n j H1). apply (C n j); auto.
        - intros n j H1. rewrite Jg in H1. rewrite Wg, (Ng n j H1). apply (D n j); auto.
        - exact E.
        - intros n j H1. rewrite Jg in H1. destruct (F n j H1). unfold s2. cprj. unfold g. lia. }
      change (WInv (cput c (mkC p g PSending false sim fdir) s2)).
      eapply winv_frame; [exact W2|..]; cprj; try reflexivity; try lia.
      intros x r A B. unfold cget in *. cprj. rewrite aget_aput.
      destruct (c =? x) eqn:E; [apply Z.eqb_eq in E; subst; unfold s2 in A; cprj; congruence | eauto].
Qed.

Lemma jget_fresh : forall s n, WInv s -> c_next s <= n -> jget n s = None.
Proof.
  intros s n W H. destruct (jget n s) as [j|] eqn:E; [|reflexivity]. destruct (w_ids s W n j E). lia.
Qed.

(* the reported flag of a job is set (or left as it is) *)
Lemma winv_jput : forall s n j b, WInv s -> jget n s = Some j -> (b = false -> jr_reported j = false) ->
  WInv (jput n (mkJ (jr_gen j) (jr_addr j) b) s).
Proof.
  intros s n j b [A B C D E F] Hj Hb.
  assert (Jg : forall n', jget n' (jput n (mkJ (jr_gen j) (jr_addr j) b) s) =
                          if n =? n' then Some (mkJ (jr_gen j) (jr_addr j) b) else jget n' s) by (intros; apply jget_jput).
  assert (Same : forall n' j', jget n' (jput n (mkJ (jr_gen j) (jr_addr j) b) s) = Some j' ->
                   exists j0, jget n' s = Some j0 /\ jr_gen j0 = jr_gen j' /\ jr_addr j0 = jr_addr j' /\
                              (jr_reported j' = false -> jr_reported j0 = false)).
  { intros n' j' H. rewrite Jg in H. destruct (n =? n') eqn:En.
    - apply Z.eqb_eq in En. subst n'. inversion H; subst j'. exists j. cbn. auto.
    - exists j'. auto. }
  constructor; cprj; auto.
  - intros n' j' H1 H2. destruct (Same n' j' H1) as [j0 [X1 [X2 [X3 X4]]]]. rewrite <- X2, <- X3. apply (C n' j0); auto.
  - intros n' j' H1. destruct (Same n' j' H1) as [j0 [X1 [X2 [X3 X4]]]]. rewrite <- X2, <- X3. apply (D n' j0); auto.
  - intros n1 n2 j1 j2 H1 H2 G1 G2. destruct (Same n1 j1 H1) as [a1 [X1 [X2 [X3 _]]]].
    destruct (Same n2 j2 H2) as [a2 [Y1 [Y2 [Y3 _]]]]. apply (E n1 n2 a1 a2); congruence.
  - intros n' j' H1. destruct (Same n' j' H1) as [j0 [X1 [X2 [X3 X4]]]]. rewrite <- X2. apply (F n' j0 X1).
Qed.

Lemma winv_res : forall s n r bestl, WInv s -> wf_label (CRes n r bestl) -> WInv (cstep s (CRes n r bestl)).
Proof.
  intros s n r bestl W Hl. cbn [cstep]. destruct (jget n s) as [j|] eqn:Ej; [|exact W].
  destruct (negb (jr_reported j) && in_dialing n (c_lim s)) eqn:Ec; [|exact W].
  apply andb_true_iff in Ec. destruct Ec as [Ec _]. apply negb_true_iff in Ec.
  set (g := jr_gen j). set (a := jr_addr j). set (e := WRes a r bestl).
  set (s0 := jput n (mkJ g a (is_final_res r)) s).
  assert (W0 : WInv s0) by (apply winv_jput; auto).
  change (WInv (wput g (wstep (wget g s0) e) s0)).
  assert (Wg : wget g s0 = wget g s) by reflexivity.
  assert (Ht : tget a (wget g s) <> None).
  { destruct (w_all s W g) as [[_ [_ S]] _]. destruct (sC2 _ _ S a (w_dial s W n j Ej)) as [ad [H _]]. congruence. }
  apply winv_wstep; auto.
  - intros St. cbn [wf_ev e]. split; [|exact Hl]. rewrite Wg in *.
    destruct (w_fly s W n j Ej Ec) as [X|X]; [fold g in X; congruence | exact X].
  - intros x Hx. apply wstep_seen_in in Hx. destruct Hx as [Hx|[? [? [? [? Hx]]]]]; [|discriminate].
    apply (w_seenc s0 W0 g x Hx).
  - intros n' j' H1 H2 H3. rewrite Wg. destruct (w_stopped (wget g s)) eqn:St.
    + left. rewrite wstep_stopped by exact St. exact St.
    + right. destruct (wstep_df (wget g s) e St Ht) as [_ F]. rewrite F.
      destruct (w_fly s0 W0 n' j' H1 H3) as [X|X]; [rewrite H2, Wg in X; congruence|]. rewrite H2, Wg in X.
      unfold s0 in H1. rewrite jget_jput in H1. destruct (n =? n') eqn:En.
      * inversion H1; subst j'. cbn in H3. destruct r; try discriminate. exact X.
      * destruct r; try exact X; (apply remove1_In_other; [|exact X]); intros Ea;
          apply Z.eqb_neq in En; apply En; apply (w_uniq s W n n' j j'); auto; fold g; fold a; congruence.
  - intros x Hx. rewrite Wg in *. destruct (w_stopped (wget g s)) eqn:St.
    + rewrite wstep_stopped by exact St. exact Hx.
    + destruct (wstep_df (wget g s) e St Ht) as [F _]. rewrite F. exact Hx.
Qed.

(* AddDialJob for an address the worker has just put into w_dials / w_flying *)
Lemma winv_add_job : forall s g p a, WInv s -> g < c_next s ->
  In a (w_dials (wget g s)) ->
  (w_stopped (wget g s) = true \/ In a (w_flying (wget g s))) ->
  (forall n j, jget n s = Some j -> jr_gen j = g -> jr_addr j <> a) ->
  WInv (add_addr_job g p s a).
Proof.
  intros s g p a W Hg Hd Hf Hn. pose proof W as [A B C D E F]. unfold add_addr_job.
  set (n := c_next s).
  assert (Fr : jget n s = None) by (apply jget_fresh; [exact W | unfold n; lia]).
  assert (Jg : forall n', jget n' (set_next (jput n (mkJ g a false) (lim_do s (LAdd (mkJob n p (memz a (c_fd s)) g)))) (n + 1))
                          = if n =? n' then Some (mkJ g a false) else jget n' s) by (intros; apply aget_aput).
  constructor; cprj; auto.
  - intros n' j'. rewrite Jg. destruct (n =? n'); [|apply C]. intros H _. inversion H; subst. exact Hf.
  - intros n' j'. rewrite Jg. destruct (n =? n'); [|apply D]. intros H. inversion H; subst. exact Hd.
  - intros n1 n2 j1 j2. rewrite !Jg. destruct (n =? n1) eqn:E1; destruct (n =? n2) eqn:E2.
    + intros. apply Z.eqb_eq in E1, E2. congruence.
    + intros H1 H2 G1 G2. inversion H1; subst j1. cbn in G1, G2. exfalso. apply (Hn n2 j2 H2); congruence.
    + intros H1 H2 G1 G2. inversion H2; subst j2. cbn in G1, G2. exfalso. apply (Hn n1 j1 H1); congruence.
    + apply E.
  - intros n' j'. rewrite Jg. destruct (n =? n') eqn:En.
    + intros H. inversion H; subst. apply Z.eqb_eq in En. cbn. unfold n in *. lia.
    + intros H. destruct (F n' j' H). unfold n. lia.
Qed.

Lemma add_job_wget : forall g p s a g', wget g' (add_addr_job g p s a) = wget g' s.
Proof. reflexivity. Qed.

Lemma winv_add_jobs : forall g p news s, WInv s -> g < c_next s -> NoDup news ->
  (forall a, In a news -> In a (w_dials (wget g s)) /\ (w_stopped (wget g s) = true \/ In a (w_flying (wget g s)))) ->
  (forall n j a, jget n s = Some j -> jr_gen j = g -> In a news -> jr_addr j <> a) ->
  WInv (fold_left (add_addr_job g p) news s).
Proof.
  induction news as [|a r IH]; intros s W Hg N Hd Hn; cbn [fold_left]; [exact W|].
  inversion N as [|? ? Na Nr]; subst.
  destruct (Hd a (or_introl eq_refl)) as [D1 D2].
  assert (W1 : WInv (add_addr_job g p s a)).
  { apply winv_add_job; auto. intros n j H1 H2. apply (Hn n j a H1 H2). left. reflexivity. }
  apply IH; auto.
  - unfold add_addr_job. cprj. lia.
  - intros x Hx. rewrite add_job_wget. apply Hd. right. exact Hx.
  - intros n j x H1 H2 Hx. unfold add_addr_job, jget in H1. cprj. rewrite aget_aput in H1.
    destruct (c_next s =? n).
    + inversion H1; subst j. cbn. intros ->. contradiction.
    + apply (Hn n j x H1 H2). right. exact Hx.
Qed.

Lemma NoDup_app_disj : forall (a b : list Z), NoDup (a ++ b) -> forall x, In x a -> In x b -> False.
Proof.
  induction a as [|y a IH]; intros b N x Ha Hb; [destruct Ha|]. cbn [app] in N. inversion N as [|? ? Ny Na]; subst.
  destruct Ha as [->|Ha]; [apply Ny, in_or_app; right; exact Hb | eapply IH; eauto].
Qed.

Lemma skipn_all_Z : forall (l : list Z), skipn (length l) l = [].
Proof. induction l; cbn; auto. Qed.

Lemma winv_timer : forall s g bo bestl, WInv s -> WInv (cstep s (CTimer g bo bestl)).
Proof.
  intros s g bo bestl W. cbn [cstep]. destruct (Z.ltb_spec g (c_next s)) as [Hg|]; [|exact W].
  set (e := WTimer bo bestl). set (w := wget g s). set (s0 := wput g (wstep w e) s).
  assert (W0 : WInv s0).
  { destruct (wside_mono s g e W Logic.I Logic.I) as [Hf Hd]. apply winv_wstep; auto.
    - intros _. exact Logic.I.
    - intros x Hx. apply wstep_seen_in in Hx. destruct Hx as [Hx|[? [? [? [? Hx]]]]]; [|discriminate].
      apply (w_seenc s W g x Hx). }
  assert (Wg : wget g s0 = wstep w e) by (unfold s0; rewrite wget_wput, Z.eqb_refl; reflexivity).
  destruct (w_stopped w) eqn:St.
  - rewrite (wstep_stopped w e St), skipn_all_Z. cbn [fold_left]. exact W0.
  - destruct (wstep_df w e St) as [l [D1 D2]]. rewrite D1, skipn_app_len.
    destruct (w_all s0 W0 g) as [[_ [_ S]] _]. rewrite Wg in S. pose proof (sC1 _ _ S) as Nd. rewrite D1 in Nd.
    apply winv_add_jobs; auto.
    + eapply NoDup_app_r; eauto.
    + intros a Ha. rewrite Wg, D1, D2. split; [apply in_or_app; right; exact Ha | right; apply in_or_app; right; exact Ha].
    + intros n j a H1 H2 Ha Eq. assert (X : In (jr_addr j) (w_dials w)).
      { unfold w. rewrite <- H2. apply (w_dial s W n j). exact H1. }
      rewrite Eq in X. eapply NoDup_app_disj; eauto.
Qed.

Lemma cstep_winv : forall s l, WInv s -> wf_label l -> WInv (cstep s l).
Proof.
  intros s l W Hl. destruct l.
  - apply winv_call, W.
  - apply winv_deliver; auto.
  - apply winv_timer, W.
  - apply winv_limop, W.
  - apply winv_res; auto.
  - cbn [cstep]. destruct (jget n s) as [j|]; [|exact W]. destruct (jr_reported j); [apply winv_limop, W | exact W].
  - apply winv_cancel, W.
  - apply winv_leave, W.
  - cbn [cstep]. destruct (memz g (c_stale s)); [|exact W].
    eapply winv_frame; [exact W|..]; cprj; try reflexivity; try lia; eauto.
Qed.

Lemma crun_winv : forall ls s, WInv s -> Forall wf_label ls -> WInv (crun s ls).
Proof.
  induction ls as [|l r IH]; intros s W F; cbn [crun fold_left]; [exact W|].
  inversion F; subst. apply IH; [apply cstep_winv; auto | assumption].
Qed.

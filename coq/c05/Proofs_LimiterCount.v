(* C05 — counting the jobs in the limiter that satisfy a predicate (the lemmas of
   Proofs_LimiterOnce about one identity, for an arbitrary predicate; the argument n is unused
   and kept so that the statements and proofs stay literally the same). *)
From Coq Require Import List ZArith Bool Lia Permutation.
From Verif Require Import lib.Wire c05.ModelLimiter c05.SpecLimiter c05.Proofs_Limiter c05.Proofs_LimiterMon.
Import ListNotations.
Local Open Scope Z_scope.

Section Count.
Variable ff : job -> bool.

Fixpoint cidf (n : Z) (l : list job) : Z :=
  match l with [] => 0 | j :: r => (if ff j then 1 else 0) + cidf n r end.

Lemma f_cid_app : forall n a b, cidf n (a ++ b) = cidf n a + cidf n b.
Proof. induction a; intros; cbn [app cidf]; [lia | rewrite IHa; lia]. Qed.
Lemma f_cid_nonneg : forall n l, 0 <= cidf n l.
Proof. induction l; cbn [cidf]; [lia | destruct (ff a); lia]. Qed.

Definition wpsumf (n : Z) (m : list (Z * list job)) : Z := cidf n (flat_map snd m).

Lemma f_wpsum_nonneg : forall n m, 0 <= wpsumf n m.
Proof. intros. apply f_cid_nonneg. Qed.

Lemma f_wpsum_adel_le : forall n p m, wpsumf n (adel p m) + cidf n (wl_get p m) <= wpsumf n m.
Proof.
  assert (A : forall n p m, wpsumf n (adel p m) <= wpsumf n m).
  { induction m as [|[k v] m IH]; cbn [adel]; [lia|]. unfold wpsumf in *. destruct (k =? p).
    - cbn [flat_map snd]. rewrite f_cid_app. pose proof (f_cid_nonneg n v). lia.
    - cbn [flat_map snd]. rewrite !f_cid_app. lia. }
  induction m as [|[k v] m IH]; unfold wpsumf, wl_get in *; cbn [adel aget flat_map snd cidf]; [lia|].
  destruct (k =? p).
  - rewrite f_cid_app. specialize (A n p m). unfold wpsumf in A. lia.
  - cbn [flat_map snd]. rewrite !f_cid_app. lia.
Qed.

Lemma f_wpsum_set_le : forall n p l m, wpsumf n (wl_set p l m) + cidf n (wl_get p m) <= wpsumf n m + cidf n l.
Proof.
  intros. pose proof (f_wpsum_adel_le n p m). unfold wl_set. destruct l as [|x l].
  - cbn [cidf]. lia.
  - unfold aput, wpsumf in *. cbn [flat_map snd]. rewrite f_cid_app. lia.
Qed.

Lemma f_wpsum_aput_le : forall n p l m, wpsumf n (aput p l m) + cidf n (wl_get p m) <= wpsumf n m + cidf n l.
Proof.
  intros. pose proof (f_wpsum_adel_le n p m). unfold aput, wpsumf in *. cbn [flat_map snd]. rewrite f_cid_app. lia.
Qed.

(* all the places a job can be in *)
Definition totf (n : Z) (s : lim) : Z :=
  wpsumf n (waitingOnPeer s) + cidf n (waitingOnFd s) + cidf n (spawned s) + cidf n (dialing s).
Definition restf (n : Z) (s : lim) : Z := totf n s - cidf n (dialing s).

Lemma f_add_check_fd_tot : forall n s j,
  totf n (add_check_fd s j) = totf n s + cidf n [j] /\ dialing (add_check_fd s j) = dialing s.
Proof.
  intros. unfold add_check_fd, totf.
  destruct (jfd j); [destruct (fdLimit s <=? fdConsuming s)|]; prj; rewrite ?f_cid_app; split; try reflexivity; lia.
Qed.

Lemma f_peer_loop_tot : forall n wl p s,
  (forall j, In j wl -> jpeer j = p) -> wl_get p (waitingOnPeer s) = wl ->
  totf n (peer_loop wl s) <= totf n s /\ dialing (peer_loop wl s) = dialing s.
Proof.
  induction wl as [|next rest0 IH]; intros p s Hp Hw; cbn [peer_loop]; [split; [lia | reflexivity]|].
  assert (Ep : jpeer next = p) by (apply Hp; left; reflexivity).
  set (s1 := set_wp s (wl_set (jpeer next) rest0 (waitingOnPeer s))).
  assert (T1 : totf n s1 + cidf n [next] <= totf n s).
  { unfold s1, totf. prj. pose proof (f_wpsum_set_le n (jpeer next) rest0 (waitingOnPeer s)) as H.
    assert (Hw' : wl_get (jpeer next) (waitingOnPeer s) = next :: rest0) by (rewrite Ep; exact Hw).
    rewrite Hw' in H. cbn [cidf] in *. lia. }
  destruct (is_cancelled s1 next).
  - destruct (IH p s1) as [A B].
    + intros j Hj. apply Hp. right. exact Hj.
    + unfold s1. prj. rewrite wl_get_set, Ep, Z.eqb_refl. reflexivity.
    + split; [|rewrite B; reflexivity]. pose proof (f_cid_nonneg n [next]). lia.
  - match goal with |- context [add_check_fd ?x next] => destruct (f_add_check_fd_tot n x next) as [A B] end.
    split; [|rewrite B; reflexivity]. rewrite A.
    match goal with |- totf n ?x + _ <= _ => change (totf n x) with (totf n s1) end. lia.
Qed.

Lemma f_free_peer_token_tot : forall n s j extra, Core s extra ->
  totf n (free_peer_token s j) <= totf n s /\ dialing (free_peer_token s j) = dialing s.
Proof.
  intros n s j extra C. unfold free_peer_token.
  match goal with |- context [peer_loop ?w ?x] => destruct (f_peer_loop_tot n w (jpeer j) x) as [A B] end.
  - intros y Hy. prj. eapply (cWP _ _ C); eauto.
  - reflexivity.
  - split; [|rewrite B; reflexivity]. eapply Z.le_trans; [exact A|]. unfold totf. prj. lia.
Qed.

Lemma f_fd_loop_tot : forall n f s extra, Core s extra ->
  totf n (fd_loop f s) <= totf n s /\ dialing (fd_loop f s) = dialing s.
Proof.
  induction f as [|f IH]; intros s extra C; cbn [fd_loop]; [split; [lia | reflexivity]|].
  destruct (waitingOnFd s) as [|next rest0] eqn:Ew; [split; [lia | reflexivity]|].
  destruct (fdConsuming s <? fdLimit s); [|split; [lia | reflexivity]].
  set (s1 := set_wfd s rest0).
  pose proof (pop_core _ _ _ _ C Ew) as C1. fold s1 in C1.
  assert (T1 : totf n s1 + cidf n [next] = totf n s) by (unfold s1, totf; prj; rewrite Ew; cbn [cidf]; lia).
  destruct (is_cancelled s1 next).
  - destruct (f_free_peer_token_tot n s1 next (next :: extra) C1) as [A B].
    destruct (IH (free_peer_token s1 next) extra (free_peer_token_core _ _ _ C1)) as [A' B'].
    split; [|rewrite B', B; reflexivity]. pose proof (f_cid_nonneg n [next]). lia.
  - split; [|reflexivity]. unfold s1, totf in *. prj. rewrite f_cid_app. lia.
Qed.

Lemma f_finished_tot : forall n s j, PreFin s j ->
  totf n (finished s j) <= totf n s /\ dialing (finished s j) = dialing s.
Proof.
  intros n s j H. pose proof (prefin_core s j H) as C. unfold finished.
  destruct (jfd j) eqn:Ej.
  - unfold free_fd_token. set (s1 := set_fd s (fdConsuming s - 1)) in *.
    destruct (f_fd_loop_tot n (S (length (waitingOnFd s1))) s1 [j] C) as [A B].
    destruct (f_free_peer_token_tot n (fd_loop (S (length (waitingOnFd s1))) s1) j [j] (fd_loop_core _ _ _ C)) as [A' B'].
    split; [|rewrite B', B; reflexivity]. eapply Z.le_trans; [exact A'|]. eapply Z.le_trans; [exact A|]. unfold s1, totf. prj. lia.
  - apply (f_free_peer_token_tot n s j [j] C).
Qed.

Lemma f_take_job_cid : forall n id l j r, take_job id l = Some (j, r) -> cidf n l = cidf n [j] + cidf n r.
Proof.
  induction l as [|x l IH]; intros j r H; cbn [take_job] in H; [discriminate|].
  destruct (jid x =? id).
  - inversion H; subst. cbn [cidf]. lia.
  - destruct (take_job id l) as [[y r']|] eqn:E; [|discriminate]. inversion H; subst.
    cbn [cidf]. rewrite (IH _ _ eq_refl). cbn [cidf]. lia.
Qed.

Lemma f_cid_filter_le : forall n f l, cidf n (filter f l) <= cidf n l.
Proof.
  induction l as [|x l IH]; cbn [filter cidf]; [lia|]. destruct (f x); cbn [cidf]; destruct (ff x); lia.
Qed.

Lemma f_rest_nonneg : forall n s, 0 <= restf n s.
Proof.
  intros. unfold restf, totf. pose proof (f_wpsum_nonneg n (waitingOnPeer s)).
  pose proof (f_cid_nonneg n (waitingOnFd s)). pose proof (f_cid_nonneg n (spawned s)). lia.
Qed.

Definition addcf (n : Z) (o : lop) : Z := match o with LAdd j => cidf n [j] | _ => 0 end.

Lemma f_lstep_tot : forall s o n, Inv s ->
  totf n (lstep s o) <= totf n s + addcf n o /\ restf n (lstep s o) <= restf n s + addcf n o.
Proof.
  intros s o n I. destruct o as [j|g|p|id|id]; cbn [lstep addcf].
  - unfold add_job. destruct (perPeerLimit s <=? _).
    + unfold restf, totf. prj. pose proof (f_wpsum_aput_le n (jpeer j) (wl_get (jpeer j) (waitingOnPeer s) ++ [j]) (waitingOnPeer s)) as H.
      rewrite f_cid_app in H. lia.
    + match goal with |- context [add_check_fd ?x j] => destruct (f_add_check_fd_tot n x j) as [A B] end.
      unfold restf. rewrite A, B. unfold totf. prj. lia.
  - unfold restf, totf. prj. lia.
  - unfold clear_peer, restf, totf. prj.
    pose proof (f_wpsum_set_le n p (filter (fun j => negb (is_cancelled s j)) (wl_get p (waitingOnPeer s))) (waitingOnPeer s)).
    pose proof (f_cid_filter_le n (fun j => negb (is_cancelled s j)) (wl_get p (waitingOnPeer s))). lia.
  - destruct (take_job id (spawned s)) as [[j r]|] eqn:E; [|lia].
    pose proof (f_take_job_cid n _ _ _ _ E) as Hc. pose proof (f_cid_nonneg n [j]).
    destruct (is_cancelled (set_spawned s r) j).
    + destruct (f_finished_tot n (set_spawned s r) j (take_spawned_prefin _ _ _ _ I E)) as [A B].
      unfold restf. rewrite B. prj. assert (X : totf n (set_spawned s r) = totf n s - cidf n [j]) by (unfold totf; prj; lia). lia.
    + unfold restf, totf. prj. rewrite f_cid_app. lia.
  - destruct (take_job id (dialing s)) as [[j r]|] eqn:E; [|lia].
    pose proof (f_take_job_cid n _ _ _ _ E) as Hc. pose proof (f_cid_nonneg n [j]).
    destruct (f_finished_tot n (set_dialing s r) j (take_dialing_prefin _ _ _ _ I E)) as [A B].
    unfold restf. rewrite B. prj. assert (X : totf n (set_dialing s r) = totf n s - cidf n [j]) by (unfold totf; prj; lia). lia.
Qed.

Lemma f_drain_tot : forall f s n, Inv2 s -> totf n (drain f s) <= totf n s /\ restf n (drain f s) <= restf n s.
Proof.
  induction f as [|f IH]; intros s n I; cbn [drain]; [lia|]. destruct (spawned s) as [|j r]; [lia|].
  destruct (f_lstep_tot s (LBegin (jid j)) n (i2core _ I)) as [A B]. cbn [addcf] in A, B.
  destruct (IH (lstep s (LBegin (jid j))) n (lstep_inv2 _ _ I)) as [A' B']. lia.
Qed.


End Count.

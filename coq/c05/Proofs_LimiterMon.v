(* C05 — the limiter monitor of SpecLimiter.v accepts every trace of the model:
   caps, residue and "every live job is attempted" (no job is lost). *)
From Coq Require Import List ZArith Bool Lia.
From Verif Require Import lib.Wire c05.ModelLimiter c05.Proofs_Limiter c05.SpecLimiter.
Import ListNotations.
Local Open Scope Z_scope.

(* ---- state versions of the summary lemmas ------------------------------------ *)
Lemma caps_state : forall s, Inv s ->
  0 <= fdConsuming s <= fdLimit s /\ (forall p, 0 <= act_get p (activePerPeer s) <= perPeerLimit s) /\
  cnt_fd (dialing s) <= fdLimit s /\ (forall p, cnt_peer p (dialing s) <= perPeerLimit s).
Proof.
  intros s [F P _ CF CP _]. unfold exec in *.
  pose proof (cnt_fd_nonneg (spawned s)). pose proof (cnt_fd_nonneg (dialing s)).
  rewrite cnt_fd_app in F. repeat split; try lia.
  - specialize (P p). rewrite cnt_peer_app in P. cbn [cnt_peer] in P.
    pose proof (cnt_peer_nonneg p (spawned s)). pose proof (cnt_peer_nonneg p (dialing s)).
    pose proof (cnt_peer_nonneg p (waitingOnFd s)). lia.
  - apply CP.
  - intros p. specialize (P p). specialize (CP p). rewrite cnt_peer_app in P. cbn [cnt_peer] in P.
    pose proof (cnt_peer_nonneg p (spawned s)). pose proof (cnt_peer_nonneg p (waitingOnFd s)). lia.
Qed.

Lemma residue_state : forall s, Inv2 s -> 1 <= fdLimit s -> 1 <= perPeerLimit s ->
  spawned s = [] -> dialing s = [] ->
  fdConsuming s = 0 /\ waitingOnFd s = [] /\
  (forall p, act_get p (activePerPeer s) = 0 /\ wl_get p (waitingOnPeer s) = []).
Proof.
  intros s [[F P _ _ _ _] HF HP] L1 L2 E1 E2. unfold exec, QF, QP in *.
  rewrite E1, E2 in *. cbn [app cnt_fd cnt_peer] in *.
  assert (W : waitingOnFd s = []).
  { destruct (waitingOnFd s) eqn:E; [reflexivity|]. assert (Hn : j :: l <> []) by discriminate.
    apply HF in Hn. lia. }
  split; [exact F|]. split; [exact W|]. intros p.
  assert (A : act_get p (activePerPeer s) = 0) by (rewrite P, W; reflexivity).
  split; [exact A|].
  destruct (wl_get p (waitingOnPeer s)) eqn:E; [reflexivity|].
  assert (Hn : wl_get p (waitingOnPeer s) <> []) by (rewrite E; discriminate).
  apply HP in Hn. lia.
Qed.

(* ---- nothing but the cancelled-context list decides is_cancelled -------------- *)
Lemma peer_loop_canc : forall wl s, cancelledG (peer_loop wl s) = cancelledG s.
Proof.
  induction wl as [|n r IH]; intros s; cbn [peer_loop]; [reflexivity|].
  destruct (is_cancelled _ n).
  - rewrite IH. reflexivity.
  - match goal with |- context [add_check_fd ?x n] => destruct (add_check_fd_lims x n) as [_ [_ [E _]]] end.
    rewrite E. reflexivity.
Qed.

Lemma free_peer_token_canc : forall s j, cancelledG (free_peer_token s j) = cancelledG s.
Proof. intros. unfold free_peer_token. rewrite peer_loop_canc. reflexivity. Qed.

Lemma fd_loop_canc : forall f s, cancelledG (fd_loop f s) = cancelledG s.
Proof.
  induction f as [|f IH]; intros s; cbn [fd_loop]; [reflexivity|].
  destruct (waitingOnFd s) as [|n r]; [reflexivity|]. destruct (fdConsuming s <? fdLimit s); [|reflexivity].
  destruct (is_cancelled _ n); [|reflexivity]. rewrite IH, free_peer_token_canc. reflexivity.
Qed.

Lemma finished_canc : forall s j, cancelledG (finished s j) = cancelledG s.
Proof.
  intros. unfold finished. rewrite free_peer_token_canc. destruct (jfd j); [|reflexivity].
  unfold free_fd_token. rewrite fd_loop_canc. reflexivity.
Qed.

Lemma is_cancelled_eq : forall s s' x, cancelledG s' = cancelledG s -> is_cancelled s' x = is_cancelled s x.
Proof. intros. unfold is_cancelled. rewrite H. reflexivity. Qed.

(* ---- no job is lost ------------------------------------------------------------- *)
(* a job is queued or about to run *)
Definition InQ (s : lim) (x : job) : Prop :=
  (exists q, In x (wl_get q (waitingOnPeer s))) \/ In x (waitingOnFd s) \/ In x (spawned s).

Lemma add_check_fd_inq : forall s j x, InQ s x -> InQ (add_check_fd s j) x.
Proof.
  intros s j x [H|[H|H]]; unfold InQ, add_check_fd;
    (destruct (jfd j); [destruct (fdLimit s <=? fdConsuming s)|]); prj;
    try (left; exact H); try (right; left; try apply in_or_app; auto; fail);
    try (right; right; try apply in_or_app; auto; fail).
Qed.

Lemma add_check_fd_inq_self : forall s j, InQ (add_check_fd s j) j.
Proof.
  intros s j. unfold InQ, add_check_fd.
  destruct (jfd j); [destruct (fdLimit s <=? fdConsuming s)|]; prj.
  - right. left. apply in_or_app. right. left. reflexivity.
  - right. right. apply in_or_app. right. left. reflexivity.
  - right. right. apply in_or_app. right. left. reflexivity.
Qed.

Lemma peer_loop_inq : forall wl p s x,
  wl_get p (waitingOnPeer s) = wl -> (forall j, In j wl -> jpeer j = p) ->
  is_cancelled s x = false -> InQ s x -> InQ (peer_loop wl s) x.
Proof.
  induction wl as [|next rest IH]; intros p s x Hw Hp Hl H; cbn [peer_loop]; [exact H|].
  assert (Ep : jpeer next = p) by (apply Hp; left; reflexivity).
  set (s1 := set_wp s (wl_set (jpeer next) rest (waitingOnPeer s))).
  assert (C1 : is_cancelled s1 x = false) by exact Hl.
  (* where x is after the head has been popped *)
  assert (H1 : x = next \/ InQ s1 x).
  { destruct H as [[q H]|[H|H]].
    - destruct (Z.eq_dec q p) as [->|N].
      + rewrite Hw in H. destruct H as [H|H]; [left; auto|].
        right. left. exists p. unfold s1. prj. rewrite wl_get_set, Ep, Z.eqb_refl. exact H.
      + right. left. exists q. unfold s1. prj. rewrite wl_get_set, Ep.
        destruct (p =? q) eqn:E; [apply Z.eqb_eq in E; congruence | exact H].
    - right. right. left. exact H.
    - right. right. right. exact H. }
  destruct (is_cancelled s1 next) eqn:Ec.
  - destruct H1 as [->|H1]; [congruence|].
    apply (IH p); auto.
    + unfold s1. prj. rewrite wl_get_set, Ep, Z.eqb_refl. reflexivity.
    + intros j Hj. apply Hp. right. exact Hj.
  - destruct H1 as [->|H1]; [apply add_check_fd_inq_self|].
    apply add_check_fd_inq. destruct H1 as [H1|[H1|H1]]; [left|right; left|right; right]; exact H1.
Qed.

Lemma free_peer_token_inq : forall s j x extra, Core s extra ->
  is_cancelled s x = false -> InQ s x -> InQ (free_peer_token s j) x.
Proof.
  intros s j x extra C Hl H. unfold free_peer_token.
  apply (peer_loop_inq _ (jpeer j)); prj; auto.
  intros y Hy. eapply (cWP _ _ C); eauto.
Qed.

Lemma fd_loop_inq : forall f s x extra, Core s extra ->
  is_cancelled s x = false -> InQ s x -> InQ (fd_loop f s) x.
Proof.
  induction f as [|f IH]; intros s x extra C Hl H; cbn [fd_loop]; [exact H|].
  destruct (waitingOnFd s) as [|next rest] eqn:Ew; [exact H|].
  destruct (fdConsuming s <? fdLimit s); [|exact H].
  set (s1 := set_wfd s rest).
  pose proof (pop_core _ _ _ _ C Ew) as C1. fold s1 in C1.
  assert (H1 : x = next \/ InQ s1 x).
  { destruct H as [H|[H|H]].
    - right. left. exact H.
    - rewrite Ew in H. destruct H as [H|H]; [left; auto | right; right; left; exact H].
    - right. right. right. exact H. }
  destruct (is_cancelled s1 next) eqn:Ec.
  - destruct H1 as [->|H1]; [unfold s1 in Ec; unfold is_cancelled in *; prj; congruence|].
    apply (IH _ _ extra).
    + apply free_peer_token_core, C1.
    + rewrite (is_cancelled_eq s1); [exact Hl | apply free_peer_token_canc].
    + eapply free_peer_token_inq; eauto.
  - destruct H1 as [->|H1].
    + right. right. prj. apply in_or_app. right. left. reflexivity.
    + destruct H1 as [H1|[H1|H1]]; [left; exact H1 | right; left; exact H1|].
      right. right. prj. apply in_or_app. left. exact H1.
Qed.

Lemma finished_inq : forall s j x, PreFin s j ->
  is_cancelled s x = false -> InQ s x -> InQ (finished s j) x.
Proof.
  intros s j x Hp Hl H. pose proof (prefin_core s j Hp) as C. unfold finished.
  destruct (jfd j) eqn:Ej.
  - unfold free_fd_token. set (s1 := set_fd s (fdConsuming s - 1)) in *.
    eapply free_peer_token_inq.
    + apply fd_loop_core, C.
    + rewrite (is_cancelled_eq s1); [exact Hl | apply fd_loop_canc].
    + eapply fd_loop_inq; eauto.
  - eapply free_peer_token_inq; eauto.
Qed.

Lemma take_job_in : forall id l j r x, take_job id l = Some (j, r) -> In x l -> x = j \/ In x r.
Proof.
  induction l as [|y l IH]; intros j r x H Hin; cbn [take_job] in H; [discriminate|].
  destruct (jid y =? id).
  - inversion H; subst. destruct Hin; [left; auto | right; auto].
  - destruct (take_job id l) as [[z r']|] eqn:E; [|discriminate]. inversion H; subst.
    destruct Hin as [Hin|Hin]; [right; left; exact Hin|].
    destruct (IH _ _ _ eq_refl Hin) as [G|G]; [left; exact G | right; right; exact G].
Qed.

(* one stimulus (not LBegin): a live queued job stays queued *)
Lemma stim_inq : forall s st x, Inv s ->
  match st with SClear p => jpeer x <> p | _ => True end ->
  is_cancelled (lstep s (lop_of st)) x = false -> InQ s x -> InQ (lstep s (lop_of st)) x.
Proof.
  intros s st x C Hc Hl H. destruct st as [j|g|p|id]; cbn [lop_of lstep] in *.
  - unfold add_job in *. destruct (perPeerLimit s <=? act_get (jpeer j) (activePerPeer s)).
    + destruct H as [[q H]|[H|H]]; [|right; left; exact H | right; right; exact H].
      left. exists q. prj. rewrite wl_get_aput. destruct (jpeer j =? q) eqn:E; [|exact H].
      apply Z.eqb_eq in E. subst q. apply in_or_app. left. exact H.
    + apply add_check_fd_inq. exact H.
  - exact H.
  - destruct H as [[q H]|[H|H]]; [|right; left; exact H | right; right; exact H].
    left. exists q. unfold clear_peer. prj. rewrite wl_get_set.
    destruct (p =? q) eqn:E; [|exact H]. apply Z.eqb_eq in E. subst q.
    apply filter_In. split; [exact H|]. apply negb_true_iff. cbn [lop_of lstep] in Hl. exact Hl.
  - destruct (take_job id (dialing s)) as [[j r]|] eqn:E; [|exact H].
    apply finished_inq; auto.
    + eapply take_dialing_prefin; eauto.
    + rewrite (is_cancelled_eq (set_dialing s r)) in Hl by apply finished_canc. exact Hl.
Qed.

Lemma add_inq_new : forall s j, InQ (add_job s j) j.
Proof.
  intros s j. unfold add_job. destruct (perPeerLimit s <=? act_get (jpeer j) (activePerPeer s)).
  - left. exists (jpeer j). prj. rewrite wl_get_aput, Z.eqb_refl. apply in_or_app. right. left. reflexivity.
  - apply add_check_fd_inq_self.
Qed.

(* LBegin: a live job that was queued or about to run is queued, about to run, or dialing *)
Definition Place (s : lim) (x : job) : Prop := InQ s x \/ In x (dialing s).

Lemma finished_dialing : forall s j, dialing (finished s j) = dialing s.
Proof.
  assert (Hpl : forall wl s, dialing (peer_loop wl s) = dialing s).
  { induction wl as [|n r IH]; intros s; cbn [peer_loop]; [reflexivity|].
    destruct (is_cancelled _ n); [rewrite IH; reflexivity|].
    match goal with |- context [add_check_fd ?x n] => destruct (add_check_fd_lims x n) as [_ [_ [_ E]]] end.
    rewrite E. reflexivity. }
  assert (Hfl : forall f s, dialing (fd_loop f s) = dialing s).
  { induction f as [|f IH]; intros s; cbn [fd_loop]; [reflexivity|].
    destruct (waitingOnFd s) as [|n r]; [reflexivity|]. destruct (fdConsuming s <? fdLimit s); [|reflexivity].
    destruct (is_cancelled _ n); [|reflexivity]. rewrite IH. unfold free_peer_token. rewrite Hpl. reflexivity. }
  intros. unfold finished, free_peer_token. rewrite Hpl. prj. destruct (jfd j); [|reflexivity].
  unfold free_fd_token. rewrite Hfl. reflexivity.
Qed.

Lemma begin_place : forall s id x, Inv s -> is_cancelled s x = false ->
  Place s x -> Place (lstep s (LBegin id)) x /\ cancelledG (lstep s (LBegin id)) = cancelledG s.
Proof.
  intros s id x C Hl H. cbn [lstep].
  destruct (take_job id (spawned s)) as [[j r]|] eqn:E; [|split; [exact H | reflexivity]].
  destruct (is_cancelled (set_spawned s r) j) eqn:Ec.
  - split; [|rewrite finished_canc; reflexivity].
    destruct H as [H|H]; [|right; rewrite finished_dialing; exact H].
    left. apply finished_inq.
    + eapply take_spawned_prefin; eauto.
    + exact Hl.
    + destruct H as [H|[H|H]]; [left; exact H | right; left; exact H|].
      destruct (take_job_in _ _ _ _ _ E H) as [->|G].
      * unfold is_cancelled in *. prj. congruence.
      * right. right. exact G.
  - split; [|reflexivity]. destruct H as [H|H]; [|right; prj; apply in_or_app; left; exact H].
    destruct H as [H|[H|H]]; [left; left; exact H | left; right; left; exact H|].
    destruct (take_job_in _ _ _ _ _ E H) as [->|G].
    + right. prj. apply in_or_app. right. left. reflexivity.
    + left. right. right. exact G.
Qed.

Lemma drain_place : forall f s, Inv2 s ->
  Inv2 (drain f s) /\ fdLimit (drain f s) = fdLimit s /\ perPeerLimit (drain f s) = perPeerLimit s /\
  cancelledG (drain f s) = cancelledG s /\
  (forall x, is_cancelled s x = false -> Place s x -> Place (drain f s) x).
Proof.
  induction f as [|f IH]; intros s I; cbn [drain]; [split; [exact I|repeat split; auto]|].
  destruct (spawned s) as [|j r] eqn:Es; [split; [exact I|repeat split; auto]|].
  pose proof (lstep_inv2 s (LBegin (jid j)) I) as I1.
  destruct (IH _ I1) as [A [B [C [D E]]]]. destruct (lstep_limits s (LBegin (jid j))) as [L1 L2].
  split; [exact A|]. split; [congruence|]. split; [congruence|].
  assert (Dc : cancelledG (lstep s (LBegin (jid j))) = cancelledG s).
  { cbn [lstep]. destruct (take_job (jid j) (spawned s)) as [[y r']|]; [|reflexivity].
    destruct (is_cancelled _ y); [rewrite finished_canc; reflexivity | reflexivity]. }
  split; [congruence|].
  intros x Hl Hp. apply E.
  - rewrite (is_cancelled_eq s); auto.
  - apply (begin_place s (jid j) x); auto. exact (i2core _ I).
Qed.

(* ---- the observation of a model state passes the monitor's checks -------------- *)
Lemma count_fd_eq : forall l, count_fd l = cnt_fd l.
Proof. induction l; cbn; congruence. Qed.
Lemma count_peer_eq : forall p l, count_peer p l = cnt_peer p l.
Proof. induction l; cbn; congruence. Qed.

Lemma ins_job_cnt : forall x l, cnt_fd (ins_job x l) = cnt_fd (x :: l) /\
  (forall p, cnt_peer p (ins_job x l) = cnt_peer p (x :: l)) /\
  (forall y, In y (ins_job x l) <-> In y (x :: l)).
Proof.
  induction l as [|y l [A [B C]]]; cbn [ins_job]; [repeat split; tauto|].
  destruct (jid x <=? jid y); [repeat split; tauto|]. split; [|split].
  - cbn [cnt_fd] in *. rewrite A. lia.
  - intros p. cbn [cnt_peer] in *. rewrite B. lia.
  - intros z. cbn [In] in *. rewrite C. cbn [In]. tauto.
Qed.

Lemma sort_jobs_cnt : forall l, cnt_fd (sort_jobs l) = cnt_fd l /\
  (forall p, cnt_peer p (sort_jobs l) = cnt_peer p l) /\ (forall y, In y (sort_jobs l) <-> In y l).
Proof.
  induction l as [|x l [A [B C]]]; cbn [sort_jobs fold_right]; [repeat split; tauto|].
  fold (sort_jobs l). destruct (ins_job_cnt x (sort_jobs l)) as [A' [B' C']]. split; [|split].
  - rewrite A'. cbn [cnt_fd]. rewrite A. reflexivity.
  - intros p. rewrite B'. cbn [cnt_peer]. rewrite B. reflexivity.
  - intros y. rewrite C'. cbn [In]. rewrite C. tauto.
Qed.

Lemma forallb_filter_map : forall (A : Type) (ks : list A) (f : A -> Z * Z) (keep P : Z * Z -> bool),
  (forall k, P (f k) = true) -> forallb P (filter keep (map f ks)) = true.
Proof.
  intros. apply forallb_forall. intros e He. apply filter_In in He. destruct He as [He _].
  apply in_map_iff in He. destruct He as [k [<- _]]. apply H.
Qed.

Lemma filter_map_nil : forall (A : Type) (ks : list A) (f : A -> Z * Z) (keep : Z * Z -> bool),
  (forall k, keep (f k) = false) -> filter keep (map f ks) = [].
Proof.
  induction ks as [|k ks IH]; intros f keep H; cbn [map filter]; [reflexivity|].
  rewrite H. apply IH, H.
Qed.

Lemma caps_ok_model : forall s, Inv s -> caps_ok (fdLimit s) (perPeerLimit s) (obs_of s) = true.
Proof.
  intros s I. destruct (caps_state s I) as [[A1 A2] [B [C D]]].
  destruct (sort_jobs_cnt (dialing s)) as [S1 [S2 S3]].
  unfold caps_ok, obs_of. cbn [o_fd o_act o_dial].
  repeat (apply andb_true_iff; split).
  - apply Z.leb_le, A1.
  - apply Z.leb_le, A2.
  - unfold act_obs. apply forallb_filter_map. intros k. cbn [snd]. destruct (B k).
    apply andb_true_iff. split; apply Z.leb_le; assumption.
  - rewrite count_fd_eq, S1. apply Z.leb_le, C.
  - apply forallb_forall. intros j _. rewrite count_peer_eq, S2. apply Z.leb_le, D.
Qed.

Lemma sort_jobs_nil : forall l, sort_jobs l = [] -> l = [].
Proof.
  intros [|x l] H; [reflexivity|]. exfalso.
  destruct (sort_jobs_cnt (x :: l)) as [_ [_ C]]. rewrite H in C.
  destruct (proj2 (C x) (or_introl eq_refl)).
Qed.

Lemma quiet_model : forall s, quiet (obs_of s) = true -> spawned s = [] /\ dialing s = [].
Proof.
  intros s H. unfold quiet, obs_of in H. cbn [o_dial o_nsp] in H.
  destruct (sort_jobs (dialing s)) eqn:E; [|discriminate]. apply sort_jobs_nil in E.
  apply Z.eqb_eq in H. unfold zlen in H. destruct (spawned s); [auto | cbn [length] in H; lia].
Qed.

Lemma residue_ok_model : forall s, Inv2 s -> 1 <= fdLimit s -> 1 <= perPeerLimit s ->
  residue_ok (obs_of s) = true.
Proof.
  intros s I L1 L2. unfold residue_ok. destruct (quiet (obs_of s)) eqn:Q; [|reflexivity]. cbn [negb orb].
  destruct (quiet_model s Q) as [E1 E2].
  destruct (residue_state s I L1 L2 E1 E2) as [A [B C]].
  unfold obs_of. cbn [o_fd o_nwfd o_act o_wp]. rewrite A, B. cbn [zlen length Z.of_nat Z.eqb andb].
  unfold act_obs, wp_obs. rewrite !filter_map_nil; [reflexivity| |].
  - intros k. cbn [snd]. destruct (C k) as [_ W]. rewrite W. reflexivity.
  - intros k. cbn [snd]. destruct (C k) as [W _]. rewrite W. reflexivity.
Qed.

(* ---- the coupling between the monitor's bookkeeping and the model state ------------ *)
Record RL (fdl ppl : Z) (s : lim) (m : lmon) : Prop := mkRL {
  r_inv : Inv2 s;
  r_l1 : fdLimit s = fdl;
  r_l2 : perPeerLimit s = ppl;
  r_canc : forall g, In g (cancelledG s) -> In g (m_canc m);
  r_pend : forall y, In y (m_pend m) -> is_cancelled s y = false /\ InQ s y }.

Lemma mem_z_In : forall x l, mem_z x l = true <-> In x l.
Proof.
  intros. unfold mem_z. rewrite existsb_exists. split.
  - intros [y [H E]]. apply Z.eqb_eq in E. subst. exact H.
  - intros H. exists x. split; [exact H | apply Z.eqb_refl].
Qed.

Lemma is_cancelled_false : forall s x, is_cancelled s x = false <-> ~ In (jgrp x) (cancelledG s).
Proof.
  intros. unfold is_cancelled. fold (mem_z (jgrp x) (cancelledG s)). rewrite <- mem_z_In.
  destruct (mem_z (jgrp x) (cancelledG s)); split; intros H; try congruence; try reflexivity.
Qed.

Lemma lstep_canc : forall s st, cancelledG (lstep s (lop_of st)) =
  match st with SCancel g => g :: cancelledG s | _ => cancelledG s end.
Proof.
  intros s [j|g|p|id]; cbn [lop_of lstep]; try reflexivity.
  - unfold add_job. destruct (perPeerLimit s <=? _); [reflexivity|].
    match goal with |- context [add_check_fd ?x j] => destruct (add_check_fd_lims x j) as [_ [_ [E _]]] end.
    rewrite E. reflexivity.
  - destruct (take_job id (dialing s)) as [[j r]|]; [|reflexivity]. rewrite finished_canc. reflexivity.
Qed.

Lemma step_RL : forall fdl ppl s m x, 1 <= fdl -> 1 <= ppl -> RL fdl ppl s m ->
  let s' := stim_step s x in
  let m1 := lmon_obs (lmon_stim m x) (obs_of s') in
  RL fdl ppl s' m1 /\ caps_ok fdl ppl (obs_of s') = true /\ residue_ok (obs_of s') = true /\
  live_ok m1 (obs_of s') = true.
Proof.
  intros fdl ppl s m x H1 H2 [I L1 L2 Rc Rp] s' m1.
  set (s1 := lstep s (lop_of x)).
  assert (I1 : Inv2 s1) by (apply lstep_inv2, I).
  destruct (lstep_limits s (lop_of x)) as [M1 M2]. fold s1 in M1, M2.
  pose proof (lstep_canc s x) as Cc. fold s1 in Cc.
  (* after the method call, before the goroutines run *)
  assert (P0 : forall y, In y (m_pend (lmon_stim m x)) -> is_cancelled s1 y = false /\ InQ s1 y).
  { intros y Hy. destruct x as [j|g|p|id]; cbn [lmon_stim] in Hy.
    - destruct (mem_z (jgrp j) (m_canc m)) eqn:Em.
      + destruct (Rp y Hy) as [A B]. assert (A' : is_cancelled s1 y = false).
        { rewrite (is_cancelled_eq s); auto. }
        split; [exact A'|]. apply (stim_inq s (SAdd j)); auto. exact (i2core _ I).
      + cbn [m_pend] in Hy. apply in_app_or in Hy. destruct Hy as [Hy|[Hy|[]]].
        * destruct (Rp y Hy) as [A B]. assert (A' : is_cancelled s1 y = false).
          { rewrite (is_cancelled_eq s); auto. }
          split; [exact A'|]. apply (stim_inq s (SAdd j)); auto. exact (i2core _ I).
        * subst y. split.
          -- apply is_cancelled_false. rewrite Cc. intros Hin. apply Rc in Hin.
             apply mem_z_In in Hin. congruence.
          -- apply add_inq_new.
    - cbn [m_pend] in Hy. apply filter_In in Hy. destruct Hy as [Hy Hg].
      destruct (Rp y Hy) as [A B]. split.
      + apply is_cancelled_false. rewrite Cc. intros [Hin|Hin].
        * apply negb_true_iff, Z.eqb_neq in Hg. congruence.
        * apply is_cancelled_false in A. contradiction.
      + exact B.
    - cbn [m_pend] in Hy. apply filter_In in Hy. destruct Hy as [Hy Hg].
      destruct (Rp y Hy) as [A B]. assert (A' : is_cancelled s1 y = false).
      { rewrite (is_cancelled_eq s); auto. }
      split; [exact A'|]. apply (stim_inq s (SClear p)); auto.
      * exact (i2core _ I).
      * apply negb_true_iff, Z.eqb_neq in Hg. exact Hg.
    - destruct (Rp y Hy) as [A B]. assert (A' : is_cancelled s1 y = false).
      { rewrite (is_cancelled_eq s); auto. }
      split; [exact A'|]. apply (stim_inq s (SReturn id)); auto. exact (i2core _ I). }
  assert (C0 : forall g, In g (cancelledG s1) -> In g (m_canc (lmon_stim m x))).
  { intros g Hg. rewrite Cc in Hg. destruct x as [j|g'|p|id]; cbn [lmon_stim].
    - destruct (mem_z (jgrp j) (m_canc m)); cbn [m_canc]; apply Rc, Hg.
    - cbn [m_canc]. destruct Hg as [Hg|Hg]; [left; exact Hg | right; apply Rc, Hg].
    - cbn [m_canc]. apply Rc, Hg.
    - apply Rc, Hg. }
  (* the goroutines run *)
  destruct (drain_place (drain_fuel s1) s1 I1) as [I' [L1' [L2' [Cd Pl]]]].
  change (drain (drain_fuel s1) s1) with s' in *.
  assert (E1 : fdLimit s' = fdl) by congruence. assert (E2 : perPeerLimit s' = ppl) by congruence.
  assert (R' : RL fdl ppl s' m1).
  { constructor; auto.
    - intros g Hg. unfold m1, lmon_obs. cbn [m_canc]. apply C0. rewrite <- Cd. exact Hg.
    - intros y Hy. unfold m1, lmon_obs in Hy. cbn [m_pend] in Hy. apply filter_In in Hy.
      destruct Hy as [Hy Hn]. destruct (P0 y Hy) as [A B].
      split; [rewrite (is_cancelled_eq s1); auto|].
      destruct (Pl y A (or_introl B)) as [G|G]; [exact G|]. exfalso.
      apply negb_true_iff in Hn. assert (X : mem_z (jid y) (map jid (o_dial (obs_of s'))) = true).
      { apply mem_z_In. apply in_map. unfold obs_of. cbn [o_dial].
        apply (proj2 (sort_jobs_cnt (dialing s'))). exact G. }
      congruence. }
  split; [exact R'|]. split; [|split].
  - rewrite <- E1, <- E2. apply caps_ok_model. exact (i2core _ I').
  - apply residue_ok_model; auto; lia.
  - unfold live_ok. destruct (quiet (obs_of s')) eqn:Q; [|reflexivity]. cbn [negb orb].
    destruct (quiet_model s' Q) as [Q1 Q2].
    destruct (residue_state s' I' ltac:(lia) ltac:(lia) Q1 Q2) as [_ [W Wp]].
    destruct (m_pend m1) as [|y l] eqn:Ep; [reflexivity|]. exfalso.
    destruct R' as [_ _ _ _ Rp']. destruct (Rp' y) as [_ [[q G]|[G|G]]].
    + rewrite Ep. left. reflexivity.
    + destruct (Wp q) as [_ Wq]. rewrite Wq in G. destruct G.
    + rewrite W in G. destruct G.
    + rewrite Q1 in G. destruct G.
Qed.

Lemma monitor_lim_model : forall fdl ppl xs s m i, 1 <= fdl -> 1 <= ppl -> RL fdl ppl s m ->
  monitor_lim fdl ppl m i (lim_trace s xs) = [].
Proof.
  induction xs as [|x xs IH]; intros s m i H1 H2 R; cbn [lim_trace monitor_lim]; [reflexivity|].
  destruct (step_RL fdl ppl s m x H1 H2 R) as [R' [A [B C]]].
  cbv zeta in *. rewrite A, B, C. cbn [negb]. apply IH; auto.
Qed.

Lemma monitor_lim_holds_l : forall fdl ppl xs, 1 <= fdl -> 1 <= ppl ->
  monitor_lim fdl ppl (mkLmon [] []) 0 (lim_trace (init_lim fdl ppl) xs) = [].
Proof.
  intros. apply monitor_lim_model; auto. constructor; cbn; auto; try (intros ? []).
  apply init_inv2; lia.
Qed.

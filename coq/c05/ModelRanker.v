(* C05 — DefaultDialRanker (p2p/net/swarm/dial_ranker.go), the in-place
   partition and the in-place happy-eyeballs moves transcribed on lists.
   sort.Slice enters as a Section variable with the hypothesis that it
   permutes its input; it is instantiated with a stable insertion sort (which
   is what sort.Slice runs for slices of at most 12 elements).  No proofs here.

   An address is the tuple of answers the ranker's predicates give for it. *)
From Coq Require Import List ZArith Bool.
From Verif Require Import gen.Consts_c05.
Import ListNotations.
Local Open Scope Z_scope.

Record raddr := mkRA {
  ra_id : Z;
  ra_relay : bool;   (* isRelayAddr *)
  ra_pvt : bool;     (* manet.IsPrivateAddr *)
  ra_ip4 : bool;     (* isProtocolAddr(a, P_IP4) *)
  ra_ip6 : bool;     (* isProtocolAddr(a, P_IP6) *)
  ra_quic : bool;    (* isQUICAddr *)
  ra_tcp : bool;     (* isProtocolAddr(a, P_TCP) *)
  ra_score : Z }.    (* score(a) *)

(* filterAddrs: in-place partition by swapping addrs[i] with addrs[j].
   m = addrs[:j] so far, u = addrs[j:i] so far *)
Fixpoint fa_loop (f : raddr -> bool) (l m u : list raddr) : list raddr * list raddr :=
  match l with
  | [] => (m, u)
  | x :: r =>
      if f x then fa_loop f r (m ++ [x]) (match u with [] => [] | h :: t => t ++ [h] end)
      else fa_loop f r m (u ++ [x])
  end.
Definition filter_addrs (f : raddr -> bool) (l : list raddr) := fa_loop f l [] [].

(* first index >= start whose element satisfies p *)
Fixpoint find_from (p : raddr -> bool) (start : nat) (l : list raddr) (i : nat) : option nat :=
  match l with
  | [] => None
  | x :: r => if Nat.leb start i && p x then Some i else find_from p start r (S i)
  end.

(* a := addrs[j]; copy(addrs[k+1:], addrs[k:j]); addrs[k] = a     (k <= j) *)
Definition move_to (j k : nat) (l : list raddr) : list raddr :=
  match nth_error l j with
  | Some a => firstn k l ++ [a] ++ firstn (j - k) (skipn k l) ++ skipn (S j) l
  | None => l
  end.

Record gstate := mkG { g_tcpFirst : Z; g_last : Z }.

Fixpoint delay_loop (tcpD quicD otherD offset : Z) (happyQ happyT : bool) (tcpStart : nat)
         (l : list raddr) (i : nat) (g : gstate) : list (raddr * Z) :=
  match l with
  | [] => []
  | a :: r =>
      if ra_quic a then
        let d := if Nat.eqb i 1 then quicD
                 else if Nat.ltb 1 i then (if happyQ then 2 * quicD else quicD) else 0 in
        (a, offset + d) :: delay_loop tcpD quicD otherD offset happyQ happyT tcpStart r (S i) (mkG (d + tcpD) d)
      else if ra_tcp a then
        let d0 := if Nat.eqb i (S tcpStart) then tcpD
                  else if Nat.ltb (S tcpStart) i then (if happyT then 2 * tcpD else tcpD) else 0 in
        let d := d0 + g_tcpFirst g in
        (a, offset + d) :: delay_loop tcpD quicD otherD offset happyQ happyT tcpStart r (S i) (mkG (g_tcpFirst g) d)
      else
        let d := g_last g + otherD in
        (a, offset + d) :: delay_loop tcpD quicD otherD offset happyQ happyT tcpStart r (S i) g
  end.

(* "If the first QUIC address is IPv6 move the first QUIC IPv4 address to second
   position": the reordered slice, happyEyeballsQUIC, and the index i from which
   the search for the first TCP address starts *)
Definition he_quic (s : list raddr) : list raddr * bool * nat :=
  match s with
  | [] => (s, false, O)
  | a0 :: _ =>
      if ra_quic a0 && ra_ip6 a0 then
        match find_from (fun x => ra_quic x && ra_ip4 x) 1 s 0 with
        | Some j => (move_to j 1 s, true, S j)
        | None => (s, false, O)
        end
      else (s, false, O)
  end.

(* "If the first TCP address is IPv6 move the first TCP IPv4 address to second position" *)
Definition he_tcp (s1 : list raddr) (tcpStart : nat) : list raddr * bool :=
  match nth_error s1 tcpStart with
  | Some t0 =>
      if ra_ip6 t0 then
        match find_from (fun x => ra_tcp x && ra_ip4 x) (S tcpStart) s1 0 with
        | Some j => (move_to j (S tcpStart) s1, true)
        | None => (s1, false)
        end
      else (s1, false)
  | None => (s1, false)
  end.

Section Ranker.
  Variable sortf : list raddr -> list raddr.

  Definition get_addr_delay (addrs : list raddr) (tcpD quicD otherD offset : Z) : list (raddr * Z) :=
    match sortf addrs with
    | [] => []
    | s =>
        let q := he_quic s in
        let s1 := fst (fst q) in
        let tcpStart := match find_from ra_tcp (snd q) s1 0 with Some k => k | None => length s1 end in
        let t := he_tcp s1 tcpStart in
        delay_loop tcpD quicD otherD offset (snd (fst q)) (snd t) tcpStart (fst t) 0 (mkG 0 0)
    end.

  Definition last_delay (l : list (raddr * Z)) : Z :=
    match rev l with [] => 0 | x :: _ => snd x end.

  Definition default_ranker (addrs : list raddr) : list (raddr * Z) :=
    let '(relay, r1) := filter_addrs ra_relay addrs in
    let '(pvt, r2) := filter_addrs ra_pvt r1 in
    let '(pub, r3) := filter_addrs (fun a => ra_ip4 a || ra_ip6 a) r2 in
    let relayOffset := match pub with [] => 0 | _ => RelayDelay end in
    let res := get_addr_delay pvt PrivateTCPDelay PrivateQUICDelay PrivateOtherDelay 0
               ++ get_addr_delay pub PublicTCPDelay PublicQUICDelay PublicOtherDelay 0
               ++ get_addr_delay relay PublicTCPDelay PublicQUICDelay PublicOtherDelay relayOffset in
    let maxDelay := match res with [] => 0 | _ => last_delay res end in
    res ++ map (fun a => (a, maxDelay + PublicOtherDelay)) r3.
End Ranker.

(* stable insertion sort by score: the toy instance that makes the model run *)
Fixpoint ins_score (x : raddr) (l : list raddr) : list raddr :=
  match l with
  | [] => [x]
  | y :: r => if ra_score x <=? ra_score y then x :: l else y :: ins_score x r
  end.
Definition sort_score (l : list raddr) : list raddr := fold_right ins_score [] l.

(* C05 — the DialPeer monitor on composite-model traces, clause 9 (every candidate address is
   attempted): invariants of the workers inside the composite. *)
From Coq Require Import List ZArith Bool Lia Relations Permutation.
From Verif Require Import lib.Wire c05.ModelLimiter c05.Proofs_Limiter c05.SpecLimiter c05.Proofs_LimiterMon c05.Proofs_LimiterOnce c05.Proofs_LimiterAll.
From Verif Require Import c05.ModelWorker c05.Proofs_Worker c05.Proofs_WorkerMon c05.Proofs_WorkerFly c05.Proofs_WorkerQ c05.ModelSync c05.Proofs_Sync c05.ModelComposite.
From Verif Require Import c05.Proofs_Composite c05.Proofs_Composite2 c05.Proofs_Composite3 c05.Proofs_Composite4 c05.Proofs_Composite5 c05.Proofs_Composite6.
From Verif Require Import c05.SpecWorker c05.SpecDialPeer c05.SpecComposite c05.Proofs_CompositeMon c05.Proofs_CompositeH.
From Verif Require Import c05.Proofs_CompositeMon2 c05.Proofs_CompositeJG c05.Proofs_CompositeHI c05.Proofs_CompositeMon4 c05.Proofs_CompositeQ c05.Proofs_CompositeMon6.
Import ListNotations.
Local Open Scope Z_scope.

Definition lab_b (l : clabel) : Prop :=
  match l with
  | CDeliver _ _ rk => rank_bounded rk
  | CRes _ r _ => match r with DRProgress _ _ => False | _ => True end
  | _ => True
  end.

(* ---- every worker: timer bound, in-flight list ---------------------------------------------------- *)
Record WQ (s : cst) : Prop := mkWQ { wq_t : forall g, WTK (wget g s); wq_f : forall g, FL (wget g s) }.

Lemma WQ_same : forall s s', WQ s -> c_w s' = c_w s -> WQ s'.
Proof. intros s s' [A B] E. constructor; intros g; unfold wget; rewrite E; [apply A | apply B]. Qed.

Lemma WQ_put : forall s s' g w', WQ s -> c_w s' = aput g w' (c_w s) -> WTK w' -> FL w' -> WQ s'.
Proof.
  intros s s' g w' [A B] E T F. constructor; intros g'; unfold wget; rewrite E, aget_aput; destruct (g =? g'); auto; [apply A | apply B].
Qed.

Lemma FL_init : FL init_w.
Proof. constructor; cbn; [intros x [] | constructor]. Qed.

Lemma winv_dials_nodup : forall s g, WInv s -> NoDup (w_dials (wget g s)).
Proof. intros s g W. destruct (w_all _ W g) as [[_ [_ S]] _]. apply (sC1 _ _ S). Qed.

Lemma cstep_WQ : forall s l, WInv (cstep s l) -> WQ s -> lab_b l -> WQ (cstep s l).
Proof.
  intros s l W' H Hl.
  assert (Put : forall g ev, c_w (cstep s l) = aput g (wstep (wget g s) ev) (c_w s) -> ev_b ev -> WQ (cstep s l)).
  { intros g ev E Hb. eapply WQ_put; [exact H | exact E | apply wstep_wtk; [apply (wq_t _ H) | exact Hb]|].
    apply wstep_FL; [apply (wq_f _ H)|]. pose proof (winv_dials_nodup _ g W') as N. unfold wget in N at 1. rewrite E, aget_aput, Z.eqb_refl in N. exact N. }
  revert W' Put. destruct l; cbn [cstep]; cbn [lab_b] in Hl; intros W' Put.
  - destruct (cget c s); [exact H|]. destruct best; [eapply WQ_same; [exact H|reflexivity]|].
    destruct (p_active _); cprj.
    + destruct (aget None p (c_gen s)); [eapply WQ_same; [exact H|reflexivity] | exact H].
    + eapply WQ_put with (g := c_next s) (w' := init_w); [exact H|reflexivity|apply WTK_init|apply FL_init].
  - destruct (cget c s) as [r|]; [|exact H]. destruct (cr_phase r); try exact H.
    apply (Put (cr_gen r) (WReq c (cr_sim r) (cr_fdir r) best rank)); [reflexivity | exact Hl].
  - destruct (g <? c_next s); [|exact H].
    match goal with |- context [fold_left ?f ?news ?s0] => destruct (add_jobs_frame g (aget 0 g (c_gpeer s)) news s0) as [_ [_ [_ [_ [_ [F _]]]]]] end.
    apply (Put g (WTimer bo bestl)); [rewrite F; reflexivity | exact I].
  - eapply WQ_same; [exact H|reflexivity].
  - destruct (jget n s) as [j|]; [|exact H]. destruct (_ && _); [|exact H].
    apply (Put (jr_gen j) (WRes (jr_addr j) r bestl)); [reflexivity | exact Hl].
  - destruct (jget n s) as [j|]; [|exact H]. destruct (jr_reported j); [eapply WQ_same; [exact H|reflexivity] | exact H].
  - destruct (cget c s) as [r|]; [|exact H]. destruct (cr_phase r); try exact H; (eapply WQ_same; [exact H|reflexivity]).
  - destruct (cget c s) as [r|]; [|exact H].
    assert (Lv : forall k, (forall g ev, c_w (do_leave s c r k) = aput g (wstep (wget g s) ev) (c_w s) -> ev_b ev -> WQ (do_leave s c r k)) ->
                 WQ (do_leave s c r k)).
    { intros k P. revert P. unfold do_leave. cprj. destruct (p_active _); cprj; intros P; [eapply WQ_same; [exact H|reflexivity]|].
      apply (P (cr_gen r) WClose); [reflexivity | exact I]. }
    destruct (cr_phase r); try exact H.
    + destruct (cr_canc r); [apply Lv, Put | exact H].
    + destruct (resp_of c _) as [[|]|]; try (apply Lv, Put). destruct (cr_canc r); [apply Lv, Put | exact H].
  - destruct (memz g (c_stale s)); [eapply WQ_same; [exact H|reflexivity] | exact H].
Qed.

(* ---- an address in flight has an unreported job ---------------------------------------------------- *)
Definition FJ (s : cst) : Prop :=
  forall g a, w_stopped (wget g s) = false -> In a (w_flying (wget g s)) ->
    exists n jr, jget n s = Some jr /\ jr_gen jr = g /\ jr_addr jr = a /\ jr_reported jr = false.

Lemma FJ_put : forall s s' g w', FJ s -> c_w s' = aput g w' (c_w s) -> c_jobs s' = c_jobs s ->
  (w_stopped w' = false -> forall a, In a (w_flying w') -> w_stopped (wget g s) = false /\ In a (w_flying (wget g s))) -> FJ s'.
Proof.
  intros s s' g w' H Ew Ej Hw g' a. unfold wget, jget. rewrite Ew, Ej, aget_aput. destruct (g =? g') eqn:E.
  - apply Z.eqb_eq in E. subst g'. intros St Ha. destruct (Hw St a Ha) as [X Y]. apply (H g a X Y).
  - apply H.
Qed.

Lemma FJ_same : forall s s', FJ s -> c_w s' = c_w s -> c_jobs s' = c_jobs s -> FJ s'.
Proof. intros s s' H Ew Ej g a. unfold wget, jget. rewrite Ew, Ej. apply H. Qed.

Lemma adds_new : forall g p news s a, In a news ->
  exists n, jget n (fold_left (add_addr_job g p) news s) = Some (mkJ g a false).
Proof.
  induction news as [|a0 r IH]; intros s a H; [destruct H|]. cbn [fold_left]. destruct H as [<-|H]; [|apply IH, H].
  exists (c_next s). rewrite adds_jrec by (unfold add_addr_job; cprj; lia). unfold add_addr_job, jget. cprj.
  rewrite aget_aput, Z.eqb_refl. reflexivity.
Qed.

Lemma skipn_all_nil : forall (A : Type) (l : list A), skipn (length l) l = [].
Proof. induction l; cbn; auto. Qed.

Lemma wres_flying : forall w a r bl, w_stopped w = false -> match r with DRProgress _ _ => False | _ => True end ->
  w_flying (wstep w (WRes a r bl)) = remove1 a (w_flying w).
Proof.
  intros w a r bl St Hr. destruct (tget a w) as [ad|] eqn:Et.
  - pose proof (wstep_df w (WRes a r bl) St) as D. cbn in D. destruct D as [_ D]; [congruence|]. rewrite D. destruct r; try reflexivity. destruct Hr.
  - unfold wstep, on_result. rewrite St, Et. reflexivity.
Qed.

Lemma cstep_FJ : forall s l, WInv s -> WQ s -> FJ s -> lab_b l -> FJ (cstep s l).
Proof.
  intros s l W Q H Hl. destruct l; cbn [cstep]; cbn [lab_b] in Hl.
  - destruct (cget c s); [exact H|]. destruct best; [eapply FJ_same; [exact H|reflexivity|reflexivity]|].
    destruct (p_active _); cprj.
    + destruct (aget None p (c_gen s)); [eapply FJ_same; [exact H|reflexivity|reflexivity] | exact H].
    + eapply FJ_put with (g := c_next s) (w' := init_w); [exact H|reflexivity|reflexivity|]. intros _ a [].
  - destruct (cget c s) as [r|]; [|exact H]. destruct (cr_phase r); try exact H.
    eapply FJ_put; [exact H|reflexivity|reflexivity|]. intros St a Ha.
    rewrite wstep_stopped_eq in St. apply orb_false_iff in St. destruct St as [St _].
    pose proof (wstep_df (wget (cr_gen r) s) (WReq c (cr_sim r) (cr_fdir r) best rank) St) as [_ D]. rewrite D in Ha. split; assumption.
  - destruct (g <? c_next s) eqn:Gl; [|exact H]. set (w := wget g s). set (w' := wstep w (WTimer bo bestl)).
    set (news := skipn (length (w_dials w)) (w_dials w')). set (p := aget 0 g (c_gpeer s)).
    destruct (add_jobs_frame g p news (wput g w' s)) as [_ [_ [_ [_ [_ [F _]]]]]]. cbv zeta in F.
    intros g' a St Ha. unfold wget in St, Ha. rewrite F in St, Ha. cprj. rewrite aget_aput in St, Ha.
    assert (Old : forall n jr, jget n s = Some jr -> jget n (fold_left (add_addr_job g p) news (wput g w' s)) = Some jr).
    { intros n jr Hj. rewrite adds_jrec; [exact Hj | cprj; apply (w_ids _ W n jr Hj)]. }
    destruct (g =? g') eqn:E.
    + apply Z.eqb_eq in E. subst g'. unfold w' in St. rewrite wstep_stopped_eq in St. apply orb_false_iff in St. destruct St as [St _].
      destruct (wstep_df w (WTimer bo bestl) St) as [l0 [D1 D2]]. fold w' in D1, D2.
      assert (En : news = l0) by (unfold news; rewrite D1; apply skipn_app_len).
      rewrite D2 in Ha. apply in_app_or in Ha. destruct Ha as [Ha|Ha].
      * destruct (H g a St Ha) as [n [jr [A B]]]. exists n, jr. split; [apply Old, A | exact B].
      * rewrite <- En in Ha. destruct (adds_new g p news (wput g w' s) a Ha) as [n Hn]. exists n, (mkJ g a false). repeat split. exact Hn.
    + destruct (H g' a St Ha) as [n [jr [A B]]]. exists n, jr. split; [apply Old, A | exact B].
  - eapply FJ_same; [exact H|reflexivity|reflexivity].
  - destruct (jget n s) as [j|] eqn:Ej; [|exact H]. destruct (_ && _); [|exact H].
    intros g a St Ha. unfold wget in St, Ha. cprj. rewrite aget_aput in St, Ha. unfold jget. cprj.
    assert (Oth : forall a', a' <> jr_addr j \/ g <> jr_gen j -> w_stopped (wget g s) = false -> In a' (w_flying (wget g s)) ->
       exists n0 jr, aget None n0 (aput n (Some (mkJ (jr_gen j) (jr_addr j) (is_final_res r))) (c_jobs s)) = Some jr /\
                     jr_gen jr = g /\ jr_addr jr = a' /\ jr_reported jr = false).
    { intros a' Hne St' Ha'. destruct (H g a' St' Ha') as [n0 [jr [A [B [C D]]]]]. exists n0, jr. rewrite aget_aput.
      destruct (n =? n0) eqn:E; [|repeat split; assumption]. apply Z.eqb_eq in E. subst n0. rewrite Ej in A. inversion A; subst.
      destruct Hne as [X|X]; congruence. }
    destruct (jr_gen j =? g) eqn:E.
    + apply Z.eqb_eq in E. subst g. rewrite wstep_stopped_eq in St. apply orb_false_iff in St. destruct St as [St _].
      rewrite (wres_flying _ _ _ _ St Hl) in Ha.
      destruct (remove1_nodup (jr_addr j) _ (fl_nd _ (wq_f _ Q (jr_gen j)))) as [_ Nin].
      apply Oth; [left; intros X; subst a; contradiction | exact St | apply (remove1_incl _ _ _ Ha)].
    + apply Oth; [right; intros X; subst g; rewrite Z.eqb_refl in E; discriminate | exact St | exact Ha].
  - destruct (jget n s) as [j|]; [|exact H]. destruct (jr_reported j); [eapply FJ_same; [exact H|reflexivity|reflexivity] | exact H].
  - destruct (cget c s) as [r|]; [|exact H]. destruct (cr_phase r); try exact H; (eapply FJ_same; [exact H|reflexivity|reflexivity]).
  - destruct (cget c s) as [r|]; [|exact H].
    assert (Lv : forall k, FJ (do_leave s c r k)).
    { intros k. unfold do_leave. cprj. destruct (p_active _); cprj; [eapply FJ_same; [exact H|reflexivity|reflexivity]|].
      eapply FJ_put; [exact H|reflexivity|reflexivity|]. intros St. rewrite wstep_stopped_eq in St. rewrite orb_true_r in St. discriminate. }
    destruct (cr_phase r); try exact H.
    + destruct (cr_canc r); [apply Lv | exact H].
    + destruct (resp_of c _) as [[|]|]; try apply Lv. destruct (cr_canc r); [apply Lv | exact H].
  - destruct (memz g (c_stale s)); [eapply FJ_same; [exact H|reflexivity|reflexivity] | exact H].
Qed.

(* C05 — the worker monitor of SpecWorker.v on the traces of the model: clauses
   1 (a request answered twice), 2 (an address handed to a transport twice) and
   4 (a request unanswered at quiescence) never fire. *)
From Coq Require Import List ZArith Bool Lia Permutation.
From Verif Require Import lib.Wire c05.ModelLimiter c05.Proofs_Limiter c05.ModelWorker c05.Proofs_Worker.
From Verif Require Import c05.SpecLimiter c05.SpecWorker.
Import ListNotations.
Local Open Scope Z_scope.

(* ---- responses and dials are only ever appended ------------------------------------ *)
Definition ext (s s' : wst) : Prop :=
  (exists l, w_resps s' = w_resps s ++ l) /\ (exists l, w_dials s' = w_dials s ++ l).

Lemma ext_refl : forall s, ext s s.
Proof. intros. split; exists []; rewrite app_nil_r; reflexivity. Qed.

Lemma ext_trans : forall a b c, ext a b -> ext b c -> ext a c.
Proof.
  intros a b c [[l1 E1] [k1 F1]] [[l2 E2] [k2 F2]]. split.
  - exists (l1 ++ l2). rewrite E2, E1, app_assoc. reflexivity.
  - exists (k1 ++ k2). rewrite F2, F1, app_assoc. reflexivity.
Qed.

Lemma ext_same : forall s s', w_resps s' = w_resps s -> w_dials s' = w_dials s -> ext s s'.
Proof. intros s s' A B. split; exists []; rewrite app_nil_r; assumption. Qed.

Lemma dispatch_error_ext : forall s a e bestl, ext s (dispatch_error s a e bestl).
Proof.
  intros. unfold dispatch_error.
  set (s1 := match tget a s with Some ad => tput a (ad_set_st ad DErr) s | None => s end).
  assert (E : w_resps s1 = w_resps s /\ w_dials s1 = w_dials s) by (unfold s1; destruct (tget a s); split; reflexivity).
  destruct E as [E1 E2]. destruct (disp_loop a bestl (w_pending s1)) as [keep out].
  split; [exists out | exists []]; destruct e; wprj; rewrite ?app_nil_r; congruence.
Qed.

Lemma batch_loop_ext : forall bo bestl batch s, ext s (batch_loop bo bestl batch s).
Proof.
  induction batch as [|[a d] r IH]; intros s; cbn [batch_loop]; [apply ext_refl|].
  eapply ext_trans; [|apply IH].
  destruct (tget a s) as [ad|]; [|apply ext_refl].
  destruct (negb (ad_fdir ad) && memz a bo).
  - eapply ext_trans; [|apply dispatch_error_ext]. apply ext_same; reflexivity.
  - split; [exists [] | exists [a]]; wprj; rewrite ?app_nil_r; reflexivity.
Qed.

Lemma loops_dials : forall sim fdir rk td tj s,
  w_dials (join_loop sim rk tj s) = w_dials s /\ w_dials (todial_loop sim fdir rk td s) = w_dials s.
Proof.
  intros. split.
  - revert s. induction tj as [|a r IH]; intros s; cbn [join_loop]; [reflexivity|]. rewrite IH.
    destruct (tget a s) as [ad|]; [|reflexivity].
    destruct (negb (ad_dialed ad) && sim && negb (ad_sim ad)); reflexivity.
  - revert s. induction td as [|a r IH]; intros s; cbn [todial_loop]; [reflexivity|]. rewrite IH. reflexivity.
Qed.

Lemma schedule_ext : forall s, ext s (schedule s).
Proof. intros. destruct (schedule_same s) as [_ [A [_ [_ [_ [B _]]]]]]. apply ext_same; assumption. Qed.

Lemma wstep_ext : forall s e, ext s (wstep s e).
Proof.
  intros s e. unfold wstep. destruct (w_stopped s); [apply ext_refl|].
  destruct e as [rid sim fdir best rank|bo bestl|a r bestl|].
  - unfold on_request. set (s0 := set_seen s (w_seen s ++ [rid])).
    assert (R : forall x, ext s (respond s0 rid x)).
    { intros x. split; [exists [(rid, x)] | exists []]; wprj; rewrite ?app_nil_r; reflexivity. }
    destruct best; [apply R|]. destruct rank as [rk|]; [|apply R].
    destruct (scan s0 rk [] [] []) as [|td tj ed]; [apply R|].
    assert (G : forall pr, ext s (schedule (todial_loop sim fdir rk td (join_loop sim rk tj
                  (set_pending s0 (w_pending s0 ++ [pr])))))).
    { intros pr. eapply ext_trans; [|apply schedule_ext]. apply ext_same.
      - destruct (todial_loop_same sim fdir rk td (join_loop sim rk tj (set_pending s0 (w_pending s0 ++ [pr])))) as [_ [E _]].
        rewrite E. destruct (join_loop_same sim rk tj (set_pending s0 (w_pending s0 ++ [pr]))) as [_ [E' _]].
        rewrite E'. reflexivity.
      - destruct (loops_dials sim fdir rk td tj (join_loop sim rk tj (set_pending s0 (w_pending s0 ++ [pr])))) as [_ E].
        rewrite E. destruct (loops_dials sim fdir rk td tj (set_pending s0 (w_pending s0 ++ [pr]))) as [E' _].
        rewrite E'. reflexivity. }
    destruct td; destruct tj; try apply G. apply R.
  - unfold on_timer. destruct (next_batch (w_dq s)) as [batch rest].
    eapply ext_trans; [|apply schedule_ext]. eapply ext_trans; [|apply batch_loop_ext]. apply ext_same; reflexivity.
  - unfold on_result. destruct (tget a s) as [ad|]; [|apply ext_same; reflexivity].
    destruct r as [addok|e|pub now].
    + destruct addok.
      * match goal with |- context [succ_loop a ?p] => destruct (succ_loop a p) as [keep out] end.
        split; [exists out | exists []]; wprj; rewrite ?app_nil_r; reflexivity.
      * eapply ext_trans; [|apply dispatch_error_ext]. apply ext_same; reflexivity.
    + eapply ext_trans; [|apply schedule_ext]. eapply ext_trans; [|apply dispatch_error_ext]. apply ext_same; reflexivity.
    + eapply ext_trans; [|apply schedule_ext]. destruct pub; apply ext_same; reflexivity.
  - apply ext_same; reflexivity.
Qed.

(* ---- the invariants along a harness-level step --------------------------------------- *)
Definition InvW (s : wst) : Prop := InvA s /\ InvL s [] /\ InvS s [].

Lemma wstep_invW : forall s e, InvW s -> (w_stopped s = false -> wf_ev s e) -> InvW (wstep s e).
Proof.
  intros s e [A [L S]] W. split; [|split]; [apply wstep_invA | apply wstep_invL | apply wstep_invS]; auto.
Qed.

Lemma wstep_stopped : forall s e, w_stopped s = true -> wstep s e = s.
Proof. intros s e H. unfold wstep. rewrite H. reflexivity. Qed.

Lemma wstep_seen : forall s e, w_stopped s = false ->
  w_seen (wstep s e) = match e with WReq rid _ _ _ _ => w_seen s ++ [rid] | _ => w_seen s end.
Proof.
  intros s e St. unfold wstep. rewrite St.
  destruct e as [rid sim fdir best rank|bo bestl|a r bestl|].
  - unfold on_request. destruct best; [reflexivity|]. destruct rank as [rk|]; [|reflexivity].
    destruct (scan _ rk [] [] []) as [|td tj ed]; [reflexivity|].
    assert (G : forall pr, w_seen (schedule (todial_loop sim fdir rk td (join_loop sim rk tj
                  (set_pending (set_seen s (w_seen s ++ [rid])) pr)))) = w_seen s ++ [rid]).
    { intros pr. match goal with |- w_seen (schedule ?x) = _ => destruct (schedule_same x) as [_ [_ [E _]]]; rewrite E end.
      match goal with |- w_seen (todial_loop _ _ _ _ ?x) = _ => destruct (todial_loop_same sim fdir rk td x) as [_ [_ E']]; rewrite E' end.
      match goal with |- w_seen (join_loop _ _ _ ?x) = _ => destruct (join_loop_same sim rk tj x) as [_ [_ E'']]; rewrite E'' end.
      reflexivity. }
    destruct td; destruct tj; try apply G. reflexivity.
  - unfold on_timer. destruct (next_batch (w_dq s)) as [batch rest].
    match goal with |- w_seen (schedule ?x) = _ => destruct (schedule_ids x) as [_ E]; rewrite E end.
    destruct (batch_loop_ids bo bestl batch (set_dq s rest)) as [_ E']. rewrite E'. reflexivity.
  - unfold on_result. destruct (tget a s) as [ad|]; [|reflexivity].
    destruct r as [addok|e|pub now].
    + destruct addok.
      * match goal with |- context [succ_loop a ?p] => destruct (succ_loop a p) as [keep out] end. reflexivity.
      * match goal with |- w_seen (dispatch_error ?x a EOther bestl) = _ =>
          destruct (dispatch_error_ids x a EOther bestl) as [_ E]; rewrite E end. reflexivity.
    + match goal with |- w_seen (schedule ?x) = _ => destruct (schedule_ids x) as [_ E]; rewrite E end.
      match goal with |- w_seen (dispatch_error ?x a e bestl) = _ =>
          destruct (dispatch_error_ids x a e bestl) as [_ E']; rewrite E' end. reflexivity.
    + match goal with |- w_seen (schedule ?x) = _ => destruct (schedule_ids x) as [_ E]; rewrite E end.
      destruct pub; reflexivity.
  - reflexivity.
Qed.

(* only the Close event stops the loop *)
Lemma dispatch_error_stopped : forall s a e bestl, w_stopped (dispatch_error s a e bestl) = w_stopped s.
Proof.
  intros. unfold dispatch_error. destruct (tget a s); destruct (disp_loop _ _ _); destruct e; reflexivity.
Qed.

Lemma batch_loop_stopped : forall bo bestl batch s, w_stopped (batch_loop bo bestl batch s) = w_stopped s.
Proof.
  induction batch as [|[a d] r IH]; intros s; cbn [batch_loop]; [reflexivity|]. rewrite IH.
  destruct (tget a s) as [ad|]; [|reflexivity].
  destruct (negb (ad_fdir ad) && memz a bo); [rewrite dispatch_error_stopped|]; reflexivity.
Qed.

Lemma schedule_stopped : forall s, w_stopped (schedule s) = w_stopped s.
Proof. intros. unfold schedule. destruct (w_dq s); [|destruct (_ && _)]; reflexivity. Qed.

Lemma loops_stopped : forall sim fdir rk td tj s,
  w_stopped (join_loop sim rk tj s) = w_stopped s /\ w_stopped (todial_loop sim fdir rk td s) = w_stopped s.
Proof.
  intros. split.
  - revert s. induction tj as [|a r IH]; intros s; cbn [join_loop]; [reflexivity|]. rewrite IH.
    destruct (tget a s) as [ad|]; [|reflexivity].
    destruct (negb (ad_dialed ad) && sim && negb (ad_sim ad)); reflexivity.
  - revert s. induction td as [|a r IH]; intros s; cbn [todial_loop]; [reflexivity|]. rewrite IH. reflexivity.
Qed.

Lemma wstep_stopped_eq : forall s e,
  w_stopped (wstep s e) = (w_stopped s || match e with WClose => true | _ => false end).
Proof.
  intros s e. unfold wstep. destruct (w_stopped s) eqn:St; [cbn [orb]; exact St|]. cbn [orb].
  destruct e as [rid sim fdir best rank|bo bestl|a r bestl|]; [| | |reflexivity].
  - unfold on_request. destruct best; [exact St|]. destruct rank as [rk|]; [|exact St].
    destruct (scan _ rk [] [] []) as [|td tj ed]; [exact St|].
    assert (G : forall pr, w_stopped (schedule (todial_loop sim fdir rk td (join_loop sim rk tj
                  (set_pending (set_seen s (w_seen s ++ [rid])) pr)))) = false).
    { intros pr. rewrite schedule_stopped.
      destruct (loops_stopped sim fdir rk td tj (join_loop sim rk tj (set_pending (set_seen s (w_seen s ++ [rid])) pr))) as [_ E].
      rewrite E.
      destruct (loops_stopped sim fdir rk td tj (set_pending (set_seen s (w_seen s ++ [rid])) pr)) as [E' _].
      rewrite E'. exact St. }
    destruct td; destruct tj; try apply G. exact St.
  - unfold on_timer. destruct (next_batch (w_dq s)) as [b r].
    rewrite schedule_stopped, batch_loop_stopped. exact St.
  - unfold on_result. destruct (tget a s) as [ad|]; [|exact St].
    destruct r as [addok|e|pub now].
    + destruct addok.
      * destruct (succ_loop a _) as [keep out]. exact St.
      * rewrite dispatch_error_stopped. exact St.
    + rewrite schedule_stopped, dispatch_error_stopped. exact St.
    + rewrite schedule_stopped. destruct pub; exact St.
Qed.

(* what is carried through the timer loops *)
Record Q (s0 s : wst) : Prop := mkQ {
  q_inv : InvW s; q_ext : ext s0 s; q_seen : w_seen s = w_seen s0;
  q_stop : w_stopped s = w_stopped s0 }.

Lemma Q_refl : forall s, InvW s -> Q s s.
Proof. intros. constructor; auto using ext_refl. Qed.

Lemma Q_timer : forall s0 s bo bl, Q s0 s -> Q s0 (wstep s (WTimer bo bl)).
Proof.
  intros s0 s bo bl [I E S T]. constructor.
  - apply wstep_invW; auto. intros _. exact Logic.I.
  - eapply ext_trans; [exact E | apply wstep_ext].
  - destruct (w_stopped s) eqn:St.
    + rewrite wstep_stopped by exact St. exact S.
    + rewrite wstep_seen by exact St. exact S.
  - rewrite wstep_stopped_eq, orb_false_r. exact T.
Qed.

Lemma settle_Q : forall f e s0 s, Q s0 s -> Q s0 (settle f e s).
Proof.
  induction f as [|f IH]; intros e s0 s H; cbn [settle]; [exact H|].
  destruct (w_stopped s); [exact H|]. destruct (w_timer s) as [t|]; [|exact H].
  destruct (t <=? e_now e); [|exact H]. apply IH, Q_timer, H.
Qed.

Lemma advance_Q : forall f e stop s0 s, Q s0 s -> Q s0 (snd (advance f e stop s)).
Proof.
  induction f as [|f IH]; intros e stop s0 s H; cbn [advance]; [exact H|].
  destruct (w_timer s) as [t|]; [|exact H].
  destruct (negb (w_stopped s) && (t <=? stop)); [|exact H]. apply IH, Q_timer, H.
Qed.

(* well-formed stimuli: fresh request ids, rankings without repetition, a dial
   update only for an address whose dial is in flight *)
Definition wf_stim (s : wst) (x : wstim) : Prop :=
  match x with
  | TReq rid _ _ rank => ~ In rid (w_seen s) /\
                         match rank with Some rk => NoDup (map fst rk) | None => True end
  | TRes a _ _ => In a (w_flying s)
  | _ => True
  end.

Fixpoint wf_stims (es : wenv * wst) (xs : list wstim) : Prop :=
  match xs with
  | [] => True
  | x :: r => wf_stim (snd es) x /\ wf_stims (wstim_step es x) r
  end.

Lemma res_of_not_backoff : forall k f n, res_of k f n <> DRFail EBackoff.
Proof.
  intros. unfold res_of. destruct (k =? 1); [discriminate|]. destruct (k =? 4); [discriminate|].
  destruct (k =? 2); [discriminate|]. destruct (k =? 3); discriminate.
Qed.

(* the state reached by one harness-level step *)
Record StepQ (s s' : wst) (x : wstim) : Prop := mkStepQ {
  sq_inv : InvW s';
  sq_ext : ext s s';
  sq_seen : w_seen s' = if w_stopped s then w_seen s
                        else match x with TReq rid _ _ _ => w_seen s ++ [rid] | _ => w_seen s end;
  sq_stop : w_stopped s' = (w_stopped s || match x with TClose => true | _ => false end) }.

Lemma event_StepQ : forall s ev x, InvW s -> (w_stopped s = false -> wf_ev s ev) ->
  (match ev, x with
   | WReq rid _ _ _ _, TReq rid' _ _ _ => rid = rid'
   | WRes _ _ _, TRes _ _ _ => True
   | WClose, TClose => True
   | _, _ => False end) ->
  StepQ s (wstep s ev) x.
Proof.
  intros s ev x I W M. constructor.
  - apply wstep_invW; auto.
  - apply wstep_ext.
  - destruct (w_stopped s) eqn:St; [rewrite wstep_stopped by exact St; reflexivity|].
    rewrite wstep_seen by exact St.
    destruct ev; destruct x; try contradiction; try reflexivity. subst. reflexivity.
  - rewrite wstep_stopped_eq. destruct ev; destruct x; try contradiction; reflexivity.
Qed.

Lemma StepQ_then_Q : forall s s1 s2 x, StepQ s s1 x -> Q s1 s2 -> StepQ s s2 x.
Proof.
  intros s s1 s2 x [I E S T] [I2 E2 S2 T2]. constructor; auto.
  - eapply ext_trans; eauto.
  - congruence.
  - congruence.
Qed.

Lemma wstim_step_StepQ : forall e s x, InvW s -> wf_stim s x ->
  StepQ s (snd (wstim_step (e, s) x)) x.
Proof.
  intros e s x I W. cbn [wstim_step].
  destruct x as [rid sim fdir rank|d|a kind flag|a| |dr]; cbn [wf_stim] in W.
  - cbn [snd]. eapply StepQ_then_Q; [|apply settle_Q, Q_refl].
    + apply event_StepQ; auto; try (intros _; exact W).
    + apply wstep_invW; auto; try (intros _; exact W).
  - destruct (advance (settle_fuel s) e (e_now e + d) s) as [e1 s1] eqn:Ea.
    pose proof (advance_Q (settle_fuel s) e (e_now e + d) s s (Q_refl s I)) as Q1. rewrite Ea in Q1. cbn [snd] in *.
    pose proof (settle_Q (settle_fuel s1) e1 s s1 Q1) as [I2 E2 S2 T2].
    constructor; auto.
    + rewrite S2. destruct (w_stopped s); reflexivity.
    + rewrite T2, orb_false_r. reflexivity.
  - cbn [snd].
    assert (Wev : w_stopped s = false -> wf_ev s (WRes a (res_of kind flag (e_now e)) (bestl_of e s))).
    { intros _. split; [exact W | apply res_of_not_backoff]. }
    eapply StepQ_then_Q; [|apply settle_Q, Q_refl].
    + apply event_StepQ; auto.
    + apply wstep_invW; auto.
  - cbn [snd]. pose proof (settle_Q (settle_fuel s)
       (mkEnv (e_now e) (a :: e_backoff e) (e_conn e) (e_direct e) (e_fdirs e)) s s (Q_refl s I)) as [I2 E2 S2 T2].
    constructor; auto.
    + rewrite S2. destruct (w_stopped s); reflexivity.
    + rewrite T2, orb_false_r. reflexivity.
  - cbn [snd]. eapply StepQ_then_Q; [|apply settle_Q, Q_refl].
    + apply event_StepQ; auto; try (intros _; exact Logic.I).
    + apply wstep_invW; auto; try (intros _; exact Logic.I).
  - cbn [snd]. pose proof (settle_Q (settle_fuel s)
       (mkEnv (e_now e) [] true (e_direct e || dr) (e_fdirs e)) s s (Q_refl s I)) as [I2 E2 S2 T2].
    constructor; auto.
    + rewrite S2. destruct (w_stopped s); reflexivity.
    + rewrite T2, orb_false_r. reflexivity.
Qed.

(* ---- sorting does not change what is listed ---------------------------------------------- *)
Lemma ins_pair_perm : forall x l, Permutation (ins_pair x l) (x :: l).
Proof.
  induction l as [|y r IH]; cbn [ins_pair]; [apply Permutation_refl|].
  destruct (fst x <=? fst y); [apply Permutation_refl|].
  eapply Permutation_trans; [apply perm_skip, IH | apply perm_swap].
Qed.
Lemma sort_pairs_perm : forall l, Permutation (sort_pairs l) l.
Proof.
  induction l as [|x r IH]; cbn [sort_pairs fold_right]; [constructor|].
  eapply Permutation_trans; [apply ins_pair_perm | apply perm_skip, IH].
Qed.
Lemma ins_z_perm : forall x l, Permutation (ins_z x l) (x :: l).
Proof.
  induction l as [|y r IH]; cbn [ins_z]; [apply Permutation_refl|].
  destruct (x <=? y); [apply Permutation_refl|].
  eapply Permutation_trans; [apply perm_skip, IH | apply perm_swap].
Qed.
Lemma sort_z_perm : forall l, Permutation (sort_z l) l.
Proof.
  induction l as [|x r IH]; cbn [sort_z fold_right]; [constructor|].
  eapply Permutation_trans; [apply ins_z_perm | apply perm_skip, IH].
Qed.

Lemma nodup_z_true : forall l, NoDup l -> nodup_z l = true.
Proof.
  induction l as [|x r IH]; intros N; cbn [nodup_z]; [reflexivity|]. inversion N; subst.
  rewrite IH by assumption. rewrite andb_true_r. apply negb_true_iff.
  destruct (mem_z x r) eqn:E; [|reflexivity]. exfalso. unfold mem_z in E. apply existsb_exists in E.
  destruct E as [y [Hy Ey]]. apply Z.eqb_eq in Ey. subst. contradiction.
Qed.

Lemma skipn_app_len : forall (A : Type) (l k : list A), skipn (length l) (l ++ k) = k.
Proof. induction l; intros; cbn; auto. Qed.

(* ---- coupling of the monitor's bookkeeping with the model ------------------------------- *)
Record CW (s : wst) (m : wmon) : Prop := mkCW {
  c_ans : Permutation (wm_answered m) (map fst (w_resps s));
  c_dial : Permutation (wm_dialed m) (w_dials s);
  c_reqs : wm_closed m = false -> forall r, In r (wm_reqs m) -> In (fst r) (w_seen s);
  c_stop : w_stopped s = true -> wm_closed m = true }.

Lemma aget_in : forall (V : Type) a (m : list (Z * option V)) v, aget None a m = Some v -> In (a, Some v) m.
Proof.
  induction m as [|[k w] m IH]; intros v H; cbn [aget] in H; [discriminate|].
  destruct (k =? a) eqn:E.
  - apply Z.eqb_eq in E. subst. left. reflexivity.
  - right. apply IH, H.
Qed.

Lemma quiet_state : forall s0 s, InvW s -> ob_quiet (wobs_of s0 s) = true -> w_dq s = [] /\ w_inflight s = 0.
Proof.
  intros s0 s [_ [L S]] H. unfold wobs_of in H. cbn [ob_quiet] in H. apply andb_true_iff in H.
  destruct H as [H1 H2]. apply negb_true_iff in H1. split.
  - destruct (w_dq s) as [|[a d] r] eqn:E; [reflexivity|]. exfalso.
    destruct S as [_ B2 _ _]. destruct (B2 a) as [ad [G1 G2]]; [cbn [app]; rewrite E; left; reflexivity|].
    unfold tget in G1. apply aget_in in G1.
    assert (X : undialed s = true).
    { unfold undialed. apply existsb_exists. exists (a, Some ad). split; [exact G1|]. cbn [snd]. rewrite G2. reflexivity. }
    congruence.
  - destruct L as [_ _ F]. rewrite F. destruct (w_flying s); [reflexivity | discriminate].
Qed.

Lemma answered_at_quiet : forall s, InvW s -> w_dq s = [] -> w_inflight s = 0 ->
  forall rid, In rid (w_seen s) -> In rid (map fst (w_resps s)).
Proof.
  intros s [[_ _ J] [[D E F] _]] Hq Hi rid H.
  assert (Hp : w_pending s = []).
  { destruct (w_pending s) as [|pr rest] eqn:Ep; [reflexivity|]. exfalso.
    destruct (D pr (or_introl eq_refl)) as [N X].
    destruct (pr_addrs pr) as [|a l] eqn:Ea; [congruence|].
    destruct (X a (or_introl eq_refl)) as [ad [G1 G2]].
    destruct (E a ad G1 G2) as [E1 E2]. rewrite Hq in E1. cbn in E1.
    destruct (ad_dialed ad).
    - specialize (E2 eq_refl). rewrite Hi in F. destruct (w_flying s); [destruct E2 | cbn [length] in F; lia].
    - apply E1. reflexivity. }
  apply J in H. unfold ids in H. rewrite Hp in H. exact H.
Qed.

(* one step of the monitor on one step of the model: clauses 1, 2 and 4 hold *)
Lemma step_CW : forall e s m x, InvW s -> CW s m -> wf_stim s x ->
  let es' := wstim_step (e, s) x in
  let o := wobs_of s (snd es') in
  let cm := wmon_check (wmon_stim m x) o in
  InvW (snd es') /\ CW (snd es') (snd cm) /\ (fst cm = 0 \/ fst cm = 3 \/ fst cm = 5).
Proof.
  intros e s m x I [Ca Cd Cr Cs] W es' o cm.
  destruct (wstim_step_StepQ e s x I W) as [I' [[lr Er] [ld Ed]] S' T']. fold es' in I', Er, Ed, S', T'.
  set (s' := snd es') in *.
  set (m0 := wmon_stim m x).
  assert (A0 : wm_answered m0 = wm_answered m /\ wm_dialed m0 = wm_dialed m).
  { unfold m0. destruct x; cbn [wmon_stim]; try (split; reflexivity).
    destruct (kind =? 1); [split; reflexivity|]. destruct (kind =? 3); split; reflexivity. }
  destruct A0 as [A0 D0].
  (* what the observation lists *)
  assert (Pr : Permutation (map fst (ob_resps o) ++ wm_answered m0) (map fst (w_resps s'))).
  { unfold o, wobs_of. cbn [ob_resps]. rewrite Er, skipn_app_len, A0, map_app.
    eapply Permutation_trans; [apply Permutation_app_comm|]. apply Permutation_app; [exact Ca|].
    eapply Permutation_trans; [apply Permutation_map, sort_pairs_perm|]. rewrite map_map. cbn [fst]. apply Permutation_refl. }
  assert (Pd : Permutation (ob_dials o ++ wm_dialed m0) (w_dials s')).
  { unfold o, wobs_of. cbn [ob_dials]. rewrite Ed, skipn_app_len, D0.
    eapply Permutation_trans; [apply Permutation_app_comm|]. apply Permutation_app; [exact Cd | apply sort_z_perm]. }
  destruct I' as [A' [L' S2']].
  assert (N1 : nodup_z (map fst (ob_resps o) ++ wm_answered m0) = true).
  { apply nodup_z_true. eapply Permutation_NoDup; [apply Permutation_sym, Pr|].
    destruct A' as [N _ _]. unfold ids in N. eapply NoDup_app_r; eauto. }
  assert (N2 : nodup_z (ob_dials o ++ wm_dialed m0) = true).
  { apply nodup_z_true. eapply Permutation_NoDup; [apply Permutation_sym, Pd|]. destruct S2'. assumption. }
  (* the requests the monitor knows are the requests the worker has seen *)
  assert (Cl : wm_closed m0 = (wm_closed m || match x with TClose => true | _ => false end)).
  { unfold m0. destruct x; cbn [wmon_stim wm_closed]; rewrite ?orb_false_r; try reflexivity.
    - destruct (kind =? 1); [cbn [wm_closed]; rewrite ?orb_false_r; reflexivity|].
      destruct (kind =? 3); cbn [wm_closed]; rewrite ?orb_false_r; reflexivity.
    - rewrite ?orb_true_r. reflexivity. }
  assert (Cr' : wm_closed m0 = false -> forall r, In r (wm_reqs m0) -> In (fst r) (w_seen s')).
  { intros Hc r Hr. rewrite Cl in Hc. apply orb_false_iff in Hc. destruct Hc as [Hc1 Hc2].
    assert (St : w_stopped s = false).
    { destruct (w_stopped s) eqn:X; [|reflexivity]. rewrite (Cs eq_refl) in Hc1. discriminate. }
    rewrite S', St. unfold m0 in Hr. destruct x; cbn [wmon_stim wm_reqs] in Hr;
      try (apply (Cr Hc1 r Hr)).
    - destruct Hr as [Hr|Hr]; [subst r; cbn [fst]; apply in_or_app; right; left; reflexivity|].
      apply in_or_app. left. apply (Cr Hc1 r Hr).
    - destruct (kind =? 1); [apply (Cr Hc1 r Hr)|]. destruct (kind =? 3); apply (Cr Hc1 r Hr). }
  split; [split; [|split]; assumption|].
  unfold cm, wmon_check. fold m0. rewrite N1, N2. cbn [negb].
  set (m1 := mkWmon (wm_reqs m0) (map fst (ob_resps o) ++ wm_answered m0) (ob_dials o ++ wm_dialed m0)
                    (wm_failed m0) (wm_boever m0) (wm_succ m0) (wm_conn m0) (wm_direct m0) (wm_closed m0)).
  assert (C1 : CW s' m1).
  { constructor; unfold m1; cbn [wm_answered wm_dialed wm_closed wm_reqs]; auto.
    intros St. rewrite Cl. rewrite T' in St. apply orb_true_iff in St. destruct St as [St|St].
    - rewrite (Cs St). reflexivity.
    - rewrite St. apply orb_true_r. }
  destruct (negb (forallb (fun r => resp_justified m0 (fst r) (snd r)) (ob_resps o))); [split; [exact C1|]; right; left; reflexivity|].
  (* clause 4 *)
  assert (F4 : ob_quiet o && negb (wm_closed m0) &&
               negb (forallb (fun r => memz (fst r) (wm_answered m1)) (wm_reqs m0)) = false).
  { destruct (ob_quiet o) eqn:Qo; [|reflexivity]. destruct (wm_closed m0) eqn:Hc; [reflexivity|].
    cbn [negb andb]. apply negb_false_iff. apply forallb_forall. intros r Hr.
    apply memz_In. unfold m1. cbn [wm_answered].
    eapply Permutation_in; [apply Permutation_sym, Pr|].
    destruct (quiet_state s s' (conj A' (conj L' S2')) Qo) as [Q1 Q2].
    apply (answered_at_quiet s' (conj A' (conj L' S2')) Q1 Q2). apply (Cr' eq_refl r Hr). }
  rewrite F4.
  match goal with |- context [if ?c then (5, m1) else (0, m1)] => destruct c end;
    (split; [exact C1|]); [right; right | left]; reflexivity.
Qed.

Lemma monitor_w_model : forall xs e s m i, InvW s -> CW s m -> wf_stims (e, s) xs ->
  forall d, monitor_w m i (wtrace (e, s) xs) = d ->
  d = [] \/ exists j c, d = [ERR_PROPERTY; j; c] /\ (c = 3 \/ c = 5).
Proof.
  induction xs as [|x xs IH]; intros e s m i I C W d H; cbn [wtrace monitor_w] in H.
  - left. congruence.
  - destruct W as [W1 W2]. cbn [snd] in W1.
    destruct (step_CW e s m x I C W1) as [I' [C' K]]. cbv zeta in *.
    destruct (wstim_step (e, s) x) as [e' s'] eqn:Es. cbn [snd] in *.
    destruct (wmon_check (wmon_stim m x) (wobs_of s s')) as [c m1] eqn:Ec. cbn [fst snd] in *.
    destruct K as [K|[K|K]]; subst c; cbn [Z.eqb] in H.
    + eapply IH; eauto.
    + right. exists i, 3. split; [congruence | left; reflexivity].
    + right. exists i, 5. split; [congruence | right; reflexivity].
Qed.

Lemma init_invW : InvW init_w.
Proof. split; [|split]; [apply init_invA | apply init_invL | apply init_invS]. Qed.

Lemma monitor_w_holds_partial_l : forall xs, wf_stims (init_env, init_w) xs ->
  forall d, monitor_w wmon0 0 (wtrace (init_env, init_w) xs) = d ->
  d = [] \/ exists j c, d = [ERR_PROPERTY; j; c] /\ (c = 3 \/ c = 5).
Proof.
  intros xs W. apply monitor_w_model; auto using init_invW.
  constructor; cbn; auto; try discriminate; try (intros _ r []).
Qed.

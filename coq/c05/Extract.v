(* Extraction of the executable models + monitors for the correspondence driver.
   Only ExtrOcamlBasic: positive/N/Z/nat stay inductive types. *)
From Coq Require Import Extraction ExtrOcamlBasic.
From Verif Require Import c05.Spec.
Extraction Language OCaml.
Extraction "extract/c05_model.ml" conform_case monitor_case.

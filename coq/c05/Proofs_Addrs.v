(* C05 — addrsForDial hands every address to the worker once, whatever the peerstore holds and
   whatever the names resolve to. *)
From Coq Require Import List ZArith Bool Lia.
From Verif Require Import c05.ModelLimiter c05.ModelWorker c05.Proofs_Worker c05.ModelAddrs.
Import ListNotations.
Local Open Scope Z_scope.

Lemma nodupz_nodup : forall l, NoDup (nodupz l).
Proof.
  induction l as [|x l IH]; cbn [nodupz]; [constructor|]. destruct (memz x l) eqn:E; [exact IH|].
  constructor; [|exact IH]. intros H. apply (proj1 (nodupz_In _ _)) in H. apply (proj2 (memz_In _ _)) in H. congruence.
Qed.

Lemma addrs_for_dial_nodup_l : forall keep es, NoDup (addrs_for_dial keep es).
Proof. intros. unfold addrs_for_dial. apply NoDup_filter, nodupz_nodup. Qed.

Lemma addrs_for_dial_sound_l : forall keep es a, In a (addrs_for_dial keep es) ->
  exists e b, In e es /\ In (a, b) e.
Proof.
  intros keep es a H. unfold addrs_for_dial in H. apply filter_In in H. destruct H as [H _].
  apply (proj1 (nodupz_In _ _)) in H. unfold strip_p2p in H. apply in_map_iff in H. destruct H as [[a' b] [E H]]. cbn in E. subst a'.
  unfold resolve_all in H. apply in_flat_map in H. destruct H as [e [H1 H2]]. exists e, b. split; assumption.
Qed.

Lemma addrs_for_dial_complete_l : forall keep es e a b, In e es -> In (a, b) e ->
  keep (nodupz (strip_p2p (resolve_all es))) a = true -> In a (addrs_for_dial keep es).
Proof.
  intros keep es e a b H1 H2 Hk. unfold addrs_for_dial. apply filter_In. split; [|exact Hk].
  apply nodupz_In. unfold strip_p2p. apply in_map_iff. exists (a, b). split; [reflexivity|].
  unfold resolve_all. apply in_flat_map. exists e. split; assumption.
Qed.

(* ---- the filters ------------------------------------------------------------------------------- *)
From Verif Require Import lib.Wire c05.SpecLimiter c05.SpecWorker c05.SpecAddrs.

Section PipelineProofs.
  Variable info : Z -> ainfo.

  Lemma dominated_spec : forall u a,
    dominated info (filter (fun b => ai_tpt (info b)) (nodupz u)) a =
    (let pc := preferred_cls (ai_cls (info a)) in
     negb (pc =? 0) && negb (ai_grp (info a) =? 0) &&
     existsb (fun b => ai_tpt (info b) && (ai_cls (info b) =? pc) && (ai_grp (info b) =? ai_grp (info a))) u).
  Proof.
    intros u a. unfold dominated. cbv zeta. f_equal.
    match goal with |- ?x = ?y => destruct x eqn:E1; destruct y eqn:E2; try reflexivity; exfalso end.
    - apply existsb_exists in E1. destruct E1 as [b [Hb Hc]]. apply filter_In in Hb. destruct Hb as [Hb Ht].
      apply (proj1 (nodupz_In _ _)) in Hb.
      assert (X : existsb (fun b => ai_tpt (info b) && (ai_cls (info b) =? preferred_cls (ai_cls (info a))) && (ai_grp (info b) =? ai_grp (info a))) u = true).
      { apply existsb_exists. exists b. split; [exact Hb|]. rewrite Ht. exact Hc. }
      congruence.
    - apply existsb_exists in E2. destruct E2 as [b [Hb Hc]]. apply andb_true_iff in Hc. destruct Hc as [Hc Hg].
      apply andb_true_iff in Hc. destruct Hc as [Ht Hc].
      assert (X : existsb (fun b => (ai_cls (info b) =? preferred_cls (ai_cls (info a))) && (ai_grp (info b) =? ai_grp (info a)))
                    (filter (fun b => ai_tpt (info b)) (nodupz u)) = true).
      { apply existsb_exists. exists b. split; [apply filter_In; split; [apply nodupz_In, Hb | exact Ht] | rewrite Hc, Hg; reflexivity]. }
      congruence.
  Qed.

  Lemma pipeline_spec_l : forall fdir es a,
    In a (fst (addrs_pipeline info fdir es)) <-> should_dial info fdir (strip_p2p (resolve_all es)) a = true.
  Proof.
    intros fdir es a. unfold addrs_pipeline, known_undialables, should_dial. cbn [fst]. set (u := strip_p2p (resolve_all es)).
    rewrite <- dominated_spec.
    assert (Core : In a (filter (fun a0 => negb (ai_unspec (info a0)))
                     (filter (fun a0 => negb (dominated info (filter (fun b => ai_tpt (info b)) (nodupz u)) a0))
                        (filter (fun b => ai_tpt (info b)) (nodupz u)))) <->
                   memz a u && ai_tpt (info a) && negb (ai_unspec (info a)) &&
                   negb (dominated info (filter (fun b => ai_tpt (info b)) (nodupz u)) a) = true).
    { rewrite !filter_In, nodupz_In, <- memz_In. rewrite !andb_true_iff. tauto. }
    destruct fdir; cbn [andb].
    - rewrite filter_In, Core. rewrite !andb_true_iff. tauto.
    - rewrite Core. rewrite !andb_true_iff. cbn [negb]. tauto.
  Qed.

  Lemma pipeline_nodup_l : forall fdir es, NoDup (fst (addrs_pipeline info fdir es)) /\ NoDup (snd (addrs_pipeline info fdir es)).
  Proof.
    intros. unfold addrs_pipeline, known_undialables. cbn [fst snd]. split; [|apply NoDup_filter, nodupz_nodup].
    destruct fdir; repeat apply NoDup_filter; apply nodupz_nodup.
  Qed.

  Lemma pipeline_errs_l : forall fdir es a,
    In a (snd (addrs_pipeline info fdir es)) <-> In a (strip_p2p (resolve_all es)) /\ ai_tpt (info a) = false.
  Proof.
    intros. unfold addrs_pipeline, known_undialables. cbn [snd]. rewrite filter_In, nodupz_In, negb_true_iff. tauto.
  Qed.
End PipelineProofs.

(* C05 — addrsForDial hands every address to the worker once, whatever the peerstore holds and
   whatever the names resolve to. *)
From Coq Require Import List ZArith Bool Lia.
From Verif Require Import c05.ModelLimiter c05.ModelWorker c05.Proofs_Worker c05.ModelAddrs.
Import ListNotations.
Local Open Scope Z_scope.

Lemma nodupz_nodup : forall l, NoDup (nodupz l).
Proof.
  induction l as [|x l IH]; cbn [nodupz]; [constructor|]. destruct (memz x l) eqn:E; [exact IH|].
  constructor; [|exact IH]. intros H. apply (proj1 (nodupz_In _ _)) in H. apply (proj2 (memz_In _ _)) in H. congruence.
Qed.

Lemma addrs_for_dial_nodup_l : forall keep es, NoDup (addrs_for_dial keep es).
Proof. intros. unfold addrs_for_dial. apply NoDup_filter, nodupz_nodup. Qed.

Lemma addrs_for_dial_sound_l : forall keep es a, In a (addrs_for_dial keep es) ->
  exists e b, In e es /\ In (a, b) e.
Proof.
  intros keep es a H. unfold addrs_for_dial in H. apply filter_In in H. destruct H as [H _].
  apply (proj1 (nodupz_In _ _)) in H. unfold strip_p2p in H. apply in_map_iff in H. destruct H as [[a' b] [E H]]. cbn in E. subst a'.
  unfold resolve_all in H. apply in_flat_map in H. destruct H as [e [H1 H2]]. exists e, b. split; assumption.
Qed.

Lemma addrs_for_dial_complete_l : forall keep es e a b, In e es -> In (a, b) e ->
  keep (nodupz (strip_p2p (resolve_all es))) a = true -> In a (addrs_for_dial keep es).
Proof.
  intros keep es e a b H1 H2 Hk. unfold addrs_for_dial. apply filter_In. split; [|exact Hk].
  apply nodupz_In. unfold strip_p2p. apply in_map_iff. exists (a, b). split; [reflexivity|].
  unfold resolve_all. apply in_flat_map. exists e. split; assumption.
Qed.

(* C05 — DefaultDialRanker returns each input address exactly once, with
   non-negative delays. *)
From Coq Require Import List ZArith Bool Lia Permutation Arith.
From Verif Require Import c05.ModelRanker gen.Consts_c05.
Import ListNotations.
Local Open Scope Z_scope.

Lemma swap_ends : forall (x h : raddr) t r, Permutation (x :: t ++ h :: r) (h :: t ++ x :: r).
Proof.
  intros. eapply Permutation_trans; [apply perm_skip, Permutation_sym, Permutation_middle|].
  eapply Permutation_trans; [apply perm_swap|]. apply perm_skip, Permutation_middle.
Qed.

Lemma fa_loop_perm : forall f l m u m' u', fa_loop f l m u = (m', u') ->
  Permutation (m' ++ u') (m ++ u ++ l).
Proof.
  induction l as [|x r IH]; intros m u m' u' H; cbn [fa_loop] in H.
  - inversion H; subst. rewrite app_nil_r. apply Permutation_refl.
  - destruct (f x).
    + apply IH in H. eapply Permutation_trans; [exact H|].
      destruct u as [|h t]; rewrite <- ?app_assoc; cbn [app]; apply Permutation_app_head.
      * apply Permutation_refl.
      * apply swap_ends.
    + apply IH in H. eapply Permutation_trans; [exact H|].
      apply Permutation_app_head. rewrite <- app_assoc. apply Permutation_refl.
Qed.

Lemma filter_addrs_perm : forall f l m u, filter_addrs f l = (m, u) -> Permutation (m ++ u) l.
Proof. intros f l m u H. apply fa_loop_perm in H. exact H. Qed.

Lemma find_from_ge : forall p start l i j, find_from p start l i = Some j -> (start <= j)%nat.
Proof.
  induction l as [|x r IH]; intros i j H; cbn [find_from] in H; [discriminate|].
  destruct (Nat.leb start i && p x) eqn:E.
  - inversion H; subst. apply andb_true_iff in E. destruct E as [E _]. apply Nat.leb_le in E. exact E.
  - eapply IH; eauto.
Qed.

Lemma split_nth : forall j (l : list raddr) a, nth_error l j = Some a ->
  l = firstn j l ++ a :: skipn (S j) l.
Proof.
  induction j as [|j IH]; intros l a H; destruct l as [|x l]; cbn in *; try discriminate.
  - inversion H; subst. reflexivity.
  - f_equal. apply IH, H.
Qed.

Lemma split_at : forall k j (l : list raddr) a, (k <= j)%nat -> nth_error l j = Some a ->
  l = firstn k l ++ firstn (j - k) (skipn k l) ++ a :: skipn (S j) l.
Proof.
  induction k as [|k IH]; intros j l a Hk H.
  - cbn [firstn skipn app]. rewrite Nat.sub_0_r. apply split_nth, H.
  - destruct j as [|j]; [lia|]. destruct l as [|x l]; [cbn in H; discriminate|].
    cbn [firstn skipn app nth_error] in *. f_equal.
    replace (S j - S k)%nat with (j - k)%nat by lia. apply IH; [lia | exact H].
Qed.

Lemma move_to_perm : forall j k l, (k <= j)%nat -> Permutation (move_to j k l) l.
Proof.
  intros j k l Hk. unfold move_to. destruct (nth_error l j) as [a|] eqn:En; [|apply Permutation_refl].
  rewrite (split_at k j l a Hk En) at 4. apply Permutation_app_head. cbn [app].
  apply Permutation_middle.
Qed.

Lemma delay_loop_fst : forall tcpD quicD otherD offset hq ht ts l i g,
  map fst (delay_loop tcpD quicD otherD offset hq ht ts l i g) = l.
Proof.
  induction l as [|a r IH]; intros i g; cbn [delay_loop]; [reflexivity|].
  destruct (ra_quic a); [|destruct (ra_tcp a)]; cbn [map fst]; rewrite IH; reflexivity.
Qed.

Lemma delay_loop_nonneg : forall tcpD quicD otherD offset hq ht ts,
  0 <= tcpD -> 0 <= quicD -> 0 <= otherD -> 0 <= offset ->
  forall l i g, 0 <= g_tcpFirst g -> 0 <= g_last g ->
  Forall (fun e => 0 <= snd e) (delay_loop tcpD quicD otherD offset hq ht ts l i g).
Proof.
  intros tcpD quicD otherD offset hq ht ts H1 H2 H3 H4.
  induction l as [|a r IH]; intros i g G1 G2; cbn [delay_loop]; [constructor|].
  destruct (ra_quic a).
  - set (d := if Nat.eqb i 1 then quicD else if Nat.ltb 1 i then (if hq then 2 * quicD else quicD) else 0).
    assert (Hd : 0 <= d) by (unfold d; destruct (Nat.eqb i 1); [lia|]; destruct (Nat.ltb 1 i); [destruct hq; lia | lia]).
    constructor; [cbn [snd]; lia|]. apply IH; cbn [g_tcpFirst g_last]; lia.
  - destruct (ra_tcp a).
    + set (d0 := if Nat.eqb i (S ts) then tcpD else if Nat.ltb (S ts) i then (if ht then 2 * tcpD else tcpD) else 0).
      assert (Hd : 0 <= d0) by (unfold d0; destruct (Nat.eqb i (S ts)); [lia|]; destruct (Nat.ltb (S ts) i); [destruct ht; lia | lia]).
      constructor; [cbn [snd]; lia|]. apply IH; cbn [g_tcpFirst g_last]; lia.
    + constructor; [cbn [snd]; lia|]. apply IH; assumption.
Qed.

Lemma he_quic_perm : forall s, Permutation (fst (fst (he_quic s))) s.
Proof.
  intros s. unfold he_quic. destruct s as [|a0 r]; [apply Permutation_refl|].
  destruct (ra_quic a0 && ra_ip6 a0); [|apply Permutation_refl].
  destruct (find_from _ 1 (a0 :: r) 0) as [j|] eqn:Ef; [|apply Permutation_refl].
  cbn [fst]. apply move_to_perm. eapply find_from_ge; eauto.
Qed.

Lemma he_tcp_perm : forall s k, Permutation (fst (he_tcp s k)) s.
Proof.
  intros s k. unfold he_tcp. destruct (nth_error s k) as [t0|]; [|apply Permutation_refl].
  destruct (ra_ip6 t0); [|apply Permutation_refl].
  destruct (find_from _ (S k) s 0) as [j|] eqn:Ef; [|apply Permutation_refl].
  cbn [fst]. apply move_to_perm. eapply find_from_ge; eauto.
Qed.

Section WithSort.
  Variable sortf : list raddr -> list raddr.
  Hypothesis sort_perm : forall l, Permutation (sortf l) l.

  Lemma gad_perm : forall addrs tcpD quicD otherD offset,
    Permutation (map fst (get_addr_delay sortf addrs tcpD quicD otherD offset)) addrs.
  Proof.
    intros. unfold get_addr_delay. pose proof (sort_perm addrs) as Ps.
    destruct (sortf addrs) as [|a0 rest] eqn:Es.
    - cbn. exact Ps.
    - rewrite delay_loop_fst.
      eapply Permutation_trans; [apply he_tcp_perm|].
      eapply Permutation_trans; [apply he_quic_perm|]. exact Ps.
  Qed.

  Lemma gad_nonneg : forall addrs tcpD quicD otherD offset,
    0 <= tcpD -> 0 <= quicD -> 0 <= otherD -> 0 <= offset ->
    Forall (fun e => 0 <= snd e) (get_addr_delay sortf addrs tcpD quicD otherD offset).
  Proof.
    intros addrs tcpD quicD otherD offset H1 H2 H3 H4. unfold get_addr_delay.
    destruct (sortf addrs) as [|a0 rest]; [constructor|].
    apply delay_loop_nonneg; cbn [g_tcpFirst g_last]; auto; lia.
  Qed.

  Lemma consts_nonneg :
    0 <= PublicTCPDelay /\ 0 <= PrivateTCPDelay /\ 0 <= PublicQUICDelay /\ 0 <= PrivateQUICDelay /\
    0 <= RelayDelay /\ 0 <= PublicOtherDelay /\ 0 <= PrivateOtherDelay.
  Proof. vm_compute. repeat split; discriminate. Qed.

  Lemma last_delay_nonneg : forall l, Forall (fun e : raddr * Z => 0 <= snd e) l -> 0 <= last_delay l.
  Proof.
    intros l F. unfold last_delay. destruct (rev l) as [|x r] eqn:E; [lia|].
    rewrite Forall_forall in F. apply F. apply in_rev. rewrite E. left. reflexivity.
  Qed.

  Lemma compose_spec : forall (g1 g2 g3 : list (raddr * Z)) (pvt pub relay r1 r2 r3 addrs : list raddr) md,
    Permutation (map fst g1) pvt -> Permutation (map fst g2) pub -> Permutation (map fst g3) relay ->
    Permutation (relay ++ r1) addrs -> Permutation (pvt ++ r2) r1 -> Permutation (pub ++ r3) r2 ->
    Permutation (map fst ((g1 ++ g2 ++ g3) ++ map (fun a => (a, md)) r3)) addrs.
  Proof.
    intros g1 g2 g3 pvt pub relay r1 r2 r3 addrs md P1 P2 P3 E1 E2 E3.
    rewrite !map_app, map_map. cbn [fst]. rewrite map_id.
    eapply Permutation_trans; [|exact E1].
    eapply Permutation_trans; [|apply Permutation_app_comm].
    eapply Permutation_trans; [|apply Permutation_app_tail; exact E2].
    eapply Permutation_trans; [|apply Permutation_app_tail, Permutation_app_head; exact E3].
    rewrite <- !app_assoc.
    eapply Permutation_trans.
    { apply Permutation_app; [exact P1|]. apply Permutation_app; [exact P2|].
      apply Permutation_app; [exact P3 | apply Permutation_refl]. }
    apply Permutation_app_head. apply Permutation_app_head. apply Permutation_app_comm.
  Qed.

  Definition maxd (res : list (raddr * Z)) : Z := match res with [] => 0 | _ => last_delay res end.

  Lemma maxd_nonneg : forall res, Forall (fun e : raddr * Z => 0 <= snd e) res -> 0 <= maxd res.
  Proof. intros res F. unfold maxd. destruct res; [lia|]. apply last_delay_nonneg, F. Qed.

  Lemma default_ranker_spec : forall addrs,
    Permutation (map fst (default_ranker sortf addrs)) addrs /\
    Forall (fun e => 0 <= snd e) (default_ranker sortf addrs).
  Proof.
    intros addrs. unfold default_ranker.
    destruct (filter_addrs ra_relay addrs) as [relay r1] eqn:E1.
    destruct (filter_addrs ra_pvt r1) as [pvt r2] eqn:E2.
    destruct (filter_addrs (fun a => ra_ip4 a || ra_ip6 a) r2) as [pub r3] eqn:E3.
    apply filter_addrs_perm in E1. apply filter_addrs_perm in E2. apply filter_addrs_perm in E3.
    destruct consts_nonneg as [C1 [C2 [C3 [C4 [C5 [C6 C7]]]]]].
    assert (Hoff : 0 <= match pub with [] => 0 | _ :: _ => RelayDelay end) by (destruct pub; lia).
    pose proof (gad_perm pvt PrivateTCPDelay PrivateQUICDelay PrivateOtherDelay 0) as P1.
    pose proof (gad_perm pub PublicTCPDelay PublicQUICDelay PublicOtherDelay 0) as P2.
    pose proof (gad_perm relay PublicTCPDelay PublicQUICDelay PublicOtherDelay
                  (match pub with [] => 0 | _ :: _ => RelayDelay end)) as P3.
    pose proof (gad_nonneg pvt PrivateTCPDelay PrivateQUICDelay PrivateOtherDelay 0 C2 C4 C7 (Z.le_refl 0)) as F1.
    pose proof (gad_nonneg pub PublicTCPDelay PublicQUICDelay PublicOtherDelay 0 C1 C3 C6 (Z.le_refl 0)) as F2.
    pose proof (gad_nonneg relay PublicTCPDelay PublicQUICDelay PublicOtherDelay _ C1 C3 C6 Hoff) as F3.
    revert P1 P2 P3 F1 F2 F3.
    generalize (get_addr_delay sortf pvt PrivateTCPDelay PrivateQUICDelay PrivateOtherDelay 0).
    generalize (get_addr_delay sortf pub PublicTCPDelay PublicQUICDelay PublicOtherDelay 0).
    generalize (get_addr_delay sortf relay PublicTCPDelay PublicQUICDelay PublicOtherDelay
                  (match pub with [] => 0 | _ :: _ => RelayDelay end)).
    intros g3 g2 g1 P1 P2 P3 F1 F2 F3.
    assert (Fres : Forall (fun e : raddr * Z => 0 <= snd e) (g1 ++ g2 ++ g3)).
    { apply Forall_app. split; [exact F1|]. apply Forall_app. split; assumption. }
    pose proof (maxd_nonneg _ Fres) as Hm. fold (maxd (g1 ++ g2 ++ g3)).
    split.
    - eapply compose_spec; eauto.
    - apply Forall_app. split; [exact Fres|].
      apply Forall_forall. intros e He. apply in_map_iff in He. destruct He as [a [<- _]]. cbn [snd]. lia.
  Qed.
End WithSort.

Lemma ins_score_perm : forall x l, Permutation (ins_score x l) (x :: l).
Proof.
  induction l as [|y r IH]; cbn [ins_score]; [apply Permutation_refl|].
  destruct (ra_score x <=? ra_score y); [apply Permutation_refl|].
  eapply Permutation_trans; [apply perm_skip, IH | apply perm_swap].
Qed.

Lemma sort_score_perm : forall l, Permutation (sort_score l) l.
Proof.
  induction l as [|x r IH]; cbn [sort_score fold_right]; [constructor|].
  eapply Permutation_trans; [apply ins_score_perm | apply perm_skip, IH].
Qed.

(* every address exactly once: NoDup in, NoDup out, same members *)
Lemma default_ranker_nodup : forall sortf, (forall l, Permutation (sortf l) l) ->
  forall addrs, NoDup (map ra_id addrs) -> NoDup (map ra_id (map fst (default_ranker sortf addrs))).
Proof.
  intros sortf Hs addrs N. destruct (default_ranker_spec sortf Hs addrs) as [P _].
  eapply Permutation_NoDup; [apply Permutation_sym, Permutation_map, P | exact N].
Qed.

(* C05 — the harness-level semantics of SpecComposite as a labelled relation.
   [hstep] lists the moves a drain makes, each with the facts the harness-level semantics
   guarantees about it (which caller, which oracle answers, which job).  [drain], [advance_to]
   and [kstep] only chain such moves ([kstep_reach]); a property closed under [hstep] that
   holds after the stimulus' own labels therefore holds at the next observation. *)
From Coq Require Import List ZArith Bool Lia Relations.
From Verif Require Import lib.Wire c05.ModelLimiter c05.Proofs_Limiter c05.SpecLimiter c05.Proofs_LimiterMon c05.Proofs_LimiterOnce.
From Verif Require Import c05.ModelWorker c05.ModelSync c05.ModelComposite c05.Proofs_Composite c05.Proofs_Composite2.
From Verif Require Import c05.SpecWorker c05.SpecDialPeer c05.SpecComposite c05.Proofs_CompositeMon.
Import ListNotations.
Local Open Scope Z_scope.

(* ---- job identities are unique in the limiter ------------------------------------------------ *)
Record TI (s : cst) : Prop := mkTI {
  ti_inv : Inv2 (c_lim s);
  ti_one : forall n, tot n (c_lim s) <= 1;
  ti_new : forall n, c_next s <= n -> tot n (c_lim s) = 0 }.

Lemma TI_limop : forall s s' o, TI s -> c_lim s' = lstep (c_lim s) o -> c_next s <= c_next s' ->
  (forall n, addc n o = 0) -> TI s'.
Proof.
  intros s s' o [I A B] El En Ha. constructor; rewrite El.
  - apply lstep_inv2, I.
  - intros n. destruct (lstep_tot (c_lim s) o n (i2core _ I)) as [X _]. rewrite Ha in X. specialize (A n). lia.
  - intros n Hn. destruct (lstep_tot (c_lim s) o n (i2core _ I)) as [X _]. rewrite Ha in X.
    pose proof (tot_nonneg n (lstep (c_lim s) o)). rewrite (B n) in X by lia. lia.
Qed.

Lemma TI_same : forall s s', TI s -> c_lim s' = c_lim s -> c_next s <= c_next s' -> TI s'.
Proof.
  intros s s' [I A B] El En. constructor; rewrite El; auto. intros n Hn. apply B. lia.
Qed.

Lemma TI_add : forall g p s a, TI s -> TI (add_addr_job g p s a).
Proof.
  intros g p s a [I A B]. unfold add_addr_job. constructor; cprj.
  - apply lstep_inv2, I.
  - intros n. match goal with |- context [LAdd ?x] => destruct (lstep_tot (c_lim s) (LAdd x) n (i2core _ I)) as [X _] end.
    cbn [addc cid jid] in X. destruct (c_next s =? n) eqn:E.
    + apply Z.eqb_eq in E. rewrite (B n) in X by lia. lia.
    + specialize (A n). lia.
  - intros n Hn. match goal with |- context [LAdd ?x] => destruct (lstep_tot (c_lim s) (LAdd x) n (i2core _ I)) as [X _] end.
    cbn [addc cid jid] in X. destruct (c_next s =? n) eqn:E; [apply Z.eqb_eq in E; lia|].
    pose proof (tot_nonneg n (lstep (c_lim s) (LAdd (mkJob (c_next s) p (memz a (c_fd s)) g)))).
    rewrite (B n) in X by lia. lia.
Qed.

Lemma TI_adds : forall g p news s, TI s -> TI (fold_left (add_addr_job g p) news s).
Proof. induction news as [|a r IH]; intros s H; cbn [fold_left]; [exact H|]. apply IH, TI_add, H. Qed.

Lemma TI_leave : forall s c r k, TI s -> TI (do_leave s c r k).
Proof.
  intros s c r k H. unfold do_leave. cprj. destruct (p_active _); cprj.
  - eapply TI_same; [exact H|reflexivity|cprj; lia].
  - eapply TI_limop with (o := LCancel (cr_gen r)); [exact H|reflexivity|cprj; lia|reflexivity].
Qed.

Lemma cstep_TI : forall s l, TI s -> TI (cstep s l).
Proof.
  intros s l H. destruct l; cbn [cstep].
  - destruct (cget c s); [exact H|]. destruct best; [eapply TI_same; [exact H|reflexivity|cprj; lia]|].
    destruct (p_active _); cprj.
    + destruct (aget None p _); [eapply TI_same; [exact H|reflexivity|cprj; lia] | exact H].
    + eapply TI_same; [exact H|reflexivity|cprj; lia].
  - destruct (cget c s) as [r|]; [|exact H]. destruct (cr_phase r); try exact H.
    eapply TI_same; [exact H|reflexivity|cprj; lia].
  - destruct (g <? c_next s); [|exact H]. apply TI_adds. eapply TI_same; [exact H|reflexivity|cprj; lia].
  - eapply TI_limop with (o := LBegin n); [exact H|reflexivity|cprj; lia|reflexivity].
  - destruct (jget n s) as [j|]; [|exact H]. destruct (_ && _); [|exact H].
    eapply TI_same; [exact H|reflexivity|cprj; lia].
  - destruct (jget n s) as [j|]; [|exact H]. destruct (jr_reported j); [|exact H].
    eapply TI_limop with (o := LReturn n); [exact H|reflexivity|cprj; lia|reflexivity].
  - destruct (cget c s) as [r|]; [|exact H]. destruct (cr_phase r); try exact H;
      (eapply TI_same; [exact H|reflexivity|cprj; lia]).
  - destruct (cget c s) as [r|]; [|exact H].
    destruct (cr_phase r); try exact H;
      (destruct (resp_of _ _) as [[|]|] || idtac); try (apply TI_leave; exact H);
      destruct (cr_canc r); try exact H; apply TI_leave; exact H.
  - destruct (memz g (c_stale s)); [|exact H].
    eapply TI_limop with (o := LClear (aget 0 g (c_gpeer s))); [exact H|reflexivity|cprj; lia|reflexivity].
Qed.

Lemma init_TI : forall fdl ppl fd, 0 <= fdl -> 0 <= ppl -> TI (init_c fdl ppl fd).
Proof. intros. constructor; cbn; [apply init_inv2; assumption | intros; lia | intros; reflexivity]. Qed.

Lemma cid_le_tot : forall n l, cid n (spawned l) <= tot n l /\ cid n (dialing l) <= tot n l.
Proof.
  intros. unfold tot. pose proof (wpsum_nonneg n (waitingOnPeer l)). pose proof (cid_nonneg n (waitingOnFd l)).
  pose proof (cid_nonneg n (spawned l)). pose proof (cid_nonneg n (dialing l)). lia.
Qed.

Lemma TI_spawned_nodup : forall s, TI s -> NoDup (map jid (spawned (c_lim s))).
Proof. intros s H. apply cid_nodup. intros n. pose proof (cid_le_tot n (c_lim s)). pose proof (ti_one _ H n). lia. Qed.

Lemma TI_dialing_nodup : forall s, TI s -> NoDup (map jid (dialing (c_lim s))).
Proof. intros s H. apply cid_nodup. intros n. pose proof (cid_le_tot n (c_lim s)). pose proof (ti_one _ H n). lia. Qed.

(* ---- the limiter only appends to the list of started goroutines ------------------------------ *)
Lemma add_check_fd_spawned : forall s j, incl (spawned s) (spawned (add_check_fd s j)).
Proof.
  intros s j. unfold add_check_fd. destruct (jfd j); [destruct (fdLimit s <=? fdConsuming s)|]; prj;
    try apply incl_refl; intros x Hx; apply in_or_app; left; exact Hx.
Qed.

Lemma finished_spawned : forall s j, incl (spawned s) (spawned (finished s j)).
Proof.
  assert (Hpl : forall wl s, incl (spawned s) (spawned (peer_loop wl s))).
  { induction wl as [|n r IH]; intros s; cbn [peer_loop]; [apply incl_refl|].
    destruct (is_cancelled _ n); [eapply incl_tran; [|apply IH]; prj; apply incl_refl|].
    eapply incl_tran; [|apply add_check_fd_spawned]. prj. apply incl_refl. }
  assert (Hfp : forall s j, incl (spawned s) (spawned (free_peer_token s j))).
  { intros. unfold free_peer_token. eapply incl_tran; [|apply Hpl]. prj. apply incl_refl. }
  assert (Hfl : forall f s, incl (spawned s) (spawned (fd_loop f s))).
  { induction f as [|f IH]; intros s; cbn [fd_loop]; [apply incl_refl|].
    destruct (waitingOnFd s) as [|n r]; [apply incl_refl|]. destruct (fdConsuming s <? fdLimit s); [|apply incl_refl].
    destruct (is_cancelled _ n).
    - eapply incl_tran; [|apply IH]. eapply incl_tran; [|apply Hfp]. prj. apply incl_refl.
    - prj. intros x Hx. apply in_or_app. left. exact Hx. }
  intros. unfold finished. eapply incl_tran; [|apply Hfp]. destruct (jfd j); [|apply incl_refl].
  unfold free_fd_token. eapply incl_tran; [|apply Hfl]. prj. apply incl_refl.
Qed.

Lemma take_job_others : forall id l j r x, take_job id l = Some (j, r) -> In x l -> jid x <> id -> In x r.
Proof.
  induction l as [|y l IH]; intros j r x H Hx Hn; cbn [take_job] in H; [discriminate|].
  destruct (jid y =? id) eqn:E.
  - inversion H; subst. destruct Hx as [->|Hx]; [apply Z.eqb_eq in E; contradiction | exact Hx].
  - destruct (take_job id l) as [[z r']|] eqn:Et; [|discriminate]. inversion H; subst.
    destruct Hx as [->|Hx]; [left; reflexivity | right; eapply IH; eauto].
Qed.

Lemma begin_keeps_spawned : forall l id x, In x (spawned l) -> jid x <> id -> In x (spawned (lstep l (LBegin id))).
Proof.
  intros l id x Hx Hn. cbn [lstep]. destruct (take_job id (spawned l)) as [[j r]|] eqn:E; [|exact Hx].
  pose proof (take_job_others _ _ _ _ _ E Hx Hn) as Hr.
  destruct (is_cancelled _ j); [apply finished_spawned; prj; exact Hr | prj; exact Hr].
Qed.

Lemma return_keeps_dialing : forall l id x, In x (dialing l) -> jid x <> id -> In x (dialing (lstep l (LReturn id))).
Proof.
  intros l id x Hx Hn. cbn [lstep]. destruct (take_job id (dialing l)) as [[j r]|] eqn:E; [|exact Hx].
  rewrite finished_dialing. prj. eapply take_job_others; eauto.
Qed.

(* ---- the moves of a drain ----------------------------------------------------------------------- *)
Inductive hstep : denv * cst -> denv * cst -> Prop :=
| HDeliver : forall e s c r, cget c s = Some r -> cr_phase r = PSending -> is_blocked e (cr_gen r) = false ->
    dn_park e = false ->
    hstep (e, s) (e, cstep s (CDeliver c (okconn e (cr_fdir r)) (rank_for e c)))
| HParked : forall e s c r, cget c s = Some r -> cr_phase r = PSending -> is_blocked e (cr_gen r) = false ->
    dn_park e = true ->
    hstep (e, s) (de_park e false (Some (cr_gen r)), s)
| HTimer : forall e s g t, live_gen s = Some g -> timer_due e s g (dn_now e) = Some t ->
    hstep (e, s) (e, cstep s (CTimer g (dn_backoff e) (dbestl e s g)))
| HBegin : forall e s j, In j (spawned (c_lim s)) -> hstep (e, s) (begin_one (e, s) j)
| HEnd : forall e s j, In j (dialing (c_lim s)) -> is_cancelled (c_lim s) j = true ->
    hstep (e, s) (end_job (e, s) (jid j) (DRFail ECanceled))
| HLeave : forall e s c, hstep (e, s) (e, cstep s (CLeave c true))
| HExit : forall e s g, is_blocked e g = false -> hstep (e, s) (e, cstep s (CExit g))
| HNow : forall e s t, hstep (e, s) (de_now e t, s).

Definition hreach := clos_refl_trans (denv * cst) hstep.

Lemma hreach_refl : forall es, hreach es es. Proof. intros. apply rt_refl. Qed.
Lemma hreach_step : forall a b c, hreach a b -> hstep b c -> hreach a c.
Proof. intros. eapply rt_trans; [eassumption | apply rt_step; assumption]. Qed.
Lemma hreach_trans : forall a b c, hreach a b -> hreach b c -> hreach a c.
Proof. intros. eapply rt_trans; eassumption. Qed.

(* a property closed under the moves holds wherever a drain gets *)
Lemma hreach_closed : forall (P : denv * cst -> Prop), (forall a b, P a -> hstep a b -> P b) ->
  forall a b, hreach a b -> P a -> P b.
Proof. intros P H a b R. induction R; eauto. Qed.

(* TI holds along the moves *)
Lemma hstep_TI : forall a b, TI (snd a) -> hstep a b -> TI (snd b).
Proof.
  intros a b H St. destruct St; cbn [snd] in *; try (apply cstep_TI; exact H); try exact H.
  unfold end_job. cbn iota beta. destruct (jget (jid j) s); [cbn [snd]; apply cstep_TI, cstep_TI, H | exact H].
Qed.

(* ---- a round only chains moves ------------------------------------------------------------------- *)
Definition TIs (es : denv * cst) : Prop := TI (snd es).

Lemma hreach_TI : forall a b, hreach a b -> TIs a -> TIs b.
Proof. apply (hreach_closed TIs). intros a b H St. eapply hstep_TI; eauto. Qed.

Lemma deliver_reach : forall es c, hreach es (deliver_one es c).
Proof.
  intros [e s] c. unfold deliver_one. destruct (cget c s) as [r|] eqn:Ec; [|apply hreach_refl].
  destruct (cr_phase r) eqn:Ep; try apply hreach_refl.
  destruct (is_blocked e (cr_gen r)) eqn:Eb; [apply hreach_refl|].
  destruct (dn_park e) eqn:Ek; apply rt_step.
  - eapply HParked; eauto.
  - apply (HDeliver e s c r); auto.
Qed.

Lemma fold_reach : forall (A : Type) (f : denv * cst -> A -> denv * cst) (l : list A),
  (forall es a, hreach es (f es a)) -> forall es, hreach es (fold_left f l es).
Proof.
  induction l as [|a r IH]; intros Hf es; cbn [fold_left]; [apply hreach_refl|].
  eapply hreach_trans; [apply Hf | apply IH, Hf].
Qed.

Lemma timer_reach : forall es, hreach es (fire_timer es).
Proof.
  intros [e s]. unfold fire_timer. destruct (live_gen s) as [g|] eqn:Eg; [|apply hreach_refl].
  destruct (timer_due e s g (dn_now e)) as [t|] eqn:Et; [|apply hreach_refl].
  apply rt_step. eapply HTimer; eauto.
Qed.

Lemma begin_fold_reach : forall l es, TIs es -> NoDup (map jid l) -> incl l (spawned (c_lim (snd es))) ->
  hreach es (fold_left begin_one l es).
Proof.
  induction l as [|j r IH]; intros [e s] T N I; cbn [fold_left]; [apply hreach_refl|].
  assert (St : hstep (e, s) (begin_one (e, s) j)) by (apply HBegin, I; left; reflexivity).
  eapply hreach_trans; [apply rt_step, St|]. inversion N; subst. apply IH.
  - eapply hstep_TI; [exact T | exact St].
  - assumption.
  - intros x Hx. unfold begin_one. cbn [snd cstep]. cprj. apply begin_keeps_spawned.
    + apply I. right. exact Hx.
    + intros E. apply H1. rewrite <- E. apply in_map, Hx.
Qed.

Lemma end_job_lim : forall e s n r,
  c_lim (snd (end_job (e, s) n r)) = c_lim s \/ c_lim (snd (end_job (e, s) n r)) = lstep (c_lim s) (LReturn n).
Proof.
  intros. unfold end_job. cbn iota beta. destruct (jget n s) as [j|] eqn:Ej; [|left; reflexivity]. cbn [snd].
  set (s1 := cstep s (CRes n r (dbestl e s (jr_gen j)))).
  assert (E1 : c_lim s1 = c_lim s).
  { unfold s1. cbn [cstep]. rewrite Ej. destruct (_ && _); reflexivity. }
  cbn [cstep]. destruct (jget n s1) as [j1|]; [|left; exact E1].
  destruct (jr_reported j1); [right; cprj; rewrite E1; reflexivity | left; exact E1].
Qed.

Lemma end_fold_reach : forall l es, TIs es -> NoDup (map jid l) ->
  (forall j, In j l -> In j (dialing (c_lim (snd es))) /\ is_cancelled (c_lim (snd es)) j = true) ->
  hreach es (fold_left (fun x n => end_job x n (DRFail ECanceled)) (map jid l) es).
Proof.
  induction l as [|j r IH]; intros [e s] T N I; cbn [map fold_left]; [apply hreach_refl|].
  destruct (I j (or_introl eq_refl)) as [I1 I2]. cbn [snd] in I1, I2.
  assert (St : hstep (e, s) (end_job (e, s) (jid j) (DRFail ECanceled))) by (apply HEnd; assumption).
  eapply hreach_trans; [apply rt_step, St|]. inversion N; subst.
  destruct (end_job (e, s) (jid j) (DRFail ECanceled)) as [e' s'] eqn:Ee. apply IH.
  - eapply hstep_TI; [exact T | exact St].
  - assumption.
  - intros x Hx. destruct (I x (or_intror Hx)) as [X1 X2]. cbn [snd] in *.
    assert (Ne : jid x <> jid j) by (intros E; apply H1; rewrite <- E; apply in_map, Hx).
    pose proof (end_job_lim e s (jid j) (DRFail ECanceled)) as L. rewrite Ee in L. cbn [snd] in L.
    destruct L as [L|L]; rewrite L.
    + split; assumption.
    + split; [apply return_keeps_dialing; assumption|].
      rewrite (is_cancelled_eq (c_lim s)); [exact X2 | apply lstep_cancG].
Qed.

Lemma exit_reach : forall es g, hreach es (exit_one es g).
Proof.
  intros [e s] g. unfold exit_one. destruct (is_blocked e g) eqn:Eb; [apply hreach_refl|]. apply rt_step, HExit, Eb.
Qed.

Lemma leave_reach : forall es c, hreach es (leave_one es c).
Proof. intros [e s] c. apply rt_step, HLeave. Qed.

Lemma cancelled_dialing_map : forall s,
  cancelled_dialing s = map jid (filter (fun j => is_cancelled (c_lim s) j) (dialing (c_lim s))).
Proof. reflexivity. Qed.

Lemma nodup_map_filter : forall (f : job -> bool) l, NoDup (map jid l) -> NoDup (map jid (filter f l)).
Proof.
  induction l as [|x l IH]; intros N; cbn [filter map]; [constructor|]. inversion N; subst.
  destruct (f x); [|apply IH; assumption]. cbn [map]. constructor; [|apply IH; assumption].
  intros H. apply H1. apply in_map_iff in H. destruct H as [y [E Hy]]. apply filter_In in Hy.
  rewrite <- E. apply in_map. tauto.
Qed.

Lemma round_reach : forall es, TIs es -> hreach es (round es).
Proof.
  intros es T. unfold round.
  set (es1 := fold_left deliver_one (caller_ids (snd es)) es).
  assert (R1 : hreach es es1) by (apply fold_reach; intros; apply deliver_reach).
  set (es2 := fire_timer es1). assert (R2 : hreach es es2) by (eapply hreach_trans; [exact R1 | apply timer_reach]).
  pose proof (hreach_TI _ _ R2 T) as T2.
  set (es3 := fold_left begin_one (spawned (c_lim (snd es2))) es2).
  assert (R3 : hreach es es3).
  { eapply hreach_trans; [exact R2|]. apply begin_fold_reach; [exact T2 | apply TI_spawned_nodup, T2 | apply incl_refl]. }
  pose proof (hreach_TI _ _ R3 T) as T3.
  set (es4 := fold_left (fun x n => end_job x n (DRFail ECanceled)) (cancelled_dialing (snd es3)) es3).
  assert (R4 : hreach es es4).
  { eapply hreach_trans; [exact R3|]. unfold es4. rewrite cancelled_dialing_map. apply end_fold_reach; [exact T3| |].
    - apply nodup_map_filter, TI_dialing_nodup, T3.
    - intros j Hj. apply filter_In in Hj. exact Hj. }
  set (es5 := fold_left leave_one (caller_ids (snd es4)) es4).
  assert (R5 : hreach es es5) by (eapply hreach_trans; [exact R4 | apply fold_reach; intros; apply leave_reach]).
  eapply hreach_trans; [exact R5 | apply fold_reach; intros; apply exit_reach].
Qed.

Lemma rounds_reach : forall n es, TIs es -> hreach es (rounds n es).
Proof.
  induction n as [|n IH]; intros es T; cbn [rounds]; [apply hreach_refl|].
  pose proof (round_reach es T) as R. eapply hreach_trans; [exact R | apply IH, (hreach_TI _ _ R T)].
Qed.

Lemma drain_reach : forall es, TIs es -> hreach es (drain es).
Proof. intros. apply rounds_reach. assumption. Qed.

Lemma advance_reach : forall f stop es, TIs es -> hreach es (advance_to f stop es).
Proof.
  induction f as [|f IH]; intros stop [e s] T; cbn [advance_to fst snd].
  - apply rt_step, HNow.
  - destruct (live_gen s) as [g|]; [|apply rt_step, HNow].
    destruct (timer_due e s g stop) as [t|]; [|apply rt_step, HNow].
    assert (R0 : hreach (e, s) (de_now e (Z.max t (dn_now e)), s)) by apply rt_step, HNow.
    pose proof (hreach_TI _ _ R0 T) as T0. pose proof (drain_reach _ T0) as R1.
    eapply hreach_trans; [exact R0|]. eapply hreach_trans; [exact R1|]. apply IH, (hreach_TI _ _ R1 T0).
Qed.

(* ---- a stimulus: its own labels, then moves ------------------------------------------------------ *)
Definition kinit (es : denv * cst) (x : cstim) : denv * cst :=
  let (e0, s) := es in
  let e := de_se e0 [] [] in
  match x with
  | KCall c sim fdir rank =>
      let s1 := cstep s (CCall c PEER sim fdir (okconn e fdir)) in
      let e1 := de_rank e (aput c (Some rank) (dn_rank e)) in
      let e2 := match cget c s1 with
                | Some r => match aget None (cr_gen r) (map (fun x => (fst x, Some (snd x))) (dn_start e1)) with
                            | Some _ => e1
                            | None => de_start e1 (aput (cr_gen r) (dn_now e1) (dn_start e1)) end
                | None => e1 end in
      (e2, s1)
  | KAdvance _ => (e, s)
  | KRes a kind flag =>
      match find_dialing s a with
      | Some n =>
          let g := match jget n s with Some j => jr_gen j | None => 0 end in
          let w := wget g s in
          let tracked := match tget a w with Some _ => true | None => false end in
          let r := if kind =? 1 then DROk true else DRFail EOther in
          let es1 := end_job (e, s) n r in
          let e1 := fst es1 in
          let e2 := if w_stopped w then e1
                    else if (kind =? 1) && tracked then de_conn (de_backoff e1 []) true (dn_direct e1 || flag)
                    else if (kind =? 0) && tracked && negb (w_connected w) then de_backoff e1 (a :: dn_backoff e1)
                    else e1 in
          (e2, snd es1)
      | None => (e, s)
      end
  | KCancel c => (e, cstep (cstep s (CCancel c)) (CLeave c false))
  | KBackoff a => (de_backoff e (if a <? 0 then [] else a :: dn_backoff e), s)
  | KPark => (de_park e true (dn_blocked e), s)
  | KRelease => (de_park e false None, s)
  end.

Lemma kinit_TI : forall es x, TIs es -> TIs (kinit es x).
Proof.
  intros [e0 s] x T. unfold TIs in *. cbn [snd] in T. unfold kinit. destruct x; cbn [snd]; try exact T.
  - apply cstep_TI, T.
  - destruct (find_dialing s a) as [n|]; [|exact T]. cbn [snd]. unfold end_job. cbn iota beta.
    destruct (jget n s); [cbn [snd]; apply cstep_TI, cstep_TI, T | exact T].
  - apply cstep_TI, cstep_TI, T.
Qed.

Lemma kstep_reach : forall es x, TIs es -> hreach (kinit es x) (kstep es x).
Proof.
  intros [e0 s] x T. pose proof (kinit_TI (e0, s) x T) as T1. unfold kstep, kinit in *. destruct x.
  - apply drain_reach, T1.
  - pose proof (drain_reach _ T1) as R1. pose proof (hreach_TI _ _ R1 T1) as T2.
    match goal with |- hreach _ (drain (advance_to ?f ?st ?z)) =>
      pose proof (advance_reach f st z T2) as R2 end.
    eapply hreach_trans; [exact R1|]. eapply hreach_trans; [exact R2|]. apply drain_reach, (hreach_TI _ _ R2 T2).
  - destruct (find_dialing s a) as [n|]; [apply drain_reach, T1 | apply hreach_refl].
  - apply drain_reach, T1.
  - apply drain_reach, T1.
  - apply hreach_refl.
  - apply drain_reach, T1.
Qed.

(* the general principle: a property of (environment, state) closed under the moves and
   established by the stimulus' own labels holds at the next observation *)
Lemma kstep_closed_h : forall (P : denv * cst -> Prop), (forall a b, P a -> TIs a -> hstep a b -> P b) ->
  forall es x, TIs es -> P (kinit es x) -> P (kstep es x).
Proof.
  intros P Hs es x T H0.
  assert (G : P (kstep es x) /\ TIs (kstep es x)).
  { apply (hreach_closed (fun a => P a /\ TIs a)) with (a := kinit es x).
    - intros a b [A B] St. split; [eapply Hs; eauto | eapply hstep_TI; eauto].
    - apply kstep_reach, T.
    - split; [exact H0 | apply kinit_TI, T]. }
  exact (proj1 G).
Qed.

Lemma kstep_TI : forall es x, TIs es -> TIs (kstep es x).
Proof. intros es x T. exact (hreach_TI _ _ (kstep_reach es x T) (kinit_TI es x T)). Qed.

(* C05 — ranker cases: wire decoding, model replay and the property monitor.

   Wire format of a ranker case:
     4 n (id relay pvt ip4 ip6 quic tcp score)*n   m (id delay)*m
   the input addresses with the answers of the predicates the ranker evaluates
   (isRelayAddr, manet.IsPrivateAddr, isProtocolAddr IP4 / IP6, isQUICAddr,
   isProtocolAddr TCP, score), then the output of DefaultDialRanker in order
   (delays in nanoseconds).  No proofs here. *)
From Coq Require Import List ZArith Bool.
From Verif Require Import lib.Wire c05.ModelRanker c05.SpecLimiter.
Import ListNotations.
Local Open Scope Z_scope.

Fixpoint take_raddrs (n : nat) (l : list Z) : option (list raddr * list Z) :=
  match n with
  | O => Some ([], l)
  | S k => match l with
           | a :: b :: c :: d :: e :: f :: g :: h :: r =>
               match take_raddrs k r with
               | Some (x, r') => Some (mkRA a (zbool b) (zbool c) (zbool d) (zbool e) (zbool f) (zbool g) h :: x, r')
               | None => None end
           | _ => None end
  end.

Definition decode_rcase (l : list Z) : option (list raddr * list (Z * Z)) :=
  match l with
  | n :: r =>
      if small n then
        match take_raddrs (Z.to_nat n) r with
        | Some (ins, m :: r1) =>
            if small m then
              match take_pairs (Z.to_nat m) r1 with
              | Some (outs, []) => Some (ins, outs)
              | _ => None end
            else None
        | _ => None end
      else None
  | [] => None
  end.

Definition conform_r_case (l : list Z) : list Z :=
  match decode_rcase l with
  | Some (ins, outs) =>
      let m := map (fun e => (ra_id (fst e), snd e)) (default_ranker sort_score ins) in
      if list_eqb pair_eqb m outs then [] else [ERR_MISMATCH; 0; zlen m; zlen outs]
  | None => [ERR_MALFORMED; 41]
  end.

(* "DefaultDialRanker returns each input address exactly once with a delay":
   the output ids are the input ids, each once; delays are not negative *)
Fixpoint remove_one (x : Z) (l : list Z) : option (list Z) :=
  match l with
  | [] => None
  | y :: r => if y =? x then Some r
              else match remove_one x r with Some r' => Some (y :: r') | None => None end
  end.
Fixpoint same_multiset (a b : list Z) : bool :=
  match a with
  | [] => match b with [] => true | _ => false end
  | x :: r => match remove_one x b with Some b' => same_multiset r b' | None => false end
  end.

Definition monitor_r_case (l : list Z) : list Z :=
  match decode_rcase l with
  | Some (ins, outs) =>
      if negb (same_multiset (map ra_id ins) (map fst outs)) then [ERR_PROPERTY; 0; 1]
      else if negb (forallb (fun e => 0 <=? snd e) outs) then [ERR_PROPERTY; 0; 2]
      else []
  | None => [ERR_MALFORMED; 41]
  end.

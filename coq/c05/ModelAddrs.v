(* C05 — Swarm.addrsForDial: the list of addresses handed to the dial worker for a request.

     peerAddrs := s.peers.Addrs(p)
     resolved  := s.resolveAddrs(...)      (DNS / dnsaddr entries replaced by what they resolve to,
                                            then stripP2PComponent: a trailing /p2p/<id> is dropped)
     goodAddrs := ma.Unique(resolved)      (each address once)
     goodAddrs  = filterKnownUndialables / FilterAddrs(nonProxyAddr)   (a sub-list)

   An address is (base, p2p): the transport address and whether a /p2p/<peer> component trails
   it.  A peerstore entry is given by what it resolves to (a literal entry resolves to itself).
   ma.Unique sorts and drops equal neighbours; only the set matters here (the ranker reorders),
   so it is modelled by "keep one occurrence of each".  The filters are a predicate that may
   look at the whole list (filterLowPriorityAddresses does). *)
From Coq Require Import List ZArith Bool.
From Verif Require Import c05.ModelLimiter c05.ModelWorker.
Import ListNotations.
Local Open Scope Z_scope.

Definition pent := list (Z * bool).

Definition resolve_all (es : list pent) : list (Z * bool) := flat_map (fun e => e) es.
Definition strip_p2p (l : list (Z * bool)) : list Z := map fst l.

Definition addrs_for_dial (keep : list Z -> Z -> bool) (es : list pent) : list Z :=
  let u := nodupz (strip_p2p (resolve_all es)) in filter (keep u) u.

(* the order of a seeded defect: de-duplicate first (with the /p2p component still on), strip after *)
Definition pair_eqb (a b : Z * bool) : bool := (fst a =? fst b) && Bool.eqb (snd a) (snd b).
Fixpoint nodup_pairs (l : list (Z * bool)) : list (Z * bool) :=
  match l with [] => [] | x :: r => if existsb (pair_eqb x) r then nodup_pairs r else x :: nodup_pairs r end.
Definition addrs_for_dial_wrong (keep : list Z -> Z -> bool) (es : list pent) : list Z :=
  let u := strip_p2p (nodup_pairs (resolve_all es)) in filter (keep u) u.

(* ---- filterKnownUndialables (the part of addrsForDial after ma.Unique), in the code's order ----

     1. addresses for which the swarm has no transport are removed and reported (ErrNoTransport)
     2. filterLowPriorityAddresses AMONG THE ADDRESSES WE CAN DIAL: a /ws or /wss address is
        dropped if a /tcp address on the same ip:port is left, a /webtransport address if a
        /quic-v1 address on the same ip:port is left (no error for these)
     3. (black-hole detector: disabled in the harness)
     4. unspecified IPs are dropped (dial-to-self, link-local and the gater do not occur in the harness)
     5. with ForceDirectDial: relayed addresses are dropped.

   What is known about an address: its class, its ip:port group (0: no ip:port can be computed,
   e.g. a relay named by DNS that stays unresolved because the circuit transport skips
   resolution - such an address neither dominates nor is dominated), whether the swarm has a
   transport for it, whether its IP is unspecified, whether it is relayed. *)
Record ainfo := mkAI { ai_cls : Z; ai_grp : Z; ai_tpt : bool; ai_unspec : bool; ai_proxy : bool }.

Definition CLS_TCP : Z := 1.
Definition CLS_WS : Z := 2.
Definition CLS_QUIC : Z := 3.
Definition CLS_WT : Z := 4.

(* the class that is preferred over class c on the same ip:port (0: none) *)
Definition preferred_cls (c : Z) : Z := if c =? CLS_WS then CLS_TCP else if c =? CLS_WT then CLS_QUIC else 0.

Section Pipeline.
  Variable info : Z -> ainfo.

  Definition dominated (l : list Z) (a : Z) : bool :=
    let pc := preferred_cls (ai_cls (info a)) in
    negb (pc =? 0) && negb (ai_grp (info a) =? 0) &&
    existsb (fun b => (ai_cls (info b) =? pc) && (ai_grp (info b) =? ai_grp (info a))) l.

  Definition known_undialables (fdir : bool) (u : list Z) : list Z * list Z :=
    let s1 := filter (fun a => ai_tpt (info a)) u in
    let errs := filter (fun a => negb (ai_tpt (info a))) u in
    let s2 := filter (fun a => negb (dominated s1 a)) s1 in
    let s3 := filter (fun a => negb (ai_unspec (info a))) s2 in
    ((if fdir then filter (fun a => negb (ai_proxy (info a))) s3 else s3), errs).

  Definition addrs_pipeline (fdir : bool) (es : list pent) : list Z * list Z :=
    known_undialables fdir (nodupz (strip_p2p (resolve_all es))).

  (* a seeded defect: the low-priority filter before the no-transport filter *)
  Definition known_undialables_wrong (fdir : bool) (u : list Z) : list Z * list Z :=
    let s0 := filter (fun a => negb (dominated u a)) u in
    let s1 := filter (fun a => ai_tpt (info a)) s0 in
    let errs := filter (fun a => negb (ai_tpt (info a))) s0 in
    let s3 := filter (fun a => negb (ai_unspec (info a))) s1 in
    ((if fdir then filter (fun a => negb (ai_proxy (info a))) s3 else s3), errs).
End Pipeline.

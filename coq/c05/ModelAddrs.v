(* C05 — Swarm.addrsForDial: the list of addresses handed to the dial worker for a request.

     peerAddrs := s.peers.Addrs(p)
     resolved  := s.resolveAddrs(...)      (DNS / dnsaddr entries replaced by what they resolve to,
                                            then stripP2PComponent: a trailing /p2p/<id> is dropped)
     goodAddrs := ma.Unique(resolved)      (each address once)
     goodAddrs  = filterKnownUndialables / FilterAddrs(nonProxyAddr)   (a sub-list)

   An address is (base, p2p): the transport address and whether a /p2p/<peer> component trails
   it.  A peerstore entry is given by what it resolves to (a literal entry resolves to itself).
   ma.Unique sorts and drops equal neighbours; only the set matters here (the ranker reorders),
   so it is modelled by "keep one occurrence of each".  The filters are a predicate that may
   look at the whole list (filterLowPriorityAddresses does). *)
From Coq Require Import List ZArith Bool.
From Verif Require Import c05.ModelLimiter c05.ModelWorker.
Import ListNotations.
Local Open Scope Z_scope.

Definition pent := list (Z * bool).

Definition resolve_all (es : list pent) : list (Z * bool) := flat_map (fun e => e) es.
Definition strip_p2p (l : list (Z * bool)) : list Z := map fst l.

Definition addrs_for_dial (keep : list Z -> Z -> bool) (es : list pent) : list Z :=
  let u := nodupz (strip_p2p (resolve_all es)) in filter (keep u) u.

(* the order of a seeded defect: de-duplicate first (with the /p2p component still on), strip after *)
Definition pair_eqb (a b : Z * bool) : bool := (fst a =? fst b) && Bool.eqb (snd a) (snd b).
Fixpoint nodup_pairs (l : list (Z * bool)) : list (Z * bool) :=
  match l with [] => [] | x :: r => if existsb (pair_eqb x) r then nodup_pairs r else x :: nodup_pairs r end.
Definition addrs_for_dial_wrong (keep : list Z -> Z -> bool) (es : list pent) : list Z :=
  let u := strip_p2p (nodup_pairs (resolve_all es)) in filter (keep u) u.

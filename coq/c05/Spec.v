(* C05 — the case dispatcher.  A case line starts with the kind of component
   it was recorded from; the formats are documented in the Spec*.v files:
     1  dial limiter            (SpecLimiter.v)
     2  dial worker loop        (SpecWorker.v)
     3  dialSync                (SpecSync.v)
     4  DefaultDialRanker       (SpecRanker.v)
     5  whole Swarm.DialPeer    (SpecDialPeer.v monitor, SpecComposite.v replay)
     6  Swarm.addrsForDial      (SpecAddrs.v)
   No proofs here. *)
From Coq Require Import List ZArith Bool.
From Verif Require Import lib.Wire c05.SpecLimiter c05.SpecWorker c05.SpecRanker c05.SpecSync c05.SpecDialPeer c05.SpecComposite c05.SpecAddrs.
Import ListNotations.
Local Open Scope Z_scope.

Definition conform_case (l : list Z) : list Z :=
  match l with
  | 1 :: r => conform_lim_case r
  | 2 :: r => conform_w_case r
  | 3 :: r => conform_s_case r
  | 4 :: r => conform_r_case r
  | 5 :: r => conform_d_case r
  | 6 :: r => conform_a_case r
  | _ => [ERR_MALFORMED; 0]
  end.

Definition monitor_case (l : list Z) : list Z :=
  match l with
  | 1 :: r => monitor_lim_case r
  | 2 :: r => monitor_w_case r
  | 3 :: r => monitor_s_case r
  | 4 :: r => monitor_r_case r
  | 5 :: r => monitor_d_case r
  | 6 :: r => monitor_a_case r
  | _ => [ERR_MALFORMED; 0]
  end.

(* C05 — the invariants of the composite LTS carried along the harness-level semantics. *)
From Coq Require Import List ZArith Bool Lia Relations.
From Verif Require Import lib.Wire c05.ModelLimiter c05.Proofs_Limiter c05.SpecLimiter c05.Proofs_LimiterMon c05.Proofs_LimiterOnce c05.Proofs_LimiterAll.
From Verif Require Import c05.ModelWorker c05.ModelSync c05.ModelComposite c05.Proofs_Composite c05.Proofs_Composite2 c05.Proofs_Composite3 c05.Proofs_Composite4.
From Verif Require Import c05.SpecWorker c05.SpecDialPeer c05.SpecComposite c05.Proofs_CompositeMon c05.Proofs_CompositeH c05.Proofs_CompositeJG.
Import ListNotations.
Local Open Scope Z_scope.

Definition RankOK (e : denv) : Prop :=
  forall c rk, aget None c (dn_rank e) = Some (Some rk) -> NoDup (map fst rk).

Record HI (fdl ppl : Z) (a : denv * cst) : Prop := mkHI {
  hi_c : CInv fdl ppl (snd a);
  hi_t : TI (snd a);
  hi_j : JG (snd a);
  hi_l : LGP (snd a);
  hi_r : RankOK (fst a) }.

Lemma HI_cstep : forall fdl ppl e e' s l, HI fdl ppl (e, s) -> wf_label l -> lab_lgp s l -> dn_rank e' = dn_rank e ->
  HI fdl ppl (e', cstep s l).
Proof.
  intros fdl ppl e e' s l [A B C D E] Wl Ll Er. cbn [fst snd] in *. constructor; cbn [fst snd].
  - apply cstep_cinv; assumption.
  - apply cstep_TI, B.
  - apply cstep_JG, C.
  - apply cstep_LGP; [apply (ci_g _ _ _ A) | exact D | exact Ll].
  - unfold RankOK. rewrite Er. exact E.
Qed.

Lemma HI_env : forall fdl ppl e e' s, HI fdl ppl (e, s) -> dn_rank e' = dn_rank e -> HI fdl ppl (e', s).
Proof. intros fdl ppl e e' s [A B C D E] Er. constructor; auto. cbn [fst] in *. unfold RankOK. rewrite Er. exact E. Qed.

Lemma hstep_HI : forall fdl ppl a b, HI fdl ppl a -> hstep a b -> HI fdl ppl b.
Proof.
  intros fdl ppl a b H St. destruct St.
  - apply (HI_cstep fdl ppl e e); auto; [|exact I]. cbn [wf_label]. unfold rank_for.
    destruct (aget None c (dn_rank e)) as [[rk|]|] eqn:Er; try exact I. apply (hi_r _ _ _ H c rk Er).
  - eapply HI_env; [exact H | reflexivity].
  - apply (HI_cstep fdl ppl e e); auto. exact I.
  - unfold begin_one. apply (HI_cstep fdl ppl e); auto; try exact I. destruct (negb _); reflexivity.
  - unfold end_job. destruct (jget (jid j) s) as [jr|]; [|exact H].
    apply (HI_cstep fdl ppl e); [|exact I|exact I|reflexivity].
    apply (HI_cstep fdl ppl e e); auto; [cbn; discriminate | exact I].
  - apply (HI_cstep fdl ppl e e); auto; exact I.
  - apply (HI_cstep fdl ppl e e); auto; exact I.
  - eapply HI_env; [exact H | reflexivity].
Qed.

(* stimuli with fresh caller ids and repetition-free rankings *)
Definition wf_kstim2 (s : cst) (x : cstim) : Prop :=
  wf_kstim s x /\ match x with KCall _ _ _ (Some rk) => NoDup (map fst rk) | _ => True end.

Definition wf_kstims2 (es : denv * cst) (xs : list cstim) : Prop :=
  gwf kstep (fun es x => wf_kstim2 (snd es) x) es xs.

Lemma kinit_HI : forall fdl ppl es x, HI fdl ppl es -> wf_kstim2 (snd es) x -> HI fdl ppl (kinit es x).
Proof.
  intros fdl ppl [e0 s] x H [_ Wf]. unfold kinit.
  assert (H0 : HI fdl ppl (de_se e0 [] [], s)) by (eapply HI_env; [exact H | reflexivity]).
  destruct x.
  - cbv zeta. match goal with |- HI _ _ (?e2, cstep s ?l) => assert (Er : forall c', aget None c' (dn_rank e2) = if c =? c' then Some rank else aget None c' (dn_rank e0)) end.
    { intros c'. destruct (cget c (cstep s _)) as [r|]; [destruct (aget None (cr_gen r) _)|]; cbn [dn_rank de_rank de_start de_se]; apply aget_aput. }
    destruct H0 as [A B C D E]. cbn [fst snd] in *. constructor; cbn [fst snd].
    + apply cstep_cinv; [exact A | exact I].
    + apply cstep_TI, B.
    + apply cstep_JG, C.
    + apply cstep_LGP; [apply (ci_g _ _ _ A) | exact D | reflexivity].
    + intros c' rk. rewrite Er. destruct (c =? c'); [|apply E]. intros X. inversion X; subst. exact Wf.
  - exact H0.
  - destruct (find_dialing s a) as [n|]; [|exact H0]. cbv zeta.
    assert (H1 : forall r, r <> DRFail EBackoff -> HI fdl ppl (end_job (de_se e0 [] [], s) n r)).
    { intros r Hr. unfold end_job. destruct (jget n s) as [jr|]; [|exact H0].
      apply (HI_cstep fdl ppl (de_se e0 [] [])); [|exact I|exact I|reflexivity].
      apply (HI_cstep fdl ppl (de_se e0 [] []) (de_se e0 [] [])); auto; try exact Hr; try exact I. }
    match goal with |- HI _ _ (_, snd (end_job ?z n ?r)) => specialize (H1 r); destruct (end_job z n r) as [e1 s1] eqn:Ee end.
    cbn [fst snd]. eapply HI_env; [apply H1; destruct (kind =? 1); discriminate|].
    destruct (w_stopped _); [reflexivity|]. destruct (_ && _); [reflexivity|]. destruct (_ && _); reflexivity.
  - apply (HI_cstep fdl ppl (de_se e0 [] [])); [|exact I|exact I|reflexivity].
    apply (HI_cstep fdl ppl (de_se e0 [] []) (de_se e0 [] [])); auto; exact I.
  - eapply HI_env; [exact H0 | reflexivity].
  - eapply HI_env; [exact H0 | reflexivity].
  - eapply HI_env; [exact H0 | reflexivity].
Qed.

Lemma kstep_HI : forall fdl ppl es x, HI fdl ppl es -> wf_kstim2 (snd es) x -> HI fdl ppl (kstep es x).
Proof.
  intros fdl ppl es x H Wf. apply (kstep_closed_h (HI fdl ppl)).
  - intros a b Ha _ St. eapply hstep_HI; eauto.
  - apply (hi_t _ _ _ H).
  - apply kinit_HI; assumption.
Qed.

Lemma init_HI : forall fdl ppl fd, 0 <= fdl -> 0 <= ppl -> HI fdl ppl (init_denv, init_c fdl ppl fd).
Proof.
  intros. constructor; cbn [fst snd].
  - apply init_cinv; assumption.
  - apply init_TI; assumption.
  - apply init_JG.
  - apply init_LGP.
  - intros c rk X. discriminate.
Qed.

(* C05 — the limiter never duplicates a job: counting job identities over the queues, the
   started goroutines and the dials in progress.  Used for the monitor clause "a job's
   dialFunc is invoked at most once" (once_lim). *)
From Coq Require Import List ZArith Bool Lia.
From Verif Require Import lib.Wire c05.ModelLimiter c05.Proofs_Limiter c05.SpecLimiter c05.Proofs_LimiterMon.
From Verif Require c05.Proofs_WorkerMon.
Import ListNotations.
Local Open Scope Z_scope.

Fixpoint cid (n : Z) (l : list job) : Z :=
  match l with [] => 0 | j :: r => (if jid j =? n then 1 else 0) + cid n r end.

Lemma cid_app : forall n a b, cid n (a ++ b) = cid n a + cid n b.
Proof. induction a; intros; cbn [app cid]; [lia | rewrite IHa; lia]. Qed.
Lemma cid_nonneg : forall n l, 0 <= cid n l.
Proof. induction l; cbn [cid]; [lia | destruct (jid a =? n); lia]. Qed.

Definition wpsum (n : Z) (m : list (Z * list job)) : Z := cid n (flat_map snd m).

Lemma wpsum_nonneg : forall n m, 0 <= wpsum n m.
Proof. intros. apply cid_nonneg. Qed.

Lemma wpsum_adel_le : forall n p m, wpsum n (adel p m) + cid n (wl_get p m) <= wpsum n m.
Proof.
  assert (A : forall n p m, wpsum n (adel p m) <= wpsum n m).
  { induction m as [|[k v] m IH]; cbn [adel]; [lia|]. unfold wpsum in *. destruct (k =? p).
    - cbn [flat_map snd]. rewrite cid_app. pose proof (cid_nonneg n v). lia.
    - cbn [flat_map snd]. rewrite !cid_app. lia. }
  induction m as [|[k v] m IH]; unfold wpsum, wl_get in *; cbn [adel aget flat_map snd cid]; [lia|].
  destruct (k =? p).
  - rewrite cid_app. specialize (A n p m). unfold wpsum in A. lia.
  - cbn [flat_map snd]. rewrite !cid_app. lia.
Qed.

Lemma wpsum_set_le : forall n p l m, wpsum n (wl_set p l m) + cid n (wl_get p m) <= wpsum n m + cid n l.
Proof.
  intros. pose proof (wpsum_adel_le n p m). unfold wl_set. destruct l as [|x l].
  - cbn [cid]. lia.
  - unfold aput, wpsum in *. cbn [flat_map snd]. rewrite cid_app. lia.
Qed.

Lemma wpsum_aput_le : forall n p l m, wpsum n (aput p l m) + cid n (wl_get p m) <= wpsum n m + cid n l.
Proof.
  intros. pose proof (wpsum_adel_le n p m). unfold aput, wpsum in *. cbn [flat_map snd]. rewrite cid_app. lia.
Qed.

(* all the places a job can be in *)
Definition tot (n : Z) (s : lim) : Z :=
  wpsum n (waitingOnPeer s) + cid n (waitingOnFd s) + cid n (spawned s) + cid n (dialing s).
Definition rest (n : Z) (s : lim) : Z := tot n s - cid n (dialing s).

Lemma add_check_fd_tot : forall n s j,
  tot n (add_check_fd s j) = tot n s + cid n [j] /\ dialing (add_check_fd s j) = dialing s.
Proof.
  intros. unfold add_check_fd, tot.
  destruct (jfd j); [destruct (fdLimit s <=? fdConsuming s)|]; prj; rewrite ?cid_app; split; try reflexivity; lia.
Qed.

Lemma peer_loop_tot : forall n wl p s,
  (forall j, In j wl -> jpeer j = p) -> wl_get p (waitingOnPeer s) = wl ->
  tot n (peer_loop wl s) <= tot n s /\ dialing (peer_loop wl s) = dialing s.
Proof.
  induction wl as [|next rest0 IH]; intros p s Hp Hw; cbn [peer_loop]; [split; [lia | reflexivity]|].
  assert (Ep : jpeer next = p) by (apply Hp; left; reflexivity).
  set (s1 := set_wp s (wl_set (jpeer next) rest0 (waitingOnPeer s))).
  assert (T1 : tot n s1 + cid n [next] <= tot n s).
  { unfold s1, tot. prj. pose proof (wpsum_set_le n (jpeer next) rest0 (waitingOnPeer s)) as H.
    assert (Hw' : wl_get (jpeer next) (waitingOnPeer s) = next :: rest0) by (rewrite Ep; exact Hw).
    rewrite Hw' in H. cbn [cid] in *. lia. }
  destruct (is_cancelled s1 next).
  - destruct (IH p s1) as [A B].
    + intros j Hj. apply Hp. right. exact Hj.
    + unfold s1. prj. rewrite wl_get_set, Ep, Z.eqb_refl. reflexivity.
    + split; [|rewrite B; reflexivity]. pose proof (cid_nonneg n [next]). lia.
  - match goal with |- context [add_check_fd ?x next] => destruct (add_check_fd_tot n x next) as [A B] end.
    split; [|rewrite B; reflexivity]. rewrite A.
    match goal with |- tot n ?x + _ <= _ => change (tot n x) with (tot n s1) end. lia.
Qed.

Lemma free_peer_token_tot : forall n s j extra, Core s extra ->
  tot n (free_peer_token s j) <= tot n s /\ dialing (free_peer_token s j) = dialing s.
Proof.
  intros n s j extra C. unfold free_peer_token.
  match goal with |- context [peer_loop ?w ?x] => destruct (peer_loop_tot n w (jpeer j) x) as [A B] end.
  - intros y Hy. prj. eapply (cWP _ _ C); eauto.
  - reflexivity.
  - split; [|rewrite B; reflexivity]. eapply Z.le_trans; [exact A|]. unfold tot. prj. lia.
Qed.

Lemma fd_loop_tot : forall n f s extra, Core s extra ->
  tot n (fd_loop f s) <= tot n s /\ dialing (fd_loop f s) = dialing s.
Proof.
  induction f as [|f IH]; intros s extra C; cbn [fd_loop]; [split; [lia | reflexivity]|].
  destruct (waitingOnFd s) as [|next rest0] eqn:Ew; [split; [lia | reflexivity]|].
  destruct (fdConsuming s <? fdLimit s); [|split; [lia | reflexivity]].
  set (s1 := set_wfd s rest0).
  pose proof (pop_core _ _ _ _ C Ew) as C1. fold s1 in C1.
  assert (T1 : tot n s1 + cid n [next] = tot n s) by (unfold s1, tot; prj; rewrite Ew; cbn [cid]; lia).
  destruct (is_cancelled s1 next).
  - destruct (free_peer_token_tot n s1 next (next :: extra) C1) as [A B].
    destruct (IH (free_peer_token s1 next) extra (free_peer_token_core _ _ _ C1)) as [A' B'].
    split; [|rewrite B', B; reflexivity]. pose proof (cid_nonneg n [next]). lia.
  - split; [|reflexivity]. unfold s1, tot in *. prj. rewrite cid_app. lia.
Qed.

Lemma finished_tot : forall n s j, PreFin s j ->
  tot n (finished s j) <= tot n s /\ dialing (finished s j) = dialing s.
Proof.
  intros n s j H. pose proof (prefin_core s j H) as C. unfold finished.
  destruct (jfd j) eqn:Ej.
  - unfold free_fd_token. set (s1 := set_fd s (fdConsuming s - 1)) in *.
    destruct (fd_loop_tot n (S (length (waitingOnFd s1))) s1 [j] C) as [A B].
    destruct (free_peer_token_tot n (fd_loop (S (length (waitingOnFd s1))) s1) j [j] (fd_loop_core _ _ _ C)) as [A' B'].
    split; [|rewrite B', B; reflexivity]. eapply Z.le_trans; [exact A'|]. eapply Z.le_trans; [exact A|]. unfold s1, tot. prj. lia.
  - apply (free_peer_token_tot n s j [j] C).
Qed.

Lemma take_job_cid : forall n id l j r, take_job id l = Some (j, r) -> cid n l = cid n [j] + cid n r.
Proof.
  induction l as [|x l IH]; intros j r H; cbn [take_job] in H; [discriminate|].
  destruct (jid x =? id).
  - inversion H; subst. cbn [cid]. lia.
  - destruct (take_job id l) as [[y r']|] eqn:E; [|discriminate]. inversion H; subst.
    cbn [cid]. rewrite (IH _ _ eq_refl). cbn [cid]. lia.
Qed.

Lemma cid_filter_le : forall n f l, cid n (filter f l) <= cid n l.
Proof.
  induction l as [|x l IH]; cbn [filter cid]; [lia|]. destruct (f x); cbn [cid]; destruct (jid x =? n); lia.
Qed.

Lemma rest_nonneg : forall n s, 0 <= rest n s.
Proof.
  intros. unfold rest, tot. pose proof (wpsum_nonneg n (waitingOnPeer s)).
  pose proof (cid_nonneg n (waitingOnFd s)). pose proof (cid_nonneg n (spawned s)). lia.
Qed.

Definition addc (n : Z) (o : lop) : Z := match o with LAdd j => cid n [j] | _ => 0 end.

Lemma lstep_tot : forall s o n, Inv s ->
  tot n (lstep s o) <= tot n s + addc n o /\ rest n (lstep s o) <= rest n s + addc n o.
Proof.
  intros s o n I. destruct o as [j|g|p|id|id]; cbn [lstep addc].
  - unfold add_job. destruct (perPeerLimit s <=? _).
    + unfold rest, tot. prj. pose proof (wpsum_aput_le n (jpeer j) (wl_get (jpeer j) (waitingOnPeer s) ++ [j]) (waitingOnPeer s)) as H.
      rewrite cid_app in H. lia.
    + match goal with |- context [add_check_fd ?x j] => destruct (add_check_fd_tot n x j) as [A B] end.
      unfold rest. rewrite A, B. unfold tot. prj. lia.
  - unfold rest, tot. prj. lia.
  - unfold clear_peer, rest, tot. prj.
    pose proof (wpsum_set_le n p (filter (fun j => negb (is_cancelled s j)) (wl_get p (waitingOnPeer s))) (waitingOnPeer s)).
    pose proof (cid_filter_le n (fun j => negb (is_cancelled s j)) (wl_get p (waitingOnPeer s))). lia.
  - destruct (take_job id (spawned s)) as [[j r]|] eqn:E; [|lia].
    pose proof (take_job_cid n _ _ _ _ E) as Hc. pose proof (cid_nonneg n [j]).
    destruct (is_cancelled (set_spawned s r) j).
    + destruct (finished_tot n (set_spawned s r) j (take_spawned_prefin _ _ _ _ I E)) as [A B].
      unfold rest. rewrite B. prj. assert (X : tot n (set_spawned s r) = tot n s - cid n [j]) by (unfold tot; prj; lia). lia.
    + unfold rest, tot. prj. rewrite cid_app. lia.
  - destruct (take_job id (dialing s)) as [[j r]|] eqn:E; [|lia].
    pose proof (take_job_cid n _ _ _ _ E) as Hc. pose proof (cid_nonneg n [j]).
    destruct (finished_tot n (set_dialing s r) j (take_dialing_prefin _ _ _ _ I E)) as [A B].
    unfold rest. rewrite B. prj. assert (X : tot n (set_dialing s r) = tot n s - cid n [j]) by (unfold tot; prj; lia). lia.
Qed.

Lemma drain_tot : forall f s n, Inv2 s -> tot n (drain f s) <= tot n s /\ rest n (drain f s) <= rest n s.
Proof.
  induction f as [|f IH]; intros s n I; cbn [drain]; [lia|]. destruct (spawned s) as [|j r]; [lia|].
  destruct (lstep_tot s (LBegin (jid j)) n (i2core _ I)) as [A B]. cbn [addc] in A, B.
  destruct (IH (lstep s (LBegin (jid j))) n (lstep_inv2 _ _ I)) as [A' B']. lia.
Qed.

Lemma cid_zero : forall n l, ~ In n (map jid l) -> cid n l = 0.
Proof.
  induction l as [|x l IH]; intros H; cbn [cid]; [reflexivity|]. cbn [map In] in H.
  destruct (jid x =? n) eqn:E; [apply Z.eqb_eq in E; tauto|]. rewrite IH; tauto.
Qed.

Lemma cid_pos : forall n l, In n (map jid l) -> 1 <= cid n l.
Proof.
  induction l as [|x l IH]; intros H; [destruct H|]. cbn [cid]. pose proof (cid_nonneg n l).
  destruct H as [H|H]; [cbn in H; rewrite H, Z.eqb_refl; lia | specialize (IH H); destruct (jid x =? n); lia].
Qed.

Lemma cid_nodup : forall l, (forall n, cid n l <= 1) -> NoDup (map jid l).
Proof.
  induction l as [|x l IH]; intros H; cbn [map]; constructor.
  - intros Hin. apply cid_pos in Hin. specialize (H (jid x)). cbn [cid] in H. rewrite Z.eqb_refl in H. lia.
  - apply IH. intros n. specialize (H n). cbn [cid] in H. destruct (jid x =? n); pose proof (cid_nonneg n l); lia.
Qed.

Lemma ins_job_cid : forall n x l, cid n (ins_job x l) = cid n (x :: l).
Proof.
  induction l as [|y l IH]; cbn [ins_job]; [reflexivity|]. destruct (jid x <=? jid y); [reflexivity|].
  cbn [cid] in *. rewrite IH. lia.
Qed.

Lemma sort_jobs_cid : forall n l, cid n (sort_jobs l) = cid n l.
Proof.
  induction l as [|x l IH]; cbn [sort_jobs fold_right]; [reflexivity|]. fold (sort_jobs l).
  rewrite ins_job_cid. cbn [cid]. rewrite IH. reflexivity.
Qed.

(* stimuli whose AddDialJob identities are pairwise distinct (the harness numbers its jobs) *)
Fixpoint fresh_adds (seen : list Z) (xs : list lstim) : Prop :=
  match xs with
  | [] => True
  | SAdd j :: r => ~ In (jid j) seen /\ fresh_adds (jid j :: seen) r
  | _ :: r => fresh_adds seen r
  end.

Record OI (s : lim) (prev gone seen : list Z) : Prop := mkOI {
  o_inv : Inv2 s;
  o_one : forall n, tot n s <= 1;
  o_seen : forall n, 1 <= tot n s -> In n seen;
  o_rest : forall n, In n (prev ++ gone) -> rest n s = 0;
  o_gone : forall n, In n gone -> tot n s = 0;
  o_prev : prev = map jid (sort_jobs (dialing s));
  o_known : forall n, In n gone -> In n seen }.

Lemma tot_nonneg : forall n s, 0 <= tot n s.
Proof. intros. pose proof (rest_nonneg n s). unfold rest in H. pose proof (cid_nonneg n (dialing s)). lia. Qed.

Definition seen_after (seen : list Z) (x : lstim) : list Z :=
  match x with SAdd j => jid j :: seen | _ => seen end.

Lemma once_step : forall s prev gone seen x, OI s prev gone seen ->
  match x with SAdd j => ~ In (jid j) seen | _ => True end ->
  let s' := stim_step s x in
  let now := map jid (o_dial (obs_of s')) in
  let gone' := filter (fun id => negb (mem_z id now)) prev ++ gone in
  nodup_z now && forallb (fun id => negb (mem_z id gone')) now = true /\
  OI s' now gone' (seen_after seen x).
Proof.
  intros s prev gone seen x [I One Sn Rs Gn Pv Kn] Hf s' now gone'.
  set (s1 := lstep s (lop_of x)).
  assert (I1 : Inv2 s1) by (apply lstep_inv2, I).
  assert (Is' : Inv2 s') by (destruct (drain_place (drain_fuel s1) s1 I1) as [A _]; exact A).
  (* per identity: what one stimulus plus the drain does *)
  assert (Step : forall n, tot n s' <= tot n s + addc n (lop_of x) /\ rest n s' <= rest n s + addc n (lop_of x)).
  { intros n. destruct (lstep_tot s (lop_of x) n (i2core _ I)) as [A B].
    destruct (drain_tot (drain_fuel s1) s1 n I1) as [A' B']. fold s1 in A, B. unfold s', stim_step. fold s1. lia. }
  assert (Old : forall n, In n seen -> addc n (lop_of x) = 0).
  { intros n Hn. destruct x as [j| | |]; cbn [lop_of addc cid]; try reflexivity.
    destruct (jid j =? n) eqn:E; [apply Z.eqb_eq in E; subst; contradiction | reflexivity]. }
  assert (One' : forall n, tot n s' <= 1).
  { intros n. destruct (Step n) as [A _]. destruct x as [j| | |]; cbn [lop_of addc cid] in A; try (specialize (One n); lia).
    destruct (jid j =? n) eqn:E; [|specialize (One n); lia]. apply Z.eqb_eq in E. subst n.
    assert (tot (jid j) s <= 0); [|lia]. destruct (Z_le_gt_dec 1 (tot (jid j) s)) as [H|H]; [apply Sn in H; contradiction | lia]. }
  assert (Dn : forall n, cid n (sort_jobs (dialing s')) = cid n (dialing s')) by (intros; apply sort_jobs_cid).
  assert (NowIn : forall n, In n now -> 1 <= cid n (dialing s')).
  { intros n H. unfold now, obs_of in H. cbn [o_dial] in H. apply cid_pos in H. rewrite Dn in H. exact H. }
  assert (NowOut : forall n, ~ In n now -> cid n (dialing s') = 0).
  { intros n H. rewrite <- Dn. apply cid_zero. exact H. }
  assert (Gn' : forall n, In n gone -> tot n s' = 0).
  { intros n H. destruct (Step n) as [A _]. rewrite (Old n (Kn n H)), (Gn n H) in A. pose proof (tot_nonneg n s'). lia. }
  assert (Rs' : forall n, In n (prev ++ gone) -> rest n s' = 0).
  { intros n H. destruct (Step n) as [_ B]. assert (Hs : In n seen).
    { apply in_app_or in H. destruct H as [H|H]; [|apply Kn, H]. apply Sn. rewrite Pv in H. apply cid_pos in H.
      rewrite sort_jobs_cid in H. unfold tot. pose proof (wpsum_nonneg n (waitingOnPeer s)).
      pose proof (cid_nonneg n (waitingOnFd s)). pose proof (cid_nonneg n (spawned s)). lia. }
    rewrite (Old n Hs), (Rs n H) in B. pose proof (rest_nonneg n s'). lia. }
  split.
  - apply andb_true_iff. split.
    + apply c05.Proofs_WorkerMon.nodup_z_true. unfold now, obs_of. cbn [o_dial]. apply cid_nodup.
      intros n. rewrite Dn. specialize (One' n). unfold tot in One'.
      pose proof (wpsum_nonneg n (waitingOnPeer s')). pose proof (cid_nonneg n (waitingOnFd s')). pose proof (cid_nonneg n (spawned s')). lia.
    + apply forallb_forall. intros id Hid. apply negb_true_iff. destruct (mem_z id gone') eqn:E; [|reflexivity]. exfalso.
      apply mem_z_In in E. unfold gone' in E. apply in_app_or in E. destruct E as [E|E].
      * apply filter_In in E. destruct E as [_ E]. apply negb_true_iff in E.
        assert (X : mem_z id now = true) by (apply mem_z_In, Hid). congruence.
      * pose proof (NowIn id Hid). pose proof (Gn' id E). unfold tot in *.
        pose proof (wpsum_nonneg id (waitingOnPeer s')). pose proof (cid_nonneg id (waitingOnFd s')). pose proof (cid_nonneg id (spawned s')). lia.
  - constructor; auto.
    + intros n H. destruct (Step n) as [A _]. destruct x as [j| | |]; cbn [seen_after lop_of addc cid] in *; try (apply Sn; lia).
      destruct (jid j =? n) eqn:E; [left; apply Z.eqb_eq, E | right; apply Sn; lia].
    + intros n H. apply in_app_or in H. destruct H as [H|H].
      * pose proof (NowIn n H). specialize (One' n). pose proof (rest_nonneg n s'). unfold rest in *. lia.
      * apply Rs'. unfold gone' in H. apply in_app_or in H. apply in_or_app.
        destruct H as [H|H]; [left; apply filter_In in H; tauto | right; exact H].
    + intros n H. unfold gone' in H. apply in_app_or in H. destruct H as [H|H]; [|apply Gn', H].
      apply filter_In in H. destruct H as [Hp Hn]. apply negb_true_iff in Hn.
      assert (Nn : ~ In n now) by (intros X; apply mem_z_In in X; congruence).
      pose proof (Rs' n (in_or_app _ _ _ (or_introl Hp))) as R. unfold rest in R. rewrite (NowOut n Nn) in R. lia.
    + intros n H. unfold gone' in H. apply in_app_or in H.
      assert (Ks : forall m, In m seen -> In m (seen_after seen x)) by (intros m Hm; destruct x; cbn [seen_after]; auto; right; exact Hm).
      destruct H as [H|H]; [|apply Ks, Kn, H]. apply filter_In in H. destruct H as [Hp _]. apply Ks, Sn.
      rewrite Pv in Hp. apply cid_pos in Hp. rewrite sort_jobs_cid in Hp. unfold tot.
      pose proof (wpsum_nonneg n (waitingOnPeer s)). pose proof (cid_nonneg n (waitingOnFd s)). pose proof (cid_nonneg n (spawned s)). lia.
Qed.

Lemma once_lim_model : forall xs s prev gone seen i, OI s prev gone seen -> fresh_adds seen xs ->
  once_lim prev gone i (lim_trace s xs) = [].
Proof.
  induction xs as [|x xs IH]; intros s prev gone seen i O F; cbn [lim_trace once_lim]; [reflexivity|].
  assert (Hf : match x with SAdd j => ~ In (jid j) seen | _ => True end) by (destruct x; cbn [fresh_adds] in F; tauto).
  destruct (once_step s prev gone seen x O Hf) as [A B]. cbv zeta in A, B. rewrite A.
  apply (IH _ _ _ (seen_after seen x)); auto. destruct x; cbn [fresh_adds seen_after] in *; tauto.
Qed.

Lemma once_lim_holds_l : forall fdl ppl xs, 0 <= fdl -> 0 <= ppl -> fresh_adds [] xs ->
  once_lim [] [] 0 (lim_trace (init_lim fdl ppl) xs) = [].
Proof.
  intros. apply (once_lim_model xs _ [] [] []); auto. constructor; cbn; auto; try (intros; lia); try (intros n []).
  apply init_inv2; assumption.
Qed.

(* C05 — the drain of SpecComposite terminates: every move that changes anything lowers the bound
   SpecComposite.phi, so after phi rounds nothing moves any more. *)
From Coq Require Import List ZArith Bool Lia Relations.
From Verif Require Import lib.Wire c05.ModelLimiter c05.Proofs_Limiter c05.SpecLimiter c05.Proofs_LimiterMon c05.Proofs_LimiterOnce c05.Proofs_LimiterAll.
From Verif Require Import c05.ModelWorker c05.Proofs_Worker c05.Proofs_WorkerMon c05.ModelSync c05.ModelComposite.
From Verif Require Import c05.Proofs_Composite c05.Proofs_Composite2 c05.Proofs_Composite3 c05.Proofs_Composite4.
From Verif Require Import c05.SpecWorker c05.SpecDialPeer c05.SpecComposite c05.Proofs_CompositeMon c05.Proofs_CompositeH.
From Verif Require Import c05.Proofs_CompositeMon2 c05.Proofs_CompositeJG c05.Proofs_CompositeHI c05.Proofs_CompositeMon4.
From Verif Require Import c05.Proofs_WorkerWt c05.Proofs_LimiterWt.
Import ListNotations.
Local Open Scope Z_scope.

(* ---- sums over a table ------------------------------------------------------------------------- *)
Lemma asum_adel : forall (V : Type) (wt : Z * option V -> Z) c (m : list (Z * option V)),
  NoDup (map fst m) -> (forall k, wt (k, None) = 0) ->
  asum wt m = asum wt (adel c m) + wt (c, aget None c m).
Proof.
  induction m as [|[k v] m IH]; intros N H0; cbn [adel aget asum fold_right]; [rewrite H0; reflexivity|].
  cbn [map fst] in N. apply NoDup_cons_iff in N. destruct N as [H1 Nd]. specialize (IH Nd H0). destruct (k =? c) eqn:E.
  - apply Z.eqb_eq in E. subst k. fold (asum wt m). fold (asum wt (adel c m)).
    assert (X : aget None c m = None).
    { clear - H1. induction m as [|[k' v'] m IH]; [reflexivity|]. cbn [aget]. destruct (k' =? c) eqn:E.
      - apply Z.eqb_eq in E. subst. exfalso. apply H1. left. reflexivity.
      - apply IH. intros X. apply H1. right. exact X. }
    rewrite X, H0 in IH. lia.
  - cbn [asum fold_right]. fold (asum wt m). fold (asum wt (adel c m)). lia.
Qed.

Lemma asum_aput : forall (V : Type) (wt : Z * option V -> Z) c v (m : list (Z * option V)),
  NoDup (map fst m) -> (forall k, wt (k, None) = 0) ->
  asum wt (aput c v m) = asum wt m - wt (c, aget None c m) + wt (c, v).
Proof.
  intros. unfold aput. cbn [asum fold_right]. fold (asum wt (adel c m)). rewrite (asum_adel V wt c m H H0). lia.
Qed.

Lemma asum_ext : forall (A : Type) (f g : A -> Z) l, (forall x, f x = g x) -> asum f l = asum g l.
Proof. induction l as [|x l IH]; intros H; cbn [asum fold_right]; [reflexivity|]. fold (asum f l). fold (asum g l). rewrite IH, H; auto. Qed.

Lemma asum_nonneg : forall (A : Type) (f : A -> Z) l, (forall x, 0 <= f x) -> 0 <= asum f l.
Proof. induction l as [|x l IH]; intros H; cbn [asum fold_right]; [lia|]. fold (asum f l). specialize (IH H). specialize (H x). lia. Qed.

Lemma caller_wt_none : forall e k, caller_wt e (k, None) = 0.
Proof. reflexivity. Qed.

Lemma rank_len_nonneg : forall e c, 0 <= rank_len e c.
Proof. intros. unfold rank_len. destruct (rank_for e c); [apply zlen_nonneg | lia]. Qed.

Lemma caller_wt_nonneg : forall e x, 0 <= caller_wt e x.
Proof.
  intros e [k [r|]]; unfold caller_wt; cbn [snd fst]; [|lia]. pose proof (rank_len_nonneg e k). destruct (cr_phase r); lia.
Qed.

Lemma caller_wt_env : forall e e' x, dn_rank e' = dn_rank e -> caller_wt e' x = caller_wt e x.
Proof. intros e e' x H. unfold caller_wt, rank_len, rank_for. rewrite H. reflexivity. Qed.

Lemma worker_wt_nonneg : forall w, 0 <= worker_wt w.
Proof. intros. unfold worker_wt. pose proof (zlen_nonneg _ (w_dq w)). destruct (w_timer w); lia. Qed.

Definition PA (e : denv) (s : cst) : Z := asum (caller_wt e) (c_callers s).
Definition PB (s : cst) : Z := match live_gen s with Some g => worker_wt (wget g s) | None => 0 end.

Lemma phi_eq : forall e s, phi (e, s) = (if dn_park e then 1 else 0) + PA e s + PB s + lim_wt (c_lim s) + zlen (c_stale s).
Proof. reflexivity. Qed.

Lemma PB_nonneg : forall s, 0 <= PB s.
Proof. intros. unfold PB. destruct (live_gen s); [apply worker_wt_nonneg | lia]. Qed.

Lemma phi_nonneg : forall es, 0 <= phi es.
Proof.
  intros [e s]. rewrite phi_eq. pose proof (asum_nonneg _ (caller_wt e) (c_callers s) (caller_wt_nonneg e)).
  pose proof (PB_nonneg s). pose proof (lim_wt_nonneg (c_lim s)). pose proof (zlen_nonneg _ (c_stale s)).
  unfold PA. destruct (dn_park e); lia.
Qed.

(* the invariants a drain carries *)
Record QI (fdl ppl : Z) (es : denv * cst) : Prop := mkQI {
  q_hi : HI fdl ppl es; q_ap : AP (snd es); q_ck : CK (snd es) }.

Lemma hstep_QI : forall fdl ppl a b, QI fdl ppl a -> hstep a b -> QI fdl ppl b.
Proof.
  intros fdl ppl a b [A B C] St. constructor; [eapply hstep_HI; eauto | eapply hstep_AP; eauto|].
  destruct St; cbn [snd] in *; try exact C; try (apply CK_step; exact C).
  unfold end_job. cbn iota beta. destruct (jget (jid j) s); [cbn [snd]; apply CK_step, CK_step, C | exact C].
Qed.

Lemma hreach_QI : forall fdl ppl a b, hreach a b -> QI fdl ppl a -> QI fdl ppl b.
Proof. intros fdl ppl. apply (hreach_closed (QI fdl ppl)). intros a b H St. eapply hstep_QI; eauto. Qed.

Lemma QI_TI : forall fdl ppl es, QI fdl ppl es -> TIs es.
Proof. intros fdl ppl es H. apply (hi_t _ _ _ (q_hi _ _ _ H)). Qed.

(* ---- the moves of a round, one by one ---------------------------------------------------------- *)
Lemma live_of_caller : forall fdl ppl e s c r, QI fdl ppl (e, s) -> cget c s = Some r -> cr_phase r <> PReturned ->
  live_gen s = Some (cr_gen r).
Proof.
  intros fdl ppl e s c r Q Hc Hp. pose proof (g_livegen _ (ci_g _ _ _ (hi_c _ _ _ (q_hi _ _ _ Q))) c r Hc Hp) as L.
  cbn [snd] in L. rewrite (q_ap _ _ _ Q c r Hc) in L. exact L.
Qed.

Lemma deliver_dich : forall fdl ppl es c, QI fdl ppl es -> deliver_one es c = es \/ phi (deliver_one es c) < phi es.
Proof.
  intros fdl ppl [e s] c Q. unfold deliver_one. destruct (cget c s) as [r|] eqn:Ec; [|left; reflexivity].
  destruct (cr_phase r) eqn:Ep; try (left; reflexivity).
  destruct (is_blocked e (cr_gen r)); [left; reflexivity|].
  destruct (dn_park e) eqn:Ek; right.
  - rewrite !phi_eq. cbn [dn_park de_park]. rewrite Ek. unfold PA.
    rewrite (asum_ext _ (caller_wt (de_park e false (Some (cr_gen r)))) (caller_wt e)) by (intros; apply caller_wt_env; reflexivity). lia.
  - cbn [cstep]. rewrite Ec, Ep. rewrite !phi_eq, Ek.
    set (g := cr_gen r). set (w' := wstep (wget g s) (WReq c (cr_sim r) (cr_fdir r) (okconn e (cr_fdir r)) (rank_for e c))).
    assert (Lg : live_gen s = Some g) by (eapply live_of_caller; eauto; congruence).
    assert (A : PA e (cput c (set_phase r PWaiting) (wput g w' s)) = PA e s - (4 + 4 * rank_len e c) + 2).
    { unfold PA. cprj. rewrite asum_aput; [|apply (q_ck _ _ _ Q)|apply caller_wt_none].
      unfold cget in Ec. rewrite Ec. unfold caller_wt. cbn [snd fst set_phase cr_phase]. rewrite Ep. lia. }
    assert (B : PB (cput c (set_phase r PWaiting) (wput g w' s)) <= PB s + 1 + 4 * rank_len e c).
    { unfold PB. change (live_gen (cput c (set_phase r PWaiting) (wput g w' s))) with (live_gen s). rewrite Lg.
      change (wget g (cput c (set_phase r PWaiting) (wput g w' s))) with (wget g (wput g w' s)). rewrite wget_wput, Z.eqb_refl.
      unfold w', wstep. destruct (w_stopped (wget g s)); [pose proof (rank_len_nonneg e c); lia|].
      pose proof (on_request_wt (wget g s) c (cr_sim r) (cr_fdir r) (okconn e (cr_fdir r)) (rank_for e c)) as X.
      unfold rank_len. unfold rk_len in X. exact X. }
    rewrite A. cprj. lia.
Qed.

Lemma adds_wt : forall g p news s, Inv2 (c_lim s) ->
  lim_wt (c_lim (fold_left (add_addr_job g p) news s)) <= lim_wt (c_lim s) + 2 * zlen news.
Proof.
  induction news as [|a r IH]; intros s I; cbn [fold_left]; [rewrite zlen_nil; lia|]. rewrite zlen_cons.
  eapply Z.le_trans; [apply IH; unfold add_addr_job; cprj; apply lstep_inv2, I|].
  unfold add_addr_job. cprj. match goal with |- context [LAdd ?x] => pose proof (lstep_wt_add (c_lim s) x (i2core _ I)) end. lia.
Qed.

Lemma zlen_skipn : forall (A : Type) (l : list A) n, (n <= length l)%nat -> zlen (skipn n l) = zlen l - Z.of_nat n.
Proof. intros. unfold zlen. rewrite skipn_length. lia. Qed.

Lemma timer_strict : forall fdl ppl e s g t, QI fdl ppl (e, s) -> live_gen s = Some g -> timer_due e s g (dn_now e) = Some t ->
  phi (e, cstep s (CTimer g (dn_backoff e) (dbestl e s g))) < phi (e, s).
Proof.
  intros fdl ppl e s g t Q Eg Et.
  unfold timer_due in Et. destruct (w_stopped (wget g s) || is_blocked e g) eqn:Es; [discriminate|].
  apply orb_false_iff in Es. destruct Es as [Es _]. destruct (w_timer (wget g s)) as [tm|] eqn:Etm; [|discriminate].
  pose proof (hi_c _ _ _ (q_hi _ _ _ Q)) as Ci. cbn [snd] in Ci.
  destruct (g_gen _ (ci_g _ _ _ Ci) PEER g Eg) as [_ [_ [_ [_ [_ Gn]]]]].
  cbn [cstep]. assert (Gl : (g <? c_next s) = true) by (apply Z.ltb_lt; exact Gn). rewrite Gl.
  set (w := wget g s). set (w' := wstep w (WTimer (dn_backoff e) (dbestl e s g))).
  assert (Ew : w' = on_timer w (dn_backoff e) (dbestl e s g)) by (unfold w', wstep, w; rewrite Es; reflexivity).
  destruct (on_timer_wt w (dn_backoff e) (dbestl e s g)) as [W1 W2]; [unfold w; rewrite Etm; discriminate|]. cbv zeta in W1, W2. rewrite <- Ew in W1, W2.
  set (news := skipn (length (w_dials w)) (w_dials w')).
  assert (Ln : zlen news = zlen (w_dials w') - zlen (w_dials w)).
  { unfold news. rewrite zlen_skipn; [unfold zlen; lia | unfold zlen in W2; lia]. }
  destruct (add_jobs_frame g (aget 0 g (c_gpeer s)) news (wput g w' s)) as [A [_ [C [D [_ [F _]]]]]]. cbv zeta in A, C, D, F.
  pose proof (adds_wt g (aget 0 g (c_gpeer s)) news (wput g w' s)) as L. cprj.
  specialize (L (proj1 (ci_lim _ _ _ Ci))).
  rewrite !phi_eq. unfold PA, PB, live_gen, wget. rewrite A, C, D, F. cprj. fold (live_gen s). rewrite Eg.
  rewrite aget_aput, Z.eqb_refl. fold (wget g s). fold w. lia.
Qed.

Lemma timer_dich : forall fdl ppl es, QI fdl ppl es -> fire_timer es = es \/ phi (fire_timer es) < phi es.
Proof.
  intros fdl ppl [e s] Q. unfold fire_timer. destruct (live_gen s) as [g|] eqn:Eg; [|left; reflexivity].
  destruct (timer_due e s g (dn_now e)) as [t|] eqn:Et; [|left; reflexivity]. right. eapply timer_strict; eauto.
Qed.

Lemma QI_inv : forall fdl ppl e s, QI fdl ppl (e, s) -> Inv (c_lim s).
Proof. intros fdl ppl e s Q. apply i2core. apply (proj1 (ci_lim _ _ _ (hi_c _ _ _ (q_hi _ _ _ Q)))). Qed.

Lemma begin_dich : forall fdl ppl e s j, QI fdl ppl (e, s) -> In j (spawned (c_lim s)) -> phi (begin_one (e, s) j) < phi (e, s).
Proof.
  intros fdl ppl e s j Q Hj. unfold begin_one. rewrite !phi_eq. cbn [cstep]. cprj.
  pose proof (begin_wt (c_lim s) j (QI_inv _ _ _ _ Q) Hj) as X.
  assert (Ee : forall e', dn_park e' = dn_park e -> dn_rank e' = dn_rank e ->
     (if dn_park e' then 1 else 0) + PA e' (set_lim s (lstep (c_lim s) (LBegin (jid j)))) = (if dn_park e then 1 else 0) + PA e s).
  { intros e' E1 E2. rewrite E1. unfold PA. cprj. rewrite (asum_ext _ (caller_wt e') (caller_wt e)) by (intros; apply caller_wt_env; exact E2). reflexivity. }
  rewrite Ee by (destruct (negb _); reflexivity).
  change (PB (lim_do s (LBegin (jid j)))) with (PB s). lia.
Qed.

Lemma in_dialing_true : forall l j, In j (dialing l) -> in_dialing (jid j) l = true.
Proof. intros l j H. unfold in_dialing. apply existsb_exists. exists j. split; [exact H | apply Z.eqb_refl]. Qed.

Lemma end_dich : forall fdl ppl e s j, QI fdl ppl (e, s) -> In j (dialing (c_lim s)) -> is_cancelled (c_lim s) j = true ->
  phi (end_job (e, s) (jid j) (DRFail ECanceled)) < phi (e, s).
Proof.
  intros fdl ppl e s j Q Hj Hc. pose proof (q_hi _ _ _ Q) as Hi. pose proof (hi_c _ _ _ Hi) as Ci. cbn [snd] in Ci.
  destruct (ap_dl _ _ (hi_j _ _ _ Hi) j Hj) as [Hn [jr [Hr Hg]]]. cbn [snd] in Hr.
  unfold end_job. rewrite Hr. set (bl := dbestl e s (jr_gen jr)).
  set (s1 := cstep s (CRes (jid j) (DRFail ECanceled) bl)).
  (* the worker that hears of it is not the live one *)
  assert (Ng : forall g, live_gen s = Some g -> g <> jr_gen jr).
  { intros g Lg E. destruct (g_gen _ (ci_g _ _ _ Ci) PEER g Lg) as [_ [_ [Nc _]]]. apply Nc. rewrite E, Hg.
    destruct (in_dec Z.eq_dec (jgrp j) (cancelledG (c_lim s))) as [X|X]; [exact X | apply is_cancelled_false in X; congruence]. }
  assert (S1 : c_lim s1 = c_lim s /\ c_callers s1 = c_callers s /\ c_stale s1 = c_stale s /\ c_gen s1 = c_gen s /\
               (forall g, live_gen s = Some g -> wget g s1 = wget g s) /\
               exists jr1, jget (jid j) s1 = Some jr1 /\ jr_reported jr1 = true).
  { unfold s1. cbn [cstep]. rewrite Hr. rewrite (in_dialing_true _ _ Hj), andb_true_r. destruct (jr_reported jr) eqn:Er; cbn [negb].
    - repeat split; try reflexivity. exists jr. split; assumption.
    - cprj. repeat split; try reflexivity.
      + intros g Lg. unfold wget. cprj. rewrite aget_aput. destruct (jr_gen jr =? g) eqn:E; [|reflexivity].
        apply Z.eqb_eq in E. exfalso. apply (Ng g Lg). symmetry. exact E.
      + eexists. unfold jget. cprj. rewrite aget_aput, Z.eqb_refl. split; reflexivity. }
  destruct S1 as [E1 [E2 [E3 [E4 [E5 [jr1 [E6 E7]]]]]]].
  cbn [cstep]. rewrite E6, E7. rewrite !phi_eq. cbn [dn_park de_se]. cprj. rewrite E1, E3.
  pose proof (return_wt (c_lim s) j (QI_inv _ _ _ _ Q) Hj) as X.
  assert (Pa : PA (de_se e (dn_starts e) (dn_ends e ++ [jr_addr jr])) (lim_do s1 (LReturn (jid j))) = PA e s).
  { unfold PA. cprj. rewrite E2. apply asum_ext. intros. apply caller_wt_env. reflexivity. }
  assert (Pb : PB (lim_do s1 (LReturn (jid j))) = PB s).
  { unfold PB, live_gen. cprj. rewrite E4. fold (live_gen s). destruct (live_gen s) as [g|] eqn:Lg; [|reflexivity].
    change (wget g (lim_do s1 (LReturn (jid j)))) with (wget g s1). rewrite (E5 g eq_refl). reflexivity. }
  rewrite Pa, Pb. lia.
Qed.

Lemma do_leave_phi : forall fdl ppl e s c r k, QI fdl ppl (e, s) -> cget c s = Some r -> cr_phase r <> PReturned ->
  phi (e, do_leave s c r k) < phi (e, s).
Proof.
  intros fdl ppl e s c r k Q Hc Hp. rewrite !phi_eq.
  assert (Wt : 2 <= caller_wt e (c, Some r)).
  { unfold caller_wt. cbn [snd fst]. pose proof (rank_len_nonneg e c). destruct (cr_phase r); try lia. congruence. }
  assert (Pa : forall s', c_callers s' = aput c (Some (set_phase r PReturned)) (c_callers s) -> PA e s' = PA e s - caller_wt e (c, Some r)).
  { intros s' E. unfold PA. rewrite E, asum_aput; [|apply (q_ck _ _ _ Q)|apply caller_wt_none].
    unfold cget in Hc. rewrite Hc.
    assert (Z0 : caller_wt e (c, Some (set_phase r PReturned)) = 0) by reflexivity. rewrite Z0. lia. }
  assert (Parts : c_callers (do_leave s c r k) = aput c (Some (set_phase r PReturned)) (c_callers s) /\
     ((c_gen (do_leave s c r k) = c_gen s /\ c_w (do_leave s c r k) = c_w s /\ c_lim (do_leave s c r k) = c_lim s /\
       c_stale (do_leave s c r k) = c_stale s) \/
      (c_gen (do_leave s c r k) = adel (cr_peer r) (c_gen s) /\ c_lim (do_leave s c r k) = lstep (c_lim s) (LCancel (cr_gen r)) /\
       c_stale (do_leave s c r k) = c_stale s ++ [cr_gen r]))).
  { unfold do_leave. cprj. destruct (p_active _); cprj; split; try reflexivity; [left | right]; repeat split. }
  destruct Parts as [Ec [[E1 [E2 [E3 E4]]]|[E1 [E3 E4]]]]; rewrite (Pa _ Ec), E3, E4.
  - assert (Pb : PB (do_leave s c r k) = PB s) by (unfold PB, live_gen, wget; rewrite E1, E2; reflexivity). rewrite Pb. lia.
  - assert (Pb : PB (do_leave s c r k) = 0).
    { unfold PB, live_gen. rewrite E1, aget_adel, (q_ap _ _ _ Q c r Hc), Z.eqb_refl. reflexivity. }
    rewrite Pb. pose proof (PB_nonneg s). rewrite zlen_app, zlen_cons, zlen_nil.
    assert (Lw : lim_wt (lstep (c_lim s) (LCancel (cr_gen r))) = lim_wt (c_lim s)) by reflexivity. rewrite Lw. lia.
Qed.

Lemma leave_dich : forall fdl ppl es c, QI fdl ppl es -> leave_one es c = es \/ phi (leave_one es c) < phi es.
Proof.
  intros fdl ppl [e s] c Q. unfold leave_one. cbn [cstep]. destruct (cget c s) as [r|] eqn:Ec; [|left; reflexivity].
  assert (Lv : forall k, cr_phase r <> PReturned -> (e, do_leave s c r k) = (e, s) \/ phi (e, do_leave s c r k) < phi (e, s)).
  { intros k Hp. right. eapply do_leave_phi; eauto. }
  destruct (cr_phase r) eqn:Ep; try (left; reflexivity).
  - destruct (cr_canc r); [apply Lv; congruence | left; reflexivity].
  - destruct (resp_of c _) as [[|]|]; try (apply Lv; congruence). destruct (cr_canc r); [apply Lv; congruence | left; reflexivity].
Qed.

Lemma remove1_zlen : forall g l, In g l -> zlen (remove1 g l) = zlen l - 1.
Proof.
  induction l as [|y l IH]; intros H; [destruct H|]. cbn [remove1]. destruct (y =? g) eqn:E; [rewrite zlen_cons; lia|].
  destruct H as [->|H]; [rewrite Z.eqb_refl in E; discriminate|]. rewrite !zlen_cons, IH by exact H. lia.
Qed.

(* the exit of a closed worker: identity exactly when it is parked or not pending *)
Lemma exit_dich : forall fdl ppl es g, QI fdl ppl es ->
  (exit_one es g = es /\ (is_blocked (fst es) g = true \/ ~ In g (c_stale (snd es)))) \/ phi (exit_one es g) < phi es.
Proof.
  intros fdl ppl [e s] g Q. unfold exit_one. cbn [fst snd]. destruct (is_blocked e g); [left; split; [reflexivity | left; reflexivity]|].
  cbn [cstep]. destruct (memz g (c_stale s)) eqn:Em.
  - right. apply memz_In in Em. rewrite !phi_eq. cprj.
    pose proof (lstep_wt0 (c_lim s) (LClear (aget 0 g (c_gpeer s))) (QI_inv _ _ _ _ Q)) as X.
    rewrite (remove1_zlen _ _ Em).
    match goal with |- context [PA e ?x] => change (PA e x) with (PA e s) end.
    match goal with |- context [PB ?x] => change (PB x) with (PB s) end.
    assert (Y : lim_wt (lstep (c_lim s) (LClear (aget 0 g (c_gpeer s)))) <= lim_wt (c_lim s)) by (apply X; discriminate). lia.
  - left. split; [reflexivity|]. right. intros X. apply memz_In in X. congruence.
Qed.

(* ---- a round: nothing moves, or the bound drops ------------------------------------------------ *)
Definition Dich (a b : denv * cst) : Prop := b = a \/ phi b < phi a.

Lemma Dich_refl : forall a, Dich a a. Proof. left. reflexivity. Qed.
Lemma Dich_trans : forall a b c, Dich a b -> Dich b c -> Dich a c.
Proof. intros a b c [->|H1] [->|H2]; [left; reflexivity | right; exact H2 | right; exact H1 | right; lia]. Qed.
Lemma Dich_le : forall a b, Dich a b -> phi b <= phi a.
Proof. intros a b [->|H]; lia. Qed.
Lemma Dich_eq : forall a b, Dich a b -> phi a <= phi b -> b = a.
Proof. intros a b [->|H] L; [reflexivity | lia]. Qed.

Section Folds.
  Variables fdl ppl : Z.

  Lemma fold_dich : forall (A : Type) (f : denv * cst -> A -> denv * cst),
    (forall es a, QI fdl ppl es -> Dich es (f es a)) -> (forall es a, QI fdl ppl es -> QI fdl ppl (f es a)) ->
    forall l es, QI fdl ppl es ->
    Dich es (fold_left f l es) /\ QI fdl ppl (fold_left f l es) /\
    (fold_left f l es = es -> forall a, In a l -> f es a = es).
  Proof.
    intros A f Hd Hq. induction l as [|a r IH]; intros es Q; cbn [fold_left].
    - split; [apply Dich_refl|]. split; [exact Q | intros _ a []].
    - pose proof (Hd es a Q) as D1. destruct (IH (f es a) (Hq es a Q)) as [D2 [Q2 F2]].
      split; [eapply Dich_trans; eauto|]. split; [exact Q2|]. intros E.
      assert (E1 : f es a = es).
      { apply (Dich_eq _ _ D1). rewrite <- E at 1. apply Dich_le, D2. }
      rewrite E1 in *. intros a' [<-|Ha]; [exact E1 | apply F2; assumption].
  Qed.

  Lemma begin_fold_dich : forall l es, QI fdl ppl es -> NoDup (map jid l) -> incl l (spawned (c_lim (snd es))) ->
    ((l = [] /\ fold_left begin_one l es = es) \/ phi (fold_left begin_one l es) < phi es) /\ QI fdl ppl (fold_left begin_one l es).
  Proof.
    induction l as [|j r IH]; intros [e s] Q N I; cbn [fold_left]; [split; [left; split; reflexivity | exact Q]|].
    assert (Hj : In j (spawned (c_lim s))) by (apply I; left; reflexivity).
    pose proof (begin_dich fdl ppl e s j Q Hj) as D1.
    assert (Q1 : QI fdl ppl (begin_one (e, s) j)) by (eapply hstep_QI; [exact Q | apply HBegin, Hj]).
    inversion N; subst.
    destruct (IH (begin_one (e, s) j) Q1 H2) as [D2 Q2].
    { intros x Hx. unfold begin_one. cbn [snd cstep]. cprj. apply begin_keeps_spawned; [apply I; right; exact Hx|].
      intros E. apply H1. rewrite <- E. apply in_map, Hx. }
    split; [right | exact Q2]. destruct D2 as [[_ E]|D2]; [rewrite E; exact D1 | lia].
  Qed.

  Lemma end_fold_dich : forall l es, QI fdl ppl es -> NoDup (map jid l) ->
    (forall j, In j l -> In j (dialing (c_lim (snd es))) /\ is_cancelled (c_lim (snd es)) j = true) ->
    let f := fun x n => end_job x n (DRFail ECanceled) in
    ((l = [] /\ fold_left f (map jid l) es = es) \/ phi (fold_left f (map jid l) es) < phi es) /\ QI fdl ppl (fold_left f (map jid l) es).
  Proof.
    induction l as [|j r IH]; intros [e s] Q N I f; cbn [map fold_left]; [split; [left; split; reflexivity | exact Q]|].
    destruct (I j (or_introl eq_refl)) as [I1 I2]. cbn [snd] in I1, I2.
    pose proof (end_dich fdl ppl e s j Q I1 I2) as D1.
    assert (Q1 : QI fdl ppl (f (e, s) (jid j))) by (eapply hstep_QI; [exact Q | apply HEnd; assumption]).
    inversion N; subst.
    destruct (IH (f (e, s) (jid j)) Q1 H2) as [D2 Q2].
    { intros x Hx. destruct (I x (or_intror Hx)) as [X1 X2]. cbn [snd] in X1, X2.
      assert (Ne : jid x <> jid j) by (intros E; apply H1; rewrite <- E; apply in_map, Hx).
      unfold f. destruct (end_job_lim e s (jid j) (DRFail ECanceled)) as [L|L]; rewrite L.
      - split; assumption.
      - split; [apply return_keeps_dialing; assumption|]. rewrite (is_cancelled_eq (c_lim s)); [exact X2 | apply lstep_cancG]. }
    unfold f in *. split; [right | exact Q2]. destruct D2 as [[_ E]|D2]; [rewrite E; exact D1 | lia].
  Qed.

  Lemma exit_fold_dich : forall l es, QI fdl ppl es ->
    ((fold_left exit_one l es = es /\ forall g, In g l -> is_blocked (fst es) g = true \/ ~ In g (c_stale (snd es))) \/
     phi (fold_left exit_one l es) < phi es) /\ QI fdl ppl (fold_left exit_one l es).
  Proof.
    induction l as [|g r IH]; intros es Q; cbn [fold_left]; [split; [left; split; [reflexivity | intros g []] | exact Q]|].
    assert (Q1 : QI fdl ppl (exit_one es g)) by (eapply hreach_QI; [apply exit_reach | exact Q]).
    destruct (IH (exit_one es g) Q1) as [D2 Q2]. split; [|exact Q2].
    destruct (exit_dich fdl ppl es g Q) as [[E R]|D1].
    - rewrite E in *. destruct D2 as [[E2 R2]|D2]; [left | right; exact D2]. split; [exact E2|].
      intros g' [<-|Hg]; [exact R | apply R2, Hg].
    - right. destruct D2 as [[E2 _]|D2]; [rewrite E2; exact D1 | lia].
  Qed.
End Folds.

(* nothing can move *)
Record Quiet (es : denv * cst) : Prop := mkQuiet {
  qt_deliver : forall c, In c (caller_ids (snd es)) -> deliver_one es c = es;
  qt_timer : fire_timer es = es;
  qt_spawned : spawned (c_lim (snd es)) = [];
  qt_cancelled : cancelled_dialing (snd es) = [];
  qt_leave : forall c, In c (caller_ids (snd es)) -> leave_one es c = es;
  qt_exit : forall g, In g (c_stale (snd es)) -> is_blocked (fst es) g = true }.

Lemma round_dich : forall fdl ppl es, QI fdl ppl es ->
  Dich es (round es) /\ QI fdl ppl (round es) /\ (round es = es -> Quiet es).
Proof.
  intros fdl ppl es Q. unfold round.
  set (es1 := fold_left deliver_one (caller_ids (snd es)) es).
  destruct (fold_dich fdl ppl Z deliver_one (fun x c q => deliver_dich fdl ppl x c q)
              (fun x c q => hreach_QI fdl ppl _ _ (deliver_reach x c) q) (caller_ids (snd es)) es Q) as [D1 [Q1 F1]].
  fold es1 in D1, Q1, F1.
  set (es2 := fire_timer es1). pose proof (timer_dich fdl ppl es1 Q1) as D2. fold es2 in D2.
  assert (Q2 : QI fdl ppl es2) by (eapply hreach_QI; [apply timer_reach | exact Q1]).
  set (es3 := fold_left begin_one (spawned (c_lim (snd es2))) es2).
  destruct (begin_fold_dich fdl ppl (spawned (c_lim (snd es2))) es2 Q2 (TI_spawned_nodup _ (QI_TI _ _ _ Q2)) (incl_refl _)) as [D3 Q3].
  fold es3 in D3, Q3.
  set (es4 := fold_left (fun x n => end_job x n (DRFail ECanceled)) (cancelled_dialing (snd es3)) es3).
  destruct (end_fold_dich fdl ppl (filter (fun j => is_cancelled (c_lim (snd es3)) j) (dialing (c_lim (snd es3)))) es3 Q3) as [D4 Q4].
  { apply nodup_map_filter, TI_dialing_nodup, (QI_TI _ _ _ Q3). }
  { intros j Hj. apply filter_In in Hj. exact Hj. }
  cbv zeta in D4, Q4. rewrite <- cancelled_dialing_map in D4, Q4. fold es4 in D4, Q4.
  set (es5 := fold_left leave_one (caller_ids (snd es4)) es4).
  destruct (fold_dich fdl ppl Z leave_one (fun x c q => leave_dich fdl ppl x c q)
              (fun x c q => hreach_QI fdl ppl _ _ (leave_reach x c) q) (caller_ids (snd es4)) es4 Q4) as [D5 [Q5 F5]].
  fold es5 in D5, Q5, F5.
  destruct (exit_fold_dich fdl ppl (c_stale (snd es5)) es5 Q5) as [D6 Q6].
  set (es6 := fold_left exit_one (c_stale (snd es5)) es5) in *.
  (* the chain *)
  assert (L3 : phi es3 <= phi es2) by (destruct D3 as [[_ E]|D3]; [rewrite E; lia | lia]).
  assert (L4 : phi es4 <= phi es3) by (destruct D4 as [[_ E]|D4]; [rewrite E; lia | lia]).
  assert (L6 : phi es6 <= phi es5) by (destruct D6 as [[E _]|D6]; [rewrite E; lia | lia]).
  pose proof (Dich_le _ _ D1) as L1. pose proof (Dich_le _ _ D2) as L2. pose proof (Dich_le _ _ D5) as L5.
  split; [|split; [exact Q6|]].
  - destruct (Z.eq_dec (phi es6) (phi es)) as [E|E]; [|right; lia]. left.
    assert (E1 : es1 = es) by (apply (Dich_eq _ _ D1); lia). assert (E2 : es2 = es1) by (apply (Dich_eq _ _ D2); lia).
    assert (E3 : es3 = es2) by (destruct D3 as [[_ X]|X]; [exact X | lia]).
    assert (E4 : es4 = es3) by (destruct D4 as [[_ X]|X]; [exact X | lia]).
    assert (E5 : es5 = es4) by (apply (Dich_eq _ _ D5); lia).
    assert (E6 : es6 = es5) by (destruct D6 as [[X _]|X]; [exact X | lia]). congruence.
  - intros E. assert (Ep : phi es6 = phi es) by (rewrite E; reflexivity).
    assert (E1 : es1 = es) by (apply (Dich_eq _ _ D1); lia). assert (E2 : es2 = es1) by (apply (Dich_eq _ _ D2); lia).
    assert (E3 : es3 = es2) by (destruct D3 as [[_ X]|X]; [exact X | lia]).
    assert (E4 : es4 = es3) by (destruct D4 as [[_ X]|X]; [exact X | lia]).
    assert (E5 : es5 = es4) by (apply (Dich_eq _ _ D5); lia).
    constructor.
    + apply F1, E1.
    + rewrite <- E1 at 2. rewrite <- E1. exact E2.
    + destruct D3 as [[X _]|X]; [|lia]. rewrite E2, E1 in X. exact X.
    + destruct D4 as [[X _]|X]; [|lia]. rewrite E3, E2, E1 in X.
      rewrite cancelled_dialing_map. rewrite X. reflexivity.
    + rewrite E4, E3, E2, E1 in F5. apply F5. rewrite <- E1, <- E2, <- E3, <- E4. exact E5.
    + destruct D6 as [[_ X]|X]; [|lia]. rewrite E5, E4, E3, E2, E1 in X. intros g Hg. destruct (X g Hg) as [Y|Y]; [exact Y | contradiction].
Qed.

Lemma rounds_fixed : forall fdl ppl n es, QI fdl ppl es -> round es = es -> rounds n es = es.
Proof. induction n as [|n IH]; intros es Q E; cbn [rounds]; [reflexivity|]. rewrite E. apply IH; assumption. Qed.

Lemma rounds_quiet : forall fdl ppl n es, QI fdl ppl es -> phi es <= Z.of_nat n ->
  round (rounds n es) = rounds n es /\ QI fdl ppl (rounds n es).
Proof.
  induction n as [|n IH]; intros es Q L; cbn [rounds].
  - destruct (round_dich fdl ppl es Q) as [[E|D] _]; [split; assumption|]. pose proof (phi_nonneg (round es)). lia.
  - destruct (round_dich fdl ppl es Q) as [[E|D] [Q1 _]].
    + rewrite E. rewrite (rounds_fixed fdl ppl n es Q E). split; assumption.
    + apply IH; [exact Q1 | lia].
Qed.

(* a drain ends in a state in which nothing can move *)
Theorem drain_quiet : forall fdl ppl es, QI fdl ppl es -> Quiet (drain es) /\ QI fdl ppl (drain es).
Proof.
  intros fdl ppl es Q. unfold drain.
  destruct (rounds_quiet fdl ppl (Z.to_nat (phi es)) es Q) as [E Q1]; [pose proof (phi_nonneg es); lia|].
  split; [|exact Q1]. destruct (round_dich fdl ppl _ Q1) as [_ [_ F]]. apply F, E.
Qed.

(* ---- moves that are enabled do lower the bound ---------------------------------------------------- *)
Lemma deliver_strict : forall fdl ppl e s c r, QI fdl ppl (e, s) -> cget c s = Some r -> cr_phase r = PSending ->
  is_blocked e (cr_gen r) = false -> deliver_one (e, s) c <> (e, s).
Proof.
  intros fdl ppl e s c r Q Hc Hp Hb E. unfold deliver_one in E. rewrite Hc, Hp, Hb in E. destruct (dn_park e) eqn:Ek.
  - inversion E as [E1]. apply (f_equal dn_park) in E1. cbn in E1. congruence.
  - assert (X : cget c (cstep s (CDeliver c (okconn e (cr_fdir r)) (rank_for e c))) = cget c s) by (inversion E as [E1]; rewrite E1; exact E1 || congruence).
    cbn [cstep] in X. rewrite Hc, Hp in X. rewrite cget_cput, Z.eqb_refl in X. inversion X as [X1].
    apply (f_equal cr_phase) in X1. cbn in X1. congruence.
Qed.

Lemma leave_strict : forall fdl ppl e s c r k, QI fdl ppl (e, s) -> cget c s = Some r -> cr_phase r = PWaiting ->
  resp_of c (w_resps (wget (cr_gen r) s)) = Some k -> phi (leave_one (e, s) c) < phi (e, s).
Proof.
  intros fdl ppl e s c r k Q Hc Hp Hr. unfold leave_one. cbn [cstep]. rewrite Hc, Hp, Hr.
  destruct k; eapply do_leave_phi; eauto; congruence.
Qed.

(* C05 — composite LTS, part 5: the property's headline clauses read off the invariants. *)
From Coq Require Import List ZArith Bool Lia Permutation.
From Verif Require Import c05.ModelLimiter c05.Proofs_Limiter c05.Proofs_LimiterMon.
From Verif Require Import c05.ModelWorker c05.Proofs_Worker c05.Proofs_WorkerMon c05.Proofs_WorkerFly.
From Verif Require Import c05.ModelSync c05.Proofs_Sync c05.ModelComposite.
From Verif Require Import c05.Proofs_Composite c05.Proofs_Composite2 c05.Proofs_Composite3 c05.Proofs_Composite4.
Import ListNotations.
Local Open Scope Z_scope.

Definition reach (fdl ppl : Z) (fd : list Z) (ls : list clabel) : cst := crun (init_c fdl ppl fd) ls.

Lemma reach_cinv : forall fdl ppl fd ls, 0 <= fdl -> 0 <= ppl -> Forall wf_label ls ->
  CInv fdl ppl (reach fdl ppl fd ls).
Proof. intros. apply crun_cinv; [apply init_cinv; assumption | assumption]. Qed.

(* 1a. no DialPeer call is answered twice (needs no hypothesis on the labels) *)
Lemma answered_at_most_once_l : forall fdl ppl fd ls, NoDup (map fst (c_rets (reach fdl ppl fd ls))).
Proof. intros. apply (r_nodup _ (crun_rinv ls _ (init_rinv fdl ppl fd))). Qed.

Lemma resp_of_in : forall c l, In c (map fst l) -> resp_of c l <> None.
Proof.
  induction l as [|[k r] l IH]; intros H; [destruct H|]. cbn [resp_of]. destruct (k =? c) eqn:E; [discriminate|].
  apply IH. destruct H as [H|H]; [cbn in H; subst; rewrite Z.eqb_refl in E; discriminate | exact H].
Qed.

(* 1b. a caller inside can always move on: its request is taken, or its worker still has
   something scheduled or in flight, or the answer is there for it to take *)
Lemma answer_available_l : forall fdl ppl fd ls, 0 <= fdl -> 0 <= ppl -> Forall wf_label ls ->
  let s := reach fdl ppl fd ls in
  forall c r, cget c s = Some r -> cr_phase r = PWaiting ->
  let w := wget (cr_gen r) s in
  w_dq w = [] -> w_inflight w = 0 -> resp_of c (w_resps w) <> None.
Proof.
  intros fdl ppl fd ls H1 H2 Hl s c r Hc Hp w Hq Hi.
  destruct (reach_cinv fdl ppl fd ls H1 H2 Hl) as [_ _ _ W S]. fold s in W, S.
  apply resp_of_in. destruct (w_all s W (cr_gen r)) as [IW _].
  apply (answered_at_quiet w IW Hq Hi). apply (S c r Hc Hp).
Qed.

(* a cancelled caller is answered by its next step *)
Lemma cancelled_caller_returns_l : forall s c r pick, cget c s = Some r -> cr_phase r <> PReturned ->
  cr_canc r = true -> In c (map fst (c_rets (cstep s (CLeave c pick)))).
Proof.
  intros s c r pick Hc Hp Hk. cbn [cstep]. rewrite Hc.
  assert (L : forall k, In c (map fst (c_rets (do_leave s c r k)))).
  { intros k. unfold do_leave. cprj. destruct (p_active _); cprj; rewrite map_app; apply in_or_app; right; left; reflexivity. }
  destruct (cr_phase r); try congruence.
  - rewrite Hk. apply L.
  - destruct (resp_of c _) as [[|]|]; try apply L. rewrite Hk. apply L.
Qed.

(* 2. one worker per peer, shared by the concurrent callers; dedup inside a worker *)
Lemma callers_share_l : forall fdl ppl fd ls,
  let s := reach fdl ppl fd ls in
  forall c c' r r', cget c s = Some r -> cget c' s = Some r' ->
    cr_phase r <> PReturned -> cr_phase r' <> PReturned -> cr_peer r = cr_peer r' -> cr_gen r = cr_gen r'.
Proof.
  intros fdl ppl fd ls s c c' r r' H1 H2 L1 L2 Ep.
  pose proof (crun_ginv ls _ (init_ginv fdl ppl fd)) as G. fold (reach fdl ppl fd ls) in G. fold s in G.
  pose proof (g_livegen s G c r H1 L1) as A. pose proof (g_livegen s G c' r' H2 L2) as B. rewrite Ep in A. congruence.
Qed.

Lemma dedup_l : forall fdl ppl fd ls, 0 <= fdl -> 0 <= ppl -> Forall wf_label ls ->
  let s := reach fdl ppl fd ls in
  (forall g, NoDup (w_dials (wget g s))) /\
  (forall n n' j j', jget n s = Some j -> jget n' s = Some j' -> jr_gen j = jr_gen j' -> jr_addr j = jr_addr j' -> n = n') /\
  (forall n j, jget n s = Some j -> In (jr_addr j) (w_dials (wget (jr_gen j) s))).
Proof.
  intros fdl ppl fd ls H1 H2 Hl s. destruct (reach_cinv fdl ppl fd ls H1 H2 Hl) as [_ _ _ W _]. fold s in W.
  split; [|split].
  - intros g. destruct (w_all s W g) as [[_ [_ S]] _]. apply (sC1 _ _ S).
  - apply (w_uniq s W).
  - apply (w_dial s W).
Qed.

(* 4. a caller that leaves (cancelled or answered) while another caller of the same peer is
   inside does not cancel the shared dials: the generation stays live *)
Lemma leaving_keeps_others_l : forall fdl ppl fd ls c pick,
  let s := reach fdl ppl fd ls in
  let s' := cstep s (CLeave c pick) in
  forall c' r', c' <> c -> cget c' s = Some r' -> cr_phase r' <> PReturned ->
    aget None (cr_peer r') (c_gen s') = Some (cr_gen r') /\
    w_stopped (wget (cr_gen r') s') = false /\ ~ In (cr_gen r') (cancelledG (c_lim s')) /\
    p_active (sget (cr_peer r') (c_sync s')) = true.
Proof.
  intros fdl ppl fd ls c pick s s' c' r' Hn Hc Hl.
  pose proof (crun_ginv ls _ (init_ginv fdl ppl fd)) as G. fold (reach fdl ppl fd ls) in G. fold s in G.
  pose proof (cstep_ginv s (CLeave c pick) G) as G'. fold s' in G'.
  assert (Hc' : cget c' s' = Some r').
  { unfold s'. cbn [cstep]. destruct (cget c s) as [r|] eqn:Ec; [|exact Hc].
    assert (L : forall k, cget c' (do_leave s c r k) = Some r').
    { intros k. unfold do_leave. cprj. destruct (p_active _); unfold cget in *; cprj; rewrite aget_aput;
        (destruct (c =? c') eqn:E; [apply Z.eqb_eq in E; congruence | exact Hc]). }
    destruct (cr_phase r); try exact Hc.
    - destruct (cr_canc r); [apply L | exact Hc].
    - destruct (resp_of c _) as [[|]|]; try apply L. destruct (cr_canc r); [apply L | exact Hc]. }
  pose proof (g_livegen s' G' c' r' Hc' Hl) as Hg. destruct (g_gen s' G' _ _ Hg) as [A [B [C _]]]. auto.
Qed.

(* 5. once every caller has returned no active dial is left: no worker with an open reqch,
   as many workers stopped as were started *)
Lemma no_leaked_active_dial_l : forall fdl ppl fd ls,
  let s := reach fdl ppl fd ls in
  (forall c r, cget c s = Some r -> cr_phase r = PReturned) ->
  forall p, p_active (sget p (c_sync s)) = false /\ aget None p (c_gen s) = None /\
            p_started (sget p (c_sync s)) = p_stopped (sget p (c_sync s)) /\ p_ref (sget p (c_sync s)) = 0.
Proof.
  intros fdl ppl fd ls s Hall p.
  pose proof (crun_ginv ls _ (init_ginv fdl ppl fd)) as G. fold (reach fdl ppl fd ls) in G. fold s in G.
  destruct (g_sinv s G p) as [R A Wk _ _ _].
  assert (E : p_inside (sget p (c_sync s)) = []).
  { destruct (p_inside (sget p (c_sync s))) as [|x l] eqn:E; [reflexivity|]. exfalso.
    destruct (proj1 (g_inside s G p x)) as [r [H1 [_ H3]]]; [rewrite E; left; reflexivity|].
    apply H3, (Hall x r H1). }
  assert (Ha : p_active (sget p (c_sync s)) = false).
  { destruct (p_active (sget p (c_sync s))) eqn:X; [|reflexivity]. exfalso. apply (proj1 A eq_refl). exact E. }
  split; [exact Ha|]. split; [|split].
  - destruct (aget None p (c_gen s)) as [g|] eqn:X; [|reflexivity]. destruct (g_gen s G p g X) as [Y _]. congruence.
  - rewrite Wk, Ha. lia.
  - rewrite R, E. reflexivity.
Qed.

(* ---- no live job is ever lost ------------------------------------------------------------ *)
(* every job of a generation that is still live (its shared context not cancelled) and has
   not reported is somewhere in the limiter: queued, about to run, or dialing *)
Definition Place (l : lim) (x : job) : Prop := InQ l x \/ In x (dialing l).

Definition NLJ (s : cst) : Prop :=
  forall n j, jget n s = Some j -> jr_reported j = false -> ~ In (jr_gen j) (cancelledG (c_lim s)) ->
    exists x, jid x = n /\ jgrp x = jr_gen j /\ Place (c_lim s) x.

(* decidable version for the example *)
Definition in_limiter (l : lim) (n : Z) : bool :=
  existsb (fun x => jid x =? n) (waitingOnFd l ++ spawned l ++ dialing l ++ flat_map snd (waitingOnPeer l)).

(* The schedule of the repaired defect: caller 1 dials peer 1 (perPeerLimit 1, addresses 1 and
   2): job 2 dials, job 3 waits on the peer limit.  Caller 1 is cancelled and leaves:
   generation 1 is closed, its worker has not returned yet.  Caller 2 dials the same peer:
   generation 4, job 5 dials, job 6 waits on the peer limit.  Now the old worker returns
   (CExit 1): clearAllPeerDials. *)
Definition stale_exit_schedule : list clabel :=
  [CCall 1 1 false false false; CDeliver 1 false (Some [(1, 0); (2, 0)]); CTimer 1 [] []; CBegin 2;
   CCancel 1; CLeave 1 true; CRes 2 (DRFail ECanceled) []; CFin 2;
   CCall 2 1 false false false; CDeliver 2 false (Some [(1, 0); (2, 0)]); CTimer 4 [] []; CBegin 5;
   CExit 1].

Lemma stale_exit_wf : Forall wf_label stale_exit_schedule.
Proof. repeat constructor; try discriminate; cbn; intuition discriminate. Qed.

(* with the code before the repair (clear_peer_old) the live job 6 of generation 4 is lost when
   the old worker returns; with the repaired clearAllPeerDials it stays queued *)
Lemma stale_exit_old_vs_new :
  let pre := reach 4 1 [1; 2] (removelast stale_exit_schedule) in
  jget 6 pre = Some (mkJ 4 2 false) /\ cancelledG (c_lim pre) = [1] /\
  in_limiter (c_lim pre) 6 = true /\
  in_limiter (clear_peer_old (c_lim pre) 1) 6 = false /\
  in_limiter (clear_peer (c_lim pre) 1) 6 = true /\
  in_limiter (c_lim (reach 4 1 [1; 2] stale_exit_schedule)) 6 = true.
Proof. vm_compute. repeat split. Qed.

Lemma in_limiter_place : forall l x, Place l x -> in_limiter l (jid x) = true.
Proof.
  intros l x P. unfold in_limiter. apply existsb_exists. exists x. split; [|apply Z.eqb_refl].
  destruct P as [[[q H]|[H|H]]|H].
  - apply in_or_app. right. apply in_or_app. right. apply in_or_app. right.
    apply in_flat_map. unfold wl_get in H.
    assert (K : forall (m : list (Z * list job)), In x (aget [] q m) -> exists e, In e m /\ In x (snd e)).
    { induction m as [|[k v] m IH]; cbn [aget]; [intros []|]. destruct (k =? q).
      - intros Hx. exists (k, v). split; [left; reflexivity | exact Hx].
      - intros Hx. destruct (IH Hx) as [e [A B]]. exists e. split; [right; exact A | exact B]. }
    apply K, H.
  - apply in_or_app. left. exact H.
  - apply in_or_app. right. apply in_or_app. left. exact H.
  - apply in_or_app. right. apply in_or_app. right. apply in_or_app. left. exact H.
Qed.


(* C05 — the DialPeer monitor on composite-model traces, clause 9: after more virtual time than
   any ranking delay a caller still waits only while some transport dial is in progress. *)
From Coq Require Import List ZArith Bool Lia Relations Permutation.
From Verif Require Import lib.Wire c05.ModelLimiter c05.Proofs_Limiter c05.SpecLimiter c05.Proofs_LimiterMon c05.Proofs_LimiterOnce c05.Proofs_LimiterAll.
From Verif Require Import c05.ModelWorker c05.Proofs_Worker c05.Proofs_WorkerMon c05.Proofs_WorkerFly c05.Proofs_WorkerQ c05.ModelSync c05.Proofs_Sync c05.ModelComposite.
From Verif Require Import c05.Proofs_Composite c05.Proofs_Composite2 c05.Proofs_Composite3 c05.Proofs_Composite4 c05.Proofs_Composite5 c05.Proofs_Composite6.
From Verif Require Import c05.SpecWorker c05.SpecDialPeer c05.SpecComposite c05.Proofs_CompositeMon c05.Proofs_CompositeH.
From Verif Require Import c05.Proofs_CompositeMon2 c05.Proofs_CompositeJG c05.Proofs_CompositeHI c05.Proofs_CompositeMon4 c05.Proofs_CompositeQ c05.Proofs_CompositeMon6 c05.Proofs_CompositeMon7.
Import ListNotations.
Local Open Scope Z_scope.

(* ---- every job is for the one peer of the harness ------------------------------------------------ *)
Definition JP (s : cst) : Prop := AllP (fun x => jpeer x = PEER) (c_lim s).

Lemma JP_adds : forall g news s, JP s -> JP (fold_left (add_addr_job g PEER) news s).
Proof.
  induction news as [|a r IH]; intros s H; cbn [fold_left]; [exact H|]. apply IH. unfold JP, add_addr_job. cprj.
  apply lstep_all; [reflexivity | exact H].
Qed.

Lemma cstep_JP : forall s l, GInv s -> JP s -> lab_lgp s l -> JP (cstep s l).
Proof.
  intros s l G H Hl.
  assert (Op : forall o, (forall j, o <> LAdd j) -> JP (lim_do s o)).
  { intros o Ho. unfold JP. cprj. apply lstep_all; [|exact H]. destruct o; auto. exfalso. eapply Ho; reflexivity. }
  assert (Lv : forall c r k, JP (do_leave s c r k)).
  { intros c r k. unfold do_leave. cprj. destruct (p_active _); cprj; [exact H|]. unfold JP. cprj. apply lstep_all; [exact I | exact H]. }
  destruct l; cbn [cstep]; cbn [lab_lgp] in Hl.
  - destruct (cget c s); [exact H|]. destruct best; [exact H|]. destruct (p_active _); cprj; [destruct (aget None p _)|]; exact H.
  - destruct (cget c s) as [r|]; [|exact H]. destruct (cr_phase r); exact H.
  - destruct (g <? c_next s); [|exact H]. destruct (g_gen _ G PEER g Hl) as [_ [_ [_ [_ [Gp _]]]]]. rewrite Gp. apply JP_adds. exact H.
  - apply Op. discriminate.
  - destruct (jget n s) as [j|]; [|exact H]. destruct (_ && _); exact H.
  - destruct (jget n s) as [j|]; [|exact H]. destruct (jr_reported j); [apply Op; discriminate | exact H].
  - destruct (cget c s) as [r|]; [|exact H]. destruct (cr_phase r); exact H.
  - destruct (cget c s) as [r|]; [|exact H]. destruct (cr_phase r); try exact H.
    + destruct (cr_canc r); [apply Lv | exact H].
    + destruct (resp_of c _) as [[|]|]; try apply Lv. destruct (cr_canc r); [apply Lv | exact H].
  - destruct (memz g (c_stale s)); [apply Op; discriminate | exact H].
Qed.

(* ---- the invariants of clause 9 along the harness-level semantics --------------------------------- *)
Record H9 (fdl ppl : Z) (a : denv * cst) : Prop := mkH9 {
  h9_q : QI fdl ppl a; h9_w : WQ (snd a); h9_f : FJ (snd a); h9_j : JP (snd a); h9_n : NLJ (snd a);
  h9_b : forall c, rank_bounded (rank_for (fst a) c) }.

Lemma H9_cstep : forall fdl ppl e e' s l, H9 fdl ppl (e, s) -> QI fdl ppl (e', cstep s l) -> lab_b l -> lab_lgp s l ->
  dn_rank e' = dn_rank e -> H9 fdl ppl (e', cstep s l).
Proof.
  intros fdl ppl e e' s l [Q W F J N B] Q' Hb Hl Er. cbn [fst snd] in *.
  pose proof (hi_c _ _ _ (q_hi _ _ _ Q)) as Ci. pose proof (hi_c _ _ _ (q_hi _ _ _ Q')) as Ci'. cbn [snd] in Ci, Ci'.
  constructor; cbn [fst snd].
  - exact Q'.
  - apply cstep_WQ; [apply (ci_w _ _ _ Ci') | exact W | exact Hb].
  - apply cstep_FJ; [apply (ci_w _ _ _ Ci) | exact W | exact F | exact Hb].
  - apply cstep_JP; [apply (ci_g _ _ _ Ci) | exact J | exact Hl].
  - apply cstep_nlj; [apply i2core, (proj1 (ci_lim _ _ _ Ci)) | | exact N]. intros n j Hj. apply (w_ids _ (ci_w _ _ _ Ci) n j Hj).
  - intros c. unfold rank_for. rewrite Er. apply B.
Qed.

Lemma H9_env : forall fdl ppl e e' s, H9 fdl ppl (e, s) -> QI fdl ppl (e', s) -> dn_rank e' = dn_rank e -> H9 fdl ppl (e', s).
Proof. intros fdl ppl e e' s [Q W F J N B] Q' Er. constructor; auto. cbn [fst] in *. intros c. unfold rank_for. rewrite Er. apply B. Qed.

Lemma hstep_H9 : forall fdl ppl a b, H9 fdl ppl a -> hstep a b -> H9 fdl ppl b.
Proof.
  intros fdl ppl a b H St. pose proof (hstep_QI _ _ _ _ (h9_q _ _ _ H) St) as Q'. destruct St.
  - apply (H9_cstep fdl ppl e e); auto; [apply (h9_b _ _ _ H c) | exact I].
  - eapply H9_env; [exact H | exact Q' | reflexivity].
  - apply (H9_cstep fdl ppl e e); auto. exact I.
  - unfold begin_one in *. apply (H9_cstep fdl ppl e); auto; try exact I. destruct (negb _); reflexivity.
  - unfold end_job in *. destruct (jget (jid j) s) as [jr|]; [|exact H].
    pose proof (h9_q _ _ _ H) as Q.
    assert (Q1 : QI fdl ppl (e, cstep s (CRes (jid j) (DRFail ECanceled) (dbestl e s (jr_gen jr))))).
    { constructor; cbn [snd].
      - apply (HI_cstep fdl ppl e e); [apply (q_hi _ _ _ Q) | cbn; discriminate | exact I | reflexivity].
      - apply cstep_AP; [apply (q_ap _ _ _ Q) | exact I].
      - apply CK_step, (q_ck _ _ _ Q). }
    apply (H9_cstep fdl ppl e); [|exact Q'|exact I|exact I|reflexivity].
    apply (H9_cstep fdl ppl e e); auto; exact I.
  - apply (H9_cstep fdl ppl e e); auto; exact I.
  - apply (H9_cstep fdl ppl e e); auto; exact I.
  - eapply H9_env; [exact H | exact Q' | reflexivity].
Qed.

(* stimuli: fresh caller ids, repetition-free rankings with delays below 2 s, time does not run backwards *)
Definition wf_kstim3 (s : cst) (x : cstim) : Prop :=
  wf_kstim2 s x /\ match x with KCall _ _ _ rank => rank_bounded rank | KAdvance d => 0 <= d | _ => True end.

Definition wf_kstims3 (es : denv * cst) (xs : list cstim) : Prop :=
  gwf kstep (fun es x => wf_kstim3 (snd es) x) es xs.

Lemma kinit_H9 : forall fdl ppl es x, H9 fdl ppl es -> wf_kstim3 (snd es) x -> H9 fdl ppl (kinit es x).
Proof.
  intros fdl ppl [e0 s] x H [Wf Wb]. pose proof (kinit_QI fdl ppl (e0, s) x (h9_q _ _ _ H) Wf) as Q1. cbn [snd] in *.
  assert (H0 : H9 fdl ppl (de_se e0 [] [], s)).
  { eapply H9_env; [exact H| |reflexivity]. destruct (h9_q _ _ _ H) as [A B C]. constructor; auto. eapply HI_env; [exact A | reflexivity]. }
  unfold kinit in *. destruct x.
  - cbv zeta in *. match goal with |- H9 _ _ (?e2, cstep s ?l) => assert (Er : forall c', aget None c' (dn_rank e2) = if c =? c' then Some rank else aget None c' (dn_rank e0)) end.
    { intros c'. destruct (cget c (cstep s _)) as [r|]; [destruct (aget None (cr_gen r) _)|]; cbn [dn_rank de_rank de_start de_se]; apply aget_aput. }
    destruct H0 as [Q W F J N B]. cbn [fst snd] in *.
    pose proof (hi_c _ _ _ (q_hi _ _ _ Q)) as Ci. pose proof (hi_c _ _ _ (q_hi _ _ _ Q1)) as Ci'. cbn [snd] in Ci, Ci'.
    constructor; cbn [fst snd].
    + exact Q1.
    + apply cstep_WQ; [apply (ci_w _ _ _ Ci') | exact W | exact I].
    + apply cstep_FJ; [apply (ci_w _ _ _ Ci) | exact W | exact F | exact I].
    + apply cstep_JP; [apply (ci_g _ _ _ Ci) | exact J | reflexivity].
    + apply cstep_nlj; [apply i2core, (proj1 (ci_lim _ _ _ Ci)) | | exact N]. intros n j Hj. apply (w_ids _ (ci_w _ _ _ Ci) n j Hj).
    + intros c'. unfold rank_for. rewrite Er. destruct (c =? c'); [exact Wb | apply (B c')].
  - exact H0.
  - destruct (find_dialing s a) as [n|]; [|exact H0]. cbv zeta in *.
    assert (H1 : forall r, r <> DRFail EBackoff -> match r with DRProgress _ _ => False | _ => True end ->
                 H9 fdl ppl (end_job (de_se e0 [] [], s) n r)).
    { intros r Hr Hp. pose proof (h9_q _ _ _ H0) as Q0. unfold end_job. destruct (jget n s) as [jr|]; [|exact H0].
      assert (Qa : QI fdl ppl (de_se e0 [] [], cstep s (CRes n r (dbestl (de_se e0 [] []) s (jr_gen jr))))).
      { constructor; cbn [snd].
        - apply (HI_cstep fdl ppl (de_se e0 [] []) (de_se e0 [] [])); [apply (q_hi _ _ _ Q0) | exact Hr | exact I | reflexivity].
        - apply cstep_AP; [apply (q_ap _ _ _ Q0) | exact I].
        - apply CK_step, (q_ck _ _ _ Q0). }
      assert (Qb : QI fdl ppl (de_se (de_se e0 [] []) (dn_starts (de_se e0 [] [])) (dn_ends (de_se e0 [] []) ++ [jr_addr jr]),
                               cstep (cstep s (CRes n r (dbestl (de_se e0 [] []) s (jr_gen jr)))) (CFin n))).
      { constructor; cbn [snd].
        - apply (HI_cstep fdl ppl (de_se e0 [] [])); [apply (q_hi _ _ _ Qa) | exact I | exact I | reflexivity].
        - apply cstep_AP; [apply (q_ap _ _ _ Qa) | exact I].
        - apply CK_step, (q_ck _ _ _ Qa). }
      apply (H9_cstep fdl ppl (de_se e0 [] [])); [|exact Qb|exact I|exact I|reflexivity].
      apply (H9_cstep fdl ppl (de_se e0 [] []) (de_se e0 [] [])); auto; exact I. }
    match goal with |- H9 _ _ (_, snd (end_job ?z n ?r)) => specialize (H1 r); destruct (end_job z n r) as [e1 s1] eqn:Ee end.
    cbn [fst snd] in *. eapply H9_env; [apply H1; destruct (kind =? 1); try discriminate; exact I | exact Q1|].
    destruct (w_stopped _); [reflexivity|]. destruct (_ && _); [reflexivity|]. destruct (_ && _); reflexivity.
  - assert (Qa : QI fdl ppl (de_se e0 [] [], cstep s (CCancel c))).
    { pose proof (h9_q _ _ _ H0) as Q0. constructor; cbn [snd].
      - apply (HI_cstep fdl ppl (de_se e0 [] []) (de_se e0 [] [])); [apply (q_hi _ _ _ Q0) | exact I | exact I | reflexivity].
      - apply cstep_AP; [apply (q_ap _ _ _ Q0) | exact I].
      - apply CK_step, (q_ck _ _ _ Q0). }
    apply (H9_cstep fdl ppl (de_se e0 [] [])); [|exact Q1|exact I|exact I|reflexivity].
    apply (H9_cstep fdl ppl (de_se e0 [] []) (de_se e0 [] [])); auto; exact I.
  - eapply H9_env; [exact H0 | exact Q1 | reflexivity].
  - eapply H9_env; [exact H0 | exact Q1 | reflexivity].
  - eapply H9_env; [exact H0 | exact Q1 | reflexivity].
Qed.

Lemma kstep_H9 : forall fdl ppl es x, H9 fdl ppl es -> wf_kstim3 (snd es) x -> H9 fdl ppl (kstep es x).
Proof.
  intros fdl ppl es x H Wf. apply (kstep_closed_h (H9 fdl ppl)).
  - intros a b Ha _ St. eapply hstep_H9; eauto.
  - apply (QI_TI _ _ _ (h9_q _ _ _ H)).
  - apply kinit_H9; assumption.
Qed.

Lemma init_H9 : forall fdl ppl fd, 0 <= fdl -> 0 <= ppl -> H9 fdl ppl (init_denv, init_c fdl ppl fd).
Proof.
  intros. constructor; cbn [fst snd].
  - apply init_QI; assumption.
  - constructor; intros g; [apply WTK_init | apply FL_init].
  - intros g a _ [].
  - constructor; cbn; intros; contradiction.
  - intros n j X. discriminate.
  - intros c. exact I.
Qed.

(* ---- the clock and the start times of the worker loops --------------------------------------------- *)
Definition EF (a b : denv * cst) : Prop := dn_now (fst b) = dn_now (fst a) /\ dn_start (fst b) = dn_start (fst a).

Lemma EF_refl : forall a, EF a a. Proof. split; reflexivity. Qed.
Lemma EF_trans : forall a b c, EF a b -> EF b c -> EF a c.
Proof. intros a b c [A1 A2] [B1 B2]. split; congruence. Qed.

Lemma fold_EF : forall (A : Type) (f : denv * cst -> A -> denv * cst) (l : list A),
  (forall es a, EF es (f es a)) -> forall es, EF es (fold_left f l es).
Proof.
  induction l as [|a r IH]; intros Hf es; cbn [fold_left]; [apply EF_refl|]. eapply EF_trans; [apply Hf | apply IH, Hf].
Qed.

Lemma timer_EF : forall es, EF es (fire_timer es).
Proof.
  intros [e s]. unfold fire_timer. destruct (live_gen s) as [g|]; [|apply EF_refl].
  destruct (timer_due e s g (dn_now e)); [split; reflexivity | apply EF_refl].
Qed.

Lemma round_EF : forall es, EF es (round es).
Proof.
  intros es. unfold round.
  eapply EF_trans; [|apply fold_EF; intros [e s] g; unfold exit_one; destruct (is_blocked e g); apply EF_refl || (split; reflexivity)].
  eapply EF_trans; [|apply fold_EF; intros [e s] c; split; reflexivity].
  eapply EF_trans; [|apply fold_EF; intros [e s] n; unfold end_job; destruct (jget n s); split; reflexivity].
  eapply EF_trans; [|apply fold_EF; intros [e s] j; unfold begin_one; destruct (negb _); split; reflexivity].
  eapply EF_trans; [|apply timer_EF].
  apply fold_EF. intros [e s] c. unfold deliver_one. destruct (cget c s) as [r|]; [|apply EF_refl].
  destruct (cr_phase r); try apply EF_refl. destruct (is_blocked e (cr_gen r)); [apply EF_refl|].
  destruct (dn_park e); split; reflexivity.
Qed.

Lemma rounds_EF : forall n es, EF es (rounds n es).
Proof. induction n as [|n IH]; intros es; cbn [rounds]; [apply EF_refl|]. eapply EF_trans; [apply round_EF | apply IH]. Qed.

Lemma drain_EF : forall es, EF es (drain es).
Proof. intros. apply rounds_EF. Qed.

Lemma advance_EF : forall f stop es, dn_now (fst (advance_to f stop es)) = stop /\ dn_start (fst (advance_to f stop es)) = dn_start (fst es).
Proof.
  induction f as [|f IH]; intros stop [e s]; cbn [advance_to fst]; [split; reflexivity|].
  destruct (live_gen s) as [g|]; [|split; reflexivity]. destruct (timer_due e s g stop) as [t|]; [|split; reflexivity].
  destruct (IH stop (drain (de_now e (Z.max t (dn_now e)), s))) as [A B]. split; [exact A|].
  rewrite B. destruct (drain_EF (de_now e (Z.max t (dn_now e)), s)) as [_ D]. rewrite D. reflexivity.
Qed.

Definition EN (e : denv) : Prop := 0 <= dn_now e /\ forall g, aget 0 g (dn_start e) <= dn_now e.

Lemma kinit_EN : forall es x, EN (fst es) -> EN (fst (kinit es x)).
Proof.
  intros [e0 s] x [A B]. cbn [fst] in *. unfold kinit. destruct x; cbn [fst]; try (split; [exact A | exact B]).
  - cbv zeta. destruct (cget c (cstep s _)) as [r|]; [destruct (aget None (cr_gen r) _)|]; try (split; [exact A | exact B]).
    split; [exact A|]. intros g. cbn [dn_start dn_now de_start de_rank de_se]. rewrite aget_aput. destruct (cr_gen r =? g); [lia | apply B].
  - destruct (find_dialing s a) as [n|]; [|split; [exact A | exact B]]. cbn [fst]. unfold end_job. cbn iota beta.
    destruct (jget n s); cbn [fst]; (destruct (w_stopped _); [split; [exact A | exact B]|]; destruct (_ && _); [split; [exact A | exact B]|];
      destruct (_ && _); split; try exact A; exact B).
Qed.

Lemma kstep_clock : forall es x,
  dn_start (fst (kstep es x)) = dn_start (fst (kinit es x)) /\
  dn_now (fst (kstep es x)) = match x with KAdvance d => dn_now (fst es) + d | _ => dn_now (fst (kinit es x)) end.
Proof.
  intros [e0 s] x. unfold kstep, kinit. destruct x; cbn [fst];
    try (match goal with |- context [drain ?z] => destruct (drain_EF z) as [A B]; split; [exact B | exact A] end).
  - match goal with |- context [drain (advance_to ?f ?st ?z)] => destruct (drain_EF (advance_to f st z)) as [A B]; destruct (advance_EF f st z) as [C D] end.
    rewrite A, B, C, D. destruct (drain_EF (de_se e0 [] [], s)) as [_ E]. rewrite E. split; reflexivity.
  - destruct (find_dialing s a) as [n|]; [|split; reflexivity].
    match goal with |- context [drain ?z] => destruct (drain_EF z) as [A B]; split; [exact B | exact A] end.
  - split; reflexivity.
Qed.

Lemma kstep_EN : forall es x, EN (fst es) -> match x with KAdvance d => 0 <= d | _ => True end -> EN (fst (kstep es x)).
Proof.
  intros es x H Hd. destruct (kstep_clock es x) as [A B]. pose proof (kinit_EN es x H) as [C D]. split.
  - rewrite B. destruct x; try exact C. destruct H. lia.
  - intros g. rewrite A, B. destruct x; try apply D.
    assert (E : dn_start (fst (kinit es (KAdvance d))) = dn_start (fst es)) by (destruct es; reflexivity).
    rewrite E. destruct H as [_ H]. specialize (H g). lia.
Qed.

(* ---- the state-level fact behind clause 9 ----------------------------------------------------------- *)
Lemma in_resp_of : forall c l, In c (map fst l) -> exists k, resp_of c l = Some k.
Proof.
  induction l as [|[k v] l IH]; intros H; [destruct H|]. cbn [resp_of]. destruct (k =? c) eqn:E; [eauto|].
  destruct H as [H|H]; [cbn in H; subst; rewrite Z.eqb_refl in E; discriminate | apply IH, H].
Qed.

Lemma in_caller_ids : forall s c r, cget c s = Some r -> In c (caller_ids s).
Proof.
  intros s c r H. unfold caller_ids. eapply Permutation_in; [apply Permutation_sym, sort_z_perm|].
  apply aget_in in H. change c with (fst (c, Some r)). apply in_map, H.
Qed.

Lemma waits_only_dialing : forall fdl ppl e s c, 1 <= fdl -> 1 <= ppl -> H9 fdl ppl (e, s) -> Quiet (e, s) ->
  dn_blocked e = None -> (forall g, aget 0 g (dn_start e) + DB <= dn_now e) -> inside s c ->
  count_peer PEER (dialing (c_lim s)) <> 0.
Proof.
  intros fdl ppl e s c L1 L2 [Q W F J N B] [Qd Qt Qs Qc Ql Qe] Hb Hst [r [Hc Hp]] Z0. cbn [fst snd] in *.
  pose proof (hi_c _ _ _ (q_hi _ _ _ Q)) as Ci. cbn [snd] in Ci. pose proof (ci_g _ _ _ Ci) as G.
  (* the limiter is empty *)
  assert (Dl : dialing (c_lim s) = []).
  { destruct (dialing (c_lim s)) as [|j l] eqn:Ed; [reflexivity|]. exfalso.
    assert (Hj : jpeer j = PEER) by (apply (ap_dl _ _ J); rewrite Ed; left; reflexivity).
    cbn [count_peer] in Z0. rewrite Hj, Z.eqb_refl in Z0. pose proof (cnt_peer_nonneg PEER l). rewrite <- count_peer_eq in H. lia. }
  destruct (ci_lim _ _ _ Ci) as [I2 [Ef Ep]].
  destruct (residue_state (c_lim s) I2) as [_ [Wf Wp]]; try lia; try assumption.
  assert (Emp : forall x, ~ Place (c_lim s) x).
  { intros x [[[q X]|[X|X]]|X]; [rewrite (proj2 (Wp q)) in X | rewrite Wf in X | rewrite Qs in X | rewrite Dl in X]; destruct X. }
  assert (Lg : live_gen s = Some (cr_gen r)) by (eapply live_of_caller; eauto).
  destruct (g_gen _ G PEER _ Lg) as [_ [St [Nc _]]]. set (g := cr_gen r) in *. set (w := wget g s) in *.
  assert (Nb : is_blocked e g = false) by (unfold is_blocked; rewrite Hb; reflexivity).
  destruct (cr_phase r) eqn:Ep'; [| |congruence].
  - apply (deliver_strict fdl ppl e s c r Q Hc Ep' Nb). apply Qd. eapply in_caller_ids; eauto.
  - assert (Seen : In c (w_seen w)) by (apply (ci_seen _ _ _ Ci c r Hc Ep')).
    assert (Fl : w_flying w = []).
    { destruct (w_flying w) as [|a l] eqn:Ef'; [reflexivity|]. exfalso.
      destruct (F g a St) as [n [jr [A1 [A2 [A3 A4]]]]]; [fold w; rewrite Ef'; left; reflexivity|].
      destruct (N n jr A1 A4) as [x [_ [_ X]]]; [rewrite A2; exact Nc | apply (Emp x X)]. }
    assert (Dq : w_dq w = []).
    { pose proof (wt_tq _ (k_wt _ (wq_t _ W g))) as Tq. fold w in Tq. unfold TQ in Tq.
      unfold fire_timer in Qt. rewrite Lg in Qt. fold g in Qt. destruct (timer_due e s g (dn_now e)) as [t|] eqn:Et.
      - exfalso. pose proof (timer_strict fdl ppl e s g t Q Lg Et) as X. rewrite Qt in X. lia.
      - unfold timer_due in Et. fold w in Et. rewrite St, Nb in Et. cbn [orb] in Et. destruct (w_timer w) as [t|]; [|exact Tq].
        destruct (aget 0 g (dn_start e) + t <=? dn_now e) eqn:El; [discriminate|]. apply Z.leb_gt in El.
        destruct Tq as [Tq|Tq]; [exact Tq|]. specialize (Hst g). lia. }
    destruct (w_all _ (ci_w _ _ _ Ci) g) as [Iw _]. fold w in Iw.
    assert (Inf : w_inflight w = 0) by (destruct Iw as [_ [[_ _ X] _]]; rewrite X, Fl; reflexivity).
    pose proof (answered_at_quiet w Iw Dq Inf c Seen) as Ans. destruct (in_resp_of _ _ Ans) as [k Hk].
    pose proof (leave_strict fdl ppl e s c r k Q Hc Ep' Hk) as X. rewrite (Ql c (in_caller_ids _ _ _ Hc)) in X. lia.
Qed.

(* ---- assembly: the DialPeer monitor accepts every trace of the composite model -------------------- *)
From Verif Require Import c05.Proofs_CompositeMon3 c05.Proofs_CompositeMon5.

Lemma kstep_adv_quiet : forall fdl ppl es d, QI fdl ppl es -> Quiet (kstep es (KAdvance d)).
Proof.
  intros fdl ppl [e0 s] d Q. unfold kstep.
  assert (Q0 : QI fdl ppl (de_se e0 [] [], s)).
  { destruct Q as [A B C]. constructor; auto. eapply HI_env; [exact A | reflexivity]. }
  pose proof (drain_reach _ (QI_TI _ _ _ Q0)) as R1. pose proof (hreach_QI _ _ _ _ R1 Q0) as Q2.
  match goal with |- Quiet (drain (advance_to ?f ?st ?z)) =>
    pose proof (hreach_QI _ _ _ _ (advance_reach f st z (QI_TI _ _ _ Q2)) Q2) as Q3 end.
  apply (drain_quiet fdl ppl _ Q3).
Qed.

Record MC3 (fdl ppl : Z) (es : denv * cst) (m : dmon) : Prop := mkMC3 {
  m3_mc : MC2 fdl ppl es m; m3_h9 : H9 fdl ppl es; m3_en : EN (fst es) }.

Lemma wf3_cons : forall es x r, wf_kstims3 es (x :: r) = (wf_kstim3 (snd es) x /\ wf_kstims3 (kstep es x) r).
Proof. reflexivity. Qed.

Lemma wf3_wf2 : forall xs es, wf_kstims3 es xs -> wf_kstims2 es xs.
Proof.
  induction xs as [|x r IH]; intros es H; [exact I|]. rewrite wf3_cons in H. rewrite wf2_cons. destruct H as [[A _] B]. split; [exact A | apply IH, B].
Qed.

Lemma step_MC3 : forall fdl ppl es m x, 1 <= fdl -> 1 <= ppl -> MC3 fdl ppl es m -> wf_kstim3 (snd es) x ->
  let es' := kstep es x in
  let o := kobs es es' in
  let wait0 := match x with KCall c _ _ _ => c :: dm_wait m | _ => dm_wait m end in
  let rets := map fst (d_rets o) in
  let wait1 := fold_right remz wait0 rets in
  let park := match x with KPark => true | KRelease => false | _ => dm_park m end in
  match x with
  | KAdvance d => (2000000000 <=? d) && negb park && negb (match wait1 with [] => true | _ => false end) && (d_inpeer o =? 0)
  | _ => false end = false /\
  MC3 fdl ppl es' (next_mon m x o).
Proof.
  intros fdl ppl es m x L1 L2 [M H E] [Wf Wb] es' o wait0 rets wait1 park.
  destruct (step_MC2 fdl ppl es m x L1 L2 M Wf) as [_ [_ M']]. fold es' in M'. fold o in M'.
  pose proof (kstep_H9 fdl ppl es x H (conj Wf Wb)) as H'. fold es' in H'.
  assert (E' : EN (fst es')) by (apply kstep_EN; [exact E | destruct x; try exact I; exact Wb]).
  split; [|constructor; assumption].
  destruct x; try reflexivity.
  destruct (2000000000 <=? d) eqn:Ed; [|reflexivity]. destruct park eqn:Ep; [reflexivity|]. cbn [negb andb].
  destruct wait1 as [|c' w1] eqn:Ew; [reflexivity|]. cbn [negb andb]. apply Z.eqb_neq.
  destruct (mc_w _ _ _ _ (m2_mc _ _ _ _ M')) as [_ [Hw' _]]. cbn [next_mon dm_wait] in Hw'. fold wait0 in Hw'. fold rets in Hw'. fold wait1 in Hw'.
  assert (Hin : inside (snd es') c') by (apply Hw'; rewrite Ew; left; reflexivity).
  pose proof (kstep_adv_quiet fdl ppl es d (h9_q _ _ _ H)) as Qt. fold es' in Qt.
  pose proof (m2_pk _ _ _ _ M') as Pk. cbn [next_mon dm_park] in Pk. fold park in Pk. rewrite Ep in Pk.
  assert (Hb : dn_blocked (fst es') = None).
  { destruct (dn_blocked (fst es')) as [b|] eqn:Eb; [|reflexivity]. exfalso. assert (X : false = true) by (apply Pk; left; rewrite Eb; discriminate). discriminate. }
  assert (Hst : forall g, aget 0 g (dn_start (fst es')) + DB <= dn_now (fst es')).
  { intros g. destruct (kstep_clock es (KAdvance d)) as [A B]. fold es' in A, B. rewrite A, B.
    assert (X : dn_start (fst (kinit es (KAdvance d))) = dn_start (fst es)) by (destruct es; reflexivity). rewrite X.
    destruct E as [_ E]. specialize (E g). apply Z.leb_le in Ed. unfold DB. lia. }
  unfold o, kobs, dobs_of. cbn [d_inpeer]. destruct es' as [e' s'] eqn:Ees. cbn [fst snd] in *.
  apply (waits_only_dialing fdl ppl e' s' c'); assumption.
Qed.

Lemma monitor_d_model_all : forall fdl ppl xs es m i, 1 <= fdl -> 1 <= ppl -> MC3 fdl ppl es m -> wf_kstims3 es xs ->
  monitor_d fdl ppl m i (ctrace es xs) = [].
Proof.
  induction xs as [|x xs IH]; intros es m i L1 L2 M Wf; [reflexivity|].
  unfold ctrace in *. rewrite gtrace_cons. rewrite monitor_d_unfold. rewrite wf3_cons in Wf. destruct Wf as [Wf1 Wf2].
  destruct (step_MC fdl ppl es m x (m2_mc _ _ _ _ (m3_mc _ _ _ _ M)) (proj1 Wf1)) as [C1 [C2 [C3 [C4 [C7 _]]]]].
  destruct (step_MC2 fdl ppl es m x L1 L2 (m3_mc _ _ _ _ M) (proj1 Wf1)) as [C5 [C6 _]].
  destruct (step_MC3 fdl ppl es m x L1 L2 M Wf1) as [C9 M']. cbv zeta in *.
  rewrite C1, C2, C3, C4, C5, C6, C7, C9. cbn [negb]. apply IH; assumption.
Qed.

Theorem monitor_d_accepts_l : forall fdl ppl fds xs, 1 <= fdl -> 1 <= ppl ->
  wf_kstims3 (init_denv, init_c fdl ppl fds) xs ->
  monitor_d fdl ppl (mkDmon [] [] [] false false) 0 (ctrace (init_denv, init_c fdl ppl fds) xs) = [].
Proof.
  intros fdl ppl fds xs H1 H2 Wf. apply monitor_d_model_all; try assumption. constructor.
  - constructor; [apply init_MC; lia | apply init_QS|]. intros [X|X]; [exfalso; apply X; reflexivity | discriminate].
  - apply init_H9; lia.
  - split; [cbn; lia | intros g; cbn; lia].
Qed.

(* ---- the well-formedness of stimuli, decided by the driver on every recorded case --------------- *)
Lemma nodup_z_nodup : forall l, nodup_z l = true -> NoDup l.
Proof.
  induction l as [|x r IH]; intros H; [constructor|]. cbn [nodup_z] in H. apply andb_true_iff in H. destruct H as [A B].
  constructor; [|apply IH, B]. intros X. apply mem_z_In in X. rewrite X in A. discriminate.
Qed.

Lemma rank_ok_b_spec : forall rank, rank_ok_b rank = true ->
  match rank with Some rk => NoDup (map fst rk) | None => True end /\ rank_bounded rank.
Proof.
  intros [rk|] H; cbn [rank_ok_b rank_bounded] in *; [|split; exact I]. apply andb_true_iff in H. destruct H as [A B].
  split; [apply nodup_z_nodup, A|]. intros x Hx. rewrite forallb_forall in B. specialize (B x Hx).
  apply andb_true_iff in B. destruct B as [B1 B2]. apply Z.leb_le in B1. apply Z.ltb_lt in B2. unfold DB. lia.
Qed.

Lemma wfb_wf3 : forall xs es seen, TIs es -> (forall c, cget c (snd es) <> None -> In c seen) ->
  wf_stims_b seen xs = true -> wf_kstims3 es xs.
Proof.
  induction xs as [|x r IH]; intros es seen T Hs H; [exact I|]. rewrite wf3_cons.
  assert (Next : forall seen', (forall c, In c seen -> In c seen') -> (forall c, isnew x c -> In c seen') ->
                 wf_stims_b seen' r = true -> wf_kstims3 (kstep es x) r).
  { intros seen' I1 I2 Hr. apply (IH _ seen'); [apply kstep_TI, T | | exact Hr].
    intros c Hc. destruct (kstep_dom es x c T Hc) as [X|X]; [apply I1, Hs, X | apply I2, X]. }
  destruct x; cbn [wf_stims_b] in H.
  - apply andb_true_iff in H. destruct H as [H H3]. apply andb_true_iff in H. destruct H as [H1 H2].
    destruct (rank_ok_b_spec _ H2) as [R1 R2]. split.
    + split; [split; [|exact R1] | exact R2]. cbn [wf_kstim].
      destruct (cget c (snd es)) eqn:E; [|reflexivity]. exfalso. apply negb_true_iff in H1.
      assert (X : In c seen) by (apply Hs; congruence). apply mem_z_In in X. congruence.
    + apply (Next (c :: seen)); [intros; right; assumption | intros c' Hc'; cbn [isnew] in Hc'; left; symmetry; exact Hc' | exact H3].
  - apply andb_true_iff in H. destruct H as [H1 H2]. apply Z.leb_le in H1. split; [split; [split; exact I | exact H1]|].
    apply (Next seen); [auto | intros c' [] | exact H2].
  - split; [split; [split; exact I | exact I]|]. apply (Next seen); [auto | intros c' [] | exact H].
  - split; [split; [split; exact I | exact I]|]. apply (Next seen); [auto | intros c' [] | exact H].
  - split; [split; [split; exact I | exact I]|]. apply (Next seen); [auto | intros c' [] | exact H].
  - split; [split; [split; exact I | exact I]|]. apply (Next seen); [auto | intros c' [] | exact H].
  - split; [split; [split; exact I | exact I]|]. apply (Next seen); [auto | intros c' [] | exact H].
Qed.

Theorem monitor_d_accepts_b : forall fdl ppl fds xs, 1 <= fdl -> 1 <= ppl -> wf_stims_b [] xs = true ->
  monitor_d fdl ppl (mkDmon [] [] [] false false) 0 (ctrace (init_denv, init_c fdl ppl fds) xs) = [].
Proof.
  intros fdl ppl fds xs H1 H2 Wf. apply monitor_d_accepts_l; try assumption.
  apply (wfb_wf3 xs _ []); [apply init_TI; lia | intros c X; exfalso; apply X; reflexivity | exact Wf].
Qed.

(* C05 — dialSync cases: wire decoding, model replay with an acceptance relation
   for the scheduler-dependent part, and the property monitor.  No proofs here.

   Wire format of a dialSync case:
     3 (stimulus observation)*
   stimulus:
     1 c p       a new goroutine calls ds.Dial(ctx_c, p) with a live context; it parks
                 in activeDial.dial after the scripted worker took its request
     2 c         ctx_c is cancelled
     3 c k       the scripted worker answers c's request: k = 0 a connection, 1 an error
   observation (after synctest.Wait):
     np (p present refCnt started stopped canc)*np   sorted by p: ds.dials[p] exists, its
                 refCnt, how often the worker function was started for p, how often it saw
                 its reqch closed, whether the shared context of the latest activeDial of p
                 is cancelled
     nr (c kind)*nr    the Dial calls that returned in this step: 0 conn, 1 error,
                 2 the caller's own context error
     order       0 no worker stopped in this step; 1 the worker saw the shared context
                 cancelled and then reqch closed; 2 it saw reqch closed and the context
                 was already cancelled; 3 it saw reqch closed with the context NOT cancelled.
   The model accepts 1 and 2 alike (dialSync cancels before it closes; which of the two
   the worker notices first is the scheduler's choice). *)
From Coq Require Import List ZArith Bool.
From Verif Require Import lib.Wire c05.ModelLimiter c05.ModelSync c05.SpecLimiter c05.SpecWorker.
Import ListNotations.
Local Open Scope Z_scope.

Inductive sstim := YEnter (c p : Z) | YCancel (c : Z) | YRespond (c k : Z).

Record sobs := mkSobs { so_peers : list (Z * list Z); so_rets : list (Z * Z); so_order : Z }.

Fixpoint take_prec (n : nat) (l : list Z) : option (list (Z * list Z) * list Z) :=
  match n with
  | O => Some ([], l)
  | S k => match l with
           | p :: a :: b :: c :: d :: e :: r =>
               match take_prec k r with
               | Some (x, r') => Some ((p, [a; b; c; d; e]) :: x, r') | None => None end
           | _ => None end
  end.

Definition decode_sstim (l : list Z) : option (sstim * list Z) :=
  match l with
  | 1 :: c :: p :: r => Some (YEnter c p, r)
  | 2 :: c :: r => Some (YCancel c, r)
  | 3 :: c :: k :: r => Some (YRespond c k, r)
  | _ => None
  end.

Definition decode_sobs (l : list Z) : option (sobs * list Z) :=
  match l with
  | np :: r0 =>
      if small np then
      match take_prec (Z.to_nat np) r0 with
      | Some (ps, nr :: r1) =>
          if small nr then
          match take_pairs (Z.to_nat nr) r1 with
          | Some (rs, o :: r2) => Some (mkSobs ps rs o, r2)
          | _ => None end
          else None
      | _ => None end
      else None
  | _ => None
  end.

Fixpoint decode_strace (fuel : nat) (l : list Z) : option (list (sstim * sobs)) :=
  match fuel with
  | O => None
  | S f =>
      match l with
      | [] => Some []
      | _ => match decode_sstim l with
             | Some (x, r) =>
                 match decode_sobs r with
                 | Some (o, r') => match decode_strace f r' with
                                   | Some t => Some ((x, o) :: t) | None => None end
                 | None => None end
             | None => None end
      end
  end.

(* callers parked in activeDial.dial: (caller, peer) *)
Fixpoint wfind (c : Z) (w : list (Z * Z)) : option Z :=
  match w with [] => None | (k, p) :: r => if k =? c then Some p else wfind c r end.
Fixpoint wdel (c : Z) (w : list (Z * Z)) : list (Z * Z) :=
  match w with [] => [] | (k, p) :: r => if k =? c then r else (k, p) :: wdel c r end.

Definition ystep (st : sync * list (Z * Z)) (x : sstim) : (sync * list (Z * Z)) * list (Z * Z) :=
  let (s, w) := st in
  match x with
  | YEnter c p => ((sstep s (SEnter c p), (c, p) :: w), [])
  | YCancel c =>
      match wfind c w with
      | Some p => ((sstep s (SLeave c p), wdel c w), [(c, 2)])
      | None => (st, [])
      end
  | YRespond c k =>
      match wfind c w with
      | Some p => ((sstep s (SLeave c p), wdel c w), [(c, k)])
      | None => (st, [])
      end
  end.

Definition prow (s : sync) (p : Z) : list Z :=
  let ps := sget p s in
  [boolz (p_active ps); p_ref ps; p_started ps; p_stopped ps; boolz (p_canc ps)].

Definition total_stopped (s : sync) (ps : list Z) : Z :=
  fold_right (fun p acc => p_stopped (sget p s) + acc) 0 ps.

Fixpoint conform_s (st : sync * list (Z * Z)) (i : Z) (tr : list (sstim * sobs)) : list Z :=
  match tr with
  | [] => []
  | (x, o) :: r =>
      let '(st', rets) := ystep st x in
      let peers := map fst (so_peers o) in
      let rows_ok := forallb (fun e => zlist_eqb (prow (fst st') (fst e)) (snd e)) (so_peers o) in
      let rets_ok := list_eqb pair_eqb rets (so_rets o) in
      let stopped_now := negb (total_stopped (fst st') peers =? total_stopped (fst st) peers) in
      (* acceptance: when a worker stopped, either order of noticing is fine *)
      let order_ok := if stopped_now then (so_order o =? 1) || (so_order o =? 2) else so_order o =? 0 in
      if rows_ok && rets_ok && order_ok then conform_s st' (i + 1) r
      else [ERR_MISMATCH; i; boolz rows_ok; boolz rets_ok; boolz order_ok]
  end.

(* ---- the property on an observed dialSync trace -------------------------------------------- *)
Record smon := mkSmon { sm_wait : list (Z * Z); sm_done : list Z }.

Definition count_wait (p : Z) (w : list (Z * Z)) : Z :=
  fold_right (fun e acc => (if snd e =? p then 1 else 0) + acc) 0 w.

Definition row_ok (w : list (Z * Z)) (e : Z * list Z) : bool :=
  match e with
  | (p, [present; ref; started; stopped; canc]) =>
      let n := count_wait p w in
      if 0 <? n then
        (* callers are waiting: exactly one worker runs for them and the shared context is live *)
        (present =? 1) && (ref =? n) && (started - stopped =? 1) && (canc =? 0)
      else
        (* nobody waits: nothing is left *)
        (present =? 0) && (ref =? 0) && (started =? stopped) && ((started =? 0) || (canc =? 1))
  | _ => false
  end.

Fixpoint monitor_s (m : smon) (i : Z) (tr : list (sstim * sobs)) : list Z :=
  match tr with
  | [] => []
  | (x, o) :: r =>
      (* which returns this stimulus must produce, promptly *)
      let expect :=
        match x with
        | YEnter _ _ => []
        | YCancel c => match wfind c (sm_wait m) with Some _ => [(c, 2)] | None => [] end
        | YRespond c k => match wfind c (sm_wait m) with Some _ => [(c, k)] | None => [] end
        end in
      let w1 := match x with YEnter c p => (c, p) :: sm_wait m | _ => sm_wait m end in
      let w2 := fold_right (fun e acc => wdel (fst e) acc) w1 (so_rets o) in
      let done' := map fst (so_rets o) ++ sm_done m in
      (* 1: exactly the expected callers return, each at most once ever *)
      if negb (list_eqb pair_eqb expect (so_rets o) && nodup_z done') then [ERR_PROPERTY; i; 1]
      (* 2: refcount, single worker, shared context untouched while someone waits; nothing left otherwise *)
      else if negb (forallb (row_ok w2) (so_peers o)) then [ERR_PROPERTY; i; 2]
      (* 3: reqch is never closed before the shared context is cancelled *)
      else if so_order o =? 3 then [ERR_PROPERTY; i; 3]
      else monitor_s (mkSmon w2 done') (i + 1) r
  end.

Definition conform_s_case (l : list Z) : list Z :=
  match decode_strace (S (length l)) l with
  | Some tr => conform_s ([], []) 0 tr
  | None => [ERR_MALFORMED; 31]
  end.

Definition monitor_s_case (l : list Z) : list Z :=
  match decode_strace (S (length l)) l with
  | Some tr => monitor_s (mkSmon [] []) 0 tr
  | None => [ERR_MALFORMED; 31]
  end.

(* C05 — the DialPeer monitor on composite-model traces, clause 1, last part: a caller returns
   with a connection only if some transport dial produced one.  As long as no dial has
   succeeded the environment offers no connection, no worker has sent a connection response
   and no tracked address is connected. *)
From Coq Require Import List ZArith Bool Lia Relations Permutation.
From Verif Require Import lib.Wire c05.ModelLimiter c05.Proofs_Limiter c05.SpecLimiter c05.Proofs_LimiterMon.
From Verif Require Import c05.ModelWorker c05.Proofs_Worker c05.Proofs_WorkerMon c05.Proofs_WorkerMon2 c05.Proofs_WorkerResp.
From Verif Require Import c05.ModelSync c05.ModelComposite c05.Proofs_Composite c05.Proofs_Composite2.
From Verif Require Import c05.SpecWorker c05.SpecDialPeer c05.SpecComposite c05.Proofs_CompositeMon c05.Proofs_CompositeH c05.Proofs_CompositeMon2.
Import ListNotations.
Local Open Scope Z_scope.

(* ---- the worker: without a connection oracle no connection response ---------------------------- *)
Definition NR (w : wst) : Prop := forall x, In x (w_resps w) -> snd x <> RespConn.
Definition NCw (w : wst) : Prop := NR w /\ ~ DC w.

Definition nc_ev (e : wev) : Prop :=
  match e with
  | WReq _ _ _ best _ => best = false
  | WTimer _ bestl => bestl = []
  | WRes _ r bestl => bestl = [] /\ r <> DROk true
  | WClose => True
  end.

Lemma NR_ext : forall w w', NR w -> w_resps w' = w_resps w -> NR w'.
Proof. intros w w' H E x. rewrite E. apply H. Qed.

Lemma dispatch_error_nr : forall w a e, NR w -> NR (dispatch_error w a e []).
Proof.
  intros w a e H. unfold dispatch_error.
  set (s1 := match tget a w with Some ad => tput a (ad_set_st ad DErr) w | None => w end).
  assert (E1 : w_resps s1 = w_resps w) by (unfold s1; destruct (tget a w); reflexivity).
  destruct (disp_loop a [] (w_pending s1)) as [keep out] eqn:El.
  destruct (disp_loop_spec _ _ _ _ _ El) as [So _].
  assert (H2 : NR (set_resps (set_pending s1 keep) (w_resps s1 ++ out))).
  { intros x Hx. wprj. rewrite E1 in Hx. apply in_app_or in Hx. destruct Hx as [Hx|Hx]; [apply H, Hx|].
    destruct x as [rid k]. destruct (So rid k Hx) as [pr [_ [_ [_ [_ Hk]]]]]. cbn in Hk. subst k. discriminate. }
  destruct e; exact H2.
Qed.

Lemma batch_loop_nr : forall bo batch w, NR w -> NR (batch_loop bo [] batch w).
Proof.
  induction batch as [|[a d] r IH]; intros w H; cbn [batch_loop]; [exact H|]. apply IH.
  destruct (tget a w) as [ad|]; [|exact H]. cbv zeta. destruct (negb (ad_fdir ad) && memz a bo).
  - apply dispatch_error_nr. eapply NR_ext; [exact H | reflexivity].
  - eapply NR_ext; [exact H | reflexivity].
Qed.

Lemma wstep_nr : forall w e, NCw w -> nc_ev e -> NR (wstep w e).
Proof.
  intros w e [H Hd] He. unfold wstep. destruct (w_stopped w); [exact H|].
  destruct e as [rid sim fdir best rank|bo bestl|a r bestl|]; cbn in He.
  - subst best. unfold on_request. cbv zeta.
    set (s0 := set_seen w (w_seen w ++ [rid])).
    assert (One : NR (respond s0 rid RespErr)).
    { intros x Hx. unfold respond in Hx. wprj. apply in_app_or in Hx. destruct Hx as [Hx|[<-|[]]]; [apply H, Hx | discriminate]. }
    destruct rank as [rk|]; [|exact One].
    destruct (scan s0 rk [] [] []) as [|td tj ed] eqn:Es.
    { exfalso. apply Hd. destruct (scan_conn _ _ _ _ _ Es) as [a [ad [_ [X Y]]]]. exists a, ad. split; [exact X | exact Y]. }
    assert (Pend : forall pr, NR (schedule (todial_loop sim fdir rk td (join_loop sim rk tj (set_pending s0 pr))))).
    { intros pr. eapply NR_ext; [exact H|]. destruct (schedule_same (todial_loop sim fdir rk td (join_loop sim rk tj (set_pending s0 pr)))) as [_ [E0 _]].
      destruct (todial_loop_same sim fdir rk td (join_loop sim rk tj (set_pending s0 pr))) as [_ [E1 _]].
      destruct (join_loop_same sim rk tj (set_pending s0 pr)) as [_ [E2 _]]. rewrite E0, E1, E2. reflexivity. }
    destruct td; [destruct tj|]; try apply Pend. exact One.
  - subst bestl. unfold on_timer. destruct (next_batch (w_dq w)) as [batch rest].
    eapply NR_ext; [apply (batch_loop_nr bo batch (set_dq w rest)); eapply NR_ext; [exact H | reflexivity]|].
    destruct (schedule_same (batch_loop bo [] batch (set_dq w rest))) as [_ [E _]]. exact E.
  - destruct He as [-> Hr]. unfold on_result. destruct (tget a w) as [ad|]; [|eapply NR_ext; [exact H | reflexivity]].
    destruct r as [addok|e|pub now].
    + destruct addok; [congruence|]. apply dispatch_error_nr. eapply NR_ext; [exact H | reflexivity].
    + match goal with |- NR (schedule ?z) => destruct (schedule_same z) as [_ [E _]]; apply (NR_ext z); [|exact E] end.
      apply dispatch_error_nr. eapply NR_ext; [exact H | reflexivity].
    + eapply NR_ext; [exact H|]. match goal with |- w_resps (schedule ?z) = _ => destruct (schedule_same z) as [_ [E _]]; rewrite E end.
      destruct pub; reflexivity.
  - eapply NR_ext; [exact H | reflexivity].
Qed.

Lemma wstep_ncw : forall w e, NCw w -> nc_ev e -> NCw (wstep w e).
Proof.
  intros w e H He. split; [apply wstep_nr; assumption|]. intros D. apply wstep_DC in D.
  destruct D as [D|[a [bl D]]]; [destruct H as [_ H]; exact (H D)|]. subst e. cbn in He. destruct He as [_ He]. congruence.
Qed.

Lemma NCw_init : NCw init_w.
Proof. split; [intros x [] | intros [a [ad [H _]]]; discriminate]. Qed.

(* ---- the composite: labels that carry no connection oracle ---------------------------------------- *)
Definition nc_lab (l : clabel) : Prop :=
  match l with
  | CCall _ _ _ _ best => best = false
  | CDeliver _ best _ => best = false
  | CTimer _ _ bestl => bestl = []
  | CRes _ r bestl => bestl = [] /\ r <> DROk true
  | _ => True
  end.

Record NCS (s : cst) : Prop := mkNCS {
  nc_w : forall g, NCw (wget g s);
  nc_rets : forall x, In x (c_rets s) -> snd x <> 0 }.

Lemma resp_of_in : forall c l r, resp_of c l = Some r -> In (c, r) l.
Proof.
  induction l as [|[k v] l IH]; intros r H; cbn [resp_of] in H; [discriminate|].
  destruct (k =? c) eqn:E; [apply Z.eqb_eq in E; inversion H; subst; left; reflexivity | right; apply IH, H].
Qed.

Lemma NCS_same : forall s s', NCS s -> c_w s' = c_w s -> c_rets s' = c_rets s -> NCS s'.
Proof. intros s s' [A B] Ew Er. constructor; [intros g; unfold wget; rewrite Ew; apply A | rewrite Er; exact B]. Qed.

Lemma NCS_wput : forall s s' g w', NCS s -> c_w s' = aput g w' (c_w s) -> NCw w' -> c_rets s' = c_rets s -> NCS s'.
Proof.
  intros s s' g w' [A B] Ew Hw Er. constructor; [|rewrite Er; exact B].
  intros g'. unfold wget. rewrite Ew, aget_aput. destruct (g =? g'); [exact Hw | apply A].
Qed.

Lemma NCS_leave : forall s c r k, NCS s -> k <> 0 -> NCS (do_leave s c r k).
Proof.
  intros s c r k [A B] Hk. unfold do_leave. cprj. destruct (p_active _); cprj.
  - constructor; [intros g; apply A|]. cprj. intros x Hx. apply in_app_or in Hx. destruct Hx as [Hx|[<-|[]]]; [apply B, Hx | exact Hk].
  - constructor; cprj.
    + intros g. unfold wget. cprj. rewrite aget_aput. destruct (cr_gen r =? g); [|apply A].
      apply wstep_ncw; [apply A | exact I].
    + intros x Hx. apply in_app_or in Hx. destruct Hx as [Hx|[<-|[]]]; [apply B, Hx | exact Hk].
Qed.

Lemma cstep_NCS : forall s l, NCS s -> nc_lab l -> NCS (cstep s l).
Proof.
  intros s l H Hl. destruct l; cbn [cstep]; cbn [nc_lab] in Hl.
  - subst best. destruct (cget c s); [exact H|]. destruct (p_active _); cprj.
    + destruct (aget None p (c_gen s)); [|exact H]. eapply NCS_same; [exact H|reflexivity|reflexivity].
    + eapply NCS_wput with (g := c_next s) (w' := init_w); [exact H|reflexivity|apply NCw_init|reflexivity].
  - subst best. destruct (cget c s) as [r|]; [|exact H]. destruct (cr_phase r); try exact H.
    eapply NCS_wput; [exact H|reflexivity| |reflexivity]. apply wstep_ncw; [apply (nc_w _ H) | reflexivity].
  - subst bestl. destruct (g <? c_next s); [|exact H].
    match goal with |- context [fold_left ?f ?news ?s0] => destruct (add_jobs_frame g (aget 0 g (c_gpeer s)) news s0) as [_ [B [_ [_ [_ [F _]]]]]] end.
    eapply NCS_wput; [exact H|rewrite F; reflexivity| |rewrite B; reflexivity]. apply wstep_ncw; [apply (nc_w _ H) | reflexivity].
  - eapply NCS_same; [exact H|reflexivity|reflexivity].
  - destruct (jget n s) as [j|]; [|exact H]. destruct (_ && _); [|exact H].
    eapply NCS_wput; [exact H|reflexivity| |reflexivity]. apply wstep_ncw; [apply (nc_w _ H) | exact Hl].
  - destruct (jget n s) as [j|]; [|exact H]. destruct (jr_reported j); [|exact H]. eapply NCS_same; [exact H|reflexivity|reflexivity].
  - destruct (cget c s) as [r|]; [|exact H]. destruct (cr_phase r); try exact H; (eapply NCS_same; [exact H|reflexivity|reflexivity]).
  - destruct (cget c s) as [r|]; [|exact H]. destruct (cr_phase r); try exact H.
    + destruct (cr_canc r); [apply NCS_leave; [exact H | discriminate] | exact H].
    + destruct (resp_of c _) as [[|]|] eqn:Er.
      * exfalso. apply resp_of_in in Er. destruct (nc_w _ H (cr_gen r)) as [X _]. apply (X _ Er). reflexivity.
      * apply NCS_leave; [exact H|]. destruct (cr_canc r); discriminate.
      * destruct (cr_canc r); [apply NCS_leave; [exact H | discriminate] | exact H].
  - destruct (memz g (c_stale s)); [|exact H]. eapply NCS_same; [exact H|reflexivity|reflexivity].
Qed.

(* with no connection in the environment every move is such a label *)
Definition NCE (a : denv * cst) : Prop := dn_conn (fst a) = false /\ NCS (snd a).

Lemma okconn_false : forall e f, dn_conn e = false -> okconn e f = false.
Proof. intros e f H. unfold okconn. rewrite H. reflexivity. Qed.

Lemma dbestl_nil : forall e s g, dn_conn e = false -> dbestl e s g = [].
Proof.
  intros e s g H. unfold dbestl. induction (map pr_id (w_pending (wget g s))) as [|c l IH]; [reflexivity|].
  cbn [filter]. destruct (cget c s) as [r|]; [rewrite okconn_false by exact H|]; exact IH.
Qed.

Lemma hstep_NCE : forall a b, NCE a -> hstep a b -> NCE b.
Proof.
  intros a b [Hc H] St. destruct St; cbn [fst snd] in *.
  - split; [exact Hc|]. apply cstep_NCS; [exact H|]. cbn. apply okconn_false, Hc.
  - split; [exact Hc | exact H].
  - split; [exact Hc|]. apply cstep_NCS; [exact H|]. cbn. apply dbestl_nil, Hc.
  - unfold begin_one. split; [cbn [fst]; destruct (negb _); exact Hc | cbn [snd]; apply cstep_NCS; [exact H | exact I]].
  - unfold end_job. cbn iota beta. destruct (jget (jid j) s) as [jr|]; [|split; assumption]. cbn [fst snd]. split; [exact Hc|].
    apply cstep_NCS; [apply cstep_NCS; [exact H|] | exact I]. cbn. split; [apply dbestl_nil, Hc | discriminate].
  - split; [exact Hc|]. apply cstep_NCS; [exact H | exact I].
  - split; [exact Hc|]. apply cstep_NCS; [exact H | exact I].
  - split; [exact Hc | exact H].
Qed.

Definition is_succ (x : cstim) : bool := match x with KRes _ k _ => k =? 1 | _ => false end.

Lemma kinit_NCE : forall es x, is_succ x = false -> NCE es -> NCE (kinit es x).
Proof.
  intros [e0 s] x Hx [Hc H]. cbn [fst snd] in Hc, H. unfold kinit. destruct x; cbn [is_succ] in Hx.
  - split.
    + cbn [fst]. cbv zeta. destruct (cget c (cstep s _)) as [r|]; [destruct (aget None (cr_gen r) _)|]; exact Hc.
    + cbn [snd]. apply cstep_NCS; [exact H|]. cbn. apply okconn_false. exact Hc.
  - split; assumption.
  - destruct (find_dialing s a) as [n|]; [|split; assumption].
    rewrite Hx. cbn [andb]. unfold end_job. cbn iota beta. destruct (jget n s) as [jr|].
    + cbn [fst snd]. split.
      * destruct (w_stopped _); [exact Hc|]. destruct (_ && _); exact Hc.
      * apply cstep_NCS; [apply cstep_NCS; [exact H|] | exact I]. cbn. split; [apply dbestl_nil; exact Hc | discriminate].
    + cbn [fst snd]. split; [|exact H]. destruct (w_stopped _); [exact Hc|]. destruct (_ && _); exact Hc.
  - split; [exact Hc|]. cbn [snd]. apply cstep_NCS; [apply cstep_NCS; [exact H | exact I] | exact I].
  - split; assumption.
  - split; assumption.
  - split; assumption.
Qed.

Lemma in_skipn : forall (A : Type) n (l : list A) x, In x (skipn n l) -> In x l.
Proof. intros A n l x H. rewrite <- (firstn_skipn n l). apply in_or_app. right. exact H. Qed.

(* one step: a return with a connection needs a successful dial *)
Lemma step_clause1c : forall es x succ, TIs es -> (succ = false -> NCE es) ->
  let es' := kstep es x in
  let o := kobs es es' in
  let succ' := succ || is_succ x in
  (forall e, In e (d_rets o) -> (negb (snd e =? 0) || succ') = true) /\ (succ' = false -> NCE es').
Proof.
  intros es x succ T H es' o succ'. destruct succ' eqn:Es.
  - split; [intros; apply orb_true_r | discriminate].
  - unfold succ' in Es. apply orb_false_iff in Es. destruct Es as [E1 E2].
    assert (N' : NCE es').
    { apply (kstep_closed_h NCE); [intros a b Ha _ St; eapply hstep_NCE; eauto | exact T | apply kinit_NCE; [exact E2 | apply H, E1]]. }
    split; [|intros _; exact N']. intros e He. rewrite orb_false_r. apply negb_true_iff, Z.eqb_neq.
    unfold o, kobs, dobs_of in He. cbn [d_rets] in He. apply (proj1 (sort_pairs_in _ _)) in He. apply in_skipn in He.
    destruct N' as [_ [_ N']]. apply N', He.
Qed.

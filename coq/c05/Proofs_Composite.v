(* C05 — the composite LTS (ModelComposite): invariants for every schedule.
   Part 1: whatever holds of the limiter / of dialSync under every sequence of their
   own steps holds in the composite, because the composite moves them only by their
   own steps. *)
From Coq Require Import List ZArith Bool Lia Permutation.
From Verif Require Import c05.ModelLimiter c05.Proofs_Limiter c05.ModelWorker c05.Proofs_Worker.
From Verif Require Import c05.ModelSync c05.Proofs_Sync c05.ModelComposite.
Import ListNotations.
Local Open Scope Z_scope.

Ltac cprj := cbn [c_sync c_lim c_gen c_w c_gpeer c_stale c_jobs c_callers c_next c_fd c_rets
                  set_sync set_lim set_gen set_w set_gpeer set_stale set_jobs set_callers set_next set_rets
                  wput cput jput lim_do] in *.

(* ---- the limiter component ------------------------------------------------------------ *)
Section LimClosed.
  Variable P : lim -> Prop.
  Hypothesis Pstep : forall l o, P l -> P (lstep l o).

  Lemma add_jobs_lim : forall g p news s, P (c_lim s) -> P (c_lim (fold_left (add_addr_job g p) news s)).
  Proof.
    induction news as [|a r IH]; intros s H; cbn [fold_left]; [exact H|].
    apply IH. unfold add_addr_job. cprj. apply Pstep, H.
  Qed.

  Lemma do_leave_lim : forall s c r k, P (c_lim s) -> P (c_lim (do_leave s c r k)).
  Proof.
    intros s c r k H. unfold do_leave. cprj.
    destruct (p_active _); cprj; [exact H | apply Pstep, H].
  Qed.

  Lemma cstep_lim : forall s l, P (c_lim s) -> P (c_lim (cstep s l)).
  Proof.
    intros s l H. destruct l; cbn [cstep].
    - destruct (cget c s); [exact H|]. destruct best; [exact H|].
      destruct (p_active _); cprj; [destruct (aget None p _); exact H | exact H].
    - destruct (cget c s) as [r|]; [|exact H]. destruct (cr_phase r); exact H.
    - destruct (g <? c_next s); [|exact H]. apply add_jobs_lim. exact H.
    - cprj. apply Pstep, H.
    - destruct (jget n s) as [j|]; [|exact H]. destruct (_ && _); exact H.
    - destruct (jget n s) as [j|]; [|exact H]. destruct (jr_reported j); [cprj; apply Pstep, H | exact H].
    - destruct (cget c s) as [r|]; [|exact H]. destruct (cr_phase r); exact H.
    - destruct (cget c s) as [r|]; [|exact H].
      destruct (cr_phase r); try exact H;
        (destruct (resp_of _ _) as [[|]|] || idtac); try (apply do_leave_lim; exact H);
        destruct (cr_canc r); try exact H; apply do_leave_lim; exact H.
    - destruct (memz g (c_stale s)); [cprj; apply Pstep, H | exact H].
  Qed.

  Lemma crun_lim : forall ls s, P (c_lim s) -> P (c_lim (crun s ls)).
  Proof.
    induction ls as [|l r IH]; intros s H; cbn [crun fold_left]; [exact H|]. apply IH, cstep_lim, H.
  Qed.
End LimClosed.

Definition LimOK (fdl ppl : Z) (l : lim) : Prop := Inv2 l /\ fdLimit l = fdl /\ perPeerLimit l = ppl.

Lemma LimOK_step : forall fdl ppl l o, LimOK fdl ppl l -> LimOK fdl ppl (lstep l o).
Proof.
  intros fdl ppl l o [I [A B]]. destruct (lstep_limits l o) as [C D].
  split; [apply lstep_inv2, I|]. split; congruence.
Qed.

Lemma composite_lim_ok : forall fdl ppl fd ls, 0 <= fdl -> 0 <= ppl ->
  LimOK fdl ppl (c_lim (crun (init_c fdl ppl fd) ls)).
Proof.
  intros. apply (crun_lim (LimOK fdl ppl)); [apply LimOK_step|].
  cbn. split; [apply init_inv2; assumption | split; reflexivity].
Qed.

(* ---- the dialSync component -------------------------------------------------------------- *)
Section SyncClosed.
  Variable P : sync -> Prop.
  Hypothesis Pstep : forall y e, P y -> P (sstep y e).

  Lemma add_jobs_sync : forall g p news s, c_sync (fold_left (add_addr_job g p) news s) = c_sync s.
  Proof. induction news as [|a r IH]; intros s; cbn [fold_left]; [reflexivity|]. rewrite IH. reflexivity. Qed.

  Lemma do_leave_sync : forall s c r k, P (c_sync s) -> P (c_sync (do_leave s c r k)).
  Proof.
    intros s c r k H. unfold do_leave. cprj. destruct (p_active _); cprj; apply Pstep, H.
  Qed.

  Lemma cstep_sync : forall s l, P (c_sync s) -> P (c_sync (cstep s l)).
  Proof.
    intros s l H. destruct l; cbn [cstep].
    - destruct (cget c s); [exact H|]. destruct best; [exact H|].
      destruct (p_active _); cprj; [destruct (aget None p _); [cprj; apply Pstep, H | exact H] | apply Pstep, H].
    - destruct (cget c s) as [r|]; [|exact H]. destruct (cr_phase r); exact H.
    - destruct (g <? c_next s); [|exact H]. rewrite add_jobs_sync. exact H.
    - exact H.
    - destruct (jget n s) as [j|]; [|exact H]. destruct (_ && _); exact H.
    - destruct (jget n s) as [j|]; [|exact H]. destruct (jr_reported j); exact H.
    - destruct (cget c s) as [r|]; [|exact H]. destruct (cr_phase r); exact H.
    - destruct (cget c s) as [r|]; [|exact H].
      destruct (cr_phase r); try exact H;
        (destruct (resp_of _ _) as [[|]|] || idtac); try (apply do_leave_sync; exact H);
        destruct (cr_canc r); try exact H; apply do_leave_sync; exact H.
    - destruct (memz g (c_stale s)); exact H.
  Qed.

  Lemma crun_sync : forall ls s, P (c_sync s) -> P (c_sync (crun s ls)).
  Proof.
    induction ls as [|l r IH]; intros s H; cbn [crun fold_left]; [exact H|]. apply IH, cstep_sync, H.
  Qed.
End SyncClosed.

Lemma composite_sync_ok : forall fdl ppl fd ls, SInv (c_sync (crun (init_c fdl ppl fd) ls)).
Proof.
  intros. apply (crun_sync SInv); [intros y e I; apply sstep_inv, I | apply init_sinv].
Qed.

(* the caps in the composite: for every schedule *)
Lemma composite_caps_l : forall fdl ppl fd ls, 0 <= fdl -> 0 <= ppl ->
  let l := c_lim (crun (init_c fdl ppl fd) ls) in
  0 <= fdConsuming l <= fdl /\ (forall p, 0 <= act_get p (activePerPeer l) <= ppl) /\
  cnt_fd (dialing l) <= fdl /\ (forall p, cnt_peer p (dialing l) <= ppl).
Proof.
  intros fdl ppl fd ls H1 H2 l. destruct (composite_lim_ok fdl ppl fd ls H1 H2) as [I [A B]]. fold l in I, A, B.
  destruct I as [[F P _ CF CP _] _ _]. unfold exec in *.
  pose proof (cnt_fd_nonneg (spawned l)). pose proof (cnt_fd_nonneg (dialing l)).
  rewrite cnt_fd_app in F. rewrite A in CF. repeat split; try lia.
  - specialize (P p). rewrite cnt_peer_app in P. cbn [cnt_peer] in P.
    pose proof (cnt_peer_nonneg p (spawned l)). pose proof (cnt_peer_nonneg p (dialing l)).
    pose proof (cnt_peer_nonneg p (waitingOnFd l)). lia.
  - specialize (CP p). lia.
  - intros p. specialize (P p). specialize (CP p). rewrite cnt_peer_app in P. cbn [cnt_peer] in P.
    pose proof (cnt_peer_nonneg p (spawned l)). pose proof (cnt_peer_nonneg p (waitingOnFd l)). lia.
Qed.

(* C05 — the DialPeer monitor on composite-model traces: clauses 1 (returns well-formed) and 7
   (the count of callers inside).  The monitor's lists of callers inside / returned are coupled
   with the callers table and the list of returns of the model. *)
From Coq Require Import List ZArith Bool Lia Relations Permutation.
From Verif Require Import lib.Wire c05.ModelLimiter c05.Proofs_Limiter c05.SpecLimiter c05.Proofs_LimiterMon c05.Proofs_LimiterOnce.
From Verif Require Import c05.ModelWorker c05.Proofs_WorkerMon c05.ModelSync c05.ModelComposite c05.Proofs_Composite c05.Proofs_Composite2.
From Verif Require Import c05.SpecWorker c05.SpecDialPeer c05.SpecComposite c05.Proofs_CompositeMon c05.Proofs_CompositeH.
Import ListNotations.
Local Open Scope Z_scope.

(* ---- how a label changes the callers table and the list of returns ---------------------------- *)
Definition is_call (l : clabel) : bool := match l with CCall _ _ _ _ _ => true | _ => false end.

Lemma do_leave_shape : forall s c r k,
  c_callers (do_leave s c r k) = aput c (Some (set_phase r PReturned)) (c_callers s) /\
  c_rets (do_leave s c r k) = c_rets s ++ [(c, k)].
Proof. intros. unfold do_leave. cprj. destruct (p_active _); cprj; split; reflexivity. Qed.

Lemma cstep_shape : forall s l,
  (c_callers (cstep s l) = c_callers s \/
   exists c r, c_callers (cstep s l) = aput c (Some r) (c_callers s) /\
               (cget c s <> None \/ (cget c s = None /\ exists p sim fdir best, l = CCall c p sim fdir best))) /\
  (c_rets (cstep s l) = c_rets s \/
   exists c k, c_rets (cstep s l) = c_rets s ++ [(c, k)] /\ (k = 0 \/ k = 1 \/ k = 2)).
Proof.
  intros s l.
  assert (Lv : forall c r k, cget c s = Some r -> (k = 0 \/ k = 1 \/ k = 2) ->
     (c_callers (do_leave s c r k) = c_callers s \/
      exists c0 r0, c_callers (do_leave s c r k) = aput c0 (Some r0) (c_callers s) /\
               (cget c0 s <> None \/ (cget c0 s = None /\ exists p sim fdir best, l = CCall c0 p sim fdir best))) /\
     (c_rets (do_leave s c r k) = c_rets s \/
      exists c0 k0, c_rets (do_leave s c r k) = c_rets s ++ [(c0, k0)] /\ (k0 = 0 \/ k0 = 1 \/ k0 = 2))).
  { intros c r k Hc Hk. destruct (do_leave_shape s c r k) as [A B]. split.
    - right. exists c, (set_phase r PReturned). split; [exact A | left; congruence].
    - right. exists c, k. split; assumption. }
  destruct l; cbn [cstep].
  - destruct (cget c s) as [r0|] eqn:Ec; [split; left; reflexivity|].
    destruct best.
    + split; [right; eexists; eexists; split; [reflexivity | right; split; [exact Ec | eauto 6]] |
              right; exists c, 0; split; [reflexivity | auto]].
    + destruct (p_active _); cprj.
      * destruct (aget None p (c_gen s)); [|split; left; reflexivity].
        split; [right; eexists; eexists; split; [reflexivity | right; split; [exact Ec | eauto 6]] | left; reflexivity].
      * split; [right; eexists; eexists; split; [reflexivity | right; split; [exact Ec | eauto 6]] | left; reflexivity].
  - destruct (cget c s) as [r|] eqn:Ec; [|split; left; reflexivity].
    destruct (cr_phase r); try (split; left; reflexivity).
    split; [right; eexists; eexists; split; [reflexivity | left; congruence] | left; reflexivity].
  - destruct (g <? c_next s); [|split; left; reflexivity].
    match goal with |- context [fold_left ?f ?news ?s0] => destruct (add_jobs_frame g (aget 0 g (c_gpeer s)) news s0) as [A [B _]] end.
    split; left; [rewrite A | rewrite B]; reflexivity.
  - split; left; reflexivity.
  - destruct (jget n s) as [j|]; [|split; left; reflexivity]. destruct (_ && _); split; left; reflexivity.
  - destruct (jget n s) as [j|]; [|split; left; reflexivity]. destruct (jr_reported j); split; left; reflexivity.
  - destruct (cget c s) as [r|] eqn:Ec; [|split; left; reflexivity].
    destruct (cr_phase r); try (split; left; reflexivity);
      (split; [right; eexists; eexists; split; [reflexivity | left; congruence] | left; reflexivity]).
  - destruct (cget c s) as [r|] eqn:Ec; [|split; left; reflexivity].
    destruct (cr_phase r); try (split; left; reflexivity).
    + destruct (cr_canc r); [apply Lv; auto | split; left; reflexivity].
    + destruct (resp_of c _) as [[|]|].
      * apply Lv; [exact Ec|]. destruct (cr_canc r && negb pick); auto.
      * apply Lv; [exact Ec|]. destruct (cr_canc r); auto.
      * destruct (cr_canc r); [apply Lv; auto | split; left; reflexivity].
  - destruct (memz g (c_stale s)); split; left; reflexivity.
Qed.

(* the keys of the callers table are distinct *)
Definition CK (s : cst) : Prop := NoDup (map fst (c_callers s)).

Lemma adel_keys : forall (V : Type) k (m : list (Z * V)), NoDup (map fst m) ->
  NoDup (map fst (adel k m)) /\ ~ In k (map fst (adel k m)) /\ incl (map fst (adel k m)) (map fst m).
Proof.
  induction m as [|[k' v] m IH]; intros N; cbn [adel map fst]; [split; [constructor | split; [intros [] | apply incl_refl]]|].
  inversion N; subst. destruct (IH H2) as [A [B C]]. destruct (k' =? k) eqn:E.
  - split; [exact A|]. split; [exact B | apply incl_tl, C].
  - cbn [map fst]. split; [constructor; [intros X; apply H1, C, X | exact A]|]. split.
    + intros [X|X]; [apply Z.eqb_neq in E; contradiction | contradiction].
    + intros x [X|X]; [left; exact X | right; apply C, X].
Qed.

Lemma CK_step : forall s l, CK s -> CK (cstep s l).
Proof.
  intros s l N. unfold CK in *. destruct (proj1 (cstep_shape s l)) as [E|[c [r [E _]]]]; rewrite E; [exact N|].
  unfold aput. cbn [map fst]. destruct (adel_keys _ c _ N) as [A [B _]]. constructor; assumption.
Qed.

(* the kinds of return *)
Definition KR (s : cst) : Prop := forall x, In x (c_rets s) -> snd x = 0 \/ snd x = 1 \/ snd x = 2.

Lemma KR_step : forall s l, KR s -> KR (cstep s l).
Proof.
  intros s l K. unfold KR in *. destruct (proj2 (cstep_shape s l)) as [E|[c [k [E Hk]]]]; rewrite E; [exact K|].
  intros x Hx. apply in_app_or in Hx. destruct Hx as [Hx|[<-|[]]]; [apply K, Hx | exact Hk].
Qed.

(* without a CCall label no caller appears *)
Lemma cstep_dom : forall s l c, is_call l = false -> cget c (cstep s l) <> None -> cget c s <> None.
Proof.
  intros s l c Hl H. destruct (proj1 (cstep_shape s l)) as [E|[c0 [r [E Hc]]]]; unfold cget in *; rewrite E in H; [exact H|].
  rewrite aget_aput in H. destruct (c0 =? c) eqn:Ec; [|exact H]. apply Z.eqb_eq in Ec. subst c0.
  destruct Hc as [Hc|[_ [p [sim [fdir [best ->]]]]]]; [exact Hc | discriminate].
Qed.

Lemma hstep_dom : forall a b c, hstep a b -> cget c (snd b) <> None -> cget c (snd a) <> None.
Proof.
  intros a b c St H. destruct St; cbn [snd] in *; try exact H; try (eapply cstep_dom; [|exact H]; reflexivity).
  unfold end_job in H. cbn iota beta in H. destruct (jget (jid j) s); [|exact H]. cbn [snd] in H.
    eapply cstep_dom; [|eapply cstep_dom; [|exact H]]; reflexivity.
Qed.

(* ---- counting the callers inside ---------------------------------------------------------------- *)
Lemma in_aget : forall (V : Type) (d : V) k v (m : list (Z * V)), NoDup (map fst m) -> In (k, v) m -> aget d k m = v.
Proof.
  induction m as [|[k' v'] m IH]; intros N H; [destruct H|]. cbn [aget]. cbn [map fst] in N. inversion N; subst.
  destruct H as [H|H].
  - inversion H; subst. rewrite Z.eqb_refl. reflexivity.
  - destruct (k' =? k) eqn:E; [|apply IH; assumption]. apply Z.eqb_eq in E. subst k'.
    exfalso. apply H2. change k with (fst (k, v)). apply in_map, H.
Qed.

Lemma nodup_fst_filter : forall (V : Type) (f : Z * V -> bool) l, NoDup (map fst l) -> NoDup (map fst (filter f l)).
Proof.
  induction l as [|x l IH]; intros N; cbn [filter map]; [constructor|]. cbn [map] in N. inversion N; subst.
  destruct (f x); [|apply IH; assumption]. cbn [map]. constructor; [|apply IH; assumption].
  intros H. apply H1. apply in_map_iff in H. destruct H as [y [E Hy]]. apply filter_In in Hy.
  rewrite <- E. apply in_map. tauto.
Qed.

Definition inside (s : cst) (c : Z) : Prop := exists r, cget c s = Some r /\ cr_phase r <> PReturned.

Lemma waiting_count : forall s w, CK s -> NoDup w -> (forall c, In c w <-> inside s c) -> waiting_callers s = zlen w.
Proof.
  intros s w N Nw H. unfold waiting_callers, zlen.
  set (f := fun e : Z * option crec => match snd e with
            | Some r => match cr_phase r with PReturned => false | _ => true end | None => false end).
  assert (P : Permutation (map fst (filter f (c_callers s))) w).
  { apply NoDup_Permutation; [apply nodup_fst_filter, N | exact Nw|]. intros c. rewrite H. split.
    - intros Hin. apply in_map_iff in Hin. destruct Hin as [[c' v] [E Hy]]. cbn [fst] in E. subst c'.
      apply filter_In in Hy. destruct Hy as [Hy Hf]. unfold f in Hf. cbn [snd] in Hf.
      destruct v as [r|]; [|discriminate]. exists r. split; [apply in_aget; assumption|].
      intros Hp. rewrite Hp in Hf. discriminate.
    - intros [r [Hc Hp]]. apply aget_in in Hc. apply in_map_iff. exists (c, Some r). split; [reflexivity|].
      apply filter_In. split; [exact Hc|]. unfold f. cbn [snd]. destruct (cr_phase r); congruence. }
  apply Permutation_length in P. rewrite map_length in P. rewrite P. reflexivity.
Qed.

(* ---- the coupling of the monitor's caller lists ---------------------------------------------- *)
Definition MWl (s : cst) (w dn : list Z) : Prop :=
  NoDup w /\ (forall c, In c w <-> inside s c) /\ Permutation dn (map fst (c_rets s)).

Definition isnew (x : cstim) (c : Z) : Prop := match x with KCall c' _ _ _ => c = c' | _ => False end.

Lemma kinit_dom : forall es x c, cget c (snd (kinit es x)) <> None -> cget c (snd es) <> None \/ isnew x c.
Proof.
  intros [e0 s] x c H. unfold kinit in H. destruct x; cbn [snd] in *; try (left; exact H).
  - destruct (proj1 (cstep_shape s (CCall c0 PEER sim fdir (okconn (de_se e0 [] []) fdir)))) as [E|[c1 [r [E Hc]]]];
      unfold cget in *; rewrite E in H; [left; exact H|].
    rewrite aget_aput in H. destruct (c1 =? c) eqn:Ec; [|left; exact H]. apply Z.eqb_eq in Ec. subst c1.
    destruct Hc as [Hc|[_ [p [sim' [fdir' [best' Hl]]]]]]; [left; exact Hc | right; inversion Hl; reflexivity].
  - left. destruct (find_dialing s a) as [n|]; [|exact H]. cbn [snd] in H. unfold end_job in H. cbn iota beta in H.
    destruct (jget n s); [|exact H]. cbn [snd] in H.
    eapply cstep_dom; [|eapply cstep_dom; [|exact H]]; reflexivity.
  - left. eapply cstep_dom; [|eapply cstep_dom; [|exact H]]; reflexivity.
Qed.

Lemma kstep_dom : forall es x c, TIs es -> cget c (snd (kstep es x)) <> None -> cget c (snd es) <> None \/ isnew x c.
Proof.
  intros es x c T.
  apply (kstep_closed_h (fun a => cget c (snd a) <> None -> cget c (snd es) <> None \/ isnew x c)); [|exact T|apply kinit_dom].
  intros a b Ha _ St H. apply Ha. eapply hstep_dom; eauto.
Qed.

Lemma in_fold_remz_conv : forall l w c, In c w -> ~ In c l -> In c (fold_right remz w l).
Proof.
  induction l as [|x l IH]; intros w c H Hn; cbn [fold_right]; [exact H|].
  unfold remz at 1. apply filter_In. split; [apply IH; [exact H | intros X; apply Hn; right; exact X]|].
  apply negb_true_iff, Z.eqb_neq. intros E. apply Hn. left. symmetry. exact E.
Qed.

Lemma nodup_fold_remz : forall l w, NoDup w -> NoDup (fold_right remz w l).
Proof.
  induction l as [|x l IH]; intros w N; cbn [fold_right]; [exact N|]. unfold remz at 1. apply NoDup_filter, IH, N.
Qed.

Lemma nodup_app_disj : forall (a b : list Z) x, NoDup (a ++ b) -> In x a -> In x b -> False.
Proof.
  induction a as [|y a IH]; intros b x N Ha Hb; [destruct Ha|]. cbn [app] in N. inversion N; subst.
  destruct Ha as [->|Ha]; [apply H1, in_or_app; right; exact Hb | eapply IH; eauto].
Qed.

(* ---- one step: clauses 1 (membership, kinds, no second return) and 7 ------------------------------ *)
Lemma step_clause17 : forall es x w dn,
  TIs es -> GInv (snd es) -> RC (snd es) -> RInv (snd es) -> CK (snd es) -> KR (snd es) ->
  MWl (snd es) w dn -> wf_kstim (snd es) x ->
  let es' := kstep es x in
  let o := kobs es es' in
  let wait0 := match x with KCall c _ _ _ => c :: w | _ => w end in
  let rets := map fst (d_rets o) in
  let wait1 := fold_right remz wait0 rets in
  (forall e, In e (d_rets o) -> mem_z (fst e) wait0 = true /\ (snd e =? 3) = false) /\
  nodup_z (rets ++ dn) = true /\
  (d_waiting o =? zlen wait1) = true /\
  CK (snd es') /\ KR (snd es') /\ MWl (snd es') wait1 (rets ++ dn).
Proof.
  intros [e0 s] x w dn T G A B N K [Nw [Hw Pd]] Wf. cbn [snd] in G, A, B, N, K, Hw, Pd, Wf.
  pose proof (kstep_RK (e0, s) x A B) as RKx.
  pose proof (kstep_closed CK CK_step (e0, s) x N) as N'.
  pose proof (kstep_closed KR KR_step (e0, s) x K) as K'.
  pose proof (fun c => kstep_dom (e0, s) x c T) as Dom.
  remember (kstep (e0, s) x) as es' eqn:Ees. intros es'' o wait0 rets wait1. subst es''.
  destruct RKx as [A' [B' [[l El] Kn]]]. cbn [snd] in El, Kn, Dom.
  assert (Rn : d_rets o = sort_pairs l).
  { unfold o, kobs, dobs_of. cbn [d_rets]. change (snd (e0, s)) with s. rewrite El, skipn_app_len. reflexivity. }
  assert (Pr : Permutation rets (map fst l)).
  { unfold rets. rewrite Rn. apply Permutation_map, sort_pairs_perm. }
  assert (Nd : NoDup (map fst (c_rets s ++ l))) by (rewrite <- El; apply (r_nodup _ B')).
  (* the monitor's wait0 *)
  assert (N0 : NoDup wait0).
  { unfold wait0. destruct x; try exact Nw. constructor; [|exact Nw]. intros X. apply Hw in X.
    destruct X as [r [X _]]. cbn [wf_kstim] in Wf. congruence. }
  assert (In0 : forall c, inside s c \/ isnew x c -> In c wait0).
  { intros c [H|H]; unfold wait0.
    - destruct x; try (apply Hw; exact H). right. apply Hw, H.
    - destruct x; try contradiction. cbn [isnew] in H. left. symmetry. exact H. }
  (* who returned in this step was inside or is the new caller *)
  assert (New : forall c, In c (map fst l) -> In c wait0 /\ ~ inside (snd es') c).
  { intros c Hc.
    assert (Hr : In c (map fst (c_rets (snd es')))) by (rewrite El, map_app; apply in_or_app; right; exact Hc).
    destruct (r_ret _ B' c Hr) as [r' [Y1 Y2]]. split.
    - apply In0. destruct (Dom c) as [D|D]; [congruence| |right; exact D].
      destruct (cget c s) as [r|] eqn:Ec; [|congruence]. left. exists r. split; [exact Ec|].
      intros Hp. pose proof (A c r Ec Hp) as X. rewrite map_app in Nd. exfalso. apply (nodup_app_disj _ _ c Nd); assumption.
    - intros [r2 [Z1 Z2]]. congruence. }
  split; [|split; [|split; [|split; [exact N'|split; [exact K'|]]]]].
  - intros e He. rewrite Rn in He. apply (proj1 (sort_pairs_in _ _)) in He. split.
    + apply mem_z_In. apply New. apply in_map, He.
    + assert (X : In e (c_rets (snd es'))) by (rewrite El; apply in_or_app; right; exact He).
      destruct (K' e X) as [Y|[Y|Y]]; rewrite Y; reflexivity.
  - apply nodup_z_true. eapply Permutation_NoDup; [|exact Nd].
    rewrite map_app. apply Permutation_sym. eapply Permutation_trans; [apply Permutation_app; [exact Pr | exact Pd]|].
    apply Permutation_app_comm.
  - apply Z.eqb_eq. unfold o, kobs, dobs_of. cbn [d_waiting]. apply waiting_count; [exact N' | apply nodup_fold_remz, N0|].
    intros c. split.
    + intros Hin. apply in_fold_remz in Hin. destruct Hin as [H0 Hn].
      assert (Hs : inside s c \/ isnew x c).
      { unfold wait0 in H0. destruct x; try (left; apply Hw, H0). destruct H0 as [<-|H0]; [right; reflexivity | left; apply Hw, H0]. }
      assert (Ex : cget c (snd es') <> None).
      { destruct Hs as [[r [Hc _]]|Hs]; [apply Kn; congruence|].
        destruct x; try contradiction. cbn [isnew] in Hs. subst c0. cbn [wf_kstim] in Wf.
        set (s1 := cstep s (CCall c PEER sim fdir (okconn (de_se e0 [] []) fdir))).
        assert (Ex : RCX s1 (snd es')).
        { rewrite Ees. unfold kstep. fold s1.
          match goal with |- RCX s1 (snd (drain ?z)) => apply (drain_closed (RCX s1) (RCX_step s1) z) end.
          match goal with |- RCX s1 (snd (?a, ?b)) => change (snd (a, b)) with b end.
          split; [apply cstep_facts, A|]. split; [apply rets_ext_refl | intros y Hy; exact Hy]. }
        destruct Ex as [_ [_ K1]]. apply K1. apply call_registers; auto. }
      destruct (cget c (snd es')) as [r'|] eqn:Ec; [|congruence]. exists r'. split; [exact Ec|].
      intros Hr. pose proof (A' c r' Ec Hr) as X. rewrite El, map_app in X. apply in_app_or in X. destruct X as [X|X].
      * destruct (r_ret _ B c X) as [r0 [Y1 Y2]]. destruct Hs as [[r1 [Z1 Z2]]|Hs]; [congruence|].
        destruct x; try contradiction. cbn [isnew] in Hs. subst c0. cbn [wf_kstim] in Wf. congruence.
      * apply Hn. eapply Permutation_in; [apply Permutation_sym, Pr | exact X].
    + intros [r' [Hc Hp]]. apply in_fold_remz_conv.
      * apply In0. destruct (Dom c) as [D|D]; [congruence| |right; exact D].
        destruct (cget c s) as [r|] eqn:Ec; [|congruence]. left. exists r. split; [exact Ec|].
        intros Hr. pose proof (A c r Ec Hr) as X.
        assert (X' : In c (map fst (c_rets (snd es')))) by (rewrite El, map_app; apply in_or_app; left; exact X).
        destruct (r_ret _ B' c X') as [r2 [Y1 Y2]]. congruence.
      * intros X. apply (Permutation_in _ Pr) in X. destruct (New c X) as [_ Y]. apply Y. exists r'. split; assumption.
  - split; [apply nodup_fold_remz, N0|]. split.
    + (* the same equivalence as for the count *)
      intros c. split.
      * intros Hin. apply in_fold_remz in Hin. destruct Hin as [H0 Hn].
        assert (Hs : inside s c \/ isnew x c).
        { unfold wait0 in H0. destruct x; try (left; apply Hw, H0). destruct H0 as [<-|H0]; [right; reflexivity | left; apply Hw, H0]. }
        assert (Ex : cget c (snd es') <> None).
        { destruct Hs as [[r [Hc _]]|Hs]; [apply Kn; congruence|].
          destruct x; try contradiction. cbn [isnew] in Hs. subst c0. cbn [wf_kstim] in Wf.
          set (s1 := cstep s (CCall c PEER sim fdir (okconn (de_se e0 [] []) fdir))).
          assert (Ex : RCX s1 (snd es')).
          { rewrite Ees. unfold kstep. fold s1.
            match goal with |- RCX s1 (snd (drain ?z)) => apply (drain_closed (RCX s1) (RCX_step s1) z) end.
            match goal with |- RCX s1 (snd (?a, ?b)) => change (snd (a, b)) with b end.
            split; [apply cstep_facts, A|]. split; [apply rets_ext_refl | intros y Hy; exact Hy]. }
          destruct Ex as [_ [_ K1]]. apply K1. apply call_registers; auto. }
        destruct (cget c (snd es')) as [r'|] eqn:Ec; [|congruence]. exists r'. split; [exact Ec|].
        intros Hr. pose proof (A' c r' Ec Hr) as X. rewrite El, map_app in X. apply in_app_or in X. destruct X as [X|X].
        -- destruct (r_ret _ B c X) as [r0 [Y1 Y2]]. destruct Hs as [[r1 [Z1 Z2]]|Hs]; [congruence|].
           destruct x; try contradiction. cbn [isnew] in Hs. subst c0. cbn [wf_kstim] in Wf. congruence.
        -- apply Hn. eapply Permutation_in; [apply Permutation_sym, Pr | exact X].
      * intros [r' [Hc Hp]]. apply in_fold_remz_conv.
        -- apply In0. destruct (Dom c) as [D|D]; [congruence| |right; exact D].
           destruct (cget c s) as [r|] eqn:Ec; [|congruence]. left. exists r. split; [exact Ec|].
           intros Hr. pose proof (A c r Ec Hr) as X.
           assert (X' : In c (map fst (c_rets (snd es')))) by (rewrite El, map_app; apply in_or_app; left; exact X).
           destruct (r_ret _ B' c X') as [r2 [Y1 Y2]]. congruence.
        -- intros X. apply (Permutation_in _ Pr) in X. destruct (New c X) as [_ Y]. apply Y. exists r'. split; assumption.
    + rewrite El, map_app. eapply Permutation_trans; [apply Permutation_app; [exact Pr | exact Pd]|]. apply Permutation_app_comm.
Qed.

(* C05 — the worker's part of the bound on a drain (SpecComposite.worker_wt): a request adds at
   most one queue entry per ranked address; a timer that fires removes a batch from the queue
   and hands at most that many addresses to transports. *)
From Coq Require Import List ZArith Bool Lia.
From Verif Require Import lib.Wire c05.ModelLimiter c05.Proofs_Limiter c05.ModelWorker c05.Proofs_Worker.
From Verif Require Import c05.SpecLimiter c05.SpecWorker c05.ModelSync c05.ModelComposite c05.SpecDialPeer c05.SpecComposite.
Import ListNotations.
Local Open Scope Z_scope.

Lemma zlen_cons : forall (A : Type) (x : A) l, zlen (x :: l) = zlen l + 1.
Proof. intros. unfold zlen. cbn [length]. lia. Qed.
Lemma zlen_app : forall (A : Type) (a b : list A), zlen (a ++ b) = zlen a + zlen b.
Proof. intros. unfold zlen. rewrite app_length. lia. Qed.
Lemma zlen_nonneg : forall (A : Type) (l : list A), 0 <= zlen l.
Proof. intros. unfold zlen. lia. Qed.
Lemma zlen_nil : forall (A : Type), zlen (@nil A) = 0.
Proof. reflexivity. Qed.

Lemma dq_add_len : forall x q, zlen (dq_add x q) = zlen q + 1.
Proof.
  induction q as [|y r IH]; cbn [dq_add]; [reflexivity|].
  destruct (existsb _ (y :: r)); rewrite ?zlen_cons, ?IH; lia.
Qed.

Lemma dq_scan_len : forall a d n q, (length q <= n)%nat -> forall q', dq_scan a d q = Some q' -> zlen q' <= zlen q.
Proof.
  induction n as [|n IH]; intros q Hl q' H.
  - destruct q; [|cbn in Hl; lia]. cbn in H. inversion H. lia.
  - destruct q as [|y r]; [cbn in H; inversion H; lia|]. cbn [dq_scan] in H. cbn [length] in Hl.
    destruct (fst y =? a).
    + destruct (snd y =? d); [discriminate|]. destruct r as [|z r'].
      * inversion H. rewrite zlen_cons. pose proof (zlen_nonneg _ (@nil (Z * Z))). lia.
      * destruct (dq_scan a d r') as [q1|] eqn:E; [|discriminate]. cbn [option_map] in H. inversion H.
        assert (X : zlen q1 <= zlen r') by (apply (IH r'); [cbn [length] in Hl; lia | exact E]).
        rewrite !zlen_cons. lia.
    + destruct (dq_scan a d r) as [q1|] eqn:E; [|discriminate]. cbn [option_map] in H. inversion H.
      assert (X : zlen q1 <= zlen r) by (apply (IH r); [lia | exact E]). rewrite !zlen_cons. lia.
Qed.

Lemma dq_uoa_len : forall a d q, zlen (dq_update_or_add a d q) <= zlen q + 1.
Proof.
  intros. unfold dq_update_or_add. destruct (dq_scan a d q) as [q'|] eqn:E; [|lia].
  rewrite dq_add_len. pose proof (dq_scan_len a d (length q) q (le_n _) q' E). lia.
Qed.

Lemma join_loop_dq : forall sim rk tj s, zlen (w_dq (join_loop sim rk tj s)) <= zlen (w_dq s) + zlen tj.
Proof.
  induction tj as [|a r IH]; intros s; cbn [join_loop]; [rewrite zlen_nil; lia|]. rewrite zlen_cons.
  eapply Z.le_trans; [apply IH|]. destruct (tget a s) as [ad|]; [|lia].
  destruct (negb (ad_dialed ad) && sim && negb (ad_sim ad)); [|lia]. wprj. pose proof (dq_uoa_len a (delay_of a rk) (w_dq s)). lia.
Qed.

Lemma todial_loop_dq : forall sim fdir rk td s, zlen (w_dq (todial_loop sim fdir rk td s)) = zlen (w_dq s) + zlen td.
Proof.
  induction td as [|a r IH]; intros s; cbn [todial_loop]; [rewrite zlen_nil; lia|]. rewrite zlen_cons, IH. wprj.
  rewrite dq_add_len. lia.
Qed.

Lemma scan_len : forall s rk td tj ed td' tj' ed', scan s rk td tj ed = ScanDone td' tj' ed' ->
  zlen td' + zlen tj' + zlen ed' = zlen td + zlen tj + zlen ed + zlen rk.
Proof.
  induction rk as [|[a d] r IH]; intros td tj ed td' tj' ed' H; cbn [scan] in H.
  - inversion H. rewrite zlen_nil. lia.
  - rewrite zlen_cons. destruct (tget a s) as [ad|].
    + destruct (ad_st ad); [|discriminate|]; apply IH in H; rewrite zlen_app, zlen_cons, zlen_nil in H; lia.
    + apply IH in H. rewrite zlen_app, zlen_cons, zlen_nil in H. lia.
Qed.

Lemma schedule_wt : forall s, worker_wt (schedule s) <= 4 * zlen (w_dq s) + 1 /\
  (w_dq s = [] -> worker_wt (schedule s) = 0).
Proof.
  intros s. unfold schedule, worker_wt. destruct (w_dq s) as [|top r] eqn:E; wprj.
  - rewrite E. split; [rewrite zlen_nil; lia | reflexivity].
  - split; [|discriminate]. destruct ((w_inflight s =? 0) && negb (w_connected s)); wprj; rewrite E; lia.
Qed.

Definition rk_len (rank : option (list (Z * Z))) : Z := match rank with Some rk => zlen rk | None => 0 end.

Lemma on_request_wt : forall s rid sim fdir best rank,
  worker_wt (on_request s rid sim fdir best rank) <= worker_wt s + 1 + 4 * rk_len rank.
Proof.
  intros. unfold on_request. cbv zeta. set (s0 := set_seen s (w_seen s ++ [rid])).
  assert (E0 : worker_wt s0 = worker_wt s) by reflexivity.
  assert (Hr : 0 <= rk_len rank) by (destruct rank; cbn; [apply zlen_nonneg | lia]).
  assert (R : forall k, worker_wt (respond s0 rid k) <= worker_wt s + 1 + 4 * rk_len rank).
  { intros k. change (worker_wt (respond s0 rid k)) with (worker_wt s). lia. }
  destruct best; [apply R|]. destruct rank as [rk|]; [|apply R]. cbn [rk_len] in *.
  destruct (scan s0 rk [] [] []) as [|td tj ed] eqn:Es; [apply R|].
  pose proof (scan_len _ _ _ _ _ _ _ _ Es) as L. rewrite !zlen_nil in L.
  assert (P : forall pr, worker_wt (schedule (todial_loop sim fdir rk td (join_loop sim rk tj (set_pending s0 pr)))) <= worker_wt s + 1 + 4 * zlen rk).
  { intros pr. destruct (schedule_wt (todial_loop sim fdir rk td (join_loop sim rk tj (set_pending s0 pr)))) as [A _].
    rewrite todial_loop_dq in A. pose proof (join_loop_dq sim rk tj (set_pending s0 pr)) as B. wprj.
    change (w_dq s0) with (w_dq s) in B. pose proof (zlen_nonneg _ ed). unfold worker_wt at 2. destruct (w_timer s); lia. }
  destruct td; [destruct tj|]; try apply P. apply R.
Qed.

(* batches *)
Lemma span_delay_len : forall d q b r, span_delay d q = (b, r) -> zlen b + zlen r = zlen q.
Proof. intros d q b r H. apply span_delay_app in H. subst q. rewrite zlen_app. reflexivity. Qed.

Lemma next_batch_len : forall q b r, next_batch q = (b, r) -> zlen b + zlen r = zlen q /\ (q <> [] -> 1 <= zlen b).
Proof.
  intros q b r H. split; [apply next_batch_app in H; subst q; rewrite zlen_app; reflexivity|].
  intros Hq. destruct q as [|y q]; [congruence|]. cbn [next_batch span_delay] in H. rewrite Z.eqb_refl in H.
  destruct (span_delay (snd y) q) as [b' r']. inversion H. rewrite zlen_cons. pose proof (zlen_nonneg _ b'). lia.
Qed.

Lemma dispatch_error_dq : forall s a e bl, w_dq (dispatch_error s a e bl) = w_dq s /\ w_dials (dispatch_error s a e bl) = w_dials s /\
  w_timer (dispatch_error s a e bl) = w_timer s.
Proof.
  intros. unfold dispatch_error. destruct (tget a s); destruct (disp_loop _ _ _); destruct e; repeat split.
Qed.

Lemma batch_loop_dq : forall bo bl batch s, w_dq (batch_loop bo bl batch s) = w_dq s /\
  zlen (w_dials (batch_loop bo bl batch s)) <= zlen (w_dials s) + zlen batch /\ zlen (w_dials s) <= zlen (w_dials (batch_loop bo bl batch s)).
Proof.
  induction batch as [|[a d] r IH]; intros s; cbn [batch_loop]; [rewrite zlen_nil; repeat split; lia|].
  rewrite zlen_cons. match goal with |- context [batch_loop bo bl r ?x] => destruct (IH x) as [A [B C]] end.
  rewrite A. destruct (tget a s) as [ad|]; [|repeat split; lia]. cbv zeta in *.
  destruct (negb (ad_fdir ad) && memz a bo).
  - match goal with _ : context [dispatch_error ?x a EBackoff bl] |- _ => destruct (dispatch_error_dq x a EBackoff bl) as [D1 [D2 _]] end.
    rewrite D1, D2 in *. wprj. repeat split; try reflexivity; lia.
  - wprj. rewrite zlen_app, zlen_cons, zlen_nil in *. repeat split; try reflexivity; lia.
Qed.

(* a timer that fires *)
Lemma on_timer_wt : forall s bo bl, w_timer s <> None ->
  let s' := on_timer s bo bl in
  worker_wt s' + 2 * (zlen (w_dials s') - zlen (w_dials s)) < worker_wt s /\ zlen (w_dials s) <= zlen (w_dials s').
Proof.
  intros s bo bl Ht s'. unfold s', on_timer. destruct (next_batch (w_dq s)) as [batch rest] eqn:En.
  destruct (next_batch_len _ _ _ En) as [L1 L2].
  destruct (batch_loop_dq bo bl batch (set_dq s rest)) as [A [B C]]. wprj.
  destruct (schedule_same (batch_loop bo bl batch (set_dq s rest))) as [_ [_ [_ [_ [_ [Ed _]]]]]]. rewrite Ed.
  destruct (schedule_wt (batch_loop bo bl batch (set_dq s rest))) as [W1 W2]. rewrite A in W1, W2. wprj.
  split; [|exact C]. unfold worker_wt at 2. destruct (w_timer s); [|congruence].
  destruct (w_dq s) as [|y q] eqn:Eq.
  - cbn in En. inversion En; subst. rewrite (W2 eq_refl). cbn [batch_loop] in *. wprj. rewrite zlen_nil. lia.
  - assert (X : 1 <= zlen batch) by (apply L2; discriminate). lia.
Qed.

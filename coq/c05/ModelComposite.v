(* C05 — the composite: Swarm.dialPeer -> dialSync.Dial -> one dialWorker loop per
   active dial -> dialLimiter, as a labelled transition system whose steps are the
   sections the code makes atomic with its mutexes and channels.  The component
   models are reused as they are: ModelSync.sstep, ModelWorker.wstep,
   ModelLimiter.lstep.  No proofs here.

   label                      code
   -------------------------  -----------------------------------------------------------
   CCall c p sim fdir best    dialPeer up to and including getActiveDial (best: an
                              acceptable connection already exists -> returns at once)
   CDeliver c best rank       the worker loop takes c's dialRequest from reqch and runs
                              its request case (environment answers: best, ranking)
   CTimer g bo bestl          the worker loop of generation g runs its timer case; every
                              address it dials becomes a limiter job (AddDialJob)
   CBegin n                   executeDial of job n reaches `if j.cancelled()`
   CRes n r bestl             the transport dial of job n reports r; executeDial hands it
                              to the worker (select on j.resp / j.ctx.Done())
   CFin n                     finishedDial of job n
   CCancel c                  the context of caller c is cancelled
   CLeave c pick              the locked tail of dialSync.Dial and the return of dialPeer
                              (pick: which ready case the select took when both a
                              connection and the cancellation were ready)
   CExit g                    the loop of a worker whose reqch was closed returns
                              (deferred clearAllPeerDials)

   A generation is one activeDial with its worker; its id is also the id of the
   context shared by its limiter jobs.  After its reqch is closed a worker is frozen
   (w_stopped): the iterations a closing loop may still run touch only its own dead
   state and jobs whose context is already cancelled; only its exit is modelled. *)
From Coq Require Import List ZArith Bool.
From Verif Require Import c05.ModelLimiter c05.ModelWorker c05.ModelSync.
Import ListNotations.
Local Open Scope Z_scope.

Inductive cphase := PSending | PWaiting | PReturned.

Record crec := mkC { cr_peer : Z; cr_gen : Z; cr_phase : cphase; cr_canc : bool;
                     cr_sim : bool; cr_fdir : bool }.

Record jrec := mkJ { jr_gen : Z; jr_addr : Z; jr_reported : bool }.

Record cst := mkCS {
  c_sync : sync;
  c_lim : lim;
  c_gen : list (Z * option Z);        (* peer -> its live generation *)
  c_w : list (Z * wst);               (* generation -> worker state (init_w when absent) *)
  c_gpeer : list (Z * Z);             (* generation -> peer *)
  c_stale : list Z;                   (* generations whose reqch is closed, loop not yet returned *)
  c_jobs : list (Z * option jrec);    (* limiter job -> (generation, address, reported) *)
  c_callers : list (Z * option crec);
  c_next : Z;                         (* fresh ids: generations and jobs *)
  c_fd : list Z;                      (* constant: the addresses for which shouldConsumeFd holds *)
  c_rets : list (Z * Z) }.            (* ghost: (caller, kind) in order of return;
                                         kind 0 connection, 1 error, 2 the caller's context error *)

Definition init_c (fdl ppl : Z) (fd : list Z) : cst :=
  mkCS [] (init_lim fdl ppl) [] [] [] [] [] [] 1 fd [].

Definition set_sync (s : cst) v := mkCS v (c_lim s) (c_gen s) (c_w s) (c_gpeer s) (c_stale s) (c_jobs s) (c_callers s) (c_next s) (c_fd s) (c_rets s).
Definition set_lim (s : cst) v := mkCS (c_sync s) v (c_gen s) (c_w s) (c_gpeer s) (c_stale s) (c_jobs s) (c_callers s) (c_next s) (c_fd s) (c_rets s).
Definition set_gen (s : cst) v := mkCS (c_sync s) (c_lim s) v (c_w s) (c_gpeer s) (c_stale s) (c_jobs s) (c_callers s) (c_next s) (c_fd s) (c_rets s).
Definition set_w (s : cst) v := mkCS (c_sync s) (c_lim s) (c_gen s) v (c_gpeer s) (c_stale s) (c_jobs s) (c_callers s) (c_next s) (c_fd s) (c_rets s).
Definition set_gpeer (s : cst) v := mkCS (c_sync s) (c_lim s) (c_gen s) (c_w s) v (c_stale s) (c_jobs s) (c_callers s) (c_next s) (c_fd s) (c_rets s).
Definition set_stale (s : cst) v := mkCS (c_sync s) (c_lim s) (c_gen s) (c_w s) (c_gpeer s) v (c_jobs s) (c_callers s) (c_next s) (c_fd s) (c_rets s).
Definition set_jobs (s : cst) v := mkCS (c_sync s) (c_lim s) (c_gen s) (c_w s) (c_gpeer s) (c_stale s) v (c_callers s) (c_next s) (c_fd s) (c_rets s).
Definition set_callers (s : cst) v := mkCS (c_sync s) (c_lim s) (c_gen s) (c_w s) (c_gpeer s) (c_stale s) (c_jobs s) v (c_next s) (c_fd s) (c_rets s).
Definition set_next (s : cst) v := mkCS (c_sync s) (c_lim s) (c_gen s) (c_w s) (c_gpeer s) (c_stale s) (c_jobs s) (c_callers s) v (c_fd s) (c_rets s).
Definition set_rets (s : cst) v := mkCS (c_sync s) (c_lim s) (c_gen s) (c_w s) (c_gpeer s) (c_stale s) (c_jobs s) (c_callers s) (c_next s) (c_fd s) v.

Definition wget (g : Z) (s : cst) : wst := aget init_w g (c_w s).
Definition wput (g : Z) (w : wst) (s : cst) : cst := set_w s (aput g w (c_w s)).
Definition cget (c : Z) (s : cst) : option crec := aget None c (c_callers s).
Definition cput (c : Z) (r : crec) (s : cst) : cst := set_callers s (aput c (Some r) (c_callers s)).
Definition jget (n : Z) (s : cst) : option jrec := aget None n (c_jobs s).
Definition jput (n : Z) (j : jrec) (s : cst) : cst := set_jobs s (aput n (Some j) (c_jobs s)).
Definition lim_do (s : cst) (o : lop) : cst := set_lim s (lstep (c_lim s) o).

Inductive clabel :=
| CCall (c p : Z) (sim fdir best : bool)
| CDeliver (c : Z) (best : bool) (rank : option (list (Z * Z)))
| CTimer (g : Z) (bo bestl : list Z)
| CBegin (n : Z)
| CRes (n : Z) (r : dres) (bestl : list Z)
| CFin (n : Z)
| CCancel (c : Z)
| CLeave (c : Z) (pick : bool)
| CExit (g : Z).

(* AddDialJob for one address dialed by the worker of generation g *)
Definition add_addr_job (g p : Z) (s : cst) (a : Z) : cst :=
  let n := c_next s in
  let s1 := lim_do s (LAdd (mkJob n p (memz a (c_fd s)) g)) in
  set_next (jput n (mkJ g a false) s1) (n + 1).

Fixpoint resp_of (c : Z) (l : list (Z * resp)) : option resp :=
  match l with
  | [] => None
  | (k, r) :: t => if k =? c then Some r else resp_of c t
  end.

Definition is_final_res (r : dres) : bool := match r with DRProgress _ _ => false | _ => true end.

Definition set_phase (r : crec) (ph : cphase) : crec :=
  mkC (cr_peer r) (cr_gen r) ph (cr_canc r) (cr_sim r) (cr_fdir r).
Definition set_canc (r : crec) : crec :=
  mkC (cr_peer r) (cr_gen r) (cr_phase r) true (cr_sim r) (cr_fdir r).

Definition in_dialing (n : Z) (l : lim) : bool := existsb (fun j => jid j =? n) (dialing l).

Definition do_leave (s : cst) (c : Z) (r : crec) (kind : Z) : cst :=
  let p := cr_peer r in
  let g := cr_gen r in
  let s1 := set_sync s (sstep (c_sync s) (SLeave c p)) in
  let s2 := set_rets (cput c (set_phase r PReturned) s1) (c_rets s1 ++ [(c, kind)]) in
  if p_active (sget p (c_sync s2)) then s2
  else
    (* the last caller: cancelCause, close(reqch), delete(ds.dials, p) *)
    let s3 := lim_do s2 (LCancel g) in
    let s4 := wput g (wstep (wget g s3) WClose) s3 in
    set_gen (set_stale s4 (c_stale s4 ++ [g])) (adel p (c_gen s4)).

Definition cstep (s : cst) (l : clabel) : cst :=
  match l with
  | CCall c p sim fdir best =>
      match cget c s with
      | Some _ => s
      | None =>
          if best then
            set_rets (cput c (mkC p 0 PReturned false sim fdir) s) (c_rets s ++ [(c, 0)])
          else
            let was := p_active (sget p (c_sync s)) in
            let s1 := set_sync s (sstep (c_sync s) (SEnter c p)) in
            if was then
              match aget None p (c_gen s1) with
              | Some g => cput c (mkC p g PSending false sim fdir) s1
              | None => s     (* unreachable: an active dial has a generation *)
              end
            else
              let g := c_next s1 in
              let s2 := set_next (set_gpeer (wput g init_w (set_gen s1 (aput p (Some g) (c_gen s1))))
                                            (aput g p (c_gpeer s1))) (g + 1) in
              cput c (mkC p g PSending false sim fdir) s2
      end
  | CDeliver c best rank =>
      match cget c s with
      | Some r =>
          match cr_phase r with
          | PSending =>
              let g := cr_gen r in
              cput c (set_phase r PWaiting)
                   (wput g (wstep (wget g s) (WReq c (cr_sim r) (cr_fdir r) best rank)) s)
          | _ => s
          end
      | None => s
      end
  | CTimer g bo bestl =>
      if g <? c_next s then        (* timers belong to workers that exist *)
        let w := wget g s in
        let w' := wstep w (WTimer bo bestl) in
        let news := skipn (length (w_dials w)) (w_dials w') in
        fold_left (add_addr_job g (aget 0 g (c_gpeer s))) news (wput g w' s)
      else s
  | CBegin n => lim_do s (LBegin n)
  | CRes n r bestl =>
      match jget n s with
      | Some j =>
          if negb (jr_reported j) && in_dialing n (c_lim s) then
            let g := jr_gen j in
            let s1 := wput g (wstep (wget g s) (WRes (jr_addr j) r bestl)) s in
            jput n (mkJ g (jr_addr j) (is_final_res r)) s1
          else s
      | None => s
      end
  | CFin n =>
      match jget n s with
      | Some j => if jr_reported j then lim_do s (LReturn n) else s
      | None => s
      end
  | CCancel c =>
      match cget c s with
      | Some r => match cr_phase r with PReturned => s | _ => cput c (set_canc r) s end
      | None => s
      end
  | CLeave c pick =>
      match cget c s with
      | Some r =>
          let resp := match cr_phase r with
                      | PWaiting => resp_of c (w_resps (wget (cr_gen r) s))
                      | _ => None end in
          match cr_phase r with
          | PReturned => s
          | _ =>
              match resp with
              | Some RespConn => do_leave s c r (if cr_canc r && negb pick then 2 else 0)
              | Some RespErr => do_leave s c r (if cr_canc r then 2 else 1)
              | None => if cr_canc r then do_leave s c r 2 else s
              end
          end
      | None => s
      end
  | CExit g =>
      if memz g (c_stale s)
      then lim_do (set_stale s (remove1 g (c_stale s))) (LClear (aget 0 g (c_gpeer s)))
      else s
  end.

Definition crun (s : cst) (ls : list clabel) : cst := fold_left cstep ls s.

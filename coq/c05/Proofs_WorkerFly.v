(* C05 — how each worker event moves w_dials and w_flying (used by the composite). *)
From Coq Require Import List ZArith Bool Lia.
From Verif Require Import c05.ModelLimiter c05.Proofs_Limiter c05.ModelWorker c05.Proofs_Worker c05.Proofs_WorkerMon.
Import ListNotations.
Local Open Scope Z_scope.

Definition df_same (s s' : wst) : Prop := w_dials s' = w_dials s /\ w_flying s' = w_flying s.

Lemma df_refl : forall s, df_same s s. Proof. split; reflexivity. Qed.
Lemma df_trans : forall a b c, df_same a b -> df_same b c -> df_same a c.
Proof. intros a b c [A1 A2] [B1 B2]. split; congruence. Qed.

Lemma dispatch_error_df : forall s a e bestl, df_same s (dispatch_error s a e bestl).
Proof.
  intros. unfold dispatch_error.
  set (s1 := match tget a s with Some ad => tput a (ad_set_st ad DErr) s | None => s end).
  assert (E : df_same s s1) by (unfold s1; destruct (tget a s); split; reflexivity).
  destruct (disp_loop a bestl (w_pending s1)) as [keep out]. destruct E as [E1 E2].
  destruct e; split; wprj; assumption.
Qed.

Lemma schedule_df : forall s, df_same s (schedule s).
Proof. intros. destruct (schedule_same s) as [_ [_ [_ [_ [_ [A [B _]]]]]]]. split; assumption. Qed.

Lemma loops_df : forall sim fdir rk td tj s,
  df_same s (join_loop sim rk tj s) /\ df_same s (todial_loop sim fdir rk td s).
Proof.
  intros. split.
  - revert s. induction tj as [|a r IH]; intros s; cbn [join_loop]; [apply df_refl|].
    eapply df_trans; [|apply IH]. destruct (tget a s) as [ad|]; [|apply df_refl].
    destruct (negb (ad_dialed ad) && sim && negb (ad_sim ad)); split; reflexivity.
  - revert s. induction td as [|a r IH]; intros s; cbn [todial_loop]; [apply df_refl|].
    eapply df_trans; [|apply IH]. split; reflexivity.
Qed.

Lemma on_request_df : forall s rid sim fdir best rank, df_same s (on_request s rid sim fdir best rank).
Proof.
  intros. unfold on_request. set (s0 := set_seen s (w_seen s ++ [rid])).
  assert (R : forall x, df_same s (respond s0 rid x)) by (intros; split; reflexivity).
  destruct best; [apply R|]. destruct rank as [rk|]; [|apply R].
  destruct (scan s0 rk [] [] []) as [|td tj ed]; [apply R|].
  assert (G : forall pr, df_same s (schedule (todial_loop sim fdir rk td (join_loop sim rk tj
                (set_pending s0 (w_pending s0 ++ [pr])))))).
  { intros pr. eapply df_trans; [|apply schedule_df].
    eapply df_trans; [|apply (proj2 (loops_df sim fdir rk td tj _))].
    eapply df_trans; [|apply (proj1 (loops_df sim fdir rk td tj _))]. split; reflexivity. }
  destruct td; destruct tj; try apply G. apply R.
Qed.

(* the timer case appends the same addresses to w_dials and to w_flying *)
Definition df_app (s s' : wst) (l : list Z) : Prop :=
  w_dials s' = w_dials s ++ l /\ w_flying s' = w_flying s ++ l.

Lemma batch_loop_news : forall bo bestl batch s, exists l, df_app s (batch_loop bo bestl batch s) l.
Proof.
  induction batch as [|[a d] r IH]; intros s; cbn [batch_loop].
  - exists []. split; rewrite app_nil_r; reflexivity.
  - destruct (tget a s) as [ad|]; [|apply IH].
    destruct (negb (ad_fdir ad) && memz a bo).
    + match goal with |- context [batch_loop bo bestl r ?x] => destruct (IH x) as [l [A B]] end.
      match type of A with w_dials _ = w_dials (dispatch_error ?y _ _ _) ++ _ =>
        destruct (dispatch_error_df y a EBackoff bestl) as [D1 D2] end.
      exists l. split; [rewrite A, D1 | rewrite B, D2]; reflexivity.
    + match goal with |- context [batch_loop bo bestl r ?x] => destruct (IH x) as [l [A B]] end.
      exists (a :: l). split; [rewrite A | rewrite B]; wprj; rewrite <- app_assoc; reflexivity.
Qed.

Lemma on_timer_news : forall s bo bestl, exists l, df_app s (on_timer s bo bestl) l.
Proof.
  intros. unfold on_timer. destruct (next_batch (w_dq s)) as [batch rest].
  destruct (batch_loop_news bo bestl batch (set_dq s rest)) as [l [A B]].
  match goal with |- context [schedule ?x] => destruct (schedule_df x) as [C D] end.
  exists l. split; [rewrite C, A | rewrite D, B]; reflexivity.
Qed.

Lemma on_result_df : forall s a r bestl, tget a s <> None ->
  w_dials (on_result s a r bestl) = w_dials s /\
  w_flying (on_result s a r bestl) = match r with DRProgress _ _ => w_flying s | _ => remove1 a (w_flying s) end.
Proof.
  intros s a r bestl Ht. unfold on_result. destruct (tget a s) as [ad|]; [|congruence].
  destruct r as [addok|e|pub now].
  - destruct addok.
      * destruct (succ_loop a _) as [keep out]. split; reflexivity.
      * match goal with |- context [dispatch_error ?x a EOther bestl] =>
          destruct (dispatch_error_df x a EOther bestl) as [A B] end. split; [rewrite A | rewrite B]; reflexivity.
  - match goal with |- context [schedule ?x] => destruct (schedule_df x) as [C D] end.
      match goal with |- context [dispatch_error ?x a e bestl] =>
          destruct (dispatch_error_df x a e bestl) as [A B] end.
      split; [rewrite C, A | rewrite D, B]; reflexivity.
  - match goal with |- context [schedule ?x] => destruct (schedule_df x) as [C D] end.
      split; [rewrite C | rewrite D]; destruct pub; reflexivity.
Qed.

(* summary for one event of a running worker *)
Lemma wstep_df : forall s e, w_stopped s = false ->
  match e with
  | WReq _ _ _ _ _ => df_same s (wstep s e)
  | WTimer _ _ => exists l, df_app s (wstep s e) l
  | WRes a r _ => tget a s <> None -> w_dials (wstep s e) = w_dials s /\
                  w_flying (wstep s e) = match r with DRProgress _ _ => w_flying s | _ => remove1 a (w_flying s) end
  | WClose => df_same s (wstep s e)
  end.
Proof.
  intros s e St. unfold wstep. rewrite St. destruct e.
  - apply on_request_df.
  - apply on_timer_news.
  - apply on_result_df.
  - split; reflexivity.
Qed.

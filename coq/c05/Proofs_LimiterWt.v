(* C05 — the limiter's part of the bound on a drain (SpecComposite.lim_wt): a job counts 2 while
   queued or about to run, 1 while dialing.  Adding a job adds at most 2; the step of a started
   goroutine and the return of a dial lower it; nothing else raises it. *)
From Coq Require Import List ZArith Bool Lia.
From Verif Require Import lib.Wire c05.ModelLimiter c05.Proofs_Limiter c05.SpecLimiter c05.Proofs_LimiterMon c05.Proofs_LimiterCount.
From Verif Require Import c05.ModelWorker c05.ModelSync c05.ModelComposite c05.SpecWorker c05.SpecDialPeer c05.SpecComposite c05.Proofs_WorkerWt.
Import ListNotations.
Local Open Scope Z_scope.

Definition TT (j : job) : bool := true.

Lemma cidf_len : forall l, cidf TT 0 l = zlen l.
Proof. induction l as [|x l IH]; cbn [cidf TT]; [reflexivity | rewrite IH, zlen_cons; lia]. Qed.

Lemma lim_wt_eq : forall l, lim_wt l = totf TT 0 l + restf TT 0 l.
Proof. intros. unfold lim_wt, restf, totf, wpsumf. rewrite !cidf_len. lia. Qed.

Lemma lstep_wt : forall l o, Inv l -> lim_wt (lstep l o) <= lim_wt l + 2 * addcf TT 0 o.
Proof. intros l o I. rewrite !lim_wt_eq. destruct (f_lstep_tot TT l o 0 I). lia. Qed.

Lemma lstep_wt0 : forall l o, Inv l -> (forall j, o <> LAdd j) -> lim_wt (lstep l o) <= lim_wt l.
Proof.
  intros l o I H. pose proof (lstep_wt l o I) as X. destruct o; cbn [addcf] in X; try lia. exfalso. eapply H; eauto.
Qed.

Lemma lstep_wt_add : forall l j, Inv l -> lim_wt (lstep l (LAdd j)) <= lim_wt l + 2.
Proof. intros l j I. pose proof (lstep_wt l (LAdd j) I) as X. cbn [addcf cidf TT] in X. lia. Qed.

Lemma take_job_some' : forall l j, In j l -> exists j' r, take_job (jid j) l = Some (j', r).
Proof.
  induction l as [|y l IH]; intros j H; [destruct H|]. cbn [take_job]. destruct (jid y =? jid j) eqn:E; [eauto|].
  destruct H as [->|H]; [rewrite Z.eqb_refl in E; discriminate|]. destruct (IH j H) as [j' [r Ht]]. rewrite Ht. eauto.
Qed.

Lemma begin_wt : forall l j, Inv l -> In j (spawned l) -> lim_wt (lstep l (LBegin (jid j))) < lim_wt l.
Proof.
  intros l j I Hj. rewrite !lim_wt_eq. cbn [lstep]. destruct (take_job_some' _ _ Hj) as [j' [r E]]. rewrite E.
  pose proof (f_take_job_cid TT 0 _ _ _ _ E) as Hc. cbn [cidf TT] in Hc.
  assert (X : totf TT 0 (set_spawned l r) = totf TT 0 l - 1) by (unfold totf; prj; lia).
  destruct (is_cancelled (set_spawned l r) j').
  - destruct (f_finished_tot TT 0 (set_spawned l r) j' (take_spawned_prefin _ _ _ _ I E)) as [A B].
    unfold restf. rewrite B. prj. lia.
  - unfold restf, totf in *. prj. rewrite f_cid_app. cbn [cidf TT]. lia.
Qed.

Lemma return_wt : forall l j, Inv l -> In j (dialing l) -> lim_wt (lstep l (LReturn (jid j))) < lim_wt l.
Proof.
  intros l j I Hj. rewrite !lim_wt_eq. cbn [lstep]. destruct (take_job_some' _ _ Hj) as [j' [r E]]. rewrite E.
  pose proof (f_take_job_cid TT 0 _ _ _ _ E) as Hc. cbn [cidf TT] in Hc.
  assert (X : totf TT 0 (set_dialing l r) = totf TT 0 l - 1) by (unfold totf; prj; lia).
  destruct (f_finished_tot TT 0 (set_dialing l r) j' (take_dialing_prefin _ _ _ _ I E)) as [A B].
  unfold restf. rewrite B. prj. lia.
Qed.

Lemma lim_wt_nonneg : forall l, 0 <= lim_wt l.
Proof.
  intros. unfold lim_wt. pose proof (zlen_nonneg _ (flat_map snd (waitingOnPeer l))). pose proof (zlen_nonneg _ (waitingOnFd l)).
  pose proof (zlen_nonneg _ (spawned l)). pose proof (zlen_nonneg _ (dialing l)). lia.
Qed.

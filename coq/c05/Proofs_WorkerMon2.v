(* C05 — worker monitor, clause 5 (every candidate address attempted at quiescence):
   frame lemmas about w_asked / trackedDials / w_refused / connected statuses. *)
From Coq Require Import List ZArith Bool Lia Permutation.
From Verif Require Import lib.Wire c05.ModelLimiter c05.Proofs_Limiter c05.ModelWorker c05.Proofs_Worker c05.Proofs_WorkerMon.
From Verif Require Import c05.SpecLimiter c05.SpecWorker.
Import ListNotations.
Local Open Scope Z_scope.

(* every tracked address has been asked for *)
Definition TA (s : wst) : Prop := forall a, tget a s <> None -> In a (w_asked s).

Lemma TA_ext : forall s s', TA s -> w_tracked s' = w_tracked s -> w_asked s' = w_asked s -> TA s'.
Proof. intros s s' H Et Ea a. unfold tget. rewrite Et, Ea. apply H. Qed.

Lemma TA_tput : forall s a ad, TA s -> tget a s <> None -> TA (tput a ad s).
Proof.
  intros s a ad H Ha x. unfold tget in *. wprj. rewrite aget_aput. destruct (a =? x) eqn:E.
  - apply Z.eqb_eq in E. subst x. intros _. apply H, Ha.
  - apply H.
Qed.

Lemma TA_tdel : forall s a, TA s -> TA (tdel a s).
Proof.
  intros s a H x. unfold tget in *. wprj. rewrite aget_adel. destruct (a =? x); [congruence | apply H].
Qed.

Definition asked_mono (s s' : wst) : Prop := incl (w_asked s) (w_asked s').

Lemma dispatch_error_TA : forall s a e bestl, TA s -> TA (dispatch_error s a e bestl) /\ w_asked (dispatch_error s a e bestl) = w_asked s.
Proof.
  intros s a e bestl H. unfold dispatch_error.
  set (s1 := match tget a s with Some ad => tput a (ad_set_st ad DErr) s | None => s end).
  assert (H1 : TA s1 /\ w_asked s1 = w_asked s).
  { unfold s1. destruct (tget a s) eqn:E; [split; [apply TA_tput; [exact H | congruence] | reflexivity] | split; [exact H | reflexivity]]. }
  destruct H1 as [H1 E1]. destruct (disp_loop a bestl (w_pending s1)) as [keep out].
  set (s2 := set_resps (set_pending s1 keep) (w_resps s1 ++ out)).
  assert (H2 : TA s2) by (eapply TA_ext; [exact H1|..]; reflexivity).
  destruct e; (split; [|exact E1]); try exact H2. apply TA_tdel, H2.
Qed.

Lemma batch_loop_TA : forall bo bestl batch s, TA s ->
  TA (batch_loop bo bestl batch s) /\ w_asked (batch_loop bo bestl batch s) = w_asked s.
Proof.
  induction batch as [|[a d] r IH]; intros s H; cbn [batch_loop]; [split; [exact H | reflexivity]|].
  destruct (tget a s) as [ad|] eqn:Et; [|apply IH, H].
  assert (H1 : TA (tput a (ad_set_dialed ad) s)) by (apply TA_tput; [exact H | congruence]).
  destruct (negb (ad_fdir ad) && memz a bo).
  - match goal with |- context [dispatch_error ?x a EBackoff bestl] =>
      assert (Hx : TA x) by (eapply TA_ext; [exact H1|..]; reflexivity);
      destruct (dispatch_error_TA x a EBackoff bestl Hx) as [A B] end.
    destruct (IH _ A) as [A' B']. split; [exact A' | rewrite B', B; reflexivity].
  - match goal with |- context [batch_loop bo bestl r ?x] =>
      assert (Hx : TA x) by (eapply TA_ext; [exact H1|..]; reflexivity); destruct (IH x Hx) as [A' B'] end.
    split; [exact A' | rewrite B'; reflexivity].
Qed.

Lemma schedule_TA : forall s, TA s -> TA (schedule s) /\ w_asked (schedule s) = w_asked s.
Proof.
  intros s H. destruct (schedule_same s) as [_ [_ [_ [A [_ [_ [_ [_ [B _]]]]]]]]]. split; [eapply TA_ext; eauto | exact B].
Qed.

Lemma join_loop_TA : forall sim rk tj s, TA s -> TA (join_loop sim rk tj s) /\ w_asked (join_loop sim rk tj s) = w_asked s.
Proof.
  induction tj as [|a r IH]; intros s H; cbn [join_loop]; [split; [exact H | reflexivity]|].
  destruct (tget a s) as [ad|] eqn:Et; [|apply IH, H].
  destruct (negb (ad_dialed ad) && sim && negb (ad_sim ad)); [|apply IH, H].
  match goal with |- context [join_loop sim rk r ?x] =>
    assert (Hx : TA x) by (eapply TA_ext; [apply (TA_tput s a (ad_set_sim ad) H); congruence|..]; reflexivity);
    destruct (IH x Hx) as [A B] end.
  split; [exact A | rewrite B; reflexivity].
Qed.

Lemma todial_loop_TA : forall sim fdir rk td s, TA s ->
  TA (todial_loop sim fdir rk td s) /\ (forall a, In a (w_asked s) \/ In a td -> In a (w_asked (todial_loop sim fdir rk td s))).
Proof.
  induction td as [|a r IH]; intros s H; cbn [todial_loop]; [split; [exact H | intros x [X|[]]; exact X]|].
  set (s1 := tput a (mkAd false DPending fdir sim None) s).
  set (s3 := set_asked (set_dq s1 (dq_add (a, delay_of a rk) (w_dq s1))) (w_asked (set_dq s1 (dq_add (a, delay_of a rk) (w_dq s1))) ++ [a])).
  assert (H3 : TA s3).
  { intros x. unfold s3, s1, tget. wprj. rewrite aget_aput. destruct (a =? x) eqn:E.
    - intros _. apply Z.eqb_eq in E. subst x. apply in_or_app. right. left. reflexivity.
    - intros Hx. apply in_or_app. left. apply H. exact Hx. }
  destruct (IH s3 H3) as [A B]. split; [exact A|]. intros x Hx. apply B.
  destruct Hx as [Hx|[Hx|Hx]].
  - left. unfold s3. wprj. apply in_or_app. left. exact Hx.
  - left. subst x. unfold s3. wprj. apply in_or_app. right. left. reflexivity.
  - right. exact Hx.
Qed.

(* some dial of this worker has produced a connection *)
Definition DC (s : wst) : Prop := exists a ad, tget a s = Some ad /\ ad_st ad = DConn.

Lemma on_request_TA : forall s rid sim fdir best rank, TA s ->
  let s' := on_request s rid sim fdir best rank in
  TA s' /\ incl (w_asked s) (w_asked s') /\
  (match rank with
   | Some rk => best = true \/ DC s \/ forall a, In a (map fst rk) -> In a (w_asked s')
   | None => True end).
Proof.
  intros s rid sim fdir best rank H. cbv zeta. unfold on_request.
  set (s0 := set_seen s (w_seen s ++ [rid])).
  assert (H0 : TA s0) by (eapply TA_ext; [exact H|..]; reflexivity).
  assert (R : forall x, TA (respond s0 rid x) /\ incl (w_asked s) (w_asked (respond s0 rid x))).
  { intros x. split; [eapply TA_ext; [exact H|..]; reflexivity | apply incl_refl]. }
  destruct best.
  { destruct (R RespConn) as [A B]. split; [exact A|]. split; [exact B|]. destruct rank; auto. }
  destruct rank as [rk|]; [|destruct (R RespErr); auto].
  destruct (scan s0 rk [] [] []) as [|td tj ed] eqn:Es.
  - destruct (R RespConn) as [A B]. split; [exact A|]. split; [exact B|]. right. left.
    (* the scan met a connected address *)
    clear -Es. revert Es. generalize (@nil Z) at 1 2 3. intros acc. revert acc.
    assert (G : forall rk td tj ed, scan s0 rk td tj ed = ScanConn -> DC s).
    { induction rk0 as [|[a d] r IH]; intros td tj ed Hs; cbn [scan] in Hs; [discriminate|].
      destruct (tget a s0) as [ad|] eqn:Et; [|eapply IH; eauto].
      destruct (ad_st ad) eqn:Ea; [eapply IH; eauto | exists a, ad; split; [exact Et | exact Ea] | eapply IH; eauto]. }
    intros acc Hs. eapply G; eauto.
  - destruct (scan_spec _ _ _ _ _ _ _ _ Es) as [_ [Bj [Ce [D _]]]].
    assert (Tr : forall a, In a tj \/ In a ed -> In a (w_asked s)).
    { intros a [Ha|Ha].
      - destruct (Bj a Ha) as [[]|[_ [ad [G1 _]]]]. apply H. change (tget a s) with (tget a s0). congruence.
      - destruct (Ce a Ha) as [[]|[ad [G1 _]]]. apply H. change (tget a s) with (tget a s0). congruence. }
    set (pr := mkPr rid (removeall ed (nodupz (map fst rk)))).
    set (s1 := set_pending s0 (w_pending s0 ++ [pr])).
    assert (H1 : TA s1) by (eapply TA_ext; [exact H|..]; reflexivity).
    destruct (join_loop_TA sim rk tj s1 H1) as [H2 E2].
    destruct (todial_loop_TA sim fdir rk td _ H2) as [H3 M3].
    destruct (schedule_TA _ H3) as [H4 E4].
    assert (G : TA (schedule (todial_loop sim fdir rk td (join_loop sim rk tj s1))) /\
                incl (w_asked s) (w_asked (schedule (todial_loop sim fdir rk td (join_loop sim rk tj s1)))) /\
                (forall a, In a (map fst rk) -> In a (w_asked (schedule (todial_loop sim fdir rk td (join_loop sim rk tj s1)))))).
    { split; [exact H4|]. rewrite E4. split.
      - intros a Ha. apply M3. left. rewrite E2. exact Ha.
      - intros a Ha. apply M3. destruct (D a Ha) as [X|[X|X]]; [right; exact X | left; rewrite E2; apply Tr; auto | left; rewrite E2; apply Tr; auto]. }
    destruct G as [G1 [G2 G3]].
    destruct td as [|t0 td0]; destruct tj as [|j0 tj0]; try (split; [exact G1|]; split; [exact G2|]; right; right; exact G3).
    destruct (R RespErr) as [A B]. split; [exact A|]. split; [exact B|]. right. right.
    intros a Ha. destruct (D a Ha) as [[]|[[]|X]]. apply Tr. right. exact X.
Qed.

(* w_refused grows only at the timer, by addresses that are in back-off then *)
Lemma dispatch_error_refused : forall s a e bestl, w_refused (dispatch_error s a e bestl) = w_refused s.
Proof.
  intros. unfold dispatch_error. destruct (tget a s); destruct (disp_loop _ _ _); destruct e; reflexivity.
Qed.

Lemma batch_loop_refused : forall bo bestl batch s x,
  In x (w_refused (batch_loop bo bestl batch s)) -> In x (w_refused s) \/ In x bo.
Proof.
  induction batch as [|[a d] r IH]; intros s x H; cbn [batch_loop] in H; [left; exact H|].
  destruct (tget a s) as [ad|]; [|apply IH, H].
  destruct (negb (ad_fdir ad) && memz a bo) eqn:E.
  - apply IH in H. destruct H as [H|H]; [|right; exact H]. rewrite dispatch_error_refused in H. wprj.
    apply in_app_or in H. destruct H as [H|[H|[]]]; [left; exact H|]. subst x. right.
    apply andb_true_iff in E. destruct E as [_ E]. apply memz_In, E.
  - apply IH in H. exact H.
Qed.

Lemma schedule_refused : forall s, w_refused (schedule s) = w_refused s.
Proof. intros. destruct (schedule_same s) as [_ [_ [_ [_ [_ [_ [_ [_ [_ A]]]]]]]]]. exact A. Qed.

Lemma loops_refused : forall sim fdir rk td tj s,
  w_refused (join_loop sim rk tj s) = w_refused s /\ w_refused (todial_loop sim fdir rk td s) = w_refused s.
Proof.
  intros. split.
  - revert s. induction tj as [|a r IH]; intros s; cbn [join_loop]; [reflexivity|]. rewrite IH.
    destruct (tget a s) as [ad|]; [|reflexivity]. destruct (negb (ad_dialed ad) && sim && negb (ad_sim ad)); reflexivity.
  - revert s. induction td as [|a r IH]; intros s; cbn [todial_loop]; [reflexivity|]. rewrite IH. reflexivity.
Qed.

Lemma wstep_refused : forall s e x, In x (w_refused (wstep s e)) ->
  In x (w_refused s) \/ match e with WTimer bo _ => In x bo | _ => False end.
Proof.
  intros s e x H. unfold wstep in H. destruct (w_stopped s); [left; exact H|].
  destruct e as [rid sim fdir best rank|bo bestl|a r bestl|].
  - left. unfold on_request in H. destruct best; [exact H|]. destruct rank as [rk|]; [|exact H].
    destruct (scan _ rk [] [] []) as [|td tj ed]; [exact H|].
    assert (G : forall pr, w_refused (schedule (todial_loop sim fdir rk td (join_loop sim rk tj
                (set_pending (set_seen s (w_seen s ++ [rid])) pr)))) = w_refused s).
    { intros pr. rewrite schedule_refused.
      rewrite (proj2 (loops_refused sim fdir rk td tj _)), (proj1 (loops_refused sim fdir rk td tj _)). reflexivity. }
    destruct td; destruct tj; try (rewrite G in H; exact H). exact H.
  - unfold on_timer in H. destruct (next_batch (w_dq s)) as [batch rest]. rewrite schedule_refused in H.
    apply batch_loop_refused in H. exact H.
  - left. unfold on_result in H. destruct (tget a s) as [ad|]; [|exact H]. destruct r as [addok|e|pub now].
    + destruct addok; [destruct (succ_loop a _); exact H | rewrite dispatch_error_refused in H; exact H].
    + rewrite schedule_refused, dispatch_error_refused in H. exact H.
    + rewrite schedule_refused in H. destruct pub; exact H.
  - left. exact H.
Qed.

(* a connected status appears only with a successful dial result *)
Lemma DC_tput_same : forall s a ad ad', tget a s = Some ad -> ad_st ad' = ad_st ad -> DC (tput a ad' s) -> DC s.
Proof.
  intros s a ad ad' Ht Hs [x [adx [H1 H2]]]. unfold tget in *. wprj. rewrite aget_aput in H1.
  destruct (a =? x) eqn:E; [|exists x, adx; auto]. apply Z.eqb_eq in E. subst x. inversion H1; subst adx.
  exists a, ad. split; [exact Ht | congruence].
Qed.

Lemma DC_ext : forall s s', w_tracked s' = w_tracked s -> DC s' -> DC s.
Proof. intros s s' E [x [ad [H1 H2]]]. exists x, ad. unfold tget in *. rewrite <- E. auto. Qed.

Lemma dispatch_error_DC : forall s a e bestl, DC (dispatch_error s a e bestl) -> DC s.
Proof.
  intros s a e bestl. unfold dispatch_error.
  set (s1 := match tget a s with Some ad => tput a (ad_set_st ad DErr) s | None => s end).
  assert (H1 : DC s1 -> DC s).
  { unfold s1. destruct (tget a s) as [ad|] eqn:Et; [|auto]. intros [x [adx [G1 G2]]]. unfold tget in *. wprj.
    rewrite aget_aput in G1. destruct (a =? x) eqn:E; [inversion G1; subst; cbn in G2; discriminate | exists x, adx; auto]. }
  destruct (disp_loop a bestl (w_pending s1)) as [keep out].
  intros H. apply H1. destruct e; try (eapply DC_ext; [|exact H]; reflexivity).
  destruct H as [x [adx [G1 G2]]]. unfold tget in G1. wprj. rewrite aget_adel in G1.
  destruct (a =? x); [discriminate | exists x, adx; auto].
Qed.

Lemma batch_loop_DC : forall bo bestl batch s, DC (batch_loop bo bestl batch s) -> DC s.
Proof.
  induction batch as [|[a d] r IH]; intros s H; cbn [batch_loop] in H; [exact H|].
  destruct (tget a s) as [ad|] eqn:Et; [|apply IH, H]. apply IH in H.
  destruct (negb (ad_fdir ad) && memz a bo).
  - apply dispatch_error_DC in H. apply (DC_tput_same s a ad (ad_set_dialed ad) Et eq_refl). eapply DC_ext; [|exact H]. reflexivity.
  - apply (DC_tput_same s a ad (ad_set_dialed ad) Et eq_refl). eapply DC_ext; [|exact H]. reflexivity.
Qed.

Lemma schedule_DC : forall s, DC (schedule s) -> DC s.
Proof. intros s H. destruct (schedule_same s) as [_ [_ [_ [A _]]]]. eapply DC_ext; eauto. Qed.

Lemma join_loop_DC : forall sim rk tj s, DC (join_loop sim rk tj s) -> DC s.
Proof.
  induction tj as [|a r IH]; intros s H; cbn [join_loop] in H; [exact H|]. apply IH in H.
  destruct (tget a s) as [ad|] eqn:Et; [|exact H].
  destruct (negb (ad_dialed ad) && sim && negb (ad_sim ad)); [|exact H].
  apply (DC_tput_same s a ad (ad_set_sim ad) Et eq_refl). eapply DC_ext; [|exact H]. reflexivity.
Qed.

Lemma todial_loop_DC : forall sim fdir rk td s, DC (todial_loop sim fdir rk td s) -> DC s.
Proof.
  induction td as [|a r IH]; intros s H; cbn [todial_loop] in H; [exact H|]. apply IH in H.
  destruct H as [x [adx [G1 G2]]]. unfold tget in G1. wprj. rewrite aget_aput in G1.
  destruct (a =? x); [inversion G1; subst; cbn in G2; discriminate | exists x, adx; auto].
Qed.

Lemma wstep_DC : forall s e, DC (wstep s e) -> DC s \/ exists a bl, e = WRes a (DROk true) bl.
Proof.
  intros s e H. unfold wstep in H. destruct (w_stopped s); [left; exact H|].
  destruct e as [rid sim fdir best rank|bo bestl|a r bestl|].
  - left. unfold on_request in H. destruct best; [eapply DC_ext; [|exact H]; reflexivity|].
    destruct rank as [rk|]; [|eapply DC_ext; [|exact H]; reflexivity].
    destruct (scan _ rk [] [] []) as [|td tj ed]; [eapply DC_ext; [|exact H]; reflexivity|].
    assert (G : forall pr, DC (schedule (todial_loop sim fdir rk td (join_loop sim rk tj
                (set_pending (set_seen s (w_seen s ++ [rid])) pr)))) -> DC s).
    { intros pr X. apply schedule_DC, todial_loop_DC, join_loop_DC in X. eapply DC_ext; [|exact X]. reflexivity. }
    destruct td; destruct tj; try (eapply G; exact H). eapply DC_ext; [|exact H]. reflexivity.
  - left. unfold on_timer in H. destruct (next_batch (w_dq s)) as [batch rest].
    apply schedule_DC, batch_loop_DC in H. eapply DC_ext; [|exact H]. reflexivity.
  - unfold on_result in H. destruct (tget a s) as [ad|] eqn:Et; [|left; eapply DC_ext; [|exact H]; reflexivity].
    destruct r as [addok|e|pub now].
    + destruct addok; [right; eauto|]. left. apply dispatch_error_DC in H.
      apply (DC_tput_same s a ad (ad_set_upg ad None) Et eq_refl). eapply DC_ext; [|exact H]. reflexivity.
    + left. apply schedule_DC, dispatch_error_DC in H.
      apply (DC_tput_same s a ad (ad_set_upg ad None) Et eq_refl). eapply DC_ext; [|exact H]. reflexivity.
    + left. apply schedule_DC in H. destruct pub; [|exact H].
      apply (DC_tput_same s a ad (ad_set_upg ad (Some (now + Consts_c05.PublicTCPDelay))) Et eq_refl). exact H.
  - left. eapply DC_ext; [|exact H]. reflexivity.
Qed.

Lemma wstep_TA : forall s e, TA s -> TA (wstep s e) /\ incl (w_asked s) (w_asked (wstep s e)).
Proof.
  intros s e H. unfold wstep. destruct (w_stopped s); [split; [exact H | apply incl_refl]|].
  destruct e as [rid sim fdir best rank|bo bestl|a r bestl|].
  - destruct (on_request_TA s rid sim fdir best rank H) as [A [B _]]. split; assumption.
  - unfold on_timer. destruct (next_batch (w_dq s)) as [batch rest].
    assert (H0 : TA (set_dq s rest)) by (eapply TA_ext; [exact H|..]; reflexivity).
    destruct (batch_loop_TA bo bestl batch _ H0) as [A B]. destruct (schedule_TA _ A) as [A' B'].
    split; [exact A'|]. rewrite B', B. apply incl_refl.
  - unfold on_result. destruct (tget a s) as [ad|] eqn:Et.
    + assert (Ht : tget a s <> None) by congruence.
      assert (H2 : forall ad', TA (tput a ad' (set_flying (set_inflight s (w_inflight s - 1)) (remove1 a (w_flying s))))).
      { intros ad'. apply TA_tput; [eapply TA_ext; [exact H|..]; reflexivity | exact Ht]. }
      destruct r as [addok|e|pub now].
      * destruct addok.
        -- destruct (succ_loop a _) as [keep out]. split; [|apply incl_refl].
           eapply TA_ext; [apply (TA_tput _ a (ad_set_st (ad_set_upg ad None) DConn) (H2 (ad_set_upg ad None)))|..]; try reflexivity.
           unfold tget. wprj. rewrite aget_aput, Z.eqb_refl. discriminate.
        -- destruct (dispatch_error_TA _ a EOther bestl (H2 (ad_set_upg ad None))) as [A B]. split; [exact A|]. rewrite B. apply incl_refl.
      * destruct (dispatch_error_TA _ a e bestl (H2 (ad_set_upg ad None))) as [A B]. destruct (schedule_TA _ A) as [A' B'].
        split; [exact A'|]. rewrite B', B. apply incl_refl.
      * destruct pub.
        -- destruct (schedule_TA _ (TA_tput s a (ad_set_upg ad (Some (now + Consts_c05.PublicTCPDelay))) H Ht)) as [A' B'].
           split; [exact A'|]. rewrite B'. apply incl_refl.
        -- destruct (schedule_TA _ H) as [A' B']. split; [exact A'|]. rewrite B'. apply incl_refl.
    + split; [eapply TA_ext; [exact H|..]; reflexivity | apply incl_refl].
  - split; [eapply TA_ext; [exact H|..]; reflexivity | apply incl_refl].
Qed.

(* ---- the coupling needed for clause 5 ------------------------------------------------------ *)
Record CW5 (e : wenv) (s : wst) (m : wmon) : Prop := mkCW5 {
  k_g : InvG s [];
  k_ta : TA s;
  k_req : wm_closed m = false -> forall rid fdir l, In (rid, (fdir, Some l)) (wm_reqs m) ->
            wm_conn m = true \/ forall a, In a l -> In a (w_asked s);
  k_ref : incl (w_refused s) (wm_boever m);
  k_conn : e_conn e = true -> wm_conn m = true;
  k_dc : DC s -> wm_conn m = true;
  k_bo : incl (e_backoff e) (wm_boever m) }.

(* timers: back-off table of the environment unchanged *)
Lemma settle_CW5 : forall f e s m, CW5 e s m -> CW5 e (settle f e s) m.
Proof.
  induction f as [|f IH]; intros e s m K; cbn [settle]; [exact K|].
  destruct (w_stopped s); [exact K|]. destruct (w_timer s) as [t|]; [|exact K].
  destruct (t <=? e_now e); [|exact K]. apply IH.
  destruct K as [G T Rq Rf Cn Dc Bo]. destruct (wstep_TA s (WTimer (e_backoff e) (bestl_of e s)) T) as [T' Am].
  constructor; auto.
  - apply wstep_invG; auto. intros _. exact I.
  - intros Hc rid fdir l Hin. destruct (Rq Hc rid fdir l Hin) as [X|X]; [left; exact X | right; intros a Ha; apply Am, X, Ha].
  - intros x Hx. apply wstep_refused in Hx. destruct Hx as [Hx|Hx]; [apply Rf, Hx | apply Bo, Hx].
  - intros Hd. apply wstep_DC in Hd. destruct Hd as [Hd|[a [bl Hd]]]; [apply Dc, Hd | discriminate].
Qed.

Definition env_now (e : wenv) (t : Z) : wenv := mkEnv t (e_backoff e) (e_conn e) (e_direct e) (e_fdirs e).

Lemma CW5_now : forall e s m t, CW5 e s m -> CW5 (env_now e t) s m.
Proof. intros e s m t [G T Rq Rf Cn Dc Bo]. constructor; auto. Qed.

Lemma advance_CW5 : forall f e stop s m, CW5 e s m ->
  CW5 (fst (advance f e stop s)) (snd (advance f e stop s)) m.
Proof.
  induction f as [|f IH]; intros e stop s m K; cbn [advance]; [apply (CW5_now e s m stop K)|].
  destruct (w_timer s) as [t|]; [|apply (CW5_now e s m stop K)].
  destruct (negb (w_stopped s) && (t <=? stop)); [|apply (CW5_now e s m stop K)].
  apply IH. apply (CW5_now e _ m (Z.max t (e_now e))).
  destruct K as [G T Rq Rf Cn Dc Bo]. destruct (wstep_TA s (WTimer (e_backoff e) (bestl_of e s)) T) as [T' Am].
  constructor; auto.
  - apply wstep_invG; auto. intros _. exact I.
  - intros Hc rid fdir l Hin. destruct (Rq Hc rid fdir l Hin) as [X|X]; [left; exact X | right; intros a Ha; apply Am, X, Ha].
  - intros x Hx. apply wstep_refused in Hx. destruct Hx as [Hx|Hx]; [apply Rf, Hx | apply Bo, Hx].
  - intros Hd. apply wstep_DC in Hd. destruct Hd as [Hd|[a [bl Hd]]]; [apply Dc, Hd | discriminate].
Qed.

Lemma res_of_ok : forall k f n, res_of k f n = DROk true -> k = 1.
Proof.
  intros k f n. unfold res_of. destruct (k =? 1) eqn:E; [intros _; apply Z.eqb_eq, E|].
  destruct (k =? 4); [discriminate|]. destruct (k =? 2); [discriminate|]. destruct (k =? 3); discriminate.
Qed.

(* one harness-level stimulus *)
Lemma wstim_step_CW5 : forall e s m x, CW5 e s m -> (w_stopped s = true -> wm_closed m = true) ->
  wf_stim s x ->
  let es' := wstim_step (e, s) x in
  CW5 (fst es') (snd es') (wmon_stim m x).
Proof.
  intros e s m x K Hst Wf. cbn [wstim_step]. pose proof K as [G T Rq Rf Cn Dc Bo].
  destruct x as [rid sim fdir rank|d|a kind flag|a| |dr].
  - (* request *)
    cbn [fst snd]. apply settle_CW5.
    set (ev := WReq rid sim fdir (conn_ok e fdir) rank).
    destruct (wstep_TA s ev T) as [T' Am].
    constructor; cbn [wmon_stim wm_closed wm_reqs wm_boever wm_conn e_conn e_backoff]; auto.
    + apply wstep_invG; auto; intros _; exact Wf.
    + intros Hc rid' fdir' l [Hin|Hin].
      * inversion Hin; subst rid' fdir'. destruct rank as [rk|]; [|discriminate]. cbn [option_map] in H2. inversion H2; subst l.
        destruct (w_stopped s) eqn:St; [rewrite (Hst eq_refl) in Hc; discriminate|].
        unfold ev, wstep. rewrite St. destruct (on_request_TA s rid sim fdir (conn_ok e fdir) (Some rk) T) as [_ [_ [X|[X|X]]]].
        -- left. apply Cn. unfold conn_ok in X. apply andb_true_iff in X. tauto.
        -- left. apply Dc, X.
        -- right. exact X.
      * destruct (Rq Hc rid' fdir' l Hin) as [X|X]; [left; exact X | right; intros y Hy; apply Am, X, Hy].
    + intros y Hy. apply wstep_refused in Hy. destruct Hy as [Hy|[]]. apply Rf, Hy.
    + intros Hd. apply wstep_DC in Hd. destruct Hd as [Hd|[y [bl Hd]]]; [apply Dc, Hd | discriminate].
  - (* time *)
    destruct (advance (settle_fuel s) e (e_now e + d) s) as [e1 s1] eqn:Ea.
    pose proof (advance_CW5 (settle_fuel s) e (e_now e + d) s m K) as K1. rewrite Ea in K1. cbn [fst snd] in *.
    apply settle_CW5. exact K1.
  - (* a dial update *)
    cbn [fst snd]. apply settle_CW5.
    set (ev := WRes a (res_of kind flag (e_now e)) (bestl_of e s)).
    destruct (wstep_TA s ev T) as [T' Am].
    assert (Bm : incl (wm_boever m) (wm_boever (wmon_stim m (TRes a kind flag)))).
    { cbn [wmon_stim]. destruct (kind =? 1); [apply incl_refl|]. destruct (kind =? 3); [apply incl_refl|].
      cbn [wm_boever]. intros y Hy. right. exact Hy. }
    assert (Cm : wm_conn m = true -> wm_conn (wmon_stim m (TRes a kind flag)) = true).
    { cbn [wmon_stim]. destruct (kind =? 1); [reflexivity|]. destruct (kind =? 3); auto. }
    assert (Rm : wm_reqs (wmon_stim m (TRes a kind flag)) = wm_reqs m /\ wm_closed (wmon_stim m (TRes a kind flag)) = wm_closed m).
    { cbn [wmon_stim]. destruct (kind =? 1); [split; reflexivity|]. destruct (kind =? 3); split; reflexivity. }
    destruct Rm as [Rm1 Rm2].
    constructor.
    + apply wstep_invG; auto; intros _; split; [exact Wf | apply res_of_not_backoff].
    + exact T'.
    + rewrite Rm1, Rm2. intros Hc rid fdir l Hin. destruct (Rq Hc rid fdir l Hin) as [X|X]; [left; apply Cm, X | right; intros y Hy; apply Am, X, Hy].
    + intros y Hy. apply wstep_refused in Hy. destruct Hy as [Hy|[]]. apply Bm, Rf, Hy.
    + destruct (w_stopped s); [intros X; apply Cm, Cn, X|].
      destruct ((kind =? 1) && match tget a s with Some _ => true | None => false end) eqn:E1.
      * intros _. apply andb_true_iff in E1. destruct E1 as [E1 _]. cbn [wmon_stim]. rewrite E1. reflexivity.
      * destruct ((kind =? 0) && _ && _); intros X; apply Cm, Cn, X.
    + intros Hd. apply wstep_DC in Hd. destruct Hd as [Hd|[y [bl Hd]]]; [apply Cm, Dc, Hd|].
      unfold ev in Hd. inversion Hd. apply res_of_ok in H1. subst kind. reflexivity.
    + destruct (w_stopped s); [intros y Hy; apply Bm, Bo, Hy|].
      destruct ((kind =? 1) && match tget a s with Some _ => true | None => false end) eqn:E1; [intros y []|].
      destruct ((kind =? 0) && match tget a s with Some _ => true | None => false end && negb (w_connected s)) eqn:E0.
      * apply andb_true_iff in E0. destruct E0 as [E0 _]. apply andb_true_iff in E0. destruct E0 as [E0 _].
        apply Z.eqb_eq in E0. subst kind. cbn [wmon_stim Z.eqb wm_boever e_backoff].
        intros y [Hy|Hy]; [left; exact Hy | right; apply Bo, Hy].
      * intros y Hy. apply Bm, Bo, Hy.
  - cbn [fst snd]. apply settle_CW5. constructor; cbn [wmon_stim wm_closed wm_reqs wm_boever wm_conn e_conn e_backoff]; auto.
    + intros y Hy. right. apply Rf, Hy.
    + intros y [Hy|Hy]; [left; exact Hy | right; apply Bo, Hy].
  - cbn [fst snd]. apply settle_CW5. destruct (wstep_TA s WClose T) as [T' Am].
    constructor; cbn [wmon_stim wm_closed wm_reqs wm_boever wm_conn]; auto.
    + apply wstep_invG; auto; intros _; exact I.
    + discriminate.
    + intros y Hy. apply wstep_refused in Hy. destruct Hy as [Hy|[]]. apply Rf, Hy.
    + intros Hd. apply wstep_DC in Hd. destruct Hd as [Hd|[y [bl Hd]]]; [apply Dc, Hd | discriminate].
  - cbn [fst snd]. apply settle_CW5. constructor; cbn [wmon_stim wm_closed wm_reqs wm_boever wm_conn e_conn e_backoff]; auto.
    intros y [].
Qed.

Definition wmon_next (m0 : wmon) (o : wobs) : wmon :=
  mkWmon (wm_reqs m0) (map fst (ob_resps o) ++ wm_answered m0) (ob_dials o ++ wm_dialed m0) (wm_failed m0)
         (wm_boever m0) (wm_succ m0) (wm_conn m0) (wm_direct m0) (wm_closed m0).

Definition cond5 (m0 : wmon) (o : wobs) : bool :=
  ob_quiet o && negb (wm_closed m0) && negb (wm_conn m0) &&
  negb (forallb (fun r => match snd (snd r) with
                          | Some l => forallb (fun a => memz a (wm_dialed (wmon_next m0 o)) || memz a (wm_boever m0)) l
                          | None => true end) (wm_reqs m0)).

Lemma wmon_check_snd : forall m0 o, snd (wmon_check m0 o) = wmon_next m0 o.
Proof.
  intros. unfold wmon_check. fold (wmon_next m0 o).
  repeat match goal with |- snd (if ?c then _ else _) = _ => destruct c end; reflexivity.
Qed.

Lemma wmon_check_5 : forall m0 o, fst (wmon_check m0 o) = 5 -> cond5 m0 o = true.
Proof.
  intros m0 o. unfold wmon_check, cond5. fold (wmon_next m0 o).
  repeat match goal with |- fst (if ?c then _ else _) = _ -> _ => destruct c eqn:?; cbn [fst]; try discriminate end.
  intros _. reflexivity.
Qed.

Lemma cond5_false : forall e s0 s m0, InvW s -> CW5 e s m0 ->
  Permutation (wm_dialed (wmon_next m0 (wobs_of s0 s))) (w_dials s) ->
  cond5 m0 (wobs_of s0 s) = false.
Proof.
  intros e s0 s m0 I K Pd. unfold cond5.
  destruct (ob_quiet (wobs_of s0 s)) eqn:Q; [|reflexivity].
  destruct (wm_closed m0) eqn:Hc; [reflexivity|]. destruct (wm_conn m0) eqn:Hn; [reflexivity|].
  cbn [negb andb]. apply negb_false_iff. apply forallb_forall. intros [rid [fdir cand]] Hin. cbn [snd].
  destruct cand as [l|]; [|reflexivity]. apply forallb_forall. intros a Ha. apply orb_true_iff.
  destruct (quiet_state s0 s I Q) as [Q1 _].
  destruct K as [G T Rq Rf Cn Dc Bo]. destruct (Rq Hc rid fdir l Hin) as [X|X]; [congruence|].
  destruct (G a (X a Ha)) as [Y|[Y|[Y _]]].
  - left. apply memz_In. eapply Permutation_in; [apply Permutation_sym; exact Pd | exact Y].
  - right. apply memz_In, Rf, Y.
  - rewrite Q1 in Y. destruct Y.
Qed.

(* one step of the monitor on one step of the model: only clause 3 can be reported *)
Lemma step_CW5 : forall e s m x, InvW s -> CW s m -> CW5 e s m -> wf_stim s x ->
  let es' := wstim_step (e, s) x in
  let o := wobs_of s (snd es') in
  let cm := wmon_check (wmon_stim m x) o in
  InvW (snd es') /\ CW (snd es') (snd cm) /\ CW5 (fst es') (snd es') (snd cm) /\ (fst cm = 0 \/ fst cm = 3).
Proof.
  intros e s m x I C K W es' o cm.
  destruct (step_CW e s m x I C W) as [I' [C' F]]. fold es' in I', C', F. fold o in C', F. fold cm in C', F.
  pose proof (wstim_step_CW5 e s m x K (c_stop _ _ C) W) as K'. fold es' in K'.
  assert (Sn : snd cm = wmon_next (wmon_stim m x) o) by apply wmon_check_snd.
  assert (K1 : CW5 (fst es') (snd es') (snd cm)).
  { rewrite Sn. destruct K' as [G T Rq Rf Cn Dc Bo]. constructor; auto. }
  split; [exact I'|]. split; [exact C'|]. split; [exact K1|].
  destruct F as [F|[F|F]]; [left; exact F | right; exact F|]. exfalso.
  apply wmon_check_5 in F. fold cm in F.
  assert (X : cond5 (wmon_stim m x) o = false).
  { pose proof (c_dial _ _ C') as Pd. rewrite Sn in Pd. apply (cond5_false (fst es')); auto. }
  unfold cm in F. congruence.
Qed.

Lemma monitor_w_model5 : forall xs e s m i, InvW s -> CW s m -> CW5 e s m -> wf_stims (e, s) xs ->
  forall d, monitor_w m i (wtrace (e, s) xs) = d ->
  d = [] \/ exists j, d = [ERR_PROPERTY; j; 3].
Proof.
  induction xs as [|x xs IH]; intros e s m i I C K W d H; cbn [wtrace monitor_w] in H.
  - left. congruence.
  - destruct W as [W1 W2]. cbn [snd] in W1.
    destruct (step_CW5 e s m x I C K W1) as [I' [C' [K' F]]]. cbv zeta in *.
    destruct (wstim_step (e, s) x) as [e' s'] eqn:Es. cbn [fst snd] in *.
    destruct (wmon_check (wmon_stim m x) (wobs_of s s')) as [c m1] eqn:Ec. cbn [fst snd] in *.
    destruct F as [F|F]; subst c; cbn [Z.eqb] in H.
    + eapply IH; eauto.
    + right. exists i. congruence.
Qed.

Lemma monitor_w_holds5_l : forall xs, wf_stims (init_env, init_w) xs ->
  forall d, monitor_w wmon0 0 (wtrace (init_env, init_w) xs) = d ->
  d = [] \/ exists j, d = [ERR_PROPERTY; j; 3].
Proof.
  intros xs W. apply monitor_w_model5; auto using init_invW.
  - constructor; cbn; auto; try discriminate; try (intros _ r []).
  - constructor; cbn; try discriminate; try (intros; contradiction).
    + intros a [].
    + intros a H. exfalso. apply H. reflexivity.
    + intros a [].
    + intros [a [ad [H _]]]. discriminate.
    + intros a [].
Qed.

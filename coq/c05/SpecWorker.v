(* C05 — dial worker cases: wire decoding, model replay (conformance) and the
   property monitor.  No proofs here.

   Wire format of a worker case (one line of integers):

     2  (stimulus observation)*

   stimulus (times in nanoseconds of virtual time):
     1 rid sim fdir ok n (addr delay)*n
                       a dialRequest: request id, simultaneous-connect and
                       force-direct flags of its context; ok = 0 when addrsForDial
                       fails (n = 0); otherwise the output of rankAddrs
     2 d               virtual time advances by d
     3 addr kind flag  the scripted transport reports for the parked dial of addr:
                       kind 0 failure, 1 connection (flag 1 = direct, 0 = relayed),
                       2 failure with context.Canceled, 3 handshake progress
                       (flag = manet.IsPublicAddr), 4 connection that addConn
                       refuses (gater)
     4 addr            s.backf.AddBackoff(peer, addr) by the environment
     5                 reqch is closed (every caller has left)
     6 direct          an inbound connection to the peer appears (direct 1/0)
   observation (after synctest.Wait):
     nr (rid kind)*nr          responses received on the requests' channels in this
                               step, sorted by rid; kind 0 = conn, 1 = error
     nd (addr)*nd              transport dial invocations started in this step, sorted
     connected
     nt (addr dialed st)*nt    w.trackedDials sorted by addr; st 0 pending 1 conn 2 err
     np (rid naddrs)*np        w.pendingRequests sorted by rid
     quiet                     1 iff no tracked address is undialed and no transport
                               dial is in progress *)
From Coq Require Import List ZArith Bool.
From Verif Require Import lib.Wire c05.ModelLimiter c05.ModelWorker c05.SpecLimiter.
Import ListNotations.
Local Open Scope Z_scope.

Inductive wstim :=
| TReq (rid : Z) (sim fdir : bool) (rank : option (list (Z * Z)))
| TAdvance (d : Z)
| TRes (a : Z) (kind : Z) (flag : bool)
| TBackoff (a : Z)
| TClose
| TConn (direct : bool).

Record wobs := mkWobs {
  ob_resps : list (Z * Z); ob_dials : list Z; ob_conn : bool;
  ob_tracked : list (Z * (Z * Z)); ob_pending : list (Z * Z); ob_quiet : bool }.

(* environment of the worker, as far as the handlers consult it *)
Record wenv := mkEnv {
  e_now : Z; e_backoff : list Z;
  e_conn : bool; e_direct : bool;        (* some connection exists; a direct one exists *)
  e_fdirs : list Z }.                    (* ids of the requests made with force-direct *)

Definition init_env : wenv := mkEnv 0 [] false false [].

(* ---- decoding --------------------------------------------------------------------- *)
Fixpoint take_zs (n : nat) (l : list Z) : option (list Z * list Z) :=
  match n with
  | O => Some ([], l)
  | S k => match l with a :: r => match take_zs k r with
                                  | Some (x, r') => Some (a :: x, r') | None => None end
                      | [] => None end
  end.

Fixpoint take_triples (n : nat) (l : list Z) : option (list (Z * (Z * Z)) * list Z) :=
  match n with
  | O => Some ([], l)
  | S k => match l with
           | a :: b :: c :: r => match take_triples k r with
                                 | Some (x, r') => Some ((a, (b, c)) :: x, r') | None => None end
           | _ => None end
  end.

Definition decode_wstim (l : list Z) : option (wstim * list Z) :=
  match l with
  | 1 :: rid :: sim :: fdir :: ok :: n :: r =>
      if small n then
        match take_pairs (Z.to_nat n) r with
        | Some (rk, r') => Some (TReq rid (zbool sim) (zbool fdir) (if zbool ok then Some rk else None), r')
        | None => None end
      else None
  | 2 :: d :: r => Some (TAdvance d, r)
  | 3 :: a :: k :: f :: r => Some (TRes a k (zbool f), r)
  | 4 :: a :: r => Some (TBackoff a, r)
  | 5 :: r => Some (TClose, r)
  | 6 :: d :: r => Some (TConn (zbool d), r)
  | _ => None
  end.

Definition decode_wobs (l : list Z) : option (wobs * list Z) :=
  match l with
  | nr :: r0 =>
    if small nr then
    match take_pairs (Z.to_nat nr) r0 with
    | Some (rs, nd :: r1) =>
      if small nd then
      match take_zs (Z.to_nat nd) r1 with
      | Some (ds, c :: nt :: r2) =>
        if small nt then
        match take_triples (Z.to_nat nt) r2 with
        | Some (ts, np :: r3) =>
          if small np then
          match take_pairs (Z.to_nat np) r3 with
          | Some (ps, q :: r4) => Some (mkWobs rs ds (zbool c) ts ps (zbool q), r4)
          | _ => None end
          else None
        | _ => None end
        else None
      | _ => None end
      else None
    | _ => None end
    else None
  | _ => None
  end.

Fixpoint decode_wtrace (fuel : nat) (l : list Z) : option (list (wstim * wobs)) :=
  match fuel with
  | O => None
  | S f =>
      match l with
      | [] => Some []
      | _ => match decode_wstim l with
             | Some (x, r) =>
                 match decode_wobs r with
                 | Some (o, r') =>
                     match decode_wtrace f r' with
                     | Some t => Some ((x, o) :: t)
                     | None => None end
                 | None => None end
             | None => None end
      end
  end.

(* ---- harness-level semantics: a stimulus, then every due timer --------------------- *)
Definition conn_ok (e : wenv) (fdir : bool) : bool := e_conn e && (negb fdir || e_direct e).

Definition bestl_of (e : wenv) (s : wst) : list Z :=
  filter (fun rid => conn_ok e (memz rid (e_fdirs e))) (map pr_id (w_pending s)).

Fixpoint settle (fuel : nat) (e : wenv) (s : wst) : wst :=
  match fuel with
  | O => s
  | S f =>
      if w_stopped s then s else
      match w_timer s with
      | Some t => if t <=? e_now e
                  then settle f e (wstep s (WTimer (e_backoff e) (bestl_of e s)))
                  else s
      | None => s
      end
  end.

(* time advances to the next due timer, the handler runs, and so on up to the end *)
Fixpoint advance (fuel : nat) (e : wenv) (stop : Z) (s : wst) : wenv * wst :=
  match fuel with
  | O => (mkEnv stop (e_backoff e) (e_conn e) (e_direct e) (e_fdirs e), s)
  | S f =>
      match w_timer s with
      | Some t =>
          if negb (w_stopped s) && (t <=? stop) then
            let e' := mkEnv (Z.max t (e_now e)) (e_backoff e) (e_conn e) (e_direct e) (e_fdirs e) in
            advance f e' stop (wstep s (WTimer (e_backoff e) (bestl_of e s)))
          else (mkEnv stop (e_backoff e) (e_conn e) (e_direct e) (e_fdirs e), s)
      | None => (mkEnv stop (e_backoff e) (e_conn e) (e_direct e) (e_fdirs e), s)
      end
  end.

Definition settle_fuel (s : wst) : nat := S (S (length (w_dq s))).

Definition res_of (kind : Z) (flag : bool) (now : Z) : dres :=
  if kind =? 1 then DROk true
  else if kind =? 4 then DROk false
  else if kind =? 2 then DRFail ECanceled
  else if kind =? 3 then DRProgress flag now
  else DRFail EOther.

Definition wstim_step (es : wenv * wst) (x : wstim) : wenv * wst :=
  let (e, s) := es in
  let (e1, s1) :=
    match x with
    | TReq rid sim fdir rank =>
        let e' := mkEnv (e_now e) (e_backoff e) (e_conn e) (e_direct e)
                        (if fdir then rid :: e_fdirs e else e_fdirs e) in
        (e', wstep s (WReq rid sim fdir (conn_ok e fdir) rank))
    | TAdvance d => advance (settle_fuel s) e (e_now e + d) s
    | TRes a kind flag =>
        let s' := wstep s (WRes a (res_of kind flag (e_now e)) (bestl_of e s)) in
        (* what the handler does to the swarm: AddBackoff on a failure that is
           not a cancellation while not connected; addConn clears the back-off
           table and makes a connection available *)
        let tracked := match tget a s with Some _ => true | None => false end in
        let e' :=
          if w_stopped s then e
          else if (kind =? 1) && tracked
          then mkEnv (e_now e) [] true (e_direct e || flag) (e_fdirs e)
          else if (kind =? 0) && tracked && negb (w_connected s)
          then mkEnv (e_now e) (a :: e_backoff e) (e_conn e) (e_direct e) (e_fdirs e)
          else e in
        (e', s')
    | TBackoff a => (mkEnv (e_now e) (a :: e_backoff e) (e_conn e) (e_direct e) (e_fdirs e), s)
    | TClose => (e, wstep s WClose)
    | TConn d => (mkEnv (e_now e) [] true (e_direct e || d) (e_fdirs e), s)
    end in
  (e1, settle (settle_fuel s1) e1 s1).

(* ---- observation of a model step ----------------------------------------------------- *)
Fixpoint ins_z (x : Z) (l : list Z) : list Z :=
  match l with [] => [x] | y :: r => if x <=? y then x :: l else y :: ins_z x r end.
Definition sort_z (l : list Z) : list Z := fold_right ins_z [] l.

Fixpoint ins_t (x : Z * (Z * Z)) (l : list (Z * (Z * Z))) : list (Z * (Z * Z)) :=
  match l with [] => [x] | y :: r => if fst x <=? fst y then x :: l else y :: ins_t x r end.
Definition sort_t (l : list (Z * (Z * Z))) := fold_right ins_t [] l.

Definition st_code (x : dstatus) : Z := match x with DPending => 0 | DConn => 1 | DErr => 2 end.
Definition resp_code (x : resp) : Z := match x with RespConn => 0 | RespErr => 1 end.

Definition tracked_obs (s : wst) : list (Z * (Z * Z)) :=
  sort_t (flat_map (fun e => match snd e with
                             | Some ad => [(fst e, (boolz (ad_dialed ad), st_code (ad_st ad)))]
                             | None => [] end) (w_tracked s)).

Definition undialed (s : wst) : bool :=
  existsb (fun e => match snd e with Some ad => negb (ad_dialed ad) | None => false end) (w_tracked s).

Definition wobs_of (s0 s : wst) : wobs :=
  mkWobs (sort_pairs (map (fun r => (fst r, resp_code (snd r))) (skipn (length (w_resps s0)) (w_resps s))))
         (sort_z (skipn (length (w_dials s0)) (w_dials s)))
         (w_connected s)
         (tracked_obs s)
         (sort_pairs (map (fun pr => (pr_id pr, zlen (pr_addrs pr))) (w_pending s)))
         (negb (undialed s) && match w_flying s with [] => true | _ => false end).

Definition triple_eqb (a b : Z * (Z * Z)) : bool :=
  (fst a =? fst b) && (fst (snd a) =? fst (snd b)) && (snd (snd a) =? snd (snd b)).

Definition wobs_eqb (a b : wobs) : bool :=
  list_eqb pair_eqb (ob_resps a) (ob_resps b) && list_eqb Z.eqb (ob_dials a) (ob_dials b) &&
  Bool.eqb (ob_conn a) (ob_conn b) && list_eqb triple_eqb (ob_tracked a) (ob_tracked b) &&
  list_eqb pair_eqb (ob_pending a) (ob_pending b) && Bool.eqb (ob_quiet a) (ob_quiet b).

Fixpoint wtrace (es : wenv * wst) (xs : list wstim) : list (wstim * wobs) :=
  match xs with
  | [] => []
  | x :: r => let es' := wstim_step es x in (x, wobs_of (snd es) (snd es')) :: wtrace es' r
  end.

Fixpoint conform_w (es : wenv * wst) (i : Z) (tr : list (wstim * wobs)) : list Z :=
  match tr with
  | [] => []
  | (x, o) :: r =>
      let es' := wstim_step es x in
      let m := wobs_of (snd es) (snd es') in
      if wobs_eqb m o then conform_w es' (i + 1) r
      else [ERR_MISMATCH; i;
            zlen (ob_resps m); zlen (ob_resps o); zlen (ob_dials m); zlen (ob_dials o);
            boolz (ob_conn m); boolz (ob_conn o); zlen (ob_tracked m); zlen (ob_tracked o);
            zlen (ob_pending m); zlen (ob_pending o); boolz (ob_quiet m); boolz (ob_quiet o)]
  end.

(* ---- the property on an observed worker trace ------------------------------------------ *)
(* Bookkeeping from stimuli and observations only. *)
Record wmon := mkWmon {
  wm_reqs : list (Z * (bool * option (list Z)));  (* rid -> (force-direct, candidate addresses) *)
  wm_answered : list Z;
  wm_dialed : list Z;
  wm_failed : list Z;          (* final failure reported (or addConn refused) *)
  wm_boever : list Z;          (* ever in the back-off table *)
  wm_succ : list Z;            (* connection obtained on this address *)
  wm_conn : bool; wm_direct : bool;
  wm_closed : bool }.

Definition wmon0 : wmon := mkWmon [] [] [] [] [] [] false false false.

Definition wmon_stim (m : wmon) (x : wstim) : wmon :=
  match x with
  | TReq rid _ fdir rank =>
      mkWmon ((rid, (fdir, option_map (map fst) rank)) :: wm_reqs m) (wm_answered m) (wm_dialed m)
             (wm_failed m) (wm_boever m) (wm_succ m) (wm_conn m) (wm_direct m) (wm_closed m)
  | TAdvance _ => m
  | TRes a kind flag =>
      if kind =? 1 then
        mkWmon (wm_reqs m) (wm_answered m) (wm_dialed m) (wm_failed m) (wm_boever m) (a :: wm_succ m)
               true (wm_direct m || flag) (wm_closed m)
      else if kind =? 3 then m
      else
        mkWmon (wm_reqs m) (wm_answered m) (wm_dialed m) (a :: wm_failed m) (a :: wm_boever m) (wm_succ m)
               (wm_conn m) (wm_direct m) (wm_closed m)
  | TBackoff a =>
      mkWmon (wm_reqs m) (wm_answered m) (wm_dialed m) (wm_failed m) (a :: wm_boever m) (wm_succ m)
             (wm_conn m) (wm_direct m) (wm_closed m)
  | TClose =>
      mkWmon (wm_reqs m) (wm_answered m) (wm_dialed m) (wm_failed m) (wm_boever m) (wm_succ m)
             (wm_conn m) (wm_direct m) true
  | TConn d =>
      mkWmon (wm_reqs m) (wm_answered m) (wm_dialed m) (wm_failed m) (wm_boever m) (wm_succ m)
             true (wm_direct m || d) (wm_closed m)
  end.

Fixpoint req_find (rid : Z) (l : list (Z * (bool * option (list Z)))) : option (bool * option (list Z)) :=
  match l with
  | [] => None
  | (k, v) :: r => if k =? rid then Some v else req_find rid r
  end.

(* "returns ... with a usable connection ... or with an error once every candidate
   address has failed or been refused" *)
Definition resp_justified (m : wmon) (rid kind : Z) : bool :=
  match req_find rid (wm_reqs m) with
  | None => false
  | Some (fdir, cand) =>
      if kind =? 0 then
        (wm_conn m && (negb fdir || wm_direct m)) ||
        match cand with Some l => existsb (fun a => memz a (wm_succ m)) l | None => false end
      else
        match cand with
        | None => true
        | Some l => forallb (fun a => memz a (wm_failed m) || memz a (wm_boever m)) l
        end
  end.

(* one step; returns the clause number that failed, 0 when fine *)
Definition wmon_check (m : wmon) (o : wobs) : Z * wmon :=
  let rids := map fst (ob_resps o) in
  let m1 := mkWmon (wm_reqs m) (rids ++ wm_answered m) (ob_dials o ++ wm_dialed m) (wm_failed m)
                   (wm_boever m) (wm_succ m) (wm_conn m) (wm_direct m) (wm_closed m) in
  (* 1: at most one response per request *)
  if negb (nodup_z (rids ++ wm_answered m)) then (1, m1)
  (* 2: each address handed to a transport at most once *)
  else if negb (nodup_z (ob_dials o ++ wm_dialed m)) then (2, m1)
  (* 3: every response is justified *)
  else if negb (forallb (fun r => resp_justified m (fst r) (snd r)) (ob_resps o)) then (3, m1)
  (* 4: at quiescence every request has been answered *)
  else if ob_quiet o && negb (wm_closed m) &&
          negb (forallb (fun r => memz (fst r) (wm_answered m1)) (wm_reqs m)) then (4, m1)
  (* 5: at quiescence, without a connection, every candidate address that is not in
        back-off has been handed to a transport *)
  else if ob_quiet o && negb (wm_closed m) && negb (wm_conn m) &&
          negb (forallb (fun r => match snd (snd r) with
                                  | Some l => forallb (fun a => memz a (wm_dialed m1) || memz a (wm_boever m)) l
                                  | None => true end) (wm_reqs m)) then (5, m1)
  else (0, m1).

Fixpoint monitor_w (m : wmon) (i : Z) (tr : list (wstim * wobs)) : list Z :=
  match tr with
  | [] => []
  | (x, o) :: r =>
      let (c, m1) := wmon_check (wmon_stim m x) o in
      if c =? 0 then monitor_w m1 (i + 1) r else [ERR_PROPERTY; i; c]
  end.

Definition conform_w_case (l : list Z) : list Z :=
  match decode_wtrace (S (length l)) l with
  | Some tr => conform_w (init_env, init_w) 0 tr
  | None => [ERR_MALFORMED; 21]
  end.

Definition monitor_w_case (l : list Z) : list Z :=
  match decode_wtrace (S (length l)) l with
  | Some tr => monitor_w wmon0 0 tr
  | None => [ERR_MALFORMED; 21]
  end.

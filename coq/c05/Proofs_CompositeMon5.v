(* C05 — the DialPeer monitor on composite-model traces: assembly of the clauses proved so far. *)
From Coq Require Import List ZArith Bool Lia Relations Permutation.
From Verif Require Import lib.Wire c05.ModelLimiter c05.Proofs_Limiter c05.SpecLimiter c05.Proofs_LimiterMon c05.Proofs_LimiterOnce.
From Verif Require Import c05.ModelWorker c05.ModelSync c05.ModelComposite.
From Verif Require Import c05.Proofs_Composite c05.Proofs_Composite2 c05.Proofs_Composite3 c05.Proofs_Composite4.
From Verif Require Import c05.SpecWorker c05.SpecDialPeer c05.SpecComposite c05.Proofs_CompositeMon c05.Proofs_CompositeH.
From Verif Require Import c05.Proofs_CompositeMon2 c05.Proofs_CompositeMon3 c05.Proofs_CompositeJG c05.Proofs_CompositeHI c05.Proofs_CompositeMon4.
Import ListNotations.
Local Open Scope Z_scope.

(* the coupling of the monitor's bookkeeping with the model *)
Record MC (fdl ppl : Z) (es : denv * cst) (m : dmon) : Prop := mkMC {
  mc_hi : HI fdl ppl es;
  mc_ap : AP (snd es);
  mc_rc : RC (snd es);
  mc_ck : CK (snd es);
  mc_kr : KR (snd es);
  mc_w : MWl (snd es) (dm_wait m) (dm_done m);
  mc_d : MD (snd es) (dm_wait m) (dm_dialed m);
  mc_s : dm_succ m = false -> NCE es }.

Definition next_mon (m : dmon) (x : cstim) (o : dobs) : dmon :=
  let wait0 := match x with KCall c _ _ _ => c :: dm_wait m | _ => dm_wait m end in
  let rets := map fst (d_rets o) in
  let wait1 := fold_right remz wait0 rets in
  mkDmon wait1 (rets ++ dm_done m)
         (match wait1 with [] => [] | _ => d_starts o ++ dm_dialed m end)
         (dm_succ m || match x with KRes _ k _ => k =? 1 | _ => false end)
         (match x with KPark => true | KRelease => false | _ => dm_park m end).

Lemma MWl_WL : forall s w dn, MWl s w dn -> WL s w.
Proof. intros s w dn [_ [H _]] c Hc. apply H, Hc. Qed.

(* one step: clauses 1, 2, 3, 4, 7 hold and the coupling is re-established *)
Lemma step_MC : forall fdl ppl es m x, MC fdl ppl es m -> wf_kstim2 (snd es) x ->
  let es' := kstep es x in
  let o := kobs es es' in
  let wait0 := match x with KCall c _ _ _ => c :: dm_wait m | _ => dm_wait m end in
  let succ := dm_succ m || match x with KRes _ k _ => k =? 1 | _ => false end in
  let rets := map fst (d_rets o) in
  (forallb (fun e => mem_z (fst e) wait0 && negb (snd e =? 3) && (negb (snd e =? 0) || succ)) (d_rets o) &&
   nodup_z (rets ++ dm_done m)) = true /\
  match x with
  | KCancel c => mem_z c (dm_wait m) && negb (existsb (fun e => (fst e =? c) && (snd e =? 2)) (d_rets o))
  | _ => false end = false /\
  nodup_z (d_starts o ++ dm_dialed m) = true /\
  ((d_infd o <=? fdl) && (d_inpeer o <=? ppl) && (0 <=? d_fdc o) && (d_fdc o <=? fdl) &&
   (0 <=? d_actp o) && (d_actp o <=? ppl)) = true /\
  (d_waiting o =? zlen (fold_right remz wait0 rets)) = true /\
  MC fdl ppl es' (next_mon m x o).
Proof.
  intros fdl ppl es m x [Hi Ap Rc Ck Kr Mw Md Ms] Wf es' o wait0 succ rets.
  pose proof (hi_c _ _ _ Hi) as Ci. pose proof (hi_t _ _ _ Hi) as T.
  destruct (step_clause17 es x (dm_wait m) (dm_done m) T (ci_g _ _ _ Ci) Rc (ci_r _ _ _ Ci) Ck Kr Mw (proj1 Wf))
    as [C1 [C1n [C7 [Ck' [Kr' Mw']]]]]. fold es' in C1, C1n, C7, Ck', Kr', Mw'. fold o in C1, C1n, C7, Mw'.
  destruct (step_clause1c es x (dm_succ m) T Ms) as [C1c Ms']. fold es' in C1c, Ms'. fold o in C1c.
  destruct (step_clause2 es x (dm_wait m) (ci_g _ _ _ Ci) Rc (ci_r _ _ _ Ci) (MWl_WL _ _ _ Mw) (proj1 Wf)) as [C2 [_ [Rc' _]]].
  fold es' in C2, Rc'. fold o in C2.
  destruct (step_clause3 fdl ppl es x (dm_wait m) (dm_dialed m) Hi Ap (proj1 (proj2 Mw)) Md Wf) as [C3 [N3 S3]].
  fold es' in C3, N3, S3. fold o in C3, N3, S3.
  pose proof (kstep_HI fdl ppl es x Hi Wf) as Hi'. fold es' in Hi'.
  pose proof (caps_clause fdl ppl (snd es) (fst es') (snd es') (ci_lim _ _ _ (hi_c _ _ _ Hi'))) as C4. cbv zeta in C4.
  fold (kobs es es') in C4. fold o in C4.
  split; [|split; [exact C2|split; [exact C3|split; [exact C4|split; [exact C7|]]]]].
  - apply andb_true_iff. split; [|exact C1n]. apply forallb_forall. intros e He.
    destruct (C1 e He) as [A B]. unfold wait0. rewrite A, B. cbn [negb andb]. apply C1c, He.
  - constructor; cbn [next_mon dm_wait dm_done dm_dialed dm_succ]; fold wait0; fold rets; auto.
    + apply kstep_AP; assumption.
    + destruct Mw' as [Nw' [Hw' Pd']]. unfold rets. destruct (fold_right remz wait0 (map fst (d_rets o))) as [|c0 w0] eqn:Ew.
      * split; [reflexivity|]. split; [constructor | intros y []].
      * split; [discriminate|]. split; [exact N3 | exact S3].
Qed.

Lemma monitor_d_unfold : forall fdl ppl m i x o r,
  monitor_d fdl ppl m i ((x, o) :: r) =
  let wait0 := match x with KCall c _ _ _ => c :: dm_wait m | _ => dm_wait m end in
  let succ := dm_succ m || match x with KRes _ k _ => k =? 1 | _ => false end in
  let rets := map fst (d_rets o) in
  let wait1 := fold_right remz wait0 rets in
  let park := match x with KPark => true | KRelease => false | _ => dm_park m end in
  if negb (forallb (fun e => mem_z (fst e) wait0 && negb (snd e =? 3) && (negb (snd e =? 0) || succ)) (d_rets o) &&
           nodup_z (rets ++ dm_done m)) then [ERR_PROPERTY; i; 1]
  else if match x with
          | KCancel c => mem_z c (dm_wait m) && negb (existsb (fun e => (fst e =? c) && (snd e =? 2)) (d_rets o))
          | _ => false end then [ERR_PROPERTY; i; 2]
  else if negb (nodup_z (d_starts o ++ dm_dialed m)) then [ERR_PROPERTY; i; 3]
  else if negb ((d_infd o <=? fdl) && (d_inpeer o <=? ppl) && (0 <=? d_fdc o) && (d_fdc o <=? fdl) &&
                (0 <=? d_actp o) && (d_actp o <=? ppl)) then [ERR_PROPERTY; i; 4]
  else if match x with
          | KCancel _ => negb (match wait1 with [] => true | _ => false end) &&
                         negb (match d_ends o with [] => true | _ => false end)
          | _ => false end then [ERR_PROPERTY; i; 5]
  else if match wait1 with
          | [] => negb ((d_inpeer o =? 0) && (d_fdc o =? 0) && (d_actp o =? 0) && (d_nad o =? 0) &&
                        ((d_left o =? 0) || park))
          | _ => false end then [ERR_PROPERTY; i; 6]
  else if negb (d_waiting o =? zlen wait1) then [ERR_PROPERTY; i; 7]
  else if match x with
          | KAdvance d => (2000000000 <=? d) && negb park &&
                          negb (match wait1 with [] => true | _ => false end) && (d_inpeer o =? 0)
          | _ => false end then [ERR_PROPERTY; i; 9]
  else monitor_d fdl ppl (next_mon m x o) (i + 1) r.
Proof. reflexivity. Qed.

Lemma wf2_cons : forall es x r, wf_kstims2 es (x :: r) = (wf_kstim2 (snd es) x /\ wf_kstims2 (kstep es x) r).
Proof. reflexivity. Qed.

(* on every trace of the composite model (fresh caller ids, repetition-free rankings) the
   DialPeer monitor can only report clauses 5, 6 or 9 *)
Lemma monitor_d_model_569 : forall fdl ppl xs es m i, MC fdl ppl es m -> wf_kstims2 es xs ->
  forall d, monitor_d fdl ppl m i (ctrace es xs) = d ->
  d = [] \/ exists j c, d = [ERR_PROPERTY; j; c] /\ (c = 5 \/ c = 6 \/ c = 9).
Proof.
  induction xs as [|x xs IH]; intros es m i M Wf d H.
  - left. cbn in H. congruence.
  - unfold ctrace in *. rewrite gtrace_cons in H. rewrite monitor_d_unfold in H. rewrite wf2_cons in Wf. destruct Wf as [Wf1 Wf2].
    destruct (step_MC fdl ppl es m x M Wf1) as [C1 [C2 [C3 [C4 [C7 M']]]]]. cbv zeta in *.
    rewrite C1, C2, C3, C4, C7 in H. cbn [negb] in H.
    repeat match type of H with
    | (if ?c then ?a else ?b) = d => destruct c; [right; eexists; eexists; split; [symmetry; exact H | tauto]|]
    end.
    eapply IH; eauto.
Qed.

Lemma init_MC : forall fdl ppl fd, 0 <= fdl -> 0 <= ppl ->
  MC fdl ppl (init_denv, init_c fdl ppl fd) (mkDmon [] [] [] false false).
Proof.
  intros. constructor; cbn [snd fst dm_wait dm_done dm_dialed dm_succ].
  - apply init_HI; assumption.
  - intros c r X. discriminate.
  - intros c r X. discriminate.
  - constructor.
  - intros x [].
  - split; [constructor|]. split; [|constructor]. intros c. split; [intros [] | intros [r [X _]]; discriminate].
  - split; [reflexivity|]. split; [constructor | intros x []].
  - intros _. split; [reflexivity|]. constructor; cbn.
    + intros g. apply NCw_init.
    + intros x [].
Qed.

Theorem monitor_d_accepts_569_l : forall fdl ppl fds xs, 0 <= fdl -> 0 <= ppl ->
  wf_kstims2 (init_denv, init_c fdl ppl fds) xs ->
  forall d, monitor_d fdl ppl (mkDmon [] [] [] false false) 0 (ctrace (init_denv, init_c fdl ppl fds) xs) = d ->
  d = [] \/ exists j c, d = [ERR_PROPERTY; j; c] /\ (c = 5 \/ c = 6 \/ c = 9).
Proof. intros fdl ppl fds xs H1 H2 Wf. apply monitor_d_model_569; [apply init_MC; assumption | exact Wf]. Qed.

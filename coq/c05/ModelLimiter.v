(* C05 — the dial limiter (p2p/net/swarm/limiter.go) as an executable state
   machine.  Transcription of the REPAIRED code (commit 243a477: freeFDToken
   re-checks fdConsuming < fdLimit on every iteration).  No proofs here.

   Go state                                model
   ------------------------------------    -------------------------------------
   dl.fdLimit, dl.perPeerLimit             fdLimit, perPeerLimit : Z
   dl.fdConsuming                          fdConsuming : Z
   dl.waitingOnFd  []*dialJob              waitingOnFd : list job
   dl.activePerPeer map[peer]int           activePerPeer : assoc peer -> Z (absent = 0;
                                             an entry that reaches 0 is deleted)
   dl.waitingOnPeerLimit map[peer][]*job   waitingOnPeer : assoc peer -> list job
                                             (absent = []; deleted when emptied)
   `go dl.executeDial(j)` issued,          spawned : list job
     goroutine not yet at j.cancelled()
   goroutine inside dl.dialFunc            dialing : list job
   contexts that are Done                  cancelledG : list Z   (context ids)

   A job carries the identity the harness gave it, its peer, whether
   shouldConsumeFd(addr) holds, and the id of its context (several jobs may
   share one context: the dial worker uses one context for all addresses).

   The atomic sections are the mutex-protected methods AddDialJob,
   finishedDial, clearAllPeerDials, plus the two points of executeDial that
   are outside the lock: the initial j.cancelled() test (LBegin) and the
   return of dialFunc (LReturn).  Context cancellation (LCancel) may be
   interleaved anywhere between them. *)
From Coq Require Import List ZArith Bool.
Import ListNotations.
Local Open Scope Z_scope.

Record job := mkJob { jid : Z; jpeer : Z; jfd : bool; jgrp : Z }.

(* ---- association lists keyed by Z ---------------------------------------- *)
Section Assoc.
  Context {V : Type}.
  Fixpoint aget (d : V) (k : Z) (m : list (Z * V)) : V :=
    match m with
    | [] => d
    | (k', v) :: r => if k' =? k then v else aget d k r
    end.
  Fixpoint adel (k : Z) (m : list (Z * V)) : list (Z * V) :=
    match m with
    | [] => []
    | (k', v) :: r => if k' =? k then adel k r else (k', v) :: adel k r
    end.
  Definition aput (k : Z) (v : V) (m : list (Z * V)) : list (Z * V) := (k, v) :: adel k m.
End Assoc.

(* activePerPeer[p] = v, deleting the entry when v = 0 *)
Definition act_set (p : Z) (v : Z) (m : list (Z * Z)) : list (Z * Z) :=
  if v =? 0 then adel p m else aput p v m.
Definition act_get (p : Z) (m : list (Z * Z)) : Z := aget 0 p m.

(* waitingOnPeerLimit[p] = l, deleting the entry when l = [] *)
Definition wl_set (p : Z) (l : list job) (m : list (Z * list job)) : list (Z * list job) :=
  match l with [] => adel p m | _ => aput p l m end.
Definition wl_get (p : Z) (m : list (Z * list job)) : list job := aget [] p m.

Record lim := mkLim {
  fdLimit : Z;
  perPeerLimit : Z;
  fdConsuming : Z;
  waitingOnFd : list job;
  activePerPeer : list (Z * Z);
  waitingOnPeer : list (Z * list job);
  spawned : list job;
  dialing : list job;
  cancelledG : list Z }.

Definition init_lim (fdl ppl : Z) : lim := mkLim fdl ppl 0 [] [] [] [] [] [].

Definition set_fd (s : lim) (v : Z) : lim :=
  mkLim (fdLimit s) (perPeerLimit s) v (waitingOnFd s) (activePerPeer s) (waitingOnPeer s)
        (spawned s) (dialing s) (cancelledG s).
Definition set_wfd (s : lim) (v : list job) : lim :=
  mkLim (fdLimit s) (perPeerLimit s) (fdConsuming s) v (activePerPeer s) (waitingOnPeer s)
        (spawned s) (dialing s) (cancelledG s).
Definition set_act (s : lim) (v : list (Z * Z)) : lim :=
  mkLim (fdLimit s) (perPeerLimit s) (fdConsuming s) (waitingOnFd s) v (waitingOnPeer s)
        (spawned s) (dialing s) (cancelledG s).
Definition set_wp (s : lim) (v : list (Z * list job)) : lim :=
  mkLim (fdLimit s) (perPeerLimit s) (fdConsuming s) (waitingOnFd s) (activePerPeer s) v
        (spawned s) (dialing s) (cancelledG s).
Definition set_spawned (s : lim) (v : list job) : lim :=
  mkLim (fdLimit s) (perPeerLimit s) (fdConsuming s) (waitingOnFd s) (activePerPeer s) (waitingOnPeer s)
        v (dialing s) (cancelledG s).
Definition set_dialing (s : lim) (v : list job) : lim :=
  mkLim (fdLimit s) (perPeerLimit s) (fdConsuming s) (waitingOnFd s) (activePerPeer s) (waitingOnPeer s)
        (spawned s) v (cancelledG s).
Definition set_cancelled (s : lim) (v : list Z) : lim :=
  mkLim (fdLimit s) (perPeerLimit s) (fdConsuming s) (waitingOnFd s) (activePerPeer s) (waitingOnPeer s)
        (spawned s) (dialing s) v.

(* dj.cancelled(): dj.ctx.Err() != nil *)
Definition is_cancelled (s : lim) (j : job) : bool := existsb (Z.eqb (jgrp j)) (cancelledG s).

(* `go dl.executeDial(j)` *)
Definition spawn (s : lim) (j : job) : lim := set_spawned s (spawned s ++ [j]).

(* addCheckFdLimit *)
Definition add_check_fd (s : lim) (j : job) : lim :=
  if jfd j then
    if fdLimit s <=? fdConsuming s
    then set_wfd s (waitingOnFd s ++ [j])
    else spawn (set_fd s (fdConsuming s + 1)) j
  else spawn s j.

(* the loop of freePeerToken over the local slice `waitlist` *)
Fixpoint peer_loop (wl : list job) (s : lim) : lim :=
  match wl with
  | [] => s
  | next :: rest =>
      (* len(waitlist)==0 ? delete(map, next.peer) : map[next.peer] = waitlist *)
      let s1 := set_wp s (wl_set (jpeer next) rest (waitingOnPeer s)) in
      if is_cancelled s1 next then peer_loop rest s1
      else
        let s2 := set_act s1 (act_set (jpeer next)
                                (act_get (jpeer next) (activePerPeer s1) + 1) (activePerPeer s1)) in
        add_check_fd s2 next
  end.

(* freePeerToken *)
Definition free_peer_token (s : lim) (j : job) : lim :=
  let p := jpeer j in
  let s1 := set_act s (act_set p (act_get p (activePerPeer s) - 1) (activePerPeer s)) in
  peer_loop (wl_get p (waitingOnPeer s1)) s1.

(* the loop of freeFDToken; it re-reads dl.waitingOnFd and dl.fdConsuming on
   every iteration, so it is written over the state with fuel.  Every
   iteration removes the head of waitingOnFd and (Proofs: fd_loop_fuel) nothing
   is appended while the loop runs, so S (length waitingOnFd) iterations
   suffice. *)
Fixpoint fd_loop (fuel : nat) (s : lim) : lim :=
  match fuel with
  | O => s
  | S f =>
      match waitingOnFd s with
      | [] => s
      | next :: rest =>
          if fdConsuming s <? fdLimit s then
            let s1 := set_wfd s rest in
            if is_cancelled s1 next then fd_loop f (free_peer_token s1 next)
            else spawn (set_fd s1 (fdConsuming s1 + 1)) next
          else s
      end
  end.

(* freeFDToken *)
Definition free_fd_token (s : lim) : lim :=
  let s1 := set_fd s (fdConsuming s - 1) in
  fd_loop (S (length (waitingOnFd s1))) s1.

(* finishedDial *)
Definition finished (s : lim) (j : job) : lim :=
  let s1 := if jfd j then free_fd_token s else s in
  free_peer_token s1 j.

(* addCheckPeerLimit (= AddDialJob under the lock) *)
Definition add_job (s : lim) (j : job) : lim :=
  let p := jpeer j in
  if perPeerLimit s <=? act_get p (activePerPeer s)
  then set_wp s (aput p (wl_get p (waitingOnPeer s) ++ [j]) (waitingOnPeer s))
  else add_check_fd (set_act s (act_set p (act_get p (activePerPeer s) + 1) (activePerPeer s))) j.

(* clearAllPeerDials (as repaired by "fix: swarm: clearAllPeerDials dropped the live dial jobs
   of a newer active dial"): only the jobs whose context is done are dropped; the entry is
   deleted when nothing is kept *)
Definition clear_peer (s : lim) (p : Z) : lim :=
  set_wp s (wl_set p (filter (fun j => negb (is_cancelled s j)) (wl_get p (waitingOnPeer s)))
                   (waitingOnPeer s)).

(* the code before that repair: delete(dl.waitingOnPeerLimit, p).  Kept only for the
   non-vacuity example in Properties.v (the witness of the repaired defect). *)
Definition clear_peer_old (s : lim) (p : Z) : lim := set_wp s (adel p (waitingOnPeer s)).

(* remove the first job with the given id *)
Fixpoint take_job (id : Z) (l : list job) : option (job * list job) :=
  match l with
  | [] => None
  | j :: r =>
      if jid j =? id then Some (j, r)
      else match take_job id r with
           | Some (x, r') => Some (x, j :: r')
           | None => None
           end
  end.

Inductive lop :=
| LAdd (j : job)        (* AddDialJob *)
| LCancel (g : Z)       (* the context with id g becomes Done *)
| LClear (p : Z)        (* clearAllPeerDials *)
| LBegin (id : Z)       (* executeDial reaches `if j.cancelled()` *)
| LReturn (id : Z).     (* dialFunc returns; response sent; finishedDial *)

Definition lstep (s : lim) (o : lop) : lim :=
  match o with
  | LAdd j => add_job s j
  | LCancel g => set_cancelled s (g :: cancelledG s)
  | LClear p => clear_peer s p
  | LBegin id =>
      match take_job id (spawned s) with
      | Some (j, r) =>
          let s1 := set_spawned s r in
          if is_cancelled s1 j then finished s1 j
          else set_dialing s1 (dialing s1 ++ [j])
      | None => s
      end
  | LReturn id =>
      match take_job id (dialing s) with
      | Some (j, r) => finished (set_dialing s r) j
      | None => s
      end
  end.

Definition lrun (s : lim) (ops : list lop) : lim := fold_left lstep ops s.

(* All spawned goroutines run up to dialFunc (or finish at once when their
   context is already Done).  This is what the harness waits for after every
   stimulus (synctest.Wait).  Fuel: every LBegin of a cancelled job may spawn
   at most two further jobs, taken from the queues. *)
Fixpoint drain (fuel : nat) (s : lim) : lim :=
  match fuel with
  | O => s
  | S f =>
      match spawned s with
      | [] => s
      | j :: _ => drain f (lstep s (LBegin (jid j)))
      end
  end.

Definition queued (s : lim) : nat :=
  length (waitingOnFd s) + fold_right (fun e acc => length (snd e) + acc)%nat 0%nat (waitingOnPeer s).

Definition drain_fuel (s : lim) : nat := S (length (spawned s) + 2 * queued s).

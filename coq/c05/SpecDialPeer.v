(* C05 — whole Swarm.DialPeer with concurrent callers: the property's sentences as a
   monitor over the implementation's trace, and the wire format of these cases.  The
   traces are also replayed by the composite model (SpecComposite.conform_d_case).
   This file does not depend on any model.  No proofs here.

   Wire format:
     5 fdLimit perPeerLimit nfd (addr)*nfd (stimulus observation)*
   nfd..: the addresses of the case for which shouldConsumeFd holds.
   stimulus:
     1 c sim fdir ok n (addr delay)*n
                    a new goroutine calls s.DialPeer(ctx_c, p) (flags of ctx_c); ok and the
                    ranking are what addrsForDial + rankAddrs answer for this request now
     2 d            virtual time advances by d ns
     3 a kind flag  the parked transport dial of address a ends: 0 failure, 1 connection
                    (flag 1 = direct, 0 = relayed)
     4 c            ctx_c is cancelled
     5 a            the address is put in back-off (left by earlier dials); a < 0: the back-off
                    of the peer has expired (the table is cleared)
     6              the connection gater will park the next request handling of a worker loop
     7              the parked gater call returns
     8 c dt dd      the call of caller c was made with the DialPeer timeout dt ns
                    (network.WithDialPeerTimeout) on a context whose own deadline lay dd ns after
                    the call (dd < 0: a context without deadline); virtual time now passes
                    min(call time + dt, call time + dd): "the caller's context or the dial timeout
                    ended".  To the dialing machinery this is the caller's dial context becoming
                    Done, i.e. the same event as 4 c, and it is decoded as KCancel c; clause 2
                    of the monitor then demands that the call has returned in this step.  The
                    harness chooses dt and dd off the 1 ms grid on which every other timer of a
                    case lies, stops the clock 1 ns before the instant, records the 1 ns step
                    that crosses it as this stimulus and adds the 1 ns to the next stimulus 2.
   observation (after synctest.Wait):
     nr (c kind)*nr   DialPeer calls that returned in this step: 0 a connection to that
                      very peer, 1 an error, 2 the caller's context error (or the deadline
                      error of the dial timeout once that has ended), 3 a connection
                      to another peer
     ns (a)*ns        transport Dial calls started in this step
     ne (a)*ne        transport Dial calls that ended in this step
     inFD inPeer      transport dials in progress: FD-consuming ones / all (one peer)
     fdC actP         limiter.fdConsuming, limiter.activePerPeer[p]
     nAD              len(dsync.dials)
     left             when no caller is inside: goroutines whose stack is in the dial worker loop,
                      a limiter job, activeDial.dial, dialPeer or a transport dial (else 0)
     waiting          callers still inside DialPeer *)
From Coq Require Import List ZArith Bool.
From Verif Require Import lib.Wire c05.ModelLimiter c05.SpecLimiter c05.SpecWorker.
Import ListNotations.
Local Open Scope Z_scope.

Inductive cstim :=
| KCall (c : Z) (sim fdir : bool) (rank : option (list (Z * Z)))
| KAdvance (d : Z) | KRes (a kind : Z) (flag : bool) | KCancel (c : Z) | KBackoff (a : Z)
| KPark | KRelease.

Record dobs := mkDobs {
  d_rets : list (Z * Z); d_starts : list Z; d_ends : list Z;
  d_infd : Z; d_inpeer : Z; d_fdc : Z; d_actp : Z; d_nad : Z; d_left : Z; d_waiting : Z }.

Definition decode_kstim (l : list Z) : option (cstim * list Z) :=
  match l with
  | 1 :: c :: sim :: fdir :: ok :: n :: r =>
      if small n then
        match take_pairs (Z.to_nat n) r with
        | Some (rk, r') => Some (KCall c (zbool sim) (zbool fdir) (if zbool ok then Some rk else None), r')
        | None => None end
      else None
  | 2 :: d :: r => Some (KAdvance d, r)
  | 3 :: a :: k :: f :: r => Some (KRes a k (zbool f), r)
  | 4 :: c :: r => Some (KCancel c, r)
  | 5 :: a :: r => Some (KBackoff a, r)
  | 6 :: r => Some (KPark, r)
  | 7 :: r => Some (KRelease, r)
  | 8 :: c :: _ :: _ :: r => Some (KCancel c, r)
  | _ => None
  end.

Definition decode_dobs (l : list Z) : option (dobs * list Z) :=
  match l with
  | nr :: r0 =>
    if small nr then
    match take_pairs (Z.to_nat nr) r0 with
    | Some (rs, ns :: r1) =>
      if small ns then
      match take_zs (Z.to_nat ns) r1 with
      | Some (ss, ne :: r2) =>
        if small ne then
        match take_zs (Z.to_nat ne) r2 with
        | Some (es, a :: b :: c :: d :: e :: f :: g :: r3) => Some (mkDobs rs ss es a b c d e f g, r3)
        | _ => None end
        else None
      | _ => None end
      else None
    | _ => None end
    else None
  | _ => None
  end.

Fixpoint decode_dtrace (fuel : nat) (l : list Z) : option (list (cstim * dobs)) :=
  match fuel with
  | O => None
  | S f =>
      match l with
      | [] => Some []
      | _ => match decode_kstim l with
             | Some (x, r) =>
                 match decode_dobs r with
                 | Some (o, r') => match decode_dtrace f r' with
                                   | Some t => Some ((x, o) :: t) | None => None end
                 | None => None end
             | None => None end
      end
  end.

Record dmon := mkDmon {
  dm_wait : list Z;       (* callers inside DialPeer *)
  dm_done : list Z;       (* callers that returned *)
  dm_dialed : list Z;     (* addresses handed to a transport since some caller has been waiting *)
  dm_succ : bool;         (* a transport dial produced a connection *)
  dm_park : bool }.       (* a worker loop may be parked inside the connection gater *)

Definition remz (x : Z) (l : list Z) : list Z := filter (fun y => negb (y =? x)) l.

Fixpoint monitor_d (fdl ppl : Z) (m : dmon) (i : Z) (tr : list (cstim * dobs)) : list Z :=
  match tr with
  | [] => []
  | (x, o) :: r =>
      let wait0 := match x with KCall c _ _ _ => c :: dm_wait m | _ => dm_wait m end in
      let succ := dm_succ m || match x with KRes _ k _ => k =? 1 | _ => false end in
      let rets := map fst (d_rets o) in
      let wait1 := fold_right remz wait0 rets in
      let done' := rets ++ dm_done m in
      let dialed' := d_starts o ++ dm_dialed m in
      let park := match x with KPark => true | KRelease => false | _ => dm_park m end in
      (* 1: every return is of a caller that is inside, at most once; never a connection to
            another peer; a connection only if some dial produced one *)
      if negb (forallb (fun e => mem_z (fst e) wait0 && negb (snd e =? 3) &&
                                 (negb (snd e =? 0) || succ)) (d_rets o) && nodup_z done')
      then [ERR_PROPERTY; i; 1]
      (* 2: a caller whose context is cancelled - or whose context's deadline or DialPeer
            timeout passes (stimulus 8) - is released in the same step, with that context error *)
      else if match x with
              | KCancel c => mem_z c (dm_wait m) && negb (existsb (fun e => (fst e =? c) && (snd e =? 2)) (d_rets o))
              | _ => false end
      then [ERR_PROPERTY; i; 2]
      (* 3: while any caller waits, each address is handed to a transport at most once *)
      else if negb (nodup_z dialed') then [ERR_PROPERTY; i; 3]
      (* 4: the caps, on the transport dials in progress and on the limiter's counters *)
      else if negb ((d_infd o <=? fdl) && (d_inpeer o <=? ppl) && (0 <=? d_fdc o) && (d_fdc o <=? fdl) &&
                    (0 <=? d_actp o) && (d_actp o <=? ppl))
      then [ERR_PROPERTY; i; 4]
      (* 5: cancelling one caller does not end the shared attempts of the others *)
      else if match x with
              | KCancel _ => negb (match wait1 with [] => true | _ => false end) &&
                             negb (match d_ends o with [] => true | _ => false end)
              | _ => false end
      then [ERR_PROPERTY; i; 5]
      (* 6: once all callers have returned nothing is left: no transport dial, no token,
            no active dial (worker), no goroutine *)
      else if match wait1 with
              | [] => negb ((d_inpeer o =? 0) && (d_fdc o =? 0) && (d_actp o =? 0) && (d_nad o =? 0) &&
                            ((d_left o =? 0) || park))
              | _ => false end
      then [ERR_PROPERTY; i; 6]
      (* 7: the harness' count of callers inside DialPeer agrees (exactly-once bookkeeping) *)
      else if negb (d_waiting o =? zlen wait1) then [ERR_PROPERTY; i; 7]
      (* 9: every candidate address is attempted: after more virtual time than any ranking
            delay, a caller still waits only while some transport dial is in progress
            (unless a worker loop is parked in the gater, i.e. in user code) *)
      else if match x with
              | KAdvance d => (2000000000 <=? d) && negb park &&
                              negb (match wait1 with [] => true | _ => false end) && (d_inpeer o =? 0)
              | _ => false end
      then [ERR_PROPERTY; i; 9]
      else
        monitor_d fdl ppl
          (mkDmon wait1 done' (match wait1 with [] => [] | _ => dialed' end) succ park) (i + 1) r
  end.

Definition skip_header (l : list Z) : option (Z * Z * list Z * list Z) :=
  match l with
  | fdl :: ppl :: nfd :: r =>
      if small nfd then
        match take_zs (Z.to_nat nfd) r with
        | Some (fds, r') => Some (fdl, ppl, fds, r')
        | None => None end
      else None
  | _ => None
  end.

(* Well-formedness of the stimuli of a case, as far as the theorems about the composite model
   assume it (Properties.c05_composite_monitor_accepts): caller ids are fresh, a ranking lists
   an address once and its delays are in [0, 2 s), the clock does not run backwards.  The driver
   rejects a recorded case that is not of this shape, so the hypothesis holds of every case
   that is judged. *)
Definition rank_ok_b (rank : option (list (Z * Z))) : bool :=
  match rank with
  | Some rk => nodup_z (map fst rk) && forallb (fun x => (0 <=? snd x) && (snd x <? 2000000000)) rk
  | None => true
  end.

Fixpoint wf_stims_b (seen : list Z) (xs : list cstim) : bool :=
  match xs with
  | [] => true
  | KCall c _ _ rank :: r => negb (mem_z c seen) && rank_ok_b rank && wf_stims_b (c :: seen) r
  | KAdvance d :: r => (0 <=? d) && wf_stims_b seen r
  | _ :: r => wf_stims_b seen r
  end.

(* 10: "each address of the peer is handed to a transport at most once" starts with the list
   handed to the worker: what addrsForDial (resolve, strip the /p2p component, de-duplicate,
   filter) and the ranker answer for a request names every address once.  Addresses are
   identified after stripping a trailing /p2p/<peer> component (the harness numbers them so). *)
Fixpoint dup_ranking (i : Z) (xs : list cstim) : list Z :=
  match xs with
  | [] => []
  | KCall _ _ _ (Some rk) :: r => if nodup_z (map fst rk) then dup_ranking (i + 1) r else [ERR_PROPERTY; i; 10]
  | _ :: r => dup_ranking (i + 1) r
  end.

(* 11: "... or with an error once every candidate address has failed or been refused": a call
   returns an error only if every address of its ranking has been reported as failed by its
   transport (a connection to another peer counts as a failure of that address, not as the end
   of the call) or has been in back-off.  Bookkeeping from the stimuli only. *)
Fixpoint find_cand (c : Z) (l : list (Z * option (list Z))) : option (option (list Z)) :=
  match l with [] => None | (k, v) :: r => if k =? c then Some v else find_cand c r end.

Fixpoint err_justified (i : Z) (failed : list Z) (cands : list (Z * option (list Z))) (tr : list (cstim * dobs)) : list Z :=
  match tr with
  | [] => []
  | (x, o) :: r =>
      let failed' := match x with
                     | KRes a k _ => if k =? 1 then failed else a :: failed
                     | KBackoff a => a :: failed
                     | _ => failed end in
      let cands' := match x with KCall c _ _ rank => (c, option_map (map fst) rank) :: cands | _ => cands end in
      if forallb (fun e => negb (snd e =? 1) ||
                           match find_cand (fst e) cands' with
                           | Some (Some rk) => forallb (fun a => mem_z a failed') rk
                           | _ => true end) (d_rets o)
      then err_justified (i + 1) failed' cands' r
      else [ERR_PROPERTY; i; 11]
  end.

(* 12: "every address that is neither filtered out nor in back-off is attempted": after more
   virtual time than any ranking delay, with no worker parked and neither cap of the limiter
   reached, every address in the ranking of a caller that still waits has been handed to a
   transport since some caller has been waiting, or has been in back-off at some time since that
   caller called (an address whose back-off has expired before a later caller joins must be
   attempted for that caller).  Bookkeeping from the stimuli and observations only. *)
Record amon := mkAmon {
  am_wait : list (Z * (list Z * list Z));   (* caller -> (its candidates, in back-off at some time since its call) *)
  am_started : list Z; am_bo : list Z; am_park : bool }.

Fixpoint attempted (fdl ppl : Z) (m : amon) (i : Z) (tr : list (cstim * dobs)) : list Z :=
  match tr with
  | [] => []
  | (x, o) :: r =>
      let added := match x with
                   | KBackoff a => if a <? 0 then [] else [a]
                   | KRes a k _ => if k =? 1 then [] else [a]
                   | _ => [] end in
      let bo := match x with
                | KBackoff a => if a <? 0 then [] else a :: am_bo m
                | KRes a k _ => if k =? 1 then [] else a :: am_bo m
                | _ => am_bo m end in
      let w0 := map (fun e => (fst e, (fst (snd e), added ++ snd (snd e)))) (am_wait m) in
      let w1 := match x with
                | KCall c _ _ (Some rk) => (c, (map fst rk, bo)) :: w0
                | _ => w0 end in
      let w2 := filter (fun e => negb (mem_z (fst e) (map fst (d_rets o)))) w1 in
      let waiting := negb (d_waiting o =? 0) in
      let started := if waiting then d_starts o ++ am_started m else [] in
      let park := match x with KPark => true | KRelease => false | _ => am_park m end in
      if match x with
         | KAdvance d => (2000000000 <=? d) && negb park && (d_actp o <? ppl) && (d_fdc o <? fdl) &&
                         negb (forallb (fun e => forallb (fun a => mem_z a started || mem_z a (snd (snd e))) (fst (snd e))) w2)
         | _ => false end
      then [ERR_PROPERTY; i; 12]
      else attempted fdl ppl (mkAmon w2 started bo park) (i + 1) r
  end.

Definition monitor_d_case (l : list Z) : list Z :=
  match skip_header l with
  | Some (fdl, ppl, _, r) =>
      match decode_dtrace (S (length r)) r with
      | Some tr =>
          match dup_ranking 0 (map fst tr) with (_ :: _) as d => d | [] =>
          if negb (wf_stims_b [] (map fst tr)) then [ERR_MALFORMED; 52] else
          match monitor_d fdl ppl (mkDmon [] [] [] false false) 0 tr with
          | [] =>
              match err_justified 0 [] [] tr with
              | [] =>
                  match attempted fdl ppl (mkAmon [] [] [] false) 0 tr with
                  | [] =>
                      (* the case ends with every caller returned *)
                      match rev tr with
                      | (_, o) :: _ => if d_waiting o =? 0 then [] else [ERR_PROPERTY; zlen tr; 8]
                      | [] => []
                      end
                  | d => d
                  end
              | d => d
              end
          | d => d
          end
          end
      | None => [ERR_MALFORMED; 51]
      end
  | None => [ERR_MALFORMED; 50]
  end.

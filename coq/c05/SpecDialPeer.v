(* C05 — whole Swarm.DialPeer with concurrent callers: the property's sentences as a
   monitor over the implementation's trace.  There is NO model replay at this level
   (conform is trivially empty): the components are modelled and proved separately
   (limiter, worker, dialSync, ranker); their composition is covered by this
   correspondence-level check only (_partial).  No proofs here.

   Wire format:
     5 fdLimit perPeerLimit (stimulus observation)*
   stimulus:
     1 c sim fdir   a new goroutine calls s.DialPeer(ctx_c, p) (flags of ctx_c)
     2 d            virtual time advances by d ns
     3 a kind       the parked transport dial of address a ends: 0 failure, 1 connection
     4 c            ctx_c is cancelled
     5 a            the address is put in back-off (left by earlier dials)
   observation (after synctest.Wait):
     nr (c kind)*nr   DialPeer calls that returned in this step: 0 a connection to that
                      very peer, 1 an error, 2 the caller's context error, 3 a connection
                      to another peer
     ns (a)*ns        transport Dial calls started in this step
     ne (a)*ne        transport Dial calls that ended in this step
     inFD inPeer      transport dials in progress: FD-consuming ones / all (one peer)
     fdC actP         limiter.fdConsuming, limiter.activePerPeer[p]
     nAD              len(dsync.dials)
     left             when no caller is inside: goroutines whose stack is in the dial worker loop,
                      a limiter job, activeDial.dial, dialPeer or a transport dial (else 0)
     waiting          callers still inside DialPeer *)
From Coq Require Import List ZArith Bool.
From Verif Require Import lib.Wire c05.ModelLimiter c05.SpecLimiter c05.SpecWorker.
Import ListNotations.
Local Open Scope Z_scope.

Inductive dstim := DCall (c : Z) | DAdvance | DRes (a k : Z) | DCancel (c : Z) | DBackoff.

Record dobs := mkDobs {
  d_rets : list (Z * Z); d_starts : list Z; d_ends : list Z;
  d_infd : Z; d_inpeer : Z; d_fdc : Z; d_actp : Z; d_nad : Z; d_left : Z; d_waiting : Z }.

Definition decode_dstim (l : list Z) : option (dstim * list Z) :=
  match l with
  | 1 :: c :: _ :: _ :: r => Some (DCall c, r)
  | 2 :: _ :: r => Some (DAdvance, r)
  | 3 :: a :: k :: r => Some (DRes a k, r)
  | 4 :: c :: r => Some (DCancel c, r)
  | 5 :: _ :: r => Some (DBackoff, r)
  | _ => None
  end.

Definition decode_dobs (l : list Z) : option (dobs * list Z) :=
  match l with
  | nr :: r0 =>
    if small nr then
    match take_pairs (Z.to_nat nr) r0 with
    | Some (rs, ns :: r1) =>
      if small ns then
      match take_zs (Z.to_nat ns) r1 with
      | Some (ss, ne :: r2) =>
        if small ne then
        match take_zs (Z.to_nat ne) r2 with
        | Some (es, a :: b :: c :: d :: e :: f :: g :: r3) => Some (mkDobs rs ss es a b c d e f g, r3)
        | _ => None end
        else None
      | _ => None end
      else None
    | _ => None end
    else None
  | _ => None
  end.

Fixpoint decode_dtrace (fuel : nat) (l : list Z) : option (list (dstim * dobs)) :=
  match fuel with
  | O => None
  | S f =>
      match l with
      | [] => Some []
      | _ => match decode_dstim l with
             | Some (x, r) =>
                 match decode_dobs r with
                 | Some (o, r') => match decode_dtrace f r' with
                                   | Some t => Some ((x, o) :: t) | None => None end
                 | None => None end
             | None => None end
      end
  end.

Record dmon := mkDmon {
  dm_wait : list Z;       (* callers inside DialPeer *)
  dm_done : list Z;       (* callers that returned *)
  dm_dialed : list Z;     (* addresses handed to a transport since some caller has been waiting *)
  dm_succ : bool }.       (* a transport dial produced a connection *)

Definition remz (x : Z) (l : list Z) : list Z := filter (fun y => negb (y =? x)) l.

Fixpoint monitor_d (fdl ppl : Z) (m : dmon) (i : Z) (tr : list (dstim * dobs)) : list Z :=
  match tr with
  | [] => []
  | (x, o) :: r =>
      let wait0 := match x with DCall c => c :: dm_wait m | _ => dm_wait m end in
      let succ := dm_succ m || match x with DRes _ k => k =? 1 | _ => false end in
      let rets := map fst (d_rets o) in
      let wait1 := fold_right remz wait0 rets in
      let done' := rets ++ dm_done m in
      let dialed' := d_starts o ++ dm_dialed m in
      (* 1: every return is of a caller that is inside, at most once; never a connection to
            another peer; a connection only if some dial produced one *)
      if negb (forallb (fun e => mem_z (fst e) wait0 && negb (snd e =? 3) &&
                                 (negb (snd e =? 0) || succ)) (d_rets o) && nodup_z done')
      then [ERR_PROPERTY; i; 1]
      (* 2: a cancelled caller is released in the same step, with its context error *)
      else if match x with
              | DCancel c => mem_z c (dm_wait m) && negb (existsb (fun e => (fst e =? c) && (snd e =? 2)) (d_rets o))
              | _ => false end
      then [ERR_PROPERTY; i; 2]
      (* 3: while any caller waits, each address is handed to a transport at most once *)
      else if negb (nodup_z dialed') then [ERR_PROPERTY; i; 3]
      (* 4: the caps, on the transport dials in progress and on the limiter's counters *)
      else if negb ((d_infd o <=? fdl) && (d_inpeer o <=? ppl) && (0 <=? d_fdc o) && (d_fdc o <=? fdl) &&
                    (0 <=? d_actp o) && (d_actp o <=? ppl))
      then [ERR_PROPERTY; i; 4]
      (* 5: cancelling one caller does not end the shared attempts of the others *)
      else if match x with
              | DCancel _ => negb (match wait1 with [] => true | _ => false end) &&
                             negb (match d_ends o with [] => true | _ => false end)
              | _ => false end
      then [ERR_PROPERTY; i; 5]
      (* 6: once all callers have returned nothing is left: no transport dial, no token,
            no active dial (worker), no goroutine *)
      else if match wait1 with
              | [] => negb ((d_inpeer o =? 0) && (d_fdc o =? 0) && (d_actp o =? 0) && (d_nad o =? 0) && (d_left o =? 0))
              | _ => false end
      then [ERR_PROPERTY; i; 6]
      (* 7: the harness' count of callers inside DialPeer agrees (exactly-once bookkeeping) *)
      else if negb (d_waiting o =? zlen wait1) then [ERR_PROPERTY; i; 7]
      else
        monitor_d fdl ppl
          (mkDmon wait1 done' (match wait1 with [] => [] | _ => dialed' end) succ) (i + 1) r
  end.

Definition conform_d_case (l : list Z) : list Z :=
  match l with
  | _ :: _ :: r => match decode_dtrace (S (length r)) r with Some _ => [] | None => [ERR_MALFORMED; 51] end
  | _ => [ERR_MALFORMED; 50]
  end.

Definition monitor_d_case (l : list Z) : list Z :=
  match l with
  | fdl :: ppl :: r =>
      match decode_dtrace (S (length r)) r with
      | Some tr =>
          match monitor_d fdl ppl (mkDmon [] [] [] false) 0 tr with
          | [] =>
              (* the case ends with every caller returned *)
              match rev tr with
              | (_, o) :: _ => if d_waiting o =? 0 then [] else [ERR_PROPERTY; zlen tr; 8]
              | [] => []
              end
          | d => d
          end
      | None => [ERR_MALFORMED; 51]
      end
  | _ => [ERR_MALFORMED; 50]
  end.
